package main

import "fmt"

func (s *simBMC) dispatch(msg []byte) []byte {
	netfn, cmd := msg[1]>>2, msg[5]
	data := msg[6 : len(msg)-1]
	s.reqs = append(s.reqs, fmt.Sprintf("%02x/%02x %x", netfn, cmd, data))
	switch {
	case netfn == 0x06 && cmd == 0x01:
		return ipmiRsp(netfn, cmd, 0, []byte{0x20, 0x81, 0x02, 0x15, 0x02, 0xbf, 0x57, 0x01, 0x00, 0x34, 0x12, 1, 2, 3, 4})
	case netfn == 0x06 && cmd == 0x3c:
		return ipmiRsp(netfn, cmd, 0, nil)
	case netfn == 0x06 && cmd == 0x54:
		idx := int(data[2] & 0x3f)
		lo := idx * 16
		if lo > len(s.suiteData) {
			return ipmiRsp(netfn, cmd, 0xc9, nil)
		}
		hi := lo + 16
		if hi > len(s.suiteData) {
			hi = len(s.suiteData)
		}
		return ipmiRsp(netfn, cmd, 0, append([]byte{1}, s.suiteData[lo:hi]...))
	case netfn == 0x0a && cmd == 0x20:
		d := []byte{0x51}
		d = append(d, le16(uint16(len(s.repo)))...)
		d = append(d, le16(1000)...)
		d = append(d, le32(s.addTS)...)
		d = append(d, le32(s.eraseTS)...)
		d = append(d, 0x2f)
		return ipmiRsp(netfn, cmd, 0, d)
	case netfn == 0x0a && cmd == 0x22:
		s.resv++
		return ipmiRsp(netfn, cmd, 0, le16(s.resv))
	case netfn == 0x0a && cmd == 0x23:
		if s.modifyBeforeGetSDR == s.getSDRCount {
			s.resv++ // cancels the outstanding reservation
			s.addTS += 10
			s.modifyBeforeGetSDR = -1
		}
		s.getSDRCount++
		rid := uint16(data[0]) | uint16(data[1])<<8
		id := uint16(data[2]) | uint16(data[3])<<8
		off, n := int(data[4]), int(data[5])
		if off != 0 && rid != s.resv {
			return ipmiRsp(netfn, cmd, 0xc5, nil)
		}
		idx := -1
		for i, r := range s.repo {
			if r.id == id || (id == 0 && i == 0) || (id == 0xffff && i == len(s.repo)-1) {
				idx = i
				break
			}
		}
		if idx < 0 {
			return ipmiRsp(netfn, cmd, 0xcb, nil)
		}
		r := s.repo[idx]
		full := append([]byte{byte(r.id), byte(r.id >> 8), 0x51, r.typ, byte(len(r.body))}, r.body...)
		next := uint16(0xffff)
		if idx+1 < len(s.repo) {
			next = s.repo[idx+1].id
		}
		if off > len(full) {
			return ipmiRsp(netfn, cmd, 0xc9, nil)
		}
		end := off + n
		if end > len(full) {
			end = len(full)
		}
		return ipmiRsp(netfn, cmd, 0, append(le16(next), full[off:end]...))
	case netfn == 0x04 && cmd == 0x2d:
		return ipmiRsp(netfn, cmd, 0, []byte{s.sensorRaw, s.sensorFlags, 0})
	case netfn == 0x2c && cmd == 0x07:
		// data: dc, type, entity, instance, start
		ent, start := data[2], int(data[4])
		if s.dcmiErrIPMI && ent < 0x40 {
			return ipmiRsp(netfn, cmd, 0xcc, []byte{0xdc})
		}
		ids := s.dcmiIDs[ent]
		d := []byte{0xdc, byte(len(ids))}
		var page []uint16
		if start >= 1 && start-1 < len(ids) {
			page = ids[start-1:]
			if len(page) > s.dcmiPage {
				page = page[:s.dcmiPage]
			}
		}
		d = append(d, byte(len(page)))
		for _, x := range page {
			d = append(d, le16(x)...)
		}
		return ipmiRsp(netfn, cmd, 0, d)
	}
	return ipmiRsp(netfn, cmd, 0xc1, nil)
}

// fsr builds a Full Sensor Record key+body with given params
func fsr(num byte, lin byte, adf byte, m, b int, k1, k2 int, name []byte, tl byte) []byte {
	d := make([]byte, 43)
	d[0] = 0x20
	d[2] = num
	d[3] = 3
	d[4] = 1
	d[7] = 1
	d[8] = 1
	d[15] = adf << 6
	d[16] = 1
	d[18] = lin
	mm := uint16(m) & 0x3ff
	bb := uint16(b) & 0x3ff
	d[19] = byte(mm)
	d[20] = byte(mm>>8) << 6
	d[21] = byte(bb)
	d[22] = byte(bb>>8) << 6
	d[24] = byte(k2&0xf)<<4 | byte(k1&0xf)
	d[42] = tl
	return append(d, name...)
}
