package main

import (
	"bytes"
	"crypto/aes"
	"crypto/cipher"
	"crypto/hmac"
	"crypto/md5"
	"crypto/rand"
	"crypto/sha1"
	"crypto/sha256"
	"encoding/binary"
	"hash"
)

type sdrRec struct {
	id   uint16
	typ  byte
	body []byte // key+body (after 5-byte header)
}

type simBMC struct {
	user     string
	pass, kg []byte
	auth, integ, conf byte
	sidc, sidm uint32
	rm, rc, guid [16]byte
	role  byte
	uname []byte
	sik, k1, k2 []byte
	log   [][]byte
	reqs  []string
	outSeq uint32
	// data
	suiteData []byte
	repo      []sdrRec
	resv      uint16
	addTS, eraseTS uint32
	modifyBeforeGetSDR int // index of GetSDR request before which a modification happens (-1 none)
	getSDRCount int
	sensorRaw byte
	sensorFlags byte
	dcmiIDs map[byte][]uint16
	dcmiPage int
	dcmiErrIPMI bool
}

func hashFn(a byte) func() hash.Hash {
	switch a {
	case 1:
		return sha1.New
	case 2:
		return md5.New
	case 3:
		return sha256.New
	}
	return nil
}
func integFn(a byte) (func() hash.Hash, int) {
	switch a {
	case 1:
		return sha1.New, 12
	case 2:
		return md5.New, 16
	case 4:
		return sha256.New, 16
	}
	return nil, 0
}
func mac(h func() hash.Hash, key []byte, parts ...[]byte) []byte {
	m := hmac.New(h, key)
	for _, p := range parts {
		m.Write(p)
	}
	return m.Sum(nil)
}
func le16(v uint16) []byte { return []byte{byte(v), byte(v >> 8)} }
func le32(v uint32) []byte { b := make([]byte, 4); binary.LittleEndian.PutUint32(b, v); return b }
func csum(b []byte) byte {
	var s byte
	for _, x := range b {
		s += x
	}
	return -s
}

func wrapSessionless(ptype byte, payload []byte) []byte {
	out := []byte{6, 0, 0xff, 7, 6, ptype, 0, 0, 0, 0, 0, 0, 0, 0, byte(len(payload)), byte(len(payload) >> 8)}
	return append(out, payload...)
}

func ipmiRsp(netfn, cmd, cc byte, data []byte) []byte {
	m := []byte{0x81, (netfn | 1) << 2, 0, 0x20, 1 << 2, cmd, cc}
	m[2] = csum(m[:2])
	m = append(m, data...)
	m = append(m, csum(m[3:]))
	return m
}

func (s *simBMC) handle(pkt []byte) []byte {
	s.log = append(s.log, append([]byte(nil), pkt...))
	if len(pkt) < 16 || pkt[4] != 6 {
		return nil
	}
	ptype := pkt[5] & 0x3f
	sid := binary.LittleEndian.Uint32(pkt[6:10])
	plen := int(binary.LittleEndian.Uint16(pkt[14:16]))
	payload := pkt[16 : 16+plen]
	switch ptype {
	case 0x10:
		s.sidm = binary.LittleEndian.Uint32(payload[4:8])
		s.auth, s.integ, s.conf = payload[12], payload[20], payload[28]
		s.sidc = 0xA0A1A2A3
		r := []byte{payload[0], 0, payload[1], 0}
		r = append(r, le32(s.sidm)...)
		r = append(r, le32(s.sidc)...)
		r = append(r, 0, 0, 0, 8, s.auth, 0, 0, 0, 1, 0, 0, 8, s.integ, 0, 0, 0, 2, 0, 0, 8, s.conf, 0, 0, 0)
		return wrapSessionless(0x11, r)
	case 0x12:
		if hashFn(s.auth) == nil {
			return nil // a BMC would refuse; the simulator just drops the packet
		}
		copy(s.rm[:], payload[8:24])
		s.role = payload[24]
		ul := int(payload[27])
		s.uname = append([]byte(nil), payload[28:28+ul]...)
		for i := range s.rc {
			s.rc[i] = byte(0xC0 + i)
		}
		for i := range s.guid {
			s.guid[i] = byte(0x10 + i)
		}
		h := hashFn(s.auth)
		ac := mac(h, s.pass, le32(s.sidm), le32(s.sidc), s.rm[:], s.rc[:], s.guid[:], []byte{s.role, byte(ul)}, s.uname)
		r := []byte{payload[0], 0, 0, 0}
		r = append(r, le32(s.sidm)...)
		r = append(r, s.rc[:]...)
		r = append(r, s.guid[:]...)
		r = append(r, ac...)
		return wrapSessionless(0x13, r)
	case 0x14:
		h := hashFn(s.auth)
		want := mac(h, s.pass, s.rc[:], le32(s.sidm), []byte{s.role, byte(len(s.uname))}, s.uname)
		if !bytes.Equal(want, payload[8:]) {
			return wrapSessionless(0x15, append([]byte{payload[0], 0x0f, 0, 0}, le32(s.sidm)...))
		}
		kg := s.kg
		if len(kg) == 0 {
			kg = s.pass
		}
		s.sik = mac(h, kg, s.rm[:], s.rc[:], []byte{s.role, byte(len(s.uname))}, s.uname)
		s.k1 = mac(h, s.sik, bytes.Repeat([]byte{1}, 20))
		s.k2 = mac(h, s.sik, bytes.Repeat([]byte{2}, 20))
		icv := mac(h, s.sik, s.rm[:], le32(s.sidc), s.guid[:])
		switch s.auth {
		case 1:
			icv = icv[:12]
		case 3:
			icv = icv[:16]
		}
		r := []byte{payload[0], 0, 0, 0}
		r = append(r, le32(s.sidm)...)
		r = append(r, icv...)
		return wrapSessionless(0x15, r)
	case 0x00:
		if sid == 0 {
			msg := payload
			rsp := s.dispatch(msg)
			if rsp == nil {
				return nil
			}
			return wrapSessionless(0, rsp)
		}
		ih, il := integFn(s.integ)
		body := pkt[4:]
		sig := body[len(body)-il:]
		if sid != s.sidc || !bytes.Equal(mac(ih, s.k1, body[:len(body)-il])[:il], sig) {
			return nil
		}
		blk, _ := aes.NewCipher(s.k2[:16])
		pt := make([]byte, plen-16)
		cipher.NewCBCDecrypter(blk, payload[:16]).CryptBlocks(pt, payload[16:])
		padn := int(pt[len(pt)-1])
		msg := pt[:len(pt)-1-padn]
		rsp := s.dispatch(msg)
		if rsp == nil {
			return nil
		}
		return s.encWrap(rsp)
	}
	return nil
}

func (s *simBMC) encWrap(msg []byte) []byte {
	padn := 15 - len(msg)%16
	pt := append([]byte(nil), msg...)
	for i := 1; i <= padn; i++ {
		pt = append(pt, byte(i))
	}
	pt = append(pt, byte(padn))
	iv := make([]byte, 16)
	rand.Read(iv)
	blk, _ := aes.NewCipher(s.k2[:16])
	ct := make([]byte, len(pt))
	cipher.NewCBCEncrypter(blk, iv).CryptBlocks(ct, pt)
	payload := append(iv, ct...)
	s.outSeq++
	b := []byte{6, 0xC0}
	b = append(b, le32(s.sidm)...)
	b = append(b, le32(s.outSeq)...)
	b = append(b, byte(len(payload)), byte(len(payload)>>8))
	b = append(b, payload...)
	padn = (4 - (len(b)+2)%4) % 4
	for i := 0; i < padn; i++ {
		b = append(b, 0xff)
	}
	b = append(b, byte(padn), 7)
	ih, il := integFn(s.integ)
	b = append(b, mac(ih, s.k1, b)[:il]...)
	return append([]byte{6, 0, 0xff, 7}, b...)
}
