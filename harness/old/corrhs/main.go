package main

// corrhs: correspondence prototype for session establishment (C01 C02 C12 slice, single-suite path).

import (
	"bufio"
	"bytes"
	"context"
	"crypto/rand"
	"encoding/hex"
	"errors"
	"flag"
	"fmt"
	mrand "math/rand"
	"os"
	"path/filepath"
	"strings"
	"time"

	"github.com/cenkalti/backoff/v4"
	"github.com/gebn/bmc"
	"github.com/gebn/bmc/pkg/ipmi"
)

type detReader struct{ n byte }

func (d *detReader) Read(p []byte) (int, error) {
	for i := range p {
		d.n += 13
		p[i] = d.n
	}
	return len(p), nil
}

func hx(b []byte) string {
	if len(b) == 0 {
		return "-"
	}
	return hex.EncodeToString(b)
}

// mutation of the n-th setup reply (1 = Open Session Rsp, 2 = RAKP 2, 3 = RAKP 4)
type mut struct {
	which int
	kind  string
	arg   int
}

func applyMut(m mut, idx int, r []byte) []byte {
	if m.which != idx || r == nil {
		return r
	}
	r = append([]byte(nil), r...)
	payload := r[16:]
	switch m.kind {
	case "status":
		payload[1] = byte(m.arg)
	case "tag":
		payload[0] = byte(m.arg)
	case "flip": // flip one bit of the payload
		if m.arg/8 < len(payload) {
			payload[m.arg/8] ^= 1 << (m.arg % 8)
		}
	case "trunc": // shorter payload with a consistent wrapper length
		if m.arg < len(payload) {
			r = r[:16+m.arg]
			r[14], r[15] = byte(m.arg), byte(m.arg>>8)
		}
	case "truncraw": // datagram cut without fixing the wrapper length
		if m.arg < len(r) {
			r = r[:m.arg]
		}
	}
	return r
}

func main() {
	out := flag.String("out", ".", "output directory")
	seed := flag.Int64("seed", 1, "PRNG seed")
	variant := flag.Int("variant", 0, "0 = pinned tree")
	flag.Parse()
	rng := mrand.New(mrand.NewSource(*seed))
	of, _ := os.Create(filepath.Join(*out, "ops.txt"))
	pf, _ := os.Create(filepath.Join(*out, "impl.txt"))
	ops, impl := bufio.NewWriter(of), bufio.NewWriter(pf)
	defer func() { ops.Flush(); impl.Flush(); of.Close(); pf.Close() }()
	n := 0

	type scen struct {
		auth, integ, conf  byte
		user, pass, kg     []byte
		bmcPass            []byte
		priv               byte
		lookup             bool
		force              [3]int // algorithms the BMC answers with (-1 = echo)
		m                  mut
		prefix             string // per-exchange prefix of L (lost) / G (runt) / D (duplicate of previous reply) outcomes
	}
	var scens []scen
	rb := func(n int) []byte { b := make([]byte, n); rng.Read(b); return b }
	base := func() scen {
		return scen{auth: 3, integ: 4, conf: 1, user: []byte("admin"), pass: []byte("secret"), priv: 4, force: [3]int{-1, -1, -1}}
	}
	// C01: every suite x KG x lookup x privilege, random credentials of every length
	for _, a := range []byte{1, 2, 3} {
		for _, i := range []byte{1, 2, 4} {
			for rep := 0; rep < 12; rep++ {
				s := base()
				s.auth, s.integ = a, i
				s.user = rb(rng.Intn(17))
				for k := range s.user {
					s.user[k] = s.user[k]%94 + 33
				}
				s.pass = rb(rng.Intn(21))
				if rep%2 == 0 {
					s.kg = rb(20)
				}
				s.lookup = rep%3 == 0
				s.priv = byte(rng.Intn(6))
				scens = append(scens, s)
			}
		}
	}
	// C02: wrong password / KG, statuses, tags, bit flips, truncations
	for _, a := range []byte{1, 2, 3} {
		s := base(); s.auth = a; s.bmcPass = []byte("other"); scens = append(scens, s)
		for which := 1; which <= 3; which++ {
			for _, st := range []int{1, 2, 0x0d, 0x11, 0xff} {
				s := base(); s.auth = a; s.m = mut{which, "status", st}; scens = append(scens, s)
			}
			s := base(); s.auth = a; s.m = mut{which, "tag", 1 + rng.Intn(255)}; scens = append(scens, s)
			plen := map[int]int{1: 36, 2: 40 + map[byte]int{1: 20, 2: 16, 3: 32}[a], 3: 8 + map[byte]int{1: 12, 2: 16, 3: 16}[a]}[which]
			for bit := 0; bit < plen*8; bit += 1 + rng.Intn(5) {
				s := base(); s.auth = a; s.m = mut{which, "flip", bit}; scens = append(scens, s)
			}
			for l := 0; l < plen; l++ {
				s := base(); s.auth = a; s.m = mut{which, "trunc", l}; scens = append(scens, s)
			}
			for l := 0; l < 16+plen; l += 3 {
				s := base(); s.auth = a; s.m = mut{which, "truncraw", l}; s.prefix = "x"; scens = append(scens, s)
			}
		}
	}
	// C12: algorithms the BMC answers with
	for a := -1; a <= 4; a++ {
		for i := -1; i <= 5; i++ {
			for c := -1; c <= 3; c++ {
				s := base(); s.force = [3]int{a, i, c}; scens = append(scens, s)
			}
		}
	}
	// retries inside the exchanges
	for _, p := range []string{"L", "G", "LG", "D", "GD", "LLG"} {
		s := base(); s.prefix = p; scens = append(scens, s)
	}

	for _, sc := range scens {
		rand.Reader = &detReader{n: byte(n)}
		bp := sc.bmcPass
		if bp == nil {
			bp = sc.pass
		}
		b := &simBMC{user: string(sc.user), pass: bp, kg: sc.kg, modifyBeforeGetSDR: -1}
		var sent, feed []string
		var prevReply []byte
		exch := 0
		var lastReq []byte
		step := 0
		recv := make([]byte, 512)
		var cancel context.CancelFunc
		send := func(ctx context.Context, p []byte) ([]byte, error) {
			sent = append(sent, hex.EncodeToString(p))
			if !bytes.Equal(p, lastReq) {
				exch++
				step = 0
				lastReq = append([]byte(nil), p...)
			}
			var r []byte
			pfx := sc.prefix
			if pfx == "x" {
				pfx = ""
			}
			if step < len(pfx) {
				k := pfx[step]
				step++
				switch k {
				case 'L':
					feed = append(feed, "L")
					return nil, errors.New("timeout")
				case 'G':
					r = []byte{6, 0, 0xff}
				case 'D':
					if prevReply == nil {
						r = []byte{6, 0, 0xff, 7}
					} else {
						r = prevReply
					}
				}
			} else {
				step++
				if sc.m.kind == "truncraw" && sc.m.which == exch && step > 1 {
					// the truncated datagram was retried: now stop the call
					feed = append(feed, "L")
					cancel()
					return nil, errors.New("cancelled")
				}
				r = b.handle(p)
				if exch == 1 && r != nil { // forced algorithms in the Open Session Response
					r = append([]byte(nil), r...)
					for k, off := range []int{16 + 16, 16 + 24, 16 + 32} {
						if sc.force[k] >= 0 {
							r[off] = byte(sc.force[k])
						}
					}
					b.auth, b.integ, b.conf = r[32], r[40], r[48]
				}
				r = applyMut(sc.m, exch, r)
				if r == nil {
					feed = append(feed, "L")
					cancel()
					return nil, errors.New("bmc dropped the packet")
				}
				prevReply = r
			}
			feed = append(feed, "R:"+hex.EncodeToString(r))
			for i := range recv {
				recv[i] = 0xEE
			}
			return recv[:copy(recv, r)], nil
		}
		t := bmc.VerifNewV2SessionlessTransport(send, 20*time.Millisecond, &backoff.ZeroBackOff{})
		var ctx context.Context
		ctx, cancel = context.WithTimeout(context.Background(), 2*time.Second)
		res := ""
		func() {
			defer func() {
				if r := recover(); r != nil {
					res = "crashed"
				}
			}()
			sess, err := t.NewV2Session(ctx, &bmc.V2SessionOpts{
				SessionOpts:          bmc.SessionOpts{Username: string(sc.user), Password: sc.pass, MaxPrivilegeLevel: ipmi.PrivilegeLevel(sc.priv)},
				KG:                   sc.kg,
				PrivilegeLevelLookup: sc.lookup,
				CipherSuites:         []ipmi.CipherSuite{{AuthenticationAlgorithm: ipmi.AuthenticationAlgorithm(sc.auth), IntegrityAlgorithm: ipmi.IntegrityAlgorithm(sc.integ), ConfidentialityAlgorithm: ipmi.ConfidentialityAlgorithm(sc.conf)}},
			})
			switch {
			case err == nil:
				res = fmt.Sprintf("ok local=%d remote=%d algs=%d/%d/%d sik=%s k1=%s k2=%s", sess.LocalID, sess.RemoteID,
					sess.AuthenticationAlgorithm, sess.IntegrityAlgorithm, sess.ConfidentialityAlgorithm, hx(sess.SIK), hx(sess.K(1)), hx(sess.K(2)))
			case errors.Is(err, bmc.ErrIncorrectPassword):
				res = "badpw"
			default:
				res = "err"
			}
		}()
		cancel()
		// Rm is bytes 24..40 of the first RAKP 1 datagram (RMCP 4 + wrapper 12 + 8)
		var rm []byte
		for _, s := range sent {
			d, _ := hex.DecodeString(s)
			if len(d) > 40 && d[5] == 0x12 {
				rm = d[24:40]
				break
			}
		}
		if rm == nil {
			rm = make([]byte, 16)
		}
		lk := 0
		if sc.lookup {
			lk = 1
		}
		n++
		fd := "-"
		if len(feed) > 0 {
			fd = strings.Join(feed, ",")
		}
		fmt.Fprintf(ops, "%d hs %d %s %s %s %d %d %d %d %d %s %s\n", n, *variant, hx(sc.user), hx(sc.pass), hx(sc.kg), sc.priv, lk, sc.auth, sc.integ, sc.conf, hx(rm), fd)
		ss := "-"
		if len(sent) > 0 {
			ss = strings.Join(sent, ",")
		}
		fmt.Fprintf(impl, "%d sent=%s res=%s\n", n, ss, res)
	}
	fmt.Fprintf(os.Stderr, "corrhs: %d scenarios\n", n)
}
