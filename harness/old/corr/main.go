package main

// corr: correspondence harness (scratch prototype, C20 scalar part).
// Writes <out>/ops.txt (one op per line) and <out>/impl.txt (what the real code returned).

import (
	"bufio"
	"encoding/hex"
	"flag"
	"fmt"
	"math/rand"
	"os"
	"path/filepath"

	"github.com/gebn/bmc/pkg/dcmi"
	"github.com/gebn/bmc/pkg/ipmi"
)

type sink struct {
	ops, impl *bufio.Writer
	n         int
}

func (s *sink) emit(op string, result string) {
	s.n++
	fmt.Fprintf(s.ops, "%d %s\n", s.n, op)
	fmt.Fprintf(s.impl, "%d %s\n", s.n, result)
}

func b2s(b bool) string {
	if b {
		return "1"
	}
	return "0"
}

func main() {
	out := flag.String("out", ".", "output directory")
	seed := flag.Int64("seed", 1, "PRNG seed")
	tier := flag.String("tier", "quick", "quick|thorough")
	flag.Parse()
	of, _ := os.Create(filepath.Join(*out, "ops.txt"))
	pf, _ := os.Create(filepath.Join(*out, "impl.txt"))
	s := &sink{ops: bufio.NewWriter(of), impl: bufio.NewWriter(pf)}
	defer func() { s.ops.Flush(); s.impl.Flush(); of.Close(); pf.Close() }()
	rng := rand.New(rand.NewSource(*seed))

	for b := 0; b < 256; b++ {
		x := byte(b)
		s.emit(fmt.Sprintf("prim bcdDecode %d", b), fmt.Sprint(ipmi.VerifBCDDecode(x)))
		s.emit(fmt.Sprintf("prim ones %d", b), fmt.Sprint(ipmi.VerifOnes(x)))
		for _, f := range []struct {
			name string
			fmt  ipmi.AnalogDataFormat
		}{{"adfUnsigned", 0}, {"adfOnes", 1}, {"adfTwos", 2}} {
			p, err := f.fmt.Parser() // through the exported API
			if err != nil {
				panic(err)
			}
			s.emit(fmt.Sprintf("prim %s %d", f.name, b), fmt.Sprint(p.Parse(x)))
		}
		s.emit(fmt.Sprintf("prim ccIsTemporary %d", b), b2s(ipmi.CompletionCode(x).IsTemporary()))
		s.emit(fmt.Sprintf("prim nfIsRequest %d", b), b2s(ipmi.NetworkFunction(x).IsRequest()))
		s.emit(fmt.Sprintf("prim eiSystemRelative %d", b), b2s(ipmi.EntityInstance(x).IsSystemRelative()))
		s.emit(fmt.Sprintf("prim eiDeviceRelative %d", b), b2s(ipmi.EntityInstance(x).IsDeviceRelative()))
		s.emit(fmt.Sprintf("prim linIsLinear %d", b), b2s(ipmi.Linearisation(x).IsLinear()))
		s.emit(fmt.Sprintf("prim linIsLinearised %d", b), b2s(ipmi.Linearisation(x).IsLinearised()))
		s.emit(fmt.Sprintf("prim linIsNonLinear %d", b), b2s(ipmi.Linearisation(x).IsNonLinear()))
		s.emit(fmt.Sprintf("prim secondsMultiplier %d", b), fmt.Sprint(dcmi.VerifSecondsMultiplier(x)))
		s.emit(fmt.Sprintf("prim rollingAvgPeriodDuration %d", b), fmt.Sprint(int64(dcmi.VerifRollingAvgPeriodDuration(x))))
	}
	// two's complement: every width 1..16, every value of that width (thorough) / widths 4, 10 + sample (quick)
	for bits := 1; bits <= 16; bits++ {
		if *tier == "quick" && bits != 4 && bits != 10 && bits != 8 {
			continue
		}
		for n := 0; n < 1<<bits; n++ {
			r := ipmi.VerifTwos([2]byte{byte(n >> 8), byte(n)}, uint8(bits))
			s.emit(fmt.Sprintf("prim twos %d %d %d", n>>8, n&0xff, bits), fmt.Sprint(r))
		}
	}
	// checksum: all lengths 0..64, random content, plus all single bytes
	for b := 0; b < 256; b++ {
		s.emit(fmt.Sprintf("prim checksum %02x", b), fmt.Sprint(ipmi.VerifChecksum([]byte{byte(b)})))
	}
	reps := 20
	if *tier == "thorough" {
		reps = 2000
	}
	for l := 0; l <= 64; l++ {
		for i := 0; i < reps; i++ {
			d := make([]byte, l)
			rng.Read(d)
			h := hex.EncodeToString(d)
			if l == 0 {
				h = "-"
			}
			s.emit("prim checksum "+h, fmt.Sprint(ipmi.VerifChecksum(d)))
		}
	}
	fmt.Fprintf(os.Stderr, "corr: %d ops\n", s.n)
}
