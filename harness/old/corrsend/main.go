package main

// corrsend: correspondence prototype for the in-session send loop (C03 C04 C09 C10 C11 slice).

import (
	"bufio"
	"context"
	"crypto/rand"
	"encoding/hex"
	"errors"
	"flag"
	"fmt"
	mrand "math/rand"
	"os"
	"path/filepath"
	"strings"
	"time"

	"github.com/cenkalti/backoff/v4"
	"github.com/gebn/bmc"
	"github.com/gebn/bmc/pkg/ipmi"
	"github.com/google/gopacket"
)

type detReader struct{ n byte }

func (d *detReader) Read(p []byte) (int, error) {
	for i := range p {
		d.n += 7
		p[i] = d.n
	}
	return len(p), nil
}

// rawCmd is an ipmi.Command with arbitrary operation/body that captures the response bytes
type rawBody []byte

func (r rawBody) LayerType() gopacket.LayerType { return gopacket.LayerTypePayload }
func (r rawBody) SerializeTo(b gopacket.SerializeBuffer, _ gopacket.SerializeOptions) error {
	d, err := b.PrependBytes(len(r))
	copy(d, r)
	return err
}

type capture struct{ got []byte }

func (c *capture) DecodeFromBytes(d []byte, _ gopacket.DecodeFeedback) error {
	c.got = append([]byte(nil), d...)
	return nil
}
func (c *capture) CanDecode() gopacket.LayerClass   { return gopacket.LayerTypePayload }
func (c *capture) NextLayerType() gopacket.LayerType { return gopacket.LayerTypeZero }
func (c *capture) LayerPayload() []byte              { return nil }

type rawCmd struct {
	op  ipmi.Operation
	lun ipmi.LUN
	req rawBody
	rsp capture
}

func (c *rawCmd) Name() string                          { return "raw" }
func (c *rawCmd) Operation() *ipmi.Operation            { return &c.op }
func (c *rawCmd) RemoteLUN() ipmi.LUN                   { return c.lun }
func (c *rawCmd) Request() gopacket.SerializableLayer   { return c.req }
func (c *rawCmd) Response() gopacket.DecodingLayer      { return &c.rsp }

func hx(b []byte) string {
	if len(b) == 0 {
		return "-"
	}
	return hex.EncodeToString(b)
}

func main() {
	out := flag.String("out", ".", "output directory")
	seed := flag.Int64("seed", 1, "PRNG seed")
	depth := flag.Int("depth", 3, "script depth (exhaustive over the alphabet)")
	variant := flag.Int("variant", 0, "0 = pinned tree")
	flag.Parse()
	rand.Reader = &detReader{}
	rng := mrand.New(mrand.NewSource(*seed))
	of, _ := os.Create(filepath.Join(*out, "ops.txt"))
	pf, _ := os.Create(filepath.Join(*out, "impl.txt"))
	ops, impl := bufio.NewWriter(of), bufio.NewWriter(pf)
	defer func() { ops.Flush(); impl.Flush(); of.Close(); pf.Close() }()

	// alphabet of per-attempt outcomes: F final ok, E final error code, B busy, T timeout code,
	// X authentic reply to another command, U unauthenticated forged, W wrong session id, G too short for RMCP, L lost
	alphabet := []byte("FEBTXUWGL")
	var scripts []string
	var gen func(prefix string, d int)
	gen = func(prefix string, d int) {
		if d == 0 {
			scripts = append(scripts, prefix)
			return
		}
		for _, a := range alphabet {
			gen(prefix+string(a), d-1)
		}
	}
	for d := 1; d <= *depth; d++ {
		gen("", d)
	}
	n := 0
	for si, suite := range []ipmi.CipherSuite{ipmi.CipherSuite3, ipmi.CipherSuite17, {AuthenticationAlgorithm: 2, IntegrityAlgorithm: 2, ConfidentialityAlgorithm: 1}} {
		for _, script := range scripts {
			if si > 0 && len(script) > 2 {
				continue // full depth on suite 3 only
			}
			b := &simBMC{user: "admin", pass: []byte("secret"), modifyBeforeGetSDR: -1}
			var sent [][]byte
			var feed []string // reply items for the model
			pos := 0
			handshake := true
			recv := make([]byte, 512)
			// the command under test: random operation + body
			fn := byte(rng.Intn(0x18)) << 1
			cmdNo := byte(rng.Intn(256))
			req := make([]byte, rng.Intn(20))
			rng.Read(req)
			send := func(ctx context.Context, p []byte) ([]byte, error) {
				if handshake {
					r := b.handle(p)
					if r == nil {
						return nil, errors.New("timeout")
					}
					return recv[:copy(recv, r)], nil
				}
				sent = append(sent, append([]byte(nil), p...))
				if pos >= len(script) {
					feed = append(feed, "L")
					return nil, errors.New("script exhausted")
				}
				kind := script[pos]
				pos++
				var r []byte
				body := []byte{0x11, 0x22, 0x33, byte(pos)}
				switch kind {
				case 'F':
					r = b.encWrap(ipmiRsp(fn, cmdNo, 0, body))
				case 'E':
					r = b.encWrap(ipmiRsp(fn, cmdNo, 0xC1, nil))
				case 'B':
					r = b.encWrap(ipmiRsp(fn, cmdNo, 0xC0, nil))
				case 'T':
					r = b.encWrap(ipmiRsp(fn, cmdNo, 0xC3, body))
				case 'X':
					r = b.encWrap(ipmiRsp(fn^2, cmdNo+1, 0, []byte{0x99, 0x98}))
				case 'U': // forged: no auth, no encryption, attacker's choice of session id
					m := ipmiRsp(fn, cmdNo, 0, []byte{0x66})
					w := []byte{6, 0, 0xEF, 0xBE, 0xAD, 0xDE, 1, 0, 0, 0, byte(len(m)), 0}
					r = append([]byte{6, 0, 0xff, 7}, append(w, m...)...)
				case 'W':
					sidm := b.sidm
					b.sidm = 0x12345678
					r = b.encWrap(ipmiRsp(fn, cmdNo, 0, body))
					b.sidm = sidm
				case 'G':
					r = []byte{6, 0, 0xff}
				case 'L':
					feed = append(feed, "L")
					return nil, errors.New("timeout")
				}
				feed = append(feed, "R:"+hex.EncodeToString(r))
				for i := range recv {
					recv[i] = 0xEE
				}
				return recv[:copy(recv, r)], nil
			}
			t := bmc.VerifNewV2SessionlessTransport(send, 20*time.Millisecond, &backoff.ZeroBackOff{})
			ctx, cancel := context.WithTimeout(context.Background(), 2*time.Second)
			sess, err := t.NewV2Session(ctx, &bmc.V2SessionOpts{
				SessionOpts:  bmc.SessionOpts{Username: "admin", Password: []byte("secret"), MaxPrivilegeLevel: 4},
				CipherSuites: []ipmi.CipherSuite{suite},
			})
			if err != nil {
				panic(err)
			}
			handshake = false
			// a scripted call: context "expires" when the script is exhausted -> emulate by treating it as lost
			c := &rawCmd{op: ipmi.Operation{Function: ipmi.NetworkFunction(fn), Command: ipmi.CommandNumber(cmdNo)}, req: req}
			inb0 := sess.AuthenticatedSequenceNumbers.Inbound
			code, err := sess.SendCommand(ctx, c)
			cancel()
			res := ""
			switch {
			case err == nil:
				res = fmt.Sprintf("ok %d %s", uint8(code), hx(c.rsp.got))
			default:
				res = "transport"
			}
			var ivs []byte
			var sentHex []string
			for _, p := range sent {
				sentHex = append(sentHex, hex.EncodeToString(p))
				if len(p) >= 32 {
					ivs = append(ivs, p[16:32]...)
				}
			}
			ivs = append(ivs, make([]byte, 16)...) // spare draw
			n++
			fmt.Fprintf(ops, "%d send %d %d %s %s %d %d %d %d %d 0 0 %s %s %s\n", n, *variant, suite.IntegrityAlgorithm,
				hx(sess.K(1)), hx(sess.K(2)[:16]), sess.LocalID, sess.RemoteID, inb0, fn, cmdNo, hx(req), hx(ivs), strings.Join(feed, ","))
			ss := "-"
			if len(sentHex) > 0 {
				ss = strings.Join(sentHex, ",")
			}
			fmt.Fprintf(impl, "%d sent=%s res=%s inbound=%d\n", n, ss, res, sess.AuthenticatedSequenceNumbers.Inbound)
		}
	}
	fmt.Fprintf(os.Stderr, "corrsend: %d scenarios\n", n)
}
