package main

// corrdec: correspondence harness prototype for decoders (C05/C07/C17 slice).

import (
	"bufio"
	"crypto/aes"
	"crypto/cipher"
	"encoding/hex"
	"flag"
	"fmt"
	"hash"
	"math/rand"
	"os"
	"path/filepath"

	"github.com/gebn/bmc/pkg/ipmi"
	"github.com/google/gopacket"
)

type toyHash struct{ buf []byte }

func (t *toyHash) Write(p []byte) (int, error) { t.buf = append(t.buf, p...); return len(p), nil }
func (t *toyHash) Sum(b []byte) []byte {
	var s byte
	for _, x := range t.buf {
		s += x
	}
	for i := 0; i < 12; i++ {
		b = append(b, s+byte(i*len(t.buf)))
	}
	return b
}
func (t *toyHash) Reset()         { t.buf = t.buf[:0] }
func (t *toyHash) Size() int      { return 12 }
func (t *toyHash) BlockSize() int { return 1 }

var _ hash.Hash = (*toyHash)(nil)

func toyMac(m []byte) []byte { t := &toyHash{}; t.Write(m); return t.Sum(nil) }

func hx(b []byte) string {
	if len(b) == 0 {
		return "-"
	}
	return hex.EncodeToString(b)
}
func b2s(b bool) string {
	if b {
		return "1"
	}
	return "0"
}

type sink struct {
	ops, impl *bufio.Writer
	n         int
}

func (s *sink) emit(op, result string) {
	s.n++
	fmt.Fprintf(s.ops, "%d %s\n", s.n, op)
	fmt.Fprintf(s.impl, "%d %s\n", s.n, result)
}

// run decodes `data` on a slice with the given tail (nil tail = exact capacity) and renders the outcome
func run(layer string, prev, data, tail, key []byte) (out string) {
	defer func() {
		if r := recover(); r != nil {
			out = "panic"
		}
	}()
	buf := make([]byte, len(data), len(data)+len(tail))
	copy(buf, data)
	buf = append(buf, tail...)[:len(data)]
	if tail == nil {
		buf = buf[:len(data):len(data)]
	}
	df := gopacket.NilDecodeFeedback
	switch layer {
	case "message":
		m := &ipmi.Message{}
		if err := m.DecodeFromBytes(buf, df); err != nil {
			return "err"
		}
		return fmt.Sprintf("ok fn=%d body=%d ent=%d cmd=%d ra=%d rl=%d c1=%d la=%d ll=%d seq=%d cc=%d c2=%d contents=%s payload=%s",
			m.Function, m.Body, m.Enterprise, m.Command, m.RemoteAddress, m.RemoteLUN, m.Checksum1, m.LocalAddress, m.LocalLUN, m.Sequence, uint8(m.CompletionCode), m.Checksum2, hx(m.Contents), hx(m.Payload))
	case "v2":
		v := &ipmi.V2Session{IntegrityAlgorithm: &toyHash{}}
		if err := v.DecodeFromBytes(buf, df); err != nil {
			return "err"
		}
		return fmt.Sprintf("ok enc=%s auth=%s pt=%d ent=%d pid=%d id=%d seq=%d len=%d pad=%d sig=%s contents=%s payload=%s",
			b2s(v.Encrypted), b2s(v.Authenticated), v.PayloadType, v.Enterprise, v.PayloadID, v.ID, v.Sequence, v.Length, v.Pad, hx(v.Signature), hx(v.Contents), hx(v.Payload))
	case "rakp2":
		r := &ipmi.RAKPMessage2{}
		if err := r.DecodeFromBytes(buf, df); err != nil {
			return "err"
		}
		return fmt.Sprintf("ok tag=%d status=%d sid=%d rnd=%s guid=%s ac=%s", r.Tag, uint8(r.Status), r.RemoteConsoleSessionID, hx(r.ManagedSystemRandom[:]), hx(r.ManagedSystemGUID[:]), hx(r.AuthCode))
	case "deviceid":
		g := &ipmi.GetDeviceIDRsp{}
		if prev != nil {
			g.DecodeFromBytes(append([]byte(nil), prev...), df)
		}
		if err := g.DecodeFromBytes(buf, df); err != nil {
			return "err"
		}
		sup := 0
		for i, f := range []bool{g.SupportsSensorDevice, g.SupportsSDRRepositoryDevice, g.SupportsSELDevice, g.SupportsFRUInventoryDevice, g.SupportsIPMBEventReceiverDevice, g.SupportsIPMBEventGeneratorDevice, g.SupportsBridgeDevice, g.SupportsChassisDevice} {
			if f {
				sup |= 1 << i
			}
		}
		return fmt.Sprintf("ok id=%d sdrs=%s rev=%d avail=%s maj=%d min=%d imaj=%d imin=%d sup=%d man=%d prod=%d aux=%s",
			g.ID, b2s(g.ProvidesSDRs), g.Revision, b2s(g.Available), g.MajorFirmwareRevision, g.MinorFirmwareRevision, g.MajorIPMIVersion, g.MinorIPMIVersion, sup, g.Manufacturer, g.Product, hx(g.AuxiliaryFirmwareRevision[:]))
	case "v1":
		v := &ipmi.V1Session{}
		if prev != nil {
			v.DecodeFromBytes(append([]byte(nil), prev...), df)
		}
		if err := v.DecodeFromBytes(buf, df); err != nil {
			return "err"
		}
		return fmt.Sprintf("ok at=%d seq=%d id=%d ac=%s len=%d contents=%s payload=%s", v.AuthType, v.Sequence, v.ID, hx(v.AuthCode[:]), v.Length, hx(v.Contents), hx(v.Payload))
	case "aes":
		var k [16]byte
		copy(k[:], key)
		a, _ := ipmi.NewAES128CBC(k)
		if err := a.DecodeFromBytes(buf, df); err != nil {
			return "err"
		}
		return fmt.Sprintf("ok iv=%s payload=%s", hx(a.Contents), hx(a.Payload))
	}
	return "bad-layer"
}

func main() {
	out := flag.String("out", ".", "output directory")
	seed := flag.Int64("seed", 1, "PRNG seed")
	variant := flag.Int("variant", 0, "0 = pinned tree, 1 = repaired")
	reps := flag.Int("reps", 40, "random inputs per (layer, length)")
	flag.Parse()
	of, _ := os.Create(filepath.Join(*out, "ops.txt"))
	pf, _ := os.Create(filepath.Join(*out, "impl.txt"))
	s := &sink{ops: bufio.NewWriter(of), impl: bufio.NewWriter(pf)}
	defer func() { s.ops.Flush(); s.impl.Flush(); of.Close(); pf.Close() }()
	rng := rand.New(rand.NewSource(*seed))
	tailA := make([]byte, 64)
	tailB := make([]byte, 64)
	for i := range tailA {
		tailA[i], tailB[i] = 0xAA, 0x55
	}
	do := func(layer string, prev, data, key []byte) {
		// exact capacity
		op := fmt.Sprintf("dec %s %d %s - %s", layer, *variant, hx(prev), hx(data))
		if key != nil {
			op += " " + hx(key)
		}
		s.emit(op, run(layer, prev, data, nil, key))
		// window: two poisons; differing results = the decode depends on bytes beyond len
		ra, rb := run(layer, prev, data, tailA, key), run(layer, prev, data, tailB, key)
		r := ra
		if ra != rb {
			r = "overread"
		}
		op = fmt.Sprintf("dec %s %d %s %s %s", layer, *variant, hx(prev), hx(tailA), hx(data))
		if key != nil {
			op += " " + hx(key)
		}
		s.emit(op, r)
	}
	rnd := func(n int) []byte { b := make([]byte, n); rng.Read(b); return b }
	csum := func(b []byte) byte { var x byte; for _, v := range b { x += v }; return -x }

	// message: all lengths, random and checksum-correct, all NetFn classes
	for l := 0; l <= 24; l++ {
		for i := 0; i < *reps; i++ {
			d := rnd(l)
			if l >= 7 && i%4 != 0 {
				switch i % 5 {
				case 1:
					d[1] = 0x2c<<2 | d[1]&3
				case 2:
					d[1] = 0x2d<<2 | d[1]&3
				case 3:
					d[1] = 0x2e<<2 | d[1]&3
				case 4:
					d[1] = 0x2f<<2 | d[1]&3
				}
				d[2] = csum(d[:2])
				d[l-1] = csum(d[3 : l-1])
			}
			do("message", nil, d, nil)
		}
	}
	// rakp2, deviceid, v1: all lengths
	for l := 0; l <= 60; l++ {
		for i := 0; i < *reps/4+1; i++ {
			d := rnd(l)
			if l > 1 && i%2 == 0 {
				d[1] = 0
			}
			do("rakp2", nil, d, nil)
		}
	}
	for l := 9; l <= 18; l++ {
		for pl := 10; pl <= 17; pl++ {
			do("deviceid", rnd(pl), rnd(l), nil)
		}
	}
	for l := 0; l <= 40; l++ {
		for _, pl := range []int{0, 12, 30} {
			d := rnd(l)
			if l > 0 && rng.Intn(2) == 0 {
				d[0] = 0
			}
			p := rnd(pl)
			if pl > 0 {
				p[0] = 2
			}
			var pp []byte
			if pl > 0 {
				pp = p
			}
			do("v1", pp, d, nil)
		}
	}
	// v2: valid wrappers (auth / unauth / OEM) with the toy MAC, plus mutations and all short lengths
	for l := 0; l <= 30; l++ {
		for i := 0; i < *reps/4+1; i++ {
			d := rnd(l)
			if l > 0 {
				d[0] = 6
			}
			if l > 1 && i%3 == 0 {
				d[1] = 2 | d[1]&0xC0
			}
			do("v2", nil, d, nil)
		}
	}
	for plen := 0; plen <= 20; plen++ {
		for i := 0; i < *reps/2+1; i++ {
			auth := i%2 == 0
			oem := i%5 == 0
			flags := byte(rng.Intn(2)) << 7
			if auth {
				flags |= 0x40
			}
			pt := byte(rng.Intn(0x3f))
			if oem {
				pt = 2
			} else if pt == 2 {
				pt = 0
			}
			w := []byte{6, flags | pt}
			if oem {
				w = append(w, rnd(6)...)
			}
			w = append(w, rnd(8)...)
			w = append(w, byte(plen), 0)
			w = append(w, rnd(plen)...)
			if auth {
				pad := (4 - (len(w)+2)%4) % 4
				switch i % 7 {
				case 1:
					pad = rng.Intn(6) // non-canonical pad
				}
				for j := 0; j < pad; j++ {
					w = append(w, 0xff)
				}
				w = append(w, byte(pad), 7)
				sig := toyMac(w)
				switch i % 9 {
				case 2:
					sig[3] ^= 1
				case 4:
					sig = sig[:5]
				case 6:
					sig = nil
				}
				w = append(w, sig...)
			} else if i%3 == 0 {
				w = append(w, rnd(rng.Intn(4))...) // trailing bytes on an unauthenticated packet
			}
			if i%11 == 0 && len(w) > 12 {
				w = w[:12+rng.Intn(len(w)-12)]
			}
			do("v2", nil, w, nil)
		}
	}
	// aes: valid encryptions of every length, bad pads, and the pad-16 construction
	for mlen := 0; mlen <= 40; mlen++ {
		for i := 0; i < *reps/4+1; i++ {
			key := rnd(16)
			iv := rnd(16)
			msg := rnd(mlen)
			padn := 15 - mlen%16
			pt := append([]byte(nil), msg...)
			for j := 1; j <= padn; j++ {
				pt = append(pt, byte(j))
			}
			pt = append(pt, byte(padn))
			switch i % 6 {
			case 1:
				pt[len(pt)-1] = byte(rng.Intn(256))
			case 2:
				if padn > 0 {
					pt[len(pt)-2] ^= 1
				}
			case 3: // pad byte 16 with matching pattern: pt must end 01..10h 10h; needs >= 17 bytes before
				if len(pt) >= 32 {
					for j := 0; j < 16; j++ {
						pt[len(pt)-17+j] = byte(j + 1)
					}
					pt[len(pt)-1] = 16
				} else {
					iv[15] = 1
					for j := 0; j < 15; j++ {
						pt[j] = byte(j + 2)
					}
					pt[15] = 16
					pt = pt[:16]
				}
			}
			blk, _ := aes.NewCipher(key)
			ct := make([]byte, len(pt))
			cipher.NewCBCEncrypter(blk, iv).CryptBlocks(ct, pt)
			d := append(append([]byte(nil), iv...), ct...)
			if i%13 == 5 {
				d = d[:len(d)-rng.Intn(3)-1]
			}
			do("aes", nil, d, key)
		}
	}
	for l := 0; l <= 20; l++ {
		do("aes", nil, rnd(l), rnd(16))
	}
	fmt.Fprintf(os.Stderr, "corrdec: %d ops\n", s.n)
}
