module harness

go 1.22

require (
	github.com/cenkalti/backoff/v4 v4.3.0
	github.com/gebn/bmc v0.0.0
	github.com/google/gopacket v1.1.19
	github.com/prometheus/client_golang v1.20.5
	github.com/prometheus/client_model v0.6.1
)

require (
	github.com/beorn7/perks v1.0.1 // indirect
	github.com/cespare/xxhash/v2 v2.3.0 // indirect
	github.com/munnerz/goautoneg v0.0.0-20191010083416-a7dc8b61c822 // indirect
	github.com/prometheus/common v0.60.0 // indirect
	github.com/prometheus/procfs v0.15.1 // indirect
	golang.org/x/sys v0.26.0 // indirect
	google.golang.org/protobuf v1.35.1 // indirect
)

replace github.com/gebn/bmc => /repo
