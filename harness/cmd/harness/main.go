// harness: generates operations for a scenario, executes them against the real gebn/bmc code
// (built from /repo with -tags verif) and writes ops.txt / impl.txt for the Lean driver to answer.
package main

import (
	"bufio"
	"encoding/json"
	"flag"
	"fmt"
	"math/rand"
	"os"
	"path/filepath"
	"sort"
	"strings"
	"time"
)

// Op is one line of the protocol: "<id> <class> <kind> <args…>".
// class: 'P' = inside the domain of the property's theorem (a disagreement with the model is a
// violation of the property on this very input), 'M' = correspondence only; followed by '1' when the
// case is non-trivial by the scenario's rule, '0' otherwise.
type Op struct {
	Class      byte
	NonTrivial bool
	Kind       string
	Args       []string
}

func (o Op) line(id int) string {
	nt := '0'
	if o.NonTrivial {
		nt = '1'
	}
	return fmt.Sprintf("%d %c%c %s %s", id, o.Class, nt, o.Kind, strings.Join(o.Args, " "))
}

// executors: kind -> func(args) (outcome, verdict). verdict "" = nothing to report; otherwise a
// model-independent violation of the property observed on the implementation ("panic", "stale", …).
var executors = map[string]func(args []string) (string, string){}

// scenarios: name -> generator
type genCtx struct {
	rng  *rand.Rand
	tier string
	emit func(Op)
	stat map[string]int
}

func (g *genCtx) thorough() bool { return g.tier == "thorough" }
func (g *genCtx) count(k string) { g.stat[k]++ }

var scenarios = map[string]func(g *genCtx){}

// opWatchdog: no operation of any scenario takes anywhere near this long on a tree where calls honour their contexts (the longest
// ones are the SDR retrievals with their 0.5 s back-offs and the concurrent workloads: well under a minute). An executor that has
// not returned by then is sitting in a library call that ignores its context: the op is reported as a hang (a verdict, i.e. a
// failing input) and the scenario goes on; the goroutine is left behind.
var opWatchdog = 120 * time.Second

func safeExec(op Op) (out string, verdict string) {
	ex, ok := executors[op.Kind]
	if !ok {
		return "no-executor", ""
	}
	type res struct{ out, verdict string }
	ch := make(chan res, 1)
	go func() {
		var r res
		defer func() {
			if p := recover(); p != nil {
				r = res{"panic", fmt.Sprintf("panic: %v", p)}
			}
			ch <- r
		}()
		staleSeen = ""
		r.out, r.verdict = ex(op.Args)
		if staleSeen != "" && r.verdict == "" {
			r.verdict = staleSeen
		}
	}()
	select {
	case r := <-ch:
		return r.out, r.verdict
	case <-time.After(opWatchdog):
		return "hang", fmt.Sprintf("the operation had not returned after %v: a call of the library ignores its context", opWatchdog)
	}
}

// oneLine makes a verdict fit the line protocol: no spaces, no line breaks
func oneLine(v string) string {
	return strings.NewReplacer(" ", "_", "\n", "_/_", "\r", "", "\t", "_").Replace(v)
}

func parseOpLine(l string) (int, Op, bool) {
	f := strings.Fields(l)
	if len(f) < 3 {
		return 0, Op{}, false
	}
	var id int
	fmt.Sscan(f[0], &id)
	return id, Op{Class: f[1][0], NonTrivial: len(f[1]) > 1 && f[1][1] == '1', Kind: f[2], Args: f[3:]}, true
}

func main() {
	if len(os.Args) < 2 {
		fmt.Fprintln(os.Stderr, "usage: harness run <scenario> -out DIR [-seed N] [-tier quick|thorough] | harness exec -in ops.txt | harness list")
		os.Exit(2)
	}
	switch os.Args[1] {
	case "list":
		var names []string
		for n := range scenarios {
			names = append(names, n)
		}
		sort.Strings(names)
		fmt.Println(strings.Join(names, "\n"))
	case "run":
		fs := flag.NewFlagSet("run", flag.ExitOnError)
		out := fs.String("out", ".", "output directory")
		seed := fs.Int64("seed", 1, "PRNG seed")
		tier := fs.String("tier", "quick", "quick|thorough")
		name := os.Args[2]
		fs.Parse(os.Args[3:])
		gen, ok := scenarios[name]
		if !ok {
			fmt.Fprintln(os.Stderr, "unknown scenario", name)
			os.Exit(2)
		}
		os.MkdirAll(*out, 0o755)
		of, _ := os.Create(filepath.Join(*out, "ops.txt"))
		pf, _ := os.Create(filepath.Join(*out, "impl.txt"))
		ops, impl := bufio.NewWriterSize(of, 1<<20), bufio.NewWriterSize(pf, 1<<20)
		n := 0
		g := &genCtx{rng: rand.New(rand.NewSource(*seed)), tier: *tier, stat: map[string]int{}}
		// a changed tree on which (say) every command times out would make each op wait for its context: after 25 ops that
		// took longer than 1.9 s the rest of the scenario is skipped — the slow ops themselves already carry the verdicts
		slow, hangs := 0, 0
		// VERIF_ONLY=<kind>,… restricts a scenario to the op kinds that bear on the property being checked (the `dec`
		// scenario reads it as a list of layer names instead)
		var onlyKinds map[string]bool
		if o := os.Getenv("VERIF_ONLY"); o != "" && name != "dec" {
			onlyKinds = map[string]bool{}
			for _, k := range strings.Split(o, ",") {
				onlyKinds[k] = true
			}
		}
		g.emit = func(op Op) {
			if onlyKinds != nil && !onlyKinds[op.Kind] {
				return
			}
			if slow >= 25 && op.Kind != "conc" && op.Kind != "concu" && op.Kind != "time" {
				g.stat["skipped-after-25-slow-ops"]++
				return
			}
			// two operations that never returned (see opWatchdog) already carry the verdict; the goroutines they left behind
			// may hold library state, so nothing more is run in this process
			if hangs >= 2 {
				g.stat["skipped-after-2-hangs"]++
				return
			}
			n++
			t0 := time.Now()
			o, v := safeExec(op)
			if o == "hang" {
				hangs++
			}
			if time.Since(t0) > 1900*time.Millisecond && op.Kind != "conc" && op.Kind != "concu" && op.Kind != "time" {
				slow++
			}
			fmt.Fprintln(ops, op.line(n))
			if v == "" {
				v = "-"
			}
			fmt.Fprintf(impl, "%d %s | %s\n", n, oneLine(v), o)
			g.stat["kind:"+op.Kind]++
			first := strings.Fields(o + " .")[0]
			switch first {
			case "ok", "err", "panic", "overread", "prev-failed":
			default:
				first = "value"
			}
			g.stat["outcome:"+op.Kind+":"+first]++
		}
		// corpus of past failures first
		if cf, err := os.Open(filepath.Join(os.Getenv("VERIF_ROOT"), "corpus", name+".ops")); err == nil {
			sc := bufio.NewScanner(cf)
			sc.Buffer(make([]byte, 1<<20), 1<<26)
			for sc.Scan() {
				if _, op, ok := parseOpLine(sc.Text()); ok {
					g.emit(op)
					g.stat["corpus"]++
				}
			}
			cf.Close()
		}
		func() {
			// library code reached directly by a generator (not through an executor) may panic on a changed tree: that is a
			// finding, not a harness failure
			defer func() {
				if r := recover(); r != nil {
					n++
					fmt.Fprintf(ops, "%d P1 genpanic %s\n", n, name)
					fmt.Fprintf(impl, "%d %s | panic\n", n, strings.ReplaceAll(fmt.Sprintf("panic in library code called while generating inputs: %v", r), " ", "_"))
				}
			}()
			gen(g)
		}()
		ops.Flush()
		impl.Flush()
		of.Close()
		pf.Close()
		sf, _ := os.Create(filepath.Join(*out, "stats.json"))
		json.NewEncoder(sf).Encode(g.stat)
		sf.Close()
		fmt.Fprintf(os.Stderr, "harness: %s: %d ops\n", name, n)
	case "concsolo":
		if os.Getenv("VERIF_CONC_UDP") == "1" {
			useUDP = true
		}
		var seed int64
		fmt.Sscan(os.Args[2], &seed)
		fmt.Println(concWorkload(seed))
	case "exec":
		fs := flag.NewFlagSet("exec", flag.ExitOnError)
		in := fs.String("in", "", "ops file")
		fs.Parse(os.Args[2:])
		f, err := os.Open(*in)
		if err != nil {
			fmt.Fprintln(os.Stderr, err)
			os.Exit(2)
		}
		sc := bufio.NewScanner(f)
		sc.Buffer(make([]byte, 1<<20), 1<<26)
		w := bufio.NewWriter(os.Stdout)
		for sc.Scan() {
			id, op, ok := parseOpLine(sc.Text())
			if !ok {
				continue
			}
			o, v := safeExec(op)
			if v == "" {
				v = "-"
			}
			fmt.Fprintf(w, "%d %s | %s\n", id, oneLine(v), o)
		}
		w.Flush()
	default:
		fmt.Fprintln(os.Stderr, "unknown command", os.Args[1])
		os.Exit(2)
	}
}
