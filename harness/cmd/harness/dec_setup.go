package main

// Session-setup layers: RMCP+ Open Session Response, RAKP Messages 1 (decode side), 2 and 4, the session
// selector and the IPMI v1.5 session header.

import (
	"math/rand"

	"github.com/gebn/bmc/pkg/ipmi"
	"github.com/google/gopacket"
)

type suEmitFn = func(class byte, nt bool, prev, data, tail []byte)

var setupPoison = []byte{0xEE, 0xEE, 0xEE, 0xEE, 0xEE, 0xEE, 0xEE, 0xEE, 0xEE, 0xEE, 0xEE, 0xEE, 0xEE, 0xEE, 0xEE, 0xEE,
	0xEE, 0xEE, 0xEE, 0xEE, 0xEE, 0xEE, 0xEE, 0xEE, 0xEE, 0xEE, 0xEE, 0xEE, 0xEE, 0xEE, 0xEE, 0xEE,
	0xEE, 0xEE, 0xEE, 0xEE, 0xEE, 0xEE, 0xEE, 0xEE, 0xEE, 0xEE, 0xEE, 0xEE, 0xEE, 0xEE, 0xEE, 0xEE}

func suCat(parts ...[]byte) []byte {
	var out []byte
	for _, p := range parts {
		out = append(out, p...)
	}
	return out
}

// suNonZero returns a random non-zero RMCP+ status code.
func suNonZero(rng *rand.Rand) byte { return byte(1 + rng.Intn(255)) }

// suAlgPayload: type, 2 reserved, length (08 / 00 = wildcard), algorithm in bits 5:0, 3 reserved (13.17).
func suAlgPayload(typ byte, wildcard bool, alg byte) []byte {
	if wildcard {
		return []byte{typ, 0, 0, 0, 0, 0, 0, 0}
	}
	return []byte{typ, 0, 0, 8, alg & 0x3f, 0, 0, 0}
}

// suOpenRspOK builds a 36-byte successful Open Session Response; w selects the wildcard payloads (bit i).
func suOpenRspOK(rng *rand.Rand, w int) []byte {
	return suCat([]byte{byte(rng.Intn(256)), 0, byte(rng.Intn(6)), 0}, rbytes(rng, 8),
		suAlgPayload(0, w&1 != 0, byte(rng.Intn(64))),
		suAlgPayload(1, w&2 != 0, byte(rng.Intn(64))),
		suAlgPayload(2, w&4 != 0, byte(rng.Intn(64))))
}

func suOpenRspFailed(rng *rand.Rand) []byte {
	return suCat([]byte{byte(rng.Intn(256)), suNonZero(rng), 0}, rbytes(rng, 4))
}

func suRakp1Valid(rng *rand.Rand, ulen int) []byte {
	role := byte(rng.Intn(6))
	if rng.Intn(2) == 0 {
		role |= 0x10
	}
	user := make([]byte, ulen)
	for i := range user {
		user[i] = byte(0x21 + rng.Intn(0x5e)) // printable ASCII, no NUL
	}
	return suCat([]byte{byte(rng.Intn(256)), 0, 0, 0}, rbytes(rng, 4), rbytes(rng, 16), []byte{role, 0, 0, byte(ulen)}, user)
}

var suCodeLens = []int{0, 12, 16, 20, 32}

func suRakp2OK(rng *rand.Rand, acLen int) []byte {
	return suCat([]byte{byte(rng.Intn(256)), 0, 0, 0}, rbytes(rng, 4), rbytes(rng, 16), rbytes(rng, 16), rbytes(rng, acLen))
}

func suRakpFailed(rng *rand.Rand) []byte {
	return suCat([]byte{byte(rng.Intn(256)), suNonZero(rng), 0, 0}, rbytes(rng, 4))
}

func suRakp4OK(rng *rand.Rand, icvLen int) []byte {
	return suCat([]byte{byte(rng.Intn(256)), 0, 0, 0}, rbytes(rng, 4), rbytes(rng, icvLen))
}

var suV1AuthTypes = []byte{1, 2, 4, 5}

func suV1Valid(rng *rand.Rand, auth bool, plen int) []byte {
	if !auth {
		return suCat([]byte{0}, rbytes(rng, 8), []byte{byte(plen)}, rbytes(rng, plen))
	}
	return suCat([]byte{suV1AuthTypes[rng.Intn(len(suV1AuthTypes))]}, rbytes(rng, 8), rbytes(rng, 16), []byte{byte(plen)}, rbytes(rng, plen))
}

// suPairs emits every ordered pair of forms (reuse, C17), each also as a window into a poisoned buffer.
func suPairs(emit suEmitFn, forms [][]byte) {
	for _, a := range forms {
		for _, b := range forms {
			emit('P', true, a, b, nil)
			emit('P', true, a, b, setupPoison)
		}
	}
}

// suRakp1Layer gives RAKPMessage1 (which has DecodeFromBytes but no CanDecode) the DecodingLayer interface;
// the reflection dump flattens the embedded struct.
type suRakp1Layer struct{ ipmi.RAKPMessage1 }

func (l *suRakp1Layer) CanDecode() gopacket.LayerClass { return l.LayerType() }

func init() {
	registerLayer(&layerSpec{
		name:  "opensessionrsp",
		fresh: func() gopacket.DecodingLayer { return &ipmi.OpenSessionRsp{} },
		min:   1,
		valid: func(rng *rand.Rand) []byte {
			switch rng.Intn(6) {
			case 0:
				return []byte{suNonZero(rng)} // status byte alone (Supermicro)
			case 1:
				return suOpenRspFailed(rng)
			default:
				return suOpenRspOK(rng, rng.Intn(8))
			}
		},
		extra: func(g *genCtx, emit func(byte, bool, []byte, []byte, []byte)) {
			rng := g.rng
			// every wildcard combination, fresh and reused after every other form
			var forms [][]byte
			for w := 0; w < 8; w++ {
				forms = append(forms, suOpenRspOK(rng, w))
			}
			forms = append(forms, suOpenRspFailed(rng), []byte{suNonZero(rng)}, suCat(suOpenRspFailed(rng), rbytes(rng, 29)))
			suPairs(emit, forms)
			// a lone 00: "success" in one byte must be rejected
			emit('P', true, nil, []byte{0}, nil)
			emit('P', true, forms[0], []byte{0}, setupPoison)
			// success status with every length 2…44 but 36: rejected; error status with the same lengths: 7-byte form
			long := suCat(suOpenRspOK(rng, 0), rbytes(rng, 8))
			for l := 2; l <= len(long); l++ {
				emit('P', true, nil, long[:l], setupPoison)
				emit('P', true, forms[8], long[:l], nil)
				e := append([]byte(nil), long[:l]...)
				e[1] = suNonZero(rng)
				emit('M', true, nil, e, setupPoison)
				emit('M', true, forms[3], e, nil)
			}
			for k := 0; k < 3; k++ {
				off := 12 + 8*k
				// wrong payload type byte
				for _, t := range []byte{0, 1, 2, 3, 0x80, 0xff} {
					c := suOpenRspOK(rng, 0)
					c[off] = t
					emit('P', true, nil, c, nil)
					emit('P', true, forms[1], c, setupPoison)
				}
				// wildcard length with a concrete algorithm (in bits 5:0 / only in the reserved bits 7:6)
				for _, a := range []byte{0x01, 0x3f, 0x40, 0x80, 0xc0, 0xc1} {
					c := suOpenRspOK(rng, 0)
					c[off+3], c[off+4] = 0, a
					emit('P', a&0x3f != 0, nil, c, nil)
					emit('M', true, forms[2], c, setupPoison)
				}
				// payload lengths other than 00 / 08, algorithm bytes with the reserved bits set
				for _, l := range []byte{1, 7, 9, 0x10, 0xff} {
					c := suOpenRspOK(rng, 0)
					c[off+3], c[off+4] = l, byte(rng.Intn(256))
					emit('M', true, nil, c, setupPoison)
					emit('M', true, forms[7], c, nil)
				}
			}
			// reserved bytes and the whole privilege byte set
			c := suOpenRspOK(rng, 5)
			c[2], c[3] = 0xf4, 0xff
			emit('M', true, nil, c, nil)
			emit('M', true, forms[9], c, setupPoison)
		},
	})

	registerLayer(&layerSpec{
		name:  "rakp1",
		fresh: func() gopacket.DecodingLayer { return &suRakp1Layer{} },
		min:   28,
		valid: func(rng *rand.Rand) []byte { return suRakp1Valid(rng, rng.Intn(17)) },
		extra: func(g *genCtx, emit func(byte, bool, []byte, []byte, []byte)) {
			rng := g.rng
			var forms [][]byte
			for n := 0; n <= 16; n++ {
				forms = append(forms, suRakp1Valid(rng, n))
			}
			suPairs(emit, forms)
			for n := 0; n <= 16; n++ {
				v := forms[n]
				// user name cut short by 1…n bytes: rejected, also when the missing bytes exist beyond len
				for l := 28; l < len(v); l++ {
					emit('P', true, nil, v[:l], v[l:])
					emit('P', true, forms[16-n], v[:l], setupPoison)
				}
				// trailing bytes after the user name are ignored
				emit('M', true, nil, suCat(v, rbytes(rng, 3)), setupPoison)
				emit('M', true, forms[(n+5)%17], suCat(v, rbytes(rng, 3)), nil)
			}
			// user-name lengths above 16, with enough bytes present
			for _, n := range []int{17, 18, 32, 127, 128, 227, 228, 255} {
				v := suCat(suRakp1Valid(rng, 0), rbytes(rng, 260))
				v[27] = byte(n)
				emit('P', true, nil, v, nil)
				emit('P', true, forms[3], v[:40], setupPoison)
			}
			// reserved bits of the role byte and reserved bytes set
			v := suRakp1Valid(rng, 5)
			v[1], v[2], v[3], v[24], v[25], v[26] = 0xff, 0xff, 0xff, v[24]|0xe0, 0xff, 0xff
			emit('M', true, nil, v, setupPoison)
			emit('M', true, forms[9], v, nil)
		},
	})

	registerLayer(&layerSpec{
		name:  "rakp2",
		fresh: func() gopacket.DecodingLayer { return &ipmi.RAKPMessage2{} },
		min:   8,
		valid: func(rng *rand.Rand) []byte {
			if rng.Intn(4) == 0 {
				return suRakpFailed(rng)
			}
			return suRakp2OK(rng, suCodeLens[rng.Intn(len(suCodeLens))])
		},
		extra: func(g *genCtx, emit func(byte, bool, []byte, []byte, []byte)) {
			rng := g.rng
			var forms [][]byte
			for _, n := range suCodeLens {
				forms = append(forms, suRakp2OK(rng, n))
			}
			forms = append(forms, suRakpFailed(rng), suCat(suRakpFailed(rng), rbytes(rng, 40)))
			suPairs(emit, forms)
			// success status without both 16-byte fields: the specification demands an error; the pinned tree
			// slices data[8:24] / data[24:40] unguarded
			full := suRakp2OK(rng, 4)
			for l := 8; l < 40; l++ {
				emit('P', true, nil, full[:l], nil)
				emit('P', true, nil, full[:l], setupPoison)
				emit('P', true, nil, full[:l], setupPoison[:16]) // capacity reaches [8:24] at most
				emit('P', true, forms[1], full[:l], nil)
			}
			// every authentication-code length 0…33
			for n := 0; n <= 33; n++ {
				emit('P', true, forms[n%len(forms)], suRakp2OK(rng, n), setupPoison)
			}
			// error status with every length 8…44: the rest is ignored, fields are zeroed
			e := suCat(suRakpFailed(rng), rbytes(rng, 36))
			for l := 8; l <= len(e); l++ {
				emit('M', true, forms[2], e[:l], setupPoison)
			}
			v := suRakp2OK(rng, 12)
			v[2], v[3] = 0xff, 0xff
			emit('M', true, nil, v, nil)
		},
	})

	registerLayer(&layerSpec{
		name:  "rakp4",
		fresh: func() gopacket.DecodingLayer { return &ipmi.RAKPMessage4{} },
		min:   8,
		valid: func(rng *rand.Rand) []byte {
			if rng.Intn(4) == 0 {
				return suRakpFailed(rng)
			}
			return suRakp4OK(rng, suCodeLens[rng.Intn(len(suCodeLens))])
		},
		extra: func(g *genCtx, emit func(byte, bool, []byte, []byte, []byte)) {
			rng := g.rng
			var forms [][]byte
			for _, n := range suCodeLens {
				forms = append(forms, suRakp4OK(rng, n))
			}
			forms = append(forms, suRakpFailed(rng), suCat(suRakpFailed(rng), rbytes(rng, 12)))
			suPairs(emit, forms)
			for n := 0; n <= 33; n++ {
				emit('P', true, forms[n%len(forms)], suRakp4OK(rng, n), setupPoison)
				emit('M', true, forms[n%len(forms)], suCat(suRakpFailed(rng), rbytes(rng, n)), setupPoison)
			}
			v := suRakp4OK(rng, 12)
			v[2], v[3] = 0xff, 0xff
			emit('M', true, nil, v, nil)
		},
	})

	registerLayer(&layerSpec{
		name:  "selector",
		fresh: func() gopacket.DecodingLayer { return &ipmi.SessionSelector{} },
		min:   1,
		valid: func(rng *rand.Rand) []byte {
			// the start of a v2.0 (authentication type 06) or a v1.5 (00, 01, 02, 04, 05) session wrapper
			switch rng.Intn(2) {
			case 0:
				return suCat([]byte{6}, rbytes(rng, 11+rng.Intn(20)))
			default:
				return suV1Valid(rng, rng.Intn(2) == 0, rng.Intn(12))
			}
		},
		extra: func(g *genCtx, emit func(byte, bool, []byte, []byte, []byte)) {
			rng := g.rng
			var forms [][]byte
			for t := 0; t < 256; t++ { // every first byte, alone and followed by data
				emit('P', true, nil, []byte{byte(t)}, setupPoison)
				emit('P', true, []byte{6, 1, 2}, suCat([]byte{byte(t)}, rbytes(rng, 1+rng.Intn(30))), nil)
				emit('P', true, []byte{0, 1, 2}, suCat([]byte{byte(t)}, rbytes(rng, 1+rng.Intn(30))), setupPoison)
			}
			forms = append(forms, []byte{6}, []byte{0}, suCat([]byte{6}, rbytes(rng, 20)), suV1Valid(rng, true, 3), suV1Valid(rng, false, 0))
			suPairs(emit, forms)
		},
	})

	registerLayer(&layerSpec{
		name:  "v1session",
		fresh: func() gopacket.DecodingLayer { return &ipmi.V1Session{} },
		min:   10,
		hide:  map[string]bool{"AuthenticationAlgorithm": true}, // injected by the caller, never decoded
		valid: func(rng *rand.Rand) []byte { return suV1Valid(rng, rng.Intn(2) == 0, rng.Intn(24)) },
		extra: func(g *genCtx, emit func(byte, bool, []byte, []byte, []byte)) {
			rng := g.rng
			forms := [][]byte{suV1Valid(rng, false, 0), suV1Valid(rng, false, 7), suV1Valid(rng, true, 0), suV1Valid(rng, true, 7),
				suV1Valid(rng, true, 255), suV1Valid(rng, false, 255)}
			// includes authenticated → unauthenticated: the specification has no AuthCode there; a fresh
			// receiver shows zeros, the pinned tree keeps the earlier packet's code
			suPairs(emit, forms)
			// an authentication type other than none with 10…25 bytes: rejected, also inside a window
			a := suV1Valid(rng, true, 0)
			for l := 10; l < 26; l++ {
				emit('P', true, nil, a[:l], nil)
				emit('P', true, nil, a[:l], a[l:])
				emit('P', true, forms[3], a[:l], setupPoison)
			}
			// every authentication type byte
			for t := 0; t < 256; t++ {
				v := suV1Valid(rng, true, 2)
				v[0] = byte(t)
				emit('M', true, nil, v, setupPoison)
				emit('M', true, forms[0], v, nil)
			}
			// the length byte is reported as is; it does not bound the payload
			for _, n := range []int{0, 1, 5} {
				for _, l := range []byte{0, 3, 200} {
					v := suV1Valid(rng, n%2 == 1, n)
					if n%2 == 1 {
						v[25] = l
					} else {
						v[9] = l
					}
					emit('M', true, nil, v, setupPoison)
				}
			}
		},
	})
}
