package main

// C20: primitive value conversions. Scalars go through verif export shims or the exported API;
// string decoders through the exported StringEncoding.Decoder().

import (
	"fmt"
	"time"

	"github.com/gebn/bmc/pkg/dcmi"
	"github.com/gebn/bmc/pkg/ipmi"
)

func init() {
	executors["prim"] = execPrim
	executors["str"] = execStr
	scenarios["c20"] = genC20
}

func execPrim(a []string) (string, string) {
	fn := a[0]
	switch fn {
	case "checksum":
		return fmt.Sprint(ipmi.VerifChecksum(unhx(a[1]))), ""
	case "twos":
		v, bits := atoi(a[1]), atoi(a[2])
		return fmt.Sprint(ipmi.VerifTwos([2]byte{byte(v >> 8), byte(v)}, uint8(bits))), ""
	}
	n := atoi(a[1])
	x := byte(n)
	switch fn {
	case "bcdDecode":
		return fmt.Sprint(ipmi.VerifBCDDecode(x)), ""
	case "ones":
		return fmt.Sprint(ipmi.VerifOnes(x)), ""
	case "adfUnsigned", "adfOnes", "adfTwos":
		f := map[string]ipmi.AnalogDataFormat{"adfUnsigned": ipmi.AnalogDataFormatUnsigned,
			"adfOnes": ipmi.AnalogDataFormatOnesComplement, "adfTwos": ipmi.AnalogDataFormatTwosComplement}[fn]
		p, err := f.Parser()
		if err != nil {
			return "err", ""
		}
		return fmt.Sprint(p.Parse(x)), ""
	case "ccIsTemporary":
		return b2s(ipmi.CompletionCode(x).IsTemporary()), ""
	case "nfIsRequest":
		return b2s(ipmi.NetworkFunction(x).IsRequest()), ""
	case "eiSystemRelative":
		return b2s(ipmi.EntityInstance(x).IsSystemRelative()), ""
	case "eiDeviceRelative":
		return b2s(ipmi.EntityInstance(x).IsDeviceRelative()), ""
	case "linIsLinear":
		return b2s(ipmi.Linearisation(x).IsLinear()), ""
	case "linIsLinearised":
		return b2s(ipmi.Linearisation(x).IsLinearised()), ""
	case "linIsNonLinear":
		return b2s(ipmi.Linearisation(x).IsNonLinear()), ""
	case "rollingDuration":
		return fmt.Sprint(int64(dcmi.VerifRollingAvgPeriodDuration(x))), ""
	case "rollingByte":
		return fmt.Sprint(dcmi.VerifRollingAvgPeriodByte(time.Duration(n) * time.Second)), ""
	}
	return "no-such-prim", ""
}

var strEnc = map[string]ipmi.StringEncoding{"bcdplus": ipmi.StringEncodingBCDPlus,
	"packed6": ipmi.StringEncodingPacked6BitAscii, "latin1": ipmi.StringEncoding8BitAsciiLatin1}

func decodeStr(enc string, c int, data []byte) (res string) {
	defer func() {
		if r := recover(); r != nil {
			res = "panic"
		}
	}()
	d, err := strEnc[enc].Decoder()
	if err != nil {
		return "err"
	}
	s, n, err := d.Decode(data, c)
	if err != nil {
		return "err"
	}
	return fmt.Sprintf("ok %s %d", hx([]byte(s)), n)
}

// str <enc> <count> <data> <tail>
func execStr(a []string) (string, string) {
	enc, c, data, tail := a[0], atoi(a[1]), unhx(a[2]), unhx(a[3])
	r1 := decodeStr(enc, c, window(data, tail))
	if len(tail) > 0 {
		if r2 := decodeStr(enc, c, window(data, flip(tail))); r2 != r1 {
			return "overread", "result depends on bytes beyond the end of the data"
		}
	}
	if r1 == "panic" {
		return r1, "panic"
	}
	return r1, ""
}

func pack6(codes []byte) []byte {
	n := len(codes) - len(codes)/4
	out := make([]byte, n)
	for j, c := range codes {
		bit := 6 * j
		for t := 0; t < 6; t++ {
			if c>>t&1 == 1 {
				out[(bit+t)/8] |= 1 << ((bit + t) % 8)
			}
		}
	}
	return out
}

func genC20(g *genCtx) {
	p := func(nt bool, fn string, args ...interface{}) {
		s := []string{fn}
		for _, a := range args {
			s = append(s, fmt.Sprint(a))
		}
		g.emit(Op{Class: 'P', NonTrivial: nt, Kind: "prim", Args: s})
	}
	for b := 0; b < 256; b++ {
		for _, fn := range []string{"bcdDecode", "ones", "adfUnsigned", "adfOnes", "adfTwos", "ccIsTemporary", "nfIsRequest",
			"eiSystemRelative", "eiDeviceRelative", "linIsLinear", "linIsLinearised", "linIsNonLinear", "rollingDuration"} {
			p(b != 0, fn, b)
		}
	}
	// two's complement: every width 1…16, every value of that width (quick: widths 1…12 exhaustively, wider sampled)
	for bits := 1; bits <= 16; bits++ {
		if bits <= 12 || g.thorough() {
			for v := 0; v < 1<<bits; v++ {
				p(true, "twos", v, bits)
			}
		} else {
			for _, v := range []int{0, 1, 1<<(bits-1) - 1, 1 << (bits - 1), 1<<(bits-1) + 1, 1<<bits - 1} {
				p(true, "twos", v, bits)
			}
			for i := 0; i < 500; i++ {
				p(true, "twos", g.rng.Intn(1<<bits), bits)
			}
		}
	}
	// rolling average duration -> byte
	const day = 86400
	if g.thorough() {
		for s := 0; s <= 64*day+10; s++ {
			p(s >= 60, "rollingByte", s)
		}
	} else {
		for s := 0; s <= 7300; s++ {
			p(s >= 60, "rollingByte", s)
		}
		for k := 1; k <= 65*24; k++ { // around every hour and day boundary
			for d := -2; d <= 2; d++ {
				p(true, "rollingByte", k*3600+d)
			}
		}
		for i := 0; i < 20000; i++ {
			p(true, "rollingByte", g.rng.Intn(66*day))
		}
	}
	// checksum: every length 0…64, plus longer
	for n := 0; n <= 64; n++ {
		for r := 0; r < 8; r++ {
			b := make([]byte, n)
			g.rng.Read(b)
			g.emit(Op{Class: 'P', NonTrivial: n > 0, Kind: "prim", Args: []string{"checksum", hx(b)}})
		}
	}
	for _, n := range []int{100, 255, 256, 257, 480} {
		b := make([]byte, n)
		g.rng.Read(b)
		g.emit(Op{Class: 'P', NonTrivial: true, Kind: "prim", Args: []string{"checksum", hx(b)}})
	}
	str := func(class byte, nt bool, enc string, c int, data, tail []byte) {
		g.emit(Op{Class: class, NonTrivial: nt, Kind: "str", Args: []string{enc, itoa(c), hx(data), hx(tail)}})
	}
	tails := [][]byte{nil, {0xEE, 0xEE, 0xEE, 0xEE}}
	// BCD plus: every nibble value at every character position of strings of 0…31 characters
	for c := 0; c <= 31; c++ {
		need := (c + 1) / 2
		for pos := 0; pos < c; pos++ {
			for nib := 0; nib < 16; nib++ {
				d := make([]byte, need+g.rng.Intn(3))
				g.rng.Read(d)
				if pos%2 == 0 {
					d[pos/2] = d[pos/2]&0x0f | byte(nib)<<4
				} else {
					d[pos/2] = d[pos/2]&0xf0 | byte(nib)
				}
				str('P', true, "bcdplus", c, d, tails[(pos+nib)%2])
			}
		}
		for l := 0; l <= need+1; l++ { // every length around the requirement
			d := make([]byte, l)
			g.rng.Read(d)
			for _, t := range tails {
				str('P', l >= need && c > 0, "bcdplus", c, d, t)
			}
		}
	}
	// packed 6-bit: every code at every position of strings of 0…31 characters (data = exact packing, P),
	// arbitrary data (M), every length around the requirement
	for c := 0; c <= 31; c++ {
		need := c - c/4
		for pos := 0; pos < c; pos++ {
			for code := 0; code < 64; code++ {
				codes := make([]byte, c)
				for i := range codes {
					codes[i] = byte(g.rng.Intn(64))
				}
				codes[pos] = byte(code)
				d := pack6(codes)
				extra := make([]byte, g.rng.Intn(3))
				g.rng.Read(extra)
				str('P', true, "packed6", c, append(d, extra...), tails[(pos+code)%2])
			}
		}
		for l := 0; l <= need+1; l++ {
			d := make([]byte, l)
			g.rng.Read(d)
			cls := byte('M')
			if l < need {
				cls = 'P' // too short: must be an error
			}
			for _, t := range tails {
				str(cls, l >= need && c > 0, "packed6", c, d, t)
			}
		}
	}
	// Latin-1: every count 0…31 with every data length 0…count+2, bytes over the whole range
	for c := 0; c <= 31; c++ {
		for l := 0; l <= c+2; l++ {
			d := make([]byte, l)
			g.rng.Read(d)
			for _, t := range tails {
				str('P', l >= c && l >= 2, "latin1", c, d, t)
			}
		}
	}
}
