package main

import (
	"encoding/hex"
	"strconv"
)

func hx(b []byte) string {
	if len(b) == 0 {
		return "-"
	}
	return hex.EncodeToString(b)
}

func unhx(s string) []byte {
	if s == "-" {
		return nil
	}
	b, err := hex.DecodeString(s)
	if err != nil {
		panic("bad hex in op: " + s)
	}
	return b
}

func atoi(s string) int {
	n, err := strconv.Atoi(s)
	if err != nil {
		panic("bad int in op: " + s)
	}
	return n
}

func itoa(n int) string { return strconv.Itoa(n) }

func b2s(b bool) string {
	if b {
		return "1"
	}
	return "0"
}

// window returns data as a slice of length len(data) whose capacity extends over tail (a stand-in
// for the reused 512-byte receive buffer); with an empty tail the slice has exact capacity.
func window(data, tail []byte) []byte {
	buf := make([]byte, len(data)+len(tail))
	copy(buf, data)
	copy(buf[len(data):], tail)
	return buf[:len(data):len(buf)]
}

func flip(b []byte) []byte {
	o := make([]byte, len(b))
	for i, x := range b {
		o[i] = ^x
	}
	return o
}
