package main

// Session establishment (C01 C02 C12): the real NewV2Session over the verif transport hook against a scripted
// transcript; reference verdicts from the independent BMC in sim.go.

import (
	"bytes"
	"context"
	"crypto/rand"
	"encoding/binary"
	"errors"
	"fmt"
	"io"
	"strings"
	"time"

	"github.com/gebn/bmc"
	"github.com/gebn/bmc/pkg/ipmi"
)

func init() {
	executors["hs"] = execHs
	executors["hs2"] = execHs2
	scenarios["hs"] = genHs
}

type hsOpts struct {
	user, pass, kg    []byte
	priv              byte
	lookup            bool
	auth, integ, conf byte
	rm                []byte
	bmcPass, bmcKG    []byte
}

func (o hsOpts) args(script []string) []string {
	lk := "0"
	if o.lookup {
		lk = "1"
	}
	sc := "-"
	if len(script) > 0 {
		sc = strings.Join(script, ",")
	}
	return []string{hx(o.user), hx(o.pass), hx(o.kg), itoa(int(o.priv)), lk, itoa(int(o.auth)), itoa(int(o.integ)), itoa(int(o.conf)),
		hx(o.rm), hx(o.bmcPass), hx(o.bmcKG), sc}
}

func parseHsOpts(a []string) (hsOpts, []string) {
	o := hsOpts{user: unhx(a[0]), pass: unhx(a[1]), kg: unhx(a[2]), priv: byte(atoi(a[3])), lookup: a[4] == "1",
		auth: byte(atoi(a[5])), integ: byte(atoi(a[6])), conf: byte(atoi(a[7])), rm: unhx(a[8]), bmcPass: unhx(a[9]), bmcKG: unhx(a[10])}
	var script []string
	if a[11] != "-" {
		script = strings.Split(a[11], ",")
	}
	return o, script
}

type hsRun struct {
	err     error
	sent    [][]byte
	replies [][]byte // reply delivered for sent[i] (nil = lost)
	res     string
	sess    *bmc.V2Session
}

// runHandshake drives the real NewV2Session; reply(i, datagram) supplies the i-th answer (ok=false: script exhausted)
func (r *hsRun) errIs(target error) bool { return r.err != nil && errors.Is(r.err, target) }

func runHandshake(o hsOpts, reply func(i int, p []byte) (r []byte, lost bool, ok bool)) *hsRun {
	return runHandshakeWith(o, []ipmi.CipherSuite{{AuthenticationAlgorithm: ipmi.AuthenticationAlgorithm(o.auth),
		IntegrityAlgorithm: ipmi.IntegrityAlgorithm(o.integ), ConfidentialityAlgorithm: ipmi.ConfidentialityAlgorithm(o.conf)}}, reply)
}

// hsConn is one connection (one transport, one receive buffer) on which any number of handshakes are run one after
// another; pass / kg are the caller's credential buffers, REUSED (overwritten in place) from handshake to handshake
type hsConn struct {
	t      *bmc.V2SessionlessTransport
	recv   []byte
	run    *hsRun
	reply  func(i int, p []byte) (r []byte, lost bool, ok bool)
	cancel context.CancelFunc
	pass   []byte
	kg     []byte
	closeT func()
}

func newHsConn() *hsConn {
	c := &hsConn{recv: make([]byte, 512), pass: make([]byte, 0, 64), kg: make([]byte, 0, 64)}
	send := func(_ context.Context, p []byte) ([]byte, error) {
		r, lost, ok := c.reply(len(c.run.sent), p)
		if !ok {
			c.cancel()
			return nil, context.Canceled
		}
		c.run.sent = append(c.run.sent, append([]byte(nil), p...))
		if lost {
			c.run.replies = append(c.run.replies, nil)
			return nil, errors.New("timeout")
		}
		c.run.replies = append(c.run.replies, append([]byte(nil), r...))
		for i := range c.recv {
			c.recv[i] = 0xEE
		}
		return c.recv[:copy(c.recv, r)], nil
	}
	c.t, c.closeT = newTransport(send, 50*time.Millisecond)
	return c
}

func runHandshakeWith(o hsOpts, suites []ipmi.CipherSuite, reply func(i int, p []byte) (r []byte, lost bool, ok bool)) *hsRun {
	return newHsConn().handshake(o, suites, reply)
}

func (c *hsConn) handshake(o hsOpts, suites []ipmi.CipherSuite, reply func(i int, p []byte) (r []byte, lost bool, ok bool)) *hsRun {
	run := &hsRun{}
	c.run, c.reply = run, reply
	ctx, cancel := context.WithTimeout(context.Background(), 10*time.Second)
	c.cancel = cancel
	defer cancel()
	t := c.t
	// the credentials live in buffers the caller reuses: the same backing arrays, overwritten in place
	c.pass = append(c.pass[:0], o.pass...)
	c.kg = append(c.kg[:0], o.kg...)
	o.pass, o.kg = c.pass, c.kg
	if len(o.kg) == 0 {
		o.kg = nil
	}
	old := rand.Reader
	rand.Reader = io.Reader(&cycleReader{b: o.rm})
	defer func() { rand.Reader = old }()
	func() {
		defer func() {
			if r := recover(); r != nil {
				run.res = "panic"
			}
		}()
		var sess *bmc.V2Session
		var err error
		if len(suites) == 0 && len(o.kg) == 0 && !o.lookup {
			// the version-agnostic entry point (nothing but the common options): must behave as NewV2Session with defaults
			var s0 bmc.Session
			s0, err = t.NewSession(ctx, &bmc.SessionOpts{Username: string(o.user), Password: o.pass, MaxPrivilegeLevel: ipmi.PrivilegeLevel(o.priv)})
			if err == nil {
				sess = s0.(*bmc.V2Session)
				if s0.ID() != sess.LocalID || s0.Version() != "2.0" || t.Version() != "2.0" {
					err = errors.New("Session.ID()/Version() disagree with the session")
				}
			}
		} else {
			sess, err = t.NewV2Session(ctx, &bmc.V2SessionOpts{
				SessionOpts:          bmc.SessionOpts{Username: string(o.user), Password: o.pass, MaxPrivilegeLevel: ipmi.PrivilegeLevel(o.priv)},
				KG:                   o.kg,
				PrivilegeLevelLookup: o.lookup,
				CipherSuites:         suites,
			})
		}
		run.err = err
		switch {
		case err == nil:
			run.sess = sess
			// the exposed key material is read the way a caller may: every value is HELD while the others (and K(3), and
			// K(1) a second time, and the session's String()) are obtained, and only then looked at
			sik, k1, k2 := sess.SIK, sess.K(1), sess.K(2)
			k3, k1again := sess.K(3), sess.K(1)
			_ = sess.String()
			run.res = fmt.Sprintf("ok local=%d remote=%d algs=%d/%d/%d sik=%s k1=%s k2=%s", sess.LocalID, sess.RemoteID,
				sess.AuthenticationAlgorithm, sess.IntegrityAlgorithm, sess.ConfidentialityAlgorithm, hx(sik), hx(k1), hx(k2))
			if !bytes.Equal(k1, k1again) || bytes.Equal(k3, k1) || bytes.Equal(k3, k2) || sess.ID() != sess.LocalID {
				run.res += " exposed-values-unstable"
			}
		case errors.Is(err, bmc.ErrIncorrectPassword):
			run.res = "badpw"
		default:
			run.res = "err"
		}
	}()
	return run
}

func execHs(a []string) (string, string) {
	c := newHsConn()
	defer c.closeT()
	return execHsOn(c, a)
}

// hs2 <12 hs args> / <12 hs args> / …: several handshakes one after another on ONE connection, the caller reusing its
// password and KG buffers (overwritten in place between the calls); each must behave exactly as on a fresh connection
func execHs2(a []string) (string, string) {
	c := newHsConn()
	var outs []string
	verdict := ""
	for len(a) >= 12 {
		o, v := execHsOn(c, a[:12])
		outs = append(outs, o)
		if v != "" && verdict == "" {
			verdict = fmt.Sprintf("handshake %d on the connection: %s", len(outs), v)
		}
		a = a[12:]
		if len(a) > 0 && a[0] == "/" {
			a = a[1:]
		}
	}
	return strings.Join(outs, " ; "), verdict
}

func execHsOn(c *hsConn, a []string) (string, string) {
	o, script := parseHsOpts(a)
	run := c.handshake(o, []ipmi.CipherSuite{{AuthenticationAlgorithm: ipmi.AuthenticationAlgorithm(o.auth),
		IntegrityAlgorithm: ipmi.IntegrityAlgorithm(o.integ), ConfidentialityAlgorithm: ipmi.ConfidentialityAlgorithm(o.conf)}}, func(i int, _ []byte) ([]byte, bool, bool) {
		if i >= len(script) {
			return nil, false, false
		}
		if script[i] == "L" {
			return nil, true, true
		}
		return unhx(strings.TrimPrefix(script[i], "R:")), false, true
	})
	var sh []string
	for _, p := range run.sent {
		sh = append(sh, hx(p))
	}
	ss := "-"
	if len(sh) > 0 {
		ss = strings.Join(sh, ",")
	}
	out := fmt.Sprintf("sent=%s res=%s", ss, run.res)
	if run.res == "panic" {
		return out, "panic during session establishment"
	}
	v := hsVerdict(o, run)
	if hsAfter != nil {
		hsAfter(run)
	}
	return out, v
}

// hsAfter, when set, is given the finished handshake (scenario hsm closes the session it established)
var hsAfter func(run *hsRun)

// setupPayload returns the RMCP+ setup payload of a session-less datagram with the given payload type, or nil
func setupPayload(d []byte, ptype byte) []byte {
	if len(d) < 16 || d[0] != 6 || d[3]&0x8f != 7 || d[4] != 6 || d[5] != ptype {
		return nil
	}
	n := int(d[14]) | int(d[15])<<8
	if len(d) < 16+n {
		return nil
	}
	return d[16 : 16+n]
}

// hsVerdict: the reference judgement of a finished handshake.
//   - a returned session must rest on an Open Session Response confirming the proposal, a RAKP 2 whose AuthCode is
//     the keyed hash of the exchanged values under the caller's password, and a RAKP 4 whose ICV is the keyed hash
//     under the SIK (C02, C12); its SIK / K1 / K2 must be the specification's (C01);
//   - when every reply delivered is what a conforming BMC holding the caller's credentials answers, and the suite is
//     one the library supports, the handshake must succeed (C01); with another BMC password it must end in the
//     incorrect-password error (C02).
func hsVerdict(o hsOpts, run *hsRun) string {
	// the replies that ended each exchange
	var osr, r2, r4 []byte
	var rakp1, rakp3 []byte
	for i, d := range run.sent {
		rep := run.replies[i]
		switch {
		case setupPayload(d, 0x10) != nil:
			if p := setupPayload(rep, 0x11); p != nil {
				osr = p
			}
		case setupPayload(d, 0x12) != nil:
			rakp1 = setupPayload(d, 0x12)
			if p := setupPayload(rep, 0x13); p != nil {
				r2 = p
			}
		case setupPayload(d, 0x14) != nil:
			rakp3 = setupPayload(d, 0x14)
			if p := setupPayload(rep, 0x15); p != nil {
				r4 = p
			}
		}
	}
	_ = rakp3
	ok := strings.HasPrefix(run.res, "ok ")
	if ok {
		if len(osr) != 36 || osr[1] != 0 || len(r2) < 40 || r2[1] != 0 || len(r4) < 8 || r4[1] != 0 || len(rakp1) < 28 {
			return "a session was returned although a handshake reply was missing, truncated or carried a non-OK status"
		}
		if osr[16]&0x3f != o.auth || osr[24]&0x3f != o.integ || osr[32]&0x3f != o.conf {
			return fmt.Sprintf("a session was returned although the BMC confirmed algorithms %d/%d/%d, not the proposed %d/%d/%d",
				osr[16]&0x3f, osr[24]&0x3f, osr[32]&0x3f, o.auth, o.integ, o.conf)
		}
		h := hashFn(o.auth)
		if h == nil || o.conf != 1 || (o.integ != 1 && o.integ != 2 && o.integ != 4) {
			return "a session was returned for a suite without authentication, integrity or confidentiality"
		}
		sidc := osr[8:12]
		rm := rakp1[8:24]
		role, ulen, uname := rakp1[24], rakp1[27], rakp1[28:]
		if !bytes.Equal(hmacOf(h, o.pass, r2[4:8], sidc, rm, r2[8:24], r2[24:40], []byte{role, ulen}, uname), r2[40:]) {
			return "a session was returned although the RAKP 2 AuthCode is not the keyed hash of the exchanged values under the caller's password"
		}
		kg := o.kg
		if len(kg) == 0 {
			kg = o.pass
		}
		sik := hmacOf(h, kg, rm, r2[8:24], []byte{role, ulen}, uname)
		icv := hmacOf(h, sik, rm, sidc, r2[24:40])
		switch o.auth {
		case 1:
			icv = icv[:12]
		case 3:
			icv = icv[:16]
		}
		if !bytes.Equal(icv, r4[8:]) {
			return "a session was returned although the RAKP 4 ICV is not the keyed hash under the SIK"
		}
		k1 := hmacOf(h, sik, bytes.Repeat([]byte{1}, 20))
		k2 := hmacOf(h, sik, bytes.Repeat([]byte{2}, 20))
		s := run.sess
		if !bytes.Equal(s.SIK, sik) || !bytes.Equal(s.K(1), k1) || !bytes.Equal(s.K(2), k2) {
			return "the session's SIK / K1 / K2 are not those the specification derives from this exchange"
		}
		if s.RemoteID != binary.LittleEndian.Uint32(sidc) || s.LocalID != binary.LittleEndian.Uint32(osr[4:8]) {
			return "the session's IDs are not those of the Open Session Response"
		}
	}
	// honesty of the transcript: replay the datagrams to a conforming BMC
	ref := newSimBMC(o.bmcPass, o.bmcKG)
	honest := true
	var last []byte
	var lastRep []byte
	for i, d := range run.sent {
		if !bytes.Equal(d, last) {
			lastRep = ref.handle(d)
			last = d
		}
		if run.replies[i] == nil || !bytes.Equal(run.replies[i], lastRep) {
			honest = false
		}
	}
	supported := hashFn(o.auth) != nil && o.conf == 1 && (o.integ == 1 || o.integ == 2 || o.integ == 4) && len(o.user) <= 16
	samePass := bytes.Equal(o.pass, o.bmcPass) && bytes.Equal(o.kg, o.bmcKG)
	if honest && supported && len(run.sent) >= 3 {
		if samePass && !ok {
			return "the handshake with a conforming BMC holding the same credentials did not succeed: " + run.res
		}
		if !bytes.Equal(o.pass, o.bmcPass) && run.res != "badpw" {
			return "a BMC with another password must yield the incorrect-password error, got " + run.res
		}
		if samePass && ok && (!bytes.Equal(ref.sik, run.sess.SIK) || !bytes.Equal(ref.k1, run.sess.K(1)) || !bytes.Equal(ref.k2, run.sess.K(2))) {
			return "keys differ from the BMC's"
		}
	}
	if !supported && ok {
		return "a session was returned for an unsupported suite"
	}
	return ""
}

func genHs(g *genCtx) {
	rb := func(n int) []byte { return rbytes(g.rng, n) }
	emit := func(class byte, nt bool, o hsOpts, script []string) {
		g.emit(Op{Class: class, NonTrivial: nt, Kind: "hs", Args: o.args(script)})
	}
	base := func() hsOpts {
		o := hsOpts{auth: 3, integ: 4, conf: 1, user: []byte("admin"), pass: []byte("secret"), priv: 4, rm: rb(16)}
		o.bmcPass, o.bmcKG = o.pass, nil
		return o
	}
	// live records the transcript of the real library against a live reference BMC
	live := func(o hsOpts, force [3]int) (items []string) {
		b := newSimBMC(o.bmcPass, o.bmcKG)
		b.forceAlgs = force
		// the values the BMC chooses: its session ID (also 0, 1, the extremes), its random number and GUID (also runs of
		// 00 / FF bytes)
		b.sidc = []uint32{0, 1, 0xffffffff, 0x80000000, 0x000000ff, g.rng.Uint32(), g.rng.Uint32(), g.rng.Uint32()}[g.rng.Intn(8)]
		for i := range b.rc {
			b.rc[i], b.guid[i] = byte(g.rng.Intn(256)), byte(g.rng.Intn(256))
		}
		switch g.rng.Intn(6) {
		case 0:
			b.rc = [16]byte{}
		case 1:
			for i := range b.guid {
				b.guid[i] = 0xff
			}
		}
		run := runHandshake(o, func(i int, p []byte) ([]byte, bool, bool) {
			r := b.handle(p)
			if r == nil {
				return nil, false, false
			}
			return r, false, true
		})
		for _, r := range run.replies {
			items = append(items, "R:"+hx(r))
		}
		return
	}
	echo := [3]int{-1, -1, -1}
	reps := 6
	if g.thorough() {
		reps = 60
	}
	// C01: every suite x KG x lookup x privilege x credential lengths
	for _, a := range []byte{1, 2, 3} {
		for _, i := range []byte{1, 2, 4} {
			for rep := 0; rep < reps; rep++ {
				o := base()
				o.auth, o.integ = a, i
				o.user = rb([]int{0, 1, 16, g.rng.Intn(17)}[rep%4])
				o.pass = rb([]int{0, 1, 20, g.rng.Intn(21)}[(rep/2)%4])
				if rep%2 == 0 {
					o.kg = rb(20)
				}
				o.lookup = rep%3 == 0
				o.priv = byte(rep % 6)
				o.bmcPass, o.bmcKG = o.pass, o.kg
				emit('P', true, o, live(o, echo))
			}
		}
	}
	// BMC keys of other lengths than 20 bytes, against a BMC holding the same key, another key, or none: the ICV must be
	// the keyed hash under the CALLER's key, whatever its length
	for _, n := range []int{1, 7, 19, 21, 37} {
		for variant := 0; variant < 3; variant++ {
			o := base()
			o.auth, o.integ = []byte{1, 2, 3}[n%3], []byte{1, 2, 4}[n%3]
			o.kg = rb(n)
			switch variant {
			case 0:
				o.bmcKG = o.kg
			case 1:
				o.bmcKG = nil // the BMC keys the SIK with the password
			case 2:
				o.bmcKG = rb(n)
			}
			emit('P', true, o, append(live(o, echo), "L"))
		}
	}
	// user names longer than 16 bytes: refused before anything is sent beyond the Open Session exchange
	for n := 17; n <= 20; n++ {
		o := base()
		o.user = rb(n)
		emit('P', true, o, live(o, echo))
	}
	// C02: other BMC password / KG; mutations of each reply
	for _, a := range []byte{1, 2, 3} {
		o := base()
		o.auth = a
		o.integ = map[byte]byte{1: 1, 2: 2, 3: 4}[a]
		o2 := o
		o2.bmcPass = []byte("other")
		emit('P', true, o2, live(o2, echo))
		// wrong passwords that are CLOSE to the caller's: a long password of which the BMC holds the first 16 bytes (the
		// v1.5 storage size) or all but the last byte, one more byte, another case
		for _, n := range []int{17, 20} {
			long := o
			long.pass = rb(n)
			for _, bp := range [][]byte{long.pass[:16], long.pass[:n-1], append(append([]byte(nil), long.pass...), 'x'), bytes.ToUpper(long.pass)} {
				l2 := long
				l2.bmcPass = bp
				if !bytes.Equal(l2.bmcPass, l2.pass) {
					emit('P', true, l2, live(l2, echo))
				}
			}
		}
		o3 := o
		o3.kg, o3.bmcKG = rb(20), rb(20)
		emit('P', true, o3, live(o3, echo))
		honest := live(o, echo)
		if len(honest) != 3 {
			continue
		}
		mutate := func(which int, f func(payload []byte) []byte, fixLen bool) {
			items := append([]string(nil), honest...)
			d := unhx(strings.TrimPrefix(items[which], "R:"))
			p := f(append([]byte(nil), d[16:]...))
			nd := append(append([]byte(nil), d[:16]...), p...)
			if fixLen {
				nd[14], nd[15] = byte(len(p)), byte(len(p)>>8)
			}
			items[which] = "R:" + hx(nd)
			emit('P', true, o, append(items, "L", "L"))
		}
		for which := 0; which < 3; which++ {
			plen := len(unhx(strings.TrimPrefix(honest[which], "R:"))) - 16
			for _, st := range []int{1, 2, 0x0d, 0x11, 0x12, 0xff} {
				st := st
				mutate(which, func(p []byte) []byte { p[1] = byte(st); return p }, true)
			}
			if g.thorough() {
				for st := 1; st < 256; st++ {
					st := st
					mutate(which, func(p []byte) []byte { p[1] = byte(st); return p }, true)
				}
			}
			for k := 0; k < 3; k++ {
				tg := byte(1 + g.rng.Intn(255))
				mutate(which, func(p []byte) []byte { p[0] = tg; return p }, true)
			}
			step := 3
			if g.thorough() {
				step = 1
			}
			for bit := 0; bit < plen*8; bit += step { // single-bit flips across the whole reply
				bit := bit
				mutate(which, func(p []byte) []byte { p[bit/8] ^= 1 << (bit % 8); return p }, true)
			}
			for l := 0; l < plen; l++ { // truncation at every length, wrapper length consistent / inconsistent
				l := l
				mutate(which, func(p []byte) []byte { return p[:l] }, true)
				if l%4 == 0 {
					mutate(which, func(p []byte) []byte { return p[:l] }, false)
				}
			}
			// extension: a few bytes, and tails longer than any digest (a code / check value of a length the BMC chooses)
			for _, k := range []int{1, 2, 3, 4, 8, 12, 13, 20, 21, 32, 33, 64, 200, 400} {
				k := k
				mutate(which, func(p []byte) []byte { return append(p, rb(k)...) }, true)
			}
		}
		// a LATE Open Session Response — as a BMC sends for a retransmitted request, with a FRESH session ID of its own —
		// arriving while RAKP 1 or RAKP 3 is outstanding; likewise a late RAKP 2 with another BMC random
		for at := 1; at <= 2; at++ {
			for _, which := range []int{0, 1} {
				if which >= at {
					continue
				}
				d := unhx(strings.TrimPrefix(honest[which], "R:"))
				if which == 0 && len(d) >= 16+12 {
					d[16+8] ^= 0x01 // managed system session ID
					d[16+11] ^= 0x80
				} else if which == 1 && len(d) >= 16+24 {
					d[16+8+g.rng.Intn(16)] ^= 0x10 // managed system random number
				}
				items := append([]string(nil), honest[:at]...)
				items = append(items, "R:"+hx(d))
				items = append(items, honest[at:]...)
				emit('P', true, o, append(items, "L", "L"))
			}
		}
		// retries inside the exchanges: lost, garbage, duplicate of the previous reply
		for _, pfx := range []string{"L", "G", "LG", "D", "GD", "LLG", "GGG"} {
			var items []string
			prev := "R:0600ff07"
			for _, hItem := range honest {
				for _, c := range pfx {
					switch c {
					case 'L':
						items = append(items, "L")
					case 'G':
						items = append(items, "R:0600ff")
					case 'D':
						items = append(items, prev)
					}
				}
				items = append(items, hItem)
				prev = hItem
			}
			emit('P', true, o, items)
		}
	}
	// C12: every algorithm triple the BMC may confirm, against a SHA256/SHA256-128/AES proposal and against proposals of
	// None / unknown algorithms
	for a := 0; a <= 4; a++ {
		for i := 0; i <= 5; i++ {
			for c := 0; c <= 3; c++ {
				o := base()
				emit('P', true, o, append(live(o, [3]int{a, i, c}), "L"))
			}
		}
	}
	for _, s := range [][3]byte{{1, 0, 1}, {1, 1, 0}, {0, 1, 1}, {1, 0, 0}, {0, 0, 0}, {3, 4, 0}, {3, 3, 1}, {4, 4, 1}, {3, 4, 2}, {3, 4, 3}, {63, 63, 63}} {
		o := base()
		o.auth, o.integ, o.conf = s[0], s[1], s[2]
		emit('P', true, o, append(live(o, echo), "L"))
	}
	// several handshakes on ONE connection with the caller's credential buffers reused (overwritten in place): right
	// password then wrong password (same length and other lengths), wrong then right, another suite / KG / user the second
	// time, a failed first attempt (lost replies, wrong BMC password) before a good one
	pairs := 40
	if g.thorough() {
		pairs = 600
	}
	for n := 0; n < pairs; n++ {
		mk := func() hsOpts {
			o := base()
			o.auth, o.integ = []byte{1, 2, 3}[g.rng.Intn(3)], []byte{1, 2, 4}[g.rng.Intn(3)]
			o.user = rb(g.rng.Intn(17))
			o.pass = rb([]int{6, 6, 6, 1, 20, g.rng.Intn(21)}[g.rng.Intn(6)])
			if g.rng.Intn(3) == 0 {
				o.kg = rb(20)
			}
			o.lookup = g.rng.Intn(2) == 0
			o.bmcPass, o.bmcKG = o.pass, o.kg
			return o
		}
		a := mk()
		b := mk()
		switch n % 5 {
		case 0: // same everything, but the caller's password changed to a wrong one of the SAME length
			b = a
			b.rm = rb(16)
			b.pass = rb(len(a.pass))
		case 1: // wrong first, right second
			b = a
			b.rm = rb(16)
			a.pass = rb(len(b.pass))
		case 2: // only the KG changes
			b = a
			b.rm = rb(16)
			b.kg = rb(20)
			b.bmcKG = b.kg
		case 3: // same credentials and KG, another authentication / integrity algorithm the second time
			a.kg = rb(20)
			a.bmcKG = a.kg
			b = a
			b.rm = rb(16)
			b.auth = []byte{1, 2, 3}[(int(a.auth)+g.rng.Intn(2))%3]
			b.integ = []byte{1, 2, 4}[g.rng.Intn(3)]
		}
		var args []string
		args = append(args, a.args(live(a, echo))...)
		args = append(args, "/")
		args = append(args, b.args(live(b, echo))...)
		if n%7 == 0 {
			c := mk()
			args = append(args, "/")
			args = append(args, c.args(append(live(c, echo)[:1], "L", "L"))...)
		}
		if n%4 == 1 {
			// a LONG chain: four to six more establishments on the same connection (fresh or repeated credentials, some failing)
			prev := b
			for k := 0; k < 4+g.rng.Intn(3); k++ {
				c := mk()
				switch g.rng.Intn(4) {
				case 0:
					c = prev
					c.rm = rb(16)
				case 1:
					c.bmcPass = rb(len(c.pass) + 1)
				}
				args = append(args, "/")
				args = append(args, c.args(live(c, echo))...)
				prev = c
			}
		}
		g.emit(Op{Class: 'P', NonTrivial: true, Kind: "hs2", Args: args})
	}
}
