package main

// C08, second part: round trips of the v1.5 session wrapper and of RAKP Message 1 through
// gopacket.SerializeLayers and DecodeFromBytes.
//
//	rtv1    <authType> <seq> <id> <authCodeHex> <payloadhex>      ("-" as AuthCode = sixteen zero bytes)
//	rtrakp1 <tag> <sessionID> <randomHex> <lookup> <priv> <userhex>
//
// Outcome: "<serialised bytes> ok <dump of the value decoded from them>", "<bytes> err" when they do not decode,
// "err" when the serialiser refuses. Verdicts (model-independent, from roundTrip in rt.go): decoding fails, decoded
// fields or payload differ from what was serialised, re-serialising the decoded value gives different bytes, panic.

import (
	"fmt"

	"github.com/gebn/bmc/pkg/ipmi"
	"github.com/google/gopacket"
)

func init() {
	executors["rtv1"] = c08ExecRtV1
	executors["rtrakp1"] = c08ExecRtRakp1
	scenarios["rt2"] = c08GenRt2
}

// c08Rakp1Layer gives RAKPMessage1 (DecodeFromBytes but no CanDecode) the DecodingLayer interface; the reflection
// dump flattens the embedded struct.
type c08Rakp1Layer struct{ ipmi.RAKPMessage1 }

func (l *c08Rakp1Layer) CanDecode() gopacket.LayerClass { return l.LayerType() }

type c08TwoWay interface {
	gopacket.SerializableLayer
	gopacket.DecodingLayer
}

// c08RoundTrip = roundTrip (rt.go) + the dump of an independent decode of the serialised bytes.
func c08RoundTrip(l c08TwoWay, fresh func() c08TwoWay, inner []byte, hide map[string]bool) (string, string) {
	out, verdict := roundTrip(l, fresh(), inner, hide)
	if out == "err" {
		return out, verdict
	}
	d := fresh()
	if err := d.DecodeFromBytes(unhx(out), gopacket.NilDecodeFeedback); err != nil {
		return out + " err", verdict
	}
	return out + " ok " + dumpLayer(d, hide), verdict
}

func c08ExecRtV1(a []string) (out string, verdict string) {
	defer func() {
		if r := recover(); r != nil {
			out, verdict = "panic", fmt.Sprint("panic: ", r)
		}
	}()
	if len(a) != 5 {
		return "bad-op", ""
	}
	l := &ipmi.V1Session{AuthType: ipmi.AuthenticationType(atoi(a[0])), Sequence: uint32(atoi(a[1])), ID: uint32(atoi(a[2]))}
	if ac := unhx(a[3]); len(ac) == 16 {
		copy(l.AuthCode[:], ac)
	} else if len(ac) != 0 {
		return "bad-op", ""
	}
	hide := map[string]bool{"AuthenticationAlgorithm": true} // injected by the caller, never serialised or decoded
	return c08RoundTrip(l, func() c08TwoWay { return &ipmi.V1Session{} }, unhx(a[4]), hide)
}

func c08ExecRtRakp1(a []string) (out string, verdict string) {
	defer func() {
		if r := recover(); r != nil {
			out, verdict = "panic", fmt.Sprint("panic: ", r)
		}
	}()
	if len(a) != 6 {
		return "bad-op", ""
	}
	rnd := unhx(a[2])
	if len(rnd) != 16 {
		return "bad-op", ""
	}
	l := &c08Rakp1Layer{ipmi.RAKPMessage1{Tag: uint8(atoi(a[0])), ManagedSystemSessionID: uint32(atoi(a[1])),
		PrivilegeLevelLookup: a[3] == "1", MaxPrivilegeLevel: ipmi.PrivilegeLevel(atoi(a[4])), Username: string(unhx(a[5]))}}
	copy(l.RemoteConsoleRandom[:], rnd)
	return c08RoundTrip(l, func() c08TwoWay { return &c08Rakp1Layer{} }, nil, nil)
}

func c08GenRt2(g *genCtx) {
	emit := func(kind string, args ...interface{}) {
		s := make([]string, len(args))
		for i, a := range args {
			s[i] = fmt.Sprint(a)
		}
		g.emit(Op{Class: 'P', NonTrivial: true, Kind: kind, Args: s})
	}
	u32 := func() uint32 {
		switch g.rng.Intn(8) {
		case 0:
			return 0
		case 1:
			return 0xffffffff
		case 2:
			return uint32(g.rng.Intn(256)) << (8 * uint(g.rng.Intn(4))) // one non-zero byte: byte order
		}
		return g.rng.Uint32()
	}
	// v1.5 wrapper: both forms x every payload length
	maxLen := 200
	if g.thorough() {
		maxLen = 255
	}
	lens := []int{}
	for n := 0; n <= maxLen; n++ {
		lens = append(lens, n)
	}
	if g.thorough() {
		lens = append(lens, 256, 257, 300, 511, 512) // uint8(len) wraps; the round trip still holds
	}
	reps := 1
	if g.thorough() {
		reps = 4
	}
	for _, n := range lens {
		for r := 0; r < reps; r++ {
			emit("rtv1", 0, u32(), u32(), "-", hx(rbytes(g.rng, n)))
			for _, at := range []int{1, 2, 4, 5, 1 + g.rng.Intn(255)} {
				ac := rbytes(g.rng, 16)
				if g.rng.Intn(8) == 0 {
					ac = make([]byte, 16) // an all-zero code with a type other than none
				}
				emit("rtv1", at, u32(), u32(), hx(ac), hx(rbytes(g.rng, n)))
			}
		}
	}
	// RAKP Message 1: every user name length 0…16 (17…20: the serialiser refuses) x both lookup flags x every privilege nibble
	for r := 0; r < reps; r++ {
		for n := 0; n <= 20; n++ {
			for lookup := 0; lookup <= 1; lookup++ {
				for priv := 0; priv < 16; priv++ {
					user := rbytes(g.rng, n)
					if g.rng.Intn(2) == 0 { // printable ASCII, as the specification asks
						for i := range user {
							user[i] = byte(0x21 + g.rng.Intn(0x5e))
						}
					}
					emit("rtrakp1", g.rng.Intn(256), u32(), hx(rbytes(g.rng, 16)), lookup, priv, hx(user))
				}
			}
		}
	}
}
