package main

// UDP mode: the same scripted scenarios, but through the REAL transport (internal/pkg/transport: DialUDP, socket
// deadlines from the per-attempt context, the reused 512-byte receive buffer) instead of the in-memory transport hook.
// A relay on 127.0.0.1 receives every datagram the library transmits, hands it to the scenario's scripted send function
// and writes the reply back (no reply when the script says the reply is lost). The ops `sendu`, `slsendu`, `hsu` take
// the arguments of `send`, `slsend`, `hs`; the Lean driver evaluates them with the very same model functions: the
// outcome must not depend on which transport carried the bytes.

import (
	"context"
	"strings"
	"net"
	"sync"
	"time"

	"github.com/cenkalti/backoff/v4"
	"github.com/gebn/bmc"
)

var useUDP bool

// long enough that a reply on loopback is never taken for lost on a loaded machine; lost replies cost this much each, so
// ops with lost replies are sampled more thinly
const udpAttemptTimeout = 200 * time.Millisecond

type udpRelay struct {
	conn *net.UDPConn
	done chan struct{}
	mu   sync.Mutex
}

func (r *udpRelay) close() { r.conn.Close(); <-r.done }

// newTransport builds the connection a scenario drives: in-memory through the verif hook, or — in UDP mode — a real
// DialV2 connection to a relay that consults the same send function. timeout is the per-attempt timeout.
func newTransport(send bmc.VerifSendFunc, timeout time.Duration) (*bmc.V2SessionlessTransport, func()) {
	if !useUDP {
		return bmc.VerifNewV2SessionlessTransport(send, timeout, &backoff.ZeroBackOff{}), func() {}
	}
	c, err := net.ListenUDP("udp4", &net.UDPAddr{IP: net.IPv4(127, 0, 0, 1)})
	if err != nil {
		panic("udp relay: " + err.Error())
	}
	r := &udpRelay{conn: c, done: make(chan struct{})}
	go func() {
		buf := make([]byte, 4096)
		for {
			n, addr, err := c.ReadFromUDP(buf)
			if err != nil {
				close(r.done)
				return
			}
			p := append([]byte(nil), buf[:n]...)
			r.mu.Lock()
			reply, err := send(context.Background(), p)
			r.mu.Unlock()
			if err == nil {
				c.WriteToUDP(append([]byte(nil), reply...), addr)
			}
		}
	}()
	t, err := bmc.DialV2(c.LocalAddr().String(), bmc.WithTimeout(udpAttemptTimeout))
	if err != nil {
		panic("udp relay: dial: " + err.Error())
	}
	bmc.VerifSetBackOff(t, &backoff.ZeroBackOff{})
	return t, func() { t.Close(); r.close() }
}

func inUDP(ex func([]string) (string, string)) func([]string) (string, string) {
	return func(a []string) (string, string) {
		useUDP = true
		defer func() { useUDP = false }()
		return ex(a)
	}
}

func init() {
	executors["sendu"] = inUDP(func(a []string) (string, string) { return execSend(a) })
	executors["slsendu"] = inUDP(func(a []string) (string, string) { return execSlSend(a) })
	executors["hsu"] = inUDP(func(a []string) (string, string) { return execHs(a) })
	scenarios["udp"] = genUDP
}

// genUDP re-emits a sample of the ops of the send / slsend / hs generators under their UDP kinds
func genUDP(g *genCtx) {
	every := map[string]int{"send": 80, "slsend": 24, "hs": 24}
	if g.thorough() {
		every = map[string]int{"send": 6, "slsend": 3, "hs": 3}
	}
	for _, name := range []string{"send", "slsend", "hs"} {
		var ops []Op
		sub := &genCtx{rng: g.rng, tier: "quick", stat: map[string]int{}}
		sub.emit = func(op Op) { ops = append(ops, op) }
		scenarios[name](sub)
		k := 0
		for _, op := range ops {
			if op.Kind != name {
				continue
			}
			// a socket write error (W) cannot be scripted over a real socket
			skip := false
			for _, x := range op.Args {
				if x == "W" || len(x) > 2 && (x[:2] == "W," || x[len(x)-2:] == ",W") {
					skip = true
				}
			}
			lost := 0
			for _, x := range op.Args {
				lost += strings.Count(","+x+",", ",L,")
			}
			k++
			if skip || k%every[name] != 0 || lost > 1 || (lost == 1 && (k/every[name])%3 != 0) {
				continue
			}
			op.Kind = name + "u"
			g.emit(op)
		}
	}
}
