package main

// UDP mode: the same scripted scenarios, but through the REAL transport (internal/pkg/transport: DialUDP, socket
// deadlines from the per-attempt context, the reused 512-byte receive buffer) instead of the in-memory transport hook.
// A relay on 127.0.0.1 receives every datagram the library transmits, hands it to the scenario's scripted send function
// and writes the reply back (no reply when the script says the reply is lost). The ops `sendu`, `slsendu`, `hsu` take
// the arguments of `send`, `slsend`, `hs`; the Lean driver evaluates them with the very same model functions: the
// outcome must not depend on which transport carried the bytes.

import (
	"context"
	"strings"
	"net"
	"sync"
	"sync/atomic"
	"syscall"
	"time"
	"unsafe"

	"github.com/cenkalti/backoff/v4"
	"github.com/gebn/bmc"
)

var useUDP bool

// long enough that a reply on loopback is never taken for lost on a loaded machine; lost replies cost this much each, so
// ops with lost replies are sampled more thinly
const udpAttemptTimeout = 200 * time.Millisecond

type udpRelay struct {
	conn      *net.UDPConn
	done      chan struct{}
	mu        sync.Mutex
	got, seen atomic.Int64 // datagrams taken off the socket / completely handled
}

var curRelay atomic.Pointer[udpRelay]

// udpSettle waits until the relay has handled every datagram the library has transmitted so far. (A call can return
// while its last transmission is still in the relay's socket queue — when the reply it accepted was already queued on
// its own socket; what was transmitted is only complete once the relay has seen it. On loopback a datagram is in the
// receiver's queue when the sender's write returns.)
func udpSettle() {
	r := curRelay.Load()
	if r == nil {
		return
	}
	pending := func() int {
		n := 0
		if rc, err := r.conn.SyscallConn(); err == nil {
			rc.Control(func(fd uintptr) {
				syscall.Syscall(syscall.SYS_IOCTL, fd, 0x541B /* FIONREAD */, uintptr(unsafe.Pointer(&n)))
			})
		}
		return n
	}
	quiet := 0
	for i := 0; i < 5000 && quiet < 2; i++ {
		if pending() > 0 || r.got.Load() != r.seen.Load() {
			quiet = 0
			time.Sleep(200 * time.Microsecond)
			continue
		}
		quiet++
		time.Sleep(time.Millisecond)
	}
}

func (r *udpRelay) close() { r.conn.Close(); <-r.done }

// newTransport builds the connection a scenario drives: in-memory through the verif hook, or — in UDP mode — a real
// DialV2 connection to a relay that consults the same send function. timeout is the per-attempt timeout.
func newTransport(send bmc.VerifSendFunc, timeout time.Duration) (*bmc.V2SessionlessTransport, func()) {
	return newTransportOpts(send, timeout, false)
}

// defaults: over real sockets, dial with NO options and set the attempt timeout afterwards with SetTimeout — the other half of the
// public API for it (seed C19-B17: connections dialled without options shared one package-level configuration, which SetTimeout
// on any of them rewrote for all)
func newTransportOpts(send bmc.VerifSendFunc, timeout time.Duration, defaults bool) (*bmc.V2SessionlessTransport, func()) {
	if !useUDP {
		return bmc.VerifNewV2SessionlessTransport(send, timeout, &backoff.ZeroBackOff{}), func() {}
	}
	c, err := net.ListenUDP("udp4", &net.UDPAddr{IP: net.IPv4(127, 0, 0, 1)})
	if err != nil {
		panic("udp relay: " + err.Error())
	}
	r := &udpRelay{conn: c, done: make(chan struct{})}
	curRelay.Store(r)
	go func() {
		buf := make([]byte, 4096)
		for {
			n, addr, err := c.ReadFromUDP(buf)
			if err != nil {
				close(r.done)
				return
			}
			r.got.Add(1)
			p := append([]byte(nil), buf[:n]...)
			r.mu.Lock()
			reply, err := send(context.Background(), p)
			r.mu.Unlock()
			if err == nil {
				c.WriteToUDP(append([]byte(nil), reply...), addr)
				// a burst: further datagrams the BMC side emits right behind this reply (duplicates, delayed replies to
				// earlier commands); they queue up in the library's socket
				if extra, ok := burstAfter[hx(reply)]; ok {
					delete(burstAfter, hx(reply))
					for _, x := range extra {
						c.WriteToUDP(x, addr)
					}
				}
			}
			r.seen.Add(1)
		}
	}()
	var t *bmc.V2SessionlessTransport
	if defaults {
		if t, err = bmc.DialV2(c.LocalAddr().String()); err == nil {
			t.SetTimeout(udpAttemptTimeout)
		}
	} else {
		t, err = bmc.DialV2(c.LocalAddr().String(), bmc.WithTimeout(udpAttemptTimeout))
	}
	if err != nil {
		panic("udp relay: dial: " + err.Error())
	}
	bmc.VerifSetBackOff(t, &backoff.ZeroBackOff{})
	return t, func() { t.Close(); r.close() }
}

func inUDP(ex func([]string) (string, string)) func([]string) (string, string) {
	return func(a []string) (string, string) {
		useUDP = true
		defer func() { useUDP = false }()
		return ex(a)
	}
}

// Bursts. A raw script item `R:a+R:b+…` makes the relay answer one transmission with several datagrams. The socket is a
// FIFO: every attempt reads the OLDEST datagram not yet read (or times out when there is none), so what attempt i sees
// is determined by the raw script alone — queueScript computes it, and the very same computation is done on the Lean
// side (`Driver.queueScript`). The scenario's send function is driven with the first datagram of each item; the
// reference verdicts and the model are given the delivered script.
var (
	burstAfter  = map[string][][]byte{}
	driveScript []string // when non-nil: what the scripted send functions answer with, instead of the op's script
)

func queueScript(raw []string) (delivered, firsts []string) {
	var q []string
	for _, it := range raw {
		if it != "L" {
			ds := strings.Split(it, "+")
			q = append(q, ds...)
			firsts = append(firsts, ds[0])
		} else {
			firsts = append(firsts, "L")
		}
		if len(q) == 0 {
			delivered = append(delivered, "L")
		} else {
			delivered = append(delivered, q[0])
			q = q[1:]
		}
	}
	return
}

func inBurst(ex func([]string) (string, string), scriptArg int) func([]string) (string, string) {
	return inUDP(func(a []string) (string, string) {
		if len(a) <= scriptArg || a[scriptArg] == "-" {
			return "bad-op", ""
		}
		raw := strings.Split(a[scriptArg], ",")
		delivered, firsts := queueScript(raw)
		burstAfter = map[string][][]byte{}
		for _, it := range raw {
			if ds := strings.Split(it, "+"); len(ds) > 1 {
				var extra [][]byte
				for _, d := range ds[1:] {
					extra = append(extra, unhx(strings.TrimPrefix(d, "R:")))
				}
				burstAfter[hx(unhx(strings.TrimPrefix(ds[0], "R:")))] = extra
			}
		}
		driveScript = firsts
		defer func() { driveScript = nil; burstAfter = map[string][][]byte{} }()
		b := append([]string(nil), a...)
		b[scriptArg] = strings.Join(delivered, ",")
		return ex(b)
	})
}

func init() {
	executors["sendb"] = inBurst(func(a []string) (string, string) { return execSend(a) }, 14)
	executors["slsendb"] = inBurst(func(a []string) (string, string) { return execSlSend(a) }, 6)
	executors["sendu"] = inUDP(func(a []string) (string, string) { return execSend(a) })
	executors["slsendu"] = inUDP(func(a []string) (string, string) { return execSlSend(a) })
	executors["hsu"] = inUDP(func(a []string) (string, string) { return execHs(a) })
	scenarios["udp"] = genUDP
}

// genUDP re-emits a sample of the ops of the send / slsend / hs generators under their UDP kinds
func genUDP(g *genCtx) {
	every := map[string]int{"send": 80, "slsend": 24, "hs": 24}
	if g.thorough() {
		every = map[string]int{"send": 6, "slsend": 3, "hs": 3}
	}
	for _, name := range []string{"send", "slsend", "hs"} {
		var ops []Op
		sub := &genCtx{rng: g.rng, tier: "quick", stat: map[string]int{}}
		sub.emit = func(op Op) { ops = append(ops, op) }
		scenarios[name](sub)
		k := 0
		for _, op := range ops {
			if op.Kind != name {
				continue
			}
			// a socket write error (W) cannot be scripted over a real socket
			skip := false
			for _, x := range op.Args {
				if x == "W" || len(x) > 2 && (x[:2] == "W," || x[len(x)-2:] == ",W") {
					skip = true
				}
			}
			lost := 0
			for _, x := range op.Args {
				lost += strings.Count(","+x+",", ",L,")
			}
			k++
			if skip || k%every[name] != 0 || lost > 1 || (lost == 1 && (k/every[name])%3 != 0) {
				continue
			}
			op.Kind = name + "u"
			g.emit(op)
			// a burst variant: behind one of the replies a second datagram (a duplicate, or another reply of the script)
			// follows at once; one more lost item at the end so that the script is as long as what gets delivered
			if name == "hs" || g.rng.Intn(2) == 0 {
				continue
			}
			si := map[string]int{"send": 14, "slsend": 6}[name]
			if len(op.Args) <= si || op.Args[si] == "-" || strings.Contains(op.Args[si], "!") {
				continue
			}
			items := strings.Split(op.Args[si], ",")
			var rs []int
			for i, it := range items {
				if strings.HasPrefix(it, "R:") && len(it) > 2 {
					rs = append(rs, i)
				}
			}
			if len(rs) == 0 {
				continue
			}
			at := rs[g.rng.Intn(len(rs))]
			if g.rng.Intn(2) == 0 {
				at = rs[len(rs)-1] // behind the last reply: what is left queued when the call returns
			}
			extra := items[rs[g.rng.Intn(len(rs))]]
			if hx(unhx(items[at][2:])) == hx(unhx(extra[2:])) && g.rng.Intn(2) == 0 && len(extra) > 8 {
				extra = extra[:len(extra)-2] + "5a" // a near-duplicate
			}
			// the relay keys bursts by the reply bytes: keep that reply unique in the script
			uniq := true
			for i, it := range items {
				if i != at && it == items[at] {
					uniq = false
				}
			}
			if !uniq {
				continue
			}
			bi := append([]string(nil), items...)
			bi[at] = bi[at] + "+" + extra
			bi = append(bi, "L")
			bop := Op{Class: op.Class, NonTrivial: true, Kind: name + "b", Args: append([]string(nil), op.Args...)}
			bop.Args[si] = strings.Join(bi, ",")
			g.emit(bop)
		}
	}
}
