package main

import (
	"math/rand"

	"github.com/gebn/bmc/pkg/ipmi"
	"github.com/google/gopacket"
)

func init() {
	registerLayer(&layerSpec{
		name:  "deviceid",
		fresh: func() gopacket.DecodingLayer { return &ipmi.GetDeviceIDRsp{} },
		min:   11,
		valid: func(rng *rand.Rand) []byte {
			b := rbytes(rng, 11)
			b[1] &= 0x8f                                        // bits 6:4 reserved
			b[3] = byte(rng.Intn(10))<<4 | byte(rng.Intn(10)) // BCD
			b[8] &= 0x0f                                        // IANA is 20 bits, the top nibble reserved
			switch rng.Intn(3) {                                // auxiliary firmware revision is optional (all 4 bytes or none)
			case 0:
				b = append(b, rbytes(rng, 4)...)
			}
			return b
		},
		extra: func(g *genCtx, emit func(byte, bool, []byte, []byte, []byte)) {
			// every partial length of the auxiliary revision after a full one (C17)
			full := append(rbytes(g.rng, 11), 0xAA, 0xBB, 0xCC, 0xDD)
			for l := 11; l <= 17; l++ {
				d := append(rbytes(g.rng, 11), rbytes(g.rng, l-11)...)
				emit('M', true, full, d, nil)
			}
		},
	})
	registerLayer(&layerSpec{
		name:  "chassis",
		fresh: func() gopacket.DecodingLayer { return &ipmi.GetChassisStatusRsp{} },
		min:   3,
		valid: func(rng *rand.Rand) []byte {
			b := rbytes(rng, 3)
			b[0] &= 0x7f
			b[1] &= 0x1f
			b[2] &= 0x7f
			if rng.Intn(2) == 0 {
				b = append(b, byte(rng.Intn(256)))
			}
			return b
		},
	})
}
