package main

// DCMI response layers (pkg/dcmi): the five Get DCMI Capabilities Info parameter responses, Get Power
// Reading and Get DCMI Sensor Info.
//
// The capabilities layers embed the UNEXPORTED struct getDCMICapabilitiesInfoRspHeader, whose
// (exported, promoted) fields MajorVersion / MinorVersion / Revision the reflection dump skips. They are
// part of the observable result (callers read rsp.MajorVersion), so each layer is wrapped: the wrapper
// embeds the real layer, calls its DecodeFromBytes unchanged and afterwards copies the three promoted
// fields into exported fields of its own, which are dumped AFTER the layer's own fields.

import (
	"math/rand"

	"github.com/gebn/bmc/pkg/dcmi"
	"github.com/google/gopacket"
)

type dcmiHdrCopy struct{ MajorVersion, MinorVersion, Revision uint8 }

type dcmiCap1 struct {
	dcmi.GetDCMICapabilitiesInfoSupportedCapabilitiesRsp
	Header dcmiHdrCopy
}

func (w *dcmiCap1) DecodeFromBytes(d []byte, df gopacket.DecodeFeedback) error {
	l := &w.GetDCMICapabilitiesInfoSupportedCapabilitiesRsp
	err := l.DecodeFromBytes(d, df)
	w.Header = dcmiHdrCopy{l.MajorVersion, l.MinorVersion, l.Revision}
	return err
}

type dcmiCap2 struct {
	dcmi.GetDCMICapabilitiesInfoMandatoryPlatformAttrsRsp
	Header dcmiHdrCopy
}

func (w *dcmiCap2) DecodeFromBytes(d []byte, df gopacket.DecodeFeedback) error {
	l := &w.GetDCMICapabilitiesInfoMandatoryPlatformAttrsRsp
	err := l.DecodeFromBytes(d, df)
	w.Header = dcmiHdrCopy{l.MajorVersion, l.MinorVersion, l.Revision}
	return err
}

type dcmiCap3 struct {
	dcmi.GetDCMICapabilitiesInfoOptionalPlatformAttrsRsp
	Header dcmiHdrCopy
}

func (w *dcmiCap3) DecodeFromBytes(d []byte, df gopacket.DecodeFeedback) error {
	l := &w.GetDCMICapabilitiesInfoOptionalPlatformAttrsRsp
	err := l.DecodeFromBytes(d, df)
	w.Header = dcmiHdrCopy{l.MajorVersion, l.MinorVersion, l.Revision}
	return err
}

type dcmiCap4 struct {
	dcmi.GetDCMICapabilitiesInfoManageabilityAccessAttrsRsp
	Header dcmiHdrCopy
}

func (w *dcmiCap4) DecodeFromBytes(d []byte, df gopacket.DecodeFeedback) error {
	l := &w.GetDCMICapabilitiesInfoManageabilityAccessAttrsRsp
	err := l.DecodeFromBytes(d, df)
	w.Header = dcmiHdrCopy{l.MajorVersion, l.MinorVersion, l.Revision}
	return err
}

type dcmiCap5 struct {
	dcmi.GetDCMICapabilitiesInfoEnhancedSystemPowerStatisticsAttrsRsp
	Header dcmiHdrCopy
}

func (w *dcmiCap5) DecodeFromBytes(d []byte, df gopacket.DecodeFeedback) error {
	l := &w.GetDCMICapabilitiesInfoEnhancedSystemPowerStatisticsAttrsRsp
	err := l.DecodeFromBytes(d, df)
	w.Header = dcmiHdrCopy{l.MajorVersion, l.MinorVersion, l.Revision}
	return err
}

// the three DCMI versions: (major, minor, parameter revision)
var dcmiVersions = [][]byte{{1, 0, 1}, {1, 1, 2}, {1, 5, 2}}

// the parameter revision is a field of its own: the published value for the version, the OTHER published value, or any
// byte — it must not influence how the rest of the response is read
func dcmiHdr(rng *rand.Rand, from int) []byte {
	h := append([]byte(nil), dcmiVersions[from+rng.Intn(len(dcmiVersions)-from)]...)
	switch rng.Intn(4) {
	case 0:
		h[2] ^= 3 // 01 <-> 02
	case 1:
		h[2] = byte(rng.Intn(256))
	}
	return h
}

func cat(parts ...[]byte) []byte {
	var o []byte
	for _, p := range parts {
		o = append(o, p...)
	}
	return o
}

type emitFn = func(class byte, nt bool, prev, data, tail []byte)

var dcmiPoison = []byte{0xEE, 0xEE, 0xEE, 0xEE, 0xEE, 0xEE, 0xEE, 0xEE}

func init() {
	// parameter 1: supported DCMI capabilities
	cap1Body := func(rng *rand.Rand, h []byte) []byte {
		b := rbytes(rng, 3)
		b[1] &= 0x01
		if h[1] == 0 { // v1.0: mandatory platform capabilities 3:0, manageability access 5:0
			b[0] &= 0x0f
			b[2] &= 0x3f
		} else { // v1.1 / v1.5: byte 1 reserved, manageability access 2:0
			b[0] = 0
			b[2] &= 0x07
		}
		return b
	}
	registerLayer(&layerSpec{
		name:  "dcmicap1",
		fresh: func() gopacket.DecodingLayer { return &dcmiCap1{} },
		min:   6,
		valid: func(rng *rand.Rand) []byte {
			h := dcmiHdr(rng, 0)
			return cat(h, cap1Body(rng, h))
		},
		extra: func(g *genCtx, emit emitFn) {
			// every version after every version, all-ones and all-zero flag bytes (forced-true fields vs wire bits)
			for _, hp := range dcmiVersions {
				for _, hd := range dcmiVersions {
					for _, fill := range []byte{0x00, 0xff, 0x55, 0xaa} {
						p := cat(hp, []byte{^fill, ^fill, ^fill})
						d := cat(hd, []byte{fill, fill, fill})
						emit('M', true, p, d, nil)
						emit('M', true, p, cat(d, []byte{0x99}), dcmiPoison)
					}
				}
			}
			// versions the library has never heard of take the "not 1.0" layout: major ≠ 1 with minor 0, minor ≠ 0
			for _, h := range [][]byte{{2, 0, 1}, {0, 0, 0}, {1, 2, 2}, {1, 255, 9}, {255, 0, 1}} {
				emit('M', true, cat(dcmiVersions[0], []byte{0x0f, 1, 0x3f}), cat(h, rbytes(g.rng, 3)), nil)
			}
			// header only, header + partial body
			for l := 0; l < 6; l++ {
				emit('P', false, nil, cat(dcmiVersions[2], []byte{0, 1, 7})[:l], dcmiPoison)
			}
		},
	})

	// parameter 2: mandatory platform attributes. SEL attributes follow the reading the library's tests pin:
	// first byte = flags 7:5 + low nibble of the entry count, second byte = bits 15:8 of the count.
	cap2Body := func(rng *rand.Rand, h []byte) []byte {
		if h[1] == 0 {
			b := rbytes(rng, 4)
			b[0] &= 0x8f // flush flags are not defined in v1.0
			b[2] &= 0x07
			b[3] &= 0x07
			return b
		}
		b := rbytes(rng, 5)
		b[0] &= 0xef
		b[2], b[3] = 0, 0 // reserved from v1.1
		return b
	}
	registerLayer(&layerSpec{
		name:  "dcmicap2",
		fresh: func() gopacket.DecodingLayer { return &dcmiCap2{} },
		min:   7,
		valid: func(rng *rand.Rand) []byte {
			h := dcmiHdr(rng, 0)
			return cat(h, cap2Body(rng, h))
		},
		extra: func(g *genCtx, emit emitFn) {
			// the "4-byte body ⇒ v1.0 layout" quirk (SuperMicro: v1.1 header, v1.0 body), and every pair of
			// {v1.0 4-byte, v1.0 5-byte (1 trailing), v1.1 4-byte (quirk), v1.1 5-byte, v1.5 6-byte (1 trailing)}
			var forms [][]byte
			for _, h := range dcmiVersions {
				for _, n := range []int{4, 5, 6} {
					for _, fill := range []byte{0x00, 0xff} {
						b := make([]byte, n)
						for i := range b {
							b[i] = fill
						}
						forms = append(forms, cat(h, b))
					}
					forms = append(forms, cat(h, rbytes(g.rng, n)))
				}
			}
			for _, p := range forms {
				for _, d := range forms {
					emit('M', true, p, d, nil)
				}
			}
			for _, d := range forms {
				emit('M', true, nil, d, nil)
				emit('M', true, nil, d, dcmiPoison)
			}
			// the repository's own test vectors
			for _, d := range [][]byte{
				{1, 0, 1, 0xf5, 0xaa, 0x05, 0x02}, {1, 0, 1, 0x7a, 0x5a, 0x02, 0x05}, {1, 1, 2, 0x7a, 0x5a, 0x02, 0x05},
				{1, 1, 2, 0xa5, 0x0a, 0, 0, 0x0f, 3, 4}, {1, 5, 2, 0x4f, 0xff, 0xff, 0xff, 0xf0}} {
				emit('M', true, nil, d, nil)
			}
			for l := 0; l < 7; l++ {
				emit('P', false, nil, []byte{1, 5, 2, 0x85, 2, 0, 0, 9}[:l], dcmiPoison)
			}
		},
	})

	// parameter 3: optional platform attributes
	registerLayer(&layerSpec{
		name:  "dcmicap3",
		fresh: func() gopacket.DecodingLayer { return &dcmiCap3{} },
		min:   5,
		valid: func(rng *rand.Rand) []byte {
			b := rbytes(rng, 2)
			b[0] &= 0xfe // bit 0 reserved
			return cat(dcmiHdr(rng, 0), b)
		},
		extra: func(g *genCtx, emit emitFn) {
			for _, fill := range []byte{0x00, 0xff, 0x01, 0xfe, 0xf0, 0x0f} {
				emit('M', true, []byte{1, 0, 1, ^fill, ^fill}, []byte{1, 5, 2, fill, fill}, nil)
				emit('M', true, nil, []byte{1, 5, 2, fill, fill, 7}, dcmiPoison)
			}
			for l := 0; l < 5; l++ {
				emit('P', false, nil, []byte{1, 5, 2, 0x20, 0xf0}[:l], dcmiPoison)
			}
		},
	})

	// parameter 4: manageability access attributes
	registerLayer(&layerSpec{
		name:  "dcmicap4",
		fresh: func() gopacket.DecodingLayer { return &dcmiCap4{} },
		min:   6,
		valid: func(rng *rand.Rand) []byte {
			b := rbytes(rng, 3)
			for i := range b { // a channel number, or FF = not supported
				if rng.Intn(3) == 0 {
					b[i] = 0xff
				} else {
					b[i] &= 0x0f
				}
			}
			return cat(dcmiHdr(rng, 0), b)
		},
		extra: func(g *genCtx, emit emitFn) {
			for _, fill := range []byte{0x00, 0xff, 0x80, 0x7f} {
				emit('M', true, []byte{1, 1, 2, ^fill, ^fill, ^fill}, []byte{1, 5, 2, fill, fill, fill}, nil)
				emit('M', true, nil, []byte{1, 5, 2, fill, fill, fill, 7, 8}, dcmiPoison)
			}
			for l := 0; l < 6; l++ {
				emit('P', false, nil, []byte{1, 5, 2, 1, 0xff, 3}[:l], dcmiPoison)
			}
		},
	})

	// parameter 5: enhanced system power statistics attributes (v1.1+): count n, n rolling-average bytes
	cap5 := func(rng *rand.Rand, n int) []byte {
		return cat(dcmiHdr(rng, 1), []byte{byte(n)}, rbytes(rng, n))
	}
	registerLayer(&layerSpec{
		name:  "dcmicap5",
		fresh: func() gopacket.DecodingLayer { return &dcmiCap5{} },
		min:   4,
		valid: func(rng *rand.Rand) []byte {
			switch rng.Intn(8) {
			case 0:
				return cap5(rng, 0)
			case 1:
				return cap5(rng, 8+rng.Intn(56))
			}
			return cap5(rng, 1+rng.Intn(7))
		},
		extra: func(g *genCtx, emit emitFn) {
			// every rolling-average byte value, in lists of 64 (all four units, value 0 in every unit)
			for base := 0; base < 256; base += 64 {
				b := []byte{1, 5, 2, 64}
				for i := 0; i < 64; i++ {
					b = append(b, byte(base+i))
				}
				emit('P', true, nil, b, nil)
				emit('P', true, nil, b, dcmiPoison)
			}
			// longer then shorter, shorter then longer, equal lengths, empty lists; with and without trailing bytes
			lens := []int{0, 1, 2, 3, 5, 8, 17, 255}
			for _, a := range lens {
				for _, b := range lens {
					p, d := cap5(g.rng, a), cap5(g.rng, b)
					emit('P', true, p, d, nil)
					emit('M', true, p, cat(d, []byte{0x11, 0x22}), dcmiPoison)
				}
			}
			// count byte larger than what follows: one short, far short, count 255 with nothing (the bytes beyond
			// len must not be taken for periods)
			for _, n := range []int{1, 2, 5, 8, 200, 255} {
				for _, have := range []int{0, 1, n - 1} {
					if have < 0 || have >= n {
						continue
					}
					d := cat([]byte{1, 5, 2, byte(n)}, rbytes(g.rng, have))
					emit('P', true, nil, d, dcmiPoison)
					emit('P', true, cap5(g.rng, 3), d, nil)
				}
			}
			for l := 0; l < 4; l++ {
				emit('P', false, nil, []byte{1, 5, 2, 0}[:l], dcmiPoison)
			}
		},
	})

	// Get Power Reading
	registerLayer(&layerSpec{
		name:  "powerreading",
		fresh: func() gopacket.DecodingLayer { return &dcmi.GetPowerReadingRsp{} },
		min:   17,
		valid: func(rng *rand.Rand) []byte {
			b := rbytes(rng, 17)
			b[16] &= 0x40 // bit 6 = measurement active, the rest reserved
			switch rng.Intn(6) {
			case 0: // extreme timestamp / period
				copy(b[8:16], []byte{0xff, 0xff, 0xff, 0xff, 0xff, 0xff, 0xff, 0xff})
			case 1:
				copy(b[8:16], []byte{0, 0, 0, 0, 0, 0, 0, 0})
			case 2: // timestamp with the top bit set (would be negative as int32)
				b[11] |= 0x80
			}
			return b
		},
		extra: func(g *genCtx, emit emitFn) {
			// the 0-byte response of a BMC without power supply connection, and 1…16 bytes: all errors
			for l := 0; l < 17; l++ {
				emit('P', l > 0, nil, rbytes(g.rng, l), dcmiPoison)
				emit('P', l > 0, append(rbytes(g.rng, 16), 0x40), rbytes(g.rng, l), nil)
			}
			// every bit of the state byte; trailing bytes
			for bit := 0; bit < 8; bit++ {
				d := append(rbytes(g.rng, 16), byte(1<<bit))
				emit('M', true, append(rbytes(g.rng, 16), 0xff), d, nil)
				emit('M', true, nil, cat(d, rbytes(g.rng, 3)), dcmiPoison)
			}
			for _, d := range [][]byte{
				{0xae, 0x08, 0x57, 0x04, 0x05, 0x0d, 0xd2, 0x04, 0x73, 0xb6, 0x44, 0x5d, 0xaa, 0xbb, 0xcc, 0xdd, 0x40},
				{0x7a, 0x00, 0x50, 0x00, 0x96, 0x00, 0x78, 0x00, 0x2b, 0xb8, 0x44, 0x5d, 0xdd, 0xcc, 0xbb, 0xaa, 0xbf}} {
				emit('M', true, nil, d, nil)
			}
		},
	})

	// Get DCMI Sensor Info
	sensorInfo := func(rng *rand.Rand, n int) []byte {
		return cat([]byte{byte(rng.Intn(256)), byte(n)}, rbytes(rng, 2*n))
	}
	registerLayer(&layerSpec{
		name:  "dcmisensorinfo",
		fresh: func() gopacket.DecodingLayer { return &dcmi.GetDCMISensorInfoRsp{} },
		min:   2,
		valid: func(rng *rand.Rand) []byte { return sensorInfo(rng, rng.Intn(9)) }, // the specification allows at most 8 per response
		extra: func(g *genCtx, emit emitFn) {
			// RecordIDs reuses its backing array: longer then shorter, shorter then longer, equal, empty, beyond
			// the specification's 8, the maximum 255; with and without trailing bytes and a window
			lens := []int{0, 1, 2, 3, 4, 7, 8, 9, 16, 17, 100, 255}
			for _, a := range lens {
				for _, b := range lens {
					p, d := sensorInfo(g.rng, a), sensorInfo(g.rng, b)
					emit('M', true, p, d, nil)
					emit('M', true, p, d, dcmiPoison)
					emit('M', true, p, cat(d, []byte{0x77}), nil)
				}
			}
			// the length guard 2 + 2n: exactly one byte short (odd length), two short, only the two header bytes,
			// count 255 with 509 / 510 / 511 bytes following
			for _, n := range []int{1, 2, 3, 8, 9, 127, 128, 254, 255} {
				for _, miss := range []int{1, 2, 3, 2 * n} {
					if miss > 2*n {
						continue
					}
					d := cat([]byte{9, byte(n)}, rbytes(g.rng, 2*n-miss))
					emit('P', true, nil, d, nil)
					emit('P', true, nil, d, dcmiPoison) // bytes beyond len must not be taken for record IDs
					emit('P', true, sensorInfo(g.rng, n), d, dcmiPoison)
				}
				full := sensorInfo(g.rng, n)
				emit('M', true, nil, full, nil)
				emit('M', true, nil, cat(full, []byte{0xab}), dcmiPoison)
			}
			emit('P', false, nil, nil, dcmiPoison)
			emit('P', false, nil, []byte{5}, dcmiPoison)
			// the repository's own test vectors
			for _, d := range [][]byte{{0, 0}, {0, 2, 1, 2, 3}, {2, 1, 0xab, 0xba}, {9, 2, 0xf0, 0x0f, 0x0f, 0xf0, 0xff}} {
				emit('M', true, nil, d, nil)
			}
		},
	})
}
