package main

// The high-level API (the wrappers around SendCommand): every method of bmc.V2Session, of the session-less
// connection and of the two DCMI commanders, called on a real connection over the verif transport hook with scripted
// replies.
//
//	api <sess|sl> <auth> <integ> <k1> <k2> <localID> <remoteID> <inbound> <call> <args|-> <entropy> <script> [/ <call> <args|-> <entropy> <script>]…
//
// Per call the outcome is `sent=<datagrams> res=<ok DUMP | err | panic> inbound=<n>` (DUMP = the reflection dump of the
// returned response struct exactly as the `dec` op prints it, `GUID=…` / `PrivilegeLevel=…` for the two projections,
// `-` for calls returning an error only); several calls on one connection are joined by " ; ".
//
// Model-independent verdicts (apiJudge): what the script's first acceptable final response carries decides the
// result — code 0 and a body the real decoder accepts on a FRESH receiver ⇒ exactly that decode; anything else ⇒ an
// error; every transmitted datagram must open under the reference BMC (sim.go) / the reference parser (enc.go) to the
// specification's command for this call, carrying the caller's arguments.

import (
	"bytes"
	"context"
	"crypto/rand"
	"errors"
	"fmt"
	"io"
	"strings"
	"time"

	"github.com/cenkalti/backoff/v4"
	"github.com/gebn/bmc"
	"github.com/gebn/bmc/pkg/dcmi"
	"github.com/gebn/bmc/pkg/ipmi"
	"github.com/google/gopacket"
)

func init() {
	executors["api"] = execApi
	scenarios["api"] = genApi
}

// apiCallSpec: the specification's view of one call (IPMI v2.0 Appendix G / DCMI table 6-1)
type apiCallSpec struct {
	name       string
	netFn, cmd byte
	dcmi       bool
	reqLayer   string // layout of the request data (enc.go: c06RefBody); "" = none
	rspLayer   string // registered decoder of the response layer (dec_*.go); "" = the command has no response layer
	sl         bool   // exists on a session-less connection
}

var apiCalls = []apiCallSpec{
	{"GetSystemGUID", 0x06, 0x37, false, "", "guid", true},
	{"GetChannelAuthenticationCapabilities", 0x06, 0x38, false, "authcaps", "authcaps", true},
	{"GetSessionInfo", 0x06, 0x3d, false, "sessioninfo", "sessioninfo", false},
	{"GetDeviceID", 0x06, 0x01, false, "", "deviceid", false},
	{"GetChassisStatus", 0x00, 0x01, false, "", "chassis", false},
	{"ChassisControl", 0x00, 0x02, false, "chassisctl", "", false},
	{"GetSDRRepositoryInfo", 0x0a, 0x20, false, "", "sdrrepoinfo", false},
	{"ReserveSDRRepository", 0x0a, 0x22, false, "", "reservesdr", false},
	{"GetSensorReading", 0x04, 0x2d, false, "sensorreading", "sensorreading", false},
	{"GetSessionPrivilegeLevel", 0x06, 0x3b, false, "setpriv", "setpriv", false},
	{"SetSessionPrivilegeLevel", 0x06, 0x3b, false, "setpriv", "setpriv", false},
	{"Close", 0x06, 0x3c, false, "closesession", "", false},
	{"GetPowerReading", 0x2c, 0x02, true, "powerreading", "powerreading", false},
	{"GetDCMISensorInfo", 0x2c, 0x07, true, "dcmisensorinfo", "dcmisensorinfo", false},
	{"GetDCMICapabilitiesInfoSupportedCapabilities", 0x2c, 0x01, true, "dcmicaps", "dcmicap1", true},
	{"GetDCMICapabilitiesInfoMandatoryPlatformAttrs", 0x2c, 0x01, true, "dcmicaps", "dcmicap2", true},
	{"GetDCMICapabilitiesInfoOptionalPlatformAttrs", 0x2c, 0x01, true, "dcmicaps", "dcmicap3", true},
	{"GetDCMICapabilitiesInfoManageabilityAccessAttrs", 0x2c, 0x01, true, "dcmicaps", "dcmicap4", true},
	{"GetDCMICapabilitiesInfoEnhancedSystemPowerStatisticsAttrs", 0x2c, 0x01, true, "dcmicaps", "dcmicap5", true},
}

func apiSpecOf(name string) *apiCallSpec {
	for i := range apiCalls {
		if apiCalls[i].name == name {
			return &apiCalls[i]
		}
	}
	return nil
}

func (c *apiCallSpec) prefix() []byte {
	if c.dcmi {
		return []byte{0xdc}
	}
	return nil
}

// reqFields: the caller's arguments as the positional field values of the request layout
func (c *apiCallSpec) reqFields(args []string, rid uint32) []string {
	switch c.name {
	case "Close":
		return []string{fmt.Sprint(rid), "0"}
	case "GetSessionPrivilegeLevel":
		return []string{"0"}
	}
	if c.reqLayer == "dcmicaps" {
		return []string{string(c.rspLayer[len(c.rspLayer)-1])}
	}
	return args
}

// apiProject renders what the wrapper hands back from a decoded response layer
func apiProject(l gopacket.DecodingLayer, hide map[string]bool) string {
	switch x := l.(type) {
	case *ipmi.GetSystemGUIDRsp:
		return "GUID=" + hx(x.GUID[:])
	case *ipmi.SetSessionPrivilegeLevelRsp:
		return fmt.Sprintf("PrivilegeLevel=%d", uint8(x.PrivilegeLevel))
	}
	return dumpLayer(l, hide)
}

// apiConn is one connection: a session (after a real handshake) or a session-less transport
type apiConn struct {
	sess *bmc.V2Session
	t    *bmc.V2SessionlessTransport
}

func (c apiConn) sessionless() bmc.Sessionless {
	if c.sess != nil {
		return c.sess
	}
	return c.t
}

// apiInvoke calls the real method; the value is rendered only when the error is nil
// results handed to the caller stay the caller's: every response struct returned by a call is kept and dumped again
// after the LAST call on the connection; a later call must not have changed it (a wrapper that caches its command
// struct would)
type apiHeldResult struct {
	l    gopacket.DecodingLayer
	dump string
}

var apiHeld []apiHeldResult

// BaseLayer.Contents / Payload are gopacket's zero-copy windows into the packet data (here: the connection's receive /
// decrypt buffer), which the next packet legitimately overwrites; the decoded FIELDS are the caller's
var apiHeldHide = map[string]bool{"Contents": true, "Payload": true}

func holdDump(l gopacket.DecodingLayer) string {
	apiHeld = append(apiHeld, apiHeldResult{l, dumpLayer(l, apiHeldHide)})
	return dumpLayer(l, nil)
}

func apiInvoke(ctx context.Context, c apiConn, name string, a []string) (val string, err error) {
	n := func(i int) int { return int(c06Int(a[i])) }
	caps := func() dcmi.SessionlessCommands {
		if c.sess != nil {
			return dcmi.NewSessionCommander(c.sess)
		}
		return dcmi.NewSessionlessCommander(c.t)
	}
	switch name {
	case "GetSystemGUID":
		g, err := c.sessionless().GetSystemGUID(ctx)
		if err != nil {
			return "", err
		}
		return "GUID=" + hx(g[:]), nil
	case "GetChannelAuthenticationCapabilities":
		r, err := c.sessionless().GetChannelAuthenticationCapabilities(ctx, c06Layer("authcaps", a).(*ipmi.GetChannelAuthenticationCapabilitiesReq))
		if err != nil {
			return "", err
		}
		return holdDump(r), nil
	case "GetSessionInfo":
		r, err := c.sess.GetSessionInfo(ctx, c06Layer("sessioninfo", a).(*ipmi.GetSessionInfoReq))
		if err != nil {
			return "", err
		}
		return holdDump(r), nil
	case "GetDeviceID":
		r, err := c.sess.GetDeviceID(ctx)
		if err != nil {
			return "", err
		}
		return holdDump(r), nil
	case "GetChassisStatus":
		r, err := c.sess.GetChassisStatus(ctx)
		if err != nil {
			return "", err
		}
		return holdDump(r), nil
	case "ChassisControl":
		if err := c.sess.ChassisControl(ctx, ipmi.ChassisControl(uint(c06Int(a[0])))); err != nil {
			return "", err
		}
		return "-", nil
	case "GetSDRRepositoryInfo":
		r, err := c.sess.GetSDRRepositoryInfo(ctx)
		if err != nil {
			return "", err
		}
		return holdDump(r), nil
	case "ReserveSDRRepository":
		r, err := c.sess.ReserveSDRRepository(ctx)
		if err != nil {
			return "", err
		}
		return holdDump(r), nil
	case "GetSensorReading":
		r, err := c.sess.GetSensorReading(ctx, uint8(n(0)))
		if err != nil {
			return "", err
		}
		return holdDump(r), nil
	case "GetSessionPrivilegeLevel":
		l, err := c.sess.GetSessionPrivilegeLevel(ctx)
		if err != nil {
			return "", err
		}
		return fmt.Sprintf("PrivilegeLevel=%d", uint8(l)), nil
	case "SetSessionPrivilegeLevel":
		l, err := c.sess.SetSessionPrivilegeLevel(ctx, ipmi.PrivilegeLevel(n(0)))
		if err != nil {
			return "", err
		}
		return fmt.Sprintf("PrivilegeLevel=%d", uint8(l)), nil
	case "Close":
		if err := c.sess.Close(ctx); err != nil {
			return "", err
		}
		return "-", nil
	case "GetPowerReading":
		r, err := dcmi.NewSessionCommander(c.sess).GetPowerReading(ctx, c06Layer("powerreading", a).(*dcmi.GetPowerReadingReq))
		if err != nil {
			return "", err
		}
		return holdDump(r), nil
	case "GetDCMISensorInfo":
		r, err := dcmi.NewSessionCommander(c.sess).GetDCMISensorInfo(ctx, c06Layer("dcmisensorinfo", a).(*dcmi.GetDCMISensorInfoReq))
		if err != nil {
			return "", err
		}
		return holdDump(r), nil
	case "GetDCMICapabilitiesInfoSupportedCapabilities":
		r, err := caps().GetDCMICapabilitiesInfoSupportedCapabilities(ctx)
		if err != nil {
			return "", err
		}
		return dumpLayer(&dcmiCap1{*r, dcmiHdrCopy{r.MajorVersion, r.MinorVersion, r.Revision}}, nil), nil
	case "GetDCMICapabilitiesInfoMandatoryPlatformAttrs":
		r, err := caps().GetDCMICapabilitiesInfoMandatoryPlatformAttrs(ctx)
		if err != nil {
			return "", err
		}
		return dumpLayer(&dcmiCap2{*r, dcmiHdrCopy{r.MajorVersion, r.MinorVersion, r.Revision}}, nil), nil
	case "GetDCMICapabilitiesInfoOptionalPlatformAttrs":
		r, err := caps().GetDCMICapabilitiesInfoOptionalPlatformAttrs(ctx)
		if err != nil {
			return "", err
		}
		return dumpLayer(&dcmiCap3{*r, dcmiHdrCopy{r.MajorVersion, r.MinorVersion, r.Revision}}, nil), nil
	case "GetDCMICapabilitiesInfoManageabilityAccessAttrs":
		r, err := caps().GetDCMICapabilitiesInfoManageabilityAccessAttrs(ctx)
		if err != nil {
			return "", err
		}
		return dumpLayer(&dcmiCap4{*r, dcmiHdrCopy{r.MajorVersion, r.MinorVersion, r.Revision}}, nil), nil
	case "GetDCMICapabilitiesInfoEnhancedSystemPowerStatisticsAttrs":
		r, err := caps().GetDCMICapabilitiesInfoEnhancedSystemPowerStatisticsAttrs(ctx)
		if err != nil {
			return "", err
		}
		return dumpLayer(&dcmiCap5{*r, dcmiHdrCopy{r.MajorVersion, r.MinorVersion, r.Revision}}, nil), nil
	}
	return "", errors.New("no such call")
}

// apiWant: what the wrapper has to return for a final response (cc, body): the fresh decode of the body by the real
// decoder when the code is 00h, an error otherwise (also when the body does not decode)
func apiWant(spec *apiCallSpec, cc byte, body []byte) string {
	if spec.rspLayer == "" {
		if cc != 0 {
			return "err"
		}
		return "ok -"
	}
	ls := layerSpecs[spec.rspLayer]
	l := ls.fresh()
	switch res := decodeOnce(l, window(body, nil), ls.hide); {
	case res == "panic":
		return "panic"
	case res == "err" || cc != 0:
		return "err"
	}
	return "ok " + apiProject(l, ls.hide)
}

func splitArgs(s string) []string {
	if s == "-" {
		return nil
	}
	return strings.Split(s, ",")
}

type apiEnv struct {
	conn   apiConn
	se     *sessEnv // in session
	script []string // session-less: own transport state
	pos    int
	sent   [][]byte
	cancel context.CancelFunc
	recv   []byte
}

func (e *apiEnv) slSend(_ context.Context, p []byte) ([]byte, error) {
	if e.pos >= len(e.script) {
		e.cancel()
		return nil, context.Canceled
	}
	e.sent = append(e.sent, append([]byte(nil), p...))
	item := e.script[e.pos]
	e.pos++
	if item == "L" {
		return nil, errors.New("timeout")
	}
	r := unhx(strings.TrimPrefix(item, "R:"))
	for i := range e.recv {
		e.recv[i] = 0xEE
	}
	return e.recv[:copy(e.recv, r)], nil
}

func execApi(a []string) (string, string) {
	kind := a[0]
	auth, integ := byte(atoi(a[1])), byte(atoi(a[2]))
	k1, k2 := unhx(a[3]), unhx(a[4])
	lid, rid, inb := uint32(atoi(a[5])), uint32(atoi(a[6])), uint32(atoi(a[7]))
	e := &apiEnv{}
	switch kind {
	case "sess":
		se, err := openSession(auth, integ)
		if err != nil {
			return "handshake-failed", ""
		}
		defer func() { se.cancel() }()
		if !bytes.Equal(se.sess.K(1), k1) || !bytes.Equal(se.sess.K(2)[:16], k2) || se.sess.LocalID != lid || se.sess.RemoteID != rid {
			return "session-differs-from-op", ""
		}
		se.sess.AuthenticatedSequenceNumbers.Inbound = inb
		e.se, e.conn = se, apiConn{sess: se.sess}
	case "sl":
		e.recv = make([]byte, 512)
		e.conn = apiConn{t: bmc.VerifNewV2SessionlessTransport(e.slSend, 50*time.Millisecond, &backoff.ZeroBackOff{})}
	default:
		return "bad-op", ""
	}
	var outs []string
	verdict := ""
	apiHeld = nil
	defer func() { apiHeld = nil }()
	rest := a[8:]
	for len(rest) >= 4 {
		name, args, entropy := rest[0], splitArgs(rest[1]), unhx(rest[2])
		var script []string
		if rest[3] != "-" {
			script = strings.Split(rest[3], ",")
		}
		rest = rest[4:]
		if len(rest) > 0 && rest[0] == "/" {
			rest = rest[1:]
		}
		spec := apiSpecOf(name)
		if spec == nil || (kind == "sl" && !spec.sl) {
			outs = append(outs, "bad-op")
			break
		}
		ctx, cancel := context.WithTimeout(context.Background(), 10*time.Second)
		var before uint32
		if e.se != nil {
			before = e.se.sess.AuthenticatedSequenceNumbers.Inbound
			e.se.script, e.se.pos, e.se.sent, e.se.ctx, e.se.cancel = script, 0, nil, ctx, cancel
		} else {
			e.script, e.pos, e.sent, e.cancel = script, 0, nil, cancel
		}
		old := rand.Reader
		if len(entropy) > 0 {
			rand.Reader = io.Reader(&cycleReader{b: entropy})
		}
		res := ""
		val, err := func() (v string, err error) {
			defer func() {
				if r := recover(); r != nil {
					res = "panic"
				}
			}()
			return apiInvoke(ctx, e.conn, name, args)
		}()
		rand.Reader = old
		cancel()
		switch {
		case res == "panic":
		case err == nil:
			res = "ok " + val
		default:
			res = "err"
		}
		sent := e.sent
		after := uint32(0)
		if e.se != nil {
			sent, after = e.se.sent, e.se.sess.AuthenticatedSequenceNumbers.Inbound
		}
		var sh []string
		for _, p := range sent {
			sh = append(sh, hx(p))
		}
		ss := "-"
		if len(sh) > 0 {
			ss = strings.Join(sh, ",")
		}
		outs = append(outs, fmt.Sprintf("sent=%s res=%s inbound=%d", ss, res, after))
		if verdict == "" {
			if v := apiJudge(e, spec, args, script, entropy, res, sent, before, lid, rid, integ, k1, k2); v != "" {
				verdict = fmt.Sprintf("call %d (%s): %s", len(outs), name, v)
			}
		}
	}
	for i, h := range apiHeld {
		if now := dumpLayer(h.l, apiHeldHide); now != h.dump && verdict == "" {
			verdict = fmt.Sprintf("the result returned to the caller by an earlier call (#%d held) was changed by a later call on the connection: was %s, now %s", i+1, h.dump, now)
		}
	}
	return strings.Join(outs, " ; "), verdict
}

// apiJudge: the reference verdict on one call
func apiJudge(e *apiEnv, spec *apiCallSpec, args, script []string, entropy []byte, res string, sent [][]byte, before, lid, rid uint32,
	integ byte, k1, k2 []byte) string {
	if res == "panic" {
		return "panic"
	}
	prefix := spec.prefix()
	fields := spec.reqFields(args, rid)
	_, domain, wantErr := c06Want(spec.reqLayer, fields)
	// ---- the request: every transmitted datagram is the specification's command carrying the caller's arguments ----
	if wantErr && len(sent) != 0 {
		return "a request the specification cannot carry was transmitted instead of refused"
	}
	for i, p := range sent {
		var body []byte
		if e.se != nil {
			r, why := e.se.bmc.open(p)
			if r == nil {
				return fmt.Sprintf("datagram %d is not acceptable to the BMC: %s", i+1, why)
			}
			if r.seq != before+uint32(i)+1 {
				return fmt.Sprintf("datagram %d carries sequence number %d, want %d", i+1, r.seq, before+uint32(i)+1)
			}
			if r.rsAddr != 0x20 || r.rqAddr != 0x81 || r.netFn != spec.netFn || r.lun != 0 || r.cmd != spec.cmd ||
				len(r.data) < len(prefix) || !bytes.Equal(r.data[:len(prefix)], prefix) {
				return fmt.Sprintf("datagram %d is not the specification's command for this call: netFn %#x lun %d cmd %#x data %x", i+1, r.netFn, r.lun, r.cmd, r.data)
			}
			if len(entropy) >= 16*(i+1) && !bytes.Equal(r.iv, entropy[16*i:16*i+16]) {
				return fmt.Sprintf("datagram %d does not use its own IV draw", i+1)
			}
			body = r.data[len(prefix):]
		} else {
			m, why := c06RefPacket(p)
			if m == nil {
				return fmt.Sprintf("datagram %d: the reference parser rejects it: %s", i+1, why)
			}
			group := -1
			if spec.dcmi {
				group = 0xdc
			}
			if v := c06JudgePacket(p, spec.netFn, spec.cmd, group, -1, 0, m.body); v != "" {
				return fmt.Sprintf("datagram %d: %s", i+1, v)
			}
			body = m.body
		}
		if domain && !wantErr {
			if v := c06Judge(spec.reqLayer, fields, body, nil); v != "" {
				return fmt.Sprintf("datagram %d: %s", i+1, v)
			}
		}
	}
	// ---- the result: decided by the first acceptable final response of the script ----
	want, wantSent := "err", len(script)
	if wantErr {
		wantSent = 0
	} else {
		for i, item := range script {
			if item == "L" {
				if e.se != nil { // a failed Send inside a session is terminal
					wantSent = i + 1
					break
				}
				continue
			}
			d := unhx(strings.TrimPrefix(item, "R:"))
			var netFn, cmd, cc byte
			var data []byte
			if e.se != nil {
				r, _ := openReply(d, lid, integ, k1, k2)
				if r == nil {
					continue
				}
				netFn, cmd, cc, data = r.netFn, r.cmd, r.cc, r.data
			} else {
				m := sessionlessReplyMessage(d)
				if m == nil || len(m) < 8 || csum(m[:2]) != m[2] || csum(m[3:len(m)-1]) != m[len(m)-1] {
					continue
				}
				netFn, cmd, cc, data = m[1]>>2, m[5], m[6], m[7:len(m)-1]
			}
			if netFn != spec.netFn|1 || cmd != spec.cmd || len(data) < len(prefix) || !bytes.Equal(data[:len(prefix)], prefix) || isTemp(cc) {
				continue
			}
			want, wantSent = apiWant(spec, cc, data[len(prefix):]), i+1
			break
		}
	}
	if res != want {
		return fmt.Sprintf("the call returned %q; the first acceptable final response of the script gives %q", res, want)
	}
	if len(sent) != wantSent {
		return fmt.Sprintf("%d datagrams transmitted, the contract gives %d", len(sent), wantSent)
	}
	return ""
}

// ---------------------------------------------------------------------------------------------------------
// generator

// apiArgs: type-directed argument tuples for a call (0, maximum, walking bits, boundaries of the wire width, random)
func apiArgs(g *genCtx, name string) [][]string {
	r := g.rng
	u8s := func() []int {
		v := []int{0, 255, 1, 2, 4, 8, 16, 32, 64, 128, 15, 14}
		for i := 0; i < 3; i++ {
			v = append(v, r.Intn(256))
		}
		return v
	}
	u32s := []uint32{0, 1, 0xffffffff, 0x80000000, 0x100, 0x10000, 0x1000000, 0xA0A1A2A3, r.Uint32(), r.Uint32()}
	s := func(v ...interface{}) []string {
		o := make([]string, len(v))
		for i, x := range v {
			o[i] = fmt.Sprint(x)
		}
		return o
	}
	var out [][]string
	switch name {
	case "GetChannelAuthenticationCapabilities":
		for _, ch := range []int{0, 1, 2, 4, 8, 0xe, 0xf, r.Intn(16)} {
			out = append(out, s(r.Intn(2), ch, r.Intn(16)), s(1, ch, []int{0, 1, 2, 3, 4, 5, 15}[r.Intn(7)]))
		}
		out = append(out, s(0, 0, 0), s(1, 15, 15), s(1, 0x1e, 4), s(0, 0x8e, 4), s(1, 14, 0x14), s(1, 255, 255))
	case "GetSessionInfo":
		for _, idx := range []int{0, 1, 2, 0x7f, 0x80, 0xfd, 0xfe, 0xff, r.Intn(256)} {
			out = append(out, s(idx, r.Intn(256), u32s[r.Intn(len(u32s))]))
		}
		for _, id := range u32s {
			out = append(out, s(0xff, 0, id))
		}
		for _, h := range u8s() {
			out = append(out, s(0xfe, h, 0))
		}
	case "ChassisControl":
		for _, c := range []uint64{0, 1, 2, 3, 4, 5, 8, 15, 16, 255, 256, 257, 1 << 32, 1<<63 - 1, uint64(r.Intn(16)), uint64(r.Int63())} {
			out = append(out, s(c))
		}
	case "GetSensorReading":
		for _, n := range u8s() {
			out = append(out, s(n))
		}
	case "SetSessionPrivilegeLevel":
		for _, l := range []int{0, 1, 2, 3, 4, 5, 8, 15, 16, 17, 0x81, 255, r.Intn(256)} {
			out = append(out, s(l))
		}
	case "GetPowerReading":
		const sec = int64(1e9)
		for _, p := range []int64{0, 1, sec, 59 * sec, 60 * sec, 3600 * sec, 86400 * sec, 63 * 86400 * sec, 64 * 86400 * sec, 1<<63 - 1, r.Int63n(70 * 86400 * sec), -sec, -1} {
			out = append(out, s(2, p))
		}
		out = append(out, s(1, 0), s(1, 5*sec), s(0, 0), s(3, sec), s(255, r.Int63()))
	case "GetDCMISensorInfo":
		for _, v := range u8s() {
			out = append(out, s(v, r.Intn(256), 0, r.Intn(256)), s(r.Intn(256), v, 1+r.Intn(255), r.Intn(256)), s(1, 0x40, v, v))
		}
	default:
		out = append(out, nil)
	}
	return out
}

// apiReplier builds scripted replies on one kind of connection
type apiReplier struct {
	g  *genCtx
	sp *sessParams // nil = session-less
	n  int
}

func (r *apiReplier) msg(spec *apiCallSpec, netFn, cmd, cc byte, body []byte) string {
	c := cc
	m := specMessage(0x81, netFn|1, 0, 0x20, 1, 0, cmd, &c, spec.prefix(), body)
	r.n++
	if r.sp == nil {
		return "R:" + hx(wrapSessionless(0, m))
	}
	b := newSimBMC([]byte(fixedPass), nil)
	b.integ, b.conf, b.sidm, b.k1, b.k2 = r.sp.integ, 1, r.sp.lid, r.sp.k1, r.sp.k2
	b.outSeq = uint32(100 + r.n)
	b.ivCtr = byte(r.g.rng.Intn(256))
	return "R:" + hx(b.seal(m))
}

func (r *apiReplier) final(spec *apiCallSpec, cc byte, body []byte) string {
	return r.msg(spec, spec.netFn, spec.cmd, cc, body)
}

// other: an authentic reply to ANOTHER command (another command number or another NetFn), code 00h, with a body that
// would decode
func (r *apiReplier) other(spec *apiCallSpec, body []byte) string {
	if r.g.rng.Intn(2) == 0 {
		return r.msg(spec, spec.netFn, spec.cmd+1, 0, body)
	}
	return r.msg(spec, spec.netFn^2, spec.cmd, 0, body)
}

func apiArgStr(a []string) string {
	if len(a) == 0 {
		return "-"
	}
	return strings.Join(a, ",")
}

func genApi(g *genCtx) {
	var params []sessParams
	for _, s := range [][2]byte{{3, 4}, {1, 1}, {2, 2}} {
		params = append(params, learnSession(s[0], s[1]))
	}
	nonzero := []byte{0xC1, 0xC9, 0xCC, 0xD4, 0xD5, 0xFF, 0x80, 0x01}
	head := func(kind string, sp *sessParams, inb uint32) []string {
		if sp == nil {
			return []string{kind, "0", "0", "-", "-", "0", "0", "0"}
		}
		return []string{kind, itoa(int(sp.auth)), itoa(int(sp.integ)), hx(sp.k1), hx(sp.k2), fmt.Sprint(sp.lid), fmt.Sprint(sp.rid), fmt.Sprint(inb)}
	}
	callArgs := func(spec *apiCallSpec, args []string, items []string) []string {
		script := "-"
		if len(items) > 0 {
			script = strings.Join(items, ",")
		}
		return []string{spec.name, apiArgStr(args), hx(rbytes(g.rng, 16*(len(items)+1))), script}
	}
	inbound := func() uint32 {
		return []uint32{0, 1, uint32(g.rng.Intn(1000)), 0x7fffffff, 0xfffffffd, 0xffffffff}[g.rng.Intn(6)]
	}
	validBody := func(spec *apiCallSpec) []byte {
		if spec.rspLayer == "" {
			return nil
		}
		return layerSpecs[spec.rspLayer].valid(g.rng)
	}
	reps, pairReps := 3, 1
	if g.thorough() {
		reps, pairReps = 150, 4
	}
	kinds := []struct {
		kind string
		sp   *sessParams
	}{{"sess", &params[0]}, {"sess", &params[1]}, {"sess", &params[2]}, {"sl", nil}}
	for ki, k := range kinds {
		rp := &apiReplier{g: g, sp: k.sp}
		for ci := range apiCalls {
			spec := &apiCalls[ci]
			if k.sp == nil && !spec.sl {
				continue
			}
			one := func(class byte, nt bool, args []string, items ...string) {
				g.emit(Op{Class: class, NonTrivial: nt, Kind: "api", Args: append(head(k.kind, k.sp, inbound()), callArgs(spec, args, items)...)})
			}
			argSets := apiArgs(g, spec.name)
			if (ki == 1 || ki == 2) && !g.thorough() { // the other suites: a sample of the argument tuples
				argSets = argSets[:1+len(argSets)/4]
			}
			for _, args := range argSets {
				// a conforming response: code 00h, a specification-conforming body in each of its optional-tail forms
				for i := 0; i < reps; i++ {
					one('P', true, args, rp.final(spec, 0, validBody(spec)))
				}
				// a non-zero completion code, with and without a body (BMCs may truncate after the code)
				cc := nonzero[g.rng.Intn(len(nonzero))]
				one('P', true, args, rp.final(spec, cc, validBody(spec)))
				one('P', true, args, rp.final(spec, cc, nil))
				// a temporary code first (with / without body), then the final answer
				one('P', true, args, rp.final(spec, 0xC0, nil), rp.final(spec, 0, validBody(spec)))
				one('P', true, args, rp.final(spec, 0xC3, validBody(spec)), rp.final(spec, 0, validBody(spec)))
				one('P', true, args, rp.final(spec, 0xC0, validBody(spec)), rp.final(spec, cc, nil))
				// a reply to ANOTHER command first: must be skipped, not decoded as this call's response
				one('P', true, args, rp.other(spec, validBody(spec)), rp.final(spec, 0, validBody(spec)))
				one('P', true, args, rp.other(spec, validBody(spec)), rp.final(spec, cc, validBody(spec)))
				// lost replies
				one('M', false, args, "L")
				one('M', true, args, "L", rp.final(spec, 0, validBody(spec)))
				one('M', true, args, rp.final(spec, 0xC0, nil), "L", rp.final(spec, 0, validBody(spec)))
				// an empty body with code 00h; random bytes; a valid body extended by 1…3 bytes
				one('M', true, args, rp.final(spec, 0, nil))
				one('M', true, args, rp.final(spec, 0, rbytes(g.rng, g.rng.Intn(24))))
				v := validBody(spec)
				one('M', true, args, rp.final(spec, 0, append(append([]byte(nil), v...), rbytes(g.rng, 1+g.rng.Intn(3))...)))
			}
			// every truncation of a conforming body, with code 00h and with a non-zero code
			args := argSets[g.rng.Intn(len(argSets))]
			nt := 2
			if g.thorough() {
				nt = 40
			}
			for i := 0; i < nt; i++ {
				v := validBody(spec)
				for l := 0; l < len(v); l++ {
					one('M', true, args, rp.final(spec, 0, v[:l]))
					if l%3 == i%3 {
						one('M', true, args, rp.final(spec, nonzero[g.rng.Intn(len(nonzero))], v[:l]))
					}
				}
			}
		}
		// two calls on ONE connection, the second reply shorter than the first: nothing of the first response may
		// show in the second result (C17), and the second request is a fresh one (sequence number + 1, own IV)
		var pool []*apiCallSpec
		for ci := range apiCalls {
			if k.sp != nil || apiCalls[ci].sl {
				pool = append(pool, &apiCalls[ci])
			}
		}
		longBody := func(spec *apiCallSpec) []byte {
			b := validBody(spec)
			for i := 0; i < 6; i++ {
				if c := validBody(spec); len(c) > len(b) {
					b = c
				}
			}
			return b
		}
		shortBody := func(spec *apiCallSpec) []byte {
			b := validBody(spec)
			for i := 0; i < 6; i++ {
				if c := validBody(spec); len(c) < len(b) {
					b = c
				}
			}
			return b
		}
		pick := func(spec *apiCallSpec) []string {
			as := apiArgs(g, spec.name)
			return as[g.rng.Intn(len(as))]
		}
		for _, ca := range pool {
			for _, cb := range pool {
				if ki != 0 && ki != 3 && !g.thorough() && g.rng.Intn(6) != 0 {
					continue
				}
				if ca.name == "Close" {
					continue // nothing is called on a closed session
				}
				two := func(class byte, a, b []string) {
					argsA, argsB := pick(ca), pick(cb)
					ops := append(head(k.kind, k.sp, inbound()), callArgs(ca, argsA, a)...)
					ops = append(ops, "/")
					ops = append(ops, callArgs(cb, argsB, b)...)
					g.emit(Op{Class: class, NonTrivial: true, Kind: "api", Args: ops})
				}
				for rep := 0; rep < pairReps; rep++ {
					la, sb := longBody(ca), shortBody(cb)
					two('P', []string{rp.final(ca, 0, la)}, []string{rp.final(cb, 0, sb)})
					// second answer: an error code without body / an empty body / a truncated body — the first response's
					// bytes must not stand in for what is missing
					two('P', []string{rp.final(ca, 0, la)}, []string{rp.final(cb, nonzero[g.rng.Intn(len(nonzero))], nil)})
					two('M', []string{rp.final(ca, 0, la)}, []string{rp.final(cb, 0, nil)})
					if len(sb) > 0 {
						two('M', []string{rp.final(ca, 0, la)}, []string{rp.final(cb, 0, sb[:g.rng.Intn(len(sb))])})
					}
					// first call ends in an error (lost reply in session / error code), the connection stays usable
					two('M', []string{rp.final(ca, 0xC0, la), rp.final(ca, 0xD5, nil)}, []string{rp.final(cb, 0, sb)})
					if k.sp == nil {
						two('M', []string{"L", rp.final(ca, 0, la)}, []string{"L", rp.final(cb, 0, sb)})
					}
				}
			}
		}
		// HISTORIES: 3…7 calls on one connection, each with its own outcome — conforming answer, error code (with / without
		// body), busy then final, a reply to another command first, garbage first, a lost reply (in a session this ends the
		// call with an error), a truncated body. Every call must behave as it would on a fresh connection: the request
		// carries the caller's arguments of THAT call, the result comes from ITS reply, an earlier failure leaves nothing
		// behind (C06, C07, C10, C11, C17).
		nh := 12
		if ki != 0 && ki != 3 {
			nh = 4
		}
		if g.thorough() {
			nh *= 25
		}
		for h := 0; h < nh; h++ {
			n := 3 + g.rng.Intn(8)
			ops := head(k.kind, k.sp, inbound())
			for j := 0; j < n; j++ {
				spec := pool[g.rng.Intn(len(pool))]
				if h%3 == 0 && j > 0 && g.rng.Intn(2) == 0 {
					// favour the pairs that share state by design: the two privilege-level calls, the SDR reads
					for _, cand := range pool {
						if (cand.name == "GetSessionPrivilegeLevel" || cand.name == "SetSessionPrivilegeLevel") && g.rng.Intn(2) == 0 {
							spec = cand
						}
					}
				}
				if spec.name == "Close" && j != n-1 {
					j--
					continue
				}
				var items []string
				cc := nonzero[g.rng.Intn(len(nonzero))]
				switch g.rng.Intn(9) {
				case 0, 1:
					items = []string{rp.final(spec, 0, validBody(spec))}
				case 2:
					items = []string{rp.final(spec, cc, nil)}
				case 3:
					items = []string{rp.final(spec, cc, validBody(spec))}
				case 4:
					items = []string{rp.final(spec, 0xC0, nil), rp.final(spec, 0, validBody(spec))}
				case 5:
					items = []string{rp.other(spec, validBody(spec)), rp.final(spec, 0, validBody(spec))}
				case 6:
					items = []string{"R:" + hx(rbytes(g.rng, 1+g.rng.Intn(40))), rp.final(spec, 0, validBody(spec))}
				case 7:
					items = []string{"L"}
					if k.sp == nil {
						items = append(items, rp.final(spec, 0, validBody(spec)))
					}
				default:
					v := validBody(spec)
					if len(v) > 0 {
						v = v[:g.rng.Intn(len(v))]
					}
					items = []string{rp.final(spec, 0, v)}
				}
				if j > 0 {
					ops = append(ops, "/")
				}
				ops = append(ops, callArgs(spec, pick(spec), items)...)
			}
			g.emit(Op{Class: 'M', NonTrivial: true, Kind: "api", Args: ops})
		}
	}
}
