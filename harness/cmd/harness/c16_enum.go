package main

// C16: paged enumerations. The real bmc.RetrieveSupportedCipherSuites, parseCipherSuiteRecordData (through
// bmc.VerifParseCipherSuiteRecordData) and dcmi.GetSensorInfo, driven through the verif transport hook against a
// simulated BMC that serves pages and logs every request.
//
//   suites <datahex> [<pageSize> <fail> <recs>]   pages of <pageSize> (16) bytes of <datahex>; <fail> = - | c<i> | x<i>
//                                                 (list index i is answered with completion code C1h / not at all)
//   parse  <datahex> [<recs>]                     the record parser alone
//   dcmi   <n0,n1,n2> <pageSize> <std> <d0> <d1> <d2> [<totDelta>]
//            std = ok (standard entity k holds n_k instances) | empty (they hold none) | err<k> (requests for the standard
//            entities k, k+1, … are rejected); d_k = record IDs held under DCMI entity k (a,b,c | - | ! = rejected);
//            totDelta is added to the total the BMC reports (0 = conforming)
// <recs> = R:<id.iana|s.auth.integ.conf;…> (the generated record list, lists joined by +, _ = empty) or -.

import (
	"context"
	"errors"
	"fmt"
	"sort"
	"strings"
	"time"

	"github.com/cenkalti/backoff/v4"
	"github.com/gebn/bmc"
	"github.com/gebn/bmc/pkg/dcmi"
	"github.com/gebn/bmc/pkg/ipmi"
)

func init() {
	executors["suites"] = execC16Suites
	executors["parse"] = execC16Parse
	executors["dcmi"] = execC16Dcmi
	scenarios["enum"] = genC16Enum
}

// ---- simulated BMC behind the transport hook ---------------------------------------------------------------------

type c16Env struct {
	t      *bmc.V2SessionlessTransport
	sim    *simBMC
	recv   []byte
	ctx    context.Context
	cancel context.CancelFunc
	// runaway protection: no enumeration the property covers needs more than 6 x 256 requests; beyond the cap the
	// caller's context is ended, and the executors report the non-termination as the verdict
	reqs    int
	runaway bool
}

const c16RequestCap = 4000

// dispatch returns the response message, or nil = no reply (the caller's context expires)
func c16NewEnv(dispatch func(netfn, cmd byte, data []byte) []byte) *c16Env {
	e := &c16Env{sim: newSimBMC(nil, nil), recv: make([]byte, 512)}
	e.ctx, e.cancel = context.WithTimeout(context.Background(), 20*time.Second)
	e.sim.dispatcher = dispatch
	e.t = bmc.VerifNewV2SessionlessTransport(func(ctx context.Context, p []byte) ([]byte, error) {
		e.reqs++
		if e.reqs > c16RequestCap {
			e.runaway = true
			e.cancel()
			return nil, errors.New("request cap reached")
		}
		r := e.sim.handle(p)
		if r == nil {
			e.cancel()
			return nil, errors.New("timeout")
		}
		for i := range e.recv { // one reused receive buffer, stale bytes beyond the reply
			e.recv[i] = 0x41
		}
		return e.recv[:copy(e.recv, r)], nil
	}, 50*time.Millisecond, &backoff.ZeroBackOff{})
	return e
}

// c16Call runs f and reports whether it returned (a call that neither returns nor honours its context is a violation)
func c16Call(f func()) (returned bool, panicked interface{}) {
	done := make(chan interface{}, 1)
	go func() {
		defer func() { done <- recover() }()
		f()
	}()
	select {
	case p := <-done:
		return true, p
	case <-time.After(30 * time.Second):
		return false, nil
	}
}

func c16Fail(s string) (kind byte, at int) {
	if s == "-" || s == "" {
		return 0, -1
	}
	return s[0], atoi(s[1:])
}

// ---- cipher suite records: rendering, reference encoder / expander / recogniser -----------------------------------

type c16Rec struct {
	id    int
	iana  int // -1 = standard record
	auth  int
	integ []int
	conf  []int
}

type c16Entry struct{ id, iana, auth, integ, conf int }

func c16Ints(l []int, sep, empty string) string {
	if len(l) == 0 {
		return empty
	}
	s := make([]string, len(l))
	for i, x := range l {
		s[i] = itoa(x)
	}
	return strings.Join(s, sep)
}

func c16ParseInts(s, sep, empty string) []int {
	if s == empty {
		return nil
	}
	var out []int
	for _, f := range strings.Split(s, sep) {
		out = append(out, atoi(f))
	}
	return out
}

func c16RecsArg(rs []c16Rec) string {
	var parts []string
	for _, r := range rs {
		ia := "s"
		if r.iana >= 0 {
			ia = itoa(r.iana)
		}
		parts = append(parts, fmt.Sprintf("%d.%s.%d.%s.%s", r.id, ia, r.auth, c16Ints(r.integ, "+", "_"), c16Ints(r.conf, "+", "_")))
	}
	return "R:" + strings.Join(parts, ";")
}

func c16ParseRecsArg(s string) ([]c16Rec, bool) {
	if !strings.HasPrefix(s, "R:") {
		return nil, false
	}
	var out []c16Rec
	if s == "R:" {
		return out, true
	}
	for _, p := range strings.Split(s[2:], ";") {
		f := strings.Split(p, ".")
		r := c16Rec{id: atoi(f[0]), iana: -1, auth: atoi(f[2]), integ: c16ParseInts(f[3], "+", "_"), conf: c16ParseInts(f[4], "+", "_")}
		if f[1] != "s" {
			r.iana = atoi(f[1])
		}
		out = append(out, r)
	}
	return out, true
}

// Table 22-18
func (r c16Rec) encode() []byte {
	var b []byte
	if r.iana < 0 {
		b = []byte{0xC0, byte(r.id)}
	} else {
		b = []byte{0xC1, byte(r.id), byte(r.iana), byte(r.iana >> 8), byte(r.iana >> 16)}
	}
	b = append(b, byte(r.auth)&0x3f)
	for _, a := range r.integ {
		b = append(b, 0x40|byte(a)&0x3f)
	}
	for _, a := range r.conf {
		b = append(b, 0x80|byte(a)&0x3f)
	}
	return b
}

func c16Encode(rs []c16Rec) []byte {
	var b []byte
	for _, r := range rs {
		b = append(b, r.encode()...)
	}
	return b
}

func c16Expand(rs []c16Rec) []c16Entry {
	out := []c16Entry{}
	for _, r := range rs {
		in, co := r.integ, r.conf
		if len(in) == 0 {
			in = []int{0}
		}
		if len(co) == 0 {
			co = []int{0}
		}
		ia := r.iana
		if ia < 0 {
			ia = 0
		}
		for _, i := range in {
			for _, c := range co {
				out = append(out, c16Entry{r.id, ia, r.auth, i, c})
			}
		}
	}
	return out
}

// c16Recognise is the reference reading of a byte string as ( START id [iana×3] AUTH INTEG* CONF* )*: it classifies each
// byte by its tag first and then matches the token string; ok = false when the bytes are not such a sequence.
func c16Recognise(d []byte) ([]c16Rec, bool) {
	toks := make([]byte, len(d)) // S start-standard, O start-OEM, a tag 00, i tag 01, c tag 10, x other
	for k, b := range d {
		switch {
		case b == 0xC0:
			toks[k] = 'S'
		case b == 0xC1:
			toks[k] = 'O'
		default:
			toks[k] = "aicx"[b>>6]
		}
	}
	var out []c16Rec
	k := 0
	for k < len(d) {
		r := c16Rec{iana: -1}
		switch toks[k] {
		case 'S':
			if len(d)-k < 3 {
				return nil, false
			}
			r.id = int(d[k+1])
			k += 2
		case 'O':
			if len(d)-k < 6 {
				return nil, false
			}
			r.id = int(d[k+1])
			r.iana = int(d[k+2]) | int(d[k+3])<<8 | int(d[k+4])<<16
			k += 5
		default:
			return nil, false
		}
		// the ID and IANA bytes are data, whatever their tags; the next byte must be an authentication algorithm
		if d[k]>>6 != 0 {
			return nil, false
		}
		r.auth = int(d[k])
		k++
		for ; k < len(d) && toks[k] == 'i'; k++ {
			r.integ = append(r.integ, int(d[k]&0x3f))
		}
		for ; k < len(d) && toks[k] == 'c'; k++ {
			r.conf = append(r.conf, int(d[k]&0x3f))
		}
		out = append(out, r)
	}
	return out, true
}

func c16RenderEntries(es []c16Entry) string {
	if len(es) == 0 {
		return "-"
	}
	s := make([]string, len(es))
	for i, e := range es {
		s[i] = fmt.Sprintf("%d:%d:%d:%d:%d", e.id, e.iana, e.auth, e.integ, e.conf)
	}
	return strings.Join(s, ",")
}

func c16FromLib(rs []ipmi.CipherSuiteRecord) []c16Entry {
	out := []c16Entry{}
	for _, r := range rs {
		out = append(out, c16Entry{int(r.CipherSuiteID), int(r.Enterprise), int(r.AuthenticationAlgorithm), int(r.IntegrityAlgorithm),
			int(r.ConfidentialityAlgorithm)})
	}
	return out
}

// c16Expected: the specified result for the record data; recsArg (when given) is the generated record list
func c16Expected(data []byte, recsArg string) (want string, note string) {
	if rs, ok := c16ParseRecsArg(recsArg); ok {
		if hx(c16Encode(rs)) != hx(data) {
			return "", "op is inconsistent: data is not the encoding of the record list"
		}
		return "ok " + c16RenderEntries(c16Expand(rs)), ""
	}
	rs, ok := c16Recognise(data)
	if !ok {
		return "err", ""
	}
	return "ok " + c16RenderEntries(c16Expand(rs)), ""
}

func execC16Parse(a []string) (string, string) {
	data := unhx(a[0])
	recsArg := "-"
	if len(a) > 1 {
		recsArg = a[1]
	}
	var out string
	func() {
		defer func() {
			if r := recover(); r != nil {
				out = "panic"
			}
		}()
		// stale bytes with an integrity tag behind the data: reading beyond len would swallow them
		recs, err := bmc.VerifParseCipherSuiteRecordData(window(data, []byte{0x41, 0x42, 0x81, 0xC0, 0x01, 0x02}))
		if err != nil {
			if recs != nil {
				out = "err-with-partial-list"
			} else {
				out = "err"
			}
			return
		}
		out = "ok " + c16RenderEntries(c16FromLib(recs))
	}()
	if out == "panic" {
		return out, "panic in parseCipherSuiteRecordData"
	}
	want, note := c16Expected(data, recsArg)
	if note != "" {
		return out, note
	}
	if out != want {
		return out, fmt.Sprintf("parser gives %q, the record grammar gives %q", out, want)
	}
	return out, ""
}

func execC16Suites(a []string) (string, string) {
	data := unhx(a[0])
	ps, failS, recsArg := 16, "-", "-"
	if len(a) > 1 {
		ps = atoi(a[1])
	}
	if len(a) > 2 {
		failS = a[2]
	}
	if len(a) > 3 {
		recsArg = a[3]
	}
	fk, fat := c16Fail(failS)
	var idx []int
	badReq := ""
	e := c16NewEnv(func(netfn, cmd byte, d []byte) []byte {
		if netfn != 0x06 || cmd != 0x54 {
			badReq = fmt.Sprintf("request for netFn %#x cmd %#x", netfn, cmd)
			return ipmiRsp(netfn, cmd, 0xC1, nil)
		}
		// 22.15: channel (0Eh = this one), payload type, list index with bit 7 = list algorithms by cipher suite
		if len(d) != 3 || d[0] != 0x0e || d[1] != 0 || d[2]&0x80 == 0 || d[2]&0x40 != 0 {
			badReq = fmt.Sprintf("malformed Get Channel Cipher Suites request % x", d)
		}
		i := 0
		if len(d) == 3 {
			i = int(d[2] & 0x3f)
		}
		idx = append(idx, i)
		if i == fat {
			if fk == 'x' {
				return nil
			}
			return ipmiRsp(0x06, 0x54, 0xC1, nil)
		}
		lo := ps * i
		if lo > len(data) {
			lo = len(data)
		}
		hi := lo + ps
		if hi > len(data) {
			hi = len(data)
		}
		return ipmiRsp(0x06, 0x54, 0, append([]byte{0x01}, data[lo:hi]...))
	})
	defer e.cancel()
	var recs []ipmi.CipherSuiteRecord
	var err error
	returned, p := c16Call(func() { recs, err = bmc.RetrieveSupportedCipherSuites(e.ctx, e.t) })
	if e.runaway {
		return "runaway", fmt.Sprintf("the enumeration does not terminate: more than %d requests", c16RequestCap)
	}
	idxS := "idx=" + c16Ints(idx, ",", "-")
	switch {
	case !returned:
		return "hang " + idxS, "RetrieveSupportedCipherSuites did not return"
	case p != nil:
		return "panic " + idxS, fmt.Sprintf("panic: %v", p)
	}
	var res string
	switch {
	case err != nil && recs != nil:
		res = "err-with-partial-list"
	case err != nil:
		res = "err"
	default:
		res = "ok " + c16RenderEntries(c16FromLib(recs))
	}
	out := res + " " + idxS
	// after a run in which the BMC failed to answer a list index: the SAME connection is asked again, the BMC now answering every
	// index — a discovery keeps nothing from an earlier, failed one (seeds C16-B15 / C17-B15: a reassembly buffer kept on the connection)
	againVerdict := ""
	if fk != 0 {
		fat = -1
		idx = nil
		var recs2 []ipmi.CipherSuiteRecord
		var err2 error
		ret2, p2 := c16Call(func() { recs2, err2 = bmc.RetrieveSupportedCipherSuites(e.ctx, e.t) })
		res2 := ""
		switch {
		case !ret2:
			res2, againVerdict = "hang", "the second RetrieveSupportedCipherSuites on the connection did not return"
		case p2 != nil:
			res2, againVerdict = "panic", fmt.Sprintf("second discovery on the connection: panic: %v", p2)
		case err2 != nil && recs2 != nil:
			res2 = "err-with-partial-list"
		case err2 != nil:
			res2 = "err"
		default:
			res2 = "ok " + c16RenderEntries(c16FromLib(recs2))
		}
		out += " again=" + res2 + " idx=" + c16Ints(idx, ",", "-")
		if againVerdict == "" && ps == 16 && len(data) < 1024 {
			if want, note := c16Expected(data, recsArg); note == "" && res2 != want {
				againVerdict = fmt.Sprintf("after a failed discovery the next one on the same connection gives %q, the records served give %q", res2, want)
			}
		}
	}
	if badReq != "" {
		return out, badReq
	}
	if againVerdict != "" {
		return out, againVerdict
	}
	// reference verdict for a conforming BMC (16-byte pages, every index answered, data that fits 64 indices with a
	// short last page): the entries of the records, in order; indices 0, 1, …, ⌊len/16⌋ requested once each, in order
	if ps == 16 && fk == 0 && len(data) < 1024 {
		want, note := c16Expected(data, recsArg)
		if note != "" {
			return out, note
		}
		if res != want {
			return out, fmt.Sprintf("result %q, the records served give %q", res, want)
		}
		for k, i := range idx {
			if i != k {
				return out, fmt.Sprintf("request %d asks for list index %d", k, i)
			}
		}
		if len(idx) != len(data)/16+1 {
			return out, fmt.Sprintf("%d requests for %d bytes of record data", len(idx), len(data))
		}
	}
	return out, ""
}

// ---- DCMI sensor info ---------------------------------------------------------------------------------------------

// c16Sess lets the session-less connection stand where GetSensorInfo wants a bmc.Session: it only calls SendCommand
type c16Sess struct {
	bmc.Session
	c bmc.Connection
}

func (s c16Sess) SendCommand(ctx context.Context, c ipmi.Command) (ipmi.CompletionCode, error) {
	return s.c.SendCommand(ctx, c)
}

var c16StdEntities = []byte{0x37, 0x03, 0x07}
var c16DcmiEntities = []byte{0x40, 0x41, 0x42}

func c16StdIDs(k, n int) []int {
	out := make([]int, n)
	for j := range out {
		out[j] = (k+1)*0x4000 + j*0x21 + 1
	}
	return out
}

type c16Holding struct {
	ids    []int
	reject bool
}

func c16DcmiHoldings(a []string) (std, dc [3]c16Holding, ps, delta int) {
	counts := c16ParseInts(a[0], ",", "-")
	ps = atoi(a[1])
	for k := 0; k < 3; k++ {
		switch {
		case a[2] == "ok":
			std[k].ids = c16StdIDs(k, counts[k])
		case a[2] == "empty":
		case strings.HasPrefix(a[2], "err"):
			from := 0
			if len(a[2]) > 3 {
				from = atoi(a[2][3:])
			}
			if k >= from {
				std[k].reject = true
			} else {
				std[k].ids = c16StdIDs(k, counts[k])
			}
		default:
			panic("bad std mode " + a[2])
		}
		if a[3+k] == "!" {
			dc[k].reject = true
		} else {
			dc[k].ids = c16ParseInts(a[3+k], ",", "-")
		}
	}
	if len(a) > 6 {
		delta = atoi(a[6])
	}
	return
}

func execC16Dcmi(a []string) (string, string) {
	std, dc, ps, delta := c16DcmiHoldings(a)
	type req struct{ entity, start int }
	var log []req
	badReq := ""
	e := c16NewEnv(func(netfn, cmd byte, d []byte) []byte {
		if netfn != 0x2c || cmd != 0x07 || len(d) != 5 || d[0] != 0xDC {
			badReq = fmt.Sprintf("not a Get DCMI Sensor Info request: netFn %#x cmd %#x % x", netfn, cmd, d)
			return ipmiRsp(netfn, cmd, 0xC1, []byte{0xDC})
		}
		if d[1] != 0x01 || d[3] != 0 {
			badReq = fmt.Sprintf("sensor type %#x instance %d, want temperature and all instances", d[1], d[3])
		}
		log = append(log, req{int(d[2]), int(d[4])})
		var h *c16Holding
		for k := 0; k < 3; k++ {
			if d[2] == c16StdEntities[k] {
				h = &std[k]
			}
			if d[2] == c16DcmiEntities[k] {
				h = &dc[k]
			}
		}
		if h == nil || h.reject {
			return ipmiRsp(0x2c, 0x07, 0xC9, []byte{0xDC})
		}
		// instances are numbered from 1; the page begins at instance `start`
		lo := int(d[4]) - 1
		if lo < 0 {
			lo = 0
		}
		if lo > len(h.ids) {
			lo = len(h.ids)
		}
		hi := lo + ps
		if hi > len(h.ids) {
			hi = len(h.ids)
		}
		total := len(h.ids) + delta
		if total < 0 {
			total = 0
		}
		if total > 255 {
			total = 255
		}
		body := []byte{0xDC, byte(total), byte(hi - lo)}
		for _, id := range h.ids[lo:hi] {
			body = append(body, byte(id), byte(id>>8))
		}
		return ipmiRsp(0x2c, 0x07, 0, body)
	})
	defer e.cancel()
	var info *dcmi.SensorInfo
	var err error
	returned, p := c16Call(func() { info, err = dcmi.GetSensorInfo(e.ctx, c16Sess{c: e.t}) })
	if e.runaway {
		return "runaway", fmt.Sprintf("the enumeration does not terminate: more than %d requests (the last ones: %v)", c16RequestCap, log[len(log)-4:])
	}
	var rs []string
	for _, r := range log {
		rs = append(rs, fmt.Sprintf("%d:%d", r.entity, r.start))
	}
	reqS := "req=-"
	if len(rs) > 0 {
		reqS = "req=" + strings.Join(rs, ",")
	}
	switch {
	case !returned:
		return "hang " + reqS, "GetSensorInfo did not return"
	case p != nil:
		return "panic " + reqS, fmt.Sprintf("panic: %v", p)
	}
	conv := func(l []ipmi.RecordID) string {
		o := make([]int, len(l))
		for i, x := range l {
			o[i] = int(x)
		}
		return c16Ints(o, ",", "-")
	}
	var res string
	switch {
	case err != nil && info != nil:
		res = "err-with-partial-result"
	case err != nil:
		res = "err"
	default:
		res = fmt.Sprintf("ok %s %s %s", conv(info.Inlet), conv(info.CPU), conv(info.Baseboard))
	}
	out := res + " " + reqS
	// a FAILED enumeration is followed by a second one on the same connection against the same BMC: it must ask and answer
	// exactly as the first did (nothing of the failed run is kept on the connection or the commander)
	againVerdict := ""
	if res == "err" {
		log = nil
		var info2 *dcmi.SensorInfo
		var err2 error
		ret2, p2 := c16Call(func() { info2, err2 = dcmi.GetSensorInfo(e.ctx, c16Sess{c: e.t}) })
		var rs2 []string
		for _, r := range log {
			rs2 = append(rs2, fmt.Sprintf("%d:%d", r.entity, r.start))
		}
		reqS2 := "req=-"
		if len(rs2) > 0 {
			reqS2 = "req=" + strings.Join(rs2, ",")
		}
		res2 := ""
		switch {
		case !ret2:
			res2 = "hang"
		case p2 != nil:
			res2 = fmt.Sprintf("panic")
		case err2 != nil && info2 != nil:
			res2 = "err-with-partial-result"
		case err2 != nil:
			res2 = "err"
		default:
			res2 = fmt.Sprintf("ok %s %s %s", conv(info2.Inlet), conv(info2.CPU), conv(info2.Baseboard))
		}
		out += " again=" + res2 + " " + reqS2
		if res2 != res || reqS2 != reqS {
			againVerdict = fmt.Sprintf("after a failed enumeration the next one against the same BMC gives %q %s, the first gave %q %s", res2, reqS2, res, reqS)
		}
	}
	if badReq != "" {
		return out, badReq
	}
	if againVerdict != "" {
		return out, againVerdict
	}
	// reference verdict (conforming BMC: the reported total is the number of instances, pages of at least one ID)
	if delta == 0 && ps >= 1 {
		stdUsable, stdTotal := true, 0
		for k := 0; k < 3; k++ {
			if std[k].reject {
				stdUsable = false
			}
			stdTotal += len(std[k].ids)
		}
		useDcmi := !stdUsable || stdTotal == 0
		hs := std
		if useDcmi {
			hs = dc
		}
		want := "ok"
		for k := 0; k < 3; k++ {
			if hs[k].reject {
				want = "err"
				break
			}
			want += " " + c16Ints(hs[k].ids, ",", "-")
		}
		if res != want {
			return out, fmt.Sprintf("result %q, the BMC holds %q", res, want)
		}
		sawDcmi := false
		seen := map[req]bool{}
		for _, r := range log {
			if r.entity >= 0x40 && r.entity <= 0x42 {
				sawDcmi = true
			}
			if seen[r] {
				return out, fmt.Sprintf("request entity %#x start %d repeated", r.entity, r.start)
			}
			seen[r] = true
		}
		if sawDcmi != useDcmi {
			return out, fmt.Sprintf("DCMI entity IDs used = %v, standard IDs unusable or empty = %v", sawDcmi, useDcmi)
		}
	}
	return out, ""
}

// ---- generators ---------------------------------------------------------------------------------------------------

func c16RandRec(g *genCtx) c16Rec {
	r := c16Rec{id: g.rng.Intn(256), iana: -1, auth: g.rng.Intn(64)}
	if g.rng.Intn(3) == 0 {
		r.iana = []int{0, 1, 0xFFFFFF, 0x020100, g.rng.Intn(1 << 24), g.rng.Intn(1 << 24)}[g.rng.Intn(6)]
	}
	alg := func() int {
		if g.rng.Intn(4) == 0 {
			return []int{0, 63, 1, 0x3e}[g.rng.Intn(4)]
		}
		return g.rng.Intn(64)
	}
	for n := g.rng.Intn(4); n > 0; n-- {
		r.integ = append(r.integ, alg())
	}
	for n := g.rng.Intn(4); n > 0; n-- {
		r.conf = append(r.conf, alg())
	}
	return r
}

// c16RecsOfLen builds a record list whose encoding has exactly n bytes (n = 0 or n ≥ 3)
func c16RecsOfLen(g *genCtx, n int) []c16Rec {
	var rs []c16Rec
	for n > 0 {
		r := c16RandRec(g)
		l := len(r.encode())
		rest := n - l
		if rest == 0 || rest >= 3 {
			rs = append(rs, r)
			n = rest
			continue
		}
		if n <= 12 { // close the data with one record of exactly n bytes
			r = c16Rec{id: g.rng.Intn(256), iana: -1, auth: g.rng.Intn(64)}
			extra := n - 3
			if n >= 6 && g.rng.Intn(2) == 0 {
				r.iana, extra = g.rng.Intn(1<<24), n-6
			}
			if extra > 6 { // a standard record of 10…12 bytes does not fit 3 + 3 algorithms: make it OEM
				r.iana, extra = g.rng.Intn(1<<24), n-6
			}
			ni := extra / 2
			if ni > 3 {
				ni = 3
			}
			for k := 0; k < ni; k++ {
				r.integ = append(r.integ, g.rng.Intn(64))
			}
			for k := 0; k < extra-ni; k++ {
				r.conf = append(r.conf, g.rng.Intn(64))
			}
			rs = append(rs, r)
			return rs
		}
	}
	return rs
}

func genC16Enum(g *genCtx) {
	suitesAndParse := func(cls byte, rs []c16Rec) {
		data := c16Encode(rs)
		nt := len(rs) > 0
		g.emit(Op{Class: cls, NonTrivial: nt, Kind: "suites", Args: []string{hx(data), "16", "-", c16RecsArg(rs)}})
		g.emit(Op{Class: cls, NonTrivial: nt, Kind: "parse", Args: []string{hx(data), c16RecsArg(rs)}})
		g.count(fmt.Sprintf("suites-chunks:%d", len(data)/16+1))
		if len(data)%16 == 0 && len(data) > 0 {
			g.count("suites-exact-multiple-of-16")
		}
	}
	reps := 6
	if g.thorough() {
		reps = 60
	}
	// the repository's own vectors
	suitesAndParse('P', []c16Rec{{id: 0, iana: -1}})
	suitesAndParse('P', []c16Rec{{id: 0, iana: -1, integ: []int{0}, conf: []int{0}}})
	suitesAndParse('P', []c16Rec{{id: 17, iana: -1, auth: 3, integ: []int{4}, conf: []int{1}}, {id: 22, iana: 0x020100, auth: 1, integ: []int{1}, conf: []int{1}}})
	// 0…20 records of random shape
	for n := 0; n <= 20; n++ {
		for r := 0; r < reps; r++ {
			var rs []c16Rec
			for k := 0; k < n; k++ {
				rs = append(rs, c16RandRec(g))
			}
			suitesAndParse('P', rs)
		}
	}
	// every encoded length 0, 3…96 (1…7 chunks), so that every residue mod 16 incl. the exact multiples occurs
	for n := 0; n <= 96; n++ {
		if n == 1 || n == 2 {
			continue
		}
		for r := 0; r < reps; r++ {
			suitesAndParse('P', c16RecsOfLen(g, n))
		}
	}
	// long lists: up to the last length that fits the 64 list indices with a short last page (1023)
	for _, n := range []int{160, 256, 1007, 1008, 1009, 1022, 1023} {
		suitesAndParse('P', c16RecsOfLen(g, n))
	}

	// ---- malformed stream ----
	bad := func(data []byte, both bool) {
		_, ok := c16Recognise(data)
		g.emit(Op{Class: 'P', NonTrivial: !ok, Kind: "parse", Args: []string{hx(data), "-"}})
		if both {
			g.emit(Op{Class: 'P', NonTrivial: !ok, Kind: "suites", Args: []string{hx(data), "16", "-", "-"}})
		}
		if ok {
			g.count("malformed-stream-but-valid")
		} else {
			g.count("malformed-stream-invalid")
		}
	}
	for r := 0; r < reps; r++ {
		rs := c16RecsOfLen(g, []int{16, 32, 29, 40, 48, 21}[r%6])
		data := c16Encode(rs)
		for k := 0; k <= len(data); k++ { // truncation at every offset
			bad(data[:k], true)
		}
		for k := range data { // one byte replaced: a bad start byte, a stray tag, or harmless
			d := append([]byte(nil), data...)
			d[k] = []byte{0x00, 0x3f, 0x41, 0x7f, 0x81, 0xbf, 0xC0, 0xC1, 0xC2, 0xFF, byte(g.rng.Intn(256))}[g.rng.Intn(11)]
			bad(d, r%3 == 0)
		}
		for k := 0; k <= len(data); k++ { // one byte inserted
			d := append(append(append([]byte(nil), data[:k]...), []byte{0x05, 0x45, 0x85, 0xC0, 0xC1, 0xC5}[g.rng.Intn(6)]), data[k:]...)
			bad(d, false)
		}
	}
	for b := 0; b < 256; b++ { // every first byte; every byte after a complete record; every byte in the auth position
		bad([]byte{byte(b), 0x11, 0x03, 0x44, 0x81}, false)
		bad([]byte{0xC0, 0x11, 0x03, 0x44, 0x81, byte(b)}, false)
		bad([]byte{0xC0, 0x11, 0x03, 0x44, 0x81, byte(b), 0x07, 0x01}, false)
		bad([]byte{0xC0, 0x11, byte(b), 0x44, 0x81}, false)
		bad([]byte{0xC1, 0x11, 0x01, 0x02, 0x03, byte(b), 0x44, 0x81}, false)
		bad([]byte{0xC0, 0x11, 0x03, byte(b)}, false)
	}
	nrand := 1000
	if g.thorough() {
		nrand = 20000
	}
	for r := 0; r < nrand; r++ { // strings over the tag alphabet
		n := g.rng.Intn(24)
		d := make([]byte, n)
		for k := range d {
			switch g.rng.Intn(6) {
			case 0:
				d[k] = 0xC0
			case 1:
				d[k] = 0xC1
			case 2:
				d[k] = byte(g.rng.Intn(64))
			case 3:
				d[k] = 0x40 | byte(g.rng.Intn(64))
			case 4:
				d[k] = 0x80 | byte(g.rng.Intn(64))
			default:
				d[k] = byte(g.rng.Intn(256))
			}
		}
		bad(d, r%4 == 0)
	}

	// ---- BMCs that do not page as specified (correspondence only) ----
	for r := 0; r < reps*4; r++ {
		rs := c16RecsOfLen(g, 16+g.rng.Intn(70))
		data := c16Encode(rs)
		ps := []int{1, 5, 15, 17, 20, 32}[g.rng.Intn(6)]
		g.emit(Op{Class: 'M', NonTrivial: true, Kind: "suites", Args: []string{hx(data), itoa(ps), "-", c16RecsArg(rs)}})
		fail := fmt.Sprintf("%c%d", "cx"[g.rng.Intn(2)], g.rng.Intn(len(data)/16+2))
		g.emit(Op{Class: 'M', NonTrivial: true, Kind: "suites", Args: []string{hx(data), "16", fail, c16RecsArg(rs)}})
	}
	// record data that does not end within 64 list indices: the 65th request goes out with index 0 again
	for _, n := range []int{1024, 1025, 1039, 1040, 1100} {
		rs := c16RecsOfLen(g, n)
		g.emit(Op{Class: 'M', NonTrivial: true, Kind: "suites", Args: []string{hx(c16Encode(rs)), "16", "-", c16RecsArg(rs)}})
	}

	// ---- DCMI sensor info ----
	counts := []int{0, 1, 2, 3, 7, 8, 9, 15, 16, 17, 23, 24, 25, 63, 64, 65, 127, 128, 200, 247, 248, 249, 253, 254, 255}
	if g.thorough() {
		counts = nil
		for n := 0; n <= 255; n++ {
			counts = append(counts, n)
		}
	}
	dcIDs := func(k, n int) string { // distinct record IDs in no particular numeric order
		if n == 0 {
			return "-"
		}
		base := g.rng.Intn(0x2000)
		step := []int{1, 3, 7, 0x101}[g.rng.Intn(4)]
		ids := make([]int, n)
		for j := range ids {
			ids[j] = ((k+1)*0x4000 + base + j*step) % 65536
		}
		if n > 1 && g.rng.Intn(2) == 0 { // descending
			sort.Sort(sort.Reverse(sort.IntSlice(ids)))
		}
		return c16Ints(ids, ",", "-")
	}
	small := func() int { return g.rng.Intn(11) }
	dcmiOp := func(cls byte, n [3]int, ps int, std string, d [3]string, delta int) {
		args := []string{fmt.Sprintf("%d,%d,%d", n[0], n[1], n[2]), itoa(ps), std, d[0], d[1], d[2]}
		if delta != 0 {
			args = append(args, itoa(delta))
		}
		nt := n[0]+n[1]+n[2] > 0 || d[0] != "-" || d[1] != "-" || d[2] != "-"
		g.emit(Op{Class: cls, NonTrivial: nt, Kind: "dcmi", Args: args})
	}
	trig := 0
	for _, n := range counts {
		for ps := 1; ps <= 8; ps++ {
			for k := 0; k < 3; k++ {
				// standard family: entity k holds n instances
				c := [3]int{small(), small(), small()}
				c[k] = n
				dcmiOp('P', c, ps, "ok", [3]string{dcIDs(0, small()), dcIDs(1, small()), dcIDs(2, small())}, 0)
				g.count("dcmi-family:std")
				// DCMI family: DCMI entity k holds n instances; the standard IDs are empty or rejected (at entity 0, 1 or 2)
				d := [3]string{dcIDs(0, small()), dcIDs(1, small()), dcIDs(2, small())}
				d[k] = dcIDs(k, n)
				std := []string{"empty", "err", "err1", "err2"}[trig%4]
				trig++
				dcmiOp('P', [3]int{small(), small(), small()}, ps, std, d, 0)
				g.count("dcmi-family:dcmi-after-" + std)
			}
		}
	}
	// nothing anywhere; the standard IDs empty by count; errors under the DCMI IDs; large pages
	dcmiOp('P', [3]int{0, 0, 0}, 8, "ok", [3]string{"-", "-", "-"}, 0)
	dcmiOp('P', [3]int{0, 0, 0}, 8, "ok", [3]string{dcIDs(0, 3), "-", dcIDs(2, 9)}, 0)
	dcmiOp('P', [3]int{0, 0, 0}, 8, "err", [3]string{"-", "-", "-"}, 0)
	for k := 0; k < 3; k++ {
		d := [3]string{dcIDs(0, 9), dcIDs(1, 2), dcIDs(2, 20)}
		d[k] = "!"
		dcmiOp('P', [3]int{0, 0, 0}, 8, "empty", d, 0)
		dcmiOp('P', [3]int{1, 2, 3}, 8, fmt.Sprintf("err%d", k), d, 0)
		dcmiOp('P', [3]int{4, 0, 17}, 3, "ok", d, 0)
	}
	for _, ps := range []int{9, 16, 100, 200, 240} { // a reply must fit the transport's 512-byte receive buffer
		dcmiOp('P', [3]int{255, 254, 100}, ps, "ok", [3]string{"-", "-", "-"}, 0)
		dcmiOp('P', [3]int{0, 0, 0}, ps, "empty", [3]string{dcIDs(0, 255), dcIDs(1, 17), dcIDs(2, 254)}, 0)
	}
	// BMCs that misreport the total or send empty pages (correspondence only)
	for r := 0; r < reps*6; r++ {
		n := [3]int{g.rng.Intn(40), g.rng.Intn(40), g.rng.Intn(256)}
		delta := []int{-300, -20, -3, -1, 1, 2, 9, 300}[g.rng.Intn(8)]
		dcmiOp('M', n, 1+g.rng.Intn(8), "ok", [3]string{dcIDs(0, small()), dcIDs(1, small()), dcIDs(2, small())}, delta)
		dcmiOp('M', [3]int{0, 0, 0}, 1+g.rng.Intn(8), "empty", [3]string{dcIDs(0, n[0]), dcIDs(1, n[1]), dcIDs(2, n[2])}, delta)
	}
	// a BMC holding MORE instances than the one-byte fields can count (the total reads 255, the instance start wraps):
	// whatever it answers, the enumeration must end (C05: no unbounded loop, whatever the BMC's replies)
	for _, big := range []int{256, 257, 263, 300, 600} {
		for _, ps := range []int{1, 5, 7, 8} {
			k := g.rng.Intn(3)
			d := [3]string{dcIDs(0, small()), dcIDs(1, small()), dcIDs(2, small())}
			d[k] = dcIDs(k, big)
			dcmiOp('M', [3]int{0, 0, 0}, ps, "empty", d, 300) // reports min(255, n + 300) = 255
		}
	}
	dcmiOp('M', [3]int{5, 5, 5}, 0, "ok", [3]string{"-", "-", "-"}, 0)
	dcmiOp('M', [3]int{0, 0, 0}, 0, "empty", [3]string{dcIDs(0, 4), "-", "-"}, 0)
}
