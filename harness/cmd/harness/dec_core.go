package main

// Core two-way layers: IPMI message, v2.0 session wrapper (per integrity algorithm), AES-128-CBC.

import (
	"crypto/aes"
	"crypto/cipher"
	"crypto/hmac"
	"crypto/md5"
	"crypto/sha1"
	"crypto/sha256"
	"hash"
	"math/rand"

	"github.com/gebn/bmc/pkg/ipmi"
	"github.com/google/gopacket"
)

var testK1 = func() []byte {
	b := make([]byte, 20)
	for i := range b {
		b[i] = byte(i + 1)
	}
	return b
}()
var testK2 = func() (k [16]byte) {
	for i := range k {
		k[i] = byte(0xA0 + i)
	}
	return
}()

// truncHash mirrors the library's unexported truncatedHash (hasher.go): Sum truncated to n bytes.
type truncHash struct {
	hash.Hash
	n int
}

func (t truncHash) Sum(b []byte) []byte { return t.Hash.Sum(b)[:len(b)+t.n] }

// integrity returns the keyed integrity algorithm the library would construct (hasher.go), by number.
func integrity(alg int, k1 []byte) hash.Hash {
	switch alg {
	case 1:
		return truncHash{hmac.New(sha1.New, k1), 12}
	case 2:
		return hmac.New(md5.New, k1)
	case 4:
		return truncHash{hmac.New(sha256.New, k1), 16}
	}
	return nil
}

func macOf(alg int, k1, msg []byte) []byte {
	h := integrity(alg, k1)
	if h == nil {
		return nil
	}
	h.Write(msg)
	return h.Sum(nil)
}

func csum(b []byte) byte {
	var s byte
	for _, x := range b {
		s += x
	}
	return -s
}

// specMessage builds an IPMI LAN message from the table in §13.8.
func specMessage(rsAddr, netFn, rsLUN, rqAddr, rqSeq, rqLUN, cmd byte, cc *byte, prefix, data []byte) []byte {
	m := []byte{rsAddr, netFn<<2 | rsLUN&3, 0, rqAddr, rqSeq<<2 | rqLUN&3, cmd}
	m[2] = csum(m[:2])
	if cc != nil {
		m = append(m, *cc)
	}
	m = append(m, prefix...)
	m = append(m, data...)
	return append(m, csum(m[3:]))
}

func randMessage(rng *rand.Rand) []byte {
	netFn := byte(rng.Intn(64))
	switch rng.Intn(6) {
	case 0:
		netFn = 0x2c + byte(rng.Intn(2))
	case 1:
		netFn = 0x2e + byte(rng.Intn(2))
	}
	var prefix []byte
	switch netFn {
	case 0x2c, 0x2d:
		prefix = rbytes(rng, 1)
	case 0x2e, 0x2f:
		prefix = rbytes(rng, 3)
	}
	var cc *byte
	if netFn%2 == 1 {
		c := byte(rng.Intn(256))
		if rng.Intn(2) == 0 {
			c = 0
		}
		cc = &c
	}
	n := rng.Intn(24)
	if rng.Intn(4) == 0 {
		n = 0
	}
	return specMessage(byte(rng.Intn(256)), netFn, byte(rng.Intn(4)), byte(rng.Intn(256)), byte(rng.Intn(64)), byte(rng.Intn(4)),
		byte(rng.Intn(256)), cc, prefix, rbytes(rng, n))
}

// specV2 builds a v2.0 session wrapper (§13.6) around payload, signed with alg/k1 when authenticated.
func specV2(ptype byte, enc, auth bool, oemIANA uint32, oemID uint16, id, seq uint32, payload []byte, alg int, k1 []byte) []byte {
	b := []byte{6, ptype & 0x3f}
	if enc {
		b[1] |= 0x80
	}
	if auth {
		b[1] |= 0x40
	}
	if ptype&0x3f == 2 {
		b = append(b, byte(oemIANA), byte(oemIANA>>8), byte(oemIANA>>16), byte(oemIANA>>24), byte(oemID), byte(oemID>>8))
	}
	b = append(b, byte(id), byte(id>>8), byte(id>>16), byte(id>>24), byte(seq), byte(seq>>8), byte(seq>>16), byte(seq>>24),
		byte(len(payload)), byte(len(payload)>>8))
	b = append(b, payload...)
	if auth {
		pad := (4 - (len(b)+2)%4) % 4
		for i := 0; i < pad; i++ {
			b = append(b, 0xff)
		}
		b = append(b, byte(pad), 7)
		b = append(b, macOf(alg, k1, b)...)
	}
	return b
}

func specAES(key [16]byte, iv, msg []byte) []byte {
	padn := 15 - len(msg)%16
	pt := append([]byte(nil), msg...)
	for i := 1; i <= padn; i++ {
		pt = append(pt, byte(i))
	}
	pt = append(pt, byte(padn))
	blk, _ := aes.NewCipher(key[:])
	ct := make([]byte, len(pt))
	cipher.NewCBCEncrypter(blk, iv).CryptBlocks(ct, pt)
	return append(append([]byte(nil), iv...), ct...)
}

// rawAES encrypts an arbitrary plaintext (multiple of 16) — "crafted by a party that knows the keys"
func rawAES(key [16]byte, iv, pt []byte) []byte {
	blk, _ := aes.NewCipher(key[:])
	ct := make([]byte, len(pt))
	cipher.NewCBCEncrypter(blk, iv).CryptBlocks(ct, pt)
	return append(append([]byte(nil), iv...), ct...)
}

func init() {
	registerLayer(&layerSpec{
		name:  "message",
		fresh: func() gopacket.DecodingLayer { return &ipmi.Message{} },
		min:   7,
		valid: randMessage,
		extra: func(g *genCtx, emit func(byte, bool, []byte, []byte, []byte)) {
			// every NetFn class at every short length, with valid checksums: requests of 7…10, responses of 7…11 bytes
			for _, netFn := range []byte{0x06, 0x07, 0x2c, 0x2d, 0x2e, 0x2f, 0x30, 0x31} {
				for n := 0; n <= 4; n++ {
					var cc *byte
					if netFn%2 == 1 {
						c := byte(0xC1)
						cc = &c
					}
					full := specMessage(0x81, netFn, 0, 0x20, 1, 0, 0x01, cc, nil, rbytes(g.rng, n))
					// valid when the NetFn's prefix fits: the spec demands rejection otherwise
					emit('M', true, nil, full, nil)
					emit('M', true, nil, full, []byte{0xEE, 0xEE, 0xEE, 0xEE})
					emit('M', true, randMessage(g.rng), full, nil)
				}
			}
			// a response of exactly 7 bytes with valid checksums (no completion code): must be an error, never a crash
			for _, netFn := range []byte{0x07, 0x2d, 0x2f, 0x0b} {
				m := []byte{0x81, netFn << 2, 0, 0x20, 4, 1}
				m[2] = csum(m[:2])
				m = append(m, csum(m[3:]))
				emit('P', true, nil, m, nil)
				emit('P', true, nil, m, []byte{0xEE, 0xEE})
			}
			// checksum corruptions of valid messages: every single-bit flip of either checksum must be rejected
			for i := 0; i < 40; i++ {
				m := randMessage(g.rng)
				for bit := 0; bit < 8; bit++ {
					c := append([]byte(nil), m...)
					c[2] ^= 1 << bit
					emit('P', true, nil, c, nil)
					c = append([]byte(nil), m...)
					c[len(c)-1] ^= 1 << bit
					emit('P', true, nil, c, nil)
				}
			}
		},
	})
	for _, v := range []struct {
		name string
		alg  int
	}{{"v2none", 0}, {"v2sha1", 1}, {"v2md5", 2}, {"v2sha256", 4}} {
		v := v
		validV2 := func(rng *rand.Rand) []byte {
			ptype := []byte{0, 0, 0, 0x10, 0x11, 0x12, 0x13, 0x14, 0x15, 2, byte(rng.Intn(64))}[rng.Intn(11)]
			auth := rng.Intn(3) > 0
			if v.alg == 0 {
				auth = rng.Intn(4) == 0 // authenticated with integrity None: empty signature
			}
			n := rng.Intn(40)
			if rng.Intn(5) == 0 {
				n = 0
			}
			p := rbytes(rng, n)
			if auth && n > 0 && rng.Intn(3) == 0 {
				p[n-1] = 0xff // payload ending in 0xFF must not confuse the pad scan
			}
			return specV2(ptype, rng.Intn(2) == 0, auth, rng.Uint32(), uint16(rng.Intn(65536)), rng.Uint32(), rng.Uint32(), p, v.alg, testK1)
		}
		registerLayer(&layerSpec{
			name:  v.name,
			fresh: func() gopacket.DecodingLayer { return &ipmi.V2Session{IntegrityAlgorithm: integrity(v.alg, testK1)} },
			min:   12,
			valid: validV2,
			hide:  map[string]bool{"IntegrityAlgorithm": true, "ConfidentialityLayerType": true},
			extra: func(g *genCtx, emit func(byte, bool, []byte, []byte, []byte)) {
				for i := 0; i < 30; i++ {
					// every payload length residue mod 4 (pad 0…3), authenticated
					p := rbytes(g.rng, i)
					ok := specV2(0, true, true, 0, 0, 0x11223344, uint32(i+1), p, v.alg, testK1)
					emit('P', true, nil, ok, nil)
					emit('P', true, validV2(g.rng), ok, []byte{0xFF, 0xFF, 0xFF, 0xFF, 0xFF, 0xFF})
					// every single-bit flip of an authentic packet must be rejected (it carries a MAC) — C04's decode half
					if v.alg != 0 {
						for k := 0; k < len(ok)*8; k += 1 + g.rng.Intn(5) {
							c := append([]byte(nil), ok...)
							c[k/8] ^= 1 << (k % 8)
							emit('M', true, nil, c, nil)
						}
					}
					// length field exceeding the data: rejected
					c := append([]byte(nil), ok...)
					c[10] = byte(len(p) + 1 + len(ok))
					emit('P', true, nil, c, nil)
					// truncated trailers
					un := specV2(0, true, false, 0, 0, 1, 2, p, 0, nil)
					un[1] |= 0x40
					for k := 0; k <= 6; k++ {
						emit('M', true, nil, append(append([]byte(nil), un...), make([]byte, k)...), []byte{0xFF, 0xFF, 0xFF, 0x07})
						ff := make([]byte, k)
						for j := range ff {
							ff[j] = 0xff
						}
						emit('M', true, nil, append(append([]byte(nil), un...), ff...), []byte{0xFF, 0xFF, 0xFF, 0x07})
					}
				}
			},
		})
	}
	registerLayer(&layerSpec{
		name: "aes",
		fresh: func() gopacket.DecodingLayer {
			l, _ := ipmi.NewAES128CBC(testK2)
			return l
		},
		min: 32,
		valid: func(rng *rand.Rand) []byte {
			// mostly the sizes of ordinary messages; one in six a long payload (up to 400 bytes)
			n := rng.Intn(70)
			if rng.Intn(6) == 0 {
				n = 90 + rng.Intn(311)
			}
			return specAES(testK2, rbytes(rng, 16), rbytes(rng, n))
		},
		extra: func(g *genCtx, emit func(byte, bool, []byte, []byte, []byte)) {
			// every message length 0…64 (every residue mod 16)
			for n := 0; n <= 64; n++ {
				emit('P', true, nil, specAES(testK2, rbytes(g.rng, 16), rbytes(g.rng, n)), nil)
			}
			// crafted plaintexts: every pad-length byte 0…255 with a correct / incorrect pad pattern, 1…3 blocks,
			// IVs chosen so that a pattern running into the IV matches
			for blocks := 1; blocks <= 3; blocks++ {
				for pl := 0; pl < 256; pl++ {
					for variant := 0; variant < 3; variant++ {
						pt := rbytes(g.rng, 16*blocks)
						iv := rbytes(g.rng, 16)
						pt[len(pt)-1] = byte(pl)
						if variant > 0 {
							// write 1,2,…,pl backwards from the byte before the pad length, continuing into the IV
							v := pl
							for i := len(pt) - 2; i >= 0 && v >= 1; i-- {
								pt[i] = byte(v)
								v--
							}
							for i := 15; i >= 0 && v >= 1; i-- {
								iv[i] = byte(v)
								v--
							}
							if variant == 2 && pl > 0 && len(pt) >= 2 {
								pt[len(pt)-2] ^= 0x10
							}
						}
						emit('M', true, nil, rawAES(testK2, iv, pt), nil)
					}
				}
			}
		},
	})
}

// finalErrorCode: a completion code other than Normal that is FINAL — any of the 253 values that are neither 00h nor one of the
// two temporary codes (C0h node busy, C3h timeout); half the time one of the commonly seen ones (seed C10-B14: a bit-set lookup
// that took D0h / D3h for temporary)
func finalErrorCode(rng *rand.Rand) byte {
	if rng.Intn(2) == 0 {
		return []byte{0xC1, 0xC9, 0xD4, 0xFF, 0x80}[rng.Intn(5)]
	}
	for {
		c := byte(1 + rng.Intn(255))
		if c != 0xC0 && c != 0xC3 {
			return c
		}
	}
}
