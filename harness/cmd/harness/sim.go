package main

// A reference BMC written from the IPMI v2.0 tables (Appendix H of DESIGN.md), independent of the
// library: RAKP key agreement, verification/decryption of in-session requests, sealing of responses,
// and a small command dispatcher. Deterministic: its randoms and IVs are functions of its state.

import (
	"bytes"
	"crypto/aes"
	"crypto/cipher"
	"crypto/hmac"
	"crypto/md5"
	"crypto/sha1"
	"crypto/sha256"
	"encoding/binary"
	"fmt"
	"hash"
)

func hashFn(a byte) func() hash.Hash {
	switch a {
	case 1:
		return sha1.New
	case 2:
		return md5.New
	case 3:
		return sha256.New
	}
	return nil
}

func hmacOf(h func() hash.Hash, key []byte, parts ...[]byte) []byte {
	m := hmac.New(h, key)
	for _, p := range parts {
		m.Write(p)
	}
	return m.Sum(nil)
}

func le16b(v uint16) []byte { return []byte{byte(v), byte(v >> 8)} }
func le32b(v uint32) []byte { b := make([]byte, 4); binary.LittleEndian.PutUint32(b, v); return b }

type simBMC struct {
	pass, kg          []byte
	auth, integ, conf byte
	sidc, sidm        uint32 // BMC's and console's session IDs
	rm, rc, guid      [16]byte
	role              byte
	uname             []byte
	sik, k1, k2       []byte
	outSeq            uint32
	ivCtr             byte
	log               [][]byte // every datagram received
	// forced answers
	forceAlgs  [3]int // algorithms placed in the Open Session Response (-1 = echo the request)
	dispatcher func(netfn, cmd byte, data []byte) []byte
}

func newSimBMC(pass, kg []byte) *simBMC {
	s := &simBMC{pass: pass, kg: kg, sidc: 0xA0A1A2A3, forceAlgs: [3]int{-1, -1, -1}}
	for i := range s.rc {
		s.rc[i] = byte(0xC0 + i)
		s.guid[i] = byte(0x10 + i)
	}
	return s
}

func wrapSessionless(ptype byte, payload []byte) []byte {
	out := []byte{6, 0, 0xff, 7, 6, ptype, 0, 0, 0, 0, 0, 0, 0, 0, byte(len(payload)), byte(len(payload) >> 8)}
	return append(out, payload...)
}

func ipmiRsp(netfn, cmd, cc byte, data []byte) []byte {
	c := cc
	return specMessage(0x81, netfn|1, 0, 0x20, 1, 0, cmd, &c, nil, data)
}

// deriveKeys computes SIK, K1, K2 per §13.31/13.32
func (s *simBMC) deriveKeys() {
	h := hashFn(s.auth)
	kg := s.kg
	if len(kg) == 0 {
		kg = s.pass
	}
	s.sik = hmacOf(h, kg, s.rm[:], s.rc[:], []byte{s.role, byte(len(s.uname))}, s.uname)
	s.k1 = hmacOf(h, s.sik, bytes.Repeat([]byte{1}, 20))
	s.k2 = hmacOf(h, s.sik, bytes.Repeat([]byte{2}, 20))
}

func (s *simBMC) rakp2Code() []byte {
	return hmacOf(hashFn(s.auth), s.pass, le32b(s.sidm), le32b(s.sidc), s.rm[:], s.rc[:], s.guid[:], []byte{s.role, byte(len(s.uname))}, s.uname)
}

func (s *simBMC) rakp3Code() []byte {
	return hmacOf(hashFn(s.auth), s.pass, s.rc[:], le32b(s.sidm), []byte{s.role, byte(len(s.uname))}, s.uname)
}

func (s *simBMC) icv() []byte {
	v := hmacOf(hashFn(s.auth), s.sik, s.rm[:], le32b(s.sidc), s.guid[:])
	switch s.auth {
	case 1:
		return v[:12]
	case 3:
		return v[:16]
	}
	return v
}

// handle answers one datagram; nil = no reply
func (s *simBMC) handle(pkt []byte) []byte {
	s.log = append(s.log, append([]byte(nil), pkt...))
	if len(pkt) < 16 || pkt[0] != 6 || pkt[3] != 7 || pkt[4] != 6 {
		return nil
	}
	ptype := pkt[5] & 0x3f
	sid := binary.LittleEndian.Uint32(pkt[6:10])
	plen := int(binary.LittleEndian.Uint16(pkt[14:16]))
	if len(pkt) < 16+plen {
		return nil
	}
	payload := pkt[16 : 16+plen]
	switch ptype {
	case 0x10:
		if plen != 32 {
			return nil
		}
		s.sidm = binary.LittleEndian.Uint32(payload[4:8])
		s.auth, s.integ, s.conf = payload[12]&0x3f, payload[20]&0x3f, payload[28]&0x3f
		algs := [3]byte{s.auth, s.integ, s.conf}
		for i, f := range s.forceAlgs {
			if f >= 0 {
				algs[i] = byte(f)
			}
		}
		s.auth, s.integ, s.conf = algs[0], algs[1], algs[2]
		r := []byte{payload[0], 0, payload[1], 0}
		r = append(r, le32b(s.sidm)...)
		r = append(r, le32b(s.sidc)...)
		r = append(r, 0, 0, 0, 8, algs[0], 0, 0, 0, 1, 0, 0, 8, algs[1], 0, 0, 0, 2, 0, 0, 8, algs[2], 0, 0, 0)
		return wrapSessionless(0x11, r)
	case 0x12:
		if plen < 28 || hashFn(s.auth) == nil {
			return nil
		}
		copy(s.rm[:], payload[8:24])
		s.role = payload[24]
		ul := int(payload[27])
		if plen < 28+ul {
			return nil
		}
		s.uname = append([]byte(nil), payload[28:28+ul]...)
		r := []byte{payload[0], 0, 0, 0}
		r = append(r, le32b(s.sidm)...)
		r = append(r, s.rc[:]...)
		r = append(r, s.guid[:]...)
		r = append(r, s.rakp2Code()...)
		return wrapSessionless(0x13, r)
	case 0x14:
		if plen < 8 || hashFn(s.auth) == nil {
			return nil
		}
		if !bytes.Equal(s.rakp3Code(), payload[8:]) {
			return wrapSessionless(0x15, append([]byte{payload[0], 0x0f, 0, 0}, le32b(s.sidm)...))
		}
		s.deriveKeys()
		r := []byte{payload[0], 0, 0, 0}
		r = append(r, le32b(s.sidm)...)
		r = append(r, s.icv()...)
		return wrapSessionless(0x15, r)
	case 0x00:
		if sid == 0 {
			if s.dispatcher == nil || len(payload) < 7 {
				return nil
			}
			rsp := s.dispatcher(payload[1]>>2, payload[5], payload[6:len(payload)-1])
			if rsp == nil {
				return nil
			}
			return wrapSessionless(0, rsp)
		}
		req, why := s.open(pkt)
		if req == nil || s.dispatcher == nil {
			_ = why
			return nil
		}
		rsp := s.dispatcher(req.netFn, req.cmd, req.data)
		if rsp == nil {
			return nil
		}
		return s.seal(rsp)
	}
	return nil
}

type openedReq struct {
	seq             uint32
	rsAddr, rqAddr  byte
	netFn, lun, cmd byte
	rqSeq           byte
	data            []byte // after the command byte, before checksum 2 (incl. group/OEM prefix)
	iv              []byte
}

// open is the BMC's acceptance of an in-session datagram (§13.6, 13.28.4, 13.29, 13.8): returns nil and the
// reason when any check fails.
func (s *simBMC) open(pkt []byte) (*openedReq, string) {
	if len(pkt) < 16 || pkt[0] != 6 || pkt[1] != 0 || pkt[2] != 0xff || pkt[3] != 7 {
		return nil, "RMCP header is not version 6 / seq FF / class IPMI"
	}
	w := pkt[4:]
	if w[0] != 6 {
		return nil, "auth type is not RMCP+"
	}
	enc, auth, ptype := w[1]&0x80 != 0, w[1]&0x40 != 0, w[1]&0x3f
	if ptype != 0 {
		return nil, "payload type is not IPMI"
	}
	if binary.LittleEndian.Uint32(w[2:6]) != s.sidc {
		return nil, fmt.Sprintf("session ID %#x is not the BMC's %#x", binary.LittleEndian.Uint32(w[2:6]), s.sidc)
	}
	seq := binary.LittleEndian.Uint32(w[6:10])
	plen := int(binary.LittleEndian.Uint16(w[10:12]))
	if len(w) < 12+plen {
		return nil, "payload length exceeds the datagram"
	}
	payload := w[12 : 12+plen]
	rest := w[12+plen:]
	ih, il := integParams(s.integ)
	if ih != nil {
		if !auth {
			return nil, "authenticated flag is clear although integrity was negotiated"
		}
		pad := (4 - (12+plen+2)%4) % 4
		if len(rest) != pad+2+il {
			return nil, fmt.Sprintf("trailer is %d bytes, want %d pad + 2 + %d", len(rest), pad, il)
		}
		for i := 0; i < pad; i++ {
			if rest[i] != 0xff {
				return nil, "integrity pad byte is not FF"
			}
		}
		if int(rest[pad]) != pad || rest[pad+1] != 7 {
			return nil, "pad length / next header wrong"
		}
		signed := w[:12+plen+pad+2]
		if !bytes.Equal(hmacOf(ih, s.k1, signed)[:il], rest[pad+2:]) {
			return nil, "AuthCode is not the keyed hash under K1 of auth type … next header"
		}
	} else if auth || len(rest) != 0 {
		return nil, "trailer present although no integrity was negotiated"
	}
	msg := payload
	var iv []byte
	if s.conf == 1 {
		if !enc {
			return nil, "encrypted flag is clear although AES was negotiated"
		}
		if plen < 32 || plen%16 != 0 {
			return nil, "AES payload length"
		}
		iv = payload[:16]
		blk, _ := aes.NewCipher(s.k2[:16])
		pt := make([]byte, plen-16)
		cipher.NewCBCDecrypter(blk, iv).CryptBlocks(pt, payload[16:])
		padn := int(pt[len(pt)-1])
		if padn > 15 || padn+1 > len(pt) {
			return nil, "confidentiality pad length"
		}
		for i := 0; i < padn; i++ {
			if pt[len(pt)-1-padn+i] != byte(i+1) {
				return nil, "confidentiality pad is not 01,02,…"
			}
		}
		msg = pt[:len(pt)-1-padn]
	} else if enc {
		return nil, "encrypted flag set although no confidentiality was negotiated"
	}
	if len(msg) < 7 {
		return nil, "message shorter than 7 bytes"
	}
	if csum(msg[:2]) != msg[2] || csum(msg[3:len(msg)-1]) != msg[len(msg)-1] {
		return nil, "message checksum"
	}
	return &openedReq{seq: seq, rsAddr: msg[0], netFn: msg[1] >> 2, lun: msg[1] & 3, rqAddr: msg[3], rqSeq: msg[4] >> 2,
		cmd: msg[5], data: msg[6 : len(msg)-1], iv: iv}, ""
}

func integParams(a byte) (func() hash.Hash, int) {
	switch a {
	case 1:
		return sha1.New, 12
	case 2:
		return md5.New, 16
	case 4:
		return sha256.New, 16
	}
	return nil, 0
}

// seal wraps a response message for the console per the negotiated suite
func (s *simBMC) seal(msg []byte) []byte {
	s.outSeq++
	return s.sealWith(msg, s.sidm, s.outSeq, s.conf == 1, true, s.k1, s.k2)
}

func (s *simBMC) sealWith(msg []byte, sid, seq uint32, enc, auth bool, k1, k2 []byte) []byte {
	payload := msg
	if enc {
		iv := make([]byte, 16)
		for i := range iv {
			s.ivCtr += 29
			iv[i] = s.ivCtr
		}
		var key [16]byte
		copy(key[:], k2)
		payload = specAES(key, iv, msg)
	}
	alg := int(s.integ)
	if !auth {
		alg = 0
	}
	w := specV2(0, enc, auth, 0, 0, sid, seq, payload, alg, k1)
	return append([]byte{6, 0, 0xff, 7}, w...)
}

// openReply is the console-side reference judgement of a datagram received in session (the mirror image of
// open): returns the message fields when the datagram is authentic, addressed to localID, well padded and
// checksum-valid; nil and the reason otherwise.
type openedRsp struct {
	netFn, cmd, cc byte
	data           []byte // after the completion code (incl. group/OEM prefix), before checksum 2
}

func openReply(pkt []byte, localID uint32, integ byte, k1, k2 []byte) (*openedRsp, string) {
	// the RMCP header is outside the authenticated region: only the class nibble decides whether this is IPMI; version,
	// reserved byte, sequence and the ACK bit cannot change what the packet carries (C04 asks that tampering never
	// changes the VALUE, not that every tampered packet be refused)
	if len(pkt) < 16 || pkt[3]&0x0f != 7 {
		return nil, "not an RMCP IPMI data packet"
	}
	w := pkt[4:]
	if w[0] != 6 {
		return nil, "not RMCP+"
	}
	enc, auth, ptype := w[1]&0x80 != 0, w[1]&0x40 != 0, w[1]&0x3f
	if ptype != 0 {
		return nil, "payload type is not IPMI"
	}
	plen := int(binary.LittleEndian.Uint16(w[10:12]))
	if len(w) < 12+plen {
		return nil, "length field exceeds data"
	}
	if binary.LittleEndian.Uint32(w[2:6]) != localID {
		return nil, "addressed to another session"
	}
	ih, il := integParams(integ)
	if ih != nil {
		if !auth {
			return nil, "authenticated flag clear"
		}
		rest := w[12+plen:]
		// pad: FF…, then pad length, next header, AuthCode = rest
		i := 0
		for i < len(rest) && rest[i] == 0xff {
			i++
		}
		if len(rest) < i+2+il || len(rest) != i+2+il {
			return nil, "trailer length"
		}
		if !bytes.Equal(hmacOf(ih, k1, w[:12+plen+i+2])[:il], rest[i+2:]) {
			return nil, "AuthCode invalid"
		}
	}
	msg := w[12 : 12+plen]
	if enc {
		if plen < 32 || plen%16 != 0 {
			return nil, "AES length"
		}
		blk, _ := aes.NewCipher(k2[:16])
		pt := make([]byte, plen-16)
		cipher.NewCBCDecrypter(blk, msg[:16]).CryptBlocks(pt, msg[16:])
		padn := int(pt[len(pt)-1])
		if padn > 16 || padn+1 > len(pt) {
			return nil, "confidentiality pad length"
		}
		for i := 0; i < padn; i++ {
			if pt[len(pt)-1-padn+i] != byte(i+1) {
				return nil, "confidentiality pad pattern"
			}
		}
		msg = pt[:len(pt)-1-padn]
	}
	if len(msg) < 8 || msg[1]>>2&1 == 0 {
		return nil, "not a response message"
	}
	if csum(msg[:2]) != msg[2] || csum(msg[3:len(msg)-1]) != msg[len(msg)-1] {
		return nil, "message checksum"
	}
	return &openedRsp{netFn: msg[1] >> 2, cmd: msg[5], cc: msg[6], data: msg[7 : len(msg)-1]}, ""
}
