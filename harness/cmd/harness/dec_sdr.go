package main

// Decoder layers of the SDR group: Get SDR Repository Info, Reserve SDR Repository, Get SDR, the SDR
// header, Get Sensor Reading and the Full Sensor Record (with its four ID string encodings).

import (
	"math/rand"

	"github.com/gebn/bmc/pkg/ipmi"
	"github.com/google/gopacket"
)

// fsrFixed returns the 42 bytes of a Full Sensor Record (key + body) that precede the type/length
// byte, reserved bits zero.
func fsrFixed(rng *rand.Rand) []byte {
	b := rbytes(rng, 42)
	b[1] &= 0xf3  // bits 3:2 reserved
	b[18] &= 0x7f // bit 7 reserved
	b[25] &= 0x07 // bits 7:3 reserved
	b[39] = 0     // reserved
	b[40] = 0     // reserved
	return b
}

// fsrString returns the type/length byte and the string bytes of n characters in encoding enc
// (0 "unicode", 1 BCD plus, 2 packed 6-bit ASCII, 3 8-bit ASCII + Latin-1).
func fsrString(rng *rand.Rand, enc, n int) []byte {
	out := []byte{byte(enc<<6 | n)}
	switch enc {
	case 1:
		nib := rbytes(rng, n)
		s := make([]byte, (n+1)/2)
		for i := 0; i < n; i++ {
			if i%2 == 0 {
				s[i/2] |= (nib[i] & 0xf) << 4
			} else {
				s[i/2] |= nib[i] & 0xf
			}
		}
		return append(out, s...)
	case 2:
		codes := rbytes(rng, n+3)
		for i := range codes {
			codes[i] &= 0x3f
			if i >= n {
				codes[i] = 0
			}
		}
		s := make([]byte, n-n/4)
		for k := range s {
			q := k / 3
			c := codes[4*q : 4*q+4]
			switch k % 3 {
			case 0:
				s[k] = c[0] | c[1]<<6
			case 1:
				s[k] = c[1]>>2 | c[2]<<4
			case 2:
				s[k] = c[2]>>4 | c[3]<<2
			}
		}
		return append(out, s...)
	}
	return append(out, rbytes(rng, n)...)
}

// fsrLen draws a character count: 0…31, for the byte encodings never the reserved count 1.
func fsrLen(rng *rand.Rand, enc int) int {
	n := rng.Intn(32)
	if rng.Intn(3) == 0 {
		n = rng.Intn(18) // the lengths a 16-byte ID string field can hold are the common ones
	}
	if (enc == 0 || enc == 3) && n == 1 {
		n = 2
	}
	return n
}

func init() {
	registerLayer(&layerSpec{
		name:  "sdrrepoinfo",
		fresh: func() gopacket.DecodingLayer { return &ipmi.GetSDRRepositoryInfoRsp{} },
		min:   14,
		valid: func(rng *rand.Rand) []byte {
			b := rbytes(rng, 14)
			b[0] = byte(rng.Intn(10))<<4 | byte(rng.Intn(10)) // BCD, nibble-swapped (51h = 1.5)
			if rng.Intn(3) == 0 {
				b[0] = 0x51
			}
			switch rng.Intn(6) { // timestamps: never, unspecified, ordinary
			case 0:
				copy(b[5:9], []byte{0, 0, 0, 0})
			case 1:
				copy(b[9:13], []byte{0xff, 0xff, 0xff, 0xff})
			case 2:
				copy(b[5:9], []byte{0, 0, 0, 0x80})
			}
			b[13] &= 0xef // bit 4 reserved
			return b
		},
		extra: func(g *genCtx, emit func(byte, bool, []byte, []byte, []byte)) {
			// every flag bit alone, every value of the version byte
			for bit := 0; bit < 8; bit++ {
				b := make([]byte, 14)
				b[13] = 1 << bit
				emit('M', true, nil, b, nil)
			}
			for v := 0; v < 256; v++ {
				b := rbytes(g.rng, 14)
				b[0] = byte(v)
				emit('M', true, nil, b, nil)
			}
		},
	})
	registerLayer(&layerSpec{
		name:  "reservesdr",
		fresh: func() gopacket.DecodingLayer { return &ipmi.ReserveSDRRepositoryRsp{} },
		min:   2,
		valid: func(rng *rand.Rand) []byte { return rbytes(rng, 2) },
	})
	registerLayer(&layerSpec{
		name:  "getsdr",
		fresh: func() gopacket.DecodingLayer { return &ipmi.GetSDRRsp{} },
		min:   2,
		valid: func(rng *rand.Rand) []byte {
			b := rbytes(rng, 2)
			switch rng.Intn(4) {
			case 0:
				b[0], b[1] = 0xff, 0xff // no further record
			case 1:
				return b // no record data
			}
			return append(b, rbytes(rng, 1+rng.Intn(24))...)
		},
	})
	registerLayer(&layerSpec{
		name:  "sdrheader",
		fresh: func() gopacket.DecodingLayer { return &ipmi.SDR{} },
		min:   5,
		valid: func(rng *rand.Rand) []byte {
			n := rng.Intn(24)
			b := rbytes(rng, 5)
			b[2] = byte(rng.Intn(10))<<4 | byte(rng.Intn(10))
			if rng.Intn(2) == 0 {
				b[2] = 0x51
			}
			b[4] = byte(n)
			return append(b, rbytes(rng, n)...)
		},
		extra: func(g *genCtx, emit func(byte, bool, []byte, []byte, []byte)) {
			for v := 0; v < 256; v++ { // every value of the version byte, valid BCD or not
				b := rbytes(g.rng, 5)
				b[2] = byte(v)
				emit('M', true, nil, b, nil)
			}
		},
	})
	registerLayer(&layerSpec{
		name:  "sensorreading",
		fresh: func() gopacket.DecodingLayer { return &ipmi.GetSensorReadingRsp{} },
		min:   3,
		valid: func(rng *rand.Rand) []byte {
			b := rbytes(rng, 3)
			b[1] &= 0xe0
			if rng.Intn(2) == 0 { // discrete sensors: optional second state byte
				b = append(b, byte(rng.Intn(256))|0x80)
			}
			return b
		},
		extra: func(g *genCtx, emit func(byte, bool, []byte, []byte, []byte)) {
			// three then four bytes and back, into one receiver; longer bodies
			a, b := rbytes(g.rng, 3), rbytes(g.rng, 4)
			emit('P', true, a, b, nil)
			emit('P', true, b, a, nil)
			for l := 3; l <= 7; l++ {
				emit('M', true, b, rbytes(g.rng, l), []byte{0xEE, 0xEE})
			}
		},
	})
	registerLayer(&layerSpec{
		name:  "fsr",
		fresh: func() gopacket.DecodingLayer { return &ipmi.FullSensorRecord{} },
		min:   43,
		valid: func(rng *rand.Rand) []byte {
			enc := rng.Intn(4)
			return append(fsrFixed(rng), fsrString(rng, enc, fsrLen(rng, enc))...)
		},
		extra: func(g *genCtx, emit func(byte, bool, []byte, []byte, []byte)) {
			rng := g.rng
			poison := []byte{0xEE, 0xEE, 0xEE, 0xEE, 0xEE, 0xEE, 0xEE, 0xEE, 0xEE, 0xEE, 0xEE, 0xEE, 0xEE, 0xEE, 0xEE, 0xEE,
				0xEE, 0xEE, 0xEE, 0xEE, 0xEE, 0xEE, 0xEE, 0xEE, 0xEE, 0xEE, 0xEE, 0xEE, 0xEE, 0xEE, 0xEE, 0xEE, 0xEE, 0xEE}
			long := make([][]byte, 4)
			for enc := 0; enc < 4; enc++ {
				long[enc] = append(fsrFixed(rng), fsrString(rng, enc, 31)...)
			}
			for enc := 0; enc < 4; enc++ {
				for n := 0; n < 32; n++ {
					v := append(fsrFixed(rng), fsrString(rng, enc, n)...)
					cls := byte('P')
					if (enc == 0 || enc == 3) && n == 1 {
						cls = 'M' // reserved count for the byte encodings
					}
					// exact, in a window, with 1…3 trailing bytes, one byte short, reserved bit 5 set
					emit(cls, true, nil, v, nil)
					emit(cls, true, nil, v, poison)
					for k := 1; k <= 3; k++ {
						emit('M', true, nil, append(append([]byte(nil), v...), rbytes(rng, k)...), poison[:k])
					}
					if len(v) > 43 {
						emit('M', true, nil, v[:len(v)-1], poison)
						emit('M', true, long[enc], v[:len(v)-1], nil)
					}
					w := append([]byte(nil), v...)
					w[42] |= 0x20
					emit('M', true, nil, w, poison)
					// after the longest string of every encoding (reuse must not leak characters)
					for p := 0; p < 4; p++ {
						emit(cls, true, long[p], v, nil)
					}
				}
			}
			// the signed fields over their whole ranges: M, B (10 bits), accuracy (10 bits), exponents (4 bits)
			for n := 0; n < 1024; n++ {
				v := append(fsrFixed(rng), fsrString(rng, 3, 0)...)
				v[19], v[20] = byte(n), v[20]&0x3f|byte(n>>8)<<6
				m := (n * 7) % 1024
				v[21], v[22] = byte(m), byte(m>>8)<<6|byte(n&0x3f)
				v[23] = byte(n>>6)<<4 | v[23]&0x0f
				v[24] = byte(n)
				emit('P', true, nil, v, nil)
			}
			// every value of every single fixed byte against an otherwise fixed record
			base := append(fsrFixed(rng), fsrString(rng, 2, 5)...)
			for i := 0; i < 43; i++ {
				step := 1
				if !g.thorough() {
					step = 5
				}
				for x := 0; x < 256; x += step {
					v := append([]byte(nil), base...)
					v[i] = byte(x)
					emit('M', true, nil, v, poison[:2])
				}
			}
		},
	})
}
