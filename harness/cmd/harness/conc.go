package main

// C19: N goroutines, each driving its own connection and session against its own reference BMC with a seeded
// workload, compared with the same workloads run one after another. Built with -race by ./check for this scenario.

import (
	"context"
	"errors"
	"fmt"
	"math/rand"
	"os"
	"os/exec"
	"sort"
	"strings"
	"sync"
	"time"

	"github.com/gebn/bmc"
	"github.com/gebn/bmc/pkg/ipmi"
)

func init() {
	executors["conc"] = execConc
	scenarios["conc"] = genConc
	executors["concu"] = execConcU
}

// one workload: open a session (suite by seed), a series of commands with some retried answers, sometimes a second
// session on the same connection, close. Returns the caller-visible results and what the BMC decoded.
func concWorkload(seed int64) string {
	var late []func()
	rng := rand.New(rand.NewSource(seed))
	var out []string
	b := newSimBMC([]byte(fixedPass), nil)
	busy := 0
	// what this BMC advertises through Get Channel Cipher Suites (standard records: C0 id, auth, 40|integ, 80|conf)
	advertised := [][]byte{{3}, {17, 3}, {3, 8}, {17}, {8, 3, 17}, {3, 17}, {8}, {1, 2, 8, 3}, {2, 1, 17, 8, 3}, {1, 2, 3}}[rng.Intn(10)]
	// some BMCs fail one request for a later page of the list (the whole discovery then fails, once)
	suiteFaults := 0
	if rng.Intn(3) == 0 {
		suiteFaults = 1
	}
	var suiteData []byte
	for _, id := range advertised {
		a := concSuiteAlgs[id]
		suiteData = append(suiteData, 0xC0, id, a[0], 0x40|a[1], 0x80|a[2])
	}
	// and its SDR repository
	gg := &genCtx{rng: rng, tier: "quick", stat: map[string]int{}}
	dev := &c14Device{recs: c14Repo(gg, 1+rng.Intn(4), rng.Intn(2) == 0, 70), maxReserves: 1000, cancel: func() {}}
	b.dispatcher = func(netfn, cmd byte, data []byte) []byte {
		if busy > 0 {
			busy--
			return ipmiRsp(netfn, cmd, 0xC0, nil)
		}
		switch {
		case netfn == 0x06 && cmd == 0x54:
			if len(data) != 3 {
				return ipmiRsp(netfn, cmd, 0xC7, nil)
			}
			if data[2]&0x3f >= 1 && suiteFaults > 0 {
				suiteFaults--
				return ipmiRsp(netfn, cmd, 0xC9, nil)
			}
			lo := int(data[2]&0x3f) * 16
			if lo > len(suiteData) {
				lo = len(suiteData)
			}
			hi := lo + 16
			if hi > len(suiteData) {
				hi = len(suiteData)
			}
			return ipmiRsp(netfn, cmd, 0, append([]byte{0x01}, suiteData[lo:hi]...))
		case netfn == 0x0a:
			return dev.dispatch(netfn, cmd, data)
		case netfn == 0x06 && cmd == 0x01:
			return ipmiRsp(netfn, cmd, 0, []byte{0x20, 0x81, 0x02, 0x15, 0x02, 0xbf, 0x57, 0x01, 0x00, 0x34, 0x12})
		case netfn == 0x06 && cmd == 0x3c:
			return ipmiRsp(netfn, cmd, 0, nil)
		case netfn == 0x06 && cmd == 0x3d: // Get Session Info, long form: this console's address as THIS BMC sees it
			return ipmiRsp(netfn, cmd, 0, []byte{1, 5, 1, 2, 4, 0x11, 10, byte(seed >> 8), byte(seed), 7,
				0x02, 0x42, byte(seed >> 16), byte(seed >> 8), byte(seed), 0x99, byte(seed), 0x26})
		case netfn == 0x06 && cmd == 0x37:
			return ipmiRsp(netfn, cmd, 0, []byte{1, 2, 3, 4, 5, 6, 7, 8, 9, 10, 11, 12, 13, 14, 15, byte(seed)})
		case netfn == 0x00 && cmd == 0x01:
			return ipmiRsp(netfn, cmd, 0, []byte{0x21, 0x10, 0x40, 0x70})
		}
		return ipmiRsp(netfn, cmd, 0xC1, data)
	}
	var mu sync.Mutex
	var reqLog []string
	recv := make([]byte, 512)
	send := func(_ context.Context, p []byte) ([]byte, error) {
		mu.Lock()
		defer mu.Unlock()
		if r, _ := b.open(p); r != nil {
			reqLog = append(reqLog, fmt.Sprintf("%d:%02x/%02x:%x", r.seq, r.netFn, r.cmd, r.data))
		} else if m, _ := parseSessionless(p); m != nil {
			reqLog = append(reqLog, fmt.Sprintf("sl:%02x/%02x", m[1]>>2, m[5]))
		} else if len(p) >= 48 && p[5] == 0x10 {
			reqLog = append(reqLog, fmt.Sprintf("open:%x/%x/%x", p[16+12], p[16+20], p[16+28]))
		} else {
			reqLog = append(reqLog, fmt.Sprintf("setup:%02x", p[5]))
		}
		r := b.handle(p)
		if r == nil {
			return nil, errors.New("timeout")
		}
		return recv[:copy(recv, r)], nil
	}
	ctx, cancel := context.WithTimeout(context.Background(), 20*time.Second)
	defer cancel()
	// in-memory transport, or (op concu) the real UDP transport through a loopback relay
	// (every second connection is dialled with the defaults and configured afterwards through SetTimeout)
	t, closeRelay := newTransportOpts(send, 100*time.Millisecond, seed%2 == 1)
	suites := []ipmi.CipherSuite{ipmi.CipherSuite3, ipmi.CipherSuite17, {AuthenticationAlgorithm: 2, IntegrityAlgorithm: 2, ConfidentialityAlgorithm: 1}}
	if guid, err := t.GetSystemGUID(ctx); err == nil {
		out = append(out, fmt.Sprintf("guid=%x", guid))
	} else {
		out = append(out, "guid=err")
	}
	for round := 0; round < 1+rng.Intn(2); round++ {
		// one explicit suite (no discovery), the library's defaults (17 then 3, discovery), or a preference list (discovery)
		var want []ipmi.CipherSuite
		switch rng.Intn(5) {
		case 0, 1:
			want = []ipmi.CipherSuite{suites[rng.Intn(len(suites))]}
		case 2, 3:
			want = nil
		default:
			want = [][]ipmi.CipherSuite{{suites[1], suites[0], suites[2]}, {suites[2], suites[1]}, {suites[0], suites[1]}, {suites[2], suites[0]}}[rng.Intn(4)]
		}
		sess, err := t.NewV2Session(ctx, &bmc.V2SessionOpts{
			SessionOpts:  bmc.SessionOpts{Username: fixedUser, Password: []byte(fixedPass), MaxPrivilegeLevel: ipmi.PrivilegeLevelAdministrator},
			CipherSuites: want,
		})
		if err != nil {
			out = append(out, "open=err")
			continue
		}
		out = append(out, fmt.Sprintf("open=%d/%d", sess.AuthenticationAlgorithm, sess.IntegrityAlgorithm))
		for k := 0; k < 3+rng.Intn(6); k++ {
			switch rng.Intn(6) {
			case 5:
				// the response struct is KEPT and read only at the end of the workload, after every other connection in the
				// process has decoded its own (seed C19-B14: a shared backing array behind the IP slice)
				si, err := sess.GetSessionInfo(ctx, &ipmi.GetSessionInfoReq{})
				if err != nil {
					out = append(out, "sessinfo=err")
				} else {
					idx := len(out)
					out = append(out, "")
					late = append(late, func() { out[idx] = fmt.Sprintf("sessinfo=%v/%x/%d/%d", si.IP, si.MAC, si.Port, si.UserID) })
				}
			case 3:
				repo, err := bmc.RetrieveSDRRepository(ctx, sess)
				if err != nil {
					out = append(out, "sdr=err")
				} else {
					var ids []int
					for id := range repo {
						ids = append(ids, int(id))
					}
					sort.Ints(ids)
					var parts []string
					for _, id := range ids {
						parts = append(parts, fmt.Sprintf("%d:%x:%d:%d", id, repo[ipmi.RecordID(id)].Identity, repo[ipmi.RecordID(id)].M, repo[ipmi.RecordID(id)].B))
					}
					out = append(out, "sdr="+strings.Join(parts, ";"))
				}
			case 4:
				suites, err := bmc.RetrieveSupportedCipherSuites(ctx, t)
				out = append(out, fmt.Sprintf("suites=%v/%v", suites, err != nil))
			case 0:
				mu.Lock()
				busy = rng.Intn(3)
				mu.Unlock()
				d, err := sess.GetDeviceID(ctx)
				if err != nil {
					out = append(out, "devid=err")
				} else {
					out = append(out, fmt.Sprintf("devid=%d.%d", d.MajorFirmwareRevision, d.MinorFirmwareRevision))
				}
			case 1:
				c, err := sess.GetChassisStatus(ctx)
				if err != nil {
					out = append(out, "chassis=err")
				} else {
					out = append(out, fmt.Sprintf("chassis=%v/%v", c.PoweredOn, c.PowerRestorePolicy))
				}
			case 2:
				c := &rawCmd{op: ipmi.Operation{Function: ipmi.NetworkFunction(0x30), Command: ipmi.CommandNumber(rng.Intn(256))}, req: rawBody{b: rbytes(rng, rng.Intn(30))}}
				code, err := sess.SendCommand(ctx, c)
				out = append(out, fmt.Sprintf("raw=%d/%v/%x", code, err != nil, c.rsp.got))
			}
		}
		if err := sess.Close(ctx); err != nil {
			out = append(out, "close=err")
		} else {
			out = append(out, "close=ok")
		}
	}
	t.Close()
	closeRelay() // the relay's goroutine has ended before the request log is read
	concBarrier()
	for _, f := range late {
		f()
	}
	mu.Lock()
	defer mu.Unlock()
	return strings.Join(out, ",") + " | " + strings.Join(reqLog, ",")
}

// concBarrier: when N workloads run concurrently they meet here, after their last exchange and before reading the results they
// kept; a solo run passes straight through
var concWG *sync.WaitGroup

func concBarrier() {
	if concWG != nil {
		concWG.Done()
		concWG.Wait()
	}
}

var concSuiteAlgs = map[byte][3]byte{1: {1, 0, 0}, 2: {1, 1, 0}, 3: {1, 1, 1}, 17: {3, 4, 1}, 8: {2, 2, 1}}

// concSolo runs one workload in a fresh process (`harness concsolo <seed>`) and returns what it printed
func concSolo(seed int64) string {
	cmd := exec.Command(os.Args[0], "concsolo", fmt.Sprint(seed))
	cmd.Env = append(os.Environ(), "GORACE=atexit_sleep_ms=0") // a race-detector build otherwise sleeps 1 s at exit
	if useUDP {
		cmd.Env = append(cmd.Env, "VERIF_CONC_UDP=1")
	}
	out, err := cmd.Output()
	if err != nil {
		return "solo run failed: " + err.Error()
	}
	return strings.TrimRight(string(out), "\n")
}

// concu <N> <seed>: the same over the REAL transport (internal/pkg/transport: sockets, receive buffers), after one
// connection has been dialled and closed again — state the transports share in the process (buffer pools, free lists)
// is then in a used condition when the N connections are dialled
func execConcU(a []string) (string, string) {
	useUDP = true
	defer func() { useUDP = false }()
	_, closeProbe := newTransport(func(context.Context, []byte) ([]byte, error) { return nil, errors.New("timeout") }, 100*time.Millisecond)
	closeProbe()
	return execConc(a)
}

// conc <N> <seed>
func execConc(a []string) (string, string) {
	n, seed := atoi(a[0]), int64(atoi(a[1]))
	par := make([]string, n)
	var wg sync.WaitGroup
	var barrier sync.WaitGroup
	barrier.Add(n)
	concWG = &barrier
	for i := 0; i < n; i++ {
		wg.Add(1)
		go func(i int) {
			defer wg.Done()
			par[i] = concWorkload(seed*1000 + int64(i))
		}(i)
	}
	wg.Wait()
	concWG = nil
	same := true
	solos := make([]string, n)
	for i := 0; i < n; i++ {
		wg.Add(1)
		go func(i int) {
			defer wg.Done()
			solos[i] = concSolo(seed*1000 + int64(i))
		}(i)
	}
	wg.Wait()
	for i := 0; i < n; i++ {
		// the reference is the same workload run ALONE IN A FRESH PROCESS: state shared between connections (package-level
		// variables reached through an alias, caches, ...) that an earlier or concurrent connection has modified would
		// otherwise be the same in both runs and go unnoticed
		if solo := solos[i]; solo != par[i] {
			same = false
			return "race=0 same=0", fmt.Sprintf("goroutine %d of %d (seed %d): results or BMC log differ from the same workload run alone:\n concurrent: %s\n alone:      %s", i, n, seed, par[i], solo)
		}
	}
	_ = same
	return "race=0 same=1", ""
}

func genConc(g *genCtx) {
	ns := []int{2, 4, 8, 16}
	seeds := 8
	if g.thorough() {
		ns = []int{2, 3, 4, 6, 8, 12, 16}
		seeds = 50
	}
	for _, n := range ns {
		for s := 0; s < seeds; s++ {
			g.emit(Op{Class: 'P', NonTrivial: true, Kind: "conc", Args: []string{itoa(n), itoa(g.rng.Intn(1 << 20))}})
		}
	}
	// over real sockets: 6…10 connections alive at once
	for s := 0; s < seeds/2; s++ {
		g.emit(Op{Class: 'P', NonTrivial: true, Kind: "concu", Args: []string{itoa(6 + g.rng.Intn(5)), itoa(g.rng.Intn(1 << 20))}})
	}
}
