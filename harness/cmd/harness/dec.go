package main

// Generic machinery for layer decoders (C05 C07 C17): a registry of layers, a reflection-based
// canonical dump of every exported field, the `dec` executor and the generic generator.

import (
	"fmt"
	"math/rand"
	"net"
	"os"
	"reflect"
	"sort"
	"strings"
	"time"

	"github.com/google/gopacket"
)

type layerSpec struct {
	name string
	// fresh returns a new, zero receiver (configured where the layer needs keys etc.)
	fresh func() gopacket.DecodingLayer
	// valid returns a specification-conforming encoding (reserved bits zero), drawn from rng
	valid func(rng *rand.Rand) []byte
	// min is the layer's minimum length: anything shorter must be rejected
	min int
	// extra emits layer-specific operations (branch steering, corruptions); may be nil
	extra func(g *genCtx, emit func(class byte, nt bool, prev, data, tail []byte))
	// hide lists exported fields that are not part of the observable result (e.g. injected hashes)
	hide map[string]bool
}

var layerSpecs = map[string]*layerSpec{}

func registerLayer(l *layerSpec) { layerSpecs[l.name] = l }

func init() {
	executors["dec"] = execDec
	executors["decn"] = execDec
	scenarios["dec"] = func(g *genCtx) {
		var only map[string]bool
		if o := os.Getenv("VERIF_ONLY"); o != "" {
			only = map[string]bool{}
			for _, n := range strings.Split(o, ",") {
				only[n] = true
			}
		}
		genDec(g, only)
	}
}

// dump renders every exported field, in declaration order, as Name=value.
func dump(v reflect.Value, prefix string, hide map[string]bool, out *[]string) {
	t := v.Type()
	for i := 0; i < t.NumField(); i++ {
		f := t.Field(i)
		if f.PkgPath != "" { // unexported
			continue
		}
		name := prefix + f.Name
		if hide[name] {
			continue
		}
		fv := v.Field(i)
		if f.Anonymous && f.Type.Kind() == reflect.Struct { // BaseLayer & co
			dump(fv, prefix, hide, out)
			continue
		}
		*out = append(*out, name+"="+render(fv, name+".", hide))
	}
}

func render(fv reflect.Value, prefix string, hide map[string]bool) string {
	switch x := fv.Interface().(type) {
	case time.Duration:
		return fmt.Sprint(int64(x))
	case time.Time:
		if x.IsZero() {
			return "0"
		}
		return fmt.Sprint(x.Unix())
	case net.IP:
		return hx(x)
	case net.HardwareAddr:
		return hx(x)
	case []byte:
		return hx(x)
	case string:
		return hx([]byte(x))
	}
	switch fv.Kind() {
	case reflect.Bool:
		return b2s(fv.Bool())
	case reflect.Uint8, reflect.Uint16, reflect.Uint32, reflect.Uint64, reflect.Uint:
		return fmt.Sprint(fv.Uint())
	case reflect.Int8, reflect.Int16, reflect.Int32, reflect.Int64, reflect.Int:
		return fmt.Sprint(fv.Int())
	case reflect.Float64, reflect.Float32:
		return fmt.Sprintf("%g", fv.Float())
	case reflect.Array:
		if fv.Type().Elem().Kind() == reflect.Uint8 {
			b := make([]byte, fv.Len())
			for i := range b {
				b[i] = byte(fv.Index(i).Uint())
			}
			return hx(b)
		}
		fallthrough
	case reflect.Slice:
		var parts []string
		for i := 0; i < fv.Len(); i++ {
			parts = append(parts, render(fv.Index(i), prefix, hide))
		}
		return "[" + strings.Join(parts, ",") + "]"
	case reflect.Struct:
		var parts []string
		dump(fv, "", hide, &parts)
		return "{" + strings.Join(parts, ",") + "}"
	case reflect.Ptr, reflect.Interface:
		if fv.IsNil() {
			return "nil"
		}
		return render(fv.Elem(), prefix, hide)
	case reflect.Map:
		var parts []string
		for _, k := range fv.MapKeys() {
			parts = append(parts, render(k, prefix, hide)+":"+render(fv.MapIndex(k), prefix, hide))
		}
		sort.Strings(parts)
		return "{" + strings.Join(parts, ",") + "}"
	}
	return "?" + fv.Kind().String()
}

func dumpLayer(l gopacket.DecodingLayer, hide map[string]bool) string {
	var out []string
	dump(reflect.ValueOf(l).Elem(), "", hide, &out)
	return strings.Join(out, " ")
}

// decodeOnce decodes data into l under recover.
func decodeOnce(l gopacket.DecodingLayer, data []byte, hide map[string]bool) (res string) {
	defer func() {
		if r := recover(); r != nil {
			res = "panic"
		}
	}()
	if err := l.DecodeFromBytes(data, gopacket.NilDecodeFeedback); err != nil {
		return "err"
	}
	return "ok " + dumpLayer(l, hide)
}

// dec <layer> <prev> <data> <tail>
//
//	prev: an earlier input decoded into the same receiver first ("-" = fresh receiver)
//	tail: bytes lying beyond len(data) within the slice's capacity ("-" = exact capacity)
//
// The outcome is that of decoding data (as given) into the receiver (as given). Model-independent
// verdicts: panic; overread (outcome changes with the bytes beyond len); stale (outcome differs
// from a fresh receiver's); capacity (outcome differs between exact capacity and a window).
func execDec(a []string) (string, string) {
	spec, ok := layerSpecs[a[0]]
	if !ok {
		return "no-such-layer", ""
	}
	prev, data, tail := unhx(strings.Split(a[1], "+")[len(strings.Split(a[1], "+"))-1]), unhx(a[2]), unhx(a[3])
	h := spec.hide
	fresh := decodeOnce(spec.fresh(), window(data, nil), h)
	l := spec.fresh()
	if a[1] != "-" {
		// one earlier input, or a CHAIN of them ("p1+p2+…": the receiver's fourth, fifth … use)
		for _, ph := range strings.Split(a[1], "+") {
			if r := decodeOnce(l, window(unhx(ph), nil), h); !strings.HasPrefix(r, "ok") {
				return "prev-failed", ""
			}
		}
	}
	res := decodeOnce(l, window(data, tail), h)
	verdict := ""
	if len(tail) > 0 {
		l2 := spec.fresh()
		if a[1] != "-" {
			decodeOnce(l2, window(prev, nil), h)
		}
		if r2 := decodeOnce(l2, window(data, flip(tail)), h); r2 != res {
			return "overread", "decoded value depends on memory beyond the end of the data"
		}
	}
	switch {
	case res == "panic" || fresh == "panic":
		verdict = "panic"
		res = "panic"
	case res != fresh && a[1] != "-" && len(tail) == 0:
		verdict = "stale: reused receiver differs from a fresh one"
	case res != fresh:
		verdict = "result differs between a fresh exact-capacity decode and this one"
	}
	return res, verdict
}

// genDec: the generic generator over registered layers (only: restrict to these names).
func genDec(g *genCtx, only map[string]bool) {
	var names []string
	for n := range layerSpecs {
		if only == nil || only[n] {
			names = append(names, n)
		}
	}
	sort.Strings(names)
	poison := [][]byte{nil, {0xEE, 0xEE, 0xEE, 0xEE, 0xEE, 0xEE, 0xEE, 0xEE, 0xEE, 0xEE, 0xEE, 0xEE, 0xEE, 0xEE, 0xEE, 0xEE, 0xEE, 0xEE, 0xEE, 0xEE, 0xEE, 0xEE, 0xEE, 0xEE, 0xEE, 0xEE, 0xEE, 0xEE, 0xEE, 0xEE, 0xEE, 0xEE, 0xEE, 0xEE, 0xEE, 0xEE, 0xEE, 0xEE, 0xEE, 0xEE, 0xEE, 0xEE, 0xEE, 0xEE, 0xEE, 0xEE, 0xEE, 0xEE}}
	for _, n := range names {
		spec := layerSpecs[n]
		emit := func(class byte, nt bool, prev, data, tail []byte) {
			p := "-"
			if prev != nil {
				p = hx(prev)
				if p == "-" {
					p = "-" // an empty earlier input cannot have decoded; treat as fresh
				}
			}
			g.emit(Op{Class: class, NonTrivial: nt, Kind: "dec", Args: []string{n, p, hx(data), hx(tail)}})
		}
		iters := 150
		if g.thorough() {
			iters = 3000
		}
		var pool [][]byte
		for i := 0; i < 24; i++ {
			pool = append(pool, spec.valid(g.rng))
		}
		for i := 0; i < iters; i++ {
			v := spec.valid(g.rng)
			// a valid encoding: fresh / window / reused after another valid encoding
			emit('P', true, nil, v, nil)
			emit('P', true, nil, v, poison[1])
			emit('P', true, pool[g.rng.Intn(len(pool))], v, poison[i%2])
			if i%5 == 0 {
				// the receiver's 4th … 7th use: a chain of earlier valid inputs of different shapes, then this one
				var chain []string
				for k := 0; k < 3+g.rng.Intn(4); k++ {
					if e := pool[g.rng.Intn(len(pool))]; len(e) > 0 {
						chain = append(chain, hx(e))
					}
				}
				if len(chain) >= 3 {
					g.emit(Op{Class: 'P', NonTrivial: true, Kind: "decn", Args: []string{n, strings.Join(chain, "+"), hx(v), hx(poison[i%2])}})
				}
				// … and the shape "one LONG input, then several short ones" (buffers that grow and are later trimmed)
				long, short := pool[0], pool[0]
				for _, e := range pool {
					if len(e) > len(long) {
						long = e
					}
					if len(e) < len(short) && len(e) > 0 {
						short = e
					}
				}
				if len(long) > 0 && len(short) > 0 {
					ch := []string{hx(long)}
					for k := 0; k < 3+g.rng.Intn(3); k++ {
						ch = append(ch, hx(short))
					}
					sv := v
					if i%10 == 0 {
						sv = short
					}
					g.emit(Op{Class: 'P', NonTrivial: true, Kind: "decn", Args: []string{n, strings.Join(ch, "+"), hx(sv), hx(poison[i%2])}})
				}
			}
			if i < 40 || g.thorough() && i < 200 {
				// every truncation; below the minimum the specification demands an error
				for l := 0; l < len(v); l++ {
					cls := byte('M')
					if l < spec.min {
						cls = 'P'
					}
					emit(cls, l >= spec.min, nil, v[:l], poison[l%2])
					if l >= spec.min {
						emit('M', true, pool[g.rng.Intn(len(pool))], v[:l], nil)
					}
				}
				// every truncation again, this time with the REMOVED bytes lying right behind the slice (what a reused
				// receive buffer holds after a longer earlier copy of the same packet): a decoder that reads beyond
				// len reconstructs the full value here, and only here
				for k := 1; k <= len(v) && k <= 40; k++ {
					cut := len(v) - k
					emit('P', cut >= spec.min, nil, v[:cut], append(append([]byte(nil), v[cut:]...), poison[1][:8]...))
				}
				// extension by 1…3 bytes
				ext := append(append([]byte(nil), v...), byte(g.rng.Intn(256)), byte(g.rng.Intn(256)), byte(g.rng.Intn(256)))
				for k := 1; k <= 3; k++ {
					emit('M', true, nil, ext[:len(v)+k], poison[k%2])
				}
			}
			// single-byte corruption and random bytes
			if len(v) > 0 {
				c := append([]byte(nil), v...)
				c[g.rng.Intn(len(c))] ^= byte(1 << g.rng.Intn(8))
				emit('M', true, nil, c, poison[i%2])
			}
			r := make([]byte, g.rng.Intn(len(v)+4))
			g.rng.Read(r)
			emit('M', len(r) >= spec.min, pool[g.rng.Intn(len(pool))], r, poison[(i+1)%2])
		}
		// all ordered pairs of the pool: reuse must not leak (C17)
		np := 8
		if g.thorough() {
			np = len(pool)
		}
		for i := 0; i < np; i++ {
			for j := 0; j < np; j++ {
				emit('P', true, pool[i], pool[j], nil)
			}
		}
		if spec.extra != nil {
			spec.extra(g, emit)
		}
	}
}

func rbytes(rng *rand.Rand, n int) []byte {
	b := make([]byte, n)
	rng.Read(b)
	return b
}
