package main

// C14 — SDR repository retrieval: the real bmc.RetrieveSDRRepository, over a real RMCP+ session opened with the
// reference BMC of sim.go through the verif transport hook, against a simulated SDR Repository Device written from
// the IPMI tables (§33.9 Get SDR Repository Info, §33.11 Reserve SDR Repository, §33.12 Get SDR, §43 record header):
// ordered records, Next links, reservations cancelled by every modification, addition / erase timestamps.
//
//	sdr <repo> <event> <maxRetries> [ts=<addition>/<erase>]
//	  repo:  id:type:bodyhex,…   (decimal id and type; "-" = no records; body "-" = empty)
//	  event: none | lose@k | add@k=id:type:bodyhex | del@k=id
//	         injected just before the k-th Get SDR request of the whole retrieval (k ≥ 1): the reservation is lost /
//	         a record is appended (addition timestamp +1) / a record is deleted (erase timestamp +1); additions and
//	         deletions cancel the reservation as well
//	  maxRetries: the caller's context expires when the closure is about to be run for the (maxRetries+2)-th time
//
// outcome: ok <id:hex(canonical field dump),… sorted by id | -> reqs=<requests the device received> | err
//
// RetrieveSDRRepository retries with its OWN backoff.NewExponentialBackOff() (500 ms initial, not injectable), so
// every injected retry costs 0.25…0.75 s of wall time: the scenario executes its operations on parallel goroutines
// first (results are cached by op text) and emits them in order afterwards.

import (
	"context"
	"errors"
	"fmt"
	"sort"
	"strings"
	"sync"
	"time"

	"github.com/cenkalti/backoff/v4"
	"github.com/gebn/bmc"
	"github.com/gebn/bmc/pkg/ipmi"
)

func init() {
	executors["sdr"] = execSdr
	scenarios["sdr"] = genSdr
}

type c14Rec struct {
	id   uint16
	typ  byte
	body []byte
}

func (r c14Rec) bytes() []byte {
	return append([]byte{byte(r.id), byte(r.id >> 8), 0x51, r.typ, byte(len(r.body))}, r.body...)
}

func (r c14Rec) String() string { return fmt.Sprintf("%d:%d:%s", r.id, r.typ, hx(r.body)) }

type c14Event struct {
	kind string // "", "lose", "add", "del"
	k    int
	rec  c14Rec // add
	id   uint16 // del
}

// c14Device is the simulated SDR Repository Device.
type c14Device struct {
	recs           []c14Rec
	addTs, eraseTs uint32
	resv           uint16
	resvOk         bool
	ev             c14Event
	getSDRs        int
	reserves       int
	reqs           int
	maxReserves    int
	cancel         context.CancelFunc
	// for the verdict: did anything change after the last Reserve?
	changedSinceReserve bool
}

func c14CloneRecs(rs []c14Rec) []c14Rec { return append([]c14Rec(nil), rs...) }

func (d *c14Device) modify() {
	switch d.ev.kind {
	case "lose":
	case "add":
		d.recs = append(c14CloneRecs(d.recs), d.ev.rec)
		d.addTs++
	case "del":
		var keep []c14Rec
		for _, r := range d.recs {
			if r.id != d.ev.id {
				keep = append(keep, r)
			}
		}
		d.recs = keep
		d.eraseTs++
	}
	d.resvOk = false
	if d.ev.kind != "lose" { // a lost reservation alone leaves the records as they were
		d.changedSinceReserve = true
	}
}

func (d *c14Device) dispatch(netfn, cmd byte, data []byte) []byte {
	if netfn != 0x0a {
		return ipmiRsp(netfn, cmd, 0xc1, nil)
	}
	switch cmd {
	case 0x20: // Get SDR Repository Info
		d.reqs++
		out := []byte{0x51}
		out = append(out, le16b(uint16(len(d.recs)))...)
		out = append(out, le16b(0x1000)...)
		out = append(out, le32b(d.addTs)...)
		out = append(out, le32b(d.eraseTs)...)
		out = append(out, 0x2a) // non-modal update, delete, reserve supported
		return ipmiRsp(netfn, cmd, 0, out)
	case 0x22: // Reserve SDR Repository
		if d.reserves >= d.maxReserves {
			// the caller's patience ends here: its context is cancelled and this request goes unanswered
			d.cancel()
			return nil
		}
		d.reqs++
		d.reserves++
		d.resv++
		if d.resv == 0 {
			d.resv = 1
		}
		d.resvOk = true
		d.changedSinceReserve = false
		return ipmiRsp(netfn, cmd, 0, le16b(d.resv))
	case 0x23: // Get SDR
		if len(data) != 6 {
			return ipmiRsp(netfn, cmd, 0xc7, nil)
		}
		d.reqs++
		d.getSDRs++
		if d.ev.kind != "" && d.getSDRs == d.ev.k {
			d.modify()
		}
		rid := uint16(data[0]) | uint16(data[1])<<8
		id := uint16(data[2]) | uint16(data[3])<<8
		off, n := int(data[4]), int(data[5])
		if off != 0 && !(d.resvOk && rid == d.resv) {
			return ipmiRsp(netfn, cmd, 0xc5, nil)
		}
		idx := -1
		switch {
		case id == 0:
			if len(d.recs) > 0 {
				idx = 0
			}
		case id == 0xffff:
			idx = len(d.recs) - 1
		default:
			for i, r := range d.recs {
				if r.id == id {
					idx = i
					break
				}
			}
		}
		if idx < 0 {
			return ipmiRsp(netfn, cmd, 0xcb, nil)
		}
		next := uint16(0xffff)
		if id != 0xffff && idx+1 < len(d.recs) {
			next = d.recs[idx+1].id
		}
		b := d.recs[idx].bytes()
		if len(b) < off {
			return ipmiRsp(netfn, cmd, 0xc9, nil)
		}
		end := len(b)
		if n != 0xff && off+n < end {
			end = off + n
		}
		return ipmiRsp(netfn, cmd, 0, append(le16b(next), b[off:end]...))
	}
	return ipmiRsp(netfn, cmd, 0xc1, nil)
}

// c14OpenSession performs the real handshake with the reference BMC; afterwards every datagram of the session is
// opened, dispatched to the device and sealed by it. crypto/rand is left alone (sessions run concurrently).
func c14OpenSession(dev *c14Device) (*bmc.V2Session, context.Context, context.CancelFunc, error) {
	sb := newSimBMC([]byte(fixedPass), nil)
	sb.dispatcher = dev.dispatch
	recv := make([]byte, 1024)
	send := func(_ context.Context, p []byte) ([]byte, error) {
		r := sb.handle(p)
		if r == nil {
			return nil, errors.New("timeout")
		}
		for i := range recv {
			recv[i] = 0xEE
		}
		return recv[:copy(recv, r)], nil
	}
	ctx, cancel := context.WithTimeout(context.Background(), 120*time.Second)
	t := bmc.VerifNewV2SessionlessTransport(send, 50*time.Millisecond, &backoff.ZeroBackOff{})
	sess, err := t.NewV2Session(ctx, &bmc.V2SessionOpts{
		SessionOpts: bmc.SessionOpts{Username: fixedUser, Password: []byte(fixedPass), MaxPrivilegeLevel: ipmi.PrivilegeLevelAdministrator},
		CipherSuites: []ipmi.CipherSuite{{AuthenticationAlgorithm: ipmi.AuthenticationAlgorithmHMACSHA1,
			IntegrityAlgorithm: ipmi.IntegrityAlgorithmHMACSHA196, ConfidentialityAlgorithm: ipmi.ConfidentialityAlgorithmAESCBC128}},
	})
	if err != nil {
		cancel()
		return nil, nil, nil, err
	}
	return sess, ctx, cancel, nil
}

func c14ParseRec(s string) (c14Rec, bool) {
	f := strings.Split(s, ":")
	if len(f) != 3 {
		return c14Rec{}, false
	}
	return c14Rec{id: uint16(atoi(f[0])), typ: byte(atoi(f[1])), body: unhx(f[2])}, true
}

func c14ParseRepo(s string) ([]c14Rec, bool) {
	if s == "-" {
		return nil, true
	}
	var out []c14Rec
	for _, item := range strings.Split(s, ",") {
		r, ok := c14ParseRec(item)
		if !ok {
			return nil, false
		}
		out = append(out, r)
	}
	return out, true
}

func c14ParseEvent(s string) (c14Event, bool) {
	if s == "none" {
		return c14Event{}, true
	}
	at := strings.Index(s, "@")
	if at < 0 {
		return c14Event{}, false
	}
	kind, rest := s[:at], s[at+1:]
	arg := ""
	if eq := strings.Index(rest, "="); eq >= 0 {
		rest, arg = rest[:eq], rest[eq+1:]
	}
	ev := c14Event{kind: kind, k: atoi(rest)}
	switch kind {
	case "lose":
	case "add":
		r, ok := c14ParseRec(arg)
		if !ok {
			return ev, false
		}
		ev.rec = r
	case "del":
		ev.id = uint16(atoi(arg))
	default:
		return ev, false
	}
	return ev, true
}

// ---- the reference decoder: a Full Sensor Record's key and body per the table of §43.1 (offsets within the bytes
// that follow the 5-byte header), independent of the library; renders the same canonical dump as dumpLayer ----

func c14Twos(v uint16, bits uint) int {
	if v&(1<<(bits-1)) != 0 {
		return int(v) - (1 << bits)
	}
	return int(v)
}

func c14RefString(tl byte, b []byte) (s []byte, used int, ok bool) {
	n := int(tl & 0x1f)
	switch tl >> 6 {
	case 1: // BCD plus: two characters per byte, high nibble first
		used = (n + 1) / 2
		if len(b) < used {
			return nil, 0, false
		}
		const alphabet = "0123456789 -.:,_"
		for i := 0; i < n; i++ {
			nib := b[i/2] >> 4
			if i%2 == 1 {
				nib = b[i/2] & 0xf
			}
			s = append(s, alphabet[nib])
		}
		return s, used, true
	case 2: // 6-bit ASCII, packed least significant bits first, four characters in three bytes
		used = (n*6 + 7) / 8
		if len(b) < used {
			return nil, 0, false
		}
		for i := 0; i < n; i++ {
			bit := i * 6
			v := uint16(b[bit/8])
			if bit/8+1 < len(b) {
				v |= uint16(b[bit/8+1]) << 8
			}
			s = append(s, byte(v>>(uint(bit)%8))&0x3f+0x20)
		}
		return s, used, true
	default: // 00b "unicode" and 11b 8-bit ASCII + Latin-1: one byte per character; a count of 1 is reserved
		if n == 0 {
			return nil, 0, true
		}
		if len(b) < 2 || len(b) < n {
			return nil, 0, false
		}
		return append([]byte(nil), b[:n]...), n, true
	}
}

// c14RefDump returns the canonical field dump of the record, or false when the bytes are not a Full Sensor Record.
func c14RefDump(b []byte) (string, bool) {
	if len(b) < 43 {
		return "", false
	}
	str, used, ok := c14RefString(b[42], b[43:])
	if !ok {
		return "", false
	}
	m := c14Twos(uint16(b[19])|uint16(b[20]>>6)<<8, 10)
	bb := c14Twos(uint16(b[21])|uint16(b[22]>>6)<<8, 10)
	acc := c14Twos(uint16(b[22]&0x3f)|uint16(b[23]>>4)<<6, 10)
	rexp := c14Twos(uint16(b[24]>>4), 4)
	bexp := c14Twos(uint16(b[24]&0xf), 4)
	bit := func(x byte, n uint) string { return b2s(x>>n&1 == 1) }
	f := []string{
		"Contents=" + hx(b[:43+used]), "Payload=" + hx(b[43+used:]),
		fmt.Sprintf("OwnerAddress=%d", b[0]), fmt.Sprintf("Channel=%d", b[1]>>4), fmt.Sprintf("OwnerLUN=%d", b[1]&3),
		fmt.Sprintf("Number=%d", b[2]),
		fmt.Sprintf("M=%d", m), fmt.Sprintf("B=%d", bb), fmt.Sprintf("BExp=%d", bexp), fmt.Sprintf("RExp=%d", rexp),
		"IsContainerEntity=" + bit(b[4], 7), fmt.Sprintf("Entity=%d", b[3]), fmt.Sprintf("Instance=%d", b[4]&0x7f),
		"Ignore=" + bit(b[6], 7), fmt.Sprintf("SensorType=%d", b[7]), fmt.Sprintf("OutputType=%d", b[8]),
		fmt.Sprintf("AnalogDataFormat=%d", b[15]>>6), fmt.Sprintf("RateUnit=%d", b[15]>>3&7), "IsPercentage=" + bit(b[15], 0),
		fmt.Sprintf("BaseUnit=%d", b[16]), fmt.Sprintf("ModifierUnit=%d", b[17]), fmt.Sprintf("Linearisation=%d", b[18]&0x7f),
		fmt.Sprintf("Tolerance=%d", b[20]&0x3f), fmt.Sprintf("Accuracy=%d", acc), fmt.Sprintf("AccuracyExp=%d", b[23]>>2&3),
		fmt.Sprintf("Direction=%d", b[23]&3),
		"NominalReadingSpecified=" + bit(b[25], 0), "NormalMinSpecified=" + bit(b[25], 2), "NormalMaxSpecified=" + bit(b[25], 1),
		fmt.Sprintf("NominalReading=%d", b[26]), fmt.Sprintf("NormalMin=%d", b[28]), fmt.Sprintf("NormalMax=%d", b[27]),
		fmt.Sprintf("SensorMin=%d", b[30]), fmt.Sprintf("SensorMax=%d", b[29]), "Identity=" + hx(str),
	}
	return strings.Join(f, " "), true
}

// c14Reference: what retrieval has to return for a repository state
func c14Reference(recs []c14Rec) (map[uint16]string, bool) {
	out := map[uint16]string{}
	for _, r := range recs {
		if r.typ != 0x01 {
			continue
		}
		d, ok := c14RefDump(r.body)
		if !ok {
			return nil, false
		}
		out[r.id] = d
	}
	return out, true
}

func c14Render(m map[uint16]string) string {
	var ids []int
	for id := range m {
		ids = append(ids, int(id))
	}
	sort.Ints(ids)
	var parts []string
	for _, id := range ids {
		parts = append(parts, fmt.Sprintf("%d:%s", id, hx([]byte(m[uint16(id)]))))
	}
	if len(parts) == 0 {
		return "-"
	}
	return strings.Join(parts, ",")
}

type c14Result struct{ out, verdict string }

var c14Cache sync.Map // op text -> c14Result

func execSdr(a []string) (string, string) {
	key := strings.Join(a, " ")
	if v, ok := c14Cache.Load(key); ok {
		r := v.(c14Result)
		return r.out, r.verdict
	}
	o, v := c14Run(a)
	return o, v
}

func c14Run(a []string) (out string, verdict string) {
	if len(a) < 3 {
		return "bad-op", ""
	}
	recs, ok1 := c14ParseRepo(a[0])
	ev, ok2 := c14ParseEvent(a[1])
	if !ok1 || !ok2 {
		return "bad-op", ""
	}
	dev := &c14Device{recs: recs, ev: ev, maxReserves: atoi(a[2]) + 1, addTs: 0x5f000000, eraseTs: 0x5e000000}
	if len(a) > 3 && strings.HasPrefix(a[3], "ts=") {
		f := strings.Split(a[3][3:], "/")
		dev.addTs, dev.eraseTs = uint32(atoi(f[0])), uint32(atoi(f[1]))
	}
	sess, ctx, cancel, err := c14OpenSession(dev)
	if err != nil {
		return "handshake-failed", ""
	}
	defer cancel()
	dev.cancel = cancel
	var repo bmc.SDRRepository
	panicked := false
	func() {
		defer func() {
			if r := recover(); r != nil {
				panicked = true
			}
		}()
		repo, err = bmc.RetrieveSDRRepository(ctx, sess)
	}()
	if panicked {
		return "panic", "panic during retrieval"
	}
	if err != nil {
		// nothing returned: the property's demands are on what IS returned; whether an error is right here is
		// decided by the comparison with the specified outcome.
		// A FAILED retrieval is followed by a second one on the same session (the device's scripted events are over by now):
		// whatever that one returns must again be the Full Sensor Records of one state of the device — nothing of the failed
		// retrieval may survive into it (verdict only: the outcome text stays "err")
		if ctx.Err() == nil {
			var repo2 bmc.SDRRepository
			var err2 error
			func() {
				defer func() {
					if r := recover(); r != nil {
						err2 = fmt.Errorf("panic: %v", r)
					}
				}()
				repo2, err2 = bmc.RetrieveSDRRepository(ctx, sess)
			}()
			if err2 != nil && strings.HasPrefix(err2.Error(), "panic") {
				return "err", "second retrieval on the session after a failed one: " + err2.Error()
			}
			if err2 == nil && !dev.changedSinceReserve {
				if want, ok := c14Reference(dev.recs); ok {
					got2 := map[uint16]string{}
					for id, fsr := range repo2 {
						got2[uint16(id)] = dumpLayer(fsr, nil)
					}
					if c14Render(got2) != c14Render(want) {
						return "err", fmt.Sprintf("after a failed retrieval the next one on the same session returns %s, the device holds %s", c14Render(got2), c14Render(want))
					}
				}
			}
		}
		return "err", ""
	}
	got := map[uint16]string{}
	for id, fsr := range repo {
		got[uint16(id)] = dumpLayer(fsr, nil)
	}
	out = fmt.Sprintf("ok %s reqs=%d", c14Render(got), dev.reqs)

	// ---- reference verdict (independent of the model): the map equals the Full Sensor Records, decoded by the
	// reference decoder, that the device held at one instant — the state since the last Reserve —, each under its own ID
	if dev.changedSinceReserve {
		return out, "a map was returned although the repository was modified during the final walk"
	}
	want, ok := c14Reference(dev.recs)
	if !ok {
		return out, "a map was returned although a Full Sensor Record of the repository is not decodable"
	}
	for id, d := range want {
		g, present := got[id]
		switch {
		case !present:
			under := ""
			for k, v := range got {
				if v == d {
					under = fmt.Sprintf("; its decoding is returned under key %#04x", k)
				}
			}
			return out, fmt.Sprintf("record %#04x is missing from the returned map%s", id, under)
		case g != d:
			return out, fmt.Sprintf("record %#04x differs from the reference decoding: got %s want %s", id, g, d)
		}
	}
	for id := range got {
		if _, present := want[id]; !present {
			return out, fmt.Sprintf("the returned map has key %#04x, which is not the ID of a Full Sensor Record of the repository", id)
		}
	}
	return out, ""
}

// ---- generators ----

// c14FSRBody returns a Full Sensor Record key+body: 42 table bytes, type/length byte, string, then `extra` further
// bytes (a record may be longer than its defined fields)
func c14FSRBody(g *genCtx, enc, n, extra int) []byte {
	b := fsrFixed(g.rng)
	b = append(b, fsrString(g.rng, enc, n)...)
	return append(b, rbytes(g.rng, extra)...)
}

// c14RandomFSR draws encoding and length so that the body stays within the 64 bytes the library accepts
func c14RandomFSR(g *genCtx) []byte {
	for {
		enc := g.rng.Intn(4)
		n := fsrLen(g.rng, enc)
		var sl int
		switch enc {
		case 1:
			sl = (n + 1) / 2
		case 2:
			sl = n - n/4
		default:
			sl = n
		}
		if 43+sl > 64 {
			continue
		}
		extra := 0
		if g.rng.Intn(4) == 0 {
			extra = g.rng.Intn(64 - 43 - sl + 1)
		}
		return c14FSRBody(g, enc, n, extra)
	}
}

func c14OtherRec(g *genCtx) (byte, []byte) {
	typ := []byte{0x02, 0x11, 0x12, 0xC0, 0x08, 0x10}[g.rng.Intn(6)]
	if g.rng.Intn(3) == 0 { // any record type other than Full Sensor Record (01h), reserved and OEM values included
		typ = byte(2 + g.rng.Intn(254))
		if g.rng.Intn(8) == 0 {
			typ = 0
		}
	}
	n := g.rng.Intn(70)
	switch g.rng.Intn(8) {
	case 0:
		n = 0
	case 1:
		n = 255 // the longest a record can be
	case 2:
		n = 65 + g.rng.Intn(100)
	}
	return typ, rbytes(g.rng, n)
}

// c14Repo: n records, sparse unordered distinct IDs below FFFFh, 0000h only possible in front
func c14Repo(g *genCtx, n int, firstZero bool, pFull int) []c14Rec {
	used := map[uint16]bool{0: true, 0xffff: true}
	var recs []c14Rec
	for i := 0; i < n; i++ {
		var id uint16
		for {
			switch g.rng.Intn(4) {
			case 0:
				id = uint16(g.rng.Intn(64))
			case 1:
				id = uint16(0xfffe - g.rng.Intn(16))
			default:
				id = uint16(g.rng.Intn(0xffff))
			}
			if !used[id] {
				break
			}
		}
		if i == 0 && firstZero {
			id = 0
		}
		used[id] = true
		r := c14Rec{id: id}
		if g.rng.Intn(100) < pFull {
			r.typ, r.body = 0x01, c14RandomFSR(g)
		} else {
			r.typ, r.body = c14OtherRec(g)
		}
		recs = append(recs, r)
	}
	return recs
}

func c14RepoArg(recs []c14Rec) string {
	if len(recs) == 0 {
		return "-"
	}
	var p []string
	for _, r := range recs {
		p = append(p, r.String())
	}
	return strings.Join(p, ",")
}

func c14GetSDRs(recs []c14Rec) int {
	n := 0
	for _, r := range recs {
		n++
		if r.typ == 0x01 {
			n++
		}
	}
	return n
}

func c14FreshID(g *genCtx, recs []c14Rec) uint16 {
	for {
		id := uint16(1 + g.rng.Intn(0xfffe))
		clash := false
		for _, r := range recs {
			if r.id == id {
				clash = true
			}
		}
		if !clash {
			return id
		}
	}
}

func genSdr(g *genCtx) {
	var ops []Op
	add := func(class byte, nt bool, recs []c14Rec, ev string, retries int, extra ...string) {
		args := append([]string{c14RepoArg(recs), ev, itoa(retries)}, extra...)
		ops = append(ops, Op{Class: class, NonTrivial: nt, Kind: "sdr", Args: args})
	}
	// events before every Get SDR of the walk of `recs`, and one position past it (never reached)
	events := func(recs []c14Rec, every bool) {
		n := c14GetSDRs(recs)
		for k := 1; k <= n+1; k++ {
			if !every && g.rng.Intn(4) != 0 && k != 1 && k != n {
				continue
			}
			add('P', true, recs, fmt.Sprintf("lose@%d", k), 1)
			nr := c14Rec{id: c14FreshID(g, recs), typ: 0x01, body: c14RandomFSR(g)}
			if g.rng.Intn(3) == 0 {
				nr.typ, nr.body = c14OtherRec(g)
			}
			add('P', true, recs, fmt.Sprintf("add@%d=%s", k, nr), 1)
			if len(recs) > 1 {
				// deleting any record but the last keeps the repository non-empty and well formed only if a 0000h ID
				// does not move out of the first place — it cannot: deleting never moves a record forward past another
				victim := recs[g.rng.Intn(len(recs))]
				add('P', true, recs, fmt.Sprintf("del@%d=%d", k, victim.id), 1)
			}
		}
	}

	// 1. the known shapes: first ID zero / non-zero, a single record, only other types
	for _, fz := range []bool{true, false} {
		for _, n := range []int{1, 2, 3, 5} {
			recs := c14Repo(g, n, fz, 60)
			add('P', true, recs, "none", 0)
			events(recs, true)
		}
	}
	add('P', true, c14Repo(g, 4, false, 0), "none", 0) // no Full Sensor Record at all: the empty map
	// 2. every ID string encoding and length, bodies up to the maximum of 64 bytes, in first and later positions
	for enc := 0; enc < 4; enc++ {
		for n := 0; n < 32; n++ {
			if (enc == 0 || enc == 3) && n == 1 {
				continue
			}
			sl := n
			if enc == 1 {
				sl = (n + 1) / 2
			} else if enc == 2 {
				sl = n - n/4
			}
			body := c14FSRBody(g, enc, n, 0)
			cls := byte('P')
			if 43+sl > 64 {
				cls = 'M' // longer than the library's limit: it gives up; outside the theorem's domain
			}
			pad := 0
			if 43+sl < 64 && n%3 == 0 {
				pad = 64 - 43 - sl // filled up to exactly the maximum
				body = append(body, rbytes(g.rng, pad)...)
			}
			recs := []c14Rec{{id: uint16(1 + g.rng.Intn(0xfffe)), typ: 0x11, body: rbytes(g.rng, 11)}, {id: 0, typ: 1, body: body}}
			recs[1].id = c14FreshID(g, recs[:1])
			if n%2 == 0 {
				recs[0], recs[1] = recs[1], recs[0]
			}
			add(cls, true, recs, "none", 0)
		}
	}
	// 3. sizes 1…40 (thorough: every size, several times), mixed types, timestamps at the edges
	sizes := []int{1, 2, 4, 7, 12, 20, 33, 40}
	reps := 2
	if g.thorough() {
		sizes = nil
		for n := 1; n <= 40; n++ {
			sizes = append(sizes, n)
		}
		reps = 4
	}
	tsEdges := []string{"ts=0/0", "ts=4294967294/4294967294", "ts=2147483647/2147483648", "ts=1/4294967295"}
	for _, n := range sizes {
		for r := 0; r < reps; r++ {
			recs := c14Repo(g, n, g.rng.Intn(2) == 0, []int{50, 90, 10, 100}[r%4])
			add('P', true, recs, "none", 0, tsEdges[g.rng.Intn(len(tsEdges))])
			if r == 0 && (g.thorough() || n <= 7 || n == 40) {
				events(recs, g.thorough() || n <= 7)
			}
		}
	}
	// 4. an event that strikes again in the retry is not possible (one event per op), but the budget can be too
	//    small: the same events with no retry allowed end in an error
	for _, n := range []int{2, 5} {
		recs := c14Repo(g, n, false, 100)
		add('P', true, recs, "lose@2", 0)
		add('P', true, recs, fmt.Sprintf("del@1=%d", recs[0].id), 0)
	}
	// 5. outside the theorem's domain (correspondence only): an empty repository, a Full Sensor Record that is too
	//    long / too short / has a truncated string, a deletion that empties the repository
	add('M', true, nil, "none", 0)
	long := c14FSRBody(g, 3, 22, 0)
	add('M', true, []c14Rec{{id: 7, typ: 1, body: long}}, "none", 0)
	add('M', true, []c14Rec{{id: 7, typ: 1, body: long[:30]}}, "none", 0)
	add('M', true, []c14Rec{{id: 9, typ: 2, body: []byte{1}}, {id: 7, typ: 1, body: c14FSRBody(g, 3, 10, 0)[:47]}}, "none", 0)
	add('M', true, []c14Rec{{id: 7, typ: 1, body: nil}}, "none", 0)
	one := c14Repo(g, 1, false, 100)
	add('M', true, one, fmt.Sprintf("del@1=%d", one[0].id), 1)
	add('M', true, one, fmt.Sprintf("del@2=%d", one[0].id), 1)

	// execute concurrently, then emit in order (the executor finds the results in the cache)
	workers := 96
	var wg sync.WaitGroup
	ch := make(chan Op)
	for i := 0; i < workers; i++ {
		wg.Add(1)
		go func() {
			defer wg.Done()
			for op := range ch {
				func() {
					defer func() {
						if r := recover(); r != nil {
							c14Cache.Store(strings.Join(op.Args, " "), c14Result{"panic", fmt.Sprintf("panic: %v", r)})
						}
					}()
					o, v := c14Run(op.Args)
					c14Cache.Store(strings.Join(op.Args, " "), c14Result{o, v})
				}()
			}
		}()
	}
	for _, op := range ops {
		ch <- op
	}
	close(ch)
	wg.Wait()
	for _, op := range ops {
		g.emit(op)
		g.count("event:" + strings.SplitN(op.Args[1], "@", 2)[0])
	}
}
