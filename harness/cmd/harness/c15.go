package main

// C15 — sensor readings are converted with the specification's formula.
//
// op:  conv <full sensor record key+body, hex> <raw> <flags> [<completion code> <further response bytes, hex>]
//      (raw, flags, completion code in decimal; without the last two: code 0 and one further byte C0)
//
// The executor decodes the record with the real ipmi.FullSensorRecord, builds the real reader with
// bmc.NewSensorReader and calls Read on a real V2Session (opened once, against the reference BMC of sim.go
// through the verif transport hook) whose BMC answers Get Sensor Reading with <raw> <flags> <further bytes>.
//
// outcome (no floats):  kind=<linear|linearised:<n>|err-nonlinear|err-notanalog> [req=<sensor number>/<LUN>] val=<mantissa>e<exp10> num=<0|1>|err-unavailable|err-scanning|err|-
//   req   = the sensor number and LUN of the one Get Sensor Reading request the BMC received
//   num   = the float64 returned is a number (1) or NaN (0)
//   kind  = the reader type NewSensorReader returned; n = the key of linearisationLinearisers whose function the
//           reader holds (identified by code pointer)
//   val   = the canonical exact decimal of (M·x + B·10^K1)·10^K2 computed with math/big from the integers the
//           real code holds (the reader's ConversionFactors, the reading byte it decoded, parsed by the record's parser)
//
// verdict (independent of the Lean model; this is where floating point lives): a reference evaluation written
// from the specification's tables on the record BYTES — classification, status flags, and the exact rational
// value; the float64 the reader returned must be within rounding of it (linear part: 6 u relative to the terms'
// magnitudes, u = 2^-53; linearisation: 1e-12 relative to an independently computed L of the reader's own linear
// float64).

import (
	"context"
	"errors"
	"fmt"
	"math"
	"math/big"
	"reflect"
	"strings"
	"time"

	"github.com/cenkalti/backoff/v4"
	"github.com/gebn/bmc"
	"github.com/gebn/bmc/pkg/ipmi"
	"github.com/google/gopacket"
)

func init() {
	executors["conv"] = execConv
	scenarios["conv"] = genConv
}

// ---- the session the readers read through -------------------------------------------------------------------

type c15Req struct {
	netFn, lun, cmd byte
	data            []byte
}

type c15Env struct {
	t    *bmc.V2SessionlessTransport
	sess *bmc.V2Session
	sim  *simBMC
	recv []byte
	up   bool // handshake done
	cc   byte
	data []byte
	reqs []c15Req
}

func (e *c15Env) send(ctx context.Context, p []byte) ([]byte, error) {
	if e.up {
		if r, _ := e.sim.open(p); r != nil {
			e.reqs = append(e.reqs, c15Req{r.netFn, r.lun, r.cmd, append([]byte(nil), r.data...)})
		}
	}
	r := e.sim.handle(p)
	e.sim.log = e.sim.log[:0]
	if r == nil {
		return nil, errors.New("timeout")
	}
	for i := range e.recv { // the reused receive buffer holds stale bytes beyond the reply
		e.recv[i] = 0xEE
	}
	return e.recv[:copy(e.recv, r)], nil
}

var c15Cached *c15Env

func c15Session() *c15Env {
	if c15Cached != nil {
		return c15Cached
	}
	e := &c15Env{sim: newSimBMC([]byte(fixedPass), nil), recv: make([]byte, 512)}
	e.sim.dispatcher = func(netfn, cmd byte, data []byte) []byte {
		if netfn == 0x04 && cmd == 0x2d { // Sensor/Event, Get Sensor Reading
			return ipmiRsp(netfn, cmd, e.cc, e.data)
		}
		return ipmiRsp(netfn, cmd, 0xC1, nil) // invalid command
	}
	e.t = bmc.VerifNewV2SessionlessTransport(e.send, 200*time.Millisecond, &backoff.ZeroBackOff{})
	ctx, cancel := context.WithTimeout(context.Background(), 10*time.Second)
	defer cancel()
	sess, err := e.t.NewV2Session(ctx, &bmc.V2SessionOpts{
		SessionOpts: bmc.SessionOpts{Username: fixedUser, Password: []byte(fixedPass), MaxPrivilegeLevel: ipmi.PrivilegeLevelAdministrator},
		CipherSuites: []ipmi.CipherSuite{{AuthenticationAlgorithm: ipmi.AuthenticationAlgorithmHMACSHA1,
			IntegrityAlgorithm: ipmi.IntegrityAlgorithmHMACSHA196, ConfidentialityAlgorithm: ipmi.ConfidentialityAlgorithmAESCBC128}},
	})
	if err != nil {
		panic("c15: cannot open a session with the reference BMC: " + err.Error())
	}
	e.sess, e.up = sess, true
	c15Cached = e
	return e
}

// ---- reference evaluation from the specification's tables (on the record bytes) ------------------------------

func c15Twos(v uint, bits uint) int64 {
	if v&(1<<(bits-1)) != 0 {
		return int64(v) - int64(1)<<bits
	}
	return int64(v)
}

type c15Spec struct {
	fmtCode, lin byte
	m, b, k1, k2 int64
	number, lun  byte
}

// Table 43-1, offsets from the start of the record key (byte 6 of the SDR)
func c15ParseRecord(body []byte) c15Spec {
	return c15Spec{
		fmtCode: body[15] >> 6,
		lin:     body[18] & 0x7f,
		m:       c15Twos(uint(body[19])|uint(body[20]>>6)<<8, 10),
		b:       c15Twos(uint(body[21])|uint(body[22]>>6)<<8, 10),
		k2:      c15Twos(uint(body[24]>>4), 4),
		k1:      c15Twos(uint(body[24]&0xf), 4),
		number:  body[2],
		lun:     body[1] & 3,
	}
}

func c15Raw(fmtCode, raw byte) int64 {
	switch fmtCode {
	case 0:
		return int64(raw)
	case 1: // 1's complement: 80h…FFh are −127…−0
		if raw&0x80 != 0 {
			return -int64(^raw)
		}
		return int64(raw)
	default:
		return c15Twos(uint(raw), 8)
	}
}

func c15Pow10(k int64) *big.Rat {
	a := k
	if a < 0 {
		a = -a
	}
	p := new(big.Int).Exp(big.NewInt(10), big.NewInt(a), nil)
	if k < 0 {
		return new(big.Rat).SetFrac(big.NewInt(1), p)
	}
	return new(big.Rat).SetInt(p)
}

// (M·x + B·10^K1)·10^K2, exactly; and the sum of the magnitudes of its two terms, scaled alike
func c15Exact(m, b, k1, k2, x int64) (val, mag *big.Rat) {
	mx := new(big.Rat).SetInt64(m * x)
	bk := new(big.Rat).Mul(new(big.Rat).SetInt64(b), c15Pow10(k1))
	val = new(big.Rat).Mul(new(big.Rat).Add(mx, bk), c15Pow10(k2))
	mag = new(big.Rat).Mul(new(big.Rat).Add(new(big.Rat).Abs(mx), new(big.Rat).Abs(bk)), c15Pow10(k2))
	return
}

// canonical decimal of a rational with a power-of-ten denominator: no trailing zero in the mantissa, 0 = 0e0
func c15Decimal(r *big.Rat) string {
	if r.Sign() == 0 {
		return "0e0"
	}
	e := 0
	n := new(big.Rat).Set(r)
	ten := new(big.Rat).SetInt64(10)
	for !n.IsInt() {
		n.Mul(n, ten)
		e--
		if e < -64 {
			return "not-decimal"
		}
	}
	m := new(big.Int).Set(n.Num())
	q, rem, t := new(big.Int), new(big.Int), big.NewInt(10)
	for {
		q.QuoRem(m, t, rem)
		if rem.Sign() != 0 {
			break
		}
		m.Set(q)
		e++
	}
	return fmt.Sprintf("%se%d", m.String(), e)
}

// the eleven functions, each through a routine other than the one linearisation.go calls
func c15RefL(n int, x float64) float64 {
	switch n {
	case 1, 2, 3:
		ln := math.Log2(x) * math.Ln2
		if x >= 0.5 && x <= 2 {
			ln = math.Log1p(x - 1) // x − 1 is exact here
		}
		return ln / []float64{0, 1, math.Ln10, math.Ln2}[n]
	case 4:
		return math.Exp2(x * math.Log2E)
	case 5:
		return math.Exp(x * math.Ln10)
	case 6:
		return math.Exp(x * math.Ln2)
	case 7:
		return 1 / x
	case 8:
		return x * x
	case 9:
		return x * x * x
	case 10:
		if x < 0 {
			return math.NaN()
		}
		f, _ := new(big.Float).SetPrec(120).Sqrt(new(big.Float).SetPrec(120).SetFloat64(x)).Float64()
		return f
	case 11:
		return math.Cbrt(x)
	}
	return math.NaN()
}

var c15Names = []string{"identity", "ln", "log10", "log2", "e^x", "10^x", "2^x", "1/x", "x^2", "x^3", "sqrt", "cube root"}

// is L defined (as a real function) at v?
func c15Defined(n int, v float64) bool {
	switch n {
	case 1, 2, 3:
		return v > 0
	case 7:
		return v != 0
	case 10:
		return v >= 0
	}
	return true
}

// abs: slack for the logarithms, whose value near 1 moves by δ/ln(b) when the argument moves by its rounding δ
func c15Close(got, ref, abs float64) bool {
	switch {
	case math.IsNaN(got) || math.IsNaN(ref):
		return math.IsNaN(got) && math.IsNaN(ref)
	case got == ref:
		return true
	case math.Abs(ref) > 1e300 || math.IsInf(got, 0): // at the edge of the range either routine may overflow first
		return math.Abs(got) > 1e299 && math.Abs(ref) > 1e299 && (got > 0) == (ref > 0)
	case math.Abs(ref) < 1e-300:
		return math.Abs(got) < 1e-299
	}
	return math.Abs(got-ref) <= 1e-12*math.Abs(ref)+abs
}

// worst linear-part error seen, in thousandths of u·(|M·x|+|B·10^K1|)·10^K2
var c15WorstLinear int64

func c15LinearCheck(got float64, exact, mag *big.Rat) string {
	if math.IsNaN(got) || math.IsInf(got, 0) {
		return fmt.Sprintf("linear part is %v, exactly %s", got, c15Decimal(exact))
	}
	diff := new(big.Rat).Sub(new(big.Rat).SetFloat64(got), exact)
	diff.Abs(diff)
	if diff.Sign() == 0 {
		return ""
	}
	u := new(big.Rat).SetFrac(big.NewInt(1), new(big.Int).Lsh(big.NewInt(1), 53))
	unit := new(big.Rat).Mul(u, mag)
	if unit.Sign() == 0 {
		return fmt.Sprintf("linear part is %v, exactly 0", got)
	}
	ratio, _ := new(big.Rat).Quo(diff, unit).Float64()
	if r := int64(ratio * 1000); r > c15WorstLinear {
		c15WorstLinear = r
	}
	if ratio > 6 {
		return fmt.Sprintf("linear part %v is %.3g u away from the exact %s (u relative to the terms' magnitudes)", got, ratio, c15Decimal(exact))
	}
	return ""
}

func c15LineariserKey(code uintptr) int {
	for k := 0; k < 256; k++ {
		if l, err := ipmi.Linearisation(k).Lineariser(); err == nil && reflect.ValueOf(l).Pointer() == code {
			return k
		}
	}
	return -1
}

// one Read through the session with the BMC serving (cc, data); returns the requests the BMC saw
func c15Read(rd bmc.SensorReader, cc byte, data []byte) (float64, error, []c15Req) {
	e := c15Session()
	e.cc, e.data, e.reqs = cc, data, nil
	ctx, cancel := context.WithTimeout(context.Background(), 2*time.Second)
	defer cancel()
	v, err := rd.Read(ctx, e.sess)
	return v, err, e.reqs
}

func execConv(a []string) (string, string) {
	body := unhx(a[0])
	raw, fl := byte(atoi(a[1])), byte(atoi(a[2]))
	cc, extra := byte(0), []byte{0xc0}
	if len(a) >= 5 {
		cc, extra = byte(atoi(a[3])), unhx(a[4])
	}
	data := append([]byte{raw, fl}, extra...)

	var rec ipmi.FullSensorRecord
	if err := rec.DecodeFromBytes(window(body, nil), gopacket.NilDecodeFeedback); err != nil {
		return "rec-err", "" // the decoders are C07's subject
	}
	sp := c15ParseRecord(body)
	refuse := sp.lin >= 12 || sp.fmtCode == 3

	rd, err := bmc.NewSensorReader(&rec)
	if err != nil {
		kind := "err-other"
		switch {
		case strings.HasPrefix(err.Error(), "unsupported sensor linearisation"):
			kind = "err-nonlinear"
		case strings.HasPrefix(err.Error(), "no analog data format parser"):
			kind = "err-notanalog"
		case errors.Is(err, ipmi.ErrNotLinearised):
			kind = "err-notlinearised"
		}
		out := "kind=" + kind + " val=-"
		if !refuse {
			return out, fmt.Sprintf("no reader for linearisation %d, analog format %d: the record is convertible", sp.lin, sp.fmtCode)
		}
		return out, ""
	}

	// which reader, holding which function and which integers
	rv := reflect.ValueOf(rd).Elem()
	lr, kind, n := rv, "linear", 0
	switch rv.Type().Name() {
	case "linearSensorReader":
	case "linearisedSensorReader":
		lr = rv.FieldByName("linearReader").Elem()
		n = c15LineariserKey(rv.FieldByName("lineariser").Elem().Pointer())
		kind = fmt.Sprintf("linearised:%d", n)
	default:
		kind = "other:" + rv.Type().Name()
	}

	// warm-up reads (sixth argument: raw bytes, hex): the measured Read is then the reader's (k+1)-th — a reader must
	// convert its hundredth reading as it converts its first
	if len(a) >= 6 {
		for _, w := range unhx(a[5]) {
			// most warm-up reads succeed; some FAIL — a refused command (completion code CBh), a reading marked unavailable, a
			// response too short to decode: the read after a failed read converts like any other
			switch w % 7 {
			case 0:
				c15Read(rd, 0xCB, nil)
			case 1:
				c15Read(rd, 0, []byte{w, 0x60, 0xc0})
			case 2:
				c15Read(rd, 0, []byte{w})
			default:
				c15Read(rd, 0, []byte{w, 0x40, 0xc0})
			}
		}
	}
	val, rerr, reqs := c15Read(rd, cc, data)
	var valS string
	var linF float64
	var linOK bool
	switch {
	case rerr == nil:
		f := lr.FieldByName("factors")
		parser, perr := rec.AnalogDataFormat.Parser()
		if perr != nil {
			valS = "no-parser"
			break
		}
		if reflect.ValueOf(parser).Pointer() != lr.FieldByName("parser").Elem().Pointer() {
			valS = "other-parser"
			break
		}
		x := int64(parser.Parse(byte(lr.FieldByName("readingCmd").FieldByName("Rsp").FieldByName("Reading").Uint())))
		ex, _ := c15Exact(f.FieldByName("M").Int(), f.FieldByName("B").Int(), f.FieldByName("BExp").Int(), f.FieldByName("RExp").Int(), x)
		valS = c15Decimal(ex) + " num=" + b2s(!math.IsNaN(val))
		// the LINEAR float64 the code computed (for a linearised reader: a linear reader built from the same record), as
		// the exact rational it is: compared bit for bit with the model's binary64 evaluation of the same five roundings
		linF, linOK = val, true
		if kind != "linear" {
			rec2 := rec
			rec2.Linearisation = ipmi.LinearisationLinear
			linOK = false
			if rd2, err := bmc.NewSensorReader(&rec2); err == nil {
				if lf, err2, _ := c15Read(rd2, cc, data); err2 == nil {
					linF, linOK = lf, true
				}
			}
		}
		if linOK && !math.IsNaN(linF) && !math.IsInf(linF, 0) {
			q := new(big.Rat).SetFloat64(linF)
			valS += fmt.Sprintf(" ~lin=%s/%s", q.Num().String(), q.Denom().String())
		} else {
			valS += " ~lin=?"
		}
		// the four linearisations computed with correctly rounded operations only (1/x, x², x³, √x): the float64 returned, as the
		// exact rational it is, compared bit for bit with the model's binary64 evaluation
		if n == 7 || n == 8 || n == 9 || n == 10 {
			switch {
			case math.IsInf(val, 1):
				valS += " ~nl=inf"
			case math.IsInf(val, -1):
				valS += " ~nl=-inf"
			case math.IsNaN(val):
				valS += " ~nl=nan"
			default:
				q := new(big.Rat).SetFloat64(val)
				valS += fmt.Sprintf(" ~nl=%s/%s", q.Num().String(), q.Denom().String())
			}
		}
	case errors.Is(rerr, bmc.ErrSensorReadingUnavailable):
		valS = "err-unavailable"
	case errors.Is(rerr, bmc.ErrSensorScanningDisabled):
		valS = "err-scanning"
	default:
		valS = "err"
	}
	reqS := "?"
	if len(reqs) == 1 && len(reqs[0].data) == 1 {
		reqS = fmt.Sprintf("%d/%d", reqs[0].data[0], reqs[0].lun)
	}
	out := "kind=" + kind + " req=" + reqS + " val=" + valS

	// ---- reference verdicts ----
	if refuse {
		return out, fmt.Sprintf("a reader was built for linearisation %d, analog format %d", sp.lin, sp.fmtCode)
	}
	wantKind := "linear"
	if sp.lin != 0 {
		wantKind = fmt.Sprintf("linearised:%d", sp.lin)
	}
	if kind != wantKind {
		return out, fmt.Sprintf("reader is %s, the record's linearisation code %d calls for %s", kind, sp.lin, wantKind)
	}
	if len(reqs) != 1 || reqs[0].netFn != 0x04 || reqs[0].cmd != 0x2d || reqs[0].lun != sp.lun || len(reqs[0].data) != 1 || reqs[0].data[0] != sp.number {
		return out, fmt.Sprintf("the BMC saw %v, want one Get Sensor Reading for sensor %d on LUN %d", reqs, sp.number, sp.lun)
	}
	if cc != 0 || len(data) < 3 {
		if rerr == nil {
			return out, fmt.Sprintf("a value was returned although the command failed (completion code %#x, %d data bytes)", cc, len(data))
		}
		return out, ""
	}
	switch {
	case fl&0x20 != 0:
		if valS != "err-unavailable" {
			return out, "reading/state unavailable (bit 5) is set: want ErrSensorReadingUnavailable"
		}
		return out, ""
	case fl&0x40 == 0:
		if valS != "err-scanning" {
			return out, "sensor scanning disabled (bit 6 clear): want ErrSensorScanningDisabled"
		}
		return out, ""
	}
	if rerr != nil {
		return out, "an error was returned although the reading is available and scanning enabled: " + valS
	}
	x := c15Raw(sp.fmtCode, raw)
	exact, mag := c15Exact(sp.m, sp.b, sp.k1, sp.k2, x)
	if want := c15Decimal(exact); strings.Fields(valS)[0] != want {
		return out, fmt.Sprintf("the integers the reader holds give %s, the record's bytes give %s", valS, want)
	}
	if sp.lin == 0 {
		return out, c15LinearCheck(val, exact, mag)
	}
	// the linear float64 the same code computes: a second reader from the same record with the linearisation cleared
	if !linOK {
		return out, "no linear reader for the same record, or it failed"
	}
	lf := linF
	if v := c15LinearCheck(lf, exact, mag); v != "" {
		return out, v
	}
	ev, _ := exact.Float64()
	if !c15Defined(int(sp.lin), ev) {
		// L is not defined at this argument: there is no number to return
		if !math.IsNaN(val) && !math.IsInf(val, 0) {
			return out, fmt.Sprintf("%s of %v returned the finite number %v", c15Names[sp.lin], lf, val)
		}
		return out, ""
	}
	if (lf > 0) != (exact.Sign() > 0) || (lf < 0) != (exact.Sign() < 0) {
		return out, fmt.Sprintf("the linear float64 %v has not the sign of the exact value %s", lf, c15Decimal(exact))
	}
	abs := 0.0
	if sp.lin <= 3 {
		abs = 1e-15
	}
	if ref := c15RefL(int(sp.lin), lf); !c15Close(val, ref, abs) {
		return out, fmt.Sprintf("%s: the reader returned %v for %v, an independent evaluation gives %v", c15Names[sp.lin], val, lf, ref)
	}
	return out, ""
}

// ---- generator ---------------------------------------------------------------------------------------------------

// c15Record builds a well-formed record (reserved bits zero, valid ID string) with the given conversion fields
func c15Record(g *genCtx, fmtCode, lin int, m, b, k1, k2 int) []byte {
	body := fsrFixed(g.rng)
	body[15] = body[15]&0x3f | byte(fmtCode)<<6
	body[18] = byte(lin) & 0x7f
	m10, b10 := uint(m)&0x3ff, uint(b)&0x3ff
	body[19], body[20] = byte(m10), body[20]&0x3f|byte(m10>>8)<<6
	body[21], body[22] = byte(b10), body[22]&0x3f|byte(b10>>8)<<6
	body[24] = byte(k2&0xf)<<4 | byte(k1&0xf)
	enc, n := 3, g.rng.Intn(4)
	if g.rng.Intn(8) == 0 {
		enc = g.rng.Intn(4)
		n = fsrLen(g.rng, enc)
	}
	if (enc == 0 || enc == 3) && n == 1 {
		n = 2
	}
	return append(body, fsrString(g.rng, enc, n)...)
}

func genConv(g *genCtx) {
	rng := g.rng
	emit := func(cls byte, body []byte, raw, fl int, more ...string) {
		nt := false
		if sp := c15ParseRecord(append(append([]byte(nil), body...), make([]byte, 43)...)); true {
			nt = cls == 'P' && sp.lin < 12 && sp.fmtCode != 3 && fl&0x20 == 0 && fl&0x40 != 0 && len(more) == 0
		}
		g.emit(Op{Class: cls, NonTrivial: nt, Kind: "conv", Args: append([]string{hx(body), itoa(raw), itoa(fl)}, more...)})
		// one op in six again with 3…7 warm-up reads of other raw values first (the reader's later reads)
		if len(more) == 0 && rng.Intn(6) == 0 {
			w := rbytes(rng, 3+rng.Intn(5))
			if rng.Intn(3) == 0 {
				w[rng.Intn(len(w))] = byte(raw)
			}
			g.emit(Op{Class: cls, NonTrivial: nt, Kind: "conv", Args: []string{hx(body), itoa(raw), itoa(fl), "0", "c0", hx(w)}})
		}
	}
	valid := func() int { return 0x40 | rng.Intn(2)<<7 | rng.Intn(32) } // scanning enabled, reading available; the other bits free
	rnd10 := func() int { return rng.Intn(1024) - 512 }
	rnd4 := func() int { return rng.Intn(16) - 8 }
	bound10 := []int{-512, -1, 0, 1, 511}
	bound4 := []int{-8, -1, 0, 1, 7}

	// 1. exhaustive 256 raw bytes × 3 analog formats × 12 functions, for several factor sets: one that keeps most
	//    arguments inside the functions' ranges, the DESIGN's sample, and random ones
	sets := [][4]int{{1, 1, 0, -1}, {-3, 7, 2, -1}, {rnd10(), rnd10(), rnd4(), rnd4()}}
	extra := 1
	if g.thorough() {
		extra = 18
	}
	for i := 0; i < extra; i++ {
		sets = append(sets, [4]int{rnd10(), rnd10(), rnd4(), rnd4()})
	}
	for _, s := range sets {
		for lin := 0; lin < 12; lin++ {
			for f := 0; f < 3; f++ {
				body := c15Record(g, f, lin, s[0], s[1], s[2], s[3])
				for raw := 0; raw < 256; raw++ {
					emit('P', body, raw, valid())
				}
			}
		}
	}
	// 2. boundary-complete factors: every combination of {min, −1, 0, 1, max} for M, B, K1, K2 × 3 formats ×
	//    functions × boundary raw bytes (thorough: all 12 functions, 16 raw bytes; quick: identity + one function, 6)
	raws := []int{0x00, 0x01, 0x7f, 0x80, 0xff}
	for _, m := range bound10 {
		for _, b := range bound10 {
			for _, k1 := range bound4 {
				for _, k2 := range bound4 {
					for f := 0; f < 3; f++ {
						lins := []int{0, 1 + rng.Intn(11)}
						if g.thorough() {
							lins = []int{0, 1, 2, 3, 4, 5, 6, 7, 8, 9, 10, 11}
						}
						for _, lin := range lins {
							body := c15Record(g, f, lin, m, b, k1, k2)
							if g.thorough() && lin == 0 { // the linear formula: all 256 raw bytes for every boundary factor set
								for raw := 0; raw < 256; raw++ {
									emit('P', body, raw, valid())
								}
								continue
							}
							rs := append([]int(nil), raws...)
							more := 1
							if g.thorough() {
								rs = append(rs, 0x02, 0x7e, 0x81, 0xfe)
								more = 7
							}
							for i := 0; i < more; i++ {
								rs = append(rs, rng.Intn(256))
							}
							for _, raw := range rs {
								emit('P', body, raw, valid())
							}
						}
					}
				}
			}
		}
	}
	// 3. random everything
	n := 4000
	if g.thorough() {
		n = 120000
	}
	for i := 0; i < n; i++ {
		emit('P', c15Record(g, rng.Intn(3), rng.Intn(12), rnd10(), rnd10(), rnd4(), rnd4()), rng.Intn(256), valid())
	}
	// 4. every flags byte, for a linear and a linearised reader of each format
	for f := 0; f < 3; f++ {
		for _, lin := range []int{0, 1 + rng.Intn(11)} {
			body := c15Record(g, f, lin, rnd10(), rnd10(), rnd4(), rnd4())
			for fl := 0; fl < 256; fl++ {
				emit('P', body, rng.Intn(256), fl)
			}
		}
	}
	// 5. refusals: every non-linear / reserved code with every format, format 3 with every convertible code; a
	//    reserved bit 7 in the linearisation byte (masked by the decoder) is correspondence only
	for lin := 12; lin < 128; lin++ {
		for f := 0; f < 4; f++ {
			emit('P', c15Record(g, f, lin, rnd10(), rnd10(), rnd4(), rnd4()), rng.Intn(256), rng.Intn(256))
		}
	}
	for lin := 0; lin < 12; lin++ {
		emit('P', c15Record(g, 3, lin, rnd10(), rnd10(), rnd4(), rnd4()), rng.Intn(256), rng.Intn(256))
	}
	for lin := 0; lin < 128; lin += 1 + rng.Intn(5) {
		body := c15Record(g, rng.Intn(4), lin, rnd10(), rnd10(), rnd4(), rnd4())
		body[18] |= 0x80
		emit('M', body, rng.Intn(256), valid())
	}
	// 6. failed commands and other response lengths: non-normal completion codes (not the two the session layer
	//    retries), two bytes of data (too short), four and more (discrete-style)
	for _, cc := range []int{0xC1, 0xC9, 0xCB, 0xCC, 0xD5, 0xFF, 0x80, 0x01} {
		for _, fl := range []int{0x40, 0x20, 0x00, 0xe0} {
			emit('M', c15Record(g, rng.Intn(3), rng.Intn(12), rnd10(), rnd10(), rnd4(), rnd4()), rng.Intn(256), fl, itoa(cc), "c0")
		}
	}
	for _, ex := range []string{"-", "c080", "c08000", "00", "ff", "c0805566"} {
		for _, fl := range []int{0x40, 0xc0, 0x20, 0x00, 0x60} {
			cls := byte('P')
			if ex == "-" {
				cls = 'M'
			}
			emit(cls, c15Record(g, rng.Intn(3), rng.Intn(12), rnd10(), rnd10(), rnd4(), rnd4()), rng.Intn(256), fl, "0", ex)
		}
	}
	// 7. malformed records: every length below the minimum, a truncated ID string, an undecodable one
	base := c15Record(g, 1, 4, 5, -6, 1, -2)
	for l := 0; l < 43; l += 1 + rng.Intn(4) {
		emit('M', base[:l], rng.Intn(256), valid())
	}
	long := append(fsrFixed(rng), fsrString(rng, 3, 9)...)
	emit('M', long[:len(long)-1], rng.Intn(256), valid())
	emit('M', long[:44], rng.Intn(256), valid())
	g.stat["worst_linear_error_milli_u"] = int(c15WorstLinear)
}
