package main

// C06: requests are encoded exactly as the IPMI and DCMI specifications define.
//
//   enc <layer> <field values…>            the bytes of the layer's SerializeTo (hex) or err
//   pkt <netfn> <cmd> <body> <ent> <lun> <bodyhex>
//                                          the datagram V2SessionlessTransport.SendCommand transmits for a raw command
//   pktcmd <name> <field values…>          the datagram(s) transmitted by a call of the library's high-level API
//
// Besides the outcome compared with the Lean model, every executor applies a reference parser written here from the
// specification tables (nothing of the library is used to read the bytes back) and reports when it does not recover
// the caller's field values.

import (
	"bytes"
	"context"
	"crypto/rand"
	"encoding/binary"
	"errors"
	"fmt"
	"io"
	"strconv"
	"strings"
	"time"

	"github.com/cenkalti/backoff/v4"
	"github.com/gebn/bmc"
	"github.com/gebn/bmc/pkg/dcmi"
	"github.com/gebn/bmc/pkg/iana"
	"github.com/gebn/bmc/pkg/ipmi"
	"github.com/google/gopacket"
)

func init() {
	executors["enc"] = execEnc
	executors["pkt"] = execPkt
	executors["pktcmd"] = execPktCmd
	scenarios["enc"] = genEnc
}

// ---------------------------------------------------------------------------------------------------------
// building the library's request layers from positional field values

func c06Int(s string) int64 {
	n, err := strconv.ParseInt(s, 10, 64)
	if err != nil {
		panic("bad int in op: " + s)
	}
	return n
}

// c06Layer returns the request layer for an `enc`/`pktcmd` argument list
func c06Layer(layer string, a []string) gopacket.SerializableLayer {
	n := func(i int) int { return int(c06Int(a[i])) }
	switch layer {
	case "authcaps":
		return &ipmi.GetChannelAuthenticationCapabilitiesReq{ExtendedData: n(0) == 1, Channel: ipmi.Channel(n(1)), MaxPrivilegeLevel: ipmi.PrivilegeLevel(n(2))}
	case "ciphersuites":
		return &ipmi.GetChannelCipherSuitesReq{Channel: ipmi.Channel(n(0)), PayloadType: ipmi.PayloadType(n(1)), ListIndex: uint8(n(2))}
	case "sessioninfo":
		return &ipmi.GetSessionInfoReq{Index: ipmi.SessionIndex(n(0)), Handle: ipmi.SessionHandle(n(1)), ID: uint32(n(2))}
	case "setpriv":
		return &ipmi.SetSessionPrivilegeLevelReq{PrivilegeLevel: ipmi.PrivilegeLevel(n(0))}
	case "closesession":
		return &ipmi.CloseSessionReq{ID: uint32(n(0)), Handle: ipmi.SessionHandle(n(1))}
	case "chassisctl":
		return &ipmi.ChassisControlReq{ChassisControl: ipmi.ChassisControl(uint(c06Int(a[0])))}
	case "getsdr":
		return &ipmi.GetSDRReq{ReservationID: ipmi.ReservationID(n(0)), RecordID: ipmi.RecordID(n(1)), Offset: uint8(n(2)), Length: uint8(n(3))}
	case "sensorreading":
		return &ipmi.GetSensorReadingReq{Number: uint8(n(0))}
	case "opensession":
		return &ipmi.OpenSessionReq{Tag: uint8(n(0)), MaxPrivilegeLevel: ipmi.PrivilegeLevel(n(1)), SessionID: uint32(n(2)),
			AuthenticationPayload:  ipmi.AuthenticationPayload{Wildcard: n(3) == 1, Algorithm: ipmi.AuthenticationAlgorithm(n(4))},
			IntegrityPayload:       ipmi.IntegrityPayload{Wildcard: n(5) == 1, Algorithm: ipmi.IntegrityAlgorithm(n(6))},
			ConfidentialityPayload: ipmi.ConfidentialityPayload{Wildcard: n(7) == 1, Algorithm: ipmi.ConfidentialityAlgorithm(n(8))}}
	case "rakp1":
		r := &ipmi.RAKPMessage1{Tag: uint8(n(0)), ManagedSystemSessionID: uint32(n(1)), PrivilegeLevelLookup: n(3) == 1,
			MaxPrivilegeLevel: ipmi.PrivilegeLevel(n(4)), Username: string(unhx(a[5]))}
		copy(r.RemoteConsoleRandom[:], unhx(a[2]))
		return r
	case "rakp3":
		return &ipmi.RAKPMessage3{Tag: uint8(n(0)), Status: ipmi.StatusCode(n(1)), ManagedSystemSessionID: uint32(n(2)), AuthCode: unhx(a[3])}
	case "dcmicaps":
		return &dcmi.GetDCMICapabilitiesInfoReq{Parameter: dcmi.CapabilitiesParameter(n(0))}
	case "powerreading":
		return &dcmi.GetPowerReadingReq{Mode: dcmi.SystemPowerStatisticsMode(n(0)), Period: time.Duration(c06Int(a[1]))}
	case "dcmisensorinfo":
		return &dcmi.GetDCMISensorInfoReq{Type: ipmi.SensorType(n(0)), Entity: ipmi.EntityID(n(1)), Instance: ipmi.EntityInstance(n(2)), InstanceStart: uint8(n(3))}
	}
	return nil
}

// ---------------------------------------------------------------------------------------------------------
// the reference: what the specification's tables say a BMC reads from the bytes (written from DESIGN.md Appendix H;
// reserved bits must be zero). Every parser renders the fields as "name=value …" so that it can be compared with the
// rendering of the caller's values by c06Want.

func c06RefBody(layer string, b []byte) (string, bool) {
	le32 := func(x []byte) uint32 { return uint32(x[0]) | uint32(x[1])<<8 | uint32(x[2])<<16 | uint32(x[3])<<24 }
	le16 := func(x []byte) int { return int(x[0]) | int(x[1])<<8 }
	switch layer {
	case "authcaps": // 22.13: [0] 7 v2.0 data, 6:4 rsvd, 3:0 channel; [1] 7:4 rsvd, 3:0 privilege
		if len(b) != 2 || b[0]&0x70 != 0 || b[1]&0xf0 != 0 {
			return "", false
		}
		return fmt.Sprintf("v2=%d ch=%d priv=%d", b[0]>>7, b[0]&0x0f, b[1]&0x0f), true
	case "ciphersuites": // 22.15: channel 3:0; payload type 5:0; [2] 7 list by suite, 6 rsvd, 5:0 index
		if len(b) != 3 || b[0]&0xf0 != 0 || b[1]&0xc0 != 0 || b[2]&0x40 != 0 {
			return "", false
		}
		return fmt.Sprintf("ch=%d pt=%d bysuite=%d idx=%d", b[0]&0x0f, b[1]&0x3f, b[2]>>7, b[2]&0x3f), true
	case "sessioninfo": // 22.20
		switch {
		case len(b) == 1 && b[0] != 0xfe && b[0] != 0xff:
			return fmt.Sprintf("index=%d", b[0]), true
		case len(b) == 2 && b[0] == 0xfe:
			return fmt.Sprintf("handle=%d", b[1]), true
		case len(b) == 5 && b[0] == 0xff:
			return fmt.Sprintf("id=%d", le32(b[1:])), true
		}
		return "", false
	case "setpriv", "chassisctl": // 22.18, 28.3: one byte, 7:4 rsvd
		if len(b) != 1 || b[0]&0xf0 != 0 {
			return "", false
		}
		return fmt.Sprintf("v=%d", b[0]&0x0f), true
	case "closesession": // 22.19
		switch {
		case len(b) == 4 && le32(b) != 0:
			return fmt.Sprintf("id=%d", le32(b)), true
		case len(b) == 5 && le32(b) == 0:
			return fmt.Sprintf("handle=%d", b[4]), true
		}
		return "", false
	case "getsdr": // 33.12
		if len(b) != 6 {
			return "", false
		}
		return fmt.Sprintf("res=%d rec=%d off=%d len=%d", le16(b), le16(b[2:]), b[4], b[5]), true
	case "sensorreading", "dcmicaps":
		if len(b) != 1 {
			return "", false
		}
		return fmt.Sprintf("v=%d", b[0]), true
	case "opensession": // 13.17
		if len(b) != 32 || b[1]&0xf0 != 0 || b[2] != 0 || b[3] != 0 {
			return "", false
		}
		out := fmt.Sprintf("tag=%d priv=%d sid=%d", b[0], b[1]&0x0f, le32(b[4:]))
		for i := 0; i < 3; i++ {
			p := b[8+8*i : 16+8*i]
			if p[0] != byte(i) || p[1] != 0 || p[2] != 0 || p[5] != 0 || p[6] != 0 || p[7] != 0 {
				return "", false
			}
			switch {
			case p[3] == 0 && p[4] == 0:
				out += " alg=*"
			case p[3] == 8 && p[4]&0xc0 == 0:
				out += fmt.Sprintf(" alg=%d", p[4])
			default:
				return "", false
			}
		}
		return out, true
	case "rakp1": // 13.20
		if len(b) < 28 || b[1] != 0 || b[2] != 0 || b[3] != 0 || b[24]&0xe0 != 0 || b[25] != 0 || b[26] != 0 || b[27] > 16 || len(b) != 28+int(b[27]) {
			return "", false
		}
		return fmt.Sprintf("tag=%d sid=%d rm=%x nameonly=%d priv=%d user=%x", b[0], le32(b[4:]), b[8:24], b[24]>>4&1, b[24]&0x0f, b[28:]), true
	case "rakp3": // 13.22
		if len(b) < 8 || b[2] != 0 || b[3] != 0 || (b[1] != 0 && len(b) != 8) {
			return "", false
		}
		return fmt.Sprintf("tag=%d status=%d sid=%d code=%x", b[0], b[1], le32(b[4:]), b[8:]), true
	case "powerreading": // DCMI 6.6.1
		if len(b) != 3 || b[2] != 0 {
			return "", false
		}
		switch b[0] {
		case 1:
			if b[1] != 0 {
				return "", false
			}
			return "normal", true
		case 2:
			return fmt.Sprintf("enhanced unit=%d amount=%d", b[1]>>6, b[1]&0x3f), true
		}
		return "", false
	case "dcmisensorinfo": // DCMI 6.5.2
		if len(b) != 4 {
			return "", false
		}
		if b[2] == 0 {
			return fmt.Sprintf("type=%d entity=%d all from=%d", b[0], b[1], b[3]), true
		}
		return fmt.Sprintf("type=%d entity=%d instance=%d", b[0], b[1], b[2]), true
	case "":
		if len(b) != 0 {
			return "", false
		}
		return "-", true
	}
	return "", false
}

// c06RefPeriod: the rolling-average byte the DCMI table assigns to a duration: the coarsest unit of which the
// duration holds at least one (≥ 60 s → minutes, ≥ 60 min → hours, ≥ 24 h → days), amount rounded down, at most 63 days
func c06RefPeriod(ns int64) (unit, amount int64) {
	s := ns / 1e9
	switch {
	case s < 60:
		return 0, s
	case s < 3600:
		return 1, s / 60
	case s < 86400:
		return 2, s / 3600
	}
	d := s / 86400
	if d > 63 {
		d = 63
	}
	return 3, d
}

// c06Want renders the caller's values the way c06RefBody renders the parsed ones. domain = every value fits its wire
// width (the property claims nothing otherwise); wantErr = the serialiser has to refuse.
func c06Want(layer string, a []string) (want string, domain bool, wantErr bool) {
	n := func(i int) int64 { return c06Int(a[i]) }
	alg := func(w, v int64) string {
		if w == 1 {
			return " alg=*"
		}
		return fmt.Sprintf(" alg=%d", v)
	}
	switch layer {
	case "authcaps":
		return fmt.Sprintf("v2=%d ch=%d priv=%d", n(0), n(1), n(2)), n(1) < 16 && n(2) < 16, false
	case "ciphersuites":
		return fmt.Sprintf("ch=%d pt=%d bysuite=1 idx=%d", n(0), n(1), n(2)), n(0) < 16 && n(1) < 64 && n(2) < 64, false
	case "sessioninfo":
		switch n(0) {
		case 0xfe:
			return fmt.Sprintf("handle=%d", n(1)), true, false
		case 0xff:
			return fmt.Sprintf("id=%d", n(2)), true, false
		}
		return fmt.Sprintf("index=%d", n(0)), true, false
	case "setpriv":
		return fmt.Sprintf("v=%d", n(0)), n(0) < 16, n(0) == 1
	case "chassisctl":
		return fmt.Sprintf("v=%d", n(0)), n(0) < 16, false
	case "closesession":
		if n(0) == 0 {
			return fmt.Sprintf("handle=%d", n(1)), true, false
		}
		return fmt.Sprintf("id=%d", n(0)), true, false
	case "getsdr":
		return fmt.Sprintf("res=%d rec=%d off=%d len=%d", n(0), n(1), n(2), n(3)), true, false
	case "sensorreading", "dcmicaps":
		return fmt.Sprintf("v=%d", n(0)), true, false
	case "opensession":
		ok := n(1) < 16 && (n(3) == 1 || n(4) < 64) && (n(5) == 1 || n(6) < 64) && (n(7) == 1 || n(8) < 64)
		return fmt.Sprintf("tag=%d priv=%d sid=%d", n(0), n(1), n(2)) + alg(n(3), n(4)) + alg(n(5), n(6)) + alg(n(7), n(8)), ok, false
	case "rakp1":
		user := unhx(a[5])
		return fmt.Sprintf("tag=%d sid=%d rm=%x nameonly=%d priv=%d user=%x", n(0), n(1), unhx(a[2]), 1-n(3), n(4), user), n(4) < 16, len(user) > 16
	case "rakp3":
		code := unhx(a[3])
		if n(1) != 0 {
			code = nil
		}
		return fmt.Sprintf("tag=%d status=%d sid=%d code=%x", n(0), n(1), n(2), code), true, false
	case "powerreading":
		switch n(0) {
		case 1:
			return "normal", true, false
		case 2:
			u, v := c06RefPeriod(n(1))
			return fmt.Sprintf("enhanced unit=%d amount=%d", u, v), n(1) >= 0, false
		}
		return "", false, false
	case "dcmisensorinfo":
		if n(2) == 0 {
			return fmt.Sprintf("type=%d entity=%d all from=%d", n(0), n(1), n(3)), true, false
		}
		return fmt.Sprintf("type=%d entity=%d instance=%d", n(0), n(1), n(2)), true, false
	case "":
		return "-", true, false
	}
	return "", false, false
}

// c06Judge: the model-independent verdict on one serialised body
func c06Judge(layer string, a []string, out []byte, err error) string {
	want, domain, wantErr := c06Want(layer, a)
	if wantErr {
		if err == nil {
			return "a value the specification cannot carry was serialised instead of refused: " + hx(out)
		}
		return ""
	}
	if !domain {
		return ""
	}
	if err != nil {
		return "serialising a valid request failed: " + err.Error()
	}
	got, ok := c06RefBody(layer, out)
	if !ok {
		return fmt.Sprintf("the reference parser rejects the request data %s", hx(out))
	}
	if got != want {
		return fmt.Sprintf("the reference parser reads {%s} from %s, the caller asked for {%s}", got, hx(out), want)
	}
	return ""
}

// c06Msg is the reference reading of a whole request datagram
type c06Msg struct {
	ptype          byte
	sid, seq       uint32
	hasMsg         bool
	rsAddr, rqAddr byte
	netFn, rsLUN   byte
	rqSeq, rqLUN   byte
	cmd            byte
	group          int // defining body, -1 when absent
	oem            int // IANA, -1 when absent
	body           []byte
}

// c06RefPacket: RMCP (ASF 3.2.2.2) + RMCP+ session header (13.6) + IPMI LAN message (13.8) of an unauthenticated,
// unencrypted request
func c06RefPacket(d []byte) (*c06Msg, string) {
	if len(d) < 4 || d[0] != 6 || d[1] != 0 || d[2] != 0xff || d[3] != 7 {
		return nil, "RMCP header is not version 6 / reserved 0 / sequence FF / class 7 without ACK"
	}
	w := d[4:]
	if len(w) < 12 || w[0] != 6 {
		return nil, "authentication type / format is not RMCP+ (06h)"
	}
	if w[1]&0xc0 != 0 {
		return nil, "encrypted or authenticated bit set on a session-less packet"
	}
	m := &c06Msg{ptype: w[1] & 0x3f, group: -1, oem: -1}
	if m.ptype == 2 {
		return nil, "OEM explicit payload type"
	}
	m.sid, m.seq = binary.LittleEndian.Uint32(w[2:6]), binary.LittleEndian.Uint32(w[6:10])
	if int(binary.LittleEndian.Uint16(w[10:12])) != len(w)-12 {
		return nil, fmt.Sprintf("payload length field %d, %d bytes follow", binary.LittleEndian.Uint16(w[10:12]), len(w)-12)
	}
	p := w[12:]
	if m.ptype != 0 {
		m.body = p
		return m, ""
	}
	if len(p) < 7 {
		return nil, "IPMI message shorter than 7 bytes"
	}
	sum := func(b []byte) (s byte) {
		for _, x := range b {
			s += x
		}
		return
	}
	if sum(p[:3]) != 0 {
		return nil, "checksum 1 does not zero the sum of rsAddr, NetFn/LUN"
	}
	if sum(p[3:]) != 0 {
		return nil, "checksum 2 does not zero the sum of rqAddr … data"
	}
	m.hasMsg = true
	m.rsAddr, m.netFn, m.rsLUN, m.rqAddr, m.rqSeq, m.rqLUN, m.cmd = p[0], p[1]>>2, p[1]&3, p[3], p[4]>>2, p[4]&3, p[5]
	data := p[6 : len(p)-1]
	if m.netFn&1 == 1 {
		return nil, "odd NetFn: a response, not a request"
	}
	switch m.netFn {
	case 0x2c:
		if len(data) < 1 {
			return nil, "group extension without defining body"
		}
		m.group, data = int(data[0]), data[1:]
	case 0x2e:
		if len(data) < 3 {
			return nil, "OEM request without IANA"
		}
		m.oem, data = int(data[0])|int(data[1])<<8|int(data[2])<<16, data[3:]
	}
	m.body = data
	return m, ""
}

// c06JudgePacket: the datagram must be a session-less IPMI request for (netFn, cmd, group/oem) on lun carrying body
func c06JudgePacket(d []byte, netFn, cmd byte, group, oem int, lun byte, body []byte) string {
	m, why := c06RefPacket(d)
	if m == nil {
		return "the reference parser rejects the datagram: " + why
	}
	if m.ptype != 0 || !m.hasMsg {
		return fmt.Sprintf("payload type %#x, want 0 (IPMI message)", m.ptype)
	}
	if m.sid != 0 || m.seq != 0 {
		return fmt.Sprintf("session ID %#x sequence %d outside a session, want the null session", m.sid, m.seq)
	}
	if m.rsAddr != 0x20 || m.rqAddr != 0x81 {
		return fmt.Sprintf("addresses rs=%#x rq=%#x, want BMC 20h and remote console 81h", m.rsAddr, m.rqAddr)
	}
	if m.netFn != netFn || m.cmd != cmd || m.rsLUN != lun || m.group != group || m.oem != oem {
		return fmt.Sprintf("NetFn %#x LUN %d cmd %#x group %d OEM %d, want %#x %d %#x %d %d", m.netFn, m.rsLUN, m.cmd, m.group, m.oem, netFn, lun, cmd, group, oem)
	}
	if !bytes.Equal(m.body, body) {
		return fmt.Sprintf("request data %s, want %s", hx(m.body), hx(body))
	}
	return ""
}

// ---------------------------------------------------------------------------------------------------------
// executors

// enc <layer> <field values…>
func execEnc(a []string) (string, string) {
	l := c06Layer(a[0], a[1:])
	if l == nil {
		return "no-such-layer", ""
	}
	// fresh and reused buffers (as in a connection): what an earlier packet left must not show
	out, err := serialize(l)
	v := c06Judge(a[0], a[1:], out, err)
	if err != nil {
		return "err", v
	}
	return hx(out), v
}

// c06Env drives a fresh V2SessionlessTransport; every datagram handed to the transport is recorded; reply decides
// the answer (nil = lost, which also ends the call by cancelling the caller's context)
type c06Env struct {
	t      *bmc.V2SessionlessTransport
	ctx    context.Context
	cancel context.CancelFunc
	sent   [][]byte
	reply  func(n int, p []byte) []byte
	recv   []byte
}

func c06NewEnv(reply func(n int, p []byte) []byte) *c06Env {
	e := &c06Env{reply: reply, recv: make([]byte, 512)}
	e.ctx, e.cancel = context.WithTimeout(context.Background(), 10*time.Second)
	e.t = bmc.VerifNewV2SessionlessTransport(e.send, 50*time.Millisecond, &backoff.ZeroBackOff{})
	return e
}

func (e *c06Env) send(ctx context.Context, p []byte) ([]byte, error) {
	e.sent = append(e.sent, append([]byte(nil), p...))
	var r []byte
	if e.reply != nil {
		r = e.reply(len(e.sent), p)
	}
	if r == nil {
		e.cancel()
		return nil, errors.New("timeout")
	}
	for i := range e.recv {
		e.recv[i] = 0xEE
	}
	return e.recv[:copy(e.recv, r)], nil
}

func (e *c06Env) outcome() string {
	if len(e.sent) == 0 {
		return "err"
	}
	var s []string
	for _, p := range e.sent {
		s = append(s, hx(p))
	}
	return strings.Join(s, ",")
}

func c06GroupOEM(fn, body byte, ent uint32) (int, int) {
	switch fn {
	case 0x2c:
		return int(body), -1
	case 0x2e:
		return -1, int(ent)
	}
	return -1, -1
}

// pkt <netfn> <cmd> <body> <ent> <lun> <bodyhex>
func execPkt(a []string) (string, string) {
	fn, cmdNo, body, ent, lun := byte(atoi(a[0])), byte(atoi(a[1])), byte(atoi(a[2])), uint32(c06Int(a[3])), byte(atoi(a[4]))
	data := unhx(a[5])
	e := c06NewEnv(nil)
	defer e.cancel()
	c := &rawCmd{op: ipmi.Operation{Function: ipmi.NetworkFunction(fn), Body: ipmi.BodyCode(body), Enterprise: iana.Enterprise(ent),
		Command: ipmi.CommandNumber(cmdNo)}, lun: ipmi.LUN(lun), req: rawBody{b: data}}
	e.t.SendCommand(e.ctx, c)
	out := e.outcome()
	if fn < 64 && fn%2 == 0 && lun < 4 && ent < 1<<24 && len(data)+11 < 65536 {
		if len(e.sent) == 0 {
			return out, "nothing was transmitted for a valid command"
		}
		g, o := c06GroupOEM(fn, body, ent)
		return out, c06JudgePacket(e.sent[0], fn, cmdNo, g, o, lun, data)
	}
	return out, ""
}

// the specification's command table (IPMI v2.0 Appendix G, DCMI v1.5 table 6-1): NetFn, command, DCMI group
// extension, name of the request-data layout ("" = no request data)
var c06Table = map[string]struct {
	netFn, cmd byte
	dcmi       bool
	layer      string
}{
	"GetChassisStatus":                     {0x00, 0x01, false, ""},
	"ChassisControl":                       {0x00, 0x02, false, "chassisctl"},
	"GetDeviceID":                          {0x06, 0x01, false, ""},
	"GetSystemGUID":                        {0x06, 0x37, false, ""},
	"GetChannelAuthenticationCapabilities": {0x06, 0x38, false, "authcaps"},
	"SetSessionPrivilegeLevel":             {0x06, 0x3b, false, "setpriv"},
	"CloseSession":                         {0x06, 0x3c, false, "closesession"},
	"GetSessionInfo":                       {0x06, 0x3d, false, "sessioninfo"},
	"GetChannelCipherSuites":               {0x06, 0x54, false, "ciphersuites"},
	"GetSDRRepositoryInfo":                 {0x0a, 0x20, false, ""},
	"ReserveSDRRepository":                 {0x0a, 0x22, false, ""},
	"GetSDR":                               {0x0a, 0x23, false, "getsdr"},
	"GetSensorReading":                     {0x04, 0x2d, false, "sensorreading"},
	"DCMICaps":                             {0x2c, 0x01, true, "dcmicaps"},
	"GetPowerReading":                      {0x2c, 0x02, true, "powerreading"},
	"GetDCMISensorInfo":                    {0x2c, 0x07, true, "dcmisensorinfo"},
}

// c06Issue performs the library call named by a pktcmd op on the environment's transport
func c06Issue(e *c06Env, name string, a []string) {
	n := func(i int) int { return int(c06Int(a[i])) }
	send := func(c ipmi.Command) { e.t.SendCommand(e.ctx, c) }
	switch name {
	case "GetSystemGUID":
		e.t.GetSystemGUID(e.ctx)
	case "GetChannelAuthenticationCapabilities":
		e.t.GetChannelAuthenticationCapabilities(e.ctx, c06Layer("authcaps", a).(*ipmi.GetChannelAuthenticationCapabilitiesReq))
	case "GetDeviceID":
		send(&ipmi.GetDeviceIDCmd{})
	case "GetChassisStatus":
		send(&ipmi.GetChassisStatusCmd{})
	case "GetSDRRepositoryInfo":
		send(&ipmi.GetSDRRepositoryInfoCmd{})
	case "ReserveSDRRepository":
		send(&ipmi.ReserveSDRRepositoryCmd{})
	case "ChassisControl":
		send(&ipmi.ChassisControlCmd{Req: *c06Layer("chassisctl", a).(*ipmi.ChassisControlReq)})
	case "SetSessionPrivilegeLevel":
		send(&ipmi.SetSessionPrivilegeLevelCmd{Req: *c06Layer("setpriv", a).(*ipmi.SetSessionPrivilegeLevelReq)})
	case "CloseSession":
		send(&ipmi.CloseSessionCmd{Req: *c06Layer("closesession", a).(*ipmi.CloseSessionReq)})
	case "GetSDR":
		send(&ipmi.GetSDRCmd{Req: *c06Layer("getsdr", a).(*ipmi.GetSDRReq)})
	case "GetSensorReading":
		send(&ipmi.GetSensorReadingCmd{Req: ipmi.GetSensorReadingReq{Number: uint8(n(0))}, OwnerLUN: ipmi.LUN(n(1))})
	case "GetSessionInfo":
		send(&ipmi.GetSessionInfoCmd{Req: *c06Layer("sessioninfo", a).(*ipmi.GetSessionInfoReq)})
	case "GetChannelCipherSuites":
		send(&ipmi.GetChannelCipherSuitesCmd{Req: *c06Layer("ciphersuites", a).(*ipmi.GetChannelCipherSuitesReq)})
	case "DCMICaps":
		c := dcmi.NewSessionlessCommander(e.t)
		switch n(0) {
		case 1:
			c.GetDCMICapabilitiesInfoSupportedCapabilities(e.ctx)
		case 2:
			c.GetDCMICapabilitiesInfoMandatoryPlatformAttrs(e.ctx)
		case 3:
			c.GetDCMICapabilitiesInfoOptionalPlatformAttrs(e.ctx)
		case 4:
			c.GetDCMICapabilitiesInfoManageabilityAccessAttrs(e.ctx)
		case 5:
			c.GetDCMICapabilitiesInfoEnhancedSystemPowerStatisticsAttrs(e.ctx)
		}
	case "GetPowerReading":
		send(&dcmi.GetPowerReadingCmd{Req: *c06Layer("powerreading", a).(*dcmi.GetPowerReadingReq)})
	case "GetDCMISensorInfo":
		send(&dcmi.GetDCMISensorInfoCmd{Req: *c06Layer("dcmisensorinfo", a).(*dcmi.GetDCMISensorInfoReq)})
	}
}

// pktcmd <name> <field values…>
func execPktCmd(a []string) (string, string) {
	name, args := a[0], a[1:]
	switch name {
	case "NewV2Session":
		return c06NewSession(args)
	case "RetrieveSupportedCipherSuites":
		return c06CipherSuites(args)
	}
	row, ok := c06Table[name]
	if !ok {
		return "no-such-command", ""
	}
	e := c06NewEnv(nil)
	defer e.cancel()
	c06Issue(e, name, args)
	out := e.outcome()
	// verdict
	lun, fields := byte(0), args
	if name == "GetSensorReading" {
		lun, fields = byte(atoi(args[1])), args[:1]
	}
	want, domain, wantErr := c06Want(row.layer, fields)
	_ = want
	if wantErr {
		if len(e.sent) != 0 {
			return out, "a request the specification cannot carry was transmitted instead of refused"
		}
		return out, ""
	}
	if !domain || lun > 3 {
		return out, ""
	}
	if len(e.sent) == 0 {
		return out, "nothing was transmitted for a valid request"
	}
	m, why := c06RefPacket(e.sent[0])
	if m == nil {
		return out, "the reference parser rejects the datagram: " + why
	}
	group := -1
	if row.dcmi {
		group = 0xdc
	}
	if v := c06JudgePacket(e.sent[0], row.netFn, row.cmd, group, -1, lun, m.body); v != "" {
		return out, v
	}
	return out, c06Judge(row.layer, fields, m.body, nil)
}

// pktcmd NewV2Session <userhex> <priv> <lookup> <auth> <integ> <conf> <bmcsid> <rmhex>: the three setup datagrams of a
// real handshake with the reference BMC (one cipher suite, so no discovery; password fixedPass)
func c06NewSession(a []string) (string, string) {
	user := unhx(a[0])
	priv, lookup, auth, integ, conf := atoi(a[1]), atoi(a[2]) == 1, atoi(a[3]), atoi(a[4]), atoi(a[5])
	sid, rm := uint32(c06Int(a[6])), unhx(a[7])
	sim := newSimBMC([]byte(fixedPass), nil)
	sim.sidc = sid
	e := c06NewEnv(func(_ int, p []byte) []byte { return sim.handle(p) })
	defer e.cancel()
	old := rand.Reader
	rand.Reader = io.Reader(&cycleReader{b: rm})
	defer func() { rand.Reader = old }()
	e.t.NewV2Session(e.ctx, &bmc.V2SessionOpts{
		SessionOpts:          bmc.SessionOpts{Username: string(user), Password: []byte(fixedPass), MaxPrivilegeLevel: ipmi.PrivilegeLevel(priv)},
		PrivilegeLevelLookup: lookup,
		CipherSuites: []ipmi.CipherSuite{{AuthenticationAlgorithm: ipmi.AuthenticationAlgorithm(auth),
			IntegrityAlgorithm: ipmi.IntegrityAlgorithm(integ), ConfidentialityAlgorithm: ipmi.ConfidentialityAlgorithm(conf)}},
	})
	out := e.outcome()
	if priv >= 16 || auth >= 64 || integ >= 64 || conf >= 64 {
		return out, ""
	}
	// reference reading of each datagram
	if len(e.sent) < 1 {
		return out, "no Open Session Request was transmitted"
	}
	check := func(i int, ptype byte, layer string, fields []string) string {
		m, why := c06RefPacket(e.sent[i])
		if m == nil {
			return fmt.Sprintf("datagram %d: the reference parser rejects it: %s", i+1, why)
		}
		if m.ptype != ptype || m.sid != 0 || m.seq != 0 || m.hasMsg {
			return fmt.Sprintf("datagram %d: payload type %#x session %#x sequence %d, want %#x in the null session", i+1, m.ptype, m.sid, m.seq, ptype)
		}
		if v := c06Judge(layer, fields, m.body, nil); v != "" {
			return fmt.Sprintf("datagram %d: %s", i+1, v)
		}
		return ""
	}
	if v := check(0, 0x10, "opensession", []string{"0", a[1], "1", "0", a[3], "0", a[4], "0", a[5]}); v != "" {
		return out, v
	}
	if len(user) > 16 {
		if len(e.sent) != 1 {
			return out, "a user name longer than 16 bytes was put on the wire"
		}
		return out, ""
	}
	if len(e.sent) < 2 {
		return out, "no RAKP Message 1 was transmitted"
	}
	if v := check(1, 0x12, "rakp1", []string{"0", a[6], a[7], a[2], a[1], a[0]}); v != "" {
		return out, v
	}
	if hashFn(byte(auth)) != nil {
		if len(e.sent) < 3 {
			return out, "no RAKP Message 3 was transmitted although the BMC's RAKP Message 2 was correct"
		}
		// the BMC accepted RAKP 3 exactly when its key exchange authentication code is the specified HMAC: the
		// reference BMC then knows SIK; compare with the code it expects
		if v := check(2, 0x14, "rakp3", []string{"0", "0", a[6], hx(sim.rakp3Code())}); v != "" {
			return out, v
		}
	}
	return out, ""
}

// pktcmd RetrieveSupportedCipherSuites <n>: the BMC returns n full 16-byte pages, then a short one; the library's
// requests must carry the present-interface channel, payload type IPMI and list indexes 0, 1, …, n
func c06CipherSuites(a []string) (string, string) {
	n := atoi(a[0])
	page := func(k int) []byte {
		// channel number, then record data: 16 bytes on a full page, fewer on the last one
		data := []byte{0x0e}
		rec := []byte{0xc0, 0x03, 0x01, 0x41, 0x81}
		size := 16
		if k > n {
			size = 3
		}
		for i := 0; i < size; i++ {
			data = append(data, rec[i%5])
		}
		return wrapSessionless(0, ipmiRsp(0x06, 0x54, 0, data))
	}
	e := c06NewEnv(nil)
	e.reply = func(k int, _ []byte) []byte {
		if k > n+1 {
			return nil
		}
		return page(k)
	}
	defer e.cancel()
	bmc.RetrieveSupportedCipherSuites(e.ctx, e.t)
	out := e.outcome()
	want := n + 1
	if want > 64 {
		want = 64 // the list index is 6 bits wide: discovery ends with index 63 (see C16), whatever page 63 holds
	}
	if len(e.sent) != want {
		return out, fmt.Sprintf("%d requests for %d full pages and a short one, want %d", len(e.sent), n, want)
	}
	for i, d := range e.sent {
		if i > 63 {
			break // list indexes are 6 bits: what follows index 63 is the subject of C16
		}
		m, why := c06RefPacket(d)
		if m == nil {
			return out, "the reference parser rejects a datagram: " + why
		}
		if v := c06JudgePacket(d, 0x06, 0x54, -1, -1, 0, m.body); v != "" {
			return out, v
		}
		if v := c06Judge("ciphersuites", []string{"14", "0", itoa(i)}, m.body, nil); v != "" {
			return out, v
		}
	}
	return out, ""
}

// ---------------------------------------------------------------------------------------------------------
// generator

func genEnc(g *genCtx) {
	r := g.rng
	emit := func(kind string, class byte, args ...interface{}) {
		s := make([]string, len(args))
		for i, a := range args {
			s[i] = fmt.Sprint(a)
		}
		nt := class == 'P' && strings.Trim(strings.Join(s[1:], ""), "0-") != ""
		if kind != "enc" {
			nt = class == 'P'
		}
		g.emit(Op{Class: class, NonTrivial: nt, Kind: kind, Args: s})
	}
	cls := func(ok bool) byte {
		if ok {
			return 'P'
		}
		return 'M'
	}
	u32 := func() uint32 {
		switch r.Intn(6) {
		case 0:
			return []uint32{0, 1, 0xff, 0x100, 0xffff, 0x10000, 0xffffff, 0x1000000, 0x7fffffff, 0x80000000, 0xfffffffe, 0xffffffff}[r.Intn(12)]
		}
		return r.Uint32()
	}
	thorough := g.thorough()

	// ---- enc: every request layer -----------------------------------------------------------------------
	// Get Channel Authentication Capabilities: channel and privilege are bytes in Go, 4 bits on the wire
	for ext := 0; ext < 2; ext++ {
		for ch := 0; ch < 256; ch++ {
			for p := 0; p < 256; p++ {
				// quick tier: every in-width pair, and every byte value of either field against a random other one
				if thorough || (ch < 16 && p < 16) || p == (ch*7+ext)%256 || ch == (p*11+ext+3)%256 {
					emit("enc", cls(ch < 16 && p < 16), "authcaps", ext, ch, p)
				}
			}
		}
	}
	// Get Channel Cipher Suites: all in-width triples in the thorough tier; each field over its whole byte range
	for ch := 0; ch < 256; ch++ {
		emit("enc", cls(ch < 16), "ciphersuites", ch, r.Intn(64), r.Intn(64))
		emit("enc", cls(false), "ciphersuites", ch, r.Intn(256), 64+r.Intn(192))
	}
	for v := 0; v < 256; v++ {
		emit("enc", cls(v < 64), "ciphersuites", r.Intn(16), v, r.Intn(64))
		emit("enc", cls(v < 64), "ciphersuites", r.Intn(16), r.Intn(64), v)
	}
	if thorough {
		for ch := 0; ch < 16; ch++ {
			for pt := 0; pt < 64; pt++ {
				for idx := 0; idx < 64; idx++ {
					emit("enc", 'P', "ciphersuites", ch, pt, idx)
				}
			}
		}
	}
	// Get Session Info: all 256 index values, three forms
	for idx := 0; idx < 256; idx++ {
		emit("enc", 'P', "sessioninfo", idx, r.Intn(256), u32())
		emit("enc", 'P', "sessioninfo", idx, 0, 0)
	}
	for h := 0; h < 256; h++ {
		emit("enc", 'P', "sessioninfo", 0xfe, h, u32())
	}
	for i := 0; i < 300; i++ {
		emit("enc", 'P', "sessioninfo", 0xff, r.Intn(256), u32())
	}
	// Set Session Privilege Level: all 256 (1 must be refused); Chassis Control: all bytes and wider uints
	for l := 0; l < 256; l++ {
		emit("enc", cls(l < 16), "setpriv", l)
		emit("enc", cls(l < 16), "chassisctl", l)
		emit("enc", 'P', "sensorreading", l)
		emit("enc", 'P', "dcmicaps", l)
	}
	for _, c := range []uint64{256, 257, 0x1ff, 0x10003, 1<<32 + 5, 1<<62 + 2} {
		emit("enc", 'M', "chassisctl", c)
	}
	// Close Session
	for h := 0; h < 256; h++ {
		emit("enc", 'P', "closesession", 0, h)
		emit("enc", 'P', "closesession", u32(), h)
	}
	// Get SDR
	for v := 0; v < 256; v++ {
		emit("enc", 'P', "getsdr", r.Intn(65536), r.Intn(65536), v, r.Intn(256))
		emit("enc", 'P', "getsdr", r.Intn(65536), r.Intn(65536), r.Intn(256), v)
		emit("enc", 'P', "getsdr", v<<8|r.Intn(256), r.Intn(256)<<8|v, 0, 0xff)
	}
	for _, v := range []int{0, 1, 0xff, 0x100, 0xfffe, 0xffff} {
		emit("enc", 'P', "getsdr", v, 0xffff-v, r.Intn(256), r.Intn(256))
	}
	// Open Session Request: every byte value of each algorithm field (6 bits on the wire), wildcards, privilege
	for v := 0; v < 256; v++ {
		for k := 0; k < 3; k++ {
			alg := []int{r.Intn(64), r.Intn(64), r.Intn(64)}
			w := []int{0, 0, 0}
			alg[k] = v
			emit("enc", cls(v < 64), "opensession", r.Intn(256), r.Intn(16), u32(), w[0], alg[0], w[1], alg[1], w[2], alg[2])
			w[k] = 1
			emit("enc", 'P', "opensession", r.Intn(256), r.Intn(16), u32(), w[0], alg[0], w[1], alg[1], w[2], alg[2])
		}
		emit("enc", cls(v < 16), "opensession", r.Intn(256), v, u32(), r.Intn(2), r.Intn(64), r.Intn(2), r.Intn(64), r.Intn(2), r.Intn(64))
		emit("enc", 'P', "opensession", v, r.Intn(16), u32(), r.Intn(2), r.Intn(64), r.Intn(2), r.Intn(64), r.Intn(2), r.Intn(64))
	}
	// RAKP 1: every user-name length 0…24 (17+ must be refused), every byte value of the privilege field x lookup
	for n := 0; n <= 24; n++ {
		for k := 0; k < 8; k++ {
			emit("enc", 'P', "rakp1", r.Intn(256), u32(), hx(rbytes(r, 16)), r.Intn(2), r.Intn(16), hx(rbytes(r, n)))
		}
	}
	for _, n := range []int{32, 100, 255, 256, 257, 1000} {
		emit("enc", 'P', "rakp1", r.Intn(256), u32(), hx(rbytes(r, 16)), r.Intn(2), r.Intn(16), hx(rbytes(r, n)))
	}
	for p := 0; p < 256; p++ {
		for lk := 0; lk < 2; lk++ {
			emit("enc", cls(p < 16), "rakp1", r.Intn(256), u32(), hx(rbytes(r, 16)), lk, p, hx(rbytes(r, r.Intn(17))))
		}
	}
	// RAKP 3: every status, AuthCode lengths 0…40
	for st := 0; st < 256; st++ {
		emit("enc", 'P', "rakp3", r.Intn(256), st, u32(), hx(rbytes(r, []int{0, 12, 16, 20, 32}[r.Intn(5)])))
	}
	for n := 0; n <= 40; n++ {
		emit("enc", 'P', "rakp3", r.Intn(256), 0, u32(), hx(rbytes(r, n)))
		emit("enc", 'P', "rakp3", r.Intn(256), 1+r.Intn(255), u32(), hx(rbytes(r, n)))
	}
	// Get Power Reading: every mode byte; periods at every unit boundary ±1 ns / ±1 s, whole units, sub-second, random
	const sec = int64(1e9)
	periods := []int64{0, 1, sec - 1, sec, sec + 1, 1<<63 - 1}
	for _, b := range []int64{59, 60, 61, 3599, 3600, 3601, 86399, 86400, 86401, 63 * 86400, 63*86400 - 1, 64 * 86400, 64*86400 - 1, 65 * 86400, 255 * 86400, 256 * 86400, 1000 * 86400} {
		periods = append(periods, b*sec-1, b*sec, b*sec+1, b*sec+sec/2)
	}
	for u := int64(1); u < 64; u++ {
		periods = append(periods, u*sec, u*60*sec, u*3600*sec, u*86400*sec, u*60*sec-1, u*3600*sec-1, u*86400*sec-1)
	}
	nr := 400
	if thorough {
		nr = 20000
	}
	for i := 0; i < nr; i++ {
		switch r.Intn(4) {
		case 0:
			periods = append(periods, r.Int63n(120*sec))
		case 1:
			periods = append(periods, r.Int63n(2*3600*sec))
		case 2:
			periods = append(periods, r.Int63n(70*86400*sec))
		default:
			periods = append(periods, r.Int63())
		}
	}
	for _, p := range periods {
		emit("enc", 'P', "powerreading", 2, p)
	}
	for i := 0; i < 40; i++ {
		emit("enc", 'P', "powerreading", 1, periods[r.Intn(len(periods))])
	}
	for m := 0; m < 256; m++ {
		emit("enc", cls(m == 1 || m == 2), "powerreading", m, periods[r.Intn(len(periods))])
	}
	// negative periods: outside the claim (byte(float) of a negative number is implementation-defined)
	for _, p := range []int64{-1, -sec + 1, -sec, -sec - 1, -59 * sec, -60 * sec, -255 * sec, -256 * sec, -257 * sec, -86400 * sec, -1000000 * sec, -2147483647 * sec} {
		emit("enc", 'M', "powerreading", 2, p)
	}
	for i := 0; i < 50; i++ {
		emit("enc", 'M', "powerreading", 2, -r.Int63n(2147483647*sec))
	}
	// Get DCMI Sensor Info: every byte of each field
	for v := 0; v < 256; v++ {
		emit("enc", 'P', "dcmisensorinfo", v, r.Intn(256), r.Intn(2)*r.Intn(256), r.Intn(256))
		emit("enc", 'P', "dcmisensorinfo", 1, v, r.Intn(2)*r.Intn(256), r.Intn(256))
		emit("enc", 'P', "dcmisensorinfo", 1, []int{0x37, 0x03, 0x07, 0x40, 0x41, 0x42}[r.Intn(6)], v, r.Intn(256))
		emit("enc", 'P', "dcmisensorinfo", 1, 0x37, 0, v)
	}

	// ---- pkt: the datagram around any operation / LUN / body ------------------------------------------
	pkt := func(fn, cmd, body int, ent uint64, lun int, data []byte) {
		ok := fn < 64 && fn%2 == 0 && lun < 4 && ent < 1<<24 && len(data)+11 < 65536
		emit("pkt", cls(ok), fn, cmd, body, ent, lun, hx(data))
	}
	rbody := func() []byte { return rbytes(r, r.Intn(24)) }
	for fn := 0; fn < 256; fn++ { // every NetFn byte: even < 64 are requests; odd = responses, ≥ 64 do not fit 6 bits
		body, ent := 0, uint64(0)
		if fn == 0x2c || fn == 0x2d {
			body = r.Intn(256)
		}
		if fn == 0x2e || fn == 0x2f {
			ent = uint64(r.Intn(1 << 24))
		}
		for lun := 0; lun < 4; lun++ {
			pkt(fn, r.Intn(256), body, ent, lun, rbody())
		}
		pkt(fn, r.Intn(256), r.Intn(256), uint64(r.Intn(1<<24)), r.Intn(4), rbody()) // body code / enterprise set although unused
	}
	for lun := 0; lun < 256; lun++ { // LUN is a byte in Go, 2 bits on the wire
		pkt(r.Intn(32)*2, r.Intn(256), 0, 0, lun, rbody())
	}
	for v := 0; v < 256; v++ { // every command number, every defining body
		pkt(0x06, v, 0, 0, 0, rbody())
		pkt(0x2c, r.Intn(256), v, 0, r.Intn(4), rbody())
		pkt(0x2e, r.Intn(256), 0, uint64(v)<<16|uint64(r.Intn(65536)), r.Intn(4), rbody())
	}
	for _, ent := range []uint64{0, 1, 0xff, 0x100, 0xffff, 0x10000, 0xffffff, 0x1000000, 0x1000001, 0xff000000, 0xffffffff} {
		pkt(0x2e, 0x01, 0, ent, 0, rbody())
		pkt(0x06, 0x01, 0, ent, 0, rbody())
	}
	maxLen := 300
	if thorough {
		maxLen = 2000
	}
	for n := 0; n <= maxLen; n++ { // every body length: the wrapper's length field, checksum 2 over a long run
		fn := []int{0x06, 0x2c, 0x2e, 0x0a, 0x04, 0x00}[n%6]
		body, ent := 0, uint64(0)
		if fn == 0x2c {
			body = 0xdc
		}
		if fn == 0x2e {
			ent = uint64(r.Intn(1 << 24))
		}
		pkt(fn, r.Intn(256), body, ent, r.Intn(4), rbytes(r, n))
	}
	for _, n := range []int{4096, 65000, 65523, 65524, 65525, 65526, 65529, 65535, 65536, 70000} { // around the 16-bit length field
		pkt(0x06, 0x01, 0, 0, 0, rbytes(r, n))
	}
	for i := 0; i < 32; i++ { // bodies whose checksums are extreme: all 00, all FF, sums to 0 / FF
		pkt(0x06, r.Intn(256), 0, 0, 0, bytes.Repeat([]byte{[]byte{0x00, 0xff, 0x80, 0x01}[i%4]}, i))
	}

	// ---- pktcmd: every command of the library through its high-level API -----------------------------------
	for i := 0; i < 3; i++ {
		for _, name := range []string{"GetSystemGUID", "GetDeviceID", "GetChassisStatus", "GetSDRRepositoryInfo", "ReserveSDRRepository"} {
			emit("pktcmd", 'P', name)
		}
	}
	for ch := 0; ch < 256; ch++ {
		p := r.Intn(16)
		if ch%8 == 7 {
			p = r.Intn(256)
		}
		emit("pktcmd", cls(ch < 16 && p < 16), "GetChannelAuthenticationCapabilities", r.Intn(2), ch, p)
	}
	for ext := 0; ext < 2; ext++ {
		for ch := 0; ch < 16; ch++ {
			for p := 0; p < 16; p++ {
				emit("pktcmd", 'P', "GetChannelAuthenticationCapabilities", ext, ch, p)
			}
		}
	}
	for v := 0; v < 256; v++ {
		emit("pktcmd", cls(v < 16), "ChassisControl", v)
		emit("pktcmd", cls(v < 16), "SetSessionPrivilegeLevel", v)
		emit("pktcmd", 'P', "CloseSession", u32(), v)
		emit("pktcmd", 'P', "CloseSession", 0, v)
		emit("pktcmd", 'P', "GetSDR", r.Intn(65536), r.Intn(65536), v, r.Intn(256))
		emit("pktcmd", cls(v < 4), "GetSensorReading", r.Intn(256), v) // owner LUN: a byte in Go, 2 bits on the wire
		emit("pktcmd", 'P', "GetSensorReading", v, r.Intn(4))
		emit("pktcmd", 'P', "GetSessionInfo", v, r.Intn(256), u32())
		emit("pktcmd", cls(v < 16), "GetChannelCipherSuites", v, r.Intn(64), r.Intn(64))
		emit("pktcmd", cls(v < 64), "GetChannelCipherSuites", r.Intn(16), r.Intn(64), v)
		emit("pktcmd", 'P', "GetDCMISensorInfo", 1, v, r.Intn(2)*r.Intn(256), r.Intn(256))
		emit("pktcmd", cls(v == 1 || v == 2), "GetPowerReading", v, periods[r.Intn(len(periods))])
	}
	for i := 0; i < 200; i++ {
		emit("pktcmd", 'P', "GetPowerReading", 2, periods[r.Intn(len(periods))])
	}
	for k := 1; k <= 5; k++ {
		emit("pktcmd", 'P', "DCMICaps", k)
	}
	// the RMCP+ setup payloads as transmitted by a real NewV2Session
	suites := [][3]int{{1, 1, 1}, {3, 4, 1}, {2, 2, 1}, {1, 4, 1}, {3, 1, 1}, {2, 4, 1}}
	for n := 0; n <= 20; n++ { // every user-name length; beyond 16 the handshake must stop before RAKP 1
		for _, lk := range []int{0, 1} {
			s := suites[r.Intn(len(suites))]
			emit("pktcmd", 'P', "NewV2Session", hx(rbytes(r, n)), r.Intn(16), lk, s[0], s[1], s[2], u32(), hx(rbytes(r, 16)))
		}
	}
	for p := 0; p < 256; p++ {
		s := suites[p%len(suites)]
		emit("pktcmd", cls(p < 16), "NewV2Session", hx(rbytes(r, r.Intn(17))), p, r.Intn(2), s[0], s[1], s[2], u32(), hx(rbytes(r, 16)))
	}
	for v := 0; v < 64; v++ { // every 6-bit algorithm number in each position (wider values: see `enc opensession`; what the
		// library does after the BMC answers such a proposal is the subject of C12)
		emit("pktcmd", 'P', "NewV2Session", hx([]byte(fixedUser)), 4, 1, v, r.Intn(64), r.Intn(64), u32(), hx(rbytes(r, 16)))
		emit("pktcmd", 'P', "NewV2Session", hx([]byte(fixedUser)), 4, 1, 1+r.Intn(3), v, r.Intn(64), u32(), hx(rbytes(r, 16)))
		emit("pktcmd", 'P', "NewV2Session", hx([]byte(fixedUser)), 4, 1, 1+r.Intn(3), r.Intn(64), v, u32(), hx(rbytes(r, 16)))
	}
	pages := []int{0, 1, 2, 3, 5}
	if thorough {
		pages = append(pages, 10, 31, 62, 63, 64)
	}
	for _, n := range pages {
		emit("pktcmd", cls(n < 64), "RetrieveSupportedCipherSuites", n)
	}
}
