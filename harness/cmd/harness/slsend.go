package main

// Session-less command exchange (C09 second sentence, C10, C11): the real V2Sessionless.SendCommand over the
// verif transport hook against scripted replies.

import (
	"bytes"
	"context"
	"errors"
	"fmt"
	"strings"
	"time"

	"github.com/gebn/bmc"
	"github.com/gebn/bmc/pkg/iana"
	"github.com/gebn/bmc/pkg/ipmi"
)

func init() {
	executors["slsend"] = execSlSend
	executors["slhist"] = execSlHist
	scenarios["slsend"] = genSlSend
}

// parseSessionless is the reference reading of a session-less datagram (null session wrapper around an IPMI
// message): returns the message bytes, or nil and the reason
func parseSessionless(p []byte) ([]byte, string) {
	if len(p) < 16 || p[0] != 6 || p[1] != 0 || p[2] != 0xff || p[3] != 7 {
		return nil, "RMCP header is not version 6 / seq FF / class IPMI"
	}
	w := p[4:]
	if w[0] != 6 || w[1] != 0 {
		return nil, "wrapper is not an unauthenticated, unencrypted RMCP+ IPMI payload"
	}
	for _, b := range w[2:10] {
		if b != 0 {
			return nil, "session ID / sequence number are not zero outside a session"
		}
	}
	n := int(w[10]) | int(w[11])<<8
	if len(w) != 12+n {
		return nil, "payload length field does not match the datagram"
	}
	return w[12:], ""
}

// sessionlessReplyMessage is the reference reading of a REPLY outside a session: an unauthenticated, unencrypted
// RMCP+ IPMI payload; what the BMC put in the wrapper's session ID / sequence fields does not matter to the console
func sessionlessReplyMessage(p []byte) []byte {
	if len(p) < 16 || p[0] != 6 || p[3]&0x8f != 7 || p[4] != 6 || p[5] != 0 {
		return nil
	}
	n := int(p[14]) | int(p[15])<<8
	if len(p) < 16+n {
		return nil
	}
	return p[16 : 16+n]
}

// slhist <7 slsend args> / <7 slsend args> / … : several session-less commands back to back on ONE connection; every
// command must behave exactly as on a fresh connection (null session wrapper included), whatever the earlier replies
// carried in their own wrappers
func execSlHist(a []string) (string, string) {
	var outs []string
	verdict := ""
	conn := &slConn{}
	for len(a) >= 7 {
		o, v := conn.run(a[:7])
		outs = append(outs, o)
		if v != "" && verdict == "" {
			verdict = fmt.Sprintf("command %d on the connection: %s", len(outs), v)
		}
		a = a[7:]
		if len(a) > 0 && a[0] == "/" {
			a = a[1:]
		}
	}
	return strings.Join(outs, " ; "), verdict
}

type slConn struct {
	t      *bmc.V2SessionlessTransport
	script []string
	pos    int
	sent   [][]byte
	cancel context.CancelFunc
	recv   []byte
}

// slsend <fn> <cmd> <body> <ent> <lun> <req|!> <script>
func execSlSend(a []string) (string, string) { return (&slConn{}).run(a) }

func (conn *slConn) run(a []string) (string, string) {
	fn, cmdNo, body, ent, lun := byte(atoi(a[0])), byte(atoi(a[1])), byte(atoi(a[2])), uint32(atoi(a[3])), byte(atoi(a[4]))
	var req rawBody
	if a[5] == "!" {
		req.fail = true
	} else {
		req.b = unhx(a[5])
	}
	var script []string
	if a[6] != "-" {
		script = strings.Split(a[6], ",")
	}
	ctx, cancel := context.WithTimeout(context.Background(), 10*time.Second)
	defer cancel()
	conn.script, conn.pos, conn.sent, conn.cancel = script, 0, nil, cancel
	if driveScript != nil {
		conn.script = driveScript
	}
	if conn.t == nil {
		conn.recv = make([]byte, 512)
		var closeT func()
		conn.t, closeT = newTransport(func(_ context.Context, p []byte) ([]byte, error) {
			if conn.pos >= len(conn.script) {
				conn.cancel()
				return nil, context.Canceled
			}
			conn.sent = append(conn.sent, append([]byte(nil), p...))
			item := conn.script[conn.pos]
			conn.pos++
			if item == "L" {
				return nil, errors.New("timeout")
			}
			r := unhx(strings.TrimPrefix(item, "R:"))
			for i := range conn.recv {
				conn.recv[i] = 0xEE
			}
			return conn.recv[:copy(conn.recv, r)], nil
		}, 50*time.Millisecond)
		if useUDP {
			defer closeT()
		}
	}
	t := conn.t
	c := &rawCmd{op: ipmi.Operation{Function: ipmi.NetworkFunction(fn), Body: ipmi.BodyCode(body), Enterprise: iana.Enterprise(ent),
		Command: ipmi.CommandNumber(cmdNo)}, lun: ipmi.LUN(lun), req: req}
	res := ""
	code, err := func() (code ipmi.CompletionCode, err error) {
		defer func() {
			if r := recover(); r != nil {
				res = "panic"
			}
		}()
		return t.SendCommand(ctx, c)
	}()
	if useUDP {
		udpSettle()
	}
	switch {
	case res == "panic":
	case err == nil:
		res = fmt.Sprintf("ok %d %s", uint8(code), hx(c.rsp.got))
	default:
		res = "err"
	}
	sent := conn.sent
	var sh []string
	for _, p := range sent {
		sh = append(sh, hx(p))
	}
	ss := "-"
	if len(sh) > 0 {
		ss = strings.Join(sh, ",")
	}
	out := fmt.Sprintf("sent=%s res=%s", ss, res)
	if res == "panic" {
		return out, "panic while handling a reply"
	}
	prefix := []byte{}
	switch fn {
	case 0x2c, 0x2d:
		prefix = []byte{body}
	case 0x2e, 0x2f:
		prefix = []byte{byte(ent), byte(ent >> 8), byte(ent >> 16)}
	}
	for i, p := range sent {
		m, why := parseSessionless(p)
		if m == nil {
			return out, fmt.Sprintf("datagram %d: %s", i+1, why)
		}
		if len(m) < 7 || csum(m[:2]) != m[2] || csum(m[3:len(m)-1]) != m[len(m)-1] {
			return out, fmt.Sprintf("datagram %d: message checksums", i+1)
		}
		if m[0] != 0x20 || m[3] != 0x81 || m[1]>>2 != fn || m[1]&3 != lun&3 || m[5] != cmdNo ||
			!bytes.Equal(m[6:len(m)-1], append(append([]byte(nil), prefix...), req.b...)) {
			return out, fmt.Sprintf("datagram %d is not the caller's command", i+1)
		}
	}
	// the documented contract: lost and unacceptable replies are retried until the context expires
	want, wantSent := "err", len(script)
	if req.fail {
		wantSent = 0
	} else {
		for i, item := range script {
			if item == "L" {
				continue
			}
			m := sessionlessReplyMessage(unhx(strings.TrimPrefix(item, "R:")))
			if m == nil || len(m) < 8 || csum(m[:2]) != m[2] || csum(m[3:len(m)-1]) != m[len(m)-1] {
				continue
			}
			if m[1]>>2 != fn|1 || m[5] != cmdNo || len(m)-8 < len(prefix) || !bytes.Equal(m[7:7+len(prefix)], prefix) || isTemp(m[6]) {
				continue
			}
			want, wantSent = fmt.Sprintf("ok %d %s", m[6], hx(m[7+len(prefix):len(m)-1])), i+1
			break
		}
	}
	if res != want {
		return out, fmt.Sprintf("result is %q; the first valid final response of the script gives %q", res, want)
	}
	if len(sent) != wantSent {
		return out, fmt.Sprintf("%d datagrams transmitted, the contract gives %d", len(sent), wantSent)
	}
	return out, ""
}

func genSlSend(g *genCtx) {
	alphabet := "FEBTXGKRMYL"
	depth := 3
	if g.thorough() {
		depth = 4
	}
	var scripts []string
	var rec func(prefix string, d int)
	rec = func(prefix string, d int) {
		if d == 0 {
			scripts = append(scripts, prefix)
			return
		}
		for _, a := range alphabet {
			rec(prefix+string(a), d-1)
		}
	}
	for d := 1; d <= depth; d++ {
		rec("", d)
	}
	// a sample of long scripts (4…9 attempts)
	deep := 150
	if g.thorough() {
		deep = 3000
	}
	for i := 0; i < deep; i++ {
		n := 4 + g.rng.Intn(6)
		sc := ""
		for j := 0; j < n-1; j++ {
			sc += string("BTXGKRMYL"[g.rng.Intn(9)])
		}
		scripts = append(scripts, sc+string(alphabet[g.rng.Intn(len(alphabet))]))
	}
	for _, script := range scripts {
		fn := byte(g.rng.Intn(0x16)) << 1
		var body byte
		var ent uint32
		switch g.rng.Intn(8) {
		case 0:
			fn, body = 0x2c, byte(g.rng.Intn(256))
		case 1:
			fn, ent = 0x2e, uint32(g.rng.Intn(1<<24))
		}
		cmdNo, lun := byte(g.rng.Intn(256)), byte(g.rng.Intn(4))
		prefix := []byte{}
		switch fn {
		case 0x2c:
			prefix = []byte{body}
		case 0x2e:
			prefix = []byte{byte(ent), byte(ent >> 8), byte(ent >> 16)}
		}
		rsp := func(netfn, cmd, cc byte, data []byte) []byte {
			c := cc
			return wrapSessionless(0, specMessage(0x81, netfn|1, 0, 0x20, 1, 0, cmd, &c, prefix, data))
		}
		var items []string
		strayFixed, strayFix = nil, g.rng.Intn(2) == 0
		for i, l := range script {
			bodyB := []byte{0x11, 0x22, byte(i)}
			var r []byte
			switch l {
			case 'L':
				items = append(items, "L")
				continue
			case 'F':
				r = rsp(fn, cmdNo, 0, bodyB)
			case 'E':
				r = rsp(fn, cmdNo, finalErrorCode(g.rng), nil)
			case 'B':
				r = rsp(fn, cmdNo, 0xC0, nil)
			case 'T':
				r = rsp(fn, cmdNo, 0xC3, bodyB)
			case 'X':
				fn2, cmd2, prefix2, cc2, data2 := strayReply(g, fn, cmdNo, prefix)
				c := cc2
				if g.rng.Intn(3) == 0 { // header fields a conforming BMC mirrors: anything at all in a stray
					r = wrapSessionless(0, specMessage(byte(g.rng.Intn(256)), fn2|1, byte(g.rng.Intn(4)), byte(g.rng.Intn(256)), byte(g.rng.Intn(64)), byte(g.rng.Intn(4)), cmd2, &c, prefix2, data2))
				} else {
					r = wrapSessionless(0, specMessage(0x81, fn2|1, 0, 0x20, 1, 0, cmd2, &c, prefix2, data2))
				}
			case 'G':
				r = [][]byte{{6, 0, 0xff}, {6, 0, 0xff, 7}, {0}, rbytes(g.rng, 24)}[g.rng.Intn(4)]
			case 'K':
				r = [][]byte{{6, 0, 0xff, 6, 0, 0, 0, 0}, wrapSessionless(0x11, []byte{0, 1}), wrapSessionless(0x13, rbytes(g.rng, 8))}[g.rng.Intn(3)]
			case 'R':
				r = wrapSessionless(0, []byte{0x81, 0x1c, 0x63, 0x20, 0x04})
			case 'M':
				m := []byte{0x81, (fn | 1) << 2, 0, 0x20, 4, cmdNo}
				m[2] = csum(m[:2])
				r = wrapSessionless(0, append(m, csum(m[3:])))
			case 'Y': // checksum 2 corrupted
				r = rsp(fn, cmdNo, 0, bodyB)
				r[len(r)-1] ^= 1 << g.rng.Intn(8)
			}
			items = append(items, "R:"+hx(r))
		}
		req := hx(rbytes(g.rng, g.rng.Intn(24)))
		g.emit(Op{Class: 'P', NonTrivial: len(script) > 1, Kind: "slsend", Args: []string{itoa(int(fn)), itoa(int(cmdNo)), itoa(int(body)),
			fmt.Sprint(ent), itoa(int(lun)), req, strings.Join(items, ",")}})
	}
	g.emit(Op{Class: 'P', NonTrivial: true, Kind: "slsend", Args: []string{"6", "59", "0", "0", "0", "!", "L"}})
	// histories on one connection: a command answered (also) by replies whose own wrapper carries a non-zero session ID /
	// sequence number, an authenticated flag, or an OEM payload descriptor, followed by other commands
	odd := func(fn, cmdNo byte, cc byte) string {
		c := cc
		m := specMessage(0x81, fn|1, 0, 0x20, 1, 0, cmdNo, &c, nil, []byte{9, 8, 7})
		w := specV2(0, false, false, 0, 0, 0x11223344, 9, m, 0, nil)
		return "R:" + hx(append([]byte{6, 0, 0xff, 7}, w...))
	}
	okR := func(fn, cmdNo byte) string {
		return "R:" + hx(wrapSessionless(0, ipmiRsp(fn, cmdNo, 0, []byte{1})))
	}
	for i := 0; i < 40; i++ {
		var args []string
		n := 2 + g.rng.Intn(3)
		for k := 0; k < n; k++ {
			fn, cmdNo := byte(g.rng.Intn(0x16))<<1, byte(g.rng.Intn(256))
			var items []string
			switch g.rng.Intn(4) {
			case 0:
				items = []string{odd(fn, cmdNo, 0)}
			case 1:
				items = []string{odd(fn, cmdNo, 0xC0), okR(fn, cmdNo)}
			case 2:
				items = []string{"R:" + hx(append([]byte{6, 0, 0xff, 7}, specV2(2, false, false, 0x1234, 7, 5, 6, []byte{1, 2, 3}, 0, nil)...)), okR(fn, cmdNo)}
			default:
				items = []string{okR(fn, cmdNo)}
			}
			if k > 0 {
				args = append(args, "/")
			}
			args = append(args, itoa(int(fn)), itoa(int(cmdNo)), "0", "0", itoa(g.rng.Intn(4)), hx(rbytes(g.rng, g.rng.Intn(12))), strings.Join(items, ","))
		}
		g.emit(Op{Class: 'P', NonTrivial: true, Kind: "slhist", Args: args})
	}
}
