package main

// In-session command exchange (C03 C04 C09 C10 C11): the real V2Session.SendCommand driven through the
// verif transport hook against scripted replies, after a real handshake with the reference BMC.

import (
	"sync"
	"strconv"
	"sort"
	"encoding/binary"
	"net"
	"bytes"
	"context"
	"crypto/rand"
	"errors"
	"fmt"
	"io"
	"strings"
	"time"

	"github.com/gebn/bmc"
	"github.com/gebn/bmc/pkg/iana"
	"github.com/gebn/bmc/pkg/ipmi"
	"github.com/google/gopacket"
)

func init() {
	executors["send"] = execSend
	executors["sendhist"] = execSendHist
	executors["sendseq"] = execSendSeq
	executors["sendm"] = execSendM
	scenarios["sendm"] = genSendM
	executors["hsm"] = execHsM
	scenarios["hsm"] = genHsM
	scenarios["send"] = genSend
}

// cycleReader hands out the bytes of b in order, wrapping around
type cycleReader struct {
	b []byte
	i int
}

func (c *cycleReader) Read(p []byte) (int, error) {
	for k := range p {
		p[k] = c.b[c.i%len(c.b)]
		c.i++
	}
	return len(p), nil
}

// rawBody is a request body given as bytes; fail makes SerializeTo return an error
type rawBody struct {
	b    []byte
	fail bool
}

func (r rawBody) LayerType() gopacket.LayerType { return gopacket.LayerTypePayload }
func (r rawBody) SerializeTo(b gopacket.SerializeBuffer, _ gopacket.SerializeOptions) error {
	if r.fail {
		return errors.New("request cannot be serialised")
	}
	d, err := b.PrependBytes(len(r.b))
	copy(d, r.b)
	return err
}

type capture struct{ got []byte }

func (c *capture) DecodeFromBytes(d []byte, _ gopacket.DecodeFeedback) error {
	c.got = append([]byte(nil), d...)
	return nil
}
func (c *capture) CanDecode() gopacket.LayerClass    { return gopacket.LayerTypePayload }
func (c *capture) NextLayerType() gopacket.LayerType { return gopacket.LayerTypeZero }
func (c *capture) LayerPayload() []byte              { return nil }

type rawCmd struct {
	op  ipmi.Operation
	lun ipmi.LUN
	req rawBody
	rsp capture
}

func (c *rawCmd) Name() string                        { return "raw" }
func (c *rawCmd) Operation() *ipmi.Operation          { return &c.op }
func (c *rawCmd) RemoteLUN() ipmi.LUN                 { return c.lun }
func (c *rawCmd) Request() gopacket.SerializableLayer { return c.req }
func (c *rawCmd) Response() gopacket.DecodingLayer    { return &c.rsp }

var hsEntropy = []byte{1, 2, 3, 4, 5, 6, 7, 8, 9, 10, 11, 12, 13, 14, 15, 16}

const (
	fixedUser = "admin"
	fixedPass = "secret"
)

type sessEnv struct {
	t      *bmc.V2SessionlessTransport
	sess   *bmc.V2Session
	bmc    *simBMC
	sent   [][]byte
	script []string
	pos    int
	cancel context.CancelFunc
	ctx    context.Context
	inSess bool
	recv   []byte
	closeT func()
}

func (e *sessEnv) send(ctx context.Context, p []byte) ([]byte, error) {
	if !e.inSess {
		r := e.bmc.handle(p)
		if r == nil {
			return nil, errors.New("timeout")
		}
		return e.recv[:copy(e.recv, r)], nil
	}
	if e.pos >= len(e.script) {
		// the script is exhausted: the caller's context expires now
		e.cancel()
		return nil, context.Canceled
	}
	e.sent = append(e.sent, append([]byte(nil), p...))
	item := e.script[e.pos]
	e.pos++
	if item == "L" {
		return nil, errors.New("timeout")
	}
	if item == "Lx" { // the datagram left, the reply is lost, and the CALLER's context ends while the library waits for it
		e.cancel()
		return nil, context.DeadlineExceeded
	}
	if item == "W" { // the socket refuses the write (link down, no buffers): nothing leaves, a *net.OpError comes back
		return nil, &net.OpError{Op: "write", Net: "udp", Err: errors.New("network is unreachable")}
	}
	if strings.HasPrefix(item, "R!:") { // deliver this reply and end the caller's context at the same moment
		item = "R:" + strings.TrimPrefix(item, "R!:")
		e.cancel()
	}
	r := unhx(strings.TrimPrefix(item, "R:"))
	for i := range e.recv { // the reused receive buffer holds stale bytes beyond the reply
		e.recv[i] = 0xEE
	}
	return e.recv[:copy(e.recv, r)], nil
}

// openSession performs the real handshake for the suite (auth, integ, AES) with fixed credentials
func openSession(auth, integ byte) (*sessEnv, error) {
	e := &sessEnv{bmc: newSimBMC([]byte(fixedPass), nil), recv: make([]byte, 512)}
	e.ctx, e.cancel = context.WithTimeout(context.Background(), 10*time.Second)
	var closeT func()
	e.t, closeT = newTransport(e.send, 50*time.Millisecond)
	e.closeT = closeT
	old := rand.Reader
	rand.Reader = io.Reader(&cycleReader{b: hsEntropy})
	defer func() { rand.Reader = old }()
	sess, err := e.t.NewV2Session(e.ctx, &bmc.V2SessionOpts{
		SessionOpts: bmc.SessionOpts{Username: fixedUser, Password: []byte(fixedPass), MaxPrivilegeLevel: ipmi.PrivilegeLevelAdministrator},
		CipherSuites: []ipmi.CipherSuite{{AuthenticationAlgorithm: ipmi.AuthenticationAlgorithm(auth),
			IntegrityAlgorithm: ipmi.IntegrityAlgorithm(integ), ConfidentialityAlgorithm: ipmi.ConfidentialityAlgorithmAESCBC128}},
	})
	if err != nil {
		closeT()
		return nil, err
	}
	e.sess = sess
	e.inSess = true
	return e, nil
}

func isTemp(cc byte) bool { return cc == 0xC0 || cc == 0xC3 }

// send <auth> <integ> <k1> <k2> <localID> <remoteID> <inbound> <fn> <cmd> <body> <ent> <lun> <req|!> <entropy> <script>
// (the Lean side ignores <auth>; it is needed here to redo the handshake)
func execSend(a []string) (string, string) {
	auth, integ := byte(atoi(a[0])), byte(atoi(a[1]))
	k1, k2 := unhx(a[2]), unhx(a[3])
	lid, rid, inb := uint32(atoi(a[4])), uint32(atoi(a[5])), uint32(atoi(a[6]))
	fn, cmdNo, body, ent, lun := byte(atoi(a[7])), byte(atoi(a[8])), byte(atoi(a[9])), uint32(atoi(a[10])), byte(atoi(a[11]))
	var req rawBody
	if a[12] == "!" {
		req.fail = true
	} else {
		req.b = unhx(a[12])
	}
	entropy := unhx(a[13])
	var script []string
	if a[14] != "-" {
		script = strings.Split(a[14], ",")
	}
	e, err := openSession(auth, integ)
	if err != nil {
		return "handshake-failed", ""
	}
	defer e.closeT()
	defer e.cancel()
	if !bytes.Equal(e.sess.K(1), k1) || !bytes.Equal(e.sess.K(2)[:16], k2) || e.sess.LocalID != lid || e.sess.RemoteID != rid {
		return "session-differs-from-op", ""
	}
	e.script = script
	if driveScript != nil {
		e.script = driveScript
	}
	e.sess.AuthenticatedSequenceNumbers.Inbound = inb
	old := rand.Reader
	rand.Reader = io.Reader(&cycleReader{b: entropy})
	defer func() { rand.Reader = old }()
	c := &rawCmd{op: ipmi.Operation{Function: ipmi.NetworkFunction(fn), Body: ipmi.BodyCode(body), Enterprise: iana.Enterprise(ent),
		Command: ipmi.CommandNumber(cmdNo)}, lun: ipmi.LUN(lun), req: req}
	res := ""
	code, err := func() (code ipmi.CompletionCode, err error) {
		defer func() {
			if r := recover(); r != nil {
				res = "panic"
			}
		}()
		return e.sess.SendCommand(e.ctx, c)
	}()
	if useUDP {
		udpSettle()
	}
	switch {
	case res == "panic":
	case err == nil:
		res = fmt.Sprintf("ok %d %s", uint8(code), hx(c.rsp.got))
	default:
		res = "err"
	}
	var sh []string
	for _, p := range e.sent {
		sh = append(sh, hx(p))
	}
	ss := "-"
	if len(sh) > 0 {
		ss = strings.Join(sh, ",")
	}
	out := fmt.Sprintf("sent=%s res=%s inbound=%d", ss, res, e.sess.AuthenticatedSequenceNumbers.Inbound)

	// ---- reference verdicts (independent of the model) ----
	if res == "panic" {
		return out, "panic while handling a reply"
	}
	// C03 / C06 / C09: every transmitted datagram opens under the BMC's keys to exactly this command, with
	// consecutive sequence numbers and its own IV draw
	prefix := []byte{}
	switch fn {
	case 0x2c, 0x2d:
		prefix = []byte{body}
	case 0x2e, 0x2f:
		prefix = []byte{byte(ent), byte(ent >> 8), byte(ent >> 16)}
	}
	for i, p := range e.sent {
		r, why := e.bmc.open(p)
		if r == nil {
			return out, fmt.Sprintf("datagram %d is not acceptable to the BMC: %s", i+1, why)
		}
		// below the 32-bit limit: exactly counter+i+1. Beyond it the property's "strictly increasing" cannot hold for any
		// implementation; what remains required there is that no number is used for two datagrams (the exact continuation
		// — the Go counter goes on with 0, 1, … — is compared with the model only)
		if want := uint64(inb) + uint64(i) + 1; want <= 0xffffffff {
			if r.seq != uint32(want) {
				return out, fmt.Sprintf("datagram %d carries sequence number %d, want %d", i+1, r.seq, want)
			}
		} else {
			for j := 0; j < i; j++ {
				if q, _ := e.bmc.open(e.sent[j]); q != nil && q.seq == r.seq {
					return out, fmt.Sprintf("datagrams %d and %d both carry sequence number %d", j+1, i+1, r.seq)
				}
			}
		}
		if r.rsAddr != 0x20 || r.rqAddr != 0x81 || r.netFn != fn || r.lun != lun&3 || r.cmd != cmdNo ||
			!bytes.Equal(r.data, append(append([]byte(nil), prefix...), req.b...)) {
			return out, fmt.Sprintf("datagram %d is not the caller's command: netFn %#x lun %d cmd %#x data %x", i+1, r.netFn, r.lun, r.cmd, r.data)
		}
		if want := entropy[(16*i)%len(entropy):]; len(want) >= 16 && !bytes.Equal(r.iv, want[:16]) {
			return out, fmt.Sprintf("datagram %d does not use its own IV draw", i+1)
		}
	}
	// C04 / C10 / C11: the documented contract — the first acceptable reply with a non-temporary code ends the call
	want, wantSent := "err", len(script)
	if req.fail {
		wantSent = 0
	} else {
		for i, item := range script {
			if item == "L" {
				wantSent = i + 1
				break
			}
			r, _ := openReply(unhx(strings.TrimPrefix(strings.TrimPrefix(item, "R!:"), "R:")), lid, integ, k1, k2)
			if r == nil || r.netFn != fn|1 || r.cmd != cmdNo || len(r.data) < len(prefix) || !bytes.Equal(r.data[:len(prefix)], prefix) {
				continue
			}
			if isTemp(r.cc) {
				continue
			}
			want, wantSent = fmt.Sprintf("ok %d %s", r.cc, hx(r.data[len(prefix):])), i+1
			break
		}
	}
	if res != want {
		return out, fmt.Sprintf("result is %q; the first authentic final response of the script gives %q", res, want)
	}
	if len(e.sent) != wantSent {
		return out, fmt.Sprintf("%d datagrams transmitted, the contract gives %d", len(e.sent), wantSent)
	}
	return out, ""
}

// sendhist <auth> <integ> <k1> <k2> <localID> <remoteID> <n> <entropy>: n commands on one session, every reply lost
func execSendHist(a []string) (string, string) {
	auth, integ := byte(atoi(a[0])), byte(atoi(a[1]))
	k1, k2 := unhx(a[2]), unhx(a[3])
	n := atoi(a[6])
	entropy := unhx(a[7])
	e, err := openSession(auth, integ)
	if err != nil {
		return "handshake-failed", ""
	}
	defer e.cancel()
	if !bytes.Equal(e.sess.K(1), k1) || !bytes.Equal(e.sess.K(2)[:16], k2) {
		return "session-differs-from-op", ""
	}
	old := rand.Reader
	rand.Reader = io.Reader(&cycleReader{b: entropy})
	defer func() { rand.Reader = old }()
	for i := 0; i < n; i++ {
		e.script, e.pos = []string{"L"}, 0
		c := &rawCmd{op: ipmi.Operation{Function: ipmi.NetworkFunctionAppReq, Command: 0x01}}
		e.sess.SendCommand(e.ctx, c)
	}
	var ivs []byte
	var seqs []string
	seen := map[string]int{}
	verdict := ""
	for i, p := range e.sent {
		r, why := e.bmc.open(p)
		if r == nil {
			return fmt.Sprintf("n=%d", len(e.sent)), fmt.Sprintf("datagram %d is not acceptable to the BMC: %s", i+1, why)
		}
		ivs = append(ivs, r.iv...)
		seqs = append(seqs, fmt.Sprint(r.seq))
		if j, dup := seen[string(r.iv)]; dup && verdict == "" {
			verdict = fmt.Sprintf("datagram %d reuses the initialisation vector of datagram %d", i+1, j+1)
		}
		seen[string(r.iv)] = i
	}
	return fmt.Sprintf("n=%d ivs=%s seqs=[%s]", len(e.sent), hx(ivs), strings.Join(seqs, ", ")), verdict
}

// sendseq <auth> <integ> <k1> <k2> <localID> <remoteID> <inbound> <entropy> <script>|<script>|…: a HISTORY of commands
// (Get Device ID each) on one session, each with its own reply script over {R:<datagram>, L (read timeout), W (socket
// write error)}: the sequence numbers of all datagrams handed to the transport, the result class of each command and
// the final counter
func execSendSeq(a []string) (string, string) {
	auth, integ := byte(atoi(a[0])), byte(atoi(a[1]))
	k1, k2 := unhx(a[2]), unhx(a[3])
	inb := uint32(atoi(a[6]))
	entropy := unhx(a[7])
	e, err := openSession(auth, integ)
	if err != nil {
		return "handshake-failed", ""
	}
	defer e.cancel()
	if !bytes.Equal(e.sess.K(1), k1) || !bytes.Equal(e.sess.K(2)[:16], k2) {
		return "session-differs-from-op", ""
	}
	e.sess.AuthenticatedSequenceNumbers.Inbound = inb
	old := rand.Reader
	rand.Reader = io.Reader(&cycleReader{b: entropy})
	defer func() { rand.Reader = old }()
	var results []string
	for _, sc := range strings.Split(a[8], "|") {
		e.script, e.pos = nil, 0
		if sc != "-" {
			e.script = strings.Split(sc, ",")
		}
		// a fresh context per command (the scripted transport cancels it when a script runs out)
		e.ctx, e.cancel = context.WithTimeout(context.Background(), 10*time.Second)
		c := &rawCmd{op: ipmi.Operation{Function: ipmi.NetworkFunctionAppReq, Command: 0x01}}
		_, err := e.sess.SendCommand(e.ctx, c)
		e.cancel()
		if err == nil {
			results = append(results, "ok")
		} else {
			results = append(results, "err")
		}
	}
	var seqs []string
	seen := map[uint32]int{}
	verdict := ""
	for i, p := range e.sent {
		if len(p) < 14 {
			return "short-datagram", "a transmitted datagram is shorter than a session header"
		}
		q := binary.LittleEndian.Uint32(p[10:14])
		seqs = append(seqs, fmt.Sprint(q))
		if j, dup := seen[q]; dup && verdict == "" {
			verdict = fmt.Sprintf("datagram %d reuses the session sequence number %d of datagram %d", i+1, q, j+1)
		}
		seen[q] = i
		// exact value below the 32-bit limit only (beyond it: no reuse, above; the continuation is compared with the model)
		if want := uint64(inb) + uint64(i) + 1; want <= 0xffffffff && uint64(q) != want && verdict == "" {
			verdict = fmt.Sprintf("datagram %d carries sequence number %d, want %d", i+1, q, want)
		}
	}
	return fmt.Sprintf("seqs=[%s] res=[%s] inbound=%d", strings.Join(seqs, ", "), strings.Join(results, ", "),
		e.sess.AuthenticatedSequenceNumbers.Inbound), verdict
}

// sendm <15 send args>: the same in-session command, reporting what the exported metrics did during the call:
// retries / failures of "raw" / attempts of "raw" / responses per completion code (C18 at the wire: the Lean side derives
// each attempt's outcome from the BYTES of the scripted replies)
func execSendM(a []string) (string, string) {
	metricsMu.Lock()
	defer metricsMu.Unlock()
	before := gather()
	out, verdict := execSend(a)
	after := gather()
	d := func(key string) int { return int(after[key] - before[key]) }
	resp := map[int]int{}
	for k := range after {
		if v := d(k); v != 0 && strings.HasPrefix(k, "bmc_command_responses_total|code=") {
			code := strings.TrimPrefix(k, "bmc_command_responses_total|code=")
			n, _ := strconv.ParseInt(strings.SplitN(strings.TrimPrefix(code, "0x"), "(", 2)[0], 16, 32)
			resp[int(n)] = v
		}
	}
	var ks []int
	for k := range resp {
		ks = append(ks, k)
	}
	sort.Ints(ks)
	var rp []string
	for _, k := range ks {
		rp = append(rp, fmt.Sprintf("%d:%d", k, resp[k]))
	}
	rs := "-"
	if len(rp) > 0 {
		rs = strings.Join(rp, ",")
	}
	res := "err"
	if i := strings.Index(out, " res="); i >= 0 && strings.HasPrefix(out[i+5:], "ok") {
		res = "ok"
	}
	// the handshake of the op's own session is not part of what is measured: one session open, no command of its own
	return fmt.Sprintf("res=%s retries=%d attempts=%d failures=%d responses=%s", res, d("bmc_command_retries_total"),
		d("bmc_command_attempts_total|command=raw"), d("bmc_command_failures_total|command=raw"), rs), verdict
}

var metricsMu sync.Mutex

// hsm <12 hs args>: the handshake of `hs`, measured at the default gatherer — session establishment counts one attempt,
// one failure exactly when no session came back, raises the open-sessions gauge exactly when one did, and issues no
// command of its own (nothing else moves)
func execHsM(a []string) (string, string) {
	metricsMu.Lock()
	defer metricsMu.Unlock()
	before := gather()
	// an established session is closed again (the reply to Close Session is lost — the script is exhausted —, which is
	// the documented case "we regard sessions that failed to close cleanly as closed")
	closed := "-"
	var mid snapshot
	hsAfter = func(run *hsRun) {
		mid = gather()
		if run.sess != nil {
			ctx, cancel := context.WithTimeout(context.Background(), 300*time.Millisecond)
			defer cancel()
			closed = "ok"
			if err := run.sess.Close(ctx); err != nil {
				closed = "err"
			}
		}
	}
	out, verdict := execHs(a)
	hsAfter = nil
	after := gather()
	if mid == nil {
		mid = after
	}
	d := func(key string) int { return int(mid[key] - before[key]) }
	res := "err"
	if i := strings.Index(out, " res="); i >= 0 && strings.HasPrefix(out[i+5:], "ok") {
		res = "ok"
	}
	other := 0
	for k := range mid {
		switch k {
		case "bmc_session_open_attempts_total", "bmc_session_open_failures_total", "bmc_sessions_open":
		default:
			// the scenario's own connection: dialled inside the measured window, closed inside it
			if strings.HasPrefix(k, "bmc_connection") || strings.HasPrefix(k, "bmc_v2_connection") {
				continue
			}
			if v := d(k); v != 0 {
				other++
				if verdict == "" {
					verdict = fmt.Sprintf("%s moved by %d during session establishment", k, v)
				}
			}
		}
	}
	// the Close that followed: one attempt of "Close Session", the gauge back where it was
	d2 := func(key string) int { return int(after[key] - mid[key]) }
	closeAtt, gaugeEnd := d2("bmc_command_attempts_total|command=Close Session"), int(after["bmc_sessions_open"]-before["bmc_sessions_open"])
	o := fmt.Sprintf("res=%s attempts=%d failures=%d open=%d other=%d closed=%s close_attempts=%d open_after=%d", res, d("bmc_session_open_attempts_total"),
		d("bmc_session_open_failures_total"), d("bmc_sessions_open"), other, closed, closeAtt, gaugeEnd)
	if verdict == "" {
		want := map[string][3]int{"ok": {1, 0, 1}, "err": {1, 1, 0}}[res]
		if got := [3]int{d("bmc_session_open_attempts_total"), d("bmc_session_open_failures_total"), d("bmc_sessions_open")}; got != want {
			verdict = fmt.Sprintf("establishment ended %q: attempts/failures/open-gauge moved by %v, want %v", res, got, want)
		}
	}
	if verdict == "" && res == "ok" && (gaugeEnd != 0 || closeAtt != 1) {
		verdict = fmt.Sprintf("an established session was closed: the open-sessions gauge ends %+d from where it started, Close Session attempts %d (want 0 and 1)", gaugeEnd, closeAtt)
	}
	return o, verdict
}

func genHsM(g *genCtx) {
	var ops []Op
	sub := &genCtx{rng: g.rng, tier: g.tier, stat: map[string]int{}}
	sub.emit = func(op Op) { ops = append(ops, op) }
	scenarios["hs"](sub)
	every := 6
	if g.thorough() {
		every = 1
	}
	k := 0
	for _, op := range ops {
		if op.Kind != "hs" {
			continue
		}
		if k++; k%every != 0 {
			continue
		}
		op.Kind = "hsm"
		g.emit(op)
	}
}

func genSendM(g *genCtx) {
	sp := learnSession(1, 1)
	alphabet := "FEBTXUVWSNCPAHJQGKRMZL"
	depth := 2
	n := 0
	var rec func(prefix string, d int)
	rec = func(prefix string, d int) {
		if d == 0 {
			n++
			var items []string
			strayFixed, strayFix = nil, g.rng.Intn(2) == 0
			for i, l := range prefix {
				if l == 'L' {
					items = append(items, "L")
				} else {
					items = append(items, replyFor(g, sp, byte(l), 0x06, 0x01, nil, i+1))
				}
			}
			last := prefix[len(prefix)-1]
			if !strings.ContainsRune("FEAL", rune(last)) {
				if g.rng.Intn(2) == 0 {
					items = append(items, "L")
				} else {
					items[len(items)-1] = "R!:" + strings.TrimPrefix(items[len(items)-1], "R:")
				}
			}
			g.emit(Op{Class: 'P', NonTrivial: len(prefix) > 1, Kind: "sendm", Args: []string{itoa(int(sp.auth)), itoa(int(sp.integ)), hx(sp.k1), hx(sp.k2),
				fmt.Sprint(sp.lid), fmt.Sprint(sp.rid), "0", "6", "1", "0", "0", "0", "-", hx(rbytes(g.rng, 16*(len(items)+1))), strings.Join(items, ",")}})
			return
		}
		for _, a := range alphabet {
			rec(prefix+string(a), d-1)
		}
	}
	if g.thorough() {
		depth = 3
	}
	for d := 1; d <= depth; d++ {
		rec("", d)
	}
}

// sessKeys runs the handshake once per suite to learn the (constant) session parameters
type sessParams struct {
	auth, integ byte
	k1, k2      []byte
	lid, rid    uint32
}

func learnSession(auth, integ byte) sessParams {
	e, err := openSession(auth, integ)
	if err != nil {
		panic(fmt.Sprint("handshake failed for suite ", auth, "/", integ, ": ", err))
	}
	defer e.cancel()
	return sessParams{auth, integ, append([]byte(nil), e.sess.K(1)...), append([]byte(nil), e.sess.K(2)[:16]...), e.sess.LocalID, e.sess.RemoteID}
}

// replyFor builds one scripted reply of the given class for the command
func replyFor(g *genCtx, sp sessParams, class byte, fn, cmdNo byte, prefix []byte, attempt int) string {
	b := newSimBMC([]byte(fixedPass), nil)
	b.integ, b.conf, b.sidm, b.k1, b.k2 = sp.integ, 1, sp.lid, sp.k1, sp.k2
	b.outSeq = uint32(100 + attempt)
	// the BMC's outbound counter is its own: mostly small and increasing with the attempt, sometimes far ahead of / behind
	// the previous reply's, at the extremes, or repeated (seed C10-B12: a rejected reply's number was recorded)
	switch g.rng.Intn(10) {
	case 0:
		b.outSeq = g.rng.Uint32()
	case 1:
		b.outSeq = uint32(0x00100000 + g.rng.Intn(1<<16) - 50*attempt)
	case 2:
		b.outSeq = []uint32{0, 1, 0xFFFFFFFF, 0x7FFFFFFF, 0x80000000}[g.rng.Intn(5)]
	case 3:
		b.outSeq = uint32(1000 - attempt)
	}
	forgedSeq := []uint32{1, 1, 0, b.outSeq, 0x00100000 + uint32(g.rng.Intn(1<<16)), 0xFFFFFFFF, g.rng.Uint32()}[g.rng.Intn(7)]
	b.ivCtr = byte(g.rng.Intn(256))
	rsp := func(netfn, cmd, cc byte, data []byte) []byte {
		c := cc
		return specMessage(0x81, netfn|1, 0, 0x20, 1, 0, cmd, &c, prefix, data)
	}
	body := []byte{0x11, 0x22, 0x33, byte(attempt)}
	// strays and forgeries: the message header fields a conforming BMC mirrors (addresses, LUNs, requester sequence number)
	// are anything at all in a third of them — none of them makes such a reply acceptable
	rspAny := func(netfn, cmd, cc byte, px, data []byte) []byte {
		c := cc
		if g.rng.Intn(3) == 0 {
			return specMessage(byte(g.rng.Intn(256)), netfn|1, byte(g.rng.Intn(4)), byte(g.rng.Intn(256)), byte(g.rng.Intn(64)), byte(g.rng.Intn(4)), cmd, &c, px, data)
		}
		return specMessage(0x81, netfn|1, 0, 0x20, 1, 0, cmd, &c, px, data)
	}
	var r []byte
	switch class {
	case 'F':
		r = b.seal(rsp(fn, cmdNo, 0, body))
	case 'E':
		r = b.seal(rsp(fn, cmdNo, finalErrorCode(g.rng), nil))
	case 'B':
		r = b.seal(rsp(fn, cmdNo, 0xC0, nil))
	case 'T':
		r = b.seal(rsp(fn, cmdNo, 0xC3, body))
	case 'X': // authentic reply to another command (any completion code, with or without a body)
		fn2, cmd2, prefix2, cc2, data2 := strayReply(g, fn, cmdNo, prefix)
		r = b.seal(rspAny(fn2, cmd2, cc2, prefix2, data2))
	case 'U': // forged: no AuthCode, no encryption, attacker's session ID
		r = b.sealWith(rspAny(fn, cmdNo, 0, prefix, []byte{0x66}), 0xDEADBEEF, forgedSeq, false, false, nil, nil)
	case 'V': // authenticated flag cleared, plaintext, our session ID
		r = b.sealWith(rspAny(fn, cmdNo, 0, prefix, []byte{0x67}), sp.lid, forgedSeq, false, false, nil, nil)
	case 'W': // authentic under K1 but addressed to another session
		r = b.sealWith(rspAny(fn, cmdNo, 0, prefix, body), 0x12345678, b.outSeq, true, true, sp.k1, sp.k2)
	case 'S': // one bit of the AuthCode flipped
		r = b.seal(rsp(fn, cmdNo, 0, body))
		r[len(r)-1-g.rng.Intn(8)] ^= 1 << g.rng.Intn(8)
	case 'N': // signed with another key
		other := append([]byte(nil), sp.k1...)
		other[0] ^= 0xff
		r = b.sealWith(rsp(fn, cmdNo, 0, body), sp.lid, b.outSeq, true, true, other, sp.k2)
	case 'C': // one bit of the signed header / ciphertext flipped
		r = b.seal(rsp(fn, cmdNo, 0, body))
		i := 4 + g.rng.Intn(len(r)-4-16)
		r[i] ^= 1 << g.rng.Intn(8)
	case 'Z': // authentic response with one bit of the RMCP header flipped (the four bytes the AuthCode does not cover)
		r = b.seal(rsp(fn, cmdNo, 0, body))
		r[g.rng.Intn(4)] ^= 1 << g.rng.Intn(8)
	case 'P': // valid AuthCode over a payload whose confidentiality pad is wrong
		// any message length (pads of 0…15 bytes, and the 16-byte pad an OpenSSL-style BMC produces for a message of
		// length 15 mod 16); ONE byte of the pad — any of them, the first included — or the pad-length byte is wrong
		msg := rsp(fn, cmdNo, 0, rbytes(g.rng, g.rng.Intn(24)))
		padn := 15 - len(msg)%16
		if padn == 0 && g.rng.Intn(2) == 0 {
			padn = 16
		}
		pt := append([]byte(nil), msg...)
		for i := 1; i <= padn; i++ {
			pt = append(pt, byte(i))
		}
		pt = append(pt, byte(padn))
		at := len(msg) + g.rng.Intn(padn+1)
		pt[at] ^= 1 << g.rng.Intn(8)
		var key [16]byte
		copy(key[:], sp.k2)
		payload := rawAES(key, rbytes(g.rng, 16), pt)
		w := specV2(0, true, true, 0, 0, sp.lid, b.outSeq, payload, int(sp.integ), sp.k1)
		r = append([]byte{6, 0, 0xff, 7}, w...)
	case 'H': // forged: authenticated flag SET, plaintext message, our session ID, and NO trailer at all
		msg := rsp(fn, cmdNo, 0, []byte{0x68})
		w := []byte{6, 0x40}
		w = append(w, le32b(sp.lid)...)
		w = append(w, le32b(b.outSeq)...)
		w = append(w, le16b(uint16(len(msg)))...)
		r = append([]byte{6, 0, 0xff, 7}, append(w, msg...)...)
	case 'J': // authentic response cut exactly at the end of the payload (pad, pad length, next header, AuthCode gone)
		full := b.seal(rsp(fn, cmdNo, 0, body))
		plen := int(full[14]) | int(full[15])<<8
		r = full[:16+plen]
	case 'Q': // authentic response whose AuthCode is cut short by 1..all of its bytes, or extended by junk
		full := b.seal(rsp(fn, cmdNo, 0, body))
		_, il := integParams(sp.integ)
		if g.rng.Intn(4) == 0 {
			r = append(full, rbytes(g.rng, 1+g.rng.Intn(8))...)
		} else {
			r = full[:len(full)-1-g.rng.Intn(il)]
		}
	case 'A': // authentic but not encrypted
		r = b.sealWith(rsp(fn, cmdNo, 0, body), sp.lid, b.outSeq, false, true, sp.k1, sp.k2)
	case 'G':
		r = [][]byte{{6, 0, 0xff}, {6, 0, 0xff, 7}, {6, 0, 0xff, 7, 6}, {}, rbytes(g.rng, 20)}[g.rng.Intn(5)]
		if len(r) == 0 {
			r = []byte{0}
		}
	case 'K': // decodable, but the chain ends before a message layer
		r = [][]byte{{6, 0, 0xff, 6, 0, 0, 0, 0}, wrapSessionless(0x11, []byte{0, 1}), {6, 0, 0xff, 7, 0, 0, 0, 0, 0, 0, 0, 0, 0, 0}}[g.rng.Intn(3)]
	case 'R': // authentic packet whose message is too short
		r = b.seal([]byte{0x81, 0x1c, 0x63, 0x20, 0x04})
	case 'M': // authentic 7-byte response (no completion code), checksums valid
		m := []byte{0x81, (fn | 1) << 2, 0, 0x20, 4, cmdNo}
		m[2] = csum(m[:2])
		m = append(m, csum(m[3:]))
		r = b.seal(m)
	}
	return "R:" + hx(r)
}

// strayReply picks a response that belongs to ANOTHER operation than (fn, cmdNo, prefix): another NetFn, another command
// number, or - for group-extension / OEM NetFns - the same NetFn and command under another defining body / enterprise
// number; with any completion code (normal, temporary, error) and with or without data
// strayFixed: when non-nil, every stray of the current script is a duplicate of this one other operation (late duplicates
// of ONE earlier command are the realistic case); generators reset it per script
type strayOp struct {
	fn, cmd byte
	prefix  []byte
}

var strayFixed *strayOp
var strayFix bool

func strayReply(g *genCtx, fn, cmdNo byte, prefix []byte) (fn2, cmd2 byte, prefix2 []byte, cc byte, data []byte) {
	if strayFix && strayFixed != nil {
		cc = []byte{0, 0, 0, 0xC0, 0xC3, 0xC1, 0xCC, 0xD4, 0xFF, byte(g.rng.Intn(256))}[g.rng.Intn(10)]
		if g.rng.Intn(3) != 0 {
			data = []byte{0x99, 0x98}
		}
		return strayFixed.fn, strayFixed.cmd, strayFixed.prefix, cc, data
	}
	defer func() {
		if strayFix {
			strayFixed = &strayOp{fn2, cmd2, prefix2}
		}
	}()
	fn2, cmd2, prefix2 = fn, cmdNo, append([]byte(nil), prefix...)
	k := g.rng.Intn(3)
	if k == 2 && len(prefix) == 0 {
		k = g.rng.Intn(2)
	}
	switch k {
	case 0:
		fn2 = fn ^ 2
		if (fn2 == 0x2c || fn2 == 0x2e) != (fn == 0x2c || fn == 0x2e) || fn2 == 0x2c || fn2 == 0x2e {
			// keep the message well-formed: a group / OEM NetFn needs its prefix
			switch fn2 {
			case 0x2c:
				prefix2 = []byte{0xdc}
			case 0x2e:
				prefix2 = []byte{1, 2, 3}
			default:
				prefix2 = nil
			}
		}
	case 1:
		if g.rng.Intn(2) == 0 {
			cmd2 = cmdNo ^ (1 << uint(g.rng.Intn(8))) // near miss: one bit of the command number
		} else {
			cmd2 = cmdNo + 1 + byte(g.rng.Intn(254))
		}
	case 2:
		prefix2[g.rng.Intn(len(prefix2))] ^= 1 << uint(g.rng.Intn(8))
	}
	cc = []byte{0, 0, 0, 0xC0, 0xC3, 0xC1, 0xCC, 0xD4, 0xFF, byte(g.rng.Intn(256))}[g.rng.Intn(10)]
	if g.rng.Intn(3) != 0 {
		data = []byte{0x99, 0x98}
	}
	return
}

func genSend(g *genCtx) {
	alphabet := "FEBTXUVWSNCPAHJQGKRMZL"
	suites := [][2]byte{{1, 1}, {3, 4}, {2, 2}, {1, 4}, {3, 1}}
	depth := 3
	if g.thorough() {
		depth = 4
	}
	var params []sessParams
	for _, s := range suites {
		params = append(params, learnSession(s[0], s[1]))
	}
	var scripts []string
	var rec func(prefix string, d int)
	rec = func(prefix string, d int) {
		if d == 0 {
			scripts = append(scripts, prefix)
			return
		}
		for _, a := range alphabet {
			// a script continues only after a non-terminal letter; L, F, E, A end it
			rec(prefix+string(a), d-1)
		}
	}
	for d := 1; d <= depth; d++ {
		rec("", d)
	}
	// … and a SAMPLE of long scripts (4…9 attempts: non-terminal letters, then any letter): what needs a fourth attempt, a
	// wrapping ring, an every-other-step repair
	nonTerminal := ""
	for _, a := range alphabet {
		if !strings.ContainsRune("FEAL", a) {
			nonTerminal += string(a)
		}
	}
	deep := 250
	if g.thorough() {
		deep = 4000
	}
	for i := 0; i < deep; i++ {
		n := 4 + g.rng.Intn(6)
		sc := ""
		for j := 0; j < n-1; j++ {
			sc += string(nonTerminal[g.rng.Intn(len(nonTerminal))])
		}
		scripts = append(scripts, sc+string(alphabet[g.rng.Intn(len(alphabet))]))
	}
	emit := func(sp sessParams, script string, inb uint32, fn, cmdNo, body byte, ent uint32, lun byte, req []byte, fail bool) {
		prefix := []byte{}
		switch fn {
		case 0x2c:
			prefix = []byte{body}
		case 0x2e:
			prefix = []byte{byte(ent), byte(ent >> 8), byte(ent >> 16)}
		}
		var items []string
		nontrivial := false
		strayFixed, strayFix = nil, g.rng.Intn(2) == 0
		for i, l := range script {
			if l == 'L' {
				items = append(items, "L")
			} else {
				items = append(items, replyFor(g, sp, byte(l), fn, cmdNo, prefix, i+1))
			}
			if i < len(script)-1 {
				nontrivial = true
			}
		}
		// the script always ends in something terminal for a session: add a final answer when the last letter is not
		last := script[len(script)-1]
		if !strings.ContainsRune("FEAL", rune(last)) {
			if g.rng.Intn(2) == 0 {
				items = append(items, "L")
			} else {
				// the caller's context ends while the library is handling this last (retryable) reply: the retry loop
				// gives up in its back-off, with an error, and nothing further is transmitted
				items[len(items)-1] = "R!:" + strings.TrimPrefix(items[len(items)-1], "R:")
			}
		}
		entropy := rbytes(g.rng, 16*(len(items)+1))
		rq := hx(req)
		if fail {
			rq = "!"
		}
		class := byte('P')
		if uint64(inb)+uint64(len(items)) > 0xffffffff {
			class = 'M' // the counter wraps during this op: outside the domain of the sequence-number theorems
		}
		g.emit(Op{Class: class, NonTrivial: nontrivial, Kind: "send", Args: []string{itoa(int(sp.auth)), itoa(int(sp.integ)), hx(sp.k1), hx(sp.k2),
			fmt.Sprint(sp.lid), fmt.Sprint(sp.rid), fmt.Sprint(inb), itoa(int(fn)), itoa(int(cmdNo)), itoa(int(body)), fmt.Sprint(ent),
			itoa(int(lun)), rq, hx(entropy), strings.Join(items, ",")}})
	}
	for si, sp := range params {
		for _, script := range scripts {
			if si > 0 && len(script) >= depth {
				continue // full depth on the first suite; one level less on the others
			}
			if g.thorough() && len(script) == 4 && g.rng.Intn(4) != 0 {
				continue // depth 4 is sampled (1 in 4) in the thorough tier
			}
			fn := byte(g.rng.Intn(0x16)) << 1
			var body byte
			var ent uint32
			switch g.rng.Intn(8) {
			case 0:
				fn, body = 0x2c, byte(g.rng.Intn(256))
			case 1:
				fn, ent = 0x2e, uint32(g.rng.Intn(1<<24))
			}
			// request lengths cover every residue mod 16 (AES pad) and mod 4 (integrity pad)
			req := rbytes(g.rng, g.rng.Intn(40))
			// the counter the session starts from: mostly small, sometimes right below a boundary (16-bit, 31-bit, and the
			// 32-bit wrap, where the Go counter continues with 0, 1, …)
			inb := uint32(g.rng.Intn(1000))
			if g.rng.Intn(6) == 0 {
				inb = []uint32{0xfffffffc, 0xfffffffd, 0xfffffffe, 0xffffffff, 0x7ffffffe, 0x7fffffff, 0xfffe, 0xffff}[g.rng.Intn(8)]
			}
			emit(sp, script, inb, fn, byte(g.rng.Intn(256)), body, ent, byte(g.rng.Intn(4)), req, false)
		}
		// every request length 0…63 answered at once; counters near the 32-bit limit; a request that cannot be serialised
		for n := 0; n < 64; n++ {
			emit(sp, "F", []uint32{0, 1, 0xfffffffd, 0x7fffffff}[n%4], 0x06, 0x01, 0, 0, 0, rbytes(g.rng, n), false)
		}
		// a long history on one session: IVs must all be fresh draws (80 commands, thorough 300)
		hn := 80
		if g.thorough() {
			hn = 300
		}
		g.emit(Op{Class: 'P', NonTrivial: true, Kind: "sendhist", Args: []string{itoa(int(sp.auth)), itoa(int(sp.integ)), hx(sp.k1), hx(sp.k2),
			fmt.Sprint(sp.lid), fmt.Sprint(sp.rid), itoa(hn), hx(rbytes(g.rng, 16*hn))}})
		emit(sp, "F", 0, 0x06, 0x3b, 0, 0, 0, nil, true)
		emit(sp, "BF", 7, 0x06, 0x3b, 0, 0, 0, nil, true)
		// histories of commands with mixed outcomes, incl. socket WRITE errors (nothing leaves; a *net.OpError comes back)
		// on first attempts and on retries: the numbers handed to the transport stay consecutive, none is reused
		hist := 30
		if g.thorough() {
			hist = 400
		}
		for n := 0; n < hist; n++ {
			inb0 := []uint32{0, 0, 5, 0xfffffff0, 0xfffffffb, 0xfffffffe, 0xffffffff, 0x7ffffffd}[g.rng.Intn(8)]
			var scripts []string
			attempt := 0
			for c := 0; c < 2+g.rng.Intn(9); c++ {
				var items []string
				terminal := false
				for k := 0; k < 1+g.rng.Intn(4) && !terminal; k++ {
					attempt++
					l := "FBBGSXWWLx"[g.rng.Intn(10)]
					switch l {
					case 'W', 'L':
						items = append(items, string(l))
					case 'x':
						items = append(items, "Lx")
					default:
						items = append(items, replyFor(g, sp, byte(l), 0x06, 0x01, nil, attempt))
					}
					terminal = l == 'F' || l == 'W' || l == 'L' || l == 'x'
				}
				if !terminal { // every script ends in something terminal for a session
					attempt++
					items = append(items, []string{"L", "W", "Lx"}[g.rng.Intn(3)])
				}
				scripts = append(scripts, strings.Join(items, ","))
			}
			class := byte('P')
			if uint64(inb0)+uint64(attempt) > 0xffffffff {
				class = 'M' // the counter wraps during this history
			}
			g.emit(Op{Class: class, NonTrivial: true, Kind: "sendseq", Args: []string{itoa(int(sp.auth)), itoa(int(sp.integ)), hx(sp.k1), hx(sp.k2),
				fmt.Sprint(sp.lid), fmt.Sprint(sp.rid), fmt.Sprint(inb0), hx(rbytes(g.rng, 16*(attempt+len(scripts)+2))), strings.Join(scripts, "|")}})
		}
	}
}

