package main

// C08: serialise-then-decode round trips through gopacket.SerializeLayers and DecodeFromBytes.

import (
	"bytes"
	"crypto/rand"
	"fmt"
	"io"
	"strings"

	"github.com/gebn/bmc/pkg/iana"
	"github.com/gebn/bmc/pkg/ipmi"
	"github.com/google/gopacket"
)

func init() {
	executors["rt"] = execRt
	scenarios["rt"] = genRt
}

var serOpts = gopacket.SerializeOptions{FixLengths: true, ComputeChecksums: true}

type fixedReader struct{ b []byte }

func (f *fixedReader) Read(p []byte) (int, error) {
	for i := range p {
		p[i] = f.b[i%len(f.b)]
	}
	return len(p), nil
}

func withEntropy(b []byte, f func()) {
	old := rand.Reader
	rand.Reader = io.Reader(&fixedReader{b})
	defer func() { rand.Reader = old }()
	f()
}

// stripBase removes the Contents/Payload entries from a dump
func stripBase(d string) string {
	var out []string
	for _, f := range strings.Fields(d) {
		if strings.HasPrefix(f, "Contents=") || strings.HasPrefix(f, "Payload=") {
			continue
		}
		out = append(out, f)
	}
	return strings.Join(out, " ")
}

// staleSeen is set when a serialisation turned out to depend on what an earlier packet left in the (reused) buffer;
// safeExec turns it into the op's verdict
var staleSeen string

// dirtyBuffer is a serialise buffer as a connection holds it after earlier packets: gopacket's Clear() only resets the
// indices, PrependBytes / AppendBytes hand back whatever the backing array holds
func dirtyBuffer(fill byte) gopacket.SerializeBuffer {
	buf := gopacket.NewSerializeBuffer()
	if b, err := buf.PrependBytes(700); err == nil {
		for i := range b {
			b[i] = fill
		}
	}
	if b, err := buf.AppendBytes(700); err == nil {
		for i := range b {
			b[i] = fill
		}
	}
	buf.Clear()
	return buf
}

// serialize runs gopacket.SerializeLayers into a fresh buffer AND into buffers holding stale bytes (FFh, A5h); the
// bytes must not depend on the buffer's history. Returns the reused-buffer result.
func serialize(ls ...gopacket.SerializableLayer) ([]byte, error) {
	buf := gopacket.NewSerializeBuffer()
	if err := gopacket.SerializeLayers(buf, serOpts, ls...); err != nil {
		return nil, err
	}
	fresh := append([]byte(nil), buf.Bytes()...)
	out := fresh
	for _, fill := range []byte{0xFF, 0xA5} {
		d := dirtyBuffer(fill)
		if err := gopacket.SerializeLayers(d, serOpts, ls...); err != nil {
			staleSeen = "serialisation fails in a reused buffer although it succeeds in a fresh one"
			return nil, err
		}
		if !bytes.Equal(d.Bytes(), fresh) {
			staleSeen = fmt.Sprintf("serialised bytes depend on what an earlier packet left in the buffer: fresh %x, reused (filled with %02x) %x", fresh, fill, d.Bytes())
			out = append([]byte(nil), d.Bytes()...)
		} else if fill == 0xA5 {
			// the same values serialised again and again into the same buffer (cleared in between, as a connection does):
			// the 2nd … 6th result must be the first (skipped for layers that draw randomness per serialisation)
			for k := 2; k <= 6; k++ {
				d.Clear()
				if err := gopacket.SerializeLayers(d, serOpts, ls...); err != nil {
					staleSeen = fmt.Sprintf("serialisation %d of the same values into one buffer fails", k)
					break
				}
				if !bytes.Equal(d.Bytes(), fresh) {
					staleSeen = fmt.Sprintf("serialisation %d of the same values into one buffer differs from the first: %x vs %x", k, d.Bytes(), fresh)
					break
				}
			}
		}
	}
	return out, nil
}

// roundTrip serialises l over inner, decodes into fresh, compares fields and payload, re-serialises.
func roundTrip(l interface {
	gopacket.SerializableLayer
	gopacket.DecodingLayer
}, fresh interface {
	gopacket.SerializableLayer
	gopacket.DecodingLayer
}, inner []byte, hide map[string]bool) (string, string) {
	b, err := serialize(l, gopacket.Payload(inner))
	if err != nil {
		return "err", ""
	}
	want := stripBase(dumpLayer(l, hide))
	if err := fresh.DecodeFromBytes(append([]byte(nil), b...), gopacket.NilDecodeFeedback); err != nil {
		return hx(b), "decoding the serialised bytes failed: " + err.Error()
	}
	got := stripBase(dumpLayer(fresh, hide))
	if got != want {
		return hx(b), "decoded fields differ from the serialised value: " + got + " vs " + want
	}
	if !bytes.Equal(fresh.LayerPayload(), inner) {
		return hx(b), "decoded payload differs from the inner payload"
	}
	b2, err := serialize(fresh, gopacket.Payload(fresh.LayerPayload()))
	if err != nil || !bytes.Equal(b, b2) {
		return hx(b), "re-serialising the decoded value gives different bytes"
	}
	return hx(b), ""
}

func execRt(a []string) (out string, verdict string) {
	defer func() {
		if r := recover(); r != nil {
			out, verdict = "panic", fmt.Sprint("panic: ", r)
		}
	}()
	switch a[0] {
	case "message":
		n := func(i int) int { return atoi(a[i]) }
		mk := func() *ipmi.Message {
			return &ipmi.Message{
				Operation: ipmi.Operation{Function: ipmi.NetworkFunction(n(1)), Body: ipmi.BodyCode(n(2)),
					Enterprise: iana.Enterprise(n(3)), Command: ipmi.CommandNumber(n(4))},
				RemoteAddress: ipmi.Address(n(5)), RemoteLUN: ipmi.LUN(n(6)), LocalAddress: ipmi.Address(n(7)),
				LocalLUN: ipmi.LUN(n(8)), Sequence: uint8(n(9)), CompletionCode: ipmi.CompletionCode(n(10)),
			}
		}
		return roundTrip(mk(), &ipmi.Message{}, unhx(a[11]), nil)
	case "v2":
		n := func(i int) int { return atoi(a[i]) }
		hide := map[string]bool{"IntegrityAlgorithm": true, "ConfidentialityLayerType": true}
		l := &ipmi.V2Session{
			PayloadDescriptor: ipmi.PayloadDescriptor{PayloadType: ipmi.PayloadType(n(2)), Enterprise: iana.Enterprise(n(5)), PayloadID: uint16(n(6))},
			Encrypted:         n(3) == 1, Authenticated: n(4) == 1, ID: uint32(n(7)), Sequence: uint32(n(8)),
			IntegrityAlgorithm: integrity(n(1), testK1),
		}
		return roundTrip(l, &ipmi.V2Session{IntegrityAlgorithm: integrity(n(1), testK1)}, unhx(a[9]), hide)
	case "aes":
		iv, msg := unhx(a[1]), unhx(a[2])
		withEntropy(iv, func() {
			l, _ := ipmi.NewAES128CBC(testK2)
			f, _ := ipmi.NewAES128CBC(testK2)
			out, verdict = roundTrip(l, f, msg, nil)
		})
		return
	}
	return "no-such-rt", ""
}

func genRt(g *genCtx) {
	maxLen := 200
	if g.thorough() {
		maxLen = 480
	}
	rt := func(class byte, args ...interface{}) {
		s := make([]string, len(args))
		for i, a := range args {
			s[i] = fmt.Sprint(a)
		}
		g.emit(Op{Class: class, NonTrivial: true, Kind: "rt", Args: s})
	}
	// message: every NetFn class x payload lengths
	for n := 0; n <= maxLen; n++ {
		for _, fn := range []int{0x06, 0x07, 0x2c, 0x2d, 0x2e, 0x2f, g.rng.Intn(64)} {
			body, ent, cc := 0, 0, 0
			if fn == 0x2c || fn == 0x2d {
				body = g.rng.Intn(256)
			}
			if fn == 0x2e || fn == 0x2f {
				ent = g.rng.Intn(1 << 24)
			}
			if fn%2 == 1 {
				cc = g.rng.Intn(256)
			}
			rt('P', "message", fn, body, ent, g.rng.Intn(256), g.rng.Intn(256), g.rng.Intn(4), g.rng.Intn(256), g.rng.Intn(4),
				g.rng.Intn(64), cc, hx(rbytes(g.rng, n)))
		}
	}
	// v2 wrapper: integrity algorithms x flags x OEM x payload lengths
	for n := 0; n <= maxLen; n++ {
		for _, alg := range []int{0, 1, 2, 4} {
			for _, auth := range []int{0, 1} {
				pt := []int{0, 0x10, 0x12, 2, g.rng.Intn(64)}[g.rng.Intn(5)]
				ent, pid := 0, 0
				if pt == 2 {
					ent, pid = int(g.rng.Uint32()), g.rng.Intn(65536)
				}
				p := rbytes(g.rng, n)
				if n > 0 && g.rng.Intn(4) == 0 {
					p[n-1] = 0xff
				}
				rt('P', "v2", alg, pt, g.rng.Intn(2), auth, ent, pid, g.rng.Uint32(), g.rng.Uint32(), hx(p))
			}
		}
	}
	// AES: every message length
	for n := 0; n <= maxLen; n++ {
		rt('P', "aes", hx(rbytes(g.rng, 16)), hx(rbytes(g.rng, n)))
	}
}
