package main

// Session-setup response layers (group Sess): Get Channel Authentication Capabilities, Get Channel
// Cipher Suites, Set Session Privilege Level, Get System GUID, Get Session Info.
// (Get Chassis Status is registered in dec_basic.go.)

import (
	"math/rand"

	"github.com/gebn/bmc/pkg/ipmi"
	"github.com/google/gopacket"
)

// sessInfoValid draws a specification-conforming Get Session Info response body of the given form:
//
//	0: no session found (handle 00, 3 bytes)
//	1: active session, no channel-specific data (6 bytes)
//	2: active LAN session (18 bytes: IP, MAC, port)
//	3: active serial/modem session (6 + activity type, destination selector, PPP IP [, port])
//	4: the Super Micro form pinned by the repository's tests: handle 00 but session fields present
func sessInfoValid(rng *rand.Rand, form int) []byte {
	max := rng.Intn(64)
	b := []byte{byte(1 + rng.Intn(254)), byte(max), byte(rng.Intn(max + 1))} // handle FF reserved; active ≤ possible
	if form == 0 {
		b[0] = 0
		return b
	}
	if form == 4 {
		b[0] = 0
		form = 1 + rng.Intn(2)
	}
	b = append(b, byte(rng.Intn(64)), byte(rng.Intn(16)), byte(rng.Intn(2))<<4|byte(rng.Intn(16)))
	switch form {
	case 2:
		b = append(b, rbytes(rng, 12)...)
	case 3:
		b = append(b, rbytes(rng, 6+2*rng.Intn(2))...)
	}
	return b
}

func init() {
	registerLayer(&layerSpec{
		name:  "authcaps",
		fresh: func() gopacket.DecodingLayer { return &ipmi.GetChannelAuthenticationCapabilitiesRsp{} },
		min:   8,
		valid: func(rng *rand.Rand) []byte {
			b := rbytes(rng, 8)
			b[0] &= 0x0f          // 7:4 reserved
			b[1] &= 0xb7          // bits 6 and 3 reserved
			b[2] &= 0x3f          // 7:6 reserved
			b[3] &= 0x03          // 7:2 reserved
			if rng.Intn(3) == 0 { // no OEM authentication type: IANA and data are null
				b[1] &^= 0x20
				b[4], b[5], b[6], b[7] = 0, 0, 0, 0
			}
			return b
		},
		extra: func(g *genCtx, emit func(byte, bool, []byte, []byte, []byte)) {
			// every single flag bit on its own, and all flags set, after an all-ones and an all-zero body
			ones := []byte{0x0f, 0xb7, 0x3f, 0x03, 0xff, 0xff, 0xff, 0xff}
			zero := make([]byte, 8)
			emit('P', true, ones, zero, nil)
			emit('P', true, zero, ones, nil)
			for i := 1; i <= 3; i++ {
				for bit := 0; bit < 8; bit++ {
					d := make([]byte, 8)
					d[i] = 1 << bit
					cls := byte('P')
					if d[i]&[]byte{0, 0xb7, 0x3f, 0x03}[i] == 0 {
						cls = 'M' // a reserved bit
					}
					emit(cls, true, ones, d, nil)
					emit(cls, true, nil, d, []byte{0xEE, 0xEE})
				}
			}
			// reserved bits set everywhere
			emit('M', true, zero, []byte{0xff, 0xff, 0xff, 0xff, 0xff, 0xff, 0xff, 0xff, 0xff}, nil)
		},
	})
	registerLayer(&layerSpec{
		name:  "ciphersuites",
		fresh: func() gopacket.DecodingLayer { return &ipmi.GetChannelCipherSuitesRsp{} },
		min:   1,
		valid: func(rng *rand.Rand) []byte {
			// channel, then 0…16 bytes of record data (16 unless this is the last chunk)
			n := 16
			if rng.Intn(2) == 0 {
				n = rng.Intn(17)
			}
			b := rbytes(rng, 1+n)
			b[0] &= 0x0f
			return b
		},
		extra: func(g *genCtx, emit func(byte, bool, []byte, []byte, []byte)) {
			// every chunk length 0…16 and trailing bytes beyond 17, after every other length (reuse), and as a
			// window into a poisoned buffer (the chunk aliases the input)
			var all [][]byte
			for n := 0; n <= 20; n++ {
				b := rbytes(g.rng, 1+n)
				b[0] &= 0x0f
				all = append(all, b)
			}
			for i, d := range all {
				cls := byte('P')
				if i > 16 {
					cls = 'M'
				}
				emit(cls, true, nil, d, []byte{0xEE, 0xEE, 0xEE, 0xEE})
				for _, p := range all {
					emit(cls, true, p, d, nil)
				}
			}
		},
	})
	registerLayer(&layerSpec{
		name:  "setpriv",
		fresh: func() gopacket.DecodingLayer { return &ipmi.SetSessionPrivilegeLevelRsp{} },
		min:   1,
		valid: func(rng *rand.Rand) []byte { return []byte{byte(rng.Intn(16))} },
		extra: func(g *genCtx, emit func(byte, bool, []byte, []byte, []byte)) {
			for v := 0; v < 256; v++ {
				cls := byte('P')
				if v > 15 {
					cls = 'M'
				}
				emit(cls, true, nil, []byte{byte(v)}, nil)
				emit(cls, true, []byte{byte(g.rng.Intn(16))}, []byte{byte(v)}, []byte{0xEE})
			}
			// the length must be exactly 1
			emit('P', false, nil, nil, []byte{0xEE, 0xEE})
			for n := 2; n <= 4; n++ {
				emit('M', true, nil, rbytes(g.rng, n), nil)
				emit('M', true, []byte{4}, rbytes(g.rng, n), []byte{0xEE})
			}
		},
	})
	registerLayer(&layerSpec{
		name:  "guid",
		fresh: func() gopacket.DecodingLayer { return &ipmi.GetSystemGUIDRsp{} },
		min:   16,
		valid: func(rng *rand.Rand) []byte { return rbytes(rng, 16) },
		extra: func(g *genCtx, emit func(byte, bool, []byte, []byte, []byte)) {
			ones := []byte{0xff, 0xff, 0xff, 0xff, 0xff, 0xff, 0xff, 0xff, 0xff, 0xff, 0xff, 0xff, 0xff, 0xff, 0xff, 0xff}
			emit('P', true, ones, make([]byte, 16), nil)
			emit('P', true, make([]byte, 16), ones, []byte{0xEE, 0xEE})
			// trailing bytes are ignored (and never become Payload)
			for n := 17; n <= 20; n++ {
				emit('M', true, ones, rbytes(g.rng, n), nil)
			}
		},
	})
	registerLayer(&layerSpec{
		name:  "sessioninfo",
		fresh: func() gopacket.DecodingLayer { return &ipmi.GetSessionInfoRsp{} },
		min:   3,
		valid: func(rng *rand.Rand) []byte { return sessInfoValid(rng, rng.Intn(5)) },
		extra: func(g *genCtx, emit func(byte, bool, []byte, []byte, []byte)) {
			poison := []byte{0xEE, 0xEE, 0xEE, 0xEE, 0xEE, 0xEE, 0xEE, 0xEE, 0xEE, 0xEE, 0xEE, 0xEE, 0xEE, 0xEE, 0xEE, 0xEE, 0xEE, 0xEE, 0xEE, 0xEE}
			// one representative (or several) of every branch of the decoder …
			type rep struct {
				cls  byte
				data []byte
			}
			var reps []rep
			for round := 0; round < 3; round++ {
				for form := 0; form <= 4; form++ {
					reps = append(reps, rep{'P', sessInfoValid(g.rng, form)})
				}
				// every length 3…21 with a zero and with a non-zero handle (3…5 with handle ≠ 0 and 4, 5 with
				// handle 0 must be rejected; 6…17 ignore the tail; ≥ 18 read IP, MAC and port)
				for n := 3; n <= 21; n++ {
					for _, h := range []byte{0, byte(1 + g.rng.Intn(255))} {
						d := rbytes(g.rng, n)
						d[0] = h
						reps = append(reps, rep{'M', d})
					}
				}
			}
			// (an earlier input the real decoder rejects cannot precede anything: keep the accepted ones as `prev`)
			usable := map[string]bool{}
			for _, p := range reps {
				l := &ipmi.GetSessionInfoRsp{}
				usable[string(p.data)] = l.DecodeFromBytes(window(p.data, nil), gopacket.NilDecodeFeedback) == nil
			}
			// … alone in a poisoned window, and after every other one (reuse across all branch combinations:
			// the IP / MAC / port / user fields of an earlier, longer response must not survive)
			for _, d := range reps {
				emit(d.cls, true, nil, d.data, poison)
				for _, p := range reps {
					if usable[string(p.data)] {
						emit(d.cls, true, p.data, d.data, nil)
					}
				}
			}
			// reserved bits: counts and user ID above 6 bits, privilege above 4 bits, protocol ≠ 0/1
			full := sessInfoValid(g.rng, 2)
			for i := 1; i <= 5; i++ {
				for bit := 0; bit < 8; bit++ {
					d := append([]byte(nil), full...)
					d[i] ^= 1 << bit
					emit('M', true, full, d, nil)
					emit('M', true, nil, d[:6], poison)
				}
			}
			for proto := 0; proto < 16; proto++ {
				d := append([]byte(nil), full...)
				d[5] = byte(proto)<<4 | d[5]&0x0f
				cls := byte('M')
				if proto < 2 {
					cls = 'P'
				}
				emit(cls, true, nil, d, nil)
			}
		},
	})
}
