package main

// Cipher-suite selection (C12): the real NewV2Session with a preference list against a reference BMC that advertises
// a set of suites through Get Channel Cipher Suites.

import (
	"errors"
	"fmt"
	"strings"

	"github.com/gebn/bmc"
	"github.com/gebn/bmc/pkg/ipmi"
)

func init() {
	executors["suite"] = execSuite
	executors["suiterec"] = execSuiteRec
	scenarios["suite"] = genSuite
}

type suiteT [3]byte

func parseSuites(s string) []suiteT {
	if s == "-" {
		return nil
	}
	var out []suiteT
	for _, x := range strings.Split(s, ";") {
		var a, i, c int
		fmt.Sscanf(x, "%d/%d/%d", &a, &i, &c)
		out = append(out, suiteT{byte(a), byte(i), byte(c)})
	}
	return out
}

func fmtSuites(l []suiteT) string {
	if len(l) == 0 {
		return "-"
	}
	var p []string
	for _, s := range l {
		p = append(p, fmt.Sprintf("%d/%d/%d", s[0], s[1], s[2]))
	}
	return strings.Join(p, ";")
}

// suite <prefs> <advertised|fail>
func execSuite(a []string) (string, string) {
	prefs := parseSuites(a[0])
	fail := a[1] == "fail"
	adv := parseSuites(a[1])
	// cipher suite records: C0 id, auth, 0x40|integ, 0x80|conf
	var data []byte
	for k, s := range adv {
		data = append(data, 0xC0, byte(k+1), s[0], 0x40|s[1], 0x80|s[2])
	}
	return suiteRun(prefs, fail, adv, data)
}

// suiterec <prefs> <records>: records `id,iana|-,auth,i1+i2+…|-,c1+c2+…|-` separated by `;` — standard (C0h) and OEM
// (C1h + 3-byte IANA) records with any number of integrity / confidentiality algorithms (none = "implicitly none", 0)
// and possibly repeated IDs; what the BMC advertises is every (auth, integrity, confidentiality) combination of each
func execSuiteRec(a []string) (string, string) {
	prefs := parseSuites(a[0])
	var data []byte
	var adv []suiteT
	for _, rs := range strings.Split(a[1], ";") {
		f := strings.Split(rs, ",")
		if len(f) != 5 {
			return "bad-op", ""
		}
		id, auth := byte(atoi(f[0])), byte(atoi(f[2]))
		if f[1] == "-" {
			data = append(data, 0xC0, id)
		} else {
			n := atoi(f[1])
			data = append(data, 0xC1, id, byte(n), byte(n>>8), byte(n>>16))
		}
		data = append(data, auth)
		algs := func(x string) []byte {
			if x == "-" {
				return nil
			}
			var out []byte
			for _, v := range strings.Split(x, "+") {
				out = append(out, byte(atoi(v)))
			}
			return out
		}
		is, cs := algs(f[3]), algs(f[4])
		for _, i := range is {
			data = append(data, 0x40|i)
		}
		for _, c := range cs {
			data = append(data, 0x80|c)
		}
		if len(is) == 0 {
			is = []byte{0}
		}
		if len(cs) == 0 {
			cs = []byte{0}
		}
		for _, i := range is {
			for _, c := range cs {
				adv = append(adv, suiteT{auth, i, c})
			}
		}
	}
	return suiteRun(prefs, false, adv, data)
}

func suiteRun(prefs []suiteT, fail bool, adv []suiteT, data []byte) (string, string) {
	o := hsOpts{user: []byte(fixedUser), pass: []byte(fixedPass), priv: 4, rm: hsEntropy, bmcPass: []byte(fixedPass)}
	b := newSimBMC(o.bmcPass, nil)
	discovery := false
	b.dispatcher = func(netfn, cmd byte, d []byte) []byte {
		if netfn == 0x06 && cmd == 0x54 && len(d) >= 3 {
			discovery = true
			if fail {
				return ipmiRsp(netfn, cmd, 0xC1, nil)
			}
			idx := int(d[2] & 0x3f)
			lo := idx * 16
			if lo > len(data) {
				lo = len(data)
			}
			hi := lo + 16
			if hi > len(data) {
				hi = len(data)
			}
			return ipmiRsp(netfn, cmd, 0, append([]byte{d[0] & 0x0f}, data[lo:hi]...))
		}
		return ipmiRsp(netfn, cmd, 0xC1, nil)
	}
	var suites []ipmi.CipherSuite
	for _, s := range prefs {
		suites = append(suites, ipmi.CipherSuite{AuthenticationAlgorithm: ipmi.AuthenticationAlgorithm(s[0]),
			IntegrityAlgorithm: ipmi.IntegrityAlgorithm(s[1]), ConfidentialityAlgorithm: ipmi.ConfidentialityAlgorithm(s[2])})
	}
	proposed := "none"
	res := ""
	run := runHandshakeWith(o, suites, func(i int, p []byte) ([]byte, bool, bool) {
		if pl := setupPayload(p, 0x10); pl != nil && len(pl) == 32 && proposed == "none" {
			proposed = fmt.Sprintf("%d/%d/%d", pl[12]&0x3f, pl[20]&0x3f, pl[28]&0x3f)
		}
		r := b.handle(p)
		if r == nil {
			return nil, false, false
		}
		return r, false, true
	})
	switch {
	case strings.HasPrefix(run.res, "ok "):
		res = "ok"
	case run.errIs(bmc.ErrNoSupportedCipherSuite):
		res = "nosuite"
	default:
		res = run.res
		if res == "badpw" {
			res = "err"
		}
	}
	out := fmt.Sprintf("proposed=%s discovery=%s res=%s", proposed, b2s(discovery), res)
	if run.res == "panic" {
		return out, "panic during session establishment"
	}
	// reference: first preference (defaults 17 then 3) that is advertised; a single preference needs no discovery
	desired := prefs
	if len(desired) == 0 {
		desired = []suiteT{{3, 4, 1}, {1, 1, 1}}
	}
	want, wantDisc := "none", len(desired) != 1
	if len(desired) == 1 {
		want = fmt.Sprintf("%d/%d/%d", desired[0][0], desired[0][1], desired[0][2])
	} else if !fail {
		for _, d := range desired {
			found := false
			for _, x := range adv {
				if x == d {
					found = true
				}
			}
			if found {
				want = fmt.Sprintf("%d/%d/%d", d[0], d[1], d[2])
				break
			}
		}
	}
	if proposed != want {
		return out, fmt.Sprintf("proposed %s; the caller's first supported preference is %s", proposed, want)
	}
	if discovery != wantDisc {
		return out, fmt.Sprintf("discovery=%v, expected %v", discovery, wantDisc)
	}
	if want == "none" && !fail && res != "nosuite" {
		return out, "no preference is advertised: expected the no-supported-cipher-suite error, got " + res
	}
	if res == "ok" && run.sess != nil {
		got := fmt.Sprintf("%d/%d/%d", run.sess.AuthenticationAlgorithm, run.sess.IntegrityAlgorithm, run.sess.ConfidentialityAlgorithm)
		if got != want {
			return out, "session algorithms " + got + " differ from the proposal " + want
		}
	}
	return out, ""
}

func genSuite(g *genCtx) {
	universe := []suiteT{{3, 4, 1}, {1, 1, 1}, {2, 2, 1}, {1, 4, 1}, {3, 1, 1}}
	// every ordered preference list of length 0…4 without repeats over the universe x every advertised subset
	var lists [][]suiteT
	var rec func(cur []suiteT, used int)
	rec = func(cur []suiteT, used int) {
		lists = append(lists, append([]suiteT(nil), cur...))
		if len(cur) == 4 || (!g.thorough() && len(cur) == 3) {
			return
		}
		for i, s := range universe {
			if used&(1<<i) == 0 {
				rec(append(cur, s), used|1<<i)
			}
		}
	}
	rec(nil, 0)
	for _, l := range lists {
		for mask := 0; mask < 1<<len(universe); mask++ {
			if !g.thorough() && len(l) == 3 && mask%3 != 0 {
				continue
			}
			var adv []suiteT
			// advertised in a rotated order, so that order of advertisement does not decide
			for k := range universe {
				i := (k + mask) % len(universe)
				if mask&(1<<i) != 0 {
					adv = append(adv, universe[i])
				}
			}
			g.emit(Op{Class: 'P', NonTrivial: len(l) > 1, Kind: "suite", Args: []string{fmtSuites(l), fmtSuites(adv)}})
		}
		g.emit(Op{Class: 'P', NonTrivial: len(l) > 1, Kind: "suite", Args: []string{fmtSuites(l), "fail"}})
		// the same list with one of its suites repeated at the end / in the middle: the first occurrence decides
		if len(l) >= 2 && len(l) <= 3 {
			for _, dup := range [][]suiteT{append(append([]suiteT(nil), l...), l[0]), append(append([]suiteT{l[0], l[1]}, l[0]), l[1:]...)} {
				for mask := 1; mask < 1<<len(universe); mask += 1 + len(l) {
					var adv []suiteT
					for i := range universe {
						if mask&(1<<i) != 0 {
							adv = append(adv, universe[i])
						}
					}
					g.emit(Op{Class: 'P', NonTrivial: true, Kind: "suite", Args: []string{fmtSuites(dup), fmtSuites(adv)}})
				}
			}
		}
	}
	// advertisements as real BMCs make them: records listing several integrity / confidentiality algorithms (one entry
	// per combination, all under ONE ID), OEM records, IDs repeated between records, records straddling the 16-byte pages
	nrec := 300
	if g.thorough() {
		nrec = 5000
	}
	for n := 0; n < nrec; n++ {
		var prefs []suiteT
		for _, i := range g.rng.Perm(len(universe))[:g.rng.Intn(4)] {
			prefs = append(prefs, universe[i])
		}
		// preference lists may repeat a suite (the first occurrence decides) …
		for len(prefs) > 0 && g.rng.Intn(3) == 0 {
			at := g.rng.Intn(len(prefs) + 1)
			d := prefs[g.rng.Intn(len(prefs))]
			prefs = append(prefs[:at], append([]suiteT{d}, prefs[at:]...)...)
		}
		// … and may name suites the library cannot support ahead of ones it can
		if g.rng.Intn(6) == 0 {
			bad := []suiteT{{1, 0, 1}, {1, 1, 0}, {0, 1, 1}, {3, 4, 2}}[g.rng.Intn(4)]
			at := g.rng.Intn(len(prefs) + 1)
			prefs = append(prefs[:at], append([]suiteT{bad}, prefs[at:]...)...)
		}
		pick := func(pool []byte) string {
			k := g.rng.Intn(4)
			if k == 0 {
				return "-"
			}
			var out []string
			for _, i := range g.rng.Perm(len(pool))[:k] {
				out = append(out, itoa(int(pool[i])))
			}
			return strings.Join(out, "+")
		}
		var recs []string
		nr := 1 + g.rng.Intn(5)
		if n%8 == 3 {
			// a LONG advertisement (up to 80 records ≤ 960 bytes = 60 pages of 16): everything past the first few pages
			// still counts, e.g. the only supported preference may be the last record
			nr = 20 + g.rng.Intn(61)
		}
		for r := 0; r < nr; r++ {
			id := []int{1, 2, 3, 17, 0x80}[g.rng.Intn(5)] // few IDs: repeats are likely
			iana := "-"
			if g.rng.Intn(3) == 0 {
				iana = itoa([]int{0, 10876, 0x012345, 674}[g.rng.Intn(4)])
			}
			recs = append(recs, fmt.Sprintf("%d,%s,%d,%s,%s", id, iana, []int{1, 2, 3}[g.rng.Intn(3)], pick([]byte{1, 2, 3, 4}), pick([]byte{1, 2, 3})))
		}
		g.emit(Op{Class: 'P', NonTrivial: len(prefs) != 1, Kind: "suiterec", Args: []string{fmtSuites(prefs), strings.Join(recs, ";")}})
	}
	// unsupported single preferences
	for _, s := range []suiteT{{1, 0, 1}, {1, 1, 0}, {0, 1, 1}, {3, 4, 2}, {4, 4, 1}} {
		g.emit(Op{Class: 'P', NonTrivial: true, Kind: "suite", Args: []string{fmtSuites([]suiteT{s}), "-"}})
	}
}

var _ = errors.New
