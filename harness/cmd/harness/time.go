package main

// C13: blocking calls against a misbehaving BMC over REAL UDP sockets (no hook): wall-clock duration vs the
// context's deadline.

import (
	"bytes"
	"github.com/cenkalti/backoff/v4"
	"strings"
	"math/rand"
	"context"
	"fmt"
	"net"
	"sync"
	"time"

	"github.com/gebn/bmc"
	"github.com/gebn/bmc/pkg/ipmi"
)

func init() {
	executors["time"] = execTime
	scenarios["time"] = genTime
	scenarios["flood"] = genFlood
}

const timeAllowance = 250 * time.Millisecond

type udpBMC struct {
	conn  *net.UDPConn
	sim   *simBMC
	mu    sync.Mutex
	fault string // "" = behave
	after int    // datagrams still to be answered properly before the fault sets in
	T     time.Duration
	D     time.Duration // the caller's deadline of the op (fault holeflood: when the datagram stream starts)
	flood bool          // the stream has been started
	dev   *c14Device
	done  chan struct{}
}

func newUDPBMC() (*udpBMC, error) {
	c, err := net.ListenUDP("udp4", &net.UDPAddr{IP: net.IPv4(127, 0, 0, 1)})
	if err != nil {
		return nil, err
	}
	u := &udpBMC{conn: c, sim: newSimBMC([]byte(fixedPass), nil), done: make(chan struct{})}
	gg := &genCtx{rng: rand.New(rand.NewSource(7)), tier: "quick", stat: map[string]int{}}
	u.dev = &c14Device{recs: c14Repo(gg, 3, true, 100), maxReserves: 1 << 30, cancel: func() {}}
	u.sim.dispatcher = func(netfn, cmd byte, data []byte) []byte {
		switch {
		case netfn == 0x0a:
			return u.dev.dispatch(netfn, cmd, data)
		case netfn == 0x06 && cmd == 0x01:
			return ipmiRsp(netfn, cmd, 0, []byte{0x20, 0x81, 0x02, 0x15, 0x02, 0xbf, 0x57, 0x01, 0x00, 0x34, 0x12})
		case netfn == 0x06 && cmd == 0x3c:
			return ipmiRsp(netfn, cmd, 0, nil)
		case netfn == 0x06 && cmd == 0x37:
			return ipmiRsp(netfn, cmd, 0, make([]byte, 16))
		case netfn == 0x06 && cmd == 0x54 && len(data) == 3:
			// Get Channel Cipher Suites: suites 8, 3, 17 with an OEM record in between — 23 bytes, i.e. two pages
			all := []byte{0xC0, 8, 2, 0x42, 0x81, 0xC1, 0x80, 0x2a, 0x2b, 0x2c, 1, 0x41, 0x81, 0xC0, 3, 1, 0x41, 0x81, 0xC0, 17, 3, 0x44, 0x81}
			lo := int(data[2]&0x3f) * 16
			if lo > len(all) {
				lo = len(all)
			}
			hi := lo + 16
			if hi > len(all) {
				hi = len(all)
			}
			return ipmiRsp(netfn, cmd, 0, append([]byte{0x01}, all[lo:hi]...))
		}
		return ipmiRsp(netfn, cmd, 0xC1, nil)
	}
	go u.serve()
	return u, nil
}

// arm: "fault" or "fault@k" (the BMC answers k more datagrams properly, then the fault sets in)
func (u *udpBMC) arm(fault string, T time.Duration) {
	u.mu.Lock()
	u.after = 0
	if i := strings.Index(fault, "@"); i >= 0 {
		u.after = atoi(fault[i+1:])
		fault = fault[:i]
	}
	u.fault, u.T = fault, T
	u.mu.Unlock()
}

func (u *udpBMC) serve() {
	buf := make([]byte, 2048)
	for {
		n, addr, err := u.conn.ReadFromUDP(buf)
		if err != nil {
			close(u.done)
			return
		}
		p := append([]byte(nil), buf[:n]...)
		u.mu.Lock()
		fault, T := u.fault, u.T
		if u.after > 0 {
			u.after--
			fault = ""
		}
		var r []byte
		delay := time.Duration(0)
		switch fault {
		case "", "none":
			r = u.sim.handle(p)
		case "blackhole":
		case "holeflood":
			// silent while the first call lasts (its reply is MISSED); from shortly after that call's deadline on, a datagram of no
			// meaning every 10 ms for seven seconds, whatever is asked: the next call on the connection meets a peer that never
			// stops talking (seed C05-B15: a drain loop in the transport that only ends when the socket falls silent)
			if !u.flood {
				u.flood = true
				go func(a *net.UDPAddr, after time.Duration) {
					time.Sleep(after)
					junk := []byte{6, 0, 0xff, 7, 9, 9, 9, 9, 9, 9}
					for end := time.Now().Add(7 * time.Second); time.Now().Before(end); time.Sleep(10 * time.Millisecond) {
						if _, err := u.conn.WriteToUDP(junk, a); err != nil {
							return
						}
					}
				}(addr, u.D+40*time.Millisecond)
			}
		case "late":
			r = u.sim.handle(p)
			delay = T + 60*time.Millisecond
		case "garbage":
			r = []byte{6, 0, 0xff, 7, 1, 2, 3}
		case "huge": // far longer than the transport's receive buffer: the read is truncated, nothing decodes
			r = append([]byte{6, 0, 0xff, 7, 6, 0}, bytes.Repeat([]byte{0xAA}, 1400)...)
		case "busy":
			if len(p) > 16 && p[5]&0x3f == 0 { // IPMI payload: answer node busy (session-less form; in a session it is just noise)
				r = wrapSessionless(0, ipmiRsp(p[17]>>2, p[21], 0xC0, nil))
				if req, _ := u.sim.open(p); req != nil {
					r = u.sim.seal(ipmiRsp(req.netFn, req.cmd, 0xC0, nil))
				}
			} else {
				r = []byte{6, 0, 0xff, 7}
			}
		case "trunc":
			if full := u.sim.handle(p); len(full) > 18 {
				r = full[:18]
				r[14], r[15] = 2, 0
			}
		}
		u.mu.Unlock()
		if r != nil {
			go func(r []byte, d time.Duration, a *net.UDPAddr) {
				if d > 0 {
					time.Sleep(d)
				}
				u.conn.WriteToUDP(r, a)
			}(r, delay, addr)
		}
	}
}

func (u *udpBMC) close() { u.conn.Close(); <-u.done }

var (
	timeCache   = map[string][2]string{}
	timeCacheMu sync.Mutex
)

// time <call> <T_ms> <D_ms> <fault>
func execTime(a []string) (string, string) {
	key := fmt.Sprint(a)
	timeCacheMu.Lock()
	if r, ok := timeCache[key]; ok {
		timeCacheMu.Unlock()
		return r[0], r[1]
	}
	timeCacheMu.Unlock()
	out, v := doTime(a)
	// lateness is a wall-clock measurement: a machine busy with other checks can delay one run by more than the allowance.
	// A call that really outlives its deadline does so on every run, so a late run is confirmed twice before it is reported.
	// (the same holds for the control runs against a well-behaved BMC: on a loaded machine a reply can miss its attempt's
	// timeout, which legitimately fails an in-session command)
	flaky := func() bool {
		return strings.Contains(out, "late=1") || strings.Contains(out, "late2=1") || (len(a) > 3 && a[3] == "none" && !strings.HasPrefix(out, "res=ok"))
	}
	for i := 0; i < 2 && flaky(); i++ {
		out, v = doTime(a)
	}
	timeCacheMu.Lock()
	timeCache[key] = [2]string{out, v}
	timeCacheMu.Unlock()
	return out, v
}

func doTime(a []string) (string, string) {
	call, T, D, fault := a[0], time.Duration(atoi(a[1]))*time.Millisecond, time.Duration(atoi(a[2]))*time.Millisecond, a[3]
	u, err := newUDPBMC()
	if err != nil {
		return "no-socket", ""
	}
	defer u.close()
	// the per-attempt timeout reaches the connection through WithTimeout or, later, through SetTimeout; the
	// version-agnostic Dial must give the same connection
	var t *bmc.V2SessionlessTransport
	switch atoi(a[1]) % 3 {
	case 0:
		t, err = bmc.DialV2(u.conn.LocalAddr().String(), bmc.WithTimeout(T))
	case 1:
		t, err = bmc.DialV2(u.conn.LocalAddr().String(), bmc.WithTimeout(7*T+time.Second))
		if err == nil {
			t.SetTimeout(T)
		}
	default:
		var st bmc.SessionlessTransport
		st, err = bmc.Dial(context.Background(), u.conn.LocalAddr().String(), bmc.WithTimeout(T))
		if err == nil {
			t = st.(*bmc.V2SessionlessTransport)
		}
	}
	if err != nil {
		return "dial-failed", ""
	}
	defer t.Close()
	// a trailing "f" on the call name: a constant 5 ms back-off instead of the 500 ms exponential default, so that a deadline
	// of a few hundred ms sees MANY attempts (what only shows at the fourth or later attempt of one call)
	if strings.HasSuffix(call, "f") {
		call = strings.TrimSuffix(call, "f")
		bmc.VerifSetBackOff(t, backoff.NewConstantBackOff(5*time.Millisecond))
	}
	var sess *bmc.V2Session
	if call == "cmd" || call == "close" || call == "sdr" {
		ctx, cancel := context.WithTimeout(context.Background(), 5*time.Second)
		sess, err = t.NewV2Session(ctx, &bmc.V2SessionOpts{
			SessionOpts:  bmc.SessionOpts{Username: fixedUser, Password: []byte(fixedPass), MaxPrivilegeLevel: ipmi.PrivilegeLevelAdministrator},
			CipherSuites: []ipmi.CipherSuite{ipmi.CipherSuite3},
		})
		cancel()
		if err != nil {
			return "handshake-failed", ""
		}
	}
	u.mu.Lock()
	u.D = D
	u.mu.Unlock()
	u.arm(fault, T)
	// one call under the fault; with a fifth argument "again" the SAME call is then made a second time on the same
	// connection / session while the fault persists (a failed call must not make the next one report success)
	once1 := func() (string, bool, time.Duration) {
		ctx, cancel := context.WithDeadline(context.Background(), time.Now().Add(D))
		defer cancel()
		start := time.Now()
		var err error
		switch call {
		case "sl":
			_, err = t.GetSystemGUID(ctx)
		case "hs":
			_, err = t.NewV2Session(ctx, &bmc.V2SessionOpts{
				SessionOpts:  bmc.SessionOpts{Username: fixedUser, Password: []byte(fixedPass), MaxPrivilegeLevel: ipmi.PrivilegeLevelAdministrator},
				CipherSuites: []ipmi.CipherSuite{ipmi.CipherSuite3},
			})
		case "hsd": // the default preference list: discovery (two pages) precedes the three exchanges
			_, err = t.NewSession(ctx, &bmc.SessionOpts{Username: fixedUser, Password: []byte(fixedPass), MaxPrivilegeLevel: ipmi.PrivilegeLevelAdministrator})
		case "cmd":
			_, err = sess.GetDeviceID(ctx)
		case "close":
			err = sess.Close(ctx)
		case "sdr":
			_, err = bmc.RetrieveSDRRepository(ctx, sess)
		}
		elapsed := time.Since(start)
		res := "ok"
		if err != nil {
			res = "err"
		}
		return res, elapsed > D+timeAllowance, elapsed
	}
	// a call that ignores its context may never return: give up on it 5 s after its deadline (the goroutine is left behind)
	once := func() (string, bool, time.Duration) {
		type r3 struct {
			res     string
			late    bool
			elapsed time.Duration
		}
		ch := make(chan r3, 1)
		go func() {
			a, b, c := once1()
			ch <- r3{a, b, c}
		}()
		select {
		case r := <-ch:
			return r.res, r.late, r.elapsed
		case <-time.After(D + 5*time.Second):
			return "none", true, D + 5*time.Second
		}
	}
	res, late, elapsed := once()
	// a reply that arrives after its own attempt timed out is still a valid response to the command when a LATER attempt
	// of a session-less call reads it (no sequence numbers outside a session): success and error are both right then
	if strings.HasPrefix(fault, "late") && res == "ok" && (call == "sl" || call == "hs" || call == "hsd" || call == "sdr") {
		res = "err"
	}
	if len(a) > 4 && a[4] == "again" {
		res2, late2, elapsed2 := once()
		out := fmt.Sprintf("res=%s late=%s res2=%s late2=%s", res, b2s(late), res2, b2s(late2))
		switch {
		case late:
			return out, fmt.Sprintf("call returned %v after its deadline (allowance %v)", elapsed-D, timeAllowance)
		case late2:
			return out, fmt.Sprintf("second call returned %v after its deadline (allowance %v)", elapsed2-D, timeAllowance)
		case res == "ok" || res2 == "ok":
			return out, "call reported success although no valid response can have arrived"
		}
		return out, ""
	}
	out := fmt.Sprintf("res=%s late=%s", res, b2s(late))
	if late {
		return out, fmt.Sprintf("call returned %v after its deadline (allowance %v)", elapsed-D, timeAllowance)
	}
	if res == "ok" && fault != "none" && !strings.Contains(fault, "@") {
		return out, "call reported success although no valid response can have arrived"
	}
	return out, ""
}

func genTime(g *genCtx) {
	calls := []string{"sl", "hs", "hsd", "cmd", "close", "sdr"}
	faults := []string{"blackhole", "late", "garbage", "busy", "trunc", "huge"}
	ratios := [][2]int{{100, 300}, {1000, 200}, {50, 0}}
	if g.thorough() {
		ratios = append(ratios, [2]int{30, 400}, [2]int{200, 200}, [2]int{10, 120}, [2]int{400, 1000})
	}
	var ops []Op
	for _, c := range calls {
		for _, f := range faults {
			if f == "trunc" && c != "hs" && c != "hsd" && c != "sl" {
				continue
			}
			for _, r := range ratios {
				ops = append(ops, Op{Class: 'P', NonTrivial: r[1] > 0, Kind: "time", Args: []string{c, itoa(r[0]), itoa(r[1]), f}})
			}
			// the fault at every later step of the multi-step calls (handshake: 3 exchanges; SDR retrieval: repository
			// info, reservation, header / body reads, final repository info)
			steps := map[string][]int{"hs": {1, 2}, "hsd": {1, 2, 3, 4}, "sdr": {1, 2, 3, 4, 6, 8}}[c]
			for _, k := range steps {
				if f == "trunc" && c != "hs" && c != "hsd" {
					continue
				}
				for _, r := range [][2]int{{100, 300}, {60, 150}} {
					ops = append(ops, Op{Class: 'P', NonTrivial: true, Kind: "time", Args: []string{c, itoa(r[0]), itoa(r[1]), fmt.Sprintf("%s@%d", f, k)}})
				}
			}
		}
		// the same call twice while the fault persists (faults under which no reply is ever a valid response)
		for _, f := range []string{"blackhole", "garbage", "busy"} {
			ops = append(ops, Op{Class: 'P', NonTrivial: true, Kind: "time", Args: []string{c, "60", "150", f, "again"}})
		}
		// many attempts within the deadline (fast back-off): 30 ms per attempt, 500 ms in all
		if c == "sl" || c == "hs" || c == "cmd" {
			for _, f := range []string{"blackhole", "garbage", "busy"} {
				ops = append(ops, Op{Class: 'P', NonTrivial: true, Kind: "time", Args: []string{c + "f", "30", "500", f}})
			}
		}
		// control: a well-behaved BMC
		ops = append(ops, Op{Class: 'P', NonTrivial: false, Kind: "time", Args: []string{c, "200", "2000", "none"}})
	}
	// run them concurrently (each has its own sockets), then emit in order from the cache
	var wg sync.WaitGroup
	sem := make(chan struct{}, 24)
	for _, op := range ops {
		wg.Add(1)
		go func(op Op) {
			defer wg.Done()
			sem <- struct{}{}
			execTime(op.Args)
			<-sem
		}(op)
	}
	wg.Wait()
	for _, op := range ops {
		g.emit(op)
	}
}

// flood: a call whose reply is missed, then the same call again while the BMC sends a meaningless datagram every 10 ms: both
// return by their deadlines (received bytes cannot keep a call alive: C05 / C13)
func genFlood(g *genCtx) {
	var ops []Op
	for _, c := range []string{"sl", "cmd", "hs", "close", "sdr", "hsd"} {
		ops = append(ops, Op{Class: 'P', NonTrivial: true, Kind: "time", Args: []string{c, "60", "150", "holeflood", "again"}})
		ops = append(ops, Op{Class: 'P', NonTrivial: true, Kind: "time", Args: []string{c, "100", "300", "holeflood", "again"}})
	}
	var wg sync.WaitGroup
	for _, op := range ops {
		wg.Add(1)
		go func(op Op) {
			defer wg.Done()
			execTime(op.Args)
		}(op)
	}
	wg.Wait()
	for _, op := range ops {
		g.emit(op)
	}
}
