package main

// Ties the harness's reference BMC (sim.go: open / seal, an independent Go reading of IPMI v2.0 §13.6, 13.8, 13.28.4,
// 13.29) to the Lean specification of the conforming in-session BMC (lean/Bmc/Spec/BmcSession.lean: bmcOpen,
// responseDatagram), about which the C01 theorems command_answered / all_commands_answered are stated:
//
//	bmcopen <integ> <k1> <k2> <remoteID> <datagram>            what the BMC reads out of a datagram (or none)
//	bmcseal <integ> <k1> <k2> <localID> <fn> <cmd> <body> <ent> <lun> <cc> <data> <seq> <iv>   the BMC's response datagram
//
// The datagrams of bmcopen are produced by the REAL library (V2Session.SendCommand on a real session) and by single
// corruptions of them; the datagrams of bmcseal are also fed to the real library as the reply to that very command,
// which must return <cc> and <data>.

import (
	"bytes"
	"crypto/rand"
	"fmt"
	"io"
	"strings"

	"github.com/gebn/bmc/pkg/iana"
	"github.com/gebn/bmc/pkg/ipmi"
)

func init() {
	executors["bmcopen"] = execBmcOpen
	executors["bmcseal"] = execBmcSeal
	scenarios["bmcspec"] = genBmcSpec
}

func execBmcOpen(a []string) (string, string) {
	b := newSimBMC([]byte(fixedPass), nil)
	b.integ, b.conf, b.k1, b.k2, b.sidc = byte(atoi(a[0])), 1, unhx(a[1]), unhx(a[2]), uint32(atoi(a[3]))
	r, _ := b.open(unhx(a[4]))
	if r == nil || r.rsAddr != 0x20 || r.rqAddr != 0x81 || r.netFn&1 != 0 {
		return "none", ""
	}
	return fmt.Sprintf("seq=%d fn=%d lun=%d cmd=%d data=%s", r.seq, r.netFn, r.lun, r.cmd, hx(r.data)), ""
}

func prefixOf(fn, body byte, ent uint32) []byte {
	switch fn &^ 1 {
	case 0x2c:
		return []byte{body}
	case 0x2e:
		return []byte{byte(ent), byte(ent >> 8), byte(ent >> 16)}
	}
	return nil
}

func execBmcSeal(a []string) (string, string) {
	integ := byte(atoi(a[0]))
	k1, k2 := unhx(a[1]), unhx(a[2])
	lid := uint32(atoi(a[3]))
	fn, cmdNo, body, ent, lun := byte(atoi(a[4])), byte(atoi(a[5])), byte(atoi(a[6])), uint32(atoi(a[7])), byte(atoi(a[8]))
	cc := byte(atoi(a[9]))
	data, seq, iv := unhx(a[10]), uint32(atoi(a[11])), unhx(a[12])
	c := cc
	msg := specMessage(0x81, fn+1, 0, 0x20, 1, lun, cmdNo, &c, prefixOf(fn, body, ent), data)
	var key [16]byte
	copy(key[:], k2)
	w := specV2(0, true, true, 0, 0, lid, seq, specAES(key, iv, msg), int(integ), k1)
	dg := append([]byte{6, 0, 0xff, 7}, w...)
	out := hx(dg)
	// the reference console-side reading accepts it …
	r, why := openReply(dg, lid, integ, k1, k2)
	if r == nil {
		return out, "the reference console does not accept the BMC's own response: " + why
	}
	// … and so does the real library, as the reply to this very command on a real session with these keys
	for _, sp := range bmcSpecSessions() {
		if sp.integ != integ || !bytes.Equal(sp.k1, k1) || !bytes.Equal(sp.k2, k2) || sp.lid != lid {
			continue
		}
		e, err := openSession(sp.auth, sp.integ)
		if err != nil {
			return out, ""
		}
		defer e.cancel()
		e.script = []string{"R:" + hx(dg)}
		old := rand.Reader
		rand.Reader = io.Reader(&cycleReader{b: hsEntropy})
		defer func() { rand.Reader = old }()
		cmd := &rawCmd{op: ipmi.Operation{Function: ipmi.NetworkFunction(fn), Body: ipmi.BodyCode(body), Enterprise: iana.Enterprise(ent),
			Command: ipmi.CommandNumber(cmdNo)}, lun: ipmi.LUN(lun)}
		code, err := e.sess.SendCommand(e.ctx, cmd)
		temp := cc == 0xC0 || cc == 0xC3
		switch {
		case temp && err == nil:
			return out, "a temporary completion code was returned as final"
		case !temp && (err != nil || byte(code) != cc || !bytes.Equal(cmd.rsp.got, data)):
			return out, fmt.Sprintf("the library returned (%d, %x, %v) for the BMC's response (%d, %x)", code, cmd.rsp.got, err, cc, data)
		}
	}
	return out, ""
}

var bmcSpecSess []sessParams

func bmcSpecSessions() []sessParams {
	if bmcSpecSess == nil {
		for _, s := range [][2]byte{{1, 1}, {3, 4}, {2, 2}} {
			bmcSpecSess = append(bmcSpecSess, learnSession(s[0], s[1]))
		}
	}
	return bmcSpecSess
}

func genBmcSpec(g *genCtx) {
	n := 60
	if g.thorough() {
		n = 1500
	}
	for _, sp := range bmcSpecSessions() {
		for i := 0; i < n; i++ {
			fn := byte(g.rng.Intn(0x16)) << 1
			var body byte
			var ent uint32
			switch g.rng.Intn(6) {
			case 0:
				fn, body = 0x2c, byte(g.rng.Intn(256))
			case 1:
				fn, ent = 0x2e, uint32(g.rng.Intn(1<<24))
			}
			cmdNo, lun := byte(g.rng.Intn(256)), byte(g.rng.Intn(4))
			// (1) a datagram of the REAL library for this command, and corruptions of it
			e, err := openSession(sp.auth, sp.integ)
			if err != nil {
				continue
			}
			e.script = []string{"L"}
			e.sess.AuthenticatedSequenceNumbers.Inbound = uint32(g.rng.Intn(1 << 30))
			old := rand.Reader
			rand.Reader = io.Reader(&cycleReader{b: rbytes(g.rng, 16)})
			e.sess.SendCommand(e.ctx, &rawCmd{op: ipmi.Operation{Function: ipmi.NetworkFunction(fn), Body: ipmi.BodyCode(body),
				Enterprise: iana.Enterprise(ent), Command: ipmi.CommandNumber(cmdNo)}, lun: ipmi.LUN(lun), req: rawBody{b: rbytes(g.rng, g.rng.Intn(40))}})
			rand.Reader = old
			e.cancel()
			for _, dg := range e.sent {
				args := []string{itoa(int(sp.integ)), hx(sp.k1), hx(sp.k2), fmt.Sprint(sp.rid)}
				g.emit(Op{Class: 'P', NonTrivial: true, Kind: "bmcopen", Args: append(append([]string(nil), args...), hx(dg))})
				c := append([]byte(nil), dg...)
				c[g.rng.Intn(len(c))] ^= 1 << uint(g.rng.Intn(8))
				g.emit(Op{Class: 'P', NonTrivial: true, Kind: "bmcopen", Args: append(append([]string(nil), args...), hx(c))})
				g.emit(Op{Class: 'M', NonTrivial: true, Kind: "bmcopen", Args: append(append([]string(nil), args...), hx(dg[:g.rng.Intn(len(dg))]))})
			}
			// (2) the BMC's response to it
			cc := []byte{0, 0, 0, 0xC0, 0xC3, 0xC1, 0xCC, 0xFF, byte(g.rng.Intn(256))}[g.rng.Intn(9)]
			g.emit(Op{Class: 'P', NonTrivial: true, Kind: "bmcseal", Args: []string{itoa(int(sp.integ)), hx(sp.k1), hx(sp.k2), fmt.Sprint(sp.lid),
				itoa(int(fn)), itoa(int(cmdNo)), itoa(int(body)), fmt.Sprint(ent), itoa(int(lun)), itoa(int(cc)), hx(rbytes(g.rng, g.rng.Intn(60))),
				fmt.Sprint(g.rng.Uint32()), hx(rbytes(g.rng, 16))}})
		}
	}
}

var _ = strings.Join
