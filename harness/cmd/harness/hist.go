package main

// C18: histories of dials, session opens/closes and commands; the exported Prometheus counters before and after.

import (
	"context"
	"errors"
	"fmt"
	"math/rand"
	"sort"
	"strconv"
	"strings"
	"time"

	"github.com/cenkalti/backoff/v4"
	"github.com/gebn/bmc"
	"github.com/gebn/bmc/pkg/ipmi"
	"github.com/google/gopacket"
	"github.com/prometheus/client_golang/prometheus"
	dto "github.com/prometheus/client_model/go"
)

func init() {
	executors["hist"] = execHist
	scenarios["hist"] = genHist
}

type failBody struct{}

func (failBody) DecodeFromBytes([]byte, gopacket.DecodeFeedback) error { return errors.New("body does not decode") }
func (failBody) CanDecode() gopacket.LayerClass                        { return gopacket.LayerTypePayload }
func (failBody) NextLayerType() gopacket.LayerType                     { return gopacket.LayerTypeZero }
func (failBody) LayerPayload() []byte                                  { return nil }

type namedCmd struct {
	rawCmd
	name string
	fail bool
}

func (c *namedCmd) Name() string { return c.name }
func (c *namedCmd) Response() gopacket.DecodingLayer {
	if c.fail {
		return failBody{}
	}
	return &c.rsp
}

type snapshot map[string]float64

func gather() snapshot {
	s := snapshot{}
	mfs, _ := prometheus.DefaultGatherer.Gather()
	for _, mf := range mfs {
		if !strings.HasPrefix(mf.GetName(), "bmc_") {
			continue
		}
		for _, m := range mf.GetMetric() {
			var v float64
			switch mf.GetType() {
			case dto.MetricType_COUNTER:
				v = m.GetCounter().GetValue()
			case dto.MetricType_GAUGE:
				v = m.GetGauge().GetValue()
			default:
				continue
			}
			key := mf.GetName()
			for _, l := range m.GetLabel() {
				key += "|" + l.GetName() + "=" + l.GetValue()
			}
			s[key] = v
		}
	}
	return s
}

func histLetters(l string) string {
	if l == "-" {
		return ""
	}
	return l
}

// hist <event> <event> …
func execHist(a []string) (string, string) {
	before := gather()
	rng := rand.New(rand.NewSource(1))
	_ = rng
	var env *sessEnv
	var tr *bmc.V2SessionlessTransport
	var slScript []string
	slCancelInSleep := false
	slCancelNext = nil
	slPos := 0
	var slCancel context.CancelFunc
	recv := make([]byte, 512)
	// expected values, counted directly from the history (the conservation laws)
	type exp struct {
		connA, connF, connO, sessA, sessF, sessO, retries int
		att, fail                                        map[string]int
		resp                                             map[int]int
	}
	e := exp{att: map[string]int{}, fail: map[string]int{}, resp: map[int]int{}}
	sendCalls := 0
	runCmd := func(name string, inSession bool, letters string) {
		e.att[name]++
		fn, cmdNo := byte(0x06), byte(0x01)
		if name == "Close Session" {
			cmdNo = 0x3c
		}
		var items []string
		cancelInSleep := strings.HasSuffix(letters, "K")
		letters = strings.TrimSuffix(letters, "K")
		for i, l := range letters {
			if l == 'L' {
				items = append(items, "L")
				continue
			}
			cc := histCode(l)
			var msg []byte
			switch l {
			case 'X':
				msg = ipmiRsp(fn, cmdNo+1, 0, nil)
			case 'G':
				items = append(items, "R:0600ff")
				continue
			default:
				msg = ipmiRsp(fn, cmdNo, cc, []byte{1, 2})
			}
			if inSession {
				items = append(items, "R:"+hx(env.bmc.seal(msg)))
			} else {
				items = append(items, "R:"+hx(wrapSessionless(0, msg)))
			}
			_ = i
		}
		// what happened, from the letters: the call consumes outcomes until a final answer (or, in a session, a loss)
		okCall, consumed := false, 0
		for _, l := range letters {
			consumed++
			switch l {
			case 'F':
				e.resp[0]++
				okCall = true
			case 'E', 'a', 'b', 'd', 'e', 'f', 'h', 'i', 'j', 'm', 'n':
				e.resp[int(histCode(l))]++
				okCall = true
			case 'B':
				e.resp[0xC0]++
			case 'T':
				e.resp[0xC3]++
			}
			if okCall || (l == 'L' && inSession) {
				break
			}
		}
		lostEnd := consumed > 0 && letters[consumed-1] == 'L' && inSession
		runs := consumed
		if !okCall && !lostEnd && !cancelInSleep {
			runs++ // the run of the closure during which the context expired
		}
		if runs > 1 {
			e.retries += runs - 1
		}
		if !okCall || name == "rawfail" {
			e.fail[name]++
		}
		sendCalls = 0
		var err error
		if inSession {
			env.script, env.pos = items, 0
			n0 := len(env.sent)
			ctx, cancel := context.WithTimeout(context.Background(), 10*time.Second)
			env.cancel, env.ctx = cancel, ctx
			var c ipmi.Command
			if name == "Close Session" {
				err = env.sess.Close(ctx)
			} else {
				c = &namedCmd{rawCmd: rawCmd{op: ipmi.Operation{Function: ipmi.NetworkFunction(fn), Command: ipmi.CommandNumber(cmdNo)}}, name: name, fail: name == "rawfail"}
				_, err = env.sess.SendCommand(ctx, c)
			}
			cancel()
			sendCalls = len(env.sent) - n0
			if env.pos >= len(items) && err != nil && !strings.HasSuffix(letters, "L") {
				sendCalls++ // the call of Send during which the context expired
			}
		} else {
			slScript, slPos = items, 0
			ctx, cancel := context.WithTimeout(context.Background(), 10*time.Second)
			slCancel = cancel
			slCancelInSleep = cancelInSleep && !okCall
			c := &namedCmd{rawCmd: rawCmd{op: ipmi.Operation{Function: ipmi.NetworkFunction(fn), Command: ipmi.CommandNumber(cmdNo)}}, name: name, fail: name == "rawfail"}
			_, err = tr.SendCommand(ctx, c)
			cancel()
		}
		_ = err
	}
	slSend := func(_ context.Context, p []byte) ([]byte, error) {
		sendCalls++
		if slCancelInSleep && slPos == len(slScript)-1 {
			// the last scripted attempt: the caller gives up during the back-off sleep that follows it — made deterministic
			// by ending the context at the very moment the back-off policy is asked for that interval (no timer involved)
			slCancelNext = slCancel
		}
		if slPos >= len(slScript) {
			slCancel()
			return nil, context.Canceled
		}
		item := slScript[slPos]
		slPos++
		if item == "L" {
			return nil, errors.New("timeout")
		}
		return recv[:copy(recv, unhx(strings.TrimPrefix(item, "R:")))], nil
	}
	for _, ev := range a {
		f := strings.Split(ev, ":")
		switch f[0] {
		case "D":
			e.connA++
			e.connO++
			tr = bmc.VerifNewV2SessionlessTransport(slSend, 50*time.Millisecond, &switchBackOff{on: &slCancelInSleep})
		case "X":
			e.connA++
			e.connF++
			if _, err := bmc.DialV2("127.0.0.1:999999"); err == nil {
				return "dial-unexpectedly-succeeded", ""
			}
		case "C":
			e.connO--
			tr.Close()
		case "O", "o":
			e.sessA++
			pass := fixedPass
			if f[0] == "o" {
				pass = "another"
			}
			env = &sessEnv{bmc: newSimBMC([]byte(pass), nil), recv: make([]byte, 512)}
			env.ctx, env.cancel = context.WithTimeout(context.Background(), 10*time.Second)
			env.t = bmc.VerifNewV2SessionlessTransport(env.send, 50*time.Millisecond, &backoff.ZeroBackOff{})
			e.connA++ // the harness dials a connection of its own for every session
			e.connO++
			sess, err := env.t.NewV2Session(env.ctx, &bmc.V2SessionOpts{
				SessionOpts:  bmc.SessionOpts{Username: fixedUser, Password: []byte(fixedPass), MaxPrivilegeLevel: ipmi.PrivilegeLevelAdministrator},
				CipherSuites: []ipmi.CipherSuite{ipmi.CipherSuite3},
			})
			if (err == nil) != (f[0] == "O") {
				return "open-outcome-differs-from-op", ""
			}
			if err != nil {
				e.sessF++
			} else {
				e.sessO++
				env.sess, env.inSess = sess, true
			}
		case "S":
			e.sessO--
			runCmd("Close Session", true, histLetters(f[1]))
		case "c":
			runCmd(f[1], true, histLetters(f[2]))
		case "l":
			runCmd(f[1], false, histLetters(f[2]))
		}
	}
	after := gather()
	d := func(key string) int { return int(after[key] - before[key]) }
	// canonical rendering of the observed deltas
	att, fail := map[string]int{}, map[string]int{}
	resp := map[int]int{}
	for k := range after {
		if v := d(k); v != 0 {
			switch {
			case strings.HasPrefix(k, "bmc_command_attempts_total|command="):
				att[strings.TrimPrefix(k, "bmc_command_attempts_total|command=")] = v
			case strings.HasPrefix(k, "bmc_command_failures_total|command="):
				fail[strings.TrimPrefix(k, "bmc_command_failures_total|command=")] = v
			case strings.HasPrefix(k, "bmc_command_responses_total|code="):
				code := strings.TrimPrefix(k, "bmc_command_responses_total|code=")
				n, _ := strconv.ParseInt(strings.SplitN(strings.TrimPrefix(code, "0x"), "(", 2)[0], 16, 32)
				resp[int(n)] = v
			}
		}
	}
	showS := func(m map[string]int) string {
		var ks []string
		for k := range m {
			ks = append(ks, k)
		}
		sort.Strings(ks)
		var p []string
		for _, k := range ks {
			p = append(p, fmt.Sprintf("%s:%d", k, m[k]))
		}
		if len(p) == 0 {
			return "-"
		}
		return strings.Join(p, ",")
	}
	showI := func(m map[int]int) string {
		var ks []int
		for k := range m {
			ks = append(ks, k)
		}
		sort.Ints(ks)
		var p []string
		for _, k := range ks {
			p = append(p, fmt.Sprintf("%d:%d", k, m[k]))
		}
		if len(p) == 0 {
			return "-"
		}
		return strings.Join(p, ",")
	}
	// the harness's own session connections are not part of the op's history: subtract them from the observed values
	own := 0
	for _, ev := range a {
		if ev == "O" || ev == "o" {
			own++
		}
	}
	out := fmt.Sprintf("conn=%d/%d/%d sess=%d/%d/%d retries=%d attempts=%s failures=%s responses=%s",
		d("bmc_connection_open_attempts_total|version=2.0")-own, d("bmc_connection_open_failures_total|version=2.0"), d("bmc_connections_open|version=2.0")-own,
		d("bmc_session_open_attempts_total"), d("bmc_session_open_failures_total"), d("bmc_sessions_open"),
		d("bmc_command_retries_total"), showS(att), showS(fail), showI(resp))
	want := fmt.Sprintf("conn=%d/%d/%d sess=%d/%d/%d retries=%d attempts=%s failures=%s responses=%s",
		e.connA-own, e.connF, e.connO-own, e.sessA, e.sessF, e.sessO, e.retries, showS(nz(e.att)), showS(nz(e.fail)), showI(nzi(e.resp)))
	if out != want {
		return out, "counters do not account for what happened: counted from the history " + want
	}
	return out, ""
}

// switchBackOff: no waiting normally; a 60 ms interval while a "cancelled during the back-off sleep" command runs
type switchBackOff struct{ on *bool }

// slCancelNext, when set, is the caller's cancel function to be invoked when the policy is next asked for an interval
var slCancelNext context.CancelFunc

func (b *switchBackOff) NextBackOff() time.Duration {
	if *b.on {
		if slCancelNext != nil {
			slCancelNext()
			slCancelNext = nil
		}
		return 60 * time.Millisecond
	}
	return 0
}
func (b *switchBackOff) Reset() {}

func nz(m map[string]int) map[string]int {
	o := map[string]int{}
	for k, v := range m {
		if v != 0 {
			o[k] = v
		}
	}
	return o
}
func nzi(m map[int]int) map[int]int {
	o := map[int]int{}
	for k, v := range m {
		if v != 0 {
			o[k] = v
		}
	}
	return o
}

func genHist(g *genCtx) {
	n := 150
	if g.thorough() {
		n = 3000
	}
	letters := "FEBTXGLFEBTXGLabdefhijmn" // final error answers carry a dozen different completion codes
	script := func(max int) string {
		k := g.rng.Intn(max + 1)
		if k == 0 {
			return "-"
		}
		b := make([]byte, k)
		for i := range b {
			b[i] = letters[g.rng.Intn(len(letters))]
		}
		return string(b)
	}
	for i := 0; i < n; i++ {
		// per-command-name counters: most histories use three names, every fourth one nine (more names than any small
		// per-connection cache of counters would hold)
		names := []string{"rawA", "rawB", "rawfail"}
		if i%4 == 1 {
			names = []string{"rawA", "rawB", "rawfail", "rawC", "rawD", "rawE", "rawF", "rawG", "rawH"}
		}
		length := 5 + g.rng.Intn(56) // histories up to 60 events
		var evs []string
		dialled, inSess := false, false
		hasFail, hasRetry := false, false
		for len(evs) < length {
			switch k := g.rng.Intn(12); {
			case k == 0:
				evs = append(evs, "X")
				hasFail = true
			case k == 1 && !dialled:
				evs = append(evs, "D")
				dialled = true
			case k == 2 && dialled && g.rng.Intn(3) == 0:
				evs = append(evs, "C")
				dialled = false
			case k == 3 && !inSess:
				evs = append(evs, "O")
				inSess = true
			case k == 4 && !inSess:
				evs = append(evs, "o")
				hasFail = true
			case k == 5 && inSess:
				evs = append(evs, "S:"+[]string{"F", "L", "BF", "-", "E", "GGF"}[g.rng.Intn(6)])
				inSess = false
			case k >= 6 && k <= 8 && inSess:
				s := script(5)
				evs = append(evs, "c:"+names[g.rng.Intn(len(names))]+":"+s)
				hasRetry = hasRetry || len(s) > 1
			case k >= 9 && dialled && g.rng.Intn(5) == 0:
				// every attempt unacceptable, then the caller's context ends during the back-off sleep
				b := make([]byte, 1+g.rng.Intn(3))
				for i := range b {
					b[i] = "BTXG"[g.rng.Intn(4)]
				}
				evs = append(evs, "l:"+names[g.rng.Intn(len(names))]+":"+string(b)+"K")
				hasRetry = hasRetry || len(b) > 1
			case k >= 9 && dialled:
				s := script(5)
				evs = append(evs, "l:"+names[g.rng.Intn(len(names))]+":"+s)
				hasRetry = hasRetry || len(s) > 1
			}
		}
		g.emit(Op{Class: 'P', NonTrivial: hasFail && hasRetry, Kind: "hist", Args: evs})
	}
}

// histCode: the completion code a letter of a `hist` script stands for (final error codes beyond C1h: 01h, 41h, 80h, 81h, D0h, D3h,
// FFh, CCh, 7Fh, C9h — command-specific, OEM and generic ones, among them neighbours of the two temporary codes)
func histCode(l rune) byte {
	return map[rune]byte{'F': 0, 'E': 0xC1, 'B': 0xC0, 'T': 0xC3, 'a': 0x01, 'b': 0x41, 'd': 0x81, 'e': 0xD0, 'f': 0xD3, 'h': 0xFF,
		'i': 0xCC, 'j': 0x7F, 'm': 0xC9, 'n': 0x80}[l]
}
