import Bmc.Crypto.Abstract
/-! A toy instance that satisfies the laws (shows the hypotheses of the theorems are satisfiable;
    also used for `decide`-checked witnesses). Not secure, not used by the driver. -/
namespace Bmc.Crypto
def toy : Ops where
  hmac a _ _ := List.replicate a.size 0
  encBlock k b := xorBytes b (k ++ List.replicate 16 0 |>.take b.length)
  decBlock k b := xorBytes b (k ++ List.replicate 16 0 |>.take b.length)

theorem toy_lawful : toy.Lawful where
  hmac_len a k m := by simp [toy]
  enc_len k b h := by simp [toy]; rw [xorBytes_len]; exact h; simp; omega
  dec_len k b h := by simp [toy]; rw [xorBytes_len]; exact h; simp; omega
  dec_enc k b h := by
    simp only [toy]
    have hl : (xorBytes b (List.take b.length (k ++ List.replicate 16 0))).length = b.length := by
      rw [xorBytes_len]; simp; omega
    rw [hl]
    exact xorBytes_cancel _ _ (by simp; omega)
end Bmc.Crypto
