import Bmc.Crypto.Abstract
/-! Executable SHA-1, SHA-256, MD5 and HMAC for the driver. Validated against Go's crypto/* by
    differential testing; no theorem depends on them. -/
namespace Bmc.Crypto.Hash
open Bmc

def rotl (x : UInt32) (n : UInt32) : UInt32 := (x <<< n) ||| (x >>> (32 - n))
def rotr (x : UInt32) (n : UInt32) : UInt32 := (x >>> n) ||| (x <<< (32 - n))

def be32 (a b c d : UInt8) : UInt32 := (a.toUInt32 <<< 24) ||| (b.toUInt32 <<< 16) ||| (c.toUInt32 <<< 8) ||| d.toUInt32
def le32 (a b c d : UInt8) : UInt32 := (d.toUInt32 <<< 24) ||| (c.toUInt32 <<< 16) ||| (b.toUInt32 <<< 8) ||| a.toUInt32
def toBE (x : UInt32) : List UInt8 := [(x >>> 24).toUInt8, (x >>> 16).toUInt8, (x >>> 8).toUInt8, x.toUInt8]
def toLE (x : UInt32) : List UInt8 := [x.toUInt8, (x >>> 8).toUInt8, (x >>> 16).toUInt8, (x >>> 24).toUInt8]

/-- Merkle–Damgård padding; `bigEndian` selects the byte order of the 64-bit length -/
def mdPad (bigEndian : Bool) (msg : List UInt8) : Array UInt8 :=
  let l := msg.length
  let zeros := (55 + 64 - l % 64) % 64
  let bits := l * 8
  let lenBE : List UInt8 := (List.range 8).map (fun i => UInt8.ofNat ((bits >>> (8 * (7 - i))) % 256))
  let z : List UInt8 := List.replicate zeros 0
  (msg ++ [0x80] ++ z ++ (if bigEndian then lenBE else lenBE.reverse)).toArray

-- SHA-256 --------------------------------------------------------------------------------------
def K256 : Array UInt32 := #[
0x428a2f98,0x71374491,0xb5c0fbcf,0xe9b5dba5,0x3956c25b,0x59f111f1,0x923f82a4,0xab1c5ed5,
0xd807aa98,0x12835b01,0x243185be,0x550c7dc3,0x72be5d74,0x80deb1fe,0x9bdc06a7,0xc19bf174,
0xe49b69c1,0xefbe4786,0x0fc19dc6,0x240ca1cc,0x2de92c6f,0x4a7484aa,0x5cb0a9dc,0x76f988da,
0x983e5152,0xa831c66d,0xb00327c8,0xbf597fc7,0xc6e00bf3,0xd5a79147,0x06ca6351,0x14292967,
0x27b70a85,0x2e1b2138,0x4d2c6dfc,0x53380d13,0x650a7354,0x766a0abb,0x81c2c92e,0x92722c85,
0xa2bfe8a1,0xa81a664b,0xc24b8b70,0xc76c51a3,0xd192e819,0xd6990624,0xf40e3585,0x106aa070,
0x19a4c116,0x1e376c08,0x2748774c,0x34b0bcb5,0x391c0cb3,0x4ed8aa4a,0x5b9cca4f,0x682e6ff3,
0x748f82ee,0x78a5636f,0x84c87814,0x8cc70208,0x90befffa,0xa4506ceb,0xbef9a3f7,0xc67178f2]

def sha256 (msg : List UInt8) : List UInt8 := Id.run do
  let p := mdPad true msg
  let mut h : Array UInt32 := #[0x6a09e667,0xbb67ae85,0x3c6ef372,0xa54ff53a,0x510e527f,0x9b05688c,0x1f83d9ab,0x5be0cd19]
  for blk in [0:p.size/64] do
    let o := 64 * blk
    let mut w : Array UInt32 := Array.mkEmpty 64
    for i in [0:16] do
      w := w.push (be32 p[o+4*i]! p[o+4*i+1]! p[o+4*i+2]! p[o+4*i+3]!)
    for i in [16:64] do
      let s0 := rotr w[i-15]! 7 ^^^ rotr w[i-15]! 18 ^^^ (w[i-15]! >>> 3)
      let s1 := rotr w[i-2]! 17 ^^^ rotr w[i-2]! 19 ^^^ (w[i-2]! >>> 10)
      w := w.push (w[i-16]! + s0 + w[i-7]! + s1)
    let mut a := h[0]!; let mut b := h[1]!; let mut c := h[2]!; let mut d := h[3]!
    let mut e := h[4]!; let mut f := h[5]!; let mut g := h[6]!; let mut hh := h[7]!
    for i in [0:64] do
      let S1 := rotr e 6 ^^^ rotr e 11 ^^^ rotr e 25
      let ch := (e &&& f) ^^^ ((~~~ e) &&& g)
      let t1 := hh + S1 + ch + K256[i]! + w[i]!
      let S0 := rotr a 2 ^^^ rotr a 13 ^^^ rotr a 22
      let maj := (a &&& b) ^^^ (a &&& c) ^^^ (b &&& c)
      let t2 := S0 + maj
      hh := g; g := f; f := e; e := d + t1; d := c; c := b; b := a; a := t1 + t2
    h := #[h[0]! + a, h[1]! + b, h[2]! + c, h[3]! + d, h[4]! + e, h[5]! + f, h[6]! + g, h[7]! + hh]
  return h.toList.flatMap toBE

-- SHA-1 ----------------------------------------------------------------------------------------
def sha1 (msg : List UInt8) : List UInt8 := Id.run do
  let p := mdPad true msg
  let mut h : Array UInt32 := #[0x67452301, 0xEFCDAB89, 0x98BADCFE, 0x10325476, 0xC3D2E1F0]
  for blk in [0:p.size/64] do
    let o := 64 * blk
    let mut w : Array UInt32 := Array.mkEmpty 80
    for i in [0:16] do
      w := w.push (be32 p[o+4*i]! p[o+4*i+1]! p[o+4*i+2]! p[o+4*i+3]!)
    for i in [16:80] do
      w := w.push (rotl (w[i-3]! ^^^ w[i-8]! ^^^ w[i-14]! ^^^ w[i-16]!) 1)
    let mut a := h[0]!; let mut b := h[1]!; let mut c := h[2]!; let mut d := h[3]!; let mut e := h[4]!
    for i in [0:80] do
      let (f, k) : UInt32 × UInt32 :=
        if i < 20 then ((b &&& c) ||| ((~~~ b) &&& d), 0x5A827999)
        else if i < 40 then (b ^^^ c ^^^ d, 0x6ED9EBA1)
        else if i < 60 then ((b &&& c) ||| (b &&& d) ||| (c &&& d), 0x8F1BBCDC)
        else (b ^^^ c ^^^ d, 0xCA62C1D6)
      let t := rotl a 5 + f + e + k + w[i]!
      e := d; d := c; c := rotl b 30; b := a; a := t
    h := #[h[0]! + a, h[1]! + b, h[2]! + c, h[3]! + d, h[4]! + e]
  return h.toList.flatMap toBE

-- MD5 ------------------------------------------------------------------------------------------
def md5S : Array UInt32 := #[7,12,17,22,7,12,17,22,7,12,17,22,7,12,17,22, 5,9,14,20,5,9,14,20,5,9,14,20,5,9,14,20,
  4,11,16,23,4,11,16,23,4,11,16,23,4,11,16,23, 6,10,15,21,6,10,15,21,6,10,15,21,6,10,15,21]
def md5K : Array UInt32 := #[
0xd76aa478,0xe8c7b756,0x242070db,0xc1bdceee,0xf57c0faf,0x4787c62a,0xa8304613,0xfd469501,
0x698098d8,0x8b44f7af,0xffff5bb1,0x895cd7be,0x6b901122,0xfd987193,0xa679438e,0x49b40821,
0xf61e2562,0xc040b340,0x265e5a51,0xe9b6c7aa,0xd62f105d,0x02441453,0xd8a1e681,0xe7d3fbc8,
0x21e1cde6,0xc33707d6,0xf4d50d87,0x455a14ed,0xa9e3e905,0xfcefa3f8,0x676f02d9,0x8d2a4c8a,
0xfffa3942,0x8771f681,0x6d9d6122,0xfde5380c,0xa4beea44,0x4bdecfa9,0xf6bb4b60,0xbebfbc70,
0x289b7ec6,0xeaa127fa,0xd4ef3085,0x04881d05,0xd9d4d039,0xe6db99e5,0x1fa27cf8,0xc4ac5665,
0xf4292244,0x432aff97,0xab9423a7,0xfc93a039,0x655b59c3,0x8f0ccc92,0xffeff47d,0x85845dd1,
0x6fa87e4f,0xfe2ce6e0,0xa3014314,0x4e0811a1,0xf7537e82,0xbd3af235,0x2ad7d2bb,0xeb86d391]

def md5 (msg : List UInt8) : List UInt8 := Id.run do
  let p := mdPad false msg
  let mut a0 : UInt32 := 0x67452301; let mut b0 : UInt32 := 0xefcdab89
  let mut c0 : UInt32 := 0x98badcfe; let mut d0 : UInt32 := 0x10325476
  for blk in [0:p.size/64] do
    let o := 64 * blk
    let mut m : Array UInt32 := Array.mkEmpty 16
    for i in [0:16] do
      m := m.push (le32 p[o+4*i]! p[o+4*i+1]! p[o+4*i+2]! p[o+4*i+3]!)
    let mut a := a0; let mut b := b0; let mut c := c0; let mut d := d0
    for i in [0:64] do
      let (f, g) : UInt32 × Nat :=
        if i < 16 then ((b &&& c) ||| ((~~~ b) &&& d), i)
        else if i < 32 then ((d &&& b) ||| ((~~~ d) &&& c), (5 * i + 1) % 16)
        else if i < 48 then (b ^^^ c ^^^ d, (3 * i + 5) % 16)
        else (c ^^^ (b ||| (~~~ d)), (7 * i) % 16)
      let f2 := f + a + md5K[i]! + m[g]!
      a := d; d := c; c := b
      b := b + rotl f2 md5S[i]!
    a0 := a0 + a; b0 := b0 + b; c0 := c0 + c; d0 := d0 + d
  return toLE a0 ++ toLE b0 ++ toLE c0 ++ toLE d0

def hashOf : HashAlg → List UInt8 → List UInt8
  | .md5 => md5 | .sha1 => sha1 | .sha256 => sha256

/-- HMAC (RFC 2104), block size 64 for all three -/
def hmac (a : HashAlg) (key msg : List UInt8) : List UInt8 :=
  let k0 := if key.length > 64 then hashOf a key else key
  let k := k0 ++ List.replicate (64 - k0.length) 0
  let ipad := k.map (· ^^^ 0x36)
  let opad := k.map (· ^^^ 0x5c)
  hashOf a (opad ++ hashOf a (ipad ++ msg))

end Bmc.Crypto.Hash
