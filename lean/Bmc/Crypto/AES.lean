import Bmc.Crypto.Abstract
/-! Executable AES-128 (FIPS-197) for the driver. Validated against Go's crypto/aes by differential
    testing; its lawfulness is NOT proved and no theorem depends on it. -/
namespace Bmc.Crypto.AES

def xtime (a : UInt8) : UInt8 := (a <<< 1) ^^^ (if a &&& 0x80 != 0 then 0x1b else 0)
def gmul (a b : UInt8) : UInt8 := Id.run do
  let mut p : UInt8 := 0; let mut a := a; let mut b := b
  for _ in [0:8] do
    if b &&& 1 != 0 then p := p ^^^ a
    a := xtime a; b := b >>> 1
  return p
def ginv (a : UInt8) : UInt8 := if a == 0 then 0 else
  ((List.range 256).find? (fun x => gmul a (UInt8.ofNat x) == 1)).map UInt8.ofNat |>.getD 0
def rotl8 (x : UInt8) (n : UInt8) : UInt8 := (x <<< n) ||| (x >>> (8 - n))
def sboxF (a : UInt8) : UInt8 := let b := ginv a; b ^^^ rotl8 b 1 ^^^ rotl8 b 2 ^^^ rotl8 b 3 ^^^ rotl8 b 4 ^^^ 0x63
def sbox : Array UInt8 := (Array.range 256).map (fun i => sboxF (UInt8.ofNat i))
def isbox : Array UInt8 := Id.run do
  let mut t := Array.replicate 256 (0 : UInt8)
  for i in [0:256] do t := t.set! (sbox[i]!).toNat (UInt8.ofNat i)
  return t

abbrev State := Array UInt8
def subBytes (s : State) : State := s.map (fun b => sbox[b.toNat]!)
def invSubBytes (s : State) : State := s.map (fun b => isbox[b.toNat]!)
def shiftRows (s : State) : State := (Array.range 16).map (fun i => let c := i / 4; let r := i % 4; s[((c + r) % 4) * 4 + r]!)
def invShiftRows (s : State) : State := (Array.range 16).map (fun i => let c := i / 4; let r := i % 4; s[((c + 4 - r) % 4) * 4 + r]!)
def mixCol (m : Array UInt8) (s : State) : State := (Array.range 16).map (fun i =>
  let c := i / 4; let r := i % 4
  gmul m[(4 - r) % 4]! s[c*4]! ^^^ gmul m[(5 - r) % 4]! s[c*4+1]! ^^^ gmul m[(6 - r) % 4]! s[c*4+2]! ^^^ gmul m[(7 - r) % 4]! s[c*4+3]!)
def mixColumns := mixCol #[2, 3, 1, 1]
def invMixColumns := mixCol #[14, 11, 13, 9]
def addKey (s k : State) : State := (Array.range 16).map (fun i => s[i]! ^^^ k[i]!)

def expandKey (key : Array UInt8) : Array State := Id.run do
  let mut w : Array UInt8 := key
  let mut rc : UInt8 := 1
  for i in [4:44] do
    let mut t := #[w[4*(i-1)]!, w[4*(i-1)+1]!, w[4*(i-1)+2]!, w[4*(i-1)+3]!]
    if i % 4 == 0 then
      t := #[sbox[t[1]!.toNat]! ^^^ rc, sbox[t[2]!.toNat]!, sbox[t[3]!.toNat]!, sbox[t[0]!.toNat]!]
      rc := xtime rc
    for j in [0:4] do w := w.push (w[4*(i-4)+j]! ^^^ t[j]!)
  return (Array.range 11).map (fun r => w.extract (16*r) (16*r+16))

def encBlock (key blk : List UInt8) : List UInt8 := Id.run do
  let ks := expandKey key.toArray
  let mut s := addKey blk.toArray ks[0]!
  for r in [1:10] do s := addKey (mixColumns (shiftRows (subBytes s))) ks[r]!
  return (addKey (shiftRows (subBytes s)) ks[10]!).toList
def decBlock (key blk : List UInt8) : List UInt8 := Id.run do
  let ks := expandKey key.toArray
  let mut s := addKey blk.toArray ks[10]!
  for r in [0:9] do s := invMixColumns (addKey (invSubBytes (invShiftRows s)) ks[9 - r]!)
  return (addKey (invSubBytes (invShiftRows s)) ks[0]!).toList

end Bmc.Crypto.AES
