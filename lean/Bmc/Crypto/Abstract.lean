import Bmc.Basic.Bytes
/-! Abstract cryptographic operations: the protocol model and every theorem are parametric in these. -/
namespace Bmc.Crypto
open Bmc

inductive HashAlg | md5 | sha1 | sha256 deriving Repr, DecidableEq
def HashAlg.size : HashAlg → Nat | .md5 => 16 | .sha1 => 20 | .sha256 => 32

structure Ops where
  hmac : HashAlg → Bytes → Bytes → Bytes        -- algorithm, key, message
  encBlock : Bytes → Bytes → Bytes              -- AES-128: key (16), block (16)
  decBlock : Bytes → Bytes → Bytes

structure Ops.Lawful (C : Ops) : Prop where
  hmac_len : ∀ a k m, (C.hmac a k m).length = a.size
  enc_len : ∀ k b, b.length = 16 → (C.encBlock k b).length = 16
  dec_len : ∀ k b, b.length = 16 → (C.decBlock k b).length = 16
  dec_enc : ∀ k b, b.length = 16 → C.decBlock k (C.encBlock k b) = b

def xorBytes : Bytes → Bytes → Bytes
  | a :: as, b :: bs => (a ^^^ b) :: xorBytes as bs
  | _, _ => []

theorem xorBytes_len (a b : Bytes) (h : a.length = b.length) : (xorBytes a b).length = a.length := by
  induction a generalizing b with
  | nil => simp [xorBytes]
  | cons x xs ih => cases b with
    | nil => simp at h
    | cons y ys => simp [xorBytes, ih ys (by simpa using h)]

theorem xorBytes_cancel (a b : Bytes) (h : a.length = b.length) : xorBytes (xorBytes a b) b = a := by
  induction a generalizing b with
  | nil => simp [xorBytes]
  | cons x xs ih => cases b with
    | nil => simp at h
    | cons y ys =>
      simp only [xorBytes, ih ys (by simpa using h), List.cons.injEq, and_true]
      rw [UInt8.xor_assoc, UInt8.xor_self, UInt8.xor_zero]

/-- CBC over whole 16-byte blocks (Go's `cipher.NewCBCEncrypter(...).CryptBlocks`); `fuel` = number of blocks -/
def cbcEnc (C : Ops) (key : Bytes) : Nat → Bytes → Bytes → Bytes
  | 0, _, _ => []
  | n + 1, prev, pt =>
    let c := C.encBlock key (xorBytes (pt.take 16) prev)
    c ++ cbcEnc C key n c (pt.drop 16)

def cbcDec (C : Ops) (key : Bytes) : Nat → Bytes → Bytes → Bytes
  | 0, _, _ => []
  | n + 1, prev, ct =>
    let c := ct.take 16
    xorBytes (C.decBlock key c) prev ++ cbcDec C key n c (ct.drop 16)

theorem cbcEnc_len (C : Ops) (hC : C.Lawful) (key : Bytes) (n : Nat) (prev pt : Bytes)
    (hp : prev.length = 16) (hl : pt.length = 16 * n) : (cbcEnc C key n prev pt).length = 16 * n := by
  induction n generalizing prev pt with
  | zero => simp [cbcEnc]
  | succ n ih =>
    have h1 : (pt.take 16).length = 16 := by simp; omega
    have hx : (xorBytes (pt.take 16) prev).length = 16 := by rw [xorBytes_len _ _ (by omega)]; exact h1
    have hc := hC.enc_len key _ hx
    simp only [cbcEnc, List.length_append, hc]
    rw [ih _ _ hc (by simp; omega)]
    omega

theorem cbcDec_cbcEnc (C : Ops) (hC : C.Lawful) (key : Bytes) (n : Nat) (prev pt : Bytes)
    (hp : prev.length = 16) (hl : pt.length = 16 * n) :
    cbcDec C key n prev (cbcEnc C key n prev pt) = pt := by
  induction n generalizing prev pt with
  | zero => simp [cbcDec]; exact List.eq_nil_of_length_eq_zero (by omega)
  | succ n ih =>
    have h1 : (pt.take 16).length = 16 := by simp; omega
    have hx : (xorBytes (pt.take 16) prev).length = 16 := by rw [xorBytes_len _ _ (by omega)]; exact h1
    have hc := hC.enc_len key _ hx
    simp only [cbcEnc, cbcDec]
    rw [List.take_left' hc, List.drop_left' hc, hC.dec_enc key _ hx, xorBytes_cancel _ _ (by omega),
      ih _ _ hc (by simp; omega), List.take_append_drop]

end Bmc.Crypto
