import Bmc.Basic.GoOrch
import Bmc.Basic.GoKeys
/-! Support definitions for SESSION ESTABLISHMENT as REGENERATED from the Go source by `tools/decgen -hs` (`Bmc/Gen/Hs.lean`):
    the few primitives `newV2Session` needs on top of the state monad of `Basic/GoOrch.lean`.

    * `optErr` — `v, err := table(…)` for a regenerated table of `Gen/Keys.lean` that fails with `none`: a non-nil error.
    * `sum` — `F(h, …)` for a key formula of the shape `…h.Write(x)…; sum := h.Sum(nil); h.Reset(); return sum`: the PARAMETER
      `hash_Sum` applied to the description of `h` and to the bytes `F` writes (`Keys.F_input`); `none` = `Sum` panics.
    * `kOf` — the method `K` of an `additionalKeyMaterialGenerator{hash}` handed, as the interface
      `AdditionalKeyMaterialGenerator`, to `algorithmHasher` / `algorithmCipher`, whose regenerated definitions take it as a
      pure function `Int → Bytes`: `Sum(nil)` of the hash after `K_input n` was written. A `Sum` that panics cannot be
      expressed there and reads as the empty key; `Proofs/GenHs/NewV2Session.lean: kOf_mac` shows that the hash
      `hashGenerator.K(sik)` (an HMAC, never truncated) has a `Sum` under the contract `Lemmas/GenKeys.lean: mac`.
    * `randRead` — `rand.Read(a[:])` into a local byte array: the PARAMETER `rand_Read` (state, length ↦ new state, the
      bytes drawn or `none` = an error); the array afterwards holds the first `len(a)` bytes drawn (contract of
      crypto/rand.Read: on a nil error all `len(a)` bytes were drawn; a shorter draw leaves the rest of `a` as it was). -/
namespace Bmc.GoHs
open Bmc Bmc.GoOrch

def optErr {σ α : Type} (o : Option α) : M σ α := fun s => (match o with | some a => .ok a | none => .err, s)

def sum {σ H : Type} (hash_Sum : H → Bytes → Option Bytes) (h : H) (written : Bytes) : M σ Bytes := fun s =>
  (match hash_Sum h written with | some b => .ok b | none => .panic, s)

def kOf {H : Type} (hash_Sum : H → Bytes → Option Bytes) (h : H) (K_input : Int → Bytes) (n : Int) : Bytes :=
  match hash_Sum h (K_input n) with | some b => b | none => []

def randRead {σ : Type} (rand_Read : σ → Nat → σ × Option Bytes) (a : Bytes) : M σ Bytes := fun s =>
  let r := rand_Read s a.length
  (match r.2 with | some d => .ok (GoKeys.copyArr a.length a d) | none => .err, r.1)

section lemmas
variable {σ α H : Type}
@[simp] theorem optErr_some (a : α) (s : σ) : (optErr (some a) : M σ α) s = (.ok a, s) := rfl
@[simp] theorem optErr_none (s : σ) : (optErr (none : Option α) : M σ α) s = (.err, s) := rfl
theorem sum_apply (hs : H → Bytes → Option Bytes) (h : H) (w : Bytes) (s : σ) :
    (sum hs h w : M σ Bytes) s = (match hs h w with | some b => .ok b | none => .panic, s) := rfl
theorem randRead_apply (rr : σ → Nat → σ × Option Bytes) (a : Bytes) (s : σ) :
    randRead rr a s = (match (rr s a.length).2 with | some d => .ok (GoKeys.copyArr a.length a d) | none => .err, (rr s a.length).1) := rfl
end lemmas

end Bmc.GoHs
