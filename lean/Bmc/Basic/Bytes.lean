namespace Bmc
abbrev Bytes := List UInt8

/-- lift a finite check over all byte values to a universally quantified statement -/
theorem forall_uint8 {P : UInt8 → Prop} (h : ∀ n : Nat, n < 256 → P (UInt8.ofNat n)) : ∀ b : UInt8, P b := by
  intro b
  have := h b.toNat b.toNat_lt
  simpa using this

theorem forall_bv8 {P : BitVec 8 → Prop} (h : ∀ n : Nat, n < 256 → P (BitVec.ofNat 8 n)) : ∀ b : BitVec 8, P b := by
  intro b
  have := h b.toNat b.isLt
  simpa using this
theorem getD_take (l : Bytes) (n i : Nat) (h : i < n) : (l.take n).getD i 0 = l.getD i 0 := by
  simp [List.getD_eq_getElem?_getD, List.getElem?_take, h]

theorem getD_drop (l : Bytes) (k i : Nat) : (l.drop k).getD i 0 = l.getD (k + i) 0 := by
  simp [List.getD_eq_getElem?_getD, List.getElem?_drop]
end Bmc
