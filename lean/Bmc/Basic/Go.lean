import Bmc.Basic.Bytes
/-! Go slice semantics: indexing is bounded by `len`, slicing by `cap`; panics and
    reads beyond `len` are explicit outcomes. -/
namespace Bmc

inductive R (α : Type) where
  | ok (a : α)
  | err                -- the Go function returned a non-nil error
  | panic              -- runtime panic (index / slice bounds, nil dereference)
  | overread           -- a slice expression reached beyond len (within cap): stale receive-buffer bytes
  deriving Repr, DecidableEq

namespace R
def bad : R α → Bool | .panic => true | .overread => true | _ => false
def isOk : R α → Bool | .ok _ => true | _ => false
def ofExcept : Except ε α → R α | .ok a => .ok a | .error _ => .err
def ofOption : Option α → R α | some a => .ok a | none => .err
def map (f : α → β) : R α → R β | .ok a => .ok (f a) | .err => .err | .panic => .panic | .overread => .overread
instance : Monad R where
  pure := R.ok
  bind x f := match x with
    | .ok a => f a | .err => .err | .panic => .panic | .overread => .overread
@[simp] theorem bind_ok (a : α) (f : α → R β) : (R.ok a >>= f) = f a := rfl
@[simp] theorem bind_err (f : α → R β) : ((R.err : R α) >>= f) = R.err := rfl
@[simp] theorem bind_panic (f : α → R β) : ((R.panic : R α) >>= f) = R.panic := rfl
@[simp] theorem bind_overread (f : α → R β) : ((R.overread : R α) >>= f) = R.overread := rfl
@[simp] theorem pure_eq (a : α) : (pure a : R α) = R.ok a := rfl
@[simp] theorem ofExcept_ok (a : α) : ofExcept (Except.ok a : Except ε α) = R.ok a := rfl
@[simp] theorem ofExcept_error (e : ε) : ofExcept (Except.error e : Except ε α) = R.err := rfl
@[simp] theorem ofOption_some (a : α) : ofOption (some a) = R.ok a := rfl
@[simp] theorem ofOption_none : ofOption (none : Option α) = R.err := rfl
theorem ofExcept_ite (c : Prop) [Decidable c] (a b : Except ε α) :
    ofExcept (if c then a else b) = if c then ofExcept a else ofExcept b := by split <;> rfl
end R

/-- a Go `[]byte`: `buf` runs from the slice start to its capacity, `len` is the length -/
structure GoSlice where
  buf : Bytes
  len : Nat
  h : len ≤ buf.length

namespace GoSlice
/-- the bytes the slice legitimately denotes -/
def vis (s : GoSlice) : Bytes := s.buf.take s.len

/-- an exact-capacity slice -/
def ofBytes (b : Bytes) : GoSlice := ⟨b, b.length, Nat.le_refl _⟩
/-- a window into a larger buffer -/
def window (b tail : Bytes) : GoSlice := ⟨b ++ tail, b.length, by simp⟩

@[simp] theorem len_ofBytes (b : Bytes) : (ofBytes b).len = b.length := rfl
@[simp] theorem vis_ofBytes (b : Bytes) : (ofBytes b).vis = b := by simp [vis, ofBytes]
@[simp] theorem vis_window (b t : Bytes) : (window b t).vis = b := by simp [vis, window]
@[simp] theorem vis_length (s : GoSlice) : s.vis.length = s.len := by simp [vis, Nat.min_eq_left s.h]

@[simp] theorem take_len_drop_vis (s : GoSlice) (k : Nat) :
    List.take (s.len - k) (List.drop k s.vis) = List.drop k s.vis := by
  apply List.take_of_length_le; simp

/-- `s[i]` -/
def idx (s : GoSlice) (i : Nat) : R UInt8 :=
  if i < s.len then .ok (s.buf.getD i 0) else .panic

/-- `s[lo:hi]` -/
def slice (s : GoSlice) (lo hi : Nat) : R GoSlice :=
  if h : lo ≤ hi ∧ hi ≤ s.buf.length then
    (if hi ≤ s.len then .ok ⟨s.buf.drop lo, hi - lo, by simp; omega⟩ else .overread)
  else .panic

/-- `s[lo:]` (upper bound defaults to len) -/
def sliceFrom (s : GoSlice) (lo : Nat) : R GoSlice :=
  if h : lo ≤ s.len then .ok ⟨s.buf.drop lo, s.len - lo, by have := s.h; simp; omega⟩ else .panic

theorem idx_ok (s : GoSlice) (i : Nat) (h : i < s.len) : s.idx i = .ok (s.vis.getD i 0) := by
  simp [idx, h, vis, List.getD_eq_getElem?_getD, List.getElem?_take]

theorem idx_panic (s : GoSlice) (i : Nat) (h : s.len ≤ i) : s.idx i = .panic := by
  simp [idx]; omega

/-- the sub-slice `s[lo:hi]` when it is legal and within `len` -/
def sub (s : GoSlice) (lo hi : Nat) (h1 : lo ≤ hi) (h2 : hi ≤ s.len) : GoSlice :=
  ⟨s.buf.drop lo, hi - lo, by have := s.h; simp; omega⟩

theorem slice_ok (s : GoSlice) (lo hi : Nat) (h1 : lo ≤ hi) (h2 : hi ≤ s.len) :
    s.slice lo hi = .ok (s.sub lo hi h1 h2) := by
  have hs := s.h
  have h3 : lo ≤ hi ∧ hi ≤ s.buf.length := ⟨h1, by omega⟩
  simp [slice, h3, h2, sub]

theorem slice_overread (s : GoSlice) (lo hi : Nat) (h1 : lo ≤ hi) (h2 : s.len < hi) (h3 : hi ≤ s.buf.length) :
    s.slice lo hi = .overread := by
  have : ¬ hi ≤ s.len := by omega
  simp [slice, h1, h3, this]

theorem slice_panic (s : GoSlice) (lo hi : Nat) (h : hi < lo ∨ s.buf.length < hi) : s.slice lo hi = .panic := by
  have : ¬ (lo ≤ hi ∧ hi ≤ s.buf.length) := by omega
  simp [slice, this]

@[simp] theorem sub_vis (s : GoSlice) (lo hi : Nat) (h1 : lo ≤ hi) (h2 : hi ≤ s.len) :
    (s.sub lo hi h1 h2).vis = (s.vis.drop lo).take (hi - lo) := by
  simp only [vis, sub, List.drop_take]
  rw [List.take_take]
  congr 1
  omega

@[simp] theorem sub_len (s : GoSlice) (lo hi : Nat) (h1 : lo ≤ hi) (h2 : hi ≤ s.len) :
    (s.sub lo hi h1 h2).len = hi - lo := rfl

theorem sliceFrom_ok (s : GoSlice) (lo : Nat) (h : lo ≤ s.len) :
    s.sliceFrom lo = .ok (s.sub lo s.len h (Nat.le_refl _)) := by
  simp [sliceFrom, h, sub]

end GoSlice

/-- decoding into a reused receiver: state is kept on every outcome -/
def DecM (σ α : Type) := σ → σ × R α

namespace DecM
instance : Monad (DecM σ) where
  pure a := fun s => (s, .ok a)
  bind m f := fun s => match m s with
    | (s', .ok a) => f a s'
    | (s', .err) => (s', .err)
    | (s', .panic) => (s', .panic)
    | (s', .overread) => (s', .overread)
def set (f : σ → σ) : DecM σ Unit := fun s => (f s, .ok ())
def get : DecM σ σ := fun s => (s, .ok s)
def lift (r : R α) : DecM σ α := fun s => (s, r)
def fail : DecM σ α := fun s => (s, .err)

-- normal forms: run a DecM computation on a state
@[simp] theorem run_pure (a : α) (s : σ) : (pure a : DecM σ α) s = (s, .ok a) := rfl
@[simp] theorem run_fail (s : σ) : (fail : DecM σ α) s = (s, .err) := rfl
@[simp] theorem run_set (g : σ → σ) (s : σ) : set g s = (g s, .ok ()) := rfl
@[simp] theorem run_get (s : σ) : (get : DecM σ σ) s = (s, .ok s) := rfl
@[simp] theorem run_lift (r : R α) (s : σ) : (lift r : DecM σ α) s = (s, r) := rfl
@[simp] theorem bind_set (g : σ → σ) (f : Unit → DecM σ β) (s : σ) : (set g >>= f) s = f () (g s) := rfl
@[simp] theorem bind_get (f : σ → DecM σ β) (s : σ) : (get >>= f) s = f s s := rfl
@[simp] theorem bind_pure (a : α) (f : α → DecM σ β) (s : σ) : ((pure a : DecM σ α) >>= f) s = f a s := rfl
@[simp] theorem bind_fail (f : α → DecM σ β) (s : σ) : ((fail : DecM σ α) >>= f) s = (s, .err) := rfl
@[simp] theorem bind_lift_ok (a : α) (f : α → DecM σ β) (s : σ) : (lift (R.ok a) >>= f) s = f a s := rfl
@[simp] theorem bind_lift_err (f : α → DecM σ β) (s : σ) : (lift (R.err : R α) >>= f) s = (s, .err) := rfl
@[simp] theorem bind_lift_panic (f : α → DecM σ β) (s : σ) : (lift (R.panic : R α) >>= f) s = (s, .panic) := rfl
@[simp] theorem bind_lift_overread (f : α → DecM σ β) (s : σ) : (lift (R.overread : R α) >>= f) s = (s, .overread) := rfl
@[simp] theorem run_ite (c : Prop) [Decidable c] (a b : DecM σ α) (s : σ) :
    (if c then a else b) s = if c then a s else b s := by split <;> rfl
theorem bind_ite (c : Prop) [Decidable c] (a b : DecM σ α) (f : α → DecM σ β) (s : σ) :
    ((if c then a else b) >>= f) s = if c then (a >>= f) s else (b >>= f) s := by split <;> rfl
theorem bind_assoc' (m : DecM σ α) (f : α → DecM σ β) (g : β → DecM σ γ) (s : σ) :
    ((m >>= f) >>= g) s = (m >>= fun a => f a >>= g) s := by
  show (match (match m s with | (s', .ok a) => f a s' | (s', .err) => (s', .err) | (s', .panic) => (s', .panic) | (s', .overread) => (s', .overread)) with
        | (s', .ok a) => g a s' | (s', .err) => (s', .err) | (s', .panic) => (s', .panic) | (s', .overread) => (s', .overread)) = _
  show _ = (match m s with | (s', .ok a) => (f a >>= g) s' | (s', .err) => (s', .err) | (s', .panic) => (s', .panic) | (s', .overread) => (s', .overread))
  rcases m s with ⟨s', r⟩
  cases r <;> rfl
end DecM

end Bmc
