import Bmc.Basic.Go
namespace Bmc
/-- one round of: rewrite legal Go slice/index expressions, fold results, split remaining conditionals,
    discharge impossible arithmetic branches -/
syntax "go_round" ("[" Lean.Parser.Tactic.simpLemma,* "]")? : tactic
macro_rules
  | `(tactic| go_round) => `(tactic| go_round [])
  | `(tactic| go_round [$ls,*]) => `(tactic| (
      all_goals (try simp (disch := (first | omega | (simp only [GoSlice.len_ofBytes, GoSlice.vis_length]; omega))) only [GoSlice.slice_ok, GoSlice.sliceFrom_ok, R.bind_ok, R.bind_err,
        GoSlice.sub_vis, GoSlice.sub_len, R.ofExcept_ok, R.ofExcept_error, R.ofExcept_ite, GoSlice.idx_ok,
        if_true, if_false, Nat.sub_zero, List.drop_zero, Nat.add_sub_cancel_left, GoSlice.take_len_drop_vis,
        GoSlice.vis_length, R.pure_eq, getD_take, getD_drop, GoSlice.len_ofBytes, GoSlice.vis_ofBytes, $ls,*])
      all_goals (try rfl)
      all_goals (try (repeat' split))
      all_goals (try (exfalso; omega))))
end Bmc
