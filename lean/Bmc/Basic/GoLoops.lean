import Bmc.Basic.GoOrch
/-! Support definitions for the RETRY LOOPS REGENERATED from the Go source by `tools/loopgen` (`Bmc/Gen/Loops.lean`):
    `V2Session.buildAndSend`, `V2Sessionless.buildAndSendCommand`, `V2Sessionless.buildAndSendPayload` and the two
    `SendCommand` wrappers.

    * the translated code runs in `GoOrch.M (σ × K)`: `σ` is the state of the SURROUNDINGS (the transport with the BMC
      behind it, crypto/rand, the caller's context and the clock — a type parameter; everything the code does with them
      goes through the functions of the generated structure `World`), `K` is the generated record `Conn` of the
      connection's own mutable state (the layer structs, the sequence counter, the serialise buffer, the decoded layer
      types, the log of Prometheus calls). `.panic` = a run-time panic (a layer decoder; nothing recovers on this path).
    * Go `error` values are `Option GoErr` (`none` = nil): they are stored (`terminalErr = err`), compared with nil and
      returned; which call or expression produced one is all that is kept (messages are not modelled).
    * `backoffRetry`: `backoff.Retry(op, backoff.WithContext(policy, ctx))`, a definition written after cenkalti/backoff v4.3.0
      `retry.go: doRetryNotify` and `context.go: backOffContext.NextBackOff` — a modelling decision, not a translation.
    * `Opaque`: a value the translation does not look into (an interface value, a `gopacket.LayerType`): it is only
      copied, compared with the zero value, and handed to the surroundings. -/
namespace Bmc.GoLoops
open Bmc Bmc.GoOrch

/-- a value the translation does not look into; `0` is the Go zero value (a nil interface) -/
abbrev Opaque := Nat

/-- a Go `error` that is not nil: where it came from -/
inductive GoErr where
  | serialize        -- returned by `gopacket.SerializeLayers`
  | transport        -- returned by `transport.Send`
  | decode           -- returned by the connection's `gopacket.DecodingLayerFunc`
  | innermost        -- returned by `layerexts.DecodedTypes.InnermostEquals`
  | errorf           -- built on the spot by `fmt.Errorf` / `errors.New`
  | sentinel         -- a package-level error variable initialised by `errors.New` and never assigned
  | ctx              -- the context's error, as `backoff.Retry` returns it
  | response         -- returned by the `DecodeFromBytes` of the command's / payload's response layer
  deriving DecidableEq, Repr

/-- `gopacket.SerializeOptions` -/
structure SerializeOptions where
  fixLengths : Bool := false
  computeChecksums : Bool := false
  deriving DecidableEq, Repr

/-- a label value of a Prometheus vector -/
inductive Label where
  | code (c : UInt8)      -- `code.String()` of an `ipmi.CompletionCode` ("%#.2x(%v)": a function of the code, injective)
  | str (s : String)      -- a Go string (the command's `Name()`)
  deriving DecidableEq, Repr

/-- one Prometheus call; `metric` is the name of the package-level variable -/
inductive Ev where
  | inc (metric : String) (labels : List Label)     -- `m.Inc()` / `m.WithLabelValues(labels…).Inc()`
  | timerStart (metric : String)                    -- `prometheus.NewTimer(m)`
  | timerObserve (metric : String)                  -- `timer.ObserveDuration()` of the timer started on `m`
  deriving DecidableEq, Repr

/-- how `s.decode(response, &s.layers)` ended -/
inductive DecodeOutcome where
  | ok        -- nil error: every layer up to the innermost one decoded (or the chain stopped at a layer type without decoder)
  | err       -- a layer returned an error
  | panic     -- a layer panicked
  deriving DecidableEq, Repr

/-- what the back-off says after a failed attempt (`b.NextBackOff()`, then the `select` on the timer and `ctx.Done()`) -/
inductive Wait where
  | again       -- the delay passed with the context still live: the operation is run again
  | ctxDone     -- the context was done when the delay was asked for, or ended during it: `Retry` returns the CONTEXT's error
  | stop        -- the policy itself gave up (`Stop`) with the context live: `Retry` returns the operation's error
  deriving DecidableEq, Repr

/-- a call into the surroundings that reads and may update the connection's state; it does not panic -/
def callW {σ K α : Type} (f : σ → K → σ × K × α) : M (σ × K) α := fun s =>
  let r := f s.1 s.2
  (.ok r.2.2, (r.1, r.2.1))

/-- a pure step on the connection's state that may panic (`none`) -/
def callP {σ K α : Type} (f : K → K × Option α) : M (σ × K) α := fun s =>
  let r := f s.2
  (match r.2 with | some a => .ok a | none => .panic, (s.1, r.1))

/-- `defer d` at the top of a function whose remaining body is `body`: `d` runs when the body is left — by a return, and
    by a panic as well (the panic then goes on) -/
def deferred {σ α : Type} (d : M σ Unit) (body : M σ α) : M σ α := fun s =>
  let r := body s
  (r.1, (d r.2).2)

/-- what `backoff.Retry` does once the operation has returned the error `e` (captured variables `b`) -/
def afterErr {σ K β : Type} (wait : σ → σ × Wait) (again : β → M (σ × K) (β × Option GoErr)) (b : β) (e : GoErr) :
    M (σ × K) (β × Option GoErr) := fun s =>
  let w := wait s.1
  match w.2 with
  | .again => again b (w.1, s.2)
  | .ctxDone => (.ok (b, some .ctx), (w.1, s.2))
  | .stop => (.ok (b, some e), (w.1, s.2))

/-- `backoff.Retry(op, backoff.WithContext(policy, ctx))` (v4.3.0 `doRetryNotify`): the operation is ALWAYS run once; nil ⇒
    nil; an error ⇒ the back-off is consulted (`wait`, a function of the surroundings): run again, or return the context's
    error, or — the policy gave up — the operation's error. `op` takes and returns the variables it captures and assigns
    (`β`). None of the errors of the translated closures is a `*backoff.PermanentError` (they come from gopacket, the
    transport, `fmt.Errorf` and `errors.New`; an assumption about the transport). `fuel` bounds the number of runs
    (`RF.outOfFuel` beyond it): the Go loop has no bound of its own. A panic inside `op` ends everything. -/
def backoffRetry {σ K β : Type} (wait : σ → σ × Wait) : Nat → (β → M (σ × K) (β × Option GoErr)) → β → M (σ × K) (β × Option GoErr)
  | 0, _, _ => fun s => (.outOfFuel, s)
  | n + 1, op, b => fun s =>
    match op b s with
    | (.ok (b', none), s') => (.ok (b', none), s')
    | (.ok (b', some e), s') => afterErr wait (backoffRetry wait n op) b' e s'
    | (r, s') => (castBad r, s')

section lemmas
variable {σ K α β : Type}

@[simp] theorem callW_apply (f : σ → K → σ × K × α) (s : σ × K) :
    callW f s = (.ok (f s.1 s.2).2.2, ((f s.1 s.2).1, (f s.1 s.2).2.1)) := rfl
@[simp] theorem callP_apply (f : K → K × Option α) (s : σ × K) :
    callP f s = (match (f s.2).2 with | some a => .ok a | none => .panic, (s.1, (f s.2).1)) := rfl
@[simp] theorem deferred_apply (d : M σ Unit) (body : M σ α) (s : σ) : deferred d body s = ((body s).1, (d (body s).2).2) := rfl
theorem backoffRetry_zero (wait : σ → σ × Wait) (op : β → M (σ × K) (β × Option GoErr)) (b : β) (s : σ × K) :
    backoffRetry wait 0 op b s = (.outOfFuel, s) := rfl
theorem backoffRetry_succ (wait : σ → σ × Wait) (n : Nat) (op : β → M (σ × K) (β × Option GoErr)) (b : β) (s : σ × K) :
    backoffRetry wait (n + 1) op b s = match op b s with
      | (.ok (b', none), s') => (.ok (b', none), s')
      | (.ok (b', some e), s') => afterErr wait (backoffRetry wait n op) b' e s'
      | (r, s') => (castBad r, s') := rfl
theorem afterErr_apply (wait : σ → σ × Wait) (again : β → M (σ × K) (β × Option GoErr)) (b : β) (e : GoErr) (s : σ × K) :
    afterErr wait again b e s = match (wait s.1).2 with
      | .again => again b ((wait s.1).1, s.2)
      | .ctxDone => (.ok (b, some .ctx), ((wait s.1).1, s.2))
      | .stop => (.ok (b, some e), ((wait s.1).1, s.2)) := rfl
end lemmas

end Bmc.GoLoops
