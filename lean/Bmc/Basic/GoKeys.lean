import Bmc.Basic.Bytes
/-! Support definitions for the key-derivation code REGENERATED from the Go source by `tools/keygen` (`Bmc/Gen/Keys.lean`):
    the few library functions and builtins the translation refers to, written after their Go sources. -/
namespace Bmc.GoKeys
open Bmc

/-- `binary.LittleEndian.PutUint32(a[:], v)` on a byte array holding `a` (at least 4 bytes — checked by the translator on
    the array type): `_ = b[3]; b[0] = byte(v); b[1] = byte(v >> 8); b[2] = byte(v >> 16); b[3] = byte(v >> 24)` -/
def putUint32LE (a : Bytes) (v : UInt32) : Bytes :=
  [v.toUInt8, (v >>> 8).toUInt8, (v >>> 16).toUInt8, (v >>> 24).toUInt8] ++ a.drop 4

/-- `copy(arr[:], src)` into an `[n]byte` array holding `dst`: the first `min n (len src)` bytes are replaced -/
def copyArr (n : Nat) (dst src : Bytes) : Bytes :=
  src.take n ++ (dst.drop (min n src.length)).take (n - min n src.length)

/-- `s[:hi]` on a byte slice whose `len(s)` elements are `s`: the first `hi` of them. `none` when `hi` is negative (a panic)
    or beyond `len(s)` (beyond `cap(s)` a panic; up to it the slice would expose bytes that are not elements of `s`) -/
def sliceTo (s : Bytes) (hi : Int) : Option Bytes :=
  if 0 ≤ hi ∧ hi.toNat ≤ s.length then some (s.take hi.toNat) else none

end Bmc.GoKeys
