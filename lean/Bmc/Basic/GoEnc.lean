import Bmc.Basic.GoDec
/-! Support definitions for the serialisers REGENERATED from the Go source by `tools/encgen` (`Bmc/Gen/Enc.lean`).

`gopacket.SerializeBuffer` (gopacket v1.1.19, `writer.go`) is modelled by the byte list `buf` it holds.
`PrependBytes(n)` / `AppendBytes(n)` hand back `n` bytes in front of / behind it whose CONTENT IS INDETERMINATE: a connection
reuses one buffer for every packet and `Clear()` only resets indices, so the bytes are whatever an earlier packet left
there (and zeros when the buffer had to grow). The translation takes that content from the parameter `stale`, consumed
allocation by allocation (`fresh stale n`, then `stale.drop n`): every assignment of contents to the allocations of one
run is some `stale`. A negative `n` is a panic; the buffer never returns an error (so `if err != nil { return err }`
after the call is dead code). The slice handed back is valid until the next `PrependBytes` / `AppendBytes`, which may
move the contents to a new array: the translator refuses code that uses it later.

Indexing the slice handed back is bounded by its length (panic beyond). A slice expression on it whose upper bound
exceeds its length reaches bytes of other layers (or panics, depending on the capacity): outcome `overread`, i.e. never a
value. -/
namespace Bmc.GoEnc
open Bmc

/-- `gopacket.SerializeOptions` -/
structure SerializeOptions where
  fixLengths : Bool := false
  computeChecksums : Bool := false
  deriving Repr, DecidableEq

/-- the options the library serialises with (`serializeOptions` in `bmc.go`: both true) -/
def libraryOptions : SerializeOptions := { fixLengths := true, computeChecksums := true }

/-- `n` bytes of indeterminate content: byte `i` is `stale[i]` (0 where `stale` is shorter) -/
def fresh (stale : Bytes) : Nat → Bytes
  | 0 => []
  | n + 1 => stale.headD 0 :: fresh stale.tail n

/-- a Go `int` used as a length or index: negative is a run-time panic -/
def nat (i : Int) : R Nat := if i < 0 then .panic else .ok i.toNat

/-- `w[i]` -/
def getB (w : Bytes) (i : Nat) : R UInt8 := if i < w.length then .ok (w.getD i 0) else .panic

/-- `w[i] = v` -/
def setB (w : Bytes) (i : Nat) (v : UInt8) : R Bytes := if i < w.length then .ok (w.set i v) else .panic

/-- the bounds of `w[lo:hi]` -/
def bounds (w : Bytes) (lo hi : Nat) : R Unit :=
  if hi < lo then .panic else if w.length < hi then .overread else .ok ()

/-- `w[lo:hi]` read as a value -/
def slice (w : Bytes) (lo hi : Nat) : R Bytes := do
  bounds w lo hi
  pure ((w.drop lo).take (hi - lo))

/-- the bytes of `w` from `lo` on replaced by `bs` (as many as `bs` has; the caller guarantees they fit) -/
def splice (w : Bytes) (lo : Nat) (bs : Bytes) : Bytes := w.take lo ++ bs ++ w.drop (lo + bs.length)

/-- the bytes `binary.LittleEndian.PutUint16` writes: `b[0] = byte(v); b[1] = byte(v >> 8)` -/
def leBytes16 (v : UInt16) : Bytes := [v.toUInt8, (v >>> 8).toUInt8]
/-- the bytes `binary.LittleEndian.PutUint32` writes -/
def leBytes32 (v : UInt32) : Bytes := [v.toUInt8, (v >>> 8).toUInt8, (v >>> 16).toUInt8, (v >>> 24).toUInt8]

/-- `binary.LittleEndian.PutUint16(w[lo:hi], v)`: `_ = b[1]` (panic when shorter), then two bytes -/
def put16 (w : Bytes) (lo hi : Nat) (v : UInt16) : R Bytes := do
  bounds w lo hi
  if hi - lo < 2 then .panic else
  pure (splice w lo (leBytes16 v))

/-- `binary.LittleEndian.PutUint32(w[lo:hi], v)`: `_ = b[3]`, then four bytes -/
def put32 (w : Bytes) (lo hi : Nat) (v : UInt32) : R Bytes := do
  bounds w lo hi
  if hi - lo < 4 then .panic else
  pure (splice w lo (leBytes32 v))

/-- `copy(w[lo:hi], src)`: the first `min (hi-lo) (len src)` bytes of `src` -/
def copyInto (w : Bytes) (lo hi : Nat) (src : Bytes) : R Bytes := do
  bounds w lo hi
  pure (splice w lo (src.take (hi - lo)))

/-! ## external calls kept as parameters (`tools/encgen/ext.go`; `ipmi.AES128CBC.SerializeTo`)

A local holding `b.Bytes()[lo:]` ALIASES the buffer's array from `lo` on, but only until the next `PrependBytes` /
`AppendBytes` (which may move the contents to a new array, leaving the local pointing at the old one — defect F13): the
translator refuses any use of such a local after an allocation, so that an in-place operation through it is an operation
on what the buffer holds AT THE TIME OF THE CALL. -/

/-- `rand.Read(w)` (crypto/rand; `io.ReadFull` on the entropy source: the error is nil iff all `len(w)` bytes were filled).
    `drawn` is a PARAMETER of the translated definition: `some bs` = the call fills `w` with the bytes drawn (`bs`; exactly
    `len(w)` of them are used, missing ones read as 0 so that the definition is total) and returns a nil error; `none` = it
    returns an error, which the caller returns at once (what `w` holds then is not observable). -/
def randRead (drawn : Option Bytes) (w : Bytes) : R Bytes :=
  match drawn with
  | none => .err
  | some bs => .ok ((bs ++ List.replicate w.length 0).take w.length)

/-- what the buffer `w` holds after `cipher.NewCBCEncrypter(block, iv).CryptBlocks(v, v)` where `v` aliases `w[lo:]`: the
    bytes from `lo` on are replaced by `enc iv (the bytes they hold now)`; `crypto/cipher` panics when the IV is not one
    block (`NewCBCEncrypter`) or the input is not a whole number of blocks (`CryptBlocks`). `enc` (the keyed block cipher
    in CBC mode) is a PARAMETER of the translated definition; exactly `len(v)` bytes of its result are used (missing ones
    read as 0), so that the definition is total for any `enc`. -/
def cryptBlocksInPlace (enc : Bytes → Bytes → Bytes) (blockSize : Nat) (iv : Bytes) (w : Bytes) (lo : Nat) : R Bytes :=
  if iv.length ≠ blockSize then .panic
  else if w.length < lo then .panic
  else if (w.length - lo) % blockSize ≠ 0 then .panic
  else
    let pt := w.drop lo
    .ok (w.take lo ++ (enc iv pt ++ List.replicate pt.length 0).take pt.length)

end Bmc.GoEnc
