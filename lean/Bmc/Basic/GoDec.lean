import Bmc.Basic.Go
/-! Support definitions for the decoders REGENERATED from the Go source by `tools/decgen` (`Bmc/Gen/Dec.lean`):
    the few library functions and builtins the translation refers to, written after their Go sources. -/
namespace Bmc

/-- `R` is a lawful monad (used for the `List.foldlM` that counting loops are translated into) -/
instance : LawfulMonad R := LawfulMonad.mk' R
  (id_map := fun x => by cases x <;> rfl)
  (pure_bind := fun x f => rfl)
  (bind_assoc := fun x f g => by cases x <;> rfl)

end Bmc

namespace Bmc.GoDec
open Bmc

/-- `binary.LittleEndian.Uint16(b)` once `len(b) ≥ 2` is known: `uint16(b[0]) | uint16(b[1])<<8` -/
def le16 (b : Bytes) : UInt16 := (b.getD 0 0).toUInt16 ||| ((b.getD 1 0).toUInt16 <<< 8)

/-- `binary.LittleEndian.Uint32(b)` once `len(b) ≥ 4` is known -/
def le32 (b : Bytes) : UInt32 :=
  (b.getD 0 0).toUInt32 ||| ((b.getD 1 0).toUInt32 <<< 8) ||| ((b.getD 2 0).toUInt32 <<< 16) ||| ((b.getD 3 0).toUInt32 <<< 24)

/-- `binary.LittleEndian.Uint16(s)` on a slice of unknown length: begins with `_ = b[1]` (bounds check) -/
def le16Go (s : GoSlice) : R UInt16 := if s.len < 2 then .panic else .ok (le16 s.vis)
/-- `binary.LittleEndian.Uint32(s)`: begins with `_ = b[3]` -/
def le32Go (s : GoSlice) : R UInt32 := if s.len < 4 then .panic else .ok (le32 s.vis)

/-- a Go `int` used as an index or slice bound: negative is a run-time panic -/
def nat (i : Int) : R Nat := if i < 0 then .panic else .ok i.toNat

theorem nat_ok (i : Int) (h : 0 ≤ i) : nat i = .ok i.toNat := by
  unfold nat; split <;> first | omega | rfl

/-- `copy(arr[:], src)` into an `[n]byte` array holding `dst`: the first `min n (len src)` bytes are replaced -/
def copyArr (n : Nat) (dst src : Bytes) : Bytes :=
  src.take n ++ (dst.drop (min n src.length)).take (n - min n src.length)

/-- `copy(arr[lo:], src)` into an `[n]byte` array holding `dst` -/
def copyAt (n lo : Nat) (dst src : Bytes) : Bytes :=
  dst.take lo ++ copyArr (n - lo) (dst.drop lo) src

theorem copyArr_full (n : Nat) (dst src : Bytes) (h : n ≤ src.length) : copyArr n dst src = src.take n := by
  simp [copyArr, Nat.min_eq_left h]

/-- `s[i] = v` on a Go slice given as the list of its `len(s)` elements: an index beyond the length is a panic -/
def setAt {α : Type} (l : List α) (i : Nat) (v : α) : R (List α) := if i < l.length then .ok (l.set i v) else .panic

end Bmc.GoDec
