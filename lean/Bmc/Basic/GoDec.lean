import Bmc.Basic.Go
/-! Support definitions for the decoders REGENERATED from the Go source by `tools/decgen` (`Bmc/Gen/Dec.lean`):
    the few library functions and builtins the translation refers to, written after their Go sources. -/
namespace Bmc

/-- `R` is a lawful monad (used for the `List.foldlM` that counting loops are translated into) -/
instance : LawfulMonad R := LawfulMonad.mk' R
  (id_map := fun x => by cases x <;> rfl)
  (pure_bind := fun x f => rfl)
  (bind_assoc := fun x f g => by cases x <;> rfl)

end Bmc

namespace Bmc.GoDec
open Bmc

/-- `binary.LittleEndian.Uint16(b)` once `len(b) ≥ 2` is known: `uint16(b[0]) | uint16(b[1])<<8` -/
def le16 (b : Bytes) : UInt16 := (b.getD 0 0).toUInt16 ||| ((b.getD 1 0).toUInt16 <<< 8)

/-- `binary.LittleEndian.Uint32(b)` once `len(b) ≥ 4` is known -/
def le32 (b : Bytes) : UInt32 :=
  (b.getD 0 0).toUInt32 ||| ((b.getD 1 0).toUInt32 <<< 8) ||| ((b.getD 2 0).toUInt32 <<< 16) ||| ((b.getD 3 0).toUInt32 <<< 24)

/-- `binary.LittleEndian.Uint16(s)` on a slice of unknown length: begins with `_ = b[1]` (bounds check) -/
def le16Go (s : GoSlice) : R UInt16 := if s.len < 2 then .panic else .ok (le16 s.vis)
/-- `binary.LittleEndian.Uint32(s)`: begins with `_ = b[3]` -/
def le32Go (s : GoSlice) : R UInt32 := if s.len < 4 then .panic else .ok (le32 s.vis)

/-- a Go `int` used as an index or slice bound: negative is a run-time panic -/
def nat (i : Int) : R Nat := if i < 0 then .panic else .ok i.toNat

theorem nat_ok (i : Int) (h : 0 ≤ i) : nat i = .ok i.toNat := by
  unfold nat; split <;> first | omega | rfl

/-- `copy(arr[:], src)` into an `[n]byte` array holding `dst`: the first `min n (len src)` bytes are replaced -/
def copyArr (n : Nat) (dst src : Bytes) : Bytes :=
  src.take n ++ (dst.drop (min n src.length)).take (n - min n src.length)

/-- `copy(arr[lo:], src)` into an `[n]byte` array holding `dst` -/
def copyAt (n lo : Nat) (dst src : Bytes) : Bytes :=
  dst.take lo ++ copyArr (n - lo) (dst.drop lo) src

theorem copyArr_full (n : Nat) (dst src : Bytes) (h : n ≤ src.length) : copyArr n dst src = src.take n := by
  simp [copyArr, Nat.min_eq_left h]

/-- `s[i] = v` on a Go slice given as the list of its `len(s)` elements: an index beyond the length is a panic -/
def setAt {α : Type} (l : List α) (i : Nat) (v : α) : R (List α) := if i < l.length then .ok (l.set i v) else .panic

end Bmc.GoDec

/-! ## Additions for the wider language of `tools/decgen` (signed narrow integers, shifts by a variable count,
    package-level tables, strings built from runes, counting loops from any start, loops with fuel, external calls) -/
namespace Bmc

/-- outcome of a translated function that contains a loop the translator cannot bound structurally: the outcomes of
    `R` plus `outOfFuel` (the loop was cut off by the fuel the translator chose). The equality theorem with the hand
    model (`RF.lift (model …)`) shows it never occurs. -/
inductive RF (α : Type) where
  | ok (a : α)
  | err
  | panic
  | overread
  | outOfFuel
  deriving Repr, DecidableEq

namespace RF
def lift : R α → RF α | .ok a => .ok a | .err => .err | .panic => .panic | .overread => .overread
def map (f : α → β) : RF α → RF β
  | .ok a => .ok (f a) | .err => .err | .panic => .panic | .overread => .overread | .outOfFuel => .outOfFuel
instance : Monad RF where
  pure := RF.ok
  bind x f := match x with
    | .ok a => f a | .err => .err | .panic => .panic | .overread => .overread | .outOfFuel => .outOfFuel
instance : LawfulMonad RF := LawfulMonad.mk' RF
  (id_map := fun x => by cases x <;> rfl)
  (pure_bind := fun x f => rfl)
  (bind_assoc := fun x f g => by cases x <;> rfl)
@[simp] theorem bind_ok (a : α) (f : α → RF β) : (RF.ok a >>= f) = f a := rfl
@[simp] theorem bind_err (f : α → RF β) : ((RF.err : RF α) >>= f) = RF.err := rfl
@[simp] theorem bind_panic (f : α → RF β) : ((RF.panic : RF α) >>= f) = RF.panic := rfl
@[simp] theorem bind_overread (f : α → RF β) : ((RF.overread : RF α) >>= f) = RF.overread := rfl
@[simp] theorem bind_outOfFuel (f : α → RF β) : ((RF.outOfFuel : RF α) >>= f) = RF.outOfFuel := rfl
@[simp] theorem pure_eq (a : α) : (pure a : RF α) = RF.ok a := rfl
@[simp] theorem lift_ok (a : α) : lift (R.ok a) = RF.ok a := rfl
@[simp] theorem lift_err : lift (R.err : R α) = RF.err := rfl
@[simp] theorem lift_panic : lift (R.panic : R α) = RF.panic := rfl
@[simp] theorem lift_overread : lift (R.overread : R α) = RF.overread := rfl
theorem lift_bind (x : R α) (f : α → R β) : lift (x >>= f) = (lift x >>= fun a => lift (f a)) := by cases x <;> rfl
theorem lift_map (g : α → β) (x : R α) : lift (x.map g) = (lift x).map g := by cases x <;> rfl
theorem lift_ite (c : Prop) [Decidable c] (a b : R α) : lift (if c then a else b) = if c then lift a else lift b := by
  split <;> rfl
end RF
end Bmc

namespace Bmc.GoDec
open Bmc

/-- a Go loop that is not a counting loop, with FUEL: `step s` evaluates the condition on the loop state `s` and gives
    `none` when it is false (the loop is left with `s`), otherwise runs body and post statement and gives the next
    state. Running out of fuel is the distinguished outcome `RF.outOfFuel`. -/
def loopM {σ : Type} : Nat → (σ → RF (Option σ)) → σ → RF σ
  | 0, _, _ => RF.outOfFuel
  | n + 1, step, s => do
    match ← step s with
    | none => pure s
    | some s' => loopM n step s'

/-- Go's `x << n` for an unsigned count `n` (as ℕ): counts at or above the width give 0 (Lean's `<<<` would reduce the
    count modulo the width) -/
def shl8 (a : UInt8) (n : Nat) : UInt8 := if n < 8 then a <<< UInt8.ofNat n else 0
def shr8 (a : UInt8) (n : Nat) : UInt8 := if n < 8 then a >>> UInt8.ofNat n else 0
def shl16 (a : UInt16) (n : Nat) : UInt16 := if n < 16 then a <<< UInt16.ofNat n else 0
def shr16 (a : UInt16) (n : Nat) : UInt16 := if n < 16 then a >>> UInt16.ofNat n else 0
def shl32 (a : UInt32) (n : Nat) : UInt32 := if n < 32 then a <<< UInt32.ofNat n else 0
def shr32 (a : UInt32) (n : Nat) : UInt32 := if n < 32 then a >>> UInt32.ofNat n else 0

/-- `arr[i]` on a package-level array / a local slice given as the list of its elements: beyond the length is a panic -/
def listIdx {α : Type} (l : List α) (i : Nat) : R α := match l[i]? with | some a => .ok a | none => .panic

/-- the integers `lo, lo+1, …, hi-1` (none when `hi ≤ lo`): the values of `i` in `for i := lo; i < hi; i++` -/
def intRange (lo hi : Int) : List Int := (List.range (hi - lo).toNat).map (fun (k : Nat) => lo + (k : Int))

/-- `int(math.Ceil(float64(a) / k))` for `k` a power of two: `float64(a)` is exact for |a| < 2^53, the division by a
    power of two and `math.Ceil` are exact, so this is the ceiling of the rational quotient (stated for |a| < 2^53;
    like the absence of wrap-around at 2^63, larger values are outside the translation) -/
def floatCeilDiv (a : Int) (k : Nat) : Int := -((-a) / (k : Int))
/-- `int(math.Floor(float64(a) / k))` for `k` a power of two: floor of the rational quotient (|a| < 2^53) -/
def floatFloorDiv (a : Int) (k : Nat) : Int := a / (k : Int)

/-- `utf8.AppendRune`: the UTF-8 encoding of one rune; surrogates and values outside 0…0x10FFFF encode U+FFFD -/
def utf8Rune (r : Int) : Bytes :=
  if 0 ≤ r ∧ r < 0x80 then [UInt8.ofNat r.toNat]
  else if 0 ≤ r ∧ r < 0x800 then [UInt8.ofNat (0xC0 + r.toNat / 64), UInt8.ofNat (0x80 + r.toNat % 64)]
  else if r < 0 ∨ r > 0x10FFFF ∨ (0xD800 ≤ r ∧ r ≤ 0xDFFF) then [0xEF, 0xBF, 0xBD]
  else if r < 0x10000 then
    [UInt8.ofNat (0xE0 + r.toNat / 4096), UInt8.ofNat (0x80 + r.toNat / 64 % 64), UInt8.ofNat (0x80 + r.toNat % 64)]
  else [UInt8.ofNat (0xF0 + r.toNat / 262144), UInt8.ofNat (0x80 + r.toNat / 4096 % 64),
        UInt8.ofNat (0x80 + r.toNat / 64 % 64), UInt8.ofNat (0x80 + r.toNat % 64)]

/-- `string(runes)` for a `[]rune`: the bytes of the resulting Go string -/
def stringOfRunes (rs : List Int32) : Bytes := rs.flatMap (fun r => utf8Rune r.toInt)

/-- what `data` denotes after `cipher.NewCBCDecrypter(block, iv).CryptBlocks(data[lo:], data[lo:])`: the bytes from
    `lo` to `len` are replaced by `dec iv (those bytes)`; `crypto/cipher` panics when the IV is not one block
    (`NewCBCDecrypter`) or the input is not a whole number of blocks (`CryptBlocks`). `dec` (the keyed block cipher in
    CBC mode) is a PARAMETER of the translated definition; only the first `len - lo` bytes of its result are used
    (missing ones read as 0), so that the definition is total for any `dec`. -/
def cryptBlocksInPlace (dec : Bytes → Bytes → Bytes) (blockSize : Nat) (iv : Bytes) (s : GoSlice) (lo : Nat) : R GoSlice :=
  if iv.length ≠ blockSize then .panic
  else if h : lo ≤ s.len then
    if (s.len - lo) % blockSize ≠ 0 then .panic
    else
      let ct := (s.buf.take s.len).drop lo
      let pt := dec iv ct
      let new := (pt ++ List.replicate (s.len - lo) 0).take (s.len - lo)
      .ok ⟨s.buf.take lo ++ new ++ s.buf.drop s.len, s.len, by
        have := s.h
        simp only [List.length_append, List.length_take, List.length_drop, List.length_replicate, new]
        omega⟩
  else .panic

end Bmc.GoDec
