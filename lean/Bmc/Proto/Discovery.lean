import Bmc.Proto.Suites
import Bmc.Proto.Enum
/-! `determineCipherSuite` (v2session_new.go) WITH discovery executed: when there are several candidates the code calls
    `RetrieveSupportedCipherSuites` (the chunk loop over Get Channel Cipher Suites list indices + the record parser,
    `Proto/Enum.lean`), discards record IDs and OEM enterprise numbers, and picks the first preference found. -/
namespace Bmc.Proto
open Bmc

/-- "it's fine to discard IDs and OEMs - they are irrelevant for Open Session" -/
def suiteOfEntry (e : Enum.Entry) : Suite := ⟨e.auth, e.integ, e.conf⟩

/-- what discovery hands to the selection: the advertised suites, or nothing when retrieval or parsing failed -/
def discovered (page : Nat → Option Bytes) : Option (List Suite) :=
  match (Enum.retrieveSupportedCipherSuites page).2 with
  | .ok es => some (es.map suiteOfEntry)
  | _ => none

/-- `determineCipherSuite` against a BMC answering list index `i` with `page i` (`none` = the command failed) -/
def determineFull (prefs : List Suite) (page : Nat → Option Bytes) : Choice := determine prefs (discovered page)

end Bmc.Proto
