/-! Connections as independent state machines under an arbitrary interleaving (C19). -/
namespace Bmc.Proto.Isolation

/-- `n` connections; connection `i` has state `σ`, and a step reads/writes ONLY its own state (shared tables are
    read-only and therefore part of `step`) -/
structure System (σ op out : Type) where
  step : σ → op → σ × out

/-- run a schedule of (connection, operation) pairs on a family of states; collect (connection, output) in order -/
def interleaved {σ op out : Type} (S : System σ op out) : (Nat → σ) → List (Nat × op) → (Nat → σ) × List (Nat × out)
  | st, [] => (st, [])
  | st, (i, o) :: rest =>
    let (s', r) := S.step (st i) o
    let st' := fun j => if j = i then s' else st j
    let (fin, outs) := interleaved S st' rest
    (fin, (i, r) :: outs)

/-- connection `i` run alone on its own operations, in order -/
def solo {σ op out : Type} (S : System σ op out) : σ → List op → σ × List out
  | s, [] => (s, [])
  | s, o :: rest =>
    let (s', r) := S.step s o
    let (fin, outs) := solo S s' rest
    (fin, r :: outs)

def project {α : Type} (i : Nat) (l : List (Nat × α)) : List α := (l.filter (·.1 == i)).map (·.2)

end Bmc.Proto.Isolation
