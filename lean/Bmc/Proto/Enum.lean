import Bmc.Basic.Go
import Bmc.Wire.Simple
import Bmc.Wire.Dcmi
import Bmc.Gen.Facts
/-! # Model of the paged enumerations (C16)

`cipher_suites.go`: `RetrieveSupportedCipherSuites` (chunk loop), `parseCipherSuiteRecordData` (record grammar and
cross-product expansion); `pkg/dcmi/sensor_info.go`: `getEntityInstances`, `getSensorMap`, `GetSensorInfo`.

The BMC is a parameter: a function from what the code puts on the wire to what `SendCommand` + `ValidateResponse` +
the response layer hand back (`none` = any error). Every definition returns, beside its result, the list of requests it
made, in order, so that the request log is an observable of the model. Loops carry fuel; for each the lemma that the
fuel given suffices is in `Lemmas/Enum*.lean` (for EVERY BMC, not only conforming ones). -/
namespace Bmc.Proto.Enum
open Bmc Bmc.Wire

/-! ## parseCipherSuiteRecordData -/

/-- `ipmi.CipherSuiteRecord` (CipherSuiteID, the three algorithms, Enterprise) -/
structure Entry where
  id : Nat
  iana : Nat
  auth : Nat
  integ : Nat
  conf : Nat
  deriving Repr, DecidableEq

/-- `joined[i]` on a `[]byte` of exactly these bytes: a run-time panic when `i ≥ len(joined)`. (The function only
    indexes and re-slices with `joined[offset:]`, both bounded by `len`, so capacity beyond `len` cannot matter.) -/
def bidx (j : Bytes) (i : Nat) : R UInt8 := (GoSlice.ofBytes j).idx i

/-- `for ; len(joined) > offset && joined[offset]>>6 == tag; offset++ { algs = append(algs, joined[offset]&0x3f) }`;
    returns the final offset and the algorithms collected -/
def scan (j : Bytes) (tag : UInt8) : Nat → Nat → List Nat → R (Nat × List Nat)
  | 0, off, acc => .ok (off, acc)
  | f + 1, off, acc =>
    if j.length > off then do
      let b ← bidx j off
      if b >>> 6 == tag then scan j tag f (off + 1) (acc ++ [(b &&& 0x3f).toNat])
      else .ok (off, acc)
    else .ok (off, acc)

/-- `if len(algs) == 0 { algs = append(algs, None) }` -/
def orNone (l : List Nat) : List Nat := if l.length == 0 then l ++ [0] else l

/-- the two nested `range` loops appending `record` with each (integrity, confidentiality) pair -/
def cross (id iana auth : Nat) (integ conf : List Nat) : List Entry :=
  integ.flatMap fun i => conf.map fun c => { id, iana, auth, integ := i, conf := c }

/-- the rest of an iteration once the header is read: authentication algorithm at `offset`, the two scans, the
    cross product, `joined = joined[offset:]` -/
def parseAlgs (j : Bytes) (id iana : Nat) (offset : Nat) : R (List Entry × Bytes) := do
  let a ← bidx j offset
  if a >>> 6 != 0 then R.err else
  let offset := offset + 1
  let (offset, integ) ← scan j 1 j.length offset []
  let (offset, conf) ← scan j 2 j.length offset []
  -- joined = joined[offset:]
  if offset > j.length then R.panic else
  pure (cross id iana a.toNat (orNone integ) (orNone conf), j.drop offset)

/-- one iteration of the outer `for len(joined) > 0` loop: the records appended and the new `joined` -/
def parseOne (j : Bytes) : R (List Entry × Bytes) := do
  let b0 ← bidx j 0
  if b0 >>> 1 != 0x60 then R.err else
  -- switch joined[0] & 1
  if b0 &&& 1 == 0 then
    if j.length < 3 then R.err else
    let b1 ← bidx j 1                     -- record.CipherSuiteID = joined[1]
    parseAlgs j b1.toNat 0 2
  else
    if j.length < 6 then R.err else
    let b2 ← bidx j 2; let b3 ← bidx j 3; let b4 ← bidx j 4
    let b1 ← bidx j 1
    parseAlgs j b1.toNat (b2.toNat + b3.toNat * 256 + b4.toNat * 65536) 5

def parseLoop : Nat → Bytes → List Entry → R (List Entry)
  | 0, _, _ => .err                                    -- out of fuel (never with fuel > len(joined))
  | f + 1, j, acc =>
    if j.length > 0 then do
      let (es, j') ← parseOne j
      parseLoop f j' (acc ++ es)
    else .ok acc

/-- `parseCipherSuiteRecordData(joined)` -/
def parseRecords (j : Bytes) : R (List Entry) := parseLoop (j.length + 1) j []

/-! ## RetrieveSupportedCipherSuites -/

/-- the loop `for { send; buffer.Write(chunk); if ListIndex == limit || len(chunk) < 16 { break }; ListIndex++ }`.
    `page w` = the `CipherSuiteRecordsChunk` obtained for the list index `w` AS SERIALISED: the request layer writes
    `1<<7 | ListIndex&0x3f`, so the value 64 goes out as 0. `limit` = 64 in the code as it is. -/
def retrieveLoop (limit : Nat) (page : Nat → Option Bytes) : Nat → Nat → Bytes → List Nat × R Bytes
  | 0, _, _ => ([], .err)                                -- out of fuel (never with fuel > limit)
  | f + 1, i, buf =>
    match page (i % 64) with
    | none => ([i % 64], .err)
    | some chunk =>
      if i == limit || chunk.length < 16 then ([i % 64], .ok (buf ++ chunk))
      else
        let (l, r) := retrieveLoop limit page f ((i + 1) % 256) (buf ++ chunk)
        (i % 64 :: l, r)

/-- the concatenated chunks and the list indices requested (as seen on the wire) -/
def retrieveChunksL (limit : Nat) (page : Nat → Option Bytes) : List Nat × R Bytes := retrieveLoop limit page (limit + 1) 0 []

/-- `ListIndex == 63`: the last of the 64 list indices (the pinned tree tested 64, which wraps to 0 on the wire) -/
def retrieveChunks (page : Nat → Option Bytes) : List Nat × R Bytes := retrieveChunksL 63 page

def retrieveSupportedCipherSuitesL (limit : Nat) (page : Nat → Option Bytes) : List Nat × R (List Entry) :=
  let (l, r) := retrieveChunksL limit page
  (l, r >>= parseRecords)

/-- `RetrieveSupportedCipherSuites` -/
def retrieveSupportedCipherSuites (page : Nat → Option Bytes) : List Nat × R (List Entry) :=
  retrieveSupportedCipherSuitesL 63 page

/-- wire level: the BMC answers with response bodies (after the completion code), decoded by
    `GetChannelCipherSuitesRsp.DecodeFromBytes` (which keeps at most 16 bytes after the channel number) -/
def pageOfBody (body : Nat → Option Bytes) (w : Nat) : Option Bytes :=
  match body w with
  | none => none
  | some b => match CipherSuitesRsp.decode b with
    | .ok r => some r.chunk
    | _ => none

/-! ## Get DCMI Sensor Info paging -/

structure Req where
  entity : Nat
  start : Nat
  deriving Repr, DecidableEq

/-- (entity ID, instance start) ↦ (`Rsp.Instances`, `Rsp.RecordIDs`), `none` = `ValidateResponse` gave an error -/
abbrev Bmc := Nat → Nat → Option (Nat × List Nat)

/-- `getEntityInstances`: `for len(recordIDs) < totalInstances { InstanceStart = uint8(len+1); send; total =
    int(Rsp.Instances); recordIDs = append(recordIDs, Rsp.RecordIDs...); if len(Rsp.RecordIDs) == 0 ||
    len(recordIDs) == 255 { break } }` -/
def instLoop (bmc : Bmc) (entity : Nat) : Nat → List Nat → Nat → List Req × R (List Nat)
  | 0, _, _ => ([], .err)                               -- out of fuel (never with fuel ≥ 256)
  | f + 1, ids, total =>
    if ids.length < total then
      match bmc entity ((ids.length + 1) % 256) with
      | none => ([⟨entity, (ids.length + 1) % 256⟩], .err)
      | some (tot, pg) =>
        if pg.length == 0 || (ids ++ pg).length == 255 then ([⟨entity, (ids.length + 1) % 256⟩], .ok (ids ++ pg))
        else
          let (l, r) := instLoop bmc entity f (ids ++ pg) (tot % 256)    -- Instances is a uint8
          (⟨entity, (ids.length + 1) % 256⟩ :: l, r)
    else ([], .ok ids)

def entityInstances (bmc : Bmc) (entity : Nat) : List Req × R (List Nat) := instLoop bmc entity 256 [] 1

/-- `sensorMap` = `map[EntityID][]RecordID` as an association list; assignment replaces -/
abbrev SMap := List (Nat × List Nat)
def SMap.set (m : SMap) (e : Nat) (ids : List Nat) : SMap := (e, ids) :: m.filter (fun p => p.1 != e)
def SMap.get (m : SMap) (e : Nat) : List Nat := (m.lookup e).getD []      -- a missing key reads as nil
/-- `CountRecordIDs` -/
def SMap.count (m : SMap) : Nat := (m.map (fun p => p.2.length)).sum

/-- `getSensorMap` -/
def sensorMapLoop (bmc : Bmc) : List Nat → SMap → List Req × R SMap
  | [], m => ([], .ok m)
  | e :: es, m =>
    match entityInstances bmc e with
    | (l1, .ok ids) =>
      let (l2, r) := sensorMapLoop bmc es (m.set e ids)
      (l1 ++ l2, r)
    | (l1, _) => (l1, .err)

def sensorMap (bmc : Bmc) (entities : List Nat) : List Req × R SMap := sensorMapLoop bmc entities []

/-- `ipmiSensorEntityIDs`, `dcmiSensorEntityIDs` (constants regenerated from the source) -/
def stdEntities : List Nat := [Gen.Facts.ipmi_EntityIDAirInlet, Gen.Facts.ipmi_EntityIDProcessor, Gen.Facts.ipmi_EntityIDSystemBoard]
def dcmiEntities : List Nat := [Gen.Facts.ipmi_EntityIDDCMIAirInlet, Gen.Facts.ipmi_EntityIDDCMIProcessor, Gen.Facts.ipmi_EntityIDDCMISystemBoard]

/-- `dcmi.SensorInfo` -/
structure SensorInfo where
  inlet : List Nat
  cpu : List Nat
  baseboard : List Nat
  deriving Repr, DecidableEq

def pick (m : SMap) (es : List Nat) : SensorInfo :=
  { inlet := m.get (es.getD 0 0), cpu := m.get (es.getD 1 0), baseboard := m.get (es.getD 2 0) }

/-- the second half of `GetSensorInfo`: the DCMI-specific entity IDs -/
def fallback (bmc : Bmc) : List Req × R SensorInfo :=
  match sensorMap bmc dcmiEntities with
  | (l, .ok m) => (l, .ok (pick m dcmiEntities))
  | (l, _) => (l, .err)

/-- `GetSensorInfo` -/
def getSensorInfo (bmc : Bmc) : List Req × R SensorInfo :=
  match sensorMap bmc stdEntities with
  | (l1, .ok m) =>
    if m.count > 0 then (l1, .ok (pick m stdEntities))
    else let (l2, r) := fallback bmc; (l1 ++ l2, r)
  | (l1, _) => let (l2, r) := fallback bmc; (l1 ++ l2, r)

/-- wire level: the BMC answers with response bodies (after completion code and group-extension byte), decoded by
    `GetDCMISensorInfoRsp.DecodeFromBytes` -/
def bmcOfBody (body : Nat → Nat → Option Bytes) : Bmc := fun e s =>
  match body e s with
  | none => none
  | some b => match SensorInfoView.decode b with
    | .ok v => some (v.instances.toNat, v.recordIDs)
    | .error _ => none

end Bmc.Proto.Enum
