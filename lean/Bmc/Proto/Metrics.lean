import Bmc.Basic.Bytes
/-! Model of the Prometheus instrumentation in connection.go, session.go, v2sessionless.go, v2session.go,
    v2session_new.go, bmc.go and sessionless_transport.go, over abstract per-attempt outcomes. -/
namespace Bmc.Proto.Metrics

/-- what one attempt of a command met -/
inductive Att where
  | final (code : Nat)     -- an acceptable response with a non-temporary completion code
  | temp (code : Nat)      -- an acceptable response with a temporary code (C0, C3): counted, then retried
  | junk                   -- undecodable / unacceptable / reply to another command: not counted, retried
  | lost                   -- transport failure
  | cancelled              -- the caller's context ended during the back-off sleep before this attempt: it never runs
  deriving Repr, DecidableEq

inductive Ev where
  | dialOk | dialFail | closeConn
  | openOk | openFail
  | closeSess (atts : List Att)                       -- Close Session command; the gauge is decremented whatever happens
  | cmd (name : String) (inSession : Bool) (bodyDecodes : Bool) (atts : List Att)
  deriving Repr

structure M where
  connAttempts : Nat := 0
  connFailures : Nat := 0
  connOpen : Int := 0
  sessAttempts : Nat := 0
  sessFailures : Nat := 0
  sessOpen : Int := 0
  retries : Nat := 0
  cmdAttempts : List (String × Nat) := []
  cmdFailures : List (String × Nat) := []
  responses : List (Nat × Nat) := []
  deriving Repr

def bump {κ : Type} [DecidableEq κ] (k : κ) : List (κ × Nat) → List (κ × Nat)
  | [] => [(k, 1)]
  | (k', n) :: rest => if k' = k then (k', n + 1) :: rest else (k', n) :: bump k rest

def cnt {κ : Type} [DecidableEq κ] (k : κ) : List (κ × Nat) → Nat
  | [] => 0
  | (k', n) :: rest => if k' = k then n else cnt k rest

/-- the retry closure over the attempts; returns (metrics, succeeded?). `first` = this is the first attempt.
    An exhausted list = the context expired during one more call of the closure (counted as a retry when not first). -/
def loop (inSession : Bool) : M → Bool → List Att → M × Bool
  | m, first, [] => ({ m with retries := if first then m.retries else m.retries + 1 }, false)
  | m, first, a :: rest =>
    let m' := { m with retries := if first then m.retries else m.retries + 1 }
    match a with
    | .final c => ({ m' with responses := bump c m'.responses }, true)
    | .temp c => loop inSession { m' with responses := bump c m'.responses } false rest
    | .junk => loop inSession m' false rest
    | .lost => if inSession then (m', false) else loop inSession m' false rest
    | .cancelled => (m, false)

/-- `SendCommand`: attempts +1; failures +1 when the loop fails or the response body does not decode -/
def command (m : M) (name : String) (inSession bodyDecodes : Bool) (atts : List Att) : M :=
  let m := { m with cmdAttempts := bump name m.cmdAttempts }
  let (m, ok) := loop inSession m true atts
  if ok && bodyDecodes then m else { m with cmdFailures := bump name m.cmdFailures }

def step (m : M) : Ev → M
  | .dialOk => { m with connAttempts := m.connAttempts + 1, connOpen := m.connOpen + 1 }
  | .dialFail => { m with connAttempts := m.connAttempts + 1, connFailures := m.connFailures + 1 }
  | .closeConn => { m with connOpen := m.connOpen - 1 }
  | .openOk => { m with sessAttempts := m.sessAttempts + 1, sessOpen := m.sessOpen + 1 }
  | .openFail => { m with sessAttempts := m.sessAttempts + 1, sessFailures := m.sessFailures + 1 }
  | .closeSess atts => let m := command m "Close Session" true true atts; { m with sessOpen := m.sessOpen - 1 }
  | .cmd name s b atts => command m name s b atts

def run (h : List Ev) : M := h.foldl step {}

-- what happened, counted directly from the history ------------------------------------------------------------------
/-- number of times the retry closure ran for one call (= datagrams handed to the transport) -/
def closureRuns (inSession : Bool) : List Att → Nat
  | [] => 1
  | .final _ :: _ => 1
  | .temp _ :: rest => 1 + closureRuns inSession rest
  | .junk :: rest => 1 + closureRuns inSession rest
  | .lost :: rest => if inSession then 1 else 1 + closureRuns inSession rest
  | .cancelled :: _ => 0

/-- did the call obtain a final answer? -/
def succeeds (inSession : Bool) : List Att → Bool
  | [] => false
  | .final _ :: _ => true
  | .temp _ :: rest => succeeds inSession rest
  | .junk :: rest => succeeds inSession rest
  | .lost :: rest => if inSession then false else succeeds inSession rest
  | .cancelled :: _ => false

/-- valid responses with completion code c received during one call -/
def responsesOf (inSession : Bool) (c : Nat) : List Att → Nat
  | [] => 0
  | .final c' :: _ => if c' = c then 1 else 0
  | .temp c' :: rest => (if c' = c then 1 else 0) + responsesOf inSession c rest
  | .junk :: rest => responsesOf inSession c rest
  | .lost :: rest => if inSession then 0 else responsesOf inSession c rest
  | .cancelled :: _ => 0

end Bmc.Proto.Metrics
