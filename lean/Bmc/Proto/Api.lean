import Bmc.Wire.Requests
import Bmc.Wire.DeviceID
import Bmc.Wire.Chassis
import Bmc.Wire.Simple
import Bmc.Wire.Sess
import Bmc.Wire.Sdr
import Bmc.Wire.Dcmi
import Bmc.Proto.Session
import Bmc.Proto.Sessionless
/-! # The high-level API calls of package `bmc` and `pkg/dcmi` (the wrappers around `SendCommand`)

One constructor of `Call` per method a caller of the library uses:

* in session — `bmc.V2Session` (v2session.go): `GetSystemGUID`, `GetChannelAuthenticationCapabilities`,
  `GetSessionInfo`, `GetDeviceID`, `GetChassisStatus`, `ChassisControl`, `GetSDRRepositoryInfo`,
  `ReserveSDRRepository`, `GetSensorReading`, `GetSessionPrivilegeLevel`, `SetSessionPrivilegeLevel`, `Close`;
  `dcmi.NewSessionCommander(sess)` (pkg/dcmi/session_commander.go): `GetPowerReading`, `GetDCMISensorInfo` and the
  five capability calls of the embedded session-less commander;
* session-less — `bmc.V2Sessionless` (v2sessionless.go): `GetSystemGUID`, `GetChannelAuthenticationCapabilities`;
  `dcmi.NewSessionlessCommander(t)`: the five `GetDCMICapabilitiesInfo…` calls.

Every wrapper has the same shape (`cmd := &XCmd{Req: …}; if err := ValidateResponse(c.SendCommand(ctx, cmd)); err != nil
{ return nil, err }; return &cmd.Rsp, nil`), so the model is: which `ipmi.Command` the wrapper builds from its arguments
(`Call.cmdFor`: `Operation()`, `RemoteLUN()`, the bytes of `Request().SerializeTo` through the encoders of
`Wire/Requests.lean`), what `SendCommand` + `ValidateResponse` make of the completion code and response body
(`Call.finish`: `Response().DecodeFromBytes` on the message payload BEFORE the code is looked at; a decode error is
returned; then a non-zero code is an error), and what the wrapper hands back (`Call.project`: the response struct, or one
field of it). The command struct is allocated per call, so the response layer decodes into a zero receiver. -/
namespace Bmc.Proto
open Bmc Bmc.Wire

inductive Call where
  | getSystemGUID
  | getChannelAuthenticationCapabilities (r : Req.AuthCaps)
  | getSessionInfo (r : Req.SessionInfo)
  | getDeviceID
  | getChassisStatus
  | chassisControl (control : Nat)                      -- `ipmi.ChassisControl` is a Go `uint`
  | getSDRRepositoryInfo
  | reserveSDRRepository
  | getSensorReading (sensor : UInt8)
  | getSessionPrivilegeLevel
  | setSessionPrivilegeLevel (level : UInt8)
  | close                                                -- `V2Session.Close` = `closeSession`: Close Session for `s.RemoteID`
  | getPowerReading (r : Req.PowerReading)
  | getDCMISensorInfo (r : Req.DcmiSensorInfo)
  | dcmiSupportedCapabilities                            -- GetDCMICapabilitiesInfoSupportedCapabilities (parameter 1)
  | dcmiMandatoryPlatformAttrs                           -- … parameter 2
  | dcmiOptionalPlatformAttrs                            -- … parameter 3
  | dcmiManageabilityAccessAttrs                         -- … parameter 4
  | dcmiEnhancedSystemPowerStatisticsAttrs               -- … parameter 5
  deriving Repr, DecidableEq

/-- the methods that exist on a session-less connection (`SessionlessCommands`, `dcmi.SessionlessCommands`) -/
def Call.sessionless : Call → Bool
  | .getSystemGUID | .getChannelAuthenticationCapabilities _ | .dcmiSupportedCapabilities | .dcmiMandatoryPlatformAttrs
  | .dcmiOptionalPlatformAttrs | .dcmiManageabilityAccessAttrs | .dcmiEnhancedSystemPowerStatisticsAttrs => true
  | _ => false

/-- which `…Cmd` type the wrapper allocates -/
def Call.wire : Call → Req.Cmd
  | .getSystemGUID => .getSystemGUID
  | .getChannelAuthenticationCapabilities _ => .authCaps
  | .getSessionInfo _ => .sessionInfo
  | .getDeviceID => .getDeviceID
  | .getChassisStatus => .getChassisStatus
  | .chassisControl _ => .chassisControl
  | .getSDRRepositoryInfo => .sdrRepoInfo
  | .reserveSDRRepository => .reserveSDR
  | .getSensorReading _ => .sensorReading
  | .getSessionPrivilegeLevel | .setSessionPrivilegeLevel _ => .setPriv
  | .close => .closeSession
  | .getPowerReading _ => .powerReading
  | .getDCMISensorInfo _ => .dcmiSensorInfo
  | .dcmiSupportedCapabilities | .dcmiMandatoryPlatformAttrs | .dcmiOptionalPlatformAttrs | .dcmiManageabilityAccessAttrs
  | .dcmiEnhancedSystemPowerStatisticsAttrs => .dcmiCaps

/-- `Request().SerializeTo` of the command the wrapper builds from its arguments (`[]` for a nil request: the loop
    substitutes `gopacket.Payload(nil)`); `remoteID` is the session's `RemoteID`, read by `closeSession` only -/
def Call.body (remoteID : Nat) : Call → Except Unit Bytes
  | .getSystemGUID | .getDeviceID | .getChassisStatus | .getSDRRepositoryInfo | .reserveSDRRepository => .ok []
  | .getChannelAuthenticationCapabilities r => .ok r.encode
  | .getSessionInfo r => .ok r.encode
  | .chassisControl c => .ok (Req.ChassisControl.encode c)
  | .getSensorReading n => .ok (Req.SensorReading.encode n)
  | .getSessionPrivilegeLevel => Req.SetPriv.encode 0       -- "PrivilegeLevel omitted to retrieve current level"
  | .setSessionPrivilegeLevel l => Req.SetPriv.encode l
  | .close => .ok (Req.CloseSession.encode remoteID 0)
  | .getPowerReading r => .ok r.encode
  | .getDCMISensorInfo r => .ok r.encode
  | .dcmiSupportedCapabilities => .ok (Req.DcmiCaps.encode 1)
  | .dcmiMandatoryPlatformAttrs => .ok (Req.DcmiCaps.encode 2)
  | .dcmiOptionalPlatformAttrs => .ok (Req.DcmiCaps.encode 3)
  | .dcmiManageabilityAccessAttrs => .ok (Req.DcmiCaps.encode 4)
  | .dcmiEnhancedSystemPowerStatisticsAttrs => .ok (Req.DcmiCaps.encode 5)

/-- the `ipmi.Command` handed to `SendCommand`: operation and LUN of the `…Cmd` type (the wrappers leave
    `GetSensorReadingCmd.OwnerLUN` at its zero value, `LUNBMC`), and the serialised request -/
def Call.cmdFor (remoteID : Nat) (call : Call) : Cmd :=
  let op := call.wire.operation
  { fn := op.function, cmd := op.command, body := op.body, ent := op.enterprise, lun := call.wire.lun 0
    req := match call.body remoteID with | .ok b => b | .error _ => []
    reqFails := match call.body remoteID with | .ok _ => false | .error _ => true }

/-- the command of a call that does not read the session (everything but `close`) -/
abbrev Call.cmd (call : Call) : Cmd := call.cmdFor 0

/-- what the caller receives -/
inductive Value where
  | none                                   -- `error` only: ChassisControl, Close
  | guid (g : Bytes)                       -- `[16]byte`
  | level (l : UInt8)                      -- `ipmi.PrivilegeLevel`
  | authCaps (v : AuthCapsRsp)
  | sessionInfo (v : SessionInfoRsp)
  | deviceID (v : GetDeviceIDRsp)
  | chassis (v : GetChassisStatusRsp)
  | sdrRepoInfo (v : SDRRepoInfoRsp)
  | reserve (v : ReserveRsp)
  | sensorReading (v : SensorReadingRsp)
  | powerReading (v : PowerReading)
  | sensorInfo (v : SensorInfoView)        -- what is visible of the struct (`RecordIDs` up to its length)
  | cap1 (v : DcmiCap1)
  | cap2 (v : DcmiCap2)
  | cap3 (v : DcmiCap3)
  | cap4 (v : DcmiCap4)
  | cap5 (v : DcmiCap5)
  deriving Repr, DecidableEq

/-- `c.Response().DecodeFromBytes(messageLayer.LayerPayload(), …)` into the fresh `cmd.Rsp`; `Response()` is nil for
    Chassis Control and Close Session, which decode nothing -/
def Call.decodeBody (call : Call) (body : Bytes) : R Value :=
  let d := GoSlice.ofBytes body
  match call with
  | .getSystemGUID => (GUIDRsp.decodeGo {} d).map fun v => .guid v.guid
  | .getChannelAuthenticationCapabilities _ => (AuthCapsRsp.decodeGo {} d).map .authCaps
  | .getSessionInfo _ => (SessionInfoRsp.decodeGo {} d).map .sessionInfo
  | .getDeviceID => (GetDeviceIDRsp.decodeGo true {} d).map .deviceID
  | .getChassisStatus => (GetChassisStatusRsp.decodeGo true {} d).map .chassis
  | .chassisControl _ => .ok .none
  | .getSDRRepositoryInfo => (SDRRepoInfoRsp.decodeGo {} d).map .sdrRepoInfo
  | .reserveSDRRepository => (ReserveRsp.decodeGo {} d).map .reserve
  | .getSensorReading _ => (SensorReadingRsp.decodeGo {} d).map .sensorReading
  | .getSessionPrivilegeLevel | .setSessionPrivilegeLevel _ => (SetPrivRsp.decodeGo {} d).map fun v => .level v.level
  | .close => .ok .none
  | .getPowerReading _ => (PowerReading.decodeGo {} d).map .powerReading
  | .getDCMISensorInfo _ => (SensorInfo.decodeGo {} d).map fun v => .sensorInfo v.view
  | .dcmiSupportedCapabilities => (DcmiCap1.decodeGo {} d).map .cap1
  | .dcmiMandatoryPlatformAttrs => (DcmiCap2.decodeGo {} d).map .cap2
  | .dcmiOptionalPlatformAttrs => (DcmiCap3.decodeGo {} d).map .cap3
  | .dcmiManageabilityAccessAttrs => (DcmiCap4.decodeGo {} d).map .cap4
  | .dcmiEnhancedSystemPowerStatisticsAttrs => (DcmiCap5.decodeGo {} d).map .cap5

/-- `SendCommand` (after the loop returned a message) + `ValidateResponse` + the wrapper's return statement: the
    body is decoded first — an error there is returned with the code and `ValidateResponse` passes it on — and only
    then a non-normal completion code becomes an error. (`GetSystemGUID` / `Get/SetSessionPrivilegeLevel` return one
    field of the decoded struct: `decodeBody` already projects. The five DCMI capability calls return `&cmd.Rsp`
    ALONGSIDE a non-nil error; by Go convention the value is then not a result, and it is not one here.) -/
def Call.finish (call : Call) (code : UInt8) (body : Bytes) : R Value :=
  match call.decodeBody body with
  | .ok v => if code != 0 then .err else .ok v
  | .err => .err
  | .panic => .panic
  | .overread => .overread

/-- from the outcome of `SendCommand`'s loop to what the wrapper returns -/
def apiRes (call : Call) : Res → R Value
  | .ok code payload => call.finish code payload
  | .crashed => .panic
  | .transportErr | .serializeErr | .ctxExpired => .err

/-- a call on a session: the session's state after it, the datagrams transmitted, what the caller gets -/
def sessCall (C : Crypto.Ops) (s : Sess) (call : Call) (ivs : List Bytes) (script : List Outcome) : Sess × List Bytes × R Value :=
  let (s', sent, r) := send C s (call.cmdFor s.remoteID) ivs script
  (s', sent, apiRes call r)

/-- a call on a session-less connection -/
def slCall (call : Call) (script : List Outcome) : List Bytes × R Value :=
  let (sent, r) := slSend call.cmd script
  (sent, apiRes call r)

end Bmc.Proto
