import Bmc.Wire.Setup
import Bmc.Proto.Session
/-! Byte-level model of `newV2Session` (v2session_new.go) for a single acceptable cipher suite (no discovery),
    `buildAndSendPayload`, `openSession`/`rakpMessage1`/`rakpMessage3` (v2sessionless.go) and authenticator.go. -/
namespace Bmc.Proto
open Bmc Bmc.Wire Bmc.Crypto

def authHash : UInt8 → Option HashAlg
  | 1 => some .sha1 | 2 => some .md5 | 3 => some .sha256 | _ => none
def icvLen : UInt8 → Nat | 1 => 12 | 3 => 16 | _ => 0      -- 0 = not truncated

/-- null-session wrapper + RMCP around a setup payload (`buildAndSendPayload`) -/
def setupDatagram (ptype : UInt8) (payload : Bytes) : Bytes :=
  let v2 : V2Session := { payloadType := ptype }
  RMCP.encode { version := 6, sequence := 0xFF, cls := 7 } ++ (V2Session.encode (fun _ => []) v2 payload).2

inductive PayloadReply where
  | retry                 -- transport error, decode error, or innermost layer is not the session wrapper
  | got (payload : GoSlice)
  | crash

/-- one attempt of `buildAndSendPayload`'s retry closure on a reply -/
def payloadReply (d : GoSlice) : PayloadReply :=
  match RMCP.decodeGo {} d with
  | .err => .retry
  | .panic | .overread => .crash
  | .ok (r, p) =>
    if p.len == 0 then .retry else            -- innermost = RMCP
    if r.cls != 7 then .retry else
    if p.vis.getD 0 0 != 6 then .retry else   -- selector → v1.5 wrapper: innermost = selector
    match V2Session.decodeGo (fun _ => []) {} p with
    | .err => .retry
    | .panic | .overread => .crash
    | .ok v =>
      if v.payload.isEmpty then .got (GoSlice.window [] (List.replicate 64 0xEE)) else
      if v.payloadType == 0 && !v.encrypted then
        -- IPMI payload: the message layer is tried next; whatever happens the innermost is not the wrapper
        match Message.decodeGo 8 {} (GoSlice.ofBytes v.payload) with
        | .panic | .overread => .crash
        | _ => .retry
      else .got (GoSlice.window v.payload (List.replicate 64 0xEE))   -- LayerPayload() is a window into the 512-byte receive buffer

/-- `buildAndSendPayload`: transmit the same datagram until a reply decodes down to the session wrapper;
    returns (number of transmissions, payload) -/
def exchange : List Outcome → Nat × Option PayloadReply
  | [] => (0, none)       -- the harness cancels the context on the attempt it records last
  | .lost :: rest => let (n, r) := exchange rest; (n + 1, r)
  | .reply d :: rest =>
    match payloadReply (GoSlice.ofBytes d) with
    | .retry => let (n, r) := exchange rest; (n + 1, r)
    | x => (1, some x)

structure Opts where
  user : Bytes
  pass : Bytes
  kg : Bytes := []
  priv : UInt8 := 0
  lookup : Bool := false
  auth : UInt8
  integ : UInt8
  conf : UInt8
  deriving Repr

inductive HsRes where
  | ok (localID remoteID : Nat) (auth integ conf : UInt8) (sik k1 k2 : Bytes)
  | incorrectPassword
  | error
  | crashed
  deriving Repr, DecidableEq

def roleByte (o : Opts) : UInt8 := o.priv ||| (if o.lookup then 0 else 0x10)

/-- what an exchange ended with, as far as `newV2Session` is concerned -/
def exchangePayload (script : List Outcome) : Except HsRes GoSlice :=
  match (exchange script).2 with
  | none => .error .error
  | some .crash => .error .crashed
  | some .retry => .error .error
  | some (.got p) => .ok p

/-- `openSession` + the comparison of the confirmed algorithms with the proposal -/
def stepOpen (o : Opts) (script : List Outcome) : Except HsRes OpenSessionRsp :=
  match exchangePayload script with
  | .error e => .error e
  | .ok p1 =>
    match OpenSessionRsp.decodeGo {} p1 with
    | .panic | .overread => .error .crashed
    | .err => .error .error
    | .ok osr =>
      if osr.tag != 0 then .error .error else
      if osr.status != 0 then .error .error else
      if osr.auth != o.auth || osr.integ != o.integ || osr.conf != o.conf then .error .error else
      .ok osr

def rakp2Code (C : Ops) (h : HashAlg) (o : Opts) (rm : Bytes) (osr : OpenSessionRsp) (rk2 : RAKP2) : Bytes :=
  C.hmac h o.pass (putLE32 rk2.consoleSessionID ++ putLE32 osr.bmcSessionID ++ rm ++ rk2.bmcRandom
    ++ rk2.bmcGUID ++ [roleByte o, UInt8.ofNat (o.user.length % 256)] ++ o.user)

def rakp3Code (C : Ops) (h : HashAlg) (o : Opts) (rk2 : RAKP2) : Bytes :=
  C.hmac h o.pass (rk2.bmcRandom ++ putLE32 rk2.consoleSessionID ++ [roleByte o, UInt8.ofNat (o.user.length % 256)] ++ o.user)

def sikOf (C : Ops) (h : HashAlg) (o : Opts) (rm : Bytes) (rk2 : RAKP2) : Bytes :=
  C.hmac h (if o.kg.isEmpty then o.pass else o.kg) (rm ++ rk2.bmcRandom ++ [roleByte o, UInt8.ofNat (o.user.length % 256)] ++ o.user)

def icvOf (C : Ops) (h : HashAlg) (auth : UInt8) (sik rm : Bytes) (osr : OpenSessionRsp) (rk2 : RAKP2) : Bytes :=
  let full := C.hmac h sik (rm ++ putLE32 osr.bmcSessionID ++ rk2.bmcGUID)
  if icvLen auth == 0 then full else full.take (icvLen auth)

/-- `rakpMessage1` + the RAKP 2 AuthCode check -/
def stepRakp2 (C : Ops) (o : Opts) (rm : Bytes) (osr : OpenSessionRsp) (script2 : List Outcome) : Except HsRes (RAKP2 × HashAlg) :=
  match exchangePayload script2 with
  | .error e => .error e
  | .ok p2 =>
    match RAKP2.decodeGo true {} p2 with
    | .panic | .overread => .error .crashed
    | .err => .error .error
    | .ok rk2 =>
      if rk2.tag != 0 then .error .error else
      if rk2.status != 0 then .error .error else
      match authHash osr.auth with
      | none => .error .error
      | some h =>
        if rk2.authCode != rakp2Code C h o rm osr rk2 then .error .incorrectPassword else .ok (rk2, h)

/-- `rakpMessage3` + the RAKP 4 ICV check + the algorithm constructors -/
def stepRakp4 (C : Ops) (o : Opts) (rm : Bytes) (osr : OpenSessionRsp) (rk2 : RAKP2) (h : HashAlg) (script3 : List Outcome) :
    Except HsRes HsRes :=
  match exchangePayload script3 with
  | .error e => .error e
  | .ok p3 =>
    match RAKP4.decodeGo {} p3 with
    | .panic | .overread => .error .crashed
    | .err => .error .error
    | .ok rk4 =>
      if rk4.tag != 0 then .error .error else
      if rk4.status != 0 then .error .error else
      let sik := sikOf C h o rm rk2
      if rk4.icv != icvOf C h osr.auth sik rm osr rk2 then .error .error else
      -- algorithmHasher / algorithmCipher: suites without integrity or confidentiality, and unknown algorithms, are refused
      if !(osr.integ == 1 || osr.integ == 2 || osr.integ == 4) then .error .error else
      if osr.conf != 1 then .error .error else
      .ok (.ok osr.consoleSessionID osr.bmcSessionID osr.auth osr.integ osr.conf sik
            (C.hmac h sik (List.replicate 20 1)) (C.hmac h sik (List.replicate 20 2)))

/-- `newV2Session` for a single acceptable cipher suite. `rm` = the 16-byte draw from crypto/rand; `script` = the
    per-attempt outcomes of the three exchanges in order (each exchange consumes what it uses). -/
def newSession (C : Ops) (o : Opts) (rm : Bytes) (script : List Outcome) : List Bytes × HsRes :=
  let d1 := setupDatagram 0x10 (OpenSessionReq.encode 0 o.priv 1 o.auth o.integ o.conf)
  let n1 := (exchange script).1
  let sent1 := List.replicate n1 d1
  match stepOpen o script with
  | .error e => (sent1, e)
  | .ok osr =>
  match RAKP1.encode 0 osr.bmcSessionID rm o.lookup o.priv o.user with
  | .error _ => (sent1, .error)
  | .ok rk1 =>
  let script2 := script.drop n1
  let n2 := (exchange script2).1
  let sent2 := sent1 ++ List.replicate n2 (setupDatagram 0x12 rk1)
  match stepRakp2 C o rm osr script2 with
  | .error e => (sent2, e)
  | .ok (rk2, h) =>
  let script3 := script2.drop n2
  let n3 := (exchange script3).1
  let sent3 := sent2 ++ List.replicate n3 (setupDatagram 0x14 (RAKP3.encode 0 osr.bmcSessionID (rakp3Code C h o rk2)))
  match stepRakp4 C o rm osr rk2 h script3 with
  | .error e => (sent3, e)
  | .ok r => (sent3, r)

end Bmc.Proto
