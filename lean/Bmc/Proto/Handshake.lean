import Bmc.Wire.Setup
import Bmc.Proto.Session
/-! Byte-level model of `newV2Session` (v2session_new.go) for a single acceptable cipher suite (no discovery),
    `buildAndSendPayload`, `openSession`/`rakpMessage1`/`rakpMessage3` (v2sessionless.go) and authenticator.go. -/
namespace Bmc.Proto
open Bmc Bmc.Wire Bmc.Crypto

def authHash : UInt8 → Option HashAlg
  | 1 => some .sha1 | 2 => some .md5 | 3 => some .sha256 | _ => none
def icvLen : UInt8 → Nat | 1 => 12 | 3 => 16 | _ => 0      -- 0 = not truncated

/-- null-session wrapper + RMCP around a setup payload (`buildAndSendPayload`) -/
def setupDatagram (ptype : UInt8) (payload : Bytes) : Bytes :=
  let v2 : V2Session := { payloadType := ptype }
  RMCP.encode { version := 6, sequence := 0xFF, cls := 7 } ++ (V2Session.encode (fun _ => []) v2 payload).2

inductive PayloadReply where
  | retry                 -- transport error, decode error, or innermost layer is not the session wrapper
  | got (payload : GoSlice)
  | crash

/-- one attempt of `buildAndSendPayload`'s retry closure on a reply -/
def payloadReply (minRsp : Nat) (d : GoSlice) : PayloadReply :=
  match RMCP.decodeGo {} d with
  | .err => .retry
  | .panic | .overread => .crash
  | .ok (r, p) =>
    if p.len == 0 then .retry else            -- innermost = RMCP
    if r.cls != 7 then .retry else
    if p.vis.getD 0 0 != 6 then .retry else   -- selector → v1.5 wrapper: innermost = selector
    match V2Session.decodeGo (fun _ => []) {} p with
    | .err => .retry
    | .panic | .overread => .crash
    | .ok v =>
      if v.payload.isEmpty then .got (GoSlice.window [] (List.replicate 64 0xEE)) else
      if v.payloadType == 0 && !v.encrypted then
        -- IPMI payload: the message layer is tried next; whatever happens the innermost is not the wrapper
        match Message.decodeGo minRsp {} (GoSlice.ofBytes v.payload) with
        | .panic | .overread => .crash
        | _ => .retry
      else .got (GoSlice.window v.payload (List.replicate 64 0xEE))   -- LayerPayload() is a window into the 512-byte receive buffer

/-- `buildAndSendPayload`: transmit the same datagram until a reply decodes down to the session wrapper;
    returns (number of transmissions, payload) -/
def exchange (minRsp : Nat) : List Outcome → Nat × Option PayloadReply
  | [] => (0, none)       -- the harness cancels the context on the attempt it records last
  | .lost :: rest => let (n, r) := exchange minRsp rest; (n + 1, r)
  | .reply d :: rest =>
    match payloadReply minRsp (GoSlice.ofBytes d) with
    | .retry => let (n, r) := exchange minRsp rest; (n + 1, r)
    | x => (1, some x)

structure Opts where
  user : Bytes
  pass : Bytes
  kg : Bytes := []
  priv : UInt8 := 0
  lookup : Bool := false
  auth : UInt8
  integ : UInt8
  conf : UInt8
  deriving Repr

inductive HsRes where
  | ok (localID remoteID : Nat) (auth integ conf : UInt8) (sik k1 k2 : Bytes)
  | incorrectPassword
  | error
  | crashed
  deriving Repr, DecidableEq

def roleByte (o : Opts) : UInt8 := o.priv ||| (if o.lookup then 0 else 0x10)

/-- `newV2Session`. `rm` = the 16-byte draw from crypto/rand; `script` = per-attempt outcomes of the three
    exchanges in order (a list per exchange is not needed: each exchange consumes what it uses).
    `guard40` selects the repaired RAKP 2 decoder; `noDowngrade` the repaired algorithm check. -/
def newSession (C : Ops) (minRsp : Nat) (guard40 noDowngrade : Bool) (o : Opts) (rm : Bytes)
    (script : List Outcome) : List Bytes × HsRes :=
  -- Open Session
  let d1 := setupDatagram 0x10 (OpenSessionReq.encode 0 o.priv 1 o.auth o.integ o.conf)
  let (n1, r1) := exchange minRsp script
  let sent1 := List.replicate n1 d1
  match r1 with
  | none => (sent1, .error)
  | some .crash => (sent1, .crashed)
  | some .retry => (sent1, .error)
  | some (.got p1) =>
  match OpenSessionRsp.decodeGo {} p1 with
  | .panic | .overread => (sent1, .crashed)
  | .err => (sent1, .error)
  | .ok osr =>
  if osr.tag != 0 then (sent1, .error) else
  if osr.status != 0 then (sent1, .error) else
  -- RAKP 1 / 2
  match RAKP1.encode 0 osr.bmcSessionID rm o.lookup o.priv o.user with
  | .error _ => (sent1, .error)
  | .ok rk1 =>
  let d2 := setupDatagram 0x12 rk1
  let script2 := script.drop n1
  let (n2, r2) := exchange minRsp script2
  let sent2 := sent1 ++ List.replicate n2 d2
  match r2 with
  | none => (sent2, .error)
  | some .crash => (sent2, .crashed)
  | some .retry => (sent2, .error)
  | some (.got p2) =>
  match RAKP2.decodeGo guard40 {} p2 with
  | .overread => (sent2, .incorrectPassword)   -- pinned tree: stale buffer bytes become random/GUID, AuthCode is empty
  | .panic => (sent2, .crashed)
  | .err => (sent2, .error)
  | .ok rk2 =>
  if rk2.tag != 0 then (sent2, .error) else
  if rk2.status != 0 then (sent2, .error) else
  match authHash osr.auth with
  | none => (sent2, .error)
  | some h =>
  let role := roleByte o
  let ulen := UInt8.ofNat (o.user.length % 256)
  let code2 := C.hmac h o.pass (putLE32 rk2.consoleSessionID ++ putLE32 osr.bmcSessionID ++ rm ++ rk2.bmcRandom
                ++ rk2.bmcGUID ++ [role, ulen] ++ o.user)
  if rk2.authCode != code2 then (sent2, .incorrectPassword) else
  -- RAKP 3 / 4
  let code3 := C.hmac h o.pass (rk2.bmcRandom ++ putLE32 rk2.consoleSessionID ++ [role, ulen] ++ o.user)
  let d3 := setupDatagram 0x14 (RAKP3.encode 0 osr.bmcSessionID code3)
  let script3 := script2.drop n2
  let (n3, r3) := exchange minRsp script3
  let sent3 := sent2 ++ List.replicate n3 d3
  match r3 with
  | none => (sent3, .error)
  | some .crash => (sent3, .crashed)
  | some .retry => (sent3, .error)
  | some (.got p3) =>
  match RAKP4.decodeGo {} p3 with
  | .panic | .overread => (sent3, .crashed)
  | .err => (sent3, .error)
  | .ok rk4 =>
  if rk4.tag != 0 then (sent3, .error) else
  if rk4.status != 0 then (sent3, .error) else
  let kg := if o.kg.isEmpty then o.pass else o.kg
  let sik := C.hmac h kg (rm ++ rk2.bmcRandom ++ [role, ulen] ++ o.user)
  let icvFull := C.hmac h sik (rm ++ putLE32 osr.bmcSessionID ++ rk2.bmcGUID)
  let icv := if icvLen osr.auth == 0 then icvFull else icvFull.take (icvLen osr.auth)
  if rk4.icv != icv then (sent3, .error) else
  if noDowngrade && (osr.auth != o.auth || osr.integ != o.integ || osr.conf != o.conf) then (sent3, .error) else
  let k1 := C.hmac h sik (List.replicate 20 1)
  let k2 := C.hmac h sik (List.replicate 20 2)
  -- algorithmHasher / algorithmCipher
  if !(osr.integ == 0 || osr.integ == 1 || osr.integ == 2 || osr.integ == 4) then (sent3, .error) else
  if osr.conf == 0 then (sent3, if noDowngrade then .error else .crashed)   -- pinned: nil cipher layer dereferenced
  else if osr.conf != 1 then (sent3, .error) else
  (sent3, .ok osr.consoleSessionID osr.bmcSessionID osr.auth osr.integ osr.conf sik k1 k2)

end Bmc.Proto
