import Bmc.Wire.Simple
import Bmc.Wire.Sdr
/-! # Model of `sdr_repository.go`: `walkSDRs` and `RetrieveSDRRepository`

    The two functions talk to the BMC only through `s.GetSDRRepositoryInfo`, `s.ReserveSDRRepository` and
    `s.SendCommand(ctx, getSDRCmd)`. The model is therefore a function of the BMC's ANSWER FUNCTION
    `a : σ → Req → σ × Option Rsp` over an arbitrary state `σ` (the final outcome of one `SendCommand`: `none` = it
    returned an error — transport failure, context expiry — otherwise the completion code and the response data;
    the packet-level exchange underneath, with its own retries, is the subject of C03/C04/C10/C11).

    What is mirrored statement by statement:
    * `SendCommand` decodes the response layer BEFORE the caller looks at the completion code, and
      `ValidateResponse` turns a non-zero code into an error (`call`);
    * `walkSDRs`: Reserve; `RecordID := 0`; loop while `RecordID ≠ 0xFFFF`: Get SDR (offset 0, 5 bytes), decode the
      payload as an SDR header through a lazily decoded `gopacket.NewPacket` (which COPIES the bytes, so the decoder
      sees an exact-capacity slice; an empty payload yields no layer; a decoder panic is recovered into "no layer"
      — all three are the `err` outcome here); for type 01h: error if `header.Length > 64`, else Get SDR (offset 5,
      `header.Length` bytes) under the same reservation, decode the payload as a Full Sensor Record into a fresh
      receiver and store it in the map; then `RecordID := Rsp.Next` of the LAST response received;
    * the map key: the pinned tree stores under `getSDRCmd.Req.RecordID`, the ID that was REQUESTED (`keyOwn = false`);
      `keyOwn = true` is the repaired behaviour, `header.ID`;
    * `RetrieveSDRRepository`: info, walk, info, `initial.LastAddition.Before(final.LastAddition) ||
      initial.LastErase.Before(final.LastErase)` ⇒ `errSDRRepositoryModified`; any error makes `backoff.Retry` run the
      whole closure again (new map, new reservation) until the context is done.

    Totality: the Go loop has no bound of its own. `walkLoop` takes fuel (one unit per record visited) and reports
    `outOfFuel` separately from `err`; `Lemmas/SdrWalkSpec.lean` proves that `recs.length` units suffice against a
    well-formed repository. Against a BMC whose `Next` links form a cycle the Go loop never leaves the walk — it
    ends only when the context expires and `SendCommand` starts failing (out of scope for C14, relevant to C13).
    The outer retry is bounded by the context as well: `retrieve` takes the number of attempts the context allows. -/
namespace Bmc.Proto.SdrWalk
open Bmc Bmc.Wire

/-- the three commands the walk issues (NetFn Storage): 20h, 22h and 23h with the fields of `GetSDRReq` -/
inductive Req where
  | repoInfo
  | reserve
  | getSDR (resv id off len : Nat)
  deriving Repr, DecidableEq

def Req.isGetSDR : Req → Bool
  | .getSDR .. => true
  | _ => false

structure Rsp where
  cc : UInt8
  data : Bytes
  deriving Repr, DecidableEq

abbrev Answer (σ : Type) := σ → Req → σ × Option Rsp

/-- `ValidateResponse(s.SendCommand(ctx, cmd))` with `cmd.Response()` decoded by `dec`: `none` = an error came back.
    (`dec` is the canonical form of the layer's `DecodeFromBytes`; by the layers' `decodeGo_canon` theorems the result
    does not depend on the receiver's earlier contents nor on the buffer behind the slice.) -/
def call {σ α : Type} (a : Answer σ) (dec : Bytes → R α) (s : σ) (q : Req) : σ × Option α :=
  match a s q with
  | (s', none) => (s', none)
  | (s', some r) =>
    match dec r.data with
    | .ok v => if r.cc = 0 then (s', some v) else (s', none)
    | _ => (s', none)

/-- `SDRRepository`, a Go map, as an association list in insertion order -/
abbrev SDRRepository := List (Nat × FullSensorRecord)

/-- `repo[k] = v` -/
def insert (m : SDRRepository) (k : Nat) (v : FullSensorRecord) : SDRRepository :=
  m.filter (fun e => e.1 ≠ k) ++ [(k, v)]

inductive Res (α : Type) where
  | ok (a : α)
  | err                         -- a non-nil error
  | outOfFuel                   -- the model's bound was reached; the Go loop would still be running
  deriving Repr, DecidableEq

/-- the `for getSDRCmd.Req.RecordID != ipmi.RecordIDLast` loop -/
def walkLoop {σ : Type} (keyOwn : Bool) (a : Answer σ) : Nat → σ → Nat → Nat → SDRRepository → σ × Res SDRRepository
  | 0, s, _, _, _ => (s, .outOfFuel)
  | fuel + 1, s, resv, id, m =>
    if id = 0xFFFF then (s, .ok m) else
    match call a GetSDRRsp.decode s (.getSDR resv id 0 5) with
    | (s1, none) => (s1, .err)
    | (s1, some hdrRsp) =>
      -- gopacket.NewPacket(getSDRCmd.Rsp.Payload, ipmi.LayerTypeSDR, Lazy).Layer(LayerTypeSDR)
      match SDRHeader.decodeGo {} (GoSlice.ofBytes hdrRsp.payload) with
      | .ok header =>
        if header.typ = 1 then
          if header.length.toNat > 64 then (s1, .err) else
          match call a GetSDRRsp.decode s1 (.getSDR resv id 5 header.length.toNat) with
          | (s2, none) => (s2, .err)
          | (s2, some bodyRsp) =>
            match FullSensorRecord.decodeGo {} (GoSlice.ofBytes bodyRsp.payload) with
            | .ok fsr => walkLoop keyOwn a fuel s2 resv bodyRsp.next (insert m (if keyOwn then header.id else id) fsr)
            | _ => (s2, .err)
        else walkLoop keyOwn a fuel s1 resv hdrRsp.next m
      | _ => (s1, .err)

/-- `walkSDRs` -/
def walk {σ : Type} (keyOwn : Bool) (a : Answer σ) (fuel : Nat) (s : σ) : σ × Res SDRRepository :=
  match call a ReserveRsp.decode s .reserve with
  | (s1, none) => (s1, .err)
  | (s1, some r) => walkLoop keyOwn a fuel s1 r.reservationID 0 []

/-- the closure handed to `backoff.Retry`; `err` = it returned an error and will be run again -/
def attempt {σ : Type} (keyOwn : Bool) (a : Answer σ) (fuel : Nat) (s : σ) : σ × Res SDRRepository :=
  match call a SDRRepoInfoRsp.decode s .repoInfo with
  | (s1, none) => (s1, .err)
  | (s1, some initialInfo) =>
    match walk keyOwn a fuel s1 with
    | (s2, .ok candidate) =>
      match call a SDRRepoInfoRsp.decode s2 .repoInfo with
      | (s3, none) => (s3, .err)
      | (s3, some finalInfo) =>
        -- time.Unix(seconds, 0) values compare like their seconds
        if initialInfo.lastAddition < finalInfo.lastAddition ∨ initialInfo.lastErase < finalInfo.lastErase
        then (s3, .err)         -- errSDRRepositoryModified: "tough luck, start again"
        else (s3, .ok candidate)
    | (s2, r) => (s2, r)

/-- `RetrieveSDRRepository`: `attempts` = how many runs of the closure the context (and the back-off's 15-minute
    limit) allows; `none` = the error that is returned once it is done -/
def retrieve {σ : Type} (keyOwn : Bool) (a : Answer σ) (fuel : Nat) : Nat → σ → σ × Option SDRRepository
  | 0, s => (s, none)
  | n + 1, s =>
    match attempt keyOwn a fuel s with
    | (s', .ok m) => (s', some m)
    | (s', _) => retrieve keyOwn a fuel n s'

/-- an answer function that also keeps the history of requests and answers -/
def logged {σ : Type} (a : Answer σ) : Answer (σ × List (Req × Option Rsp)) :=
  fun s q => (((a s.1 q).1, s.2 ++ [(q, (a s.1 q).2)]), (a s.1 q).2)

/-- a Get SDR that did not complete normally: an error from `SendCommand`, or a completion code other than 00h
    (C5h reservation cancelled, CBh record not present, …) -/
def badGetSDR (e : Req × Option Rsp) : Bool :=
  e.1.isGetSDR && (match e.2 with | none => true | some r => r.cc != 0)

end Bmc.Proto.SdrWalk
