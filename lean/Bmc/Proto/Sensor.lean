import Bmc.Gen.Facts
import Bmc.Gen.Prims
import Bmc.Wire.Simple
import Bmc.Wire.Sdr
/-! # Model of `sensor_reader.go` (package bmc) with `ConversionFactors.ConvertReading`,
    `Linearisation.Lineariser`, `AnalogDataFormat.Parser` (package ipmi) — C15

The decision logic is modelled statement by statement. The arithmetic of `ConvertReading` is `float64`; Lean core
cannot reason about IEEE floats, so the model carries the EXACT value of the same expression as a decimal
`(mantissa, exp10)` (`convertExact`) and the NAME of the lineariser the reader holds (`Lineariser`), never a float.
How far the `float64` the real code returns is from that exact number is measured by the Go harness (math/big). -/
namespace Bmc.Proto.Sensor
open Bmc Bmc.Wire

-- pkg/ipmi/analog_data_format.go -----------------------------------------------------------------------------
/-- the entries of `analogDataFormatParsers` -/
inductive Parser
  | unsigned   -- parseAnalogDataFormatUnsigned
  | ones       -- parseAnalogDataFormatOnesComplement
  | twos       -- parseAnalogDataFormatTwosComplement
  deriving DecidableEq, Repr

/-- the map literal `analogDataFormatParsers`, keys from the regenerated constants -/
def parserTable : List (Nat × Parser) :=
  [(Gen.Facts.ipmi_AnalogDataFormatUnsigned, .unsigned),
   (Gen.Facts.ipmi_AnalogDataFormatOnesComplement, .ones),
   (Gen.Facts.ipmi_AnalogDataFormatTwosComplement, .twos)]

/-- `AnalogDataFormat.Parser()`: map lookup, an error when the key is absent -/
def parserOf (f : UInt8) : Option Parser := parserTable.lookup f.toNat

/-- `AnalogDataFormatParser.Parse(byte) int16`, through the SSA translations of the three Go functions (tie T2) -/
def Parser.parse (p : Parser) (r : UInt8) : Int :=
  match p with
  | .unsigned => (Gen.adfUnsigned r.toBitVec).toInt
  | .ones => (Gen.adfOnes r.toBitVec).toInt
  | .twos => (Gen.adfTwos r.toBitVec).toInt

-- pkg/ipmi/linearisation.go ----------------------------------------------------------------------------------
/-- the values of the map literal `linearisationLinearisers`, named after the Go expression each one wraps -/
inductive Lineariser
  | mathLog        -- LineariserFunc(math.Log)
  | mathLog10      -- LineariserFunc(math.Log10)
  | mathLog2       -- LineariserFunc(math.Log2)
  | mathExp        -- LineariserFunc(math.Exp)
  | powTenF        -- func(f) { return math.Pow(10, f) }
  | mathExp2       -- LineariserFunc(math.Exp2)
  | powFNeg1       -- func(f) { return math.Pow(f, -1) }
  | powF2          -- func(f) { return math.Pow(f, 2) }
  | powF3          -- func(f) { return math.Pow(f, 3) }
  | mathSqrt       -- LineariserFunc(math.Sqrt)
  | powFThird      -- func(f) { return math.Pow(f, 1./3) }
  deriving DecidableEq, Repr

/-- the map literal, in source order, keys from the regenerated constants (tie T1) -/
def lineariserTable : List (Nat × Lineariser) :=
  [(Gen.Facts.ipmi_LinearisationLn, .mathLog),
   (Gen.Facts.ipmi_LinearisationLog10, .mathLog10),
   (Gen.Facts.ipmi_LinearisationLog2, .mathLog2),
   (Gen.Facts.ipmi_LinearisationE, .mathExp),
   (Gen.Facts.ipmi_LinearisationExp10, .powTenF),
   (Gen.Facts.ipmi_LinearisationExp2, .mathExp2),
   (Gen.Facts.ipmi_LinearisationInverse, .powFNeg1),
   (Gen.Facts.ipmi_LinearisationSqr, .powF2),
   (Gen.Facts.ipmi_LinearisationCube, .powF3),
   (Gen.Facts.ipmi_LinearisationSqrt, .mathSqrt),
   (Gen.Facts.ipmi_LinearisationCubeRt, .powFThird)]

/-- sign of a finite argument -/
inductive Sign | neg | zero | pos
  deriving DecidableEq, Repr

def signOf (i : Int) : Sign := if i < 0 then .neg else if i = 0 then .zero else .pos

/-- Does the Go function return a number (anything but NaN; ±Inf counts) at a finite argument of this sign? From
    the special cases documented in package math: `Log(x < 0) = NaN`, `Log(±0) = -Inf` (likewise Log10, Log2),
    `Sqrt(x < 0) = NaN`, `Pow(x, y) = NaN for finite x < 0 and finite non-integer y`, `Pow(±0, y) = ±Inf for y an odd
    integer < 0`; Exp, Exp2, Pow(10, f), Pow(f, 2), Pow(f, 3) return a number for every finite argument.
    `cbrt = false` is the code AS IT IS: `math.Pow(f, 1./3)` is NaN for every negative f. `cbrt = true` is the
    repaired table entry `LineariserFunc(math.Cbrt)` (the cube-root finding of C15). -/
def Lineariser.returnsNumber (cbrt : Bool) : Lineariser → Sign → Bool
  | .mathLog, s => s != .neg
  | .mathLog10, s => s != .neg
  | .mathLog2, s => s != .neg
  | .mathSqrt, s => s != .neg
  | .powFThird, s => cbrt || s != .neg
  | _, _ => true

/-- `Linearisation.Lineariser()`: map lookup, `ErrNotLinearised` when the key is absent -/
def lineariserOf (l : UInt8) : Option Lineariser := lineariserTable.lookup l.toNat

-- pkg/ipmi/conversion_factors.go -----------------------------------------------------------------------------
/-- `ConvertReading(raw int16) float64` computes, in `float64`,
      `mX := int64(f.M) * int64(raw)`                       (exact: |int16·int16| < 2^31)
      `b10k1 := float64(f.B) * math.Pow10(int(f.BExp))`
      `(float64(mX) + b10k1) * math.Pow10(int(f.RExp))`.
    This is the same expression over the integers, as an exact decimal `mantissa · 10^exp10`: for `K1 ≥ 0` the sum
    is the integer `M·x + B·10^K1` scaled by `10^K2`; for `K1 < 0` the sum is brought to the common scale `10^K1`. -/
def convertExact (M B K1 K2 : Int) (x : Int) : Int × Int :=
  if 0 ≤ K1 then (M * x + B * 10 ^ K1.toNat, K2)
  else (M * x * 10 ^ (-K1).toNat + B, K1 + K2)

/-- what a decimal denotes -/
def decToRat (d : Int × Int) : Rat := (d.1 : Rat) * (10 : Rat) ^ d.2

/-- canonical form of a decimal: no trailing zero in the mantissa, zero is `0e0` (`fuel` bounds the number of
    digits removed; `normalize` supplies enough) -/
def stripZeros : Nat → Int → Int → Int × Int
  | 0, m, e => (m, e)
  | fuel + 1, m, e => if m ≠ 0 ∧ m % 10 = 0 then stripZeros fuel (m / 10) (e + 1) else (m, e)

def normalize (d : Int × Int) : Int × Int :=
  if d.1 = 0 then (0, 0) else stripZeros d.1.natAbs d.1 d.2

-- sensor_reader.go ----------------------------------------------------------------------------------------------
/-- `linearSensorReader`: the command's sensor number and LUN, the parser, the factors -/
structure LinearReader where
  number : UInt8
  ownerLUN : UInt8
  parser : Parser
  m : Int
  b : Int
  bExp : Int
  rExp : Int
  deriving DecidableEq, Repr

inductive Reader
  | linear (r : LinearReader)
  | linearised (r : LinearReader) (l : Lineariser)
  deriving DecidableEq, Repr

def Reader.lin : Reader → LinearReader
  | .linear r => r
  | .linearised r _ => r
def Reader.lineariser : Reader → Option Lineariser
  | .linear _ => none
  | .linearised _ l => some l

/-- which of the three `return nil, err` a constructor took -/
inductive BuildErr
  | nonLinear       -- NewSensorReader: "unsupported sensor linearisation"
  | notAnalog       -- newLinearSensorReader: AnalogDataFormat.Parser() failed
  | notLinearised   -- newLinearisedSensorReader: Lineariser() returned ErrNotLinearised (unreachable, see `lineariser_found`)
  deriving DecidableEq, Repr

/-- `newLinearSensorReader` -/
def newLinearSensorReader (r : FullSensorRecord) : Except BuildErr LinearReader :=
  match parserOf r.analogDataFormat with
  | none => .error .notAnalog
  | some p => .ok { number := r.number, ownerLUN := r.ownerLUN, parser := p, m := r.m, b := r.b, bExp := r.bExp, rExp := r.rExp }

/-- `newLinearisedSensorReader`: the linear reader first, then the lineariser -/
def newLinearisedSensorReader (r : FullSensorRecord) : Except BuildErr Reader :=
  match newLinearSensorReader r with
  | .error e => .error e
  | .ok lr =>
    match lineariserOf r.linearisation with
    | none => .error .notLinearised
    | some l => .ok (.linearised lr l)

/-- `NewSensorReader`: `switch { case IsLinear(): … case IsLinearised(): … default: error }`, the two predicates
    through their SSA translations (tie T2) -/
def newSensorReader (r : FullSensorRecord) : Except BuildErr Reader :=
  if Gen.linIsLinear r.linearisation.toBitVec then
    match newLinearSensorReader r with
    | .error e => .error e
    | .ok lr => .ok (.linear lr)
  else if Gen.linIsLinearised r.linearisation.toBitVec then newLinearisedSensorReader r
  else .error .nonLinear

/-- result of `Read`; `value` = the exact decimal of what `ConvertReading` computes in `float64`, and the
    lineariser applied to it afterwards (`none` for the linear reader) -/
inductive ReadRes
  | err                 -- SendCommand failed (here: the response did not decode) or a non-normal completion code
  | unavailable         -- ErrSensorReadingUnavailable
  | scanningDisabled    -- ErrSensorScanningDisabled
  | value (d : Int × Int) (l : Option Lineariser)
  deriving DecidableEq, Repr

/-- `linearSensorReader.Read`. `s.SendCommand(ctx, &r.readingCmd)` is abstracted to what it hands back: the
    completion code and the outcome of `GetSensorReadingRsp.DecodeFromBytes` on the response data (every
    `Session.SendCommand` ends with exactly that decode into `c.Response()`; the in-session exchange itself is the
    subject of C03/C04/C10/C11). `ValidateResponse` turns an error or a non-normal code into an error; then the
    two flags in the order of the source; then parse and convert. -/
def LinearReader.read (r : LinearReader) (cc : UInt8) (rsp : R SensorReadingRsp) : ReadRes :=
  match rsp with
  | .ok p =>
    if cc ≠ 0 then .err
    else if p.readingUnavailable then .unavailable
    else if !p.scanningEnabled then .scanningDisabled
    else .value (convertExact r.m r.b r.bExp r.rExp (r.parser.parse p.reading)) none
  | _ => .err

/-- `SensorReader.Read` for the two implementations; the linearised one wraps the linear one -/
def Reader.read (rd : Reader) (cc : UInt8) (rsp : R SensorReadingRsp) : ReadRes :=
  match rd with
  | .linear r => r.read cc rsp
  | .linearised r l =>
    match r.read cc rsp with
    | .value d _ => .value d (some l)
    | e => e

/-- the whole path a caller takes: decode the record, build the reader, read once -/
def conv (rec : GoSlice) (cc : UInt8) (rspData : GoSlice) : R (Except BuildErr (Reader × ReadRes)) :=
  match FullSensorRecord.decodeGo {} rec with
  | .ok r =>
    match newSensorReader r with
    | .error e => .ok (.error e)
    | .ok rd => .ok (.ok (rd, rd.read cc (SensorReadingRsp.decodeGo {} rspData)))
  | .err => .err
  | .panic => .panic
  | .overread => .overread

end Bmc.Proto.Sensor
