import Bmc.Basic.Bytes
/-! Time model of the retry loops (C13). Time is a natural number of ticks.

ASSUMPTIONS built into `attemptEnd` (the runtime behaviour the model cannot exhibit; tied to the code by the syntactic
facts in `Gen.Facts` and by wall-clock runs over UDP):
  A1  `transport.Send` returns no later than its context's deadline = min (now + T, D): the per-attempt context is
      `context.WithTimeout(ctx, timeout)` of the CALLER's context and the socket deadlines are set from it;
  A2  the back-off sleep runs under `backoff.WithContext(_, ctx)`: no sleep starts that would pass the deadline, and a
      sleep ends when the context does;
  A3  every attempt takes at least one tick. -/
namespace Bmc.Proto.Timing

structure Att where
  dur : Nat          -- how long the network would take to produce this attempt's outcome
  final : Bool       -- the outcome is an acceptable final response
  backoff : Nat      -- the interval the back-off policy proposes after this attempt
  deriving Repr

/-- when the attempt started at `now` (< D) returns -/
def attemptEnd (T D now dur : Nat) : Nat := min (now + max 1 dur) (min (now + T) D)

/-- `backoff.Retry(op, backoff.WithContext(b, ctx))` around an operation whose every attempt runs under
    `context.WithTimeout(ctx, T)`; `none` = out of fuel (did not return) -/
def run (T D : Nat) (att : Nat → Att) : Nat → Nat → Nat → Option (Nat × Bool)
  | 0, _, _ => none
  | f + 1, i, now =>
    if D ≤ now then some (now, false)            -- the context has expired: Send fails at once, NextBackOff says Stop
    else
      let a := att i
      let tEnd := attemptEnd T D now a.dur
      let answered := now + max 1 a.dur ≤ min (now + T) D
      if answered && a.final then some (tEnd, true)
      else if D ≤ tEnd || D - tEnd < a.backoff then some (tEnd, false)
      else run T D att f (i + 1) (tEnd + a.backoff)

end Bmc.Proto.Timing

namespace Bmc.Proto.Timing

/-- a blocking call made of steps run one after another under the SAME caller's context — the session handshake (Open
    Session, RAKP 1, RAKP 3 exchanges), one SDR walk (repository info, reservation, header and body reads, repository
    info again), session close: each step is a retry loop of its own; the call stops at the first step that fails -/
def runSeq (T D : Nat) (fuel : Nat) : List (Nat → Att) → Nat → Option (Nat × Bool)
  | [], now => some (now, true)
  | att :: rest, now =>
    match run T D att fuel 0 now with
    | none => none
    | some (t, false) => some (t, false)
    | some (t, true) => runSeq T D fuel rest t

/-- `RetrieveSDRRepository`: an OUTER `backoff.Retry(…, backoff.WithContext(_, ctx))` whose operation is a whole walk
    (a `runSeq`); `walk i` = the steps of the i-th walk, `backoff i` = the interval proposed after it failed -/
def runOuter (T D : Nat) (fuel : Nat) (walk : Nat → List (Nat → Att)) (backoff : Nat → Nat) : Nat → Nat → Nat → Option (Nat × Bool)
  | 0, _, _ => none
  | f + 1, i, now =>
    if D ≤ now then some (now, false) else
    match runSeq T D fuel (walk i) now with
    | none => none
    | some (t, true) => some (t, true)
    | some (t, false) =>
      if D ≤ t || D - t < backoff i then some (t, false)
      else runOuter T D fuel walk backoff f (i + 1) (max (t + backoff i) (now + 1))   -- a failed walk took at least a tick (A3)

end Bmc.Proto.Timing
