import Bmc.Proto.Session
/-! Byte-level model of `V2Sessionless.buildAndSendCommand` / `SendCommand` (v2sessionless.go): the layers are built
    and serialised ONCE, then the same buffer is sent on every attempt; lost replies are retried until the context
    expires (= the script runs out). -/
namespace Bmc.Proto
open Bmc Bmc.Wire Bmc.Crypto

structure SlLayers where
  rmcp : RMCP := {}
  v2 : V2Session := {}
  msg : Message := {}
  deriving Repr

/-- the struct literals of `buildAndSendCommand` -/
def slInit (c : Cmd) : SlLayers :=
  { rmcp := { version := 6, sequence := 0xFF, ack := false, cls := 7 }
    v2 := { payloadType := 0 }
    msg := { function := c.fn, body := c.body, enterprise := c.ent, command := c.cmd
             remoteAddress := 0x20, remoteLUN := c.lun, localAddress := 0x81, sequence := 1 } }

/-- `gopacket.SerializeLayers(buffer, opts, rmcp, v2session, message, request)` -/
def slSerialize (c : Cmd) : SlLayers × Bytes :=
  let l := slInit c
  let (msg', mb) := Message.encode l.msg c.req
  let (v2', vb) := V2Session.encode (fun _ => []) l.v2 mb
  ({ l with msg := msg', v2 := v2' }, RMCP.encode l.rmcp ++ vb)

/-- `LayersDecoder` over [RMCP, SessionSelector, V2Session, Message]; the session-less wrapper has no integrity
    algorithm (nil hash ⇒ empty expected signature) and no confidentiality layer (an encrypted packet's next layer
    type has no decoder, so the chain stops at the wrapper) -/
def slOnReply (l : SlLayers) (d : GoSlice) : SlLayers × Decoded :=
  match RMCP.decodeGo l.rmcp d with
  | .err => (l, .fail)
  | .panic | .overread => (l, .crash)
  | .ok (r, p) =>
    if p.len == 0 then ({ l with rmcp := r }, .notMessage) else
    if r.cls != 7 then ({ l with rmcp := r }, .notMessage) else
    if p.vis.getD 0 0 != 6 then ({ l with rmcp := r }, .notMessage) else
    match V2Session.decodeGo (fun _ => []) l.v2 p with
    | .err => ({ l with rmcp := r }, .fail)
    | .panic | .overread => ({ l with rmcp := r }, .crash)
    | .ok v =>
      if v.payload.isEmpty then ({ l with rmcp := r, v2 := v }, .notMessage) else
      if v.payloadType != 0 then ({ l with rmcp := r, v2 := v }, .notMessage) else
      if v.encrypted then ({ l with rmcp := r, v2 := v }, .notMessage) else
      match Message.decodeGo 8 l.msg (GoSlice.ofBytes v.payload) with
      | .err => ({ l with rmcp := r, v2 := v }, .fail)
      | .panic | .overread => ({ l with rmcp := r, v2 := v }, .crash)
      | .ok m => ({ rmcp := r, v2 := v, msg := m }, .message)

/-- `isResponseTo` -/
def slAcceptable (c : Cmd) (m : Message) : Bool :=
  m.function == c.fn + 1 && m.command == c.cmd && m.body == c.body && m.enterprise == c.ent

def slLoop (c : Cmd) (pkt : Bytes) : SlLayers → List Outcome → List Bytes × Res
  | _, [] => ([], .ctxExpired)
  | l, .lost :: rest => let (ps, r) := slLoop c pkt l rest; (pkt :: ps, r)
  | l, .reply d :: rest =>
    match slOnReply l (GoSlice.ofBytes d) with
    | (_, .crash) => ([pkt], .crashed)
    | (l2, .message) =>
      if slAcceptable c l2.msg && !isTemp l2.msg.completionCode then ([pkt], .ok l2.msg.completionCode l2.msg.payload)
      else let (ps, r) := slLoop c pkt l2 rest; (pkt :: ps, r)
    | (l2, _) => let (ps, r) := slLoop c pkt l2 rest; (pkt :: ps, r)

def slSend (c : Cmd) (script : List Outcome) : List Bytes × Res :=
  if c.reqFails then ([], .serializeErr) else
  let (l, pkt) := slSerialize c
  slLoop c pkt l script

end Bmc.Proto
