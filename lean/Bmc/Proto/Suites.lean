import Bmc.Basic.Bytes
/-! Model of `determineCipherSuite` (v2session_new.go). -/
namespace Bmc.Proto

structure Suite where
  auth : Nat
  integ : Nat
  conf : Nat
  deriving DecidableEq, Repr

/-- `defaultCipherSuites`: suite 17 then suite 3 -/
def defaultSuites : List Suite := [⟨3, 4, 1⟩, ⟨1, 1, 1⟩]

inductive Choice where
  | propose (s : Suite) (discovered : Bool)     -- the suite placed in the Open Session Request; was discovery run?
  | noSupported                                 -- ErrNoSupportedCipherSuite, after discovery
  | discoveryFailed                             -- RetrieveSupportedCipherSuites returned an error
  deriving DecidableEq, Repr

/-- `adv` = what discovery returns (none = it failed); it is only consulted when there are several candidates -/
def determine (prefs : List Suite) (adv : Option (List Suite)) : Choice :=
  let desired := if prefs.isEmpty then defaultSuites else prefs
  match desired with
  | [one] => .propose one false
  | _ =>
    match adv with
    | none => .discoveryFailed
    | some a =>
      match desired.find? (fun p => a.contains p) with
      | some p => .propose p true
      | none => .noSupported

end Bmc.Proto
