import Bmc.Wire.Encode
/-! Byte-level model of `bmc.V2Session.buildAndSend` / `SendCommand` (v2session.go).

The connection's reusable layers are explicit state: decoding a reply overwrites the very layers the next
attempt serialises from, so they are rebuilt at the top of every attempt. -/
namespace Bmc.Proto
open Bmc Bmc.Wire Bmc.Crypto

/-- integrity algorithms as negotiated (hasher.go: algorithmHasher) -/
def integMac (C : Ops) (alg : Nat) (k1 : Bytes) (m : Bytes) : Bytes :=
  match alg with
  | 1 => (C.hmac .sha1 k1 m).take 12
  | 2 => C.hmac .md5 k1 m
  | 4 => (C.hmac .sha256 k1 m).take 16
  | _ => []                       -- IntegrityAlgorithmNone: executeHash(nil) = nil

structure Sess where
  rmcp : RMCP := {}
  v2 : V2Session := {}
  msg : Message := {}
  inbound : Nat := 0
  localID : Nat := 0
  remoteID : Nat := 0
  integ : Nat := 1
  k1 : Bytes := []
  k2 : Bytes := []               -- first 16 bytes of K2
  deriving Repr

structure Cmd where
  fn : UInt8
  cmd : UInt8
  body : UInt8 := 0
  ent : Nat := 0
  lun : UInt8 := 0
  req : Bytes := []
  reqFails : Bool := false      -- the request layer's SerializeTo returns an error
  deriving Repr

inductive Outcome where
  | lost
  | reply (d : Bytes)
  deriving Repr

inductive Res where
  | ok (code : UInt8) (payload : Bytes)
  | transportErr                 -- Send failed inside a session: terminal
  | serializeErr                 -- the request could not be serialised: terminal, nothing transmitted
  | ctxExpired
  | crashed                      -- a decoder panicked (no recovery on this path)
  deriving Repr, DecidableEq

/-- the three struct literals at the top of the retry closure -/
def initLayers (s : Sess) (c : Cmd) : Sess :=
  { s with
    rmcp := { version := 6, sequence := 0xFF, ack := false, cls := 7 }
    v2 := { encrypted := true, authenticated := true, id := s.remoteID, payloadType := 0 }
    msg := { function := c.fn, body := c.body, enterprise := c.ent, command := c.cmd
             remoteAddress := 0x20, remoteLUN := c.lun, localAddress := 0x81, sequence := 1 } }

/-- serialise the next datagram: sequence number = counter + 1, committed to the counter because serialisation
    succeeded (`Cmd.reqFails` is handled by the caller) -/
def attempt (C : Ops) (s : Sess) (c : Cmd) (iv : Bytes) : Sess × Bytes :=
  let s := { s with inbound := (s.inbound + 1) % 4294967296 }
  let s := { s with v2 := { s.v2 with sequence := s.inbound } }
  let (msg', mb) := Message.encode s.msg c.req
  let ab := AESLayer.encode C s.k2 iv mb
  let (v2', vb) := V2Session.encode (integMac C s.integ s.k1) s.v2 ab
  ({ s with msg := msg', v2 := v2' }, RMCP.encode s.rmcp ++ vb)

inductive Decoded where
  | fail                          -- a layer returned an error: retry
  | crash                         -- a layer panicked
  | notMessage                    -- chain ended before the message layer: retry
  | message                       -- innermost layer is the message layer
  deriving Repr, DecidableEq

/-- the innermost step: the message layer decodes `mi` into the session's message layer -/
def onMessage (s : Sess) (mi : GoSlice) : Sess × Decoded :=
  if mi.len == 0 then (s, .notMessage) else
  match Message.decodeGo 8 s.msg mi with
  | .err => (s, .fail)
  | .panic | .overread => (s, .crash)
  | .ok m => ({ s with msg := m }, .message)

/-- after the session wrapper decoded to `v`: the confidentiality layer, when the packet is flagged encrypted -/
def onWrapper (C : Ops) (s : Sess) (v : V2Session) : Sess × Decoded :=
  if v.payload.isEmpty then ({ s with v2 := v }, .notMessage) else
  if v.payloadType != 0 then ({ s with v2 := v }, .notMessage) else
  if v.encrypted then
    match AESLayer.decodeGo C s.k2 true {} (GoSlice.ofBytes v.payload) with
    | .ok a => onMessage { s with v2 := v } (GoSlice.ofBytes a.payload)
    | .err => ({ s with v2 := v }, .fail)
    | .panic | .overread => ({ s with v2 := v }, .crash)
  else onMessage { s with v2 := v } (GoSlice.ofBytes v.payload)

/-- gopacket `LayersDecoder` over [RMCP, SessionSelector, V2Session, AES, Message], writing into the session's layers -/
def onReply (C : Ops) (s : Sess) (d : GoSlice) : Sess × Decoded :=
  match RMCP.decodeGo s.rmcp d with
  | .err => (s, .fail)
  | .panic | .overread => (s, .crash)
  | .ok (r, p) =>
    if p.len == 0 then ({ s with rmcp := r }, .notMessage) else
    if r.cls != 7 then ({ s with rmcp := r }, .notMessage) else
    if p.vis.getD 0 0 != 6 then ({ s with rmcp := r }, .notMessage) else   -- SessionSelector → V1Session: no decoder registered
    match V2Session.decodeGo (integMac C s.integ s.k1) s.v2 p with
    | .err => ({ s with rmcp := r }, .fail)
    | .panic | .overread => ({ s with rmcp := r }, .crash)
    | .ok v => onWrapper C { s with rmcp := r } v

def isTemp (c : UInt8) : Bool := c == 0xC0 || c == 0xC3

/-- the acceptance test applied to a decoded reply: authenticated when an integrity algorithm was negotiated,
    addressed to this session, and a response to this very operation -/
def acceptable (s0 : Sess) (c : Cmd) (s : Sess) : Bool :=
  (s0.integ == 0 || s.v2.authenticated) && s.v2.id == s0.localID &&
  s.msg.function == c.fn + 1 && s.msg.command == c.cmd && s.msg.body == c.body && s.msg.enterprise == c.ent

/-- the retry loop; `ivs` = the 16-byte draws from crypto/rand, one per attempt; an empty script = the context has expired -/
def sendLoop (C : Ops) (c : Cmd) : Sess → List Bytes → List Outcome → Sess × List Bytes × Res
  | s, _, [] => (s, [], .ctxExpired)
  | s, [], _ => (s, [], .ctxExpired)
  | s, iv :: ivs, o :: rest =>
    if c.reqFails then (initLayers s c, [], .serializeErr) else
    let (s1, pkt) := attempt C (initLayers s c) c iv
    match o with
    | .lost => (s1, [pkt], .transportErr)
    | .reply d =>
      match onReply C s1 (GoSlice.ofBytes d) with
      | (s2, .crash) => (s2, [pkt], .crashed)
      | (s2, .message) =>
        if acceptable s c s2 && !isTemp s2.msg.completionCode then
          (s2, [pkt], .ok s2.msg.completionCode s2.msg.payload)
        else
          let (s3, ps, r) := sendLoop C c s2 ivs rest
          (s3, pkt :: ps, r)
      | (s2, _) =>
        let (s3, ps, r) := sendLoop C c s2 ivs rest
        (s3, pkt :: ps, r)

def send (C : Ops) (s : Sess) (c : Cmd) (ivs : List Bytes) (script : List Outcome) : Sess × List Bytes × Res :=
  sendLoop C c s ivs script

end Bmc.Proto
