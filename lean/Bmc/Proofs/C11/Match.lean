import Bmc.Gen.Prims
import Bmc.Proto.Sessionless
import Bmc.Proto.Session
/-! # C11 — the response-matching predicate, RE-TRANSLATED from the source on every run, is the model's

`Bmc.Gen.isResponseTo` is `isResponseTo(rsp, req *ipmi.Operation)` of v2sessionless.go as `tools/ssagen` translates it from
SSA on this run (the two struct pointers become one parameter per field; the function only reads them). `slAcceptable`
is what `Proto/Session.lean` and `Proto/Sessionless.lean` use to decide whether a decoded message answers the command in
flight, and what `session_result_matches_request`, `sessionless_result_matches_request`, `stray_is_retry` and
`strays_are_skipped` are about. A source change that drops or weakens one of the four comparisons (network function + 1,
command, body code, enterprise number) breaks this obligation at build time. -/
namespace Bmc.Proofs.C11
open Bmc Bmc.Wire Bmc.Proto

private theorem u8_dec (a b : UInt8) : decide (a.toBitVec = b.toBitVec) = (a == b) := by
  by_cases h : a = b
  · subst h; simp
  · have h' : a.toBitVec ≠ b.toBitVec := fun e => h (UInt8.toBitVec_inj.mp e)
    simp [h, h']

theorem isResponseTo_gen_eq (c : Cmd) (m : Message) (hm : m.enterprise < 2 ^ 32) (hc : c.ent < 2 ^ 32) :
    Bmc.Gen.isResponseTo m.function.toBitVec m.body.toBitVec (BitVec.ofNat 32 m.enterprise) m.command.toBitVec
        c.fn.toBitVec c.body.toBitVec (BitVec.ofNat 32 c.ent) c.cmd.toBitVec
      = slAcceptable c m := by
  have e1 : decide (m.function.toBitVec = c.fn.toBitVec + 1#8) = (m.function == c.fn + 1) := by
    rw [show c.fn.toBitVec + 1#8 = (c.fn + 1).toBitVec from rfl]
    exact u8_dec _ _
  have e2 : decide (m.command.toBitVec = c.cmd.toBitVec) = (m.command == c.cmd) := u8_dec _ _
  have e3 : decide (m.body.toBitVec = c.body.toBitVec) = (m.body == c.body) := u8_dec _ _
  have e4 : decide (BitVec.ofNat 32 m.enterprise = BitVec.ofNat 32 c.ent) = (m.enterprise == c.ent) := by
    have : BitVec.ofNat 32 m.enterprise = BitVec.ofNat 32 c.ent ↔ m.enterprise = c.ent := by
      constructor
      · intro h
        have := congrArg BitVec.toNat h
        simp only [BitVec.toNat_ofNat] at this
        rwa [Nat.mod_eq_of_lt hm, Nat.mod_eq_of_lt hc] at this
      · intro h; rw [h]
    by_cases h : m.enterprise = c.ent <;> simp [this, h]
  unfold Bmc.Gen.isResponseTo slAcceptable
  simp only [e1, e2, e3, e4]
  cases (m.function == c.fn + 1) <;> cases (m.command == c.cmd) <;> cases (m.body == c.body) <;> simp

/-- in a session the same predicate is the last conjunct of the acceptance test (after "authenticated" and "addressed to
    this session", which are statements of `buildAndSend` itself: C04) -/
theorem acceptable_uses_isResponseTo (s0 : Sess) (c : Cmd) (s : Sess) (hm : s.msg.enterprise < 2 ^ 32) (hc : c.ent < 2 ^ 32) :
    acceptable s0 c s =
      ((s0.integ == 0 || s.v2.authenticated) && s.v2.id == s0.localID &&
        Bmc.Gen.isResponseTo s.msg.function.toBitVec s.msg.body.toBitVec (BitVec.ofNat 32 s.msg.enterprise) s.msg.command.toBitVec
          c.fn.toBitVec c.body.toBitVec (BitVec.ofNat 32 c.ent) c.cmd.toBitVec) := by
  rw [isResponseTo_gen_eq c s.msg hm hc]
  unfold acceptable slAcceptable
  simp only [Bool.and_assoc]

/-- the hypotheses are met by everything the decoders produce (a 3-byte enterprise number) -/
example : (0x0002A2 : Nat) < 2 ^ 32 := by decide

end Bmc.Proofs.C11
