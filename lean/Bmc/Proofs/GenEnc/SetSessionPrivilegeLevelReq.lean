import Bmc.Lemmas.GenEnc
/-! `SetSessionPrivilegeLevelReq`: the serialiser re-translated from the Go source on every run is the hand-written encoder model (see `Proofs/GenEnc.lean`). -/
namespace Bmc.Proofs.GenEnc
open Bmc Bmc.Gen.Enc Bmc.Lemmas.GenEnc Bmc.Wire Bmc.Wire.Req Bmc.GoEnc

/-- `PrivilegeLevelCallback` is refused before anything is written -/
theorem SetSessionPrivilegeLevelReq_enc_eq (v : SetSessionPrivilegeLevelReq) (stale inner : Bytes) :
    SetSessionPrivilegeLevelReq.serializeTo v stale inner
      = R.ofExcept ((SetPriv.encode v.privilegeLevel).map (· ++ inner)) := by
  unfold SetSessionPrivilegeLevelReq.serializeTo SetPriv.encode
  by_cases h : (v.privilegeLevel == 1) = true
  · simp only [h]; rfl
  · simp only [h]; enc_simp; rfl

end Bmc.Proofs.GenEnc
