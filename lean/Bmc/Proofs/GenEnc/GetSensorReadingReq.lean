import Bmc.Lemmas.GenEnc
/-! `GetSensorReadingReq`: the serialiser re-translated from the Go source on every run is the hand-written encoder model (see `Proofs/GenEnc.lean`). -/
namespace Bmc.Proofs.GenEnc
open Bmc Bmc.Gen.Enc Bmc.Lemmas.GenEnc Bmc.Wire Bmc.Wire.Req Bmc.GoEnc

theorem GetSensorReadingReq_enc_eq (v : GetSensorReadingReq) (stale inner : Bytes) :
    GetSensorReadingReq.serializeTo v stale inner = .ok (SensorReading.encode v.number ++ inner) := by
  unfold GetSensorReadingReq.serializeTo SensorReading.encode
  enc_simp

end Bmc.Proofs.GenEnc
