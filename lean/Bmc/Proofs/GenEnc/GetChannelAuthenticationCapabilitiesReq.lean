import Bmc.Lemmas.GenEnc
/-! `GetChannelAuthenticationCapabilitiesReq`: the serialiser re-translated from the Go source on every run is the hand-written encoder model (see `Proofs/GenEnc.lean`). -/
namespace Bmc.Proofs.GenEnc
open Bmc Bmc.Gen.Enc Bmc.Lemmas.GenEnc Bmc.Wire Bmc.Wire.Req Bmc.GoEnc

theorem GetChannelAuthenticationCapabilitiesReq_enc_eq (v : GetChannelAuthenticationCapabilitiesReq) (stale inner : Bytes) :
    GetChannelAuthenticationCapabilitiesReq.serializeTo v stale inner = .ok (AuthCaps.encode v.toModel ++ inner) := by
  unfold GetChannelAuthenticationCapabilitiesReq.serializeTo AuthCaps.encode GetChannelAuthenticationCapabilitiesReq.toModel
  cases h : v.extendedData <;> enc_simp

end Bmc.Proofs.GenEnc
