import Bmc.Lemmas.GenEnc
/-! `GetChannelCipherSuitesReq`: the serialiser re-translated from the Go source on every run is the hand-written encoder model (see `Proofs/GenEnc.lean`). -/
namespace Bmc.Proofs.GenEnc
open Bmc Bmc.Gen.Enc Bmc.Lemmas.GenEnc Bmc.Wire Bmc.Wire.Req Bmc.GoEnc

theorem GetChannelCipherSuitesReq_enc_eq (v : GetChannelCipherSuitesReq) (stale inner : Bytes) :
    GetChannelCipherSuitesReq.serializeTo v stale inner = .ok (CipherSuites.encode v.toModel ++ inner) := by
  unfold GetChannelCipherSuitesReq.serializeTo CipherSuites.encode GetChannelCipherSuitesReq.toModel
  enc_simp

end Bmc.Proofs.GenEnc
