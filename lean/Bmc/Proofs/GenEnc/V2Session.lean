import Bmc.Lemmas.GenEnc
/-! `V2Session`: the serialiser re-translated from the Go source on every run is the hand-written encoder model (see `Proofs/GenEnc.lean`). -/
namespace Bmc.Proofs.GenEnc
open Bmc Bmc.Gen.Enc Bmc.Lemmas.GenEnc Bmc.Wire Bmc.Wire.Req Bmc.GoEnc

/-- for EVERY integrity function `mac` (= `executeHash` applied to the layer's `IntegrityAlgorithm`, kept uninterpreted;
    `fun _ => []` for the nil hash of the null session); options as the library sets them -/
theorem V2Session_enc_eq (mac : Bytes → Bytes) (v : Gen.Enc.V2Session) (stale inner contents payload : Bytes) :
    (V2Session.serializeTo mac v GoEnc.libraryOptions stale inner).map (fun p => (p.1.toModel contents payload, p.2))
      = .ok (Wire.V2Session.encode mac (v.toModel contents payload) inner) := by
  unfold V2Session.serializeTo Wire.V2Session.encode V2Session.toModel GoEnc.libraryOptions
  cases ha : v.authenticated
  · by_cases ho : (v.payloadDescriptor.payloadType == 2) = true <;>
    cases he : v.encrypted <;>
    · enc_only [ho, ha, he, R.map]
      simp
  · by_cases ho : (v.payloadDescriptor.payloadType == 2) = true <;>
    cases he : v.encrypted <;>
    · simp only [ho, ha, if_true, if_false, Bool.false_eq_true, R.pure_eq, R.bind_ok, pad_eq, UInt16.toNat_ofNat',
        Nat.reduceAdd, Nat.reducePow]
      generalize hPd : (4 - (_ + inner.length % 65536 + 2) % 4) % 4 = P
      have hP : P < 4 := by rw [← hPd]; exact Nat.mod_lt _ (by decide)
      simp only [toNat_ofNat_lt P (by omega)]
      simp (disch := len_omega) only [fresh_add _ P 2, fill_ff', drop_fresh_append, fresh_succ, fresh_zero,
        setB_replicate_0, setB_replicate_1, R.bind_ok]
      enc_only [R.map, length_fresh, Nat.sub_zero, List.drop_eq_nil_of_le, Nat.le_refl]
      simp [UInt16.toNat_ofNat']

end Bmc.Proofs.GenEnc
