import Bmc.Lemmas.GenEnc
/-! `GetSDRReq`: the serialiser re-translated from the Go source on every run is the hand-written encoder model (see `Proofs/GenEnc.lean`). -/
namespace Bmc.Proofs.GenEnc
open Bmc Bmc.Gen.Enc Bmc.Lemmas.GenEnc Bmc.Wire Bmc.Wire.Req Bmc.GoEnc

theorem GetSDRReq_enc_eq (v : GetSDRReq) (stale inner : Bytes) :
    GetSDRReq.serializeTo v stale inner
      = .ok (GetSDR.encode v.reservationID.toNat v.recordID.toNat v.offset v.length ++ inner) := by
  unfold GetSDRReq.serializeTo GetSDR.encode
  enc_simp

end Bmc.Proofs.GenEnc
