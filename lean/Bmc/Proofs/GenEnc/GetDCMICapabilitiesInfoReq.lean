import Bmc.Lemmas.GenEnc
/-! `GetDCMICapabilitiesInfoReq`: the serialiser re-translated from the Go source on every run is the hand-written encoder model (see `Proofs/GenEnc.lean`). -/
namespace Bmc.Proofs.GenEnc
open Bmc Bmc.Gen.Enc Bmc.Lemmas.GenEnc Bmc.Wire Bmc.Wire.Req Bmc.GoEnc

theorem GetDCMICapabilitiesInfoReq_enc_eq (v : GetDCMICapabilitiesInfoReq) (stale inner : Bytes) :
    GetDCMICapabilitiesInfoReq.serializeTo v stale inner = .ok (DcmiCaps.encode v.parameter ++ inner) := by
  unfold GetDCMICapabilitiesInfoReq.serializeTo DcmiCaps.encode
  enc_simp

end Bmc.Proofs.GenEnc
