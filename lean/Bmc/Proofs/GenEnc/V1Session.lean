import Bmc.Lemmas.GenEnc
/-! `V1Session`: the serialiser re-translated from the Go source on every run is the hand-written encoder model (see `Proofs/GenEnc.lean`). -/
namespace Bmc.Proofs.GenEnc
open Bmc Bmc.Gen.Enc Bmc.Lemmas.GenEnc Bmc.Wire Bmc.Wire.Req Bmc.GoEnc

/-- `hc`: what the Go type `[16]byte` of `AuthCode` guarantees; options as the library sets them (`FixLengths`) -/
theorem V1Session_enc_eq (v : Gen.Enc.V1Session) (hc : v.authCode.length = 16) (stale inner contents payload : Bytes) :
    (V1Session.serializeTo v GoEnc.libraryOptions stale inner).map (fun p => (p.1.toModel contents payload, p.2))
      = .ok (Wire.V1Session.encode (v.toModel contents payload) inner) := by
  unfold V1Session.serializeTo Wire.V1Session.encode V1Session.toModel GoEnc.libraryOptions
  obtain ⟨a0, a1, a2, a3, a4, a5, a6, a7, a8, a9, a10, a11, a12, a13, a14, a15, hcc⟩ := list16 _ hc
  simp only [if_true, R.pure_eq, R.bind_ok]
  by_cases h : (v.authType == 0) = true
  · have hne : (v.authType != 0) = false := by simp [bne, h]
    simp only [h, hne, hcc]
    enc_only
    simp [R.map]
  · have hne : (v.authType != 0) = true := by simp [bne, h]
    simp only [h, hne, hcc]
    enc_only
    simp [R.map]

end Bmc.Proofs.GenEnc
