import Bmc.Lemmas.GenEnc
/-! `CloseSessionReq`: the serialiser re-translated from the Go source on every run is the hand-written encoder model (see `Proofs/GenEnc.lean`). -/
namespace Bmc.Proofs.GenEnc
open Bmc Bmc.Gen.Enc Bmc.Lemmas.GenEnc Bmc.Wire Bmc.Wire.Req Bmc.GoEnc

theorem CloseSessionReq_enc_eq (v : CloseSessionReq) (stale inner : Bytes) :
    CloseSessionReq.serializeTo v stale inner = .ok (CloseSession.encode v.id.toNat v.handle ++ inner) := by
  unfold CloseSessionReq.serializeTo CloseSession.encode
  by_cases h : (v.id == 0) = true
  · have h0 : v.id = 0 := by simpa using h
    simp only [h0]; enc_simp
  · have h1 : ¬ v.id.toNat = 0 := by
      intro e; apply h; simp; exact UInt32.toNat_inj.mp e
    simp only [h]; enc_simp; simp [h1]

end Bmc.Proofs.GenEnc
