import Bmc.Lemmas.GenEnc
/-! `ChassisControlReq`: the serialiser re-translated from the Go source on every run is the hand-written encoder model (see `Proofs/GenEnc.lean`). -/
namespace Bmc.Proofs.GenEnc
open Bmc Bmc.Gen.Enc Bmc.Lemmas.GenEnc Bmc.Wire Bmc.Wire.Req Bmc.GoEnc

theorem ChassisControlReq_enc_eq (v : ChassisControlReq) (stale inner : Bytes) :
    ChassisControlReq.serializeTo v stale inner = .ok (ChassisControl.encode v.chassisControl.toNat ++ inner) := by
  unfold ChassisControlReq.serializeTo ChassisControl.encode
  enc_simp
  apply UInt8.toNat_inj.mp; simp

end Bmc.Proofs.GenEnc
