import Bmc.Lemmas.GenEnc
/-! `GetPowerReadingReq`: the serialiser re-translated from the Go source on every run is the hand-written encoder model (see `Proofs/GenEnc.lean`). -/
namespace Bmc.Proofs.GenEnc
open Bmc Bmc.Gen.Enc Bmc.Lemmas.GenEnc Bmc.Wire Bmc.Wire.Req Bmc.GoEnc

/-- `dcmi.rollingAvgPeriodByte` (floating point) is not translated: whatever function `rb` it is, the serialiser writes
    all three bytes — the mode, `rb Period` for the enhanced mode and 0 otherwise, and 0 -/
theorem GetPowerReadingReq_enc_eq_any (rb : Int → UInt8) (v : GetPowerReadingReq) (stale inner : Bytes) :
    GetPowerReadingReq.serializeTo rb v stale inner = .ok ([v.mode, if v.mode == 2 then rb v.period else 0, 0] ++ inner) := by
  unfold GetPowerReadingReq.serializeTo
  by_cases h : (v.mode == 2) = true <;> simp only [h] <;> enc_simp

/-- with the model's `rollingByteNs` for the untranslated helper (tied to the code by correspondence) this is the model -/
theorem GetPowerReadingReq_enc_eq (v : GetPowerReadingReq) (stale inner : Bytes) :
    GetPowerReadingReq.serializeTo rollingByteNs v stale inner = .ok (PowerReading.encode v.toModel ++ inner) := by
  rw [GetPowerReadingReq_enc_eq_any]; rfl

end Bmc.Proofs.GenEnc
