import Bmc.Lemmas.GenEnc
/-! `GetSessionInfoReq`: the serialiser re-translated from the Go source on every run is the hand-written encoder model (see `Proofs/GenEnc.lean`). -/
namespace Bmc.Proofs.GenEnc
open Bmc Bmc.Gen.Enc Bmc.Lemmas.GenEnc Bmc.Wire Bmc.Wire.Req Bmc.GoEnc

theorem GetSessionInfoReq_enc_eq (v : GetSessionInfoReq) (stale inner : Bytes) :
    GetSessionInfoReq.serializeTo v stale inner = .ok (SessionInfo.encode v.toModel ++ inner) := by
  unfold GetSessionInfoReq.serializeTo SessionInfo.encode GetSessionInfoReq.toModel
  by_cases h : (v.index == 254) = true
  · simp only [h]; enc_simp
  · by_cases h2 : (v.index == 255) = true
    · simp only [h, h2]; enc_simp
    · simp only [h, h2]; enc_simp

end Bmc.Proofs.GenEnc
