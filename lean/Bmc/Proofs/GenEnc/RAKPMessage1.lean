import Bmc.Lemmas.GenEnc
/-! `RAKPMessage1`: the serialiser re-translated from the Go source on every run is the hand-written encoder model (see `Proofs/GenEnc.lean`). -/
namespace Bmc.Proofs.GenEnc
open Bmc Bmc.Gen.Enc Bmc.Lemmas.GenEnc Bmc.Wire Bmc.Wire.Req Bmc.GoEnc

/-- `hr`: what the Go type `[16]byte` of `RemoteConsoleRandom` guarantees. A user name over 16 bytes is refused. -/
theorem RAKPMessage1_enc_eq (v : RAKPMessage1) (hr : v.remoteConsoleRandom.length = 16) (stale inner : Bytes) :
    RAKPMessage1.serializeTo v stale inner = R.ofExcept ((Rakp1.encode v.toModel).map (· ++ inner)) := by
  unfold RAKPMessage1.serializeTo Rakp1.encode RAKP1.encode RAKPMessage1.toModel
  by_cases h : v.username.length > 16
  · simp only [h, decide_true, if_true]; rfl
  · obtain ⟨a0, a1, a2, a3, a4, a5, a6, a7, a8, a9, a10, a11, a12, a13, a14, a15, hrr⟩ := list16 _ hr
    simp only [h, decide_false, if_false, hrr, Bool.false_eq_true, R.pure_eq, fresh_add]
    generalize hT : fresh (List.drop 28 stale) v.username.length = T
    have hl : T.length = v.username.length := by rw [← hT, length_fresh]
    by_cases h0 : v.username.length > 0
    · cases hp : v.privilegeLevelLookup <;>
      · simp only [h0, decide_true]
        enc_only
        simp +arith [hl]
    · have hn : v.username = [] := by
        apply List.eq_nil_of_length_eq_zero; omega
      have hT0 : T = [] := by apply List.eq_nil_of_length_eq_zero; rw [hl, hn]; rfl
      cases hp : v.privilegeLevelLookup <;>
      · simp only [hn, hT0]
        enc_only
        simp

/-- the serialiser C08's RAKP 1 round trip is stated about (`Setup.RAKP1.serialize`) -/
theorem RAKPMessage1_enc_eq_setup (v : RAKPMessage1) (hr : v.remoteConsoleRandom.length = 16) (stale inner contents : Bytes) :
    RAKPMessage1.serializeTo v stale inner
      = R.ofExcept ((Setup.RAKP1.serialize (v.toSetup contents)).map (· ++ inner)) :=
  RAKPMessage1_enc_eq v hr stale inner

end Bmc.Proofs.GenEnc
