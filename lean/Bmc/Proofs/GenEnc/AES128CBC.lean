import Bmc.Lemmas.GenEncAes
/-! `AES128CBC`: the serialiser re-translated from the Go source on every run is the hand-written encoder model (see `Proofs/GenEnc.lean`).

The external calls of `(*AES128CBC).SerializeTo` are PARAMETERS of the regenerated definition (`tools/encgen/ext.go`):
`a.cipher.BlockSize()` is the constant 16 (the unexported field is only ever set from `aes.NewCipher`; `aes.BlockSize` as
type-checked), `rand.Read(iv)` is `rand_Read : Option Bytes` (the bytes drawn, `none` = the read fails), and
`cipher.NewCBCEncrypter(a.cipher, iv).CryptBlocks(toEncrypt, toEncrypt)` is `cipher_encryptCBC iv plaintext`, applied IN PLACE to what
`toEncrypt = b.Bytes()[16:]` holds at the time of the call (`GoEnc.cryptBlocksInPlace`). `toEncrypt` aliases the buffer only
because no `PrependBytes` / `AppendBytes` lies between the statement that takes it and the call: with the slice taken before
the `PrependBytes` for the IV (defect F13) the translator gives up, `AES128CBC.serializeTo` does not exist and every
theorem of this module (and `translated_ok`) fails to build. -/
namespace Bmc.Proofs.GenEnc
open Bmc Bmc.Gen.Enc Bmc.Lemmas.GenEnc Bmc.Wire Bmc.GoEnc Bmc.Crypto

/-- for EVERY function standing for CBC encryption that, on this input, returns as many bytes as it is given (Go's
    `CryptBlocks` writes `len(src)` bytes), every IV draw of one block, every inner payload and EVERY `stale` content of the
    trailer and IV windows: the buffer afterwards holds the IV drawn followed by the encryption, under that IV, of the inner
    payload and the confidentiality trailer 01, 02, …, n, n with n = 15 - len(inner) mod 16 -/
theorem AES128CBC_enc_param (enc : Bytes → Bytes → Bytes) (iv : Bytes) (hiv : iv.length = 16) (v : Gen.Enc.AES128CBC)
    (stale inner : Bytes)
    (henc : (enc iv (inner ++ confPad (padLen inner.length))).length = (inner ++ confPad (padLen inner.length)).length) :
    AES128CBC.serializeTo (some iv) enc v stale inner = .ok (iv ++ enc iv (inner ++ confPad (padLen inner.length))) := by
  unfold AES128CBC.serializeTo
  have hP : ((((16 : Nat) : Int) - ((1 : Nat) : Int)) - (((inner.length % 16 : Nat) : Nat) : Int))
      = ((padLen inner.length : Nat) : Int) := by unfold padLen; omega
  simp only [hP]
  have hlen := padded_len inner
  generalize padLen inner.length = P at hlen henc ⊢
  have e1 : ((P : Nat) : Int) + ((1 : Nat) : Int) = ((P + 1 : Nat) : Int) := by omega
  simp only [e1, ofInt_natCast, nat_natCast, R.bind_ok, Int.toNat_natCast]
  rw [fill_pad' _ P (by rw [length_fresh]; omega), R.bind_ok,
    setB_after _ _ P _ (by simp) (by rw [length_fresh]; omega), R.bind_ok]
  have e3 : (fresh stale (P + 1)).drop (P + 1) = [] := List.drop_eq_nil_of_le (by rw [length_fresh]; omega)
  have e4 : (List.range P).map (fun i => UInt8.ofNat (i + 1)) ++ [UInt8.ofNat P] ++ ([] : Bytes) = confPad P := by
    simp [confPad]
  rw [e3, e4]
  have hf : (fresh (List.drop (P + 1) stale) 16).length = 16 := length_fresh _ _
  rw [slice_ok _ _ _ (by simp; omega) (Nat.le_refl _), R.bind_ok, randRead_some iv _ (by omega), R.bind_ok,
    crypt_ok _ iv _ hiv hlen henc, R.bind_ok]
  simp

/-- `AES128CBC.SerializeTo` as re-translated is the hand model `Wire.AESLayer.encode` (C03 `payload_decrypts`, `iv_is_own_draw`;
    C08 `aes_roundtrip`), for every key, every IV draw, every inner payload and EVERY `stale`: CBC encryption instantiated with
    the model's `cbcEnc` over a lawful block cipher — the same identification as `Proofs/GenDec/AES128CBC.lean`. -/
theorem AES128CBC_enc_eq (C : Ops) (hC : C.Lawful) (key iv : Bytes) (hiv : iv.length = 16) (v : Gen.Enc.AES128CBC)
    (stale inner : Bytes) :
    AES128CBC.serializeTo (some iv) (fun iv pt => cbcEnc C key (pt.length / 16) iv pt) v stale inner
      = .ok (Wire.AESLayer.encode C key iv inner) := by
  have hlen := padded_len inner
  have hpt : (inner ++ confPad (padLen inner.length)).length
      = 16 * ((inner ++ confPad (padLen inner.length)).length / 16) := by omega
  exact AES128CBC_enc_param _ iv hiv v stale inner (by rw [cbcEnc_len C hC key _ iv _ hiv hpt]; exact hpt.symm)

/-- when `rand.Read` fails the method returns its error (and nothing else: no panic, no over-read), whatever the cipher -/
theorem AES128CBC_enc_randErr (enc : Bytes → Bytes → Bytes) (v : Gen.Enc.AES128CBC) (stale inner : Bytes) :
    AES128CBC.serializeTo none enc v stale inner = .err := by
  unfold AES128CBC.serializeTo
  have hP : ((((16 : Nat) : Int) - ((1 : Nat) : Int)) - (((inner.length % 16 : Nat) : Nat) : Int))
      = ((padLen inner.length : Nat) : Int) := by unfold padLen; omega
  simp only [hP]
  generalize padLen inner.length = P
  have e1 : ((P : Nat) : Int) + ((1 : Nat) : Int) = ((P + 1 : Nat) : Int) := by omega
  simp only [e1, ofInt_natCast, nat_natCast, R.bind_ok, Int.toNat_natCast]
  rw [fill_pad' _ P (by rw [length_fresh]; omega), R.bind_ok,
    setB_after _ _ P _ (by simp) (by rw [length_fresh]; omega), R.bind_ok]
  have hf : (fresh (List.drop (P + 1) stale) 16).length = 16 := length_fresh _ _
  rw [slice_ok _ _ _ (by simp; omega) (Nat.le_refl _), R.bind_ok]
  rfl

/-- the hypotheses are satisfiable -/
example : toy.Lawful := toy_lawful
/-- a run: key 00…0F, IV A0…AF, a 3-byte payload (pad 01 … 0C, 0C), both windows full of FFh from an earlier packet -/
example :
    let key : Bytes := (List.range 16).map UInt8.ofNat
    let iv : Bytes := (List.range 16).map (fun i => UInt8.ofNat (0xa0 + i))
    AES128CBC.serializeTo (some iv) (fun iv pt => cbcEnc toy key (pt.length / 16) iv pt) ⟨⟩ (List.replicate 40 0xff) [1, 2, 3]
      = .ok (Wire.AESLayer.encode toy key iv [1, 2, 3]) := by
  decide +kernel

end Bmc.Proofs.GenEnc
