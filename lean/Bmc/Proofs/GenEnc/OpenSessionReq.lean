import Bmc.Lemmas.GenEnc
/-! `OpenSessionReq`: the serialiser re-translated from the Go source on every run is the hand-written encoder model (see `Proofs/GenEnc.lean`). -/
namespace Bmc.Proofs.GenEnc
open Bmc Bmc.Gen.Enc Bmc.Lemmas.GenEnc Bmc.Wire Bmc.Wire.Req Bmc.GoEnc

/-- 8 header bytes in front of what the buffer holds, the three algorithm payloads behind it -/
theorem OpenSessionReq_enc_eq_inner (v : OpenSessionReq) (stale inner : Bytes) :
    OpenSessionReq.serializeTo v stale inner
      = .ok ((OpenSession.encode v.toModel).take 8 ++ inner ++ (OpenSession.encode v.toModel).drop 8) := by
  unfold OpenSessionReq.serializeTo OpenSession.encode OpenSessionReq.toModel
  enc_simp
  simp [auth_serialise, integ_serialise, conf_serialise, algPayload]

/-- the Open Session Request is the innermost layer: the buffer is empty when it serialises -/
theorem OpenSessionReq_enc_eq (v : OpenSessionReq) (stale : Bytes) :
    OpenSessionReq.serializeTo v stale [] = .ok (OpenSession.encode v.toModel) := by
  rw [OpenSessionReq_enc_eq_inner]; simp

end Bmc.Proofs.GenEnc
