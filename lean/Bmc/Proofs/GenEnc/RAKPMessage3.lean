import Bmc.Lemmas.GenEnc
/-! `RAKPMessage3`: the serialiser re-translated from the Go source on every run is the hand-written encoder model (see `Proofs/GenEnc.lean`). -/
namespace Bmc.Proofs.GenEnc
open Bmc Bmc.Gen.Enc Bmc.Lemmas.GenEnc Bmc.Wire Bmc.Wire.Req Bmc.GoEnc

/-- the AuthCode is written (and kept) only with `StatusCodeOK`; otherwise the method clears the field -/
theorem RAKPMessage3_enc_eq (v : RAKPMessage3) (stale inner : Bytes) :
    RAKPMessage3.serializeTo v stale inner
      = .ok (if v.status == 0 then v else { v with authCode := [] }, Rakp3.encode v.toModel ++ inner) := by
  unfold RAKPMessage3.serializeTo Rakp3.encode RAKPMessage3.toModel
  by_cases h : (v.status == 0) = true
  · simp only [h, ↓reduceIte, R.pure_eq, R.bind_ok, fresh_add]
    generalize hT : fresh (List.drop 8 stale) v.authCode.length = T
    have hl : T.length = v.authCode.length := by rw [← hT, length_fresh]
    enc_simp
    simp +arith [hl]
  · simp only [h]; enc_simp

end Bmc.Proofs.GenEnc
