import Bmc.Lemmas.GenEnc
/-! `GetDCMISensorInfoReq`: the serialiser re-translated from the Go source on every run is the hand-written encoder model (see `Proofs/GenEnc.lean`). -/
namespace Bmc.Proofs.GenEnc
open Bmc Bmc.Gen.Enc Bmc.Lemmas.GenEnc Bmc.Wire Bmc.Wire.Req Bmc.GoEnc

theorem GetDCMISensorInfoReq_enc_eq (v : GetDCMISensorInfoReq) (stale inner : Bytes) :
    GetDCMISensorInfoReq.serializeTo v stale inner = .ok (DcmiSensorInfo.encode v.toModel ++ inner) := by
  unfold GetDCMISensorInfoReq.serializeTo DcmiSensorInfo.encode GetDCMISensorInfoReq.toModel
  by_cases h : (v.instance_ == 0) = true <;> simp only [h] <;> enc_simp

end Bmc.Proofs.GenEnc
