import Bmc.Lemmas.GenEnc
/-! `TranslatedOk`: the serialiser re-translated from the Go source on every run is the hand-written encoder model (see `Proofs/GenEnc.lean`). -/
namespace Bmc.Proofs.GenEnc
open Bmc Bmc.Gen.Enc Bmc.Lemmas.GenEnc Bmc.Wire Bmc.Wire.Req Bmc.GoEnc

/-- the layers translated when this file was delivered; a layer the translator no longer manages is a broken obligation -/
theorem translated_ok : ∀ n ∈ [
    "dcmi.GetDCMICapabilitiesInfoReq", "dcmi.GetDCMISensorInfoReq", "dcmi.GetPowerReadingReq", "ipmi.AES128CBC", "ipmi.ChassisControlReq",
    "ipmi.CloseSessionReq", "ipmi.GetChannelAuthenticationCapabilitiesReq", "ipmi.GetChannelCipherSuitesReq",
    "ipmi.GetSDRReq", "ipmi.GetSensorReadingReq", "ipmi.GetSessionInfoReq", "ipmi.Message", "ipmi.OpenSessionReq",
    "ipmi.RAKPMessage1", "ipmi.RAKPMessage3", "ipmi.SetSessionPrivilegeLevelReq", "ipmi.V1Session", "ipmi.V2Session"],
    n ∈ Bmc.Gen.Enc.translated := by decide

/-- the translator gives up on no `SerializeTo` method of `pkg/ipmi` / `pkg/dcmi` -/
theorem gaveUp_empty : Bmc.Gen.Enc.gaveUp = [] := by decide

/-- the parameters of the regenerated definitions are exactly these: two helpers kept as uninterpreted functions, and the two
    external calls of `AES128CBC.SerializeTo` (the draw of the IV, CBC encryption) — one more would weaken a theorem silently
    only if its statement did not mention it; it does: the parameter is part of the definition's type -/
theorem uninterpreted_ok : Bmc.Gen.Enc.uninterpreted
    = ["dcmi.GetPowerReadingReq: dcmi_rollingAvgPeriodByte", "ipmi.AES128CBC: rand_Read", "ipmi.AES128CBC: cipher_encryptCBC",
       "ipmi.V2Session: ipmi_executeHash_integrityAlgorithm"] := by decide

end Bmc.Proofs.GenEnc
