import Bmc.Lemmas.GenEnc
/-! `TranslatedOk`: the serialiser re-translated from the Go source on every run is the hand-written encoder model (see `Proofs/GenEnc.lean`). -/
namespace Bmc.Proofs.GenEnc
open Bmc Bmc.Gen.Enc Bmc.Lemmas.GenEnc Bmc.Wire Bmc.Wire.Req Bmc.GoEnc

/-- the layers translated when this file was delivered; a layer the translator no longer manages is a broken obligation -/
theorem translated_ok : ∀ n ∈ [
    "dcmi.GetDCMICapabilitiesInfoReq", "dcmi.GetDCMISensorInfoReq", "dcmi.GetPowerReadingReq", "ipmi.ChassisControlReq",
    "ipmi.CloseSessionReq", "ipmi.GetChannelAuthenticationCapabilitiesReq", "ipmi.GetChannelCipherSuitesReq",
    "ipmi.GetSDRReq", "ipmi.GetSensorReadingReq", "ipmi.GetSessionInfoReq", "ipmi.Message", "ipmi.OpenSessionReq",
    "ipmi.RAKPMessage1", "ipmi.RAKPMessage3", "ipmi.SetSessionPrivilegeLevelReq", "ipmi.V1Session", "ipmi.V2Session"],
    n ∈ Bmc.Gen.Enc.translated := by decide

/-- the helpers kept as uninterpreted function parameters are exactly these two (one more would weaken a theorem below
    silently only if its statement did not mention it — it does: the parameter is part of the definition's type) -/
theorem uninterpreted_ok : Bmc.Gen.Enc.uninterpreted
    = ["dcmi.GetPowerReadingReq: dcmi_rollingAvgPeriodByte", "ipmi.V2Session: ipmi_executeHash_integrityAlgorithm"] := by decide

end Bmc.Proofs.GenEnc
