import Bmc.Lemmas.GenEnc
/-! `Message`: the serialiser re-translated from the Go source on every run is the hand-written encoder model (see `Proofs/GenEnc.lean`). -/
namespace Bmc.Proofs.GenEnc
open Bmc Bmc.Gen.Enc Bmc.Lemmas.GenEnc Bmc.Wire Bmc.Wire.Req Bmc.GoEnc

/-- options as the library sets them (`ComputeChecksums`): header in front of the inner payload, checksum 2 behind it,
    both checksums stored into the layer -/
theorem Message_enc_eq (v : Gen.Enc.Message) (stale inner contents payload : Bytes) :
    (Message.serializeTo v GoEnc.libraryOptions stale inner).map (fun p => (p.1.toModel contents payload, p.2))
      = .ok (Wire.Message.encode (v.toModel contents payload) inner) := by
  unfold Message.serializeTo Message.serializeLength Wire.Message.encode Message.toModel GoEnc.libraryOptions
  simp only [checksum_eq, isRequest_eq, isGroup, isOEM]
  by_cases hq : isRequest v.operation.function = true <;>
  by_cases hg : (v.operation.function == 44 || v.operation.function == 45) = true <;>
  by_cases ho : (v.operation.function == 46 || v.operation.function == 47) = true <;>
  · enc_only [hq, hg, ho, nat_natCast, List.take_of_length_le, R.map, u32_b1, u32_b2]
    try simp only [u32_b0]

end Bmc.Proofs.GenEnc
