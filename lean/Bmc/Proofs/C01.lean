import Bmc.Proofs.C02
import Bmc.Proofs.C12
import Bmc.Proofs.C03
/-! # C01 — session establishment agrees on keys with every conforming BMC (property theorems only)

Proved here: whenever a session is returned — for EVERY credential, suite, random, GUID, session ID and reply script —
its SIK, K1, K2 are the specification's functions of the exchanged values (so any BMC computing the specification's
formulas on the same exchange holds the same keys), its IDs are those of the Open Session Response, and every
command then sent is sealed under exactly those keys (C03). Suites without integrity or confidentiality are refused.
PARTIAL: that the handshake against a conforming BMC SUCCEEDS (liveness) is established by the correspondence run
against the independent reference BMC (all 9 suites x KG x lookup x privilege x credential lengths), not by a Lean
theorem yet. -/
namespace Bmc.Proofs.C01
open Bmc Bmc.Wire Bmc.Crypto Bmc.Proto

/-- key agreement: SIK, K1 and K2 of a returned session are the specification's (§13.31, §13.32) for the values
    exchanged, under the caller's password / KG and the proposed authentication algorithm's hash -/
theorem keys_are_spec (C : Ops) (o : Opts) (rm : Bytes) (script : List Outcome) (l r : Nat) (a i c : UInt8)
    (sik k1 k2 : Bytes) (h : (newSession C o rm script).2 = .ok l r a i c sik k1 k2) :
    ∃ (osr : OpenSessionRsp) (rk2 : RAKP2) (hh : HashAlg), authHash o.auth = some hh ∧
      sik = Spec.sik C hh o.pass o.kg (C02.exchangeOf o rm osr rk2) ∧
      k1 = Spec.k C hh sik 1 ∧ k2 = Spec.k C hh sik 2 := by
  obtain ⟨osr, rk2, _, hh, _, _, _, ha, _, _, _, _, _, hs, _, hk1, hk2⟩ := C02.session_sound C o rm script l r a i c sik k1 k2 h
  exact ⟨osr, rk2, hh, ha, hs, hk1, hk2⟩

/-- the session's IDs are the ones the Open Session Response carried -/
theorem session_ids (C : Ops) (o : Opts) (rm : Bytes) (script : List Outcome) (l r : Nat) (a i c : UInt8)
    (sik k1 k2 : Bytes) (h : (newSession C o rm script).2 = .ok l r a i c sik k1 k2) :
    ∃ osr, stepOpen o script = .ok osr ∧ l = osr.consoleSessionID ∧ r = osr.bmcSessionID := by
  obtain ⟨osr, rk2, hh, s2, s3, h1, _, h3, _⟩ := newSession_ok C o rm script l r a i c sik k1 k2 h
  obtain ⟨_, _, hr, _⟩ := stepRakp4_ok C o rm osr rk2 hh s3 _ h3
  injection hr with e1 e2
  exact ⟨osr, h1, e1, e2⟩

/-- suites using None (or an unknown value) for authentication, integrity or confidentiality are refused: never a
    session, for any BMC behaviour -/
theorem unsupported_refused (C : Ops) (o : Opts) (rm : Bytes) (script : List Outcome)
    (hbad : o.integ = 0 ∨ o.conf ≠ 1 ∨ authHash o.auth = none) (l r : Nat) (a i c : UInt8) (sik k1 k2 : Bytes) :
    (newSession C o rm script).2 ≠ .ok l r a i c sik k1 k2 := by
  intro h
  obtain ⟨ea, ei, ec, hc, hi, ha⟩ := C12.no_downgrade C o rm script l r a i c sik k1 k2 h
  rcases hbad with h0 | h0 | h0
  · subst ei; rw [h0] at hi; simp at hi
  · subst ec; exact h0 hc
  · subst ea; rcases ha with e | e | e <;> (rw [e] at h0; simp [authHash] at h0)

/-- every command subsequently sent on the session is sealed under exactly these keys: the AuthCode of each datagram
    is the negotiated keyed hash under K1, the payload is AES-CBC under the first 16 bytes of K2 (see C03 for the
    full shape and for what the BMC recovers from it) -/
theorem commands_sealed_with_session_keys (C : Ops) (k : Keys) (c : Cmd) (inb : Nat) (iv : Bytes) :
    ∃ signed, datagramOf C k c inb iv = [6, 0, 0xFF, 7] ++ signed ++ integMac C k.integ k.k1 signed :=
  ⟨_, C03.datagram_shape C k c inb iv⟩

end Bmc.Proofs.C01
