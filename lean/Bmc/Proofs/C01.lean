import Bmc.Proofs.C02
import Bmc.Proofs.C12
import Bmc.Proofs.C03
import Bmc.Lemmas.HandshakeLive
import Bmc.Lemmas.ResponseAccepted
import Bmc.Lemmas.BmcSessionLive
import Bmc.Lemmas.HandshakeLoss
import Bmc.Lemmas.TruncatedReply
import Bmc.Crypto.Toy
/-! # C01 — session establishment agrees on keys with every conforming BMC (property theorems only)

Proved here:
* LIVENESS (`handshake_succeeds`, `transmits_spec_datagrams`, `keys_agree`): against the specification's BMC
  (`Spec/Bmc.lean`: the three replies of §13.18/13.21/13.23 as datagrams, written from Appendix H, and the BMC's own
  key derivation from the fields it RECEIVED) holding the same password and K_G, for EVERY supported suite, user name
  of at most 16 bytes, privilege nibble, lookup mode, password, K_G, console random, BMC session ID / random / GUID /
  reported privilege and EVERY hash function (no crypto law is used: both sides apply the same function; its outputs
  merely have to fit a datagram), `newSession` transmits exactly three datagrams — the Open Session Request, RAKP 1
  and RAKP 3 (with the specification's RAKP 3 code, the one the BMC expects) — and returns a session with console ID
  1, the BMC's ID, the proposed suite, and SIK / K1 / K2 EQUAL to the BMC's.
* SOUNDNESS (`keys_are_spec`, `session_ids`, `unsupported_refused`): whenever a session is returned — for EVERY
  credential, suite, random, GUID, session ID and reply script (lost, garbled, forged replies included) — its SIK, K1,
  K2 are the specification's functions of the exchanged values, its IDs are those of the Open Session Response, and
  every command then sent is sealed under exactly those keys (C03). Suites without integrity or confidentiality are
  refused.
Liveness is for the loss-free script (one conforming reply per exchange); retransmission after lost or undecodable
replies is C10's subject. -/
namespace Bmc.Proofs.C01
open Bmc Bmc.Wire Bmc.Crypto Bmc.Proto

/-- key agreement: SIK, K1 and K2 of a returned session are the specification's (§13.31, §13.32) for the values
    exchanged, under the caller's password / KG and the proposed authentication algorithm's hash -/
theorem keys_are_spec (C : Ops) (o : Opts) (rm : Bytes) (script : List Outcome) (l r : Nat) (a i c : UInt8)
    (sik k1 k2 : Bytes) (h : (newSession C o rm script).2 = .ok l r a i c sik k1 k2) :
    ∃ (osr : OpenSessionRsp) (rk2 : RAKP2) (hh : HashAlg), authHash o.auth = some hh ∧
      sik = Spec.sik C hh o.pass o.kg (C02.exchangeOf o rm osr rk2) ∧
      k1 = Spec.k C hh sik 1 ∧ k2 = Spec.k C hh sik 2 := by
  obtain ⟨osr, rk2, _, hh, _, _, _, ha, _, _, _, _, _, hs, _, hk1, hk2⟩ := C02.session_sound C o rm script l r a i c sik k1 k2 h
  exact ⟨osr, rk2, hh, ha, hs, hk1, hk2⟩

/-- the session's IDs are the ones the Open Session Response carried -/
theorem session_ids (C : Ops) (o : Opts) (rm : Bytes) (script : List Outcome) (l r : Nat) (a i c : UInt8)
    (sik k1 k2 : Bytes) (h : (newSession C o rm script).2 = .ok l r a i c sik k1 k2) :
    ∃ osr, stepOpen o script = .ok osr ∧ l = osr.consoleSessionID ∧ r = osr.bmcSessionID := by
  obtain ⟨osr, rk2, hh, s2, s3, h1, _, h3, _⟩ := newSession_ok C o rm script l r a i c sik k1 k2 h
  obtain ⟨_, _, hr, _⟩ := stepRakp4_ok C o rm osr rk2 hh s3 _ h3
  injection hr with e1 e2
  exact ⟨osr, h1, e1, e2⟩

/-- suites using None (or an unknown value) for authentication, integrity or confidentiality are refused: never a
    session, for any BMC behaviour -/
theorem unsupported_refused (C : Ops) (o : Opts) (rm : Bytes) (script : List Outcome)
    (hbad : o.integ = 0 ∨ o.conf ≠ 1 ∨ authHash o.auth = none) (l r : Nat) (a i c : UInt8) (sik k1 k2 : Bytes) :
    (newSession C o rm script).2 ≠ .ok l r a i c sik k1 k2 := by
  intro h
  obtain ⟨ea, ei, ec, hc, hi, ha⟩ := C12.no_downgrade C o rm script l r a i c sik k1 k2 h
  rcases hbad with h0 | h0 | h0
  · subst ei; rw [h0] at hi; simp at hi
  · subst ec; exact h0 hc
  · subst ea; rcases ha with e | e | e <;> (rw [e] at h0; simp [authHash] at h0)

/-- every command subsequently sent on the session is sealed under exactly these keys: the AuthCode of each datagram
    is the negotiated keyed hash under K1, the payload is AES-CBC under the first 16 bytes of K2 (see C03 for the
    full shape and for what the BMC recovers from it) -/
theorem commands_sealed_with_session_keys (C : Ops) (k : Keys) (c : Cmd) (inb : Nat) (iv : Bytes) :
    ∃ signed, datagramOf C k c inb iv = [6, 0, 0xFF, 7] ++ signed ++ integMac C k.integ k.k1 signed :=
  ⟨_, C03.datagram_shape C k c inb iv⟩

-- liveness against the specification's BMC -----------------------------------------------------------------------

/-- the values exchanged between a console with options `o` / random `rm` and the BMC `b`: console session ID 1 (the
    library always requests 1), the BMC's ID, both randoms, the GUID, the role byte and user name of RAKP 1 -/
def exchangeWith (o : Opts) (rm : Bytes) (b : Spec.BmcSide) : Spec.Exchange :=
  { sidm := Spec.le32 1, sidc := Spec.le32 b.sidc, rm := rm, rc := b.rc, guid := b.guid, role := roleByte o, uname := o.user }

/-- the BMC's three replies, each computed (Spec/Bmc.lean) from its own values and the fields it received
    (`received o rm` = tag 0, console session ID 1, the proposed suite, `rm`, the role byte, the user name — exactly
    the fields of the datagrams `transmits_spec_datagrams` shows are sent) -/
def honestScript (C : Ops) (h : HashAlg) (o : Opts) (rm : Bytes) (b : Spec.BmcSide) : List Outcome :=
  [.reply (b.openSessionReply (received o rm)), .reply (b.rakp2Reply C h (received o rm)), .reply (b.rakp4Reply C h (received o rm))]

/-- LIVENESS: the handshake with a conforming BMC that holds the same password and K_G succeeds, and the session
    carries console ID 1, the BMC's session ID, the proposed suite and the specification's SIK, K1, K2 for the values
    exchanged. `C` is ANY hash/cipher (lawful or not); `hfit` only says its outputs fit a datagram's 16-bit length
    (any real hash: `hfit_of_lawful`). `rm` is the 16-byte draw in the library; its length is not needed. -/
theorem handshake_succeeds (C : Ops) (o : Opts) (rm : Bytes) (b : Spec.BmcSide) (h : HashAlg)
    (hauth : authHash o.auth = some h) (hinteg : o.integ = 1 ∨ o.integ = 2 ∨ o.integ = 4) (hconf : o.conf = 1)
    (huser : o.user.length ≤ 16) (hpriv : o.priv.toNat < 16)
    (hb : b.wf) (hpass : b.kuid = o.pass) (hkg : b.kg = o.kg)
    (hfit : ∀ k m, (C.hmac h k m).length + 40 < 65536) :
    (newSession C o rm (honestScript C h o rm b)).2 =
      .ok 1 b.sidc o.auth o.integ o.conf
        (Spec.sik C h o.pass o.kg (exchangeWith o rm b))
        (Spec.k C h (Spec.sik C h o.pass o.kg (exchangeWith o rm b)) 1)
        (Spec.k C h (Spec.sik C h o.pass o.kg (exchangeWith o rm b)) 2) := by
  obtain ⟨f2, f4⟩ := fits_of_bound C h hfit b.kuid (b.sik C h (received o rm)) (b.exchange (received o rm))
  have := newSession_live C o rm b hb h hauth hinteg hconf huser hpriv hpass hkg f2 f4
  unfold honestScript
  rw [this]
  simp only [Spec.BmcSide.sik, Spec.BmcSide.k1, Spec.BmcSide.k2, hpass, hkg]
  rfl

/-- KEY AGREEMENT: the keys of the returned session are the keys the BMC derives, independently, from the fields it
    received and its own values (`Spec.BmcSide.sik/k1/k2`) -/
theorem keys_agree (C : Ops) (o : Opts) (rm : Bytes) (b : Spec.BmcSide) (h : HashAlg)
    (hauth : authHash o.auth = some h) (hinteg : o.integ = 1 ∨ o.integ = 2 ∨ o.integ = 4) (hconf : o.conf = 1)
    (huser : o.user.length ≤ 16) (hpriv : o.priv.toNat < 16)
    (hb : b.wf) (hpass : b.kuid = o.pass) (hkg : b.kg = o.kg)
    (hfit : ∀ k m, (C.hmac h k m).length + 40 < 65536) :
    (newSession C o rm (honestScript C h o rm b)).2 =
      .ok 1 b.sidc o.auth o.integ o.conf (b.sik C h (received o rm)) (b.k1 C h (received o rm)) (b.k2 C h (received o rm)) := by
  obtain ⟨f2, f4⟩ := fits_of_bound C h hfit b.kuid (b.sik C h (received o rm)) (b.exchange (received o rm))
  have := newSession_live C o rm b hb h hauth hinteg hconf huser hpriv hpass hkg f2 f4
  unfold honestScript
  rw [this]

/-- exactly three datagrams are transmitted, and they are the specification's: Open Session Request (tag 0, the
    requested privilege, console session ID 1, the suite), RAKP 1 (the BMC's session ID, `rm`, role byte, user name)
    and RAKP 3 (status 00, the BMC's session ID, the specification's RAKP 3 code — the one the BMC expects), each in
    the null-session RMCP+ wrapper with payload types 10h, 12h, 14h -/
theorem transmits_spec_datagrams (C : Ops) (o : Opts) (rm : Bytes) (b : Spec.BmcSide) (h : HashAlg)
    (hauth : authHash o.auth = some h) (hinteg : o.integ = 1 ∨ o.integ = 2 ∨ o.integ = 4) (hconf : o.conf = 1)
    (huser : o.user.length ≤ 16) (hpriv : o.priv.toNat < 16)
    (hb : b.wf) (hpass : b.kuid = o.pass) (hkg : b.kg = o.kg)
    (hfit : ∀ k m, (C.hmac h k m).length + 40 < 65536) :
    (newSession C o rm (honestScript C h o rm b)).1 =
      [Spec.sessionless 0x10 (Spec.openSessionRequest 0 o.priv 1 o.auth o.integ o.conf),
       Spec.sessionless 0x12 (Spec.rakp1 0 b.sidc rm (roleByte o) o.user),
       Spec.sessionless 0x14 (Spec.rakp3 0 0 b.sidc (Spec.rakp3Code C h o.pass (exchangeWith o rm b)))] ∧
    Spec.rakp3Code C h o.pass (exchangeWith o rm b) = b.expectedRakp3 C h (received o rm) := by
  obtain ⟨f2, f4⟩ := fits_of_bound C h hfit b.kuid (b.sik C h (received o rm)) (b.exchange (received o rm))
  have := newSession_live C o rm b hb h hauth hinteg hconf huser hpriv hpass hkg f2 f4
  have e : Spec.rakp3Code C h o.pass (exchangeWith o rm b) = b.expectedRakp3 C h (received o rm) := by
    simp only [Spec.BmcSide.expectedRakp3, hpass]; rfl
  refine ⟨?_, e⟩
  unfold honestScript
  rw [this, e]

/-- every lawful hash (HMAC output = the algorithm's digest size) satisfies `hfit` -/
theorem hfit_of_lawful (C : Ops) (hC : C.Lawful) (h : HashAlg) : ∀ k m, (C.hmac h k m).length + 40 < 65536 := by
  intro k m; rw [hC.hmac_len]; cases h <;> decide

/-- the hypotheses are satisfiable (suite 17: SHA256 / SHA256-128 / AES; K_G set; name-only lookup; a 5-byte user) … -/
example :
    let o : Opts := { user := [0x61, 0x64, 0x6d, 0x69, 0x6e], pass := [0x70, 0x77], kg := [9, 9, 9], priv := 4, auth := 3, integ := 4, conf := 1 }
    let b : Spec.BmcSide := { kuid := [0x70, 0x77], kg := [9, 9, 9], sidc := 0xa0a2a3a4, rc := List.replicate 16 0xAB, guid := List.replicate 16 0x44 }
    authHash o.auth = some .sha256 ∧ (o.integ = 1 ∨ o.integ = 2 ∨ o.integ = 4) ∧ o.conf = 1 ∧ o.user.length ≤ 16 ∧
      o.priv.toNat < 16 ∧ b.wf ∧ b.kuid = o.pass ∧ b.kg = o.kg := by decide

/-- … by a lawful hash as well … -/
example : ∀ k m, (Crypto.toy.hmac .sha256 k m).length + 40 < 65536 := hfit_of_lawful _ Crypto.toy_lawful _

/-- … and the model, evaluated by the kernel on that instance (independently of the theorems above), does return the
    session after three transmissions -/
example :
    let o : Opts := { user := [0x61, 0x64, 0x6d, 0x69, 0x6e], pass := [0x70, 0x77], kg := [9, 9, 9], priv := 4, auth := 3, integ := 4, conf := 1 }
    let b : Spec.BmcSide := { kuid := [0x70, 0x77], kg := [9, 9, 9], sidc := 0xa0a2a3a4, rc := List.replicate 16 0xAB, guid := List.replicate 16 0x44 }
    let r := newSession Crypto.toy o (List.replicate 16 7) (honestScript Crypto.toy .sha256 o (List.replicate 16 7) b)
    r.1.length = 3 ∧ r.2 = .ok 1 0xa0a2a3a4 3 4 1 (List.replicate 32 0) (List.replicate 32 0) (List.replicate 32 0) := by
  decide +kernel

/-- a BMC holding ANOTHER password does not get a session (non-vacuity of `hpass`; toy hash keyed visibly) -/
example :
    let C : Ops := { Crypto.toy with hmac := fun _ k _ => k }
    let o : Opts := { user := [0x61], pass := [0x70, 0x77], priv := 4, auth := 1, integ := 1, conf := 1 }
    let b : Spec.BmcSide := { kuid := [0x70, 0x78], sidc := 5, rc := List.replicate 16 0xAB, guid := List.replicate 16 0x44 }
    (newSession C o (List.replicate 16 7) (honestScript C .sha1 o (List.replicate 16 7) b)).2 = .incorrectPassword := by
  decide +kernel

-- the response is returned to the caller -----------------------------------------------------------------------------

/-- RESPONSE RETURNED (last clause of C01): when the BMC answers a command with the specification's response datagram
    (`responseDatagram`: response message with the request's NetFn + 1, command, sequence and group / OEM prefix, any
    completion code `cc` other than the two temporary ones and any body `data`; AES-CBC under K2 with any 16-byte IV;
    wrapped for the console's session ID with any sequence number; AuthCode under K1) the command completes after ONE
    transmission and the caller receives exactly `cc` and `data` — for every lawful cipher/hash, key set, command,
    counter value and whatever the script holds afterwards -/
theorem response_returned (C : Ops) (hC : C.Lawful) (c : Cmd) (hf : c.reqFails = false) (s : Sess)
    (iv : Bytes) (ivs : List Bytes) (cc : UInt8) (data : Bytes) (seq : Nat) (riv : Bytes) (rest : List Outcome)
    (hriv : riv.length = 16) (hm : (responseMsg c cc).WF) (hid : s.localID < 4294967296) (hseq : seq < 4294967296)
    (hlen : (responseAes C s.keys c cc data riv).length < 65536) (hnt : isTemp cc = false) :
    (sendLoop C c s (iv :: ivs) (.reply (responseDatagram C s.keys c cc data seq riv) :: rest)).2 =
      ([datagramOf C s.keys c s.inbound iv], .ok cc data) := by
  rw [sendLoop_reply C c hf, classify_response C hC s.keys c cc data seq riv hriv hm hid hseq hlen, hnt]
  simp only [Bool.false_eq_true, if_false, attempt_init_eq]

/-- the response message of every request the library can build is well-formed: the hypothesis `hm` above holds for
    every even (request) NetFn below 63, LUN below 4, enterprise number below 2^24, with the group body / enterprise
    fields used only by the group / OEM NetFns — which is how `requestMessage` fills them -/
theorem responseMsg_wf (c : Cmd) (cc : UInt8) (hfn : c.fn.toNat < 63) (heven : c.fn.toNat % 2 = 0) (hlun : c.lun.toNat < 4)
    (hent : c.ent < 16777216) (hb : isGroup (c.fn + 1) = false → c.body = 0) (he : isOEM (c.fn + 1) = false → c.ent = 0) :
    (responseMsg c cc).WF := by
  have h1 : (c.fn + 1).toNat = c.fn.toNat + 1 := by
    rw [UInt8.toNat_add]; simp; omega
  refine ⟨by show (c.fn + 1).toNat < 64; omega, by show (0 : UInt8).toNat < 4; decide, hlun, by show (1 : UInt8).toNat < 64; decide,
    hent, hb, he, fun h => ?_⟩
  exfalso
  have : isRequest (c.fn + 1) = false := by
    simp only [isRequest, beq_eq_false_iff_ne, ne_eq]
    intro h0
    have := congrArg UInt8.toNat h0
    rw [UInt8.toNat_mod, h1] at this
    simp at this
    omega
  simp [responseMsg, this] at h

/-- non-vacuity: Get Device ID answered with completion code 00 and an 11-byte body under the toy crypto -/
example :
    (sendLoop Crypto.toy { fn := 6, cmd := 1 } { localID := 7, remoteID := 9, integ := 1, k1 := [1], k2 := List.replicate 16 0 }
      [List.replicate 16 3] [.reply (responseDatagram Crypto.toy ⟨7, 9, 1, [1], List.replicate 16 0⟩ { fn := 6, cmd := 1 } 0
        [0x20, 1, 2, 3, 2, 0xbf, 0, 0, 0, 0, 0] 5 (List.replicate 16 4))]).2.2 = .ok 0 [0x20, 1, 2, 3, 2, 0xbf, 0, 0, 0, 0, 0] := by
  decide +kernel

-- liveness under loss ---------------------------------------------------------------------------------------------------

/-- LIVENESS UNDER LOSS: the handshake with the conforming BMC still succeeds — same session, same keys — when any number
    of replies are lost, or arrive truncated / garbled so that they do not decode down to a session wrapper, before each
    of the BMC's three replies (the library retransmits; C10 `handshake_payload_retries` says what) -/
theorem handshake_succeeds_despite_loss (C : Ops) (o : Opts) (rm : Bytes) (b : Spec.BmcSide) (h : HashAlg)
    (hauth : authHash o.auth = some h) (hinteg : o.integ = 1 ∨ o.integ = 2 ∨ o.integ = 4) (hconf : o.conf = 1)
    (huser : o.user.length ≤ 16) (hpriv : o.priv.toNat < 16)
    (hb : b.wf) (hpass : b.kuid = o.pass) (hkg : b.kg = o.kg)
    (hfit : ∀ k m, (C.hmac h k m).length + 40 < 65536)
    (j1 j2 j3 tail : List Outcome) (h1 : ∀ x ∈ j1, Skipped x) (h2 : ∀ x ∈ j2, Skipped x) (h3 : ∀ x ∈ j3, Skipped x) :
    (newSession C o rm (j1 ++ .reply (b.openSessionReply (received o rm)) :: (j2 ++ .reply (b.rakp2Reply C h (received o rm)) ::
        (j3 ++ .reply (b.rakp4Reply C h (received o rm)) :: tail)))).2 =
      .ok 1 b.sidc o.auth o.integ o.conf (b.sik C h (received o rm)) (b.k1 C h (received o rm)) (b.k2 C h (received o rm)) := by
  obtain ⟨f2, f4⟩ := fits_of_bound C h hfit b.kuid (b.sik C h (received o rm)) (b.exchange (received o rm))
  rw [newSession_skips C o rm j1 j2 j3 _ _ _ tail h1 h2 h3 (open_not_retry o rm b) (rakp2_not_retry C o rm b hb h f2)
    (rakp4_not_retry C o rm b h f4)]
  exact keys_agree C o rm b h hauth hinteg hconf huser hpriv hb hpass hkg hfit

/-- lost replies and truncated replies are among the skipped outcomes (non-vacuity of `Skipped`) -/
theorem lost_and_truncated_are_skipped (ptype : UInt8) (hpt : ptype.toNat < 64) (hoem : ptype ≠ 2) (payload : Bytes)
    (hlen : payload.length < 65536) (n : Nat) (hn : n < (Spec.sessionless ptype payload).length) :
    Skipped .lost ∧ Skipped (.reply ((Spec.sessionless ptype payload).take n)) :=
  ⟨Or.inl rfl, Or.inr ⟨_, rfl, truncated_setup_reply_is_retry ptype hpt hoem payload hlen n hn⟩⟩

-- console ∥ conforming BMC, command after command -----------------------------------------------------------------------
open Bmc.Spec Bmc.Proofs.C03 in
/-- what makes one exchange well-posed: a 16-byte IV on both sides, a well-formed request (even NetFn < 63, LUN < 4, …)
    that fits a datagram, a BMC answer (completion code `cc`, data) that is not one of the two temporary codes and
    fits a datagram -/
structure Exchange (C : Ops) (k : Keys) (c : Cmd) (iv biv : Bytes) (cc : UInt8) (data : Bytes) : Prop where
  ser : c.reqFails = false
  ivLen : iv.length = 16
  bivLen : biv.length = 16
  req : (requestMessage c).WF
  isReq : isRequest c.fn = true
  fits : (aesPayload C k c iv).length < 65536
  rsp : (responseMsg c cc).WF
  rfits : (responseAes C k c cc data biv).length < 65536
  final : isTemp cc = false

open Bmc.Spec Bmc.Proofs.C03 in
/-- COMMAND ANSWERED: the console's datagram for ANY command passes the conforming BMC's integrity check, decryption
    and message checks; the BMC reads out of it exactly the caller's command (NetFn, number, prefix, LUN, body, with
    sequence number counter + 1); and the datagram the BMC sends back — whatever its handler answers — is accepted by
    the console, which returns the handler's completion code and data after ONE transmission. Every lawful crypto,
    key set, counter value, BMC sequence number and IVs. -/
theorem command_answered (C : Ops) (hC : C.Lawful) (c : Cmd) (s : Sess) (hid : s.localID < 4294967296)
    (hr : s.remoteID < 4294967296) (iv : Bytes) (ivs : List Bytes) (handler : BmcReq → UInt8 × Bytes) (bseq : Nat)
    (hb : bseq < 4294967296) (biv : Bytes) (rest : List Outcome)
    (hx : Exchange C s.keys c iv biv
            (handler ⟨(s.inbound + 1) % 4294967296, c.fn, c.cmd, c.body, c.ent, c.lun, c.req⟩).1
            (handler ⟨(s.inbound + 1) % 4294967296, c.fn, c.cmd, c.body, c.ent, c.lun, c.req⟩).2) :
    ∃ reply, bmcAnswer C s.keys handler bseq biv (datagramOf C s.keys c s.inbound iv) = some reply ∧
      (sendLoop C c s (iv :: ivs) (.reply reply :: rest)).2 =
        ([datagramOf C s.keys c s.inbound iv],
         .ok (handler ⟨(s.inbound + 1) % 4294967296, c.fn, c.cmd, c.body, c.ent, c.lun, c.req⟩).1
             (handler ⟨(s.inbound + 1) % 4294967296, c.fn, c.cmd, c.body, c.ent, c.lun, c.req⟩).2) := by
  have hopen := bmc_opens_request C hC s.keys hr c s.inbound iv hx.ivLen hx.req hx.isReq hx.fits
  refine ⟨_, by simp only [bmcAnswer, hopen, Option.map_some]; rfl, ?_⟩
  exact response_returned C hC c hx.ser s iv ivs _ _ bseq biv rest hx.bivLen hx.rsp hid hb hx.rfits hx.final

open Bmc.Spec Bmc.Proofs.C03 in
/-- the console and the conforming BMC in conversation: command after command on one session, each datagram handed
    to the BMC, the BMC's answer handed back (a packet the BMC drops ends the command with a transport error) -/
def converse (C : Ops) (handler : BmcReq → UInt8 × Bytes) : Sess → Nat → List (Cmd × Bytes × Bytes) → List Res
  | _, _, [] => []
  | s, bseq, (c, iv, biv) :: rest =>
    match bmcAnswer C s.keys handler bseq biv (datagramOf C s.keys c s.inbound iv) with
    | none => [.transportErr]
    | some reply =>
      let r := sendLoop C c s [iv] [.reply reply]
      r.2.2 :: converse C handler r.1 (bseq + 1) rest

open Bmc.Spec Bmc.Proofs.C03 in
/-- what the caller must receive: for each command in turn the BMC handler's answer to that very command, understood
    with the next sequence number (counter + 1, then + 2, …, modulo 2^32) -/
def answers (handler : BmcReq → UInt8 × Bytes) : Nat → List (Cmd × Bytes × Bytes) → List Res
  | _, [] => []
  | inb, (c, _, _) :: rest =>
    let q : BmcReq := ⟨(inb + 1) % 4294967296, c.fn, c.cmd, c.body, c.ent, c.lun, c.req⟩
    Res.ok (handler q).1 (handler q).2 :: answers handler ((inb + 1) % 4294967296) rest

open Bmc.Spec Bmc.Proofs.C03 in
/-- EVERY COMMAND OF A SESSION IS ANSWERED (C01, last sentence, for histories of any length): on a session whose keys
    both sides hold (`keys_agree`), every command of any sequence of well-posed commands passes the BMC's integrity
    check and decryption, is understood as the caller's command with the next sequence number, and the caller receives
    exactly the BMC handler's completion code and data for it — for every lawful crypto, any starting counter and BMC
    sequence number, any handler. -/
theorem all_commands_answered (C : Ops) (hC : C.Lawful) (handler : BmcReq → UInt8 × Bytes) (s : Sess)
    (hs : s.inbound < 4294967296) (hid : s.localID < 4294967296) (hr : s.remoteID < 4294967296) (bseq : Nat)
    (cmds : List (Cmd × Bytes × Bytes)) (hb : bseq + cmds.length < 4294967296)
    (hx : ∀ e ∈ cmds, ∀ q : Nat, Exchange C s.keys e.1 e.2.1 e.2.2
            (handler ⟨q, e.1.fn, e.1.cmd, e.1.body, e.1.ent, e.1.lun, e.1.req⟩).1
            (handler ⟨q, e.1.fn, e.1.cmd, e.1.body, e.1.ent, e.1.lun, e.1.req⟩).2) :
    converse C handler s bseq cmds = answers handler s.inbound cmds := by
  induction cmds generalizing s bseq with
  | nil => simp [converse, answers]
  | cons e rest ih =>
    obtain ⟨c, iv, biv⟩ := e
    have hx0 := hx (c, iv, biv) (by simp) ((s.inbound + 1) % 4294967296)
    obtain ⟨reply, hans, hsend⟩ := command_answered C hC c s hid hr iv [] handler bseq (by simp at hb; omega) biv [] hx0
    have hspec := sendLoop_spec C c hx0.ser s hs [iv] [.reply reply] (by simp)
    have hcls : (expected (classify C s.keys c) [.reply reply]).1 = 1 := by
      have h2 := hspec.2.1
      rw [hsend] at h2
      simp only [] at h2
      have := congrArg List.length h2
      simpa using this.symm
    have hk : (sendLoop C c s [iv] [.reply reply]).1.keys = s.keys := hspec.2.2.1
    have hi : (sendLoop C c s [iv] [.reply reply]).1.inbound = (s.inbound + 1) % 4294967296 := by
      rw [hspec.2.2.2, hcls]
    simp only [converse, hans, answers]
    have hrec := ih (sendLoop C c s [iv] [.reply reply]).1 (by rw [hi]; omega)
      (by have h := congrArg Keys.localID hk; simp only [Sess.keys] at h; rw [h]; exact hid)
      (by have h := congrArg Keys.remoteID hk; simp only [Sess.keys] at h; rw [h]; exact hr)
      (bseq + 1) (by simp at hb ⊢; omega)
      (fun e he q => by rw [hk]; exact hx e (by simp [he]) q)
    rw [hrec, hsend, hi]

open Bmc.Spec Bmc.Proofs.C03 in
/-- the session state `newV2Session` builds from a successful handshake: IDs, negotiated integrity algorithm, K1 for the
    integrity hash and the first 16 bytes of K2 for AES (hasher.go, confidentiality.go) -/
def sessionOf (l r : Nat) (i : UInt8) (k1 k2 : Bytes) : Sess :=
  { localID := l, remoteID := r, integ := i.toNat, k1 := k1, k2 := k2.take 16 }

open Bmc.Spec Bmc.Proofs.C03 in
/-- C01 END TO END: open a session against the conforming BMC holding the same credentials (`handshake_succeeds`), then
    issue ANY sequence of well-posed commands: the handshake returns the session with the BMC's keys, and every command
    is accepted by the BMC — which checks integrity and decrypts with ITS OWN K1 / K2 (`BmcSide.k1`, `k2`, derived from
    the fields it received) — and answered to the caller with the BMC handler's completion code and data. -/
theorem session_then_commands (C : Ops) (hC : C.Lawful) (o : Opts) (rm : Bytes) (b : Spec.BmcSide) (h : HashAlg)
    (hauth : authHash o.auth = some h) (hinteg : o.integ = 1 ∨ o.integ = 2 ∨ o.integ = 4) (hconf : o.conf = 1)
    (huser : o.user.length ≤ 16) (hpriv : o.priv.toNat < 16)
    (hb : b.wf) (hpass : b.kuid = o.pass) (hkg : b.kg = o.kg) (hsid : b.sidc < 4294967296)
    (handler : BmcReq → UInt8 × Bytes) (bseq : Nat) (cmds : List (Cmd × Bytes × Bytes)) (hbs : bseq + cmds.length < 4294967296)
    (hx : ∀ e ∈ cmds, ∀ q : Nat,
      Exchange C (sessionOf 1 b.sidc o.integ (b.k1 C h (received o rm)) (b.k2 C h (received o rm))).keys e.1 e.2.1 e.2.2
        (handler ⟨q, e.1.fn, e.1.cmd, e.1.body, e.1.ent, e.1.lun, e.1.req⟩).1
        (handler ⟨q, e.1.fn, e.1.cmd, e.1.body, e.1.ent, e.1.lun, e.1.req⟩).2) :
    (newSession C o rm (honestScript C h o rm b)).2 =
      .ok 1 b.sidc o.auth o.integ o.conf (b.sik C h (received o rm)) (b.k1 C h (received o rm)) (b.k2 C h (received o rm)) ∧
    converse C handler (sessionOf 1 b.sidc o.integ (b.k1 C h (received o rm)) (b.k2 C h (received o rm))) bseq cmds =
      answers handler 0 cmds :=
  ⟨keys_agree C o rm b h hauth hinteg hconf huser hpriv hb hpass hkg (hfit_of_lawful C hC h),
   all_commands_answered C hC handler _ (by show (0 : Nat) < 4294967296; omega) (by show (1 : Nat) < 4294967296; omega) hsid bseq cmds hbs hx⟩

/-- non-vacuity: two commands (Get Device ID, then Get Chassis Status) against a BMC whose handler answers 00 + the
    command number, under the toy crypto: the caller receives exactly that, for both -/
example :
    let k : Sess := { localID := 7, remoteID := 9, integ := 1, k1 := [1], k2 := List.replicate 16 0 }
    converse Crypto.toy (fun r => (0, [r.cmd])) k 100
      [({ fn := 6, cmd := 1 }, List.replicate 16 3, List.replicate 16 4), ({ fn := 0, cmd := 1 }, List.replicate 16 5, List.replicate 16 6)]
      = [.ok 0 [1], .ok 0 [1]] := by decide +kernel

end Bmc.Proofs.C01
