import Bmc.Proofs.GenOrch.DetermineCipherSuite
import Bmc.Proofs.C12
/-! # C12, first sentence, stated about `determineCipherSuite` AS REGENERATED on this run

`Proofs/GenOrch/DetermineCipherSuite.lean`: the translation of `determineCipherSuite` (with `RetrieveSupportedCipherSuites` and
`parseCipherSuiteRecordData` underneath, all translated from the Go source on every run) equals the hand model `determineFull`.
`Proofs/C12.first_advertised_preference` is stated about `determineFull`. Composed: when the BMC serves the specification's
encoding of ANY list of well-formed cipher-suite records (split over 16-byte pages), and the caller names at least two
preferences, a proposal made by the TRANSLATED code is the first preference that some record advertises. -/
namespace Bmc.Proofs.EndToEnd
open Bmc Bmc.Proto Bmc.Proto.Enum Bmc.Spec.Enum Bmc.Lemmas.Enum Bmc.GoOrch Bmc.Gen.Orch Bmc.Lemmas.GenOrch Bmc.Lemmas.GenOrchSuites

/-- the chunk loop only ever asks for list indices 0 … 63 -/
theorem retrieveLoop_congr (limit : Nat) (page page' : Nat → Option Bytes) (h : ∀ w, w < 64 → page w = page' w) :
    ∀ (f i : Nat) (buf : Bytes), retrieveLoop limit page f i buf = retrieveLoop limit page' f i buf := by
  intro f
  induction f with
  | zero => intro i buf; rfl
  | succ f ih =>
    intro i buf
    simp only [retrieveLoop]
    rw [h (i % 64) (Nat.mod_lt _ (by decide))]
    cases page' (i % 64) with
    | none => rfl
    | some chunk =>
      simp only []
      split
      · rfl
      · rw [ih]

theorem determineFull_congr (prefs : List Suite) (page page' : Nat → Option Bytes) (h : ∀ w, w < 64 → page w = page' w) :
    determineFull prefs page = determineFull prefs page' := by
  unfold determineFull discovered retrieveSupportedCipherSuites retrieveSupportedCipherSuitesL retrieveChunksL
  rw [retrieveLoop_congr 63 page page' h]

theorem generated_determineCipherSuite_first_preference (b : TBmc) (junk : Junk) (fuel : Nat) (hf : 64 ≤ fuel) (tail : Bytes)
    (prefs : List Gen.Dec.CipherSuite) (log : List GetChannelCipherSuitesReq) (h2 : 2 ≤ prefs.length)
    (ch : UInt8) (hch : ch.toNat < 16) (rs : List Record) (hw : ∀ r ∈ rs, r.wf) (hlen : (encodeRecords rs).length < 1024)
    (hb : ∀ w, w < 64 → pageOf b w = pageOfBody (fun i => some (pageBody ch (encodeRecords rs) i)) w)
    (p : Gen.Dec.CipherSuite)
    (hres : (bmc_V2SessionlessTransport_determineCipherSuite fuel (ansOf b junk) tail prefs log).1 = .ok p) :
    viewSuite p ∈ prefs.map viewSuite ∧
    (∃ r ∈ rs, ∃ e ∈ expand r, suiteOfEntry (view e) = viewSuite p) ∧
    ∀ q ∈ (prefs.map viewSuite).takeWhile (· ≠ viewSuite p), ¬ ∃ r ∈ rs, ∃ e ∈ expand r, suiteOfEntry (view e) = q := by
  obtain ⟨h1, _⟩ := Bmc.Proofs.GenOrch.determineCipherSuite_gen_eq b junk fuel hf tail prefs log
  rw [hres, determineFull_congr _ _ _ hb] at h1
  have hlen2 : 2 ≤ (prefs.map viewSuite).length := by simpa using h2
  cases hd : determineFull (prefs.map viewSuite) (pageOfBody fun i => some (pageBody ch (encodeRecords rs) i)) with
  | propose s d =>
    rw [hd] at h1
    simp only [RF.map, resultOf, RF.lift] at h1
    injection h1 with h1
    subst h1
    have hdisc : d = true := by
      have := Bmc.Proofs.C12.discovery_then_choice (prefs.map viewSuite) ch hch rs hw hlen
      rw [this] at hd
      rcases hp : prefs.map viewSuite with _ | ⟨a, _ | ⟨b', t⟩⟩
      · rw [hp] at hlen2; simp at hlen2
      · rw [hp] at hlen2; simp at hlen2
      · rw [hp] at hd
        simp only [determine, List.isEmpty_cons, Bool.false_eq_true, if_false] at hd
        cases hf' : List.find? (fun p => (List.map suiteOfEntry (List.map view (List.flatMap expand rs))).contains p) (a :: b' :: t) with
        | none => rw [hf'] at hd; cases hd
        | some q => rw [hf'] at hd; injection hd with _ hd; exact hd.symm
    subst hdisc
    exact Bmc.Proofs.C12.first_advertised_preference (prefs.map viewSuite) hlen2 ch hch rs hw hlen (viewSuite p) hd
  | _ => rw [hd] at h1; simp [RF.map, resultOf, RF.lift] at h1

/-- ONE preference: `determineCipherSuite` AS TRANSLATED ON THIS RUN proposes it and asks the BMC nothing — for EVERY BMC -/
theorem generated_determineCipherSuite_single (b : TBmc) (junk : Junk) (fuel : Nat) (hf : 64 ≤ fuel) (tail : Bytes)
    (p : Gen.Dec.CipherSuite) (log : List GetChannelCipherSuitesReq) :
    (bmc_V2SessionlessTransport_determineCipherSuite fuel (ansOf b junk) tail [p] log).1.map viewSuite = RF.ok (viewSuite p) ∧
    (bmc_V2SessionlessTransport_determineCipherSuite fuel (ansOf b junk) tail [p] log).2.map viewReq = log.map viewReq := by
  obtain ⟨h1, h2⟩ := Bmc.Proofs.GenOrch.determineCipherSuite_gen_eq b junk fuel hf tail [p] log
  have e : determineFull ([p].map viewSuite) (pageOf b) = .propose (viewSuite p) false := rfl
  rw [e] at h1 h2
  exact ⟨h1, by simpa [discoveryRan] using h2⟩

/-- NO preference, against a BMC serving the encoding of any well-formed records: the translated code proposes suite 17 when it
    is advertised, else suite 3 when that is, else nothing (the library's documented defaults, `C12.defaults`) -/
theorem generated_determineCipherSuite_defaults (b : TBmc) (junk : Junk) (fuel : Nat) (hf : 64 ≤ fuel) (tail : Bytes)
    (log : List GetChannelCipherSuitesReq) (ch : UInt8) (hch : ch.toNat < 16) (rs : List Record) (hw : ∀ r ∈ rs, r.wf)
    (hlen : (encodeRecords rs).length < 1024)
    (hb : ∀ w, w < 64 → pageOf b w = pageOfBody (fun i => some (pageBody ch (encodeRecords rs) i)) w) :
    let adv := ((rs.flatMap expand).map view).map suiteOfEntry
    (bmc_V2SessionlessTransport_determineCipherSuite fuel (ansOf b junk) tail [] log).1.map viewSuite =
      RF.lift (resultOf
        (if adv.contains ⟨3, 4, 1⟩ then .propose ⟨3, 4, 1⟩ true
         else if adv.contains ⟨1, 1, 1⟩ then .propose ⟨1, 1, 1⟩ true else .noSupported)) := by
  intro adv
  obtain ⟨h1, _⟩ := Bmc.Proofs.GenOrch.determineCipherSuite_gen_eq b junk fuel hf tail [] log
  rw [show ([] : List Gen.Dec.CipherSuite).map viewSuite = [] from rfl, determineFull_congr _ _ _ hb,
    Bmc.Proofs.C12.discovery_then_choice [] ch hch rs hw hlen, Bmc.Proofs.C12.defaults] at h1
  exact h1

/-- the hypothesis on the BMC is satisfiable: e.g. a BMC holding the records of suites 3 and 17 plus an OEM record, answering
    every list index with the corresponding 16-byte page -/
example : ∃ b : TBmc, ∀ w, w < 64 →
    pageOf b w = pageOfBody (fun i => some (pageBody 14 (encodeRecords
      [⟨3, none, 1, [1], [1]⟩, ⟨0x80, some 0x2A2, 1, [1, 2], [1]⟩, ⟨17, none, 3, [4], [1]⟩]) i)) w :=
  ⟨fun q => some { channel := 14, cipherSuiteRecordsChunk := page (encodeRecords
      [⟨3, none, 1, [1], [1]⟩, ⟨0x80, some 0x2A2, 1, [1, 2], [1]⟩, ⟨17, none, 3, [4], [1]⟩]) (q.listIndex.toNat % 64) }, by decide⟩

end Bmc.Proofs.EndToEnd
