import Bmc.Proofs.GenLoops.BuildAndSendCommand
import Bmc.Proofs.C06
import Bmc.Proofs.C10
import Bmc.Lemmas.ApiSessionless
import Bmc.Proofs.GenLoops.BuildAndSendPayload
import Bmc.Lemmas.RequestsPacket
/-! # C06 (the whole datagram), about the session-less `SendCommand` AS REGENERATED on this run -/
namespace Bmc.Proofs.EndToEnd
open Bmc Bmc.Wire Bmc.Crypto Bmc.Proto Bmc.GoOrch Bmc.GoLoops Bmc.Gen.Loops Bmc.Lemmas.GenLoops Bmc.Proofs.GenLoops

/-- EVERY datagram the session-less `SendCommand` AS TRANSLATED ON THIS RUN hands to the transport — first transmission and every
    retransmission, whatever the BMC answers — parses under the independent reference parser as: RMCP (version 6, sequence FFh, class
    IPMI), v2.0 wrapper with payload type IPMI and the null session, and an IPMI message with valid checksums addressed 20h ← 81h
    carrying exactly the command's NetFn, LUN, command number, group-extension byte / OEM IANA and request data. -/
theorem generated_sessionless_datagram_parses (c : Proto.Cmd) (hc : c.ent < 4294967296) (hf : c.reqFails = false)
    (hop : ({ function := c.fn, body := c.body, enterprise := c.ent, command := c.cmd } : Req.Operation).wf) (hl : c.lun.toNat < 4)
    (hb : Req.bodyFits c.req) (script : List Outcome) (fuel : Nat) (hfu : script.length + 1 ≤ fuel) (bd : Bytes → Bool)
    (name : String) (rsp : Opaque) (ivs : List Bytes) (K : Conn Decoded) :
    ∀ p ∈ (V2Sessionless_SendCommand (slWorld c bd) fuel (cmdOf c name rsp) ({ ivs := ivs, script := script, sent := [] }, K)).2.1.sent,
      Spec.Req.parsePacket p =
        some { payloadType := 0, sessionID := 0, sequence := 0
               ipmi := some { rsAddr := 0x20, netFn := c.fn.toNat, rsLUN := c.lun.toNat, rqAddr := 0x81, rqSeq := 1
                              rqLUN := 0, cmd := c.cmd.toNat
                              ext := if c.fn = 0x2C then .group c.body.toNat else if c.fn = 0x2E then .oem c.ent else .none }
               body := c.req } := by
  intro p hp
  obtain ⟨h1, _, _⟩ := V2Sessionless_SendCommand_gen_eq c hc script fuel hfu bd name rsp ivs [] K
  simp only [List.nil_append] at h1
  rw [h1, (Proofs.C10.sessionless_send_refines c hf script).2] at hp
  have e : p = (slSerialize c).2 := List.eq_of_mem_replicate hp
  rw [e, slSerialize_packet]
  exact Proofs.C06.packet_parses _ c.lun c.req hop hl hb

/-- … and EVERY datagram `buildAndSendPayload` AS TRANSLATED ON THIS RUN hands to the transport for an RMCP+ set-up payload (Open
    Session Request 10h, RAKP Message 1 12h, RAKP Message 3 14h — any payload type other than IPMI / OEM-explicit, any payload
    shorter than 65 536 bytes), retransmissions included, parses as: RMCP header, wrapper with THAT payload type, the null session,
    no IPMI message, and exactly that payload. -/
theorem generated_payload_datagram_parses (ptype : UInt8) (payload : Bytes) (hpt : ptype.toNat < 64) (h0 : ptype ≠ 0) (h2 : ptype ≠ 2)
    (hb : payload.length < 65536) (script : List Outcome) (fuel : Nat) (hfu : script.length + 1 ≤ fuel) (bd : Bytes → Bool)
    (rsp : Opaque) (ivs : List Bytes) (K : Conn Decoded) :
    ∀ p ∈ (V2Sessionless_buildAndSendPayload (plWorld payload false bd) fuel (plOf ptype rsp)
            ({ ivs := ivs, script := script, sent := [] }, K)).2.1.sent,
      Spec.Req.parsePacket p = some { payloadType := ptype.toNat, sessionID := 0, sequence := 0, ipmi := none, body := payload } := by
  intro p hp
  obtain ⟨h1, _⟩ := V2Sessionless_buildAndSendPayload_gen_eq ptype payload script fuel hfu bd rsp ivs [] K
  simp only [List.nil_append] at h1
  rw [h1] at hp
  rw [List.eq_of_mem_replicate hp, Wire.Req.setupDatagram_eq]
  exact Proofs.C06.payload_packet_parses ptype payload hpt h0 h2 hb

end Bmc.Proofs.EndToEnd
