import Bmc.Proofs.EndToEnd.SessionlessC10
import Bmc.Proofs.C09
import Bmc.Proofs.C11
/-! # Session-less connections, HISTORY form, about the session-less `SendCommand` AS REGENERATED on this run

A session-less connection (`V2SessionlessTransport`) is used for many commands one after another — the capability and cipher-suite
discovery, Get System GUID, then the handshake — and the translated code threads one connection value (layer structs, buffer,
decoded-layer list, metric events) through all of them. `generated_sessionless_history`: call for call, what is sent and what is
returned is the documented contract OF THAT CALL ALONE — `slExpected`-many copies of that command's one serialisation, that
contract's result — whatever the earlier calls on the connection were, sent, received or failed with, and whatever value the
connection started from (C10 per call; C17: nothing of an earlier exchange shows in a later one; C09: every datagram is the
session-less serialisation, null session ID and sequence number — `C09.sessionless_null`). -/
namespace Bmc.Proofs.EndToEnd
open Bmc Bmc.Wire Bmc.Crypto Bmc.Proto Bmc.GoOrch Bmc.GoLoops Bmc.Gen.Loops Bmc.Lemmas.GenLoops Bmc.Proofs.GenLoops

/-- (command, its name, its response layer, what happens to each transmission) -/
abbrev SlItem := Cmd × String × Opaque × List Outcome

/-- per call: (datagrams handed to the transport, what the call returned) -/
def generatedSlHistory (bd : Bytes → Bool) (fuel : Nat) : Conn Decoded → List SlItem → List (List Bytes × RF (UInt8 × Option GoErr))
  | _, [] => []
  | K, (c, name, rsp, script) :: rest =>
    let r := V2Sessionless_SendCommand (slWorld c bd) fuel (cmdOf c name rsp) ({ ivs := [], script := script, sent := [] }, K)
    (r.2.1.sent, r.1) :: generatedSlHistory bd fuel r.2.2 rest

/-- the documented contract of one call -/
def slContract (bd : Bytes → Bool) (e : SlItem) : List Bytes × RF (UInt8 × Option GoErr) :=
  (List.replicate (slExpected (slClassify e.1) e.2.2.2).1 (slSerialize e.1).2,
   match (slExpected (slClassify e.1) e.2.2.2).2 with
   | .ok cc p => .ok (cc, if e.2.2.1 != 0 ∧ bd p = false then some .response else none)
   | .transportErr => .ok (0, some .transport)
   | .serializeErr => .ok (0, some .serialize)
   | .ctxExpired => .ok (0, some .ctx)
   | .crashed => .panic)

theorem generated_sessionless_history (bd : Bytes → Bool) (fuel : Nat) (h : List SlItem)
    (hok : ∀ e ∈ h, e.1.ent < 4294967296 ∧ e.1.reqFails = false ∧ e.2.2.2.length + 1 ≤ fuel) :
    ∀ K : Conn Decoded, generatedSlHistory bd fuel K h = h.map (slContract bd) := by
  induction h with
  | nil => intro _; rfl
  | cons e rest ih =>
    intro K
    obtain ⟨c, name, rsp, script⟩ := e
    obtain ⟨hc, hf, hfu⟩ := hok (c, name, rsp, script) (by simp)
    simp only [] at hc hf hfu
    obtain ⟨h1, h3⟩ := generated_sessionless_SendCommand_retries c hc hf script fuel hfu bd name rsp [] [] K
    simp only [List.nil_append] at h1
    simp only [generatedSlHistory, List.map_cons, slContract]
    rw [h1, h3, ih (fun e he => hok e (by simp [he]))]
    rfl

/-- hence: the starting value of the connection does not matter -/
theorem generated_sessionless_history_ignores_connection (bd : Bytes → Bool) (fuel : Nat) (h : List SlItem)
    (hok : ∀ e ∈ h, e.1.ent < 4294967296 ∧ e.1.reqFails = false ∧ e.2.2.2.length + 1 ≤ fuel) (K K' : Conn Decoded) :
    generatedSlHistory bd fuel K h = generatedSlHistory bd fuel K' h := by
  rw [generated_sessionless_history bd fuel h hok K, generated_sessionless_history bd fuel h hok K']

/-- … and every datagram of the history carries the null session ID and sequence number -/
theorem generated_sessionless_history_null (bd : Bytes → Bool) (fuel : Nat) (h : List SlItem)
    (hok : ∀ e ∈ h, e.1.ent < 4294967296 ∧ e.1.reqFails = false ∧ e.2.2.2.length + 1 ≤ fuel) (K : Conn Decoded) :
    ∀ x ∈ generatedSlHistory bd fuel K h, ∀ p ∈ x.1, sessionIDOf p = 0 ∧ seqOf p = 0 := by
  rw [generated_sessionless_history bd fuel h hok K]
  intro x hx p hp
  obtain ⟨e, _, rfl⟩ := List.mem_map.mp hx
  simp only [slContract] at hp
  rw [List.eq_of_mem_replicate hp]
  exact Bmc.Proofs.C09.sessionless_null e.1

end Bmc.Proofs.EndToEnd

namespace Bmc.Proofs.EndToEnd
open Bmc Bmc.Wire Bmc.Crypto Bmc.Proto Bmc.GoOrch Bmc.GoLoops Bmc.Gen.Loops Bmc.Lemmas.GenLoops Bmc.Proofs.GenLoops

/-- **C11, session-less history, about the translated code**: whenever a call of the history returns a completion code with a nil
    error, a reply delivered DURING THAT CALL decoded (RMCP, null-session wrapper, checksum-valid message) to a message for THAT
    call's command — network function + 1, command number, group-extension body code, OEM enterprise — with that completion code.
    A reply to an earlier command of the history that arrives late is never a later call's result unless it is a reply to the
    later call's command as well. -/
theorem generated_sessionless_history_results (bd : Bytes → Bool) (fuel : Nat) (h : List SlItem)
    (hok : ∀ e ∈ h, e.1.ent < 4294967296 ∧ e.1.reqFails = false ∧ e.2.2.2.length + 1 ≤ fuel) (K : Conn Decoded) :
    ∀ ex ∈ h.zip (generatedSlHistory bd fuel K h), ∀ cc, ex.2.2 = .ok (cc, none) →
      ∃ d msg, Outcome.reply d ∈ ex.1.2.2.2 ∧ slView (slOnReply {} (GoSlice.ofBytes d)) = (.message, some msg) ∧
        msg.function = ex.1.1.fn + 1 ∧ msg.command = ex.1.1.cmd ∧ msg.body = ex.1.1.body ∧ msg.enterprise = ex.1.1.ent ∧
        msg.completionCode = cc := by
  rw [generated_sessionless_history bd fuel h hok K]
  intro ex hex cc hres
  rw [List.zip_map_right] at hex
  obtain ⟨⟨e, e'⟩, hmem, rfl⟩ := List.mem_map.mp hex
  have he : e = e' := by
    have := List.of_mem_zip hmem
    clear hex hres
    induction h with
    | nil => simp at hmem
    | cons a t ih =>
      simp only [List.zip_cons_cons, List.mem_cons, Prod.mk.injEq] at hmem
      rcases hmem with ⟨rfl, rfl⟩ | hm
      · rfl
      · exact ih (fun x hx => hok x (by simp [hx])) hm (List.of_mem_zip hm)
  subst he
  obtain ⟨_, hf, _⟩ := hok e (List.of_mem_zip hmem).1
  simp only [Prod.map, id, slContract] at hres ⊢
  obtain ⟨e2, _⟩ := Proofs.C10.sessionless_send_refines e.1 hf e.2.2.2
  cases hm : (slExpected (slClassify e.1) e.2.2.2).2 with
  | ok cc' p =>
    rw [hm] at hres
    simp only [RF.ok.injEq, Prod.mk.injEq] at hres
    obtain ⟨rfl, _⟩ := hres
    rw [← e2] at hm
    obtain ⟨d, msg, h1, h2, h3, h4, h5, h6, h7, _⟩ := Proofs.C11.sessionless_result_matches_request e.1 hf e.2.2.2 _ _ hm
    exact ⟨d, msg, h1, h2, h3, h4, h5, h6, h7⟩
  | transportErr => rw [hm] at hres; simp at hres
  | serializeErr => rw [hm] at hres; simp at hres
  | ctxExpired => rw [hm] at hres; simp at hres
  | crashed => rw [hm] at hres; simp at hres

end Bmc.Proofs.EndToEnd
