import Bmc.Proofs.EndToEnd.HistoryC03
import Bmc.Lemmas.RequestsPacket
/-! # C06, HISTORY form (in-session requests), about `SendCommand` AS REGENERATED on this run

`HistoryC03` opens every datagram of a session history down to the serialised IPMI message with the library's own decoder. C06 is
about the ENCODING as the specification defines it: here the decrypted message bytes are read by the reference parser
`Spec.Req.parseMessage` — written from the specification's tables, independent of the library's layers — and it reads, for every
datagram the translated `SendCommand` hands to the transport over any history: responder address 20h, the command's network function
and LUN, requester 81h, the command number, the group-extension or OEM prefix the function calls for, and exactly the caller's
request data. -/
namespace Bmc.Proofs.EndToEnd
open Bmc Bmc.Wire Bmc.Crypto Bmc.Proto Bmc.GoOrch Bmc.GoLoops Bmc.Gen.Loops Bmc.Lemmas.GenLoops Bmc.Proofs.GenLoops Bmc.Proofs.C09
open Bmc.Proofs.C03 Bmc.Wire.Req

/-- the command of a history item as the request model's `Operation` -/
def opOf (c : Proto.Cmd) : Operation := ⟨c.fn, c.body, c.ent, c.cmd⟩

theorem requestMessage_eq (c : Proto.Cmd) : requestMessage c = messageLayer (opOf c) c.lun := rfl

theorem generated_history_requests_parse (C : Ops) (hC : C.Lawful) (bd : Bytes → Bool) (h : List HistItem) (hok : ∀ e ∈ h, e.ok)
    (s : Sess) (K : Conn Decoded) (hs : s.inbound < 4294967296) (hL : s.localID < 4294967296) (hr : s.remoteID < 4294967296)
    (hK : K.inbound = UInt32.ofNat s.inbound)
    (hiv : ∀ e ∈ h, ∀ iv ∈ e.2.2.2.1, iv.length = 16 ∧ (aesPayload C s.keys e.1 iv).length < 65536)
    (hreq : ∀ e ∈ h, e.1.fn.toNat < 64 ∧ e.1.fn.toNat % 2 = 0 ∧ e.1.lun.toNat < 4 ∧ e.1.ent < 16777216) :
    ∀ p ∈ generatedHistory C s.keys bd K h, ∃ e ∈ h, ∃ v a,
      V2Session.decode (integMac C s.keys.integ s.keys.k1) (p.drop 4) = .ok v ∧
      AESLayer.decode C s.keys.k2 v.payload = .ok a ∧
      Spec.Req.parseMessage a.payload =
        some ({ rsAddr := 0x20, netFn := e.1.fn.toNat, rsLUN := e.1.lun.toNat, rqAddr := 0x81, rqSeq := 1, rqLUN := 0
                cmd := e.1.cmd.toNat, ext := Bmc.Wire.Req.expectedExt (opOf e.1) }, e.1.req) := by
  intro p hp
  obtain ⟨e, he, inb, iv, hmem, rfl⟩ := generated_history_datagrams C bd h hok s K hs hL hr hK p hp
  obtain ⟨h16, hlen⟩ := hiv e he iv hmem
  obtain ⟨hf, hq, hl, hent⟩ := hreq e he
  obtain ⟨v, hv, _, _, _, _, _, a6⟩ := wrapper_opens C s.keys hr e.1 inb iv hlen
  refine ⟨e, he, v, { contents := iv, payload := messageBytes e.1 }, hv, ?_, ?_⟩
  · rw [a6]; exact payload_decrypts C hC s.keys e.1 iv h16
  · show Spec.Req.parseMessage (Message.encode (requestMessage e.1) e.1.req).2 = _
    rw [requestMessage_eq]
    exact Bmc.Wire.Req.message_parses (opOf e.1) e.1.lun e.1.req hf hq hl hent

/-- the additional hypothesis is met by the example history of `HistoryC03` (Get Device ID, DCMI Get Power Reading) -/
example : ∀ e ∈ exampleHistory, e.1.fn.toNat < 64 ∧ e.1.fn.toNat % 2 = 0 ∧ e.1.lun.toNat < 4 ∧ e.1.ent < 16777216 := by
  simp only [exampleHistory, List.mem_cons, List.not_mem_nil, or_false, forall_eq_or_imp, forall_eq]
  decide

end Bmc.Proofs.EndToEnd
