import Bmc.Proofs.GenOrch.WalkSDRs
import Bmc.Proofs.C14
/-! # C14 (completeness), stated about `walkSDRs` AS REGENERATED on this run -/
namespace Bmc.Proofs.EndToEnd
open Bmc Bmc.Spec Bmc.GoOrch Bmc.Gen.Orch Bmc.Proto Bmc.Proto.SdrWalk Bmc.Lemmas.SdrWalk Bmc.Lemmas.GenOrch Bmc.Lemmas.GenOrchSdr Bmc.Proofs.C14 Bmc.Proofs.GenOrch

/-- For a repository of ANY size satisfying C14's well-formedness conditions, held by the conforming SDR device of
    `Spec/Repo.lean`: `walkSDRs` AS TRANSLATED FROM THE SOURCE ON THIS RUN (with the regenerated SDR-header and Full Sensor
    Record decoders underneath) returns exactly the repository's Full Sensor Records, in order, each under its own ID — for
    every content of the command struct after a failed command (`junk`) and any fuel beyond the number of records. -/
theorem generated_walkSDRs_complete (R : Repo) (junk : _ → GetSDRReq → GetSDRRsp) (fuel : Nat) (hwf : wfStore R.store.recs)
    (hne : R.store.recs ≠ []) (hfull : wfFull R.store.recs) (hfuel : R.store.recs.length < fuel) :
    (bmc_walkSDRs fuel (sendOf bmc junk) (reserveOf bmc) (World.quiet R)).1.map viewRepo
      = ofRes (.ok (fullView R.store.recs)) := by
  rw [(walkSDRs_gen_eq bmc junk fuel (World.quiet R)).1, walk_complete R fuel hwf hne hfull hfuel]

end Bmc.Proofs.EndToEnd
