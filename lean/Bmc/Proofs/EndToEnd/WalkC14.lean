import Bmc.Proofs.GenOrch.WalkSDRs
import Bmc.Proofs.GenOrch.RetrieveSDRRepository
import Bmc.Proofs.C14
/-! # C14 (completeness), stated about `walkSDRs` AS REGENERATED on this run -/
namespace Bmc.Proofs.EndToEnd
open Bmc Bmc.Spec Bmc.GoOrch Bmc.Gen.Orch Bmc.Proto Bmc.Proto.SdrWalk Bmc.Lemmas.SdrWalk Bmc.Lemmas.GenOrch Bmc.Lemmas.GenOrchSdr Bmc.Proofs.C14 Bmc.Proofs.GenOrch

/-- For a repository of ANY size satisfying C14's well-formedness conditions, held by the conforming SDR device of
    `Spec/Repo.lean`: `walkSDRs` AS TRANSLATED FROM THE SOURCE ON THIS RUN (with the regenerated SDR-header and Full Sensor
    Record decoders underneath) returns exactly the repository's Full Sensor Records, in order, each under its own ID — for
    every content of the command struct after a failed command (`junk`) and any fuel beyond the number of records. -/
theorem generated_walkSDRs_complete (R : Repo) (junk : _ → GetSDRReq → GetSDRRsp) (fuel : Nat) (hwf : wfStore R.store.recs)
    (hne : R.store.recs ≠ []) (hfull : wfFull R.store.recs) (hfuel : R.store.recs.length < fuel) :
    (bmc_walkSDRs fuel (sendOf bmc junk) (reserveOf bmc) (World.quiet R)).1.map viewRepo
      = ofRes (.ok (fullView R.store.recs)) := by
  rw [(walkSDRs_gen_eq bmc junk fuel (World.quiet R)).1, walk_complete R fuel hwf hne hfull hfuel]

/-- **One consistent set, about `RetrieveSDRRepository` AS REGENERATED on this run.** Against the SDR device of `Spec/Repo.lean` whose
    repository MAY CHANGE under the walk (any world satisfying the device invariant: additions and deletions between any two
    commands, reservations cancelled by them), for any number of attempts and any fuel: a repository returned by the translated
    function is exactly the set of Full Sensor Records of ONE state of the device — the state in which the run ended — each
    under its own ID; it is never a mixture of two states. (The disjunct "out of fuel" is excluded for fuel beyond the number of
    records by `generated_walkSDRs_complete` on a quiet device; for a device that keeps growing no finite walk completes.) -/
theorem generated_RetrieveSDRRepository_snapshot (junk : _ → GetSDRReq → GetSDRRsp) (fuel attempts : Nat) (w : World) (hInv : w.Inv)
    (m : SDRRepository)
    (h : (bmc_RetrieveSDRRepository fuel (sendOf bmc junk) (infoOf bmc) (reserveOf bmc) attempts w).1.map viewRepo = .ok m) :
    m = fullView (bmc_RetrieveSDRRepository fuel (sendOf bmc junk) (infoOf bmc) (reserveOf bmc) attempts w).2.repo.store.recs := by
  rcases RetrieveSDRRepository_gen_eq bmc junk fuel attempts w with hf | ⟨h1, h2⟩
  · rw [hf] at h; cases h
  · rw [h1] at h
    cases hr : (retrieve true bmc fuel attempts w).2 with
    | none => rw [hr] at h; cases h
    | some m' =>
      rw [hr] at h
      injection h with h
      subst h
      rw [h2]
      exact Proofs.C14.snapshot fuel attempts w _ m' hInv (Prod.ext rfl hr)

end Bmc.Proofs.EndToEnd
