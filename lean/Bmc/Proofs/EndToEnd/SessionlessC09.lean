import Bmc.Proofs.GenLoops.BuildAndSendCommand
import Bmc.Proofs.C09
/-! # The property theorems, stated about the code AS REGENERATED on this run (session-less command loop) -/
namespace Bmc.Proofs.EndToEnd
open Bmc Bmc.Wire Bmc.Crypto Bmc.Proto Bmc.GoOrch Bmc.GoLoops Bmc.Gen.Loops Bmc.Lemmas.GenLoops Bmc.Proofs.GenLoops

/-- C09, second sentence, for the regenerated loop: every datagram the translated `buildAndSendCommand` hands to the transport
    carries session ID 0 and sequence number 0, whatever the BMC answers. -/
theorem generated_sessionless_loop_null_session (c : Cmd) (hc : c.ent < 4294967296) (script : List Outcome)
    (fuel : Nat) (hfu : script.length + 1 ≤ fuel) (bd : Bytes → Bool) (name : String) (rsp : Opaque)
    (ivs : List Bytes) (K : Conn Decoded) :
    let r := V2Sessionless_buildAndSendCommand (slWorld c bd) fuel (cmdOf c name rsp) ({ ivs := ivs, script := script, sent := [] }, K)
    ∀ p ∈ r.2.1.sent, sessionIDOf p = 0 ∧ seqOf p = 0 := by
  intro r p hp
  obtain ⟨h1, _, _⟩ := V2Sessionless_buildAndSendCommand_gen_eq c hc script fuel hfu bd name rsp ivs [] K
  simp only [List.nil_append] at h1
  have hp' : p ∈ (slSend c script).1 := by rw [← h1]; exact hp
  exact Bmc.Proofs.C09.sessionless_all_null c script p hp'

end Bmc.Proofs.EndToEnd
