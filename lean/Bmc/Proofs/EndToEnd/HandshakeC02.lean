import Bmc.Proofs.GenHs.NewV2Session
/-! # C02, stated about SESSION ESTABLISHMENT AS REGENERATED on this run

`Proofs/GenHs/NewV2Session.lean` proves that `bmc_V2SessionlessTransport_newV2Session` — `newV2Session` of v2session_new.go as
`tools/decgen -hs` translates it from the Go source on every run — is `hsRun` over the answers its three set-up exchanges
receive. `hsRun_sound` below is C02's soundness at that level (for ARBITRARY answers: every BMC, honest or not, every decoded
reply); composed with the equality theorem it becomes a statement about the translated code: it returns a session ONLY IF the
Open Session Response confirmed the proposal and the RAKP 2 code and the RAKP 4 check value it received ARE the keyed hashes,
under the caller's password (and KG), of the values exchanged. -/
namespace Bmc.Proofs.EndToEnd
open Bmc Bmc.Wire Bmc.Crypto Bmc.Proto Bmc.Lemmas.GenHs

/-- an exchange that does not end with a decoded value ends with "error" or "crashed" — never with something that looks like
    a session (true of every answer function built from real exchanges: `viewAnswers`, `scriptAnswers`) -/
def HonestAnswers {σ : Type} (A : Answers σ) : Prop :=
  (∀ s q e, (A.openSession s q).2 = .error e → e = .error ∨ e = .crashed) ∧
  (∀ s q e, (A.rakp1 s q).2 = .error e → e = .error ∨ e = .crashed) ∧
  (∀ s q e, (A.rakp3 s q).2 = .error e → e = .error ∨ e = .crashed)

private theorem bind_err {α β : Type} (x : Except HsRes α) (f : α → Except HsRes β) (e : HsRes) (h : (x >>= f) = .error e) :
    x = .error e ∨ ∃ a, x = .ok a ∧ f a = .error e := by
  cases x with
  | error e' => left; simpa [bind, Except.bind] using h
  | ok a => right; exact ⟨a, rfl, by simpa [bind, Except.bind] using h⟩

private theorem openChecks_err (o : Opts) (x : OpenSessionRsp) (e : HsRes) (h : openChecks o x = .error e) : e = .error := by
  unfold openChecks at h; repeat' split at h
  all_goals first | (injection h with h; exact h.symm) | cases h

private theorem rakp2Checks_err (C : Ops) (o : Opts) (rm : Bytes) (osr : OpenSessionRsp) (x : RAKP2) (e : HsRes)
    (h : rakp2Checks C o rm osr x = .error e) : e = .error ∨ e = .incorrectPassword := by
  unfold rakp2Checks at h; repeat' split at h
  all_goals first | (injection h with h; subst h; simp) | cases h

private theorem rakp4Checks_err (C : Ops) (o : Opts) (rm : Bytes) (osr : OpenSessionRsp) (rk2 : RAKP2) (hh : HashAlg) (x : RAKP4)
    (e : HsRes) (h : rakp4Checks C o rm osr rk2 hh x = .error e) : e = .error := by
  unfold rakp4Checks at h; simp only [] at h; repeat' split at h
  all_goals first | (injection h with h; exact h.symm) | cases h

/-- soundness of the handshake over abstract answers -/
theorem hsRun_sound {σ : Type} (C : Ops) (A : Answers σ) (hA : HonestAnswers A) (o : Opts) (s : σ) (l r : Nat) (a i c : UInt8) (sik k1 k2 : Bytes)
    (h : (hsRun C A o s).1 = .ok l r a i c sik k1 k2) :
    ∃ (osr : OpenSessionRsp) (rm : Bytes) (rk2 : RAKP2) (rk4 : RAKP4) (hh : HashAlg),
      osr.tag = 0 ∧ osr.status = 0 ∧ osr.auth = o.auth ∧ osr.integ = o.integ ∧ osr.conf = o.conf ∧
      authHash osr.auth = some hh ∧
      rk2.tag = 0 ∧ rk2.status = 0 ∧ rk2.authCode = rakp2Code C hh o rm osr rk2 ∧
      rk4.tag = 0 ∧ rk4.status = 0 ∧
      sik = sikOf C hh o rm rk2 ∧ rk4.icv = icvOf C hh osr.auth sik rm osr rk2 ∧
      l = osr.consoleSessionID ∧ r = osr.bmcSessionID ∧ a = osr.auth ∧ i = osr.integ ∧ c = osr.conf ∧
      k1 = C.hmac hh sik (List.replicate 20 1) ∧ k2 = C.hmac hh sik (List.replicate 20 2) := by
  unfold hsRun at h
  simp only [] at h
  -- exchange 1
  cases h1 : (A.openSession s ⟨0, o.priv, 1, o.auth, o.integ, o.conf⟩).2 >>= openChecks o with
  | error e =>
    rw [h1] at h; simp only [] at h; subst h
    rcases bind_err _ _ _ h1 with hx | ⟨x, _, hx⟩
    · rcases hA.1 _ _ _ hx with e | e <;> cases e
    · cases openChecks_err _ _ _ hx
  | ok osr =>
    rw [h1] at h; simp only [] at h
    have hoc : ∃ osr0, openChecks o osr0 = .ok osr := by
      cases hx : (A.openSession s ⟨0, o.priv, 1, o.auth, o.integ, o.conf⟩).2 with
      | error e => rw [hx] at h1; cases h1
      | ok osr0 => rw [hx] at h1; exact ⟨osr0, h1⟩
    obtain ⟨osr0, hoc⟩ := hoc
    have ho : osr.tag = 0 ∧ osr.status = 0 ∧ osr.auth = o.auth ∧ osr.integ = o.integ ∧ osr.conf = o.conf := by
      unfold openChecks at hoc
      split at hoc
      · cases hoc
      · split at hoc
        · cases hoc
        · split at hoc
          · cases hoc
          · injection hoc with e; subst e
            rename_i ht hs ha
            simp only [bne_iff_ne, ne_eq, Decidable.not_not, Bool.or_eq_true, not_or] at ht hs ha
            exact ⟨ht, hs, ha.1.1, ha.1.2, ha.2⟩
    -- the random draw
    cases hr : (A.rand (A.openSession s ⟨0, o.priv, 1, o.auth, o.integ, o.conf⟩).1).2 with
    | none => rw [hr] at h; simp only [] at h; cases h
    | some rm =>
      rw [hr] at h; simp only [] at h
      -- exchange 2
      cases h2 : (A.rakp1 (A.rand (A.openSession s ⟨0, o.priv, 1, o.auth, o.integ, o.conf⟩).1).1
            ⟨0, osr.bmcSessionID, rm, o.lookup, o.priv, o.user⟩).2 >>= rakp2Checks C o rm osr with
      | error e =>
        rw [h2] at h; simp only [] at h; subst h
        rcases bind_err _ _ _ h2 with hx | ⟨x, _, hx⟩
        · rcases hA.2.1 _ _ _ hx with e | e <;> cases e
        · rcases rakp2Checks_err _ _ _ _ _ _ hx with e | e <;> cases e
      | ok p =>
        obtain ⟨rk2, hh⟩ := p
        rw [h2] at h; simp only [] at h
        have h2c : ∃ rk20, rakp2Checks C o rm osr rk20 = .ok (rk2, hh) := by
          cases hx : (A.rakp1 (A.rand (A.openSession s ⟨0, o.priv, 1, o.auth, o.integ, o.conf⟩).1).1
              ⟨0, osr.bmcSessionID, rm, o.lookup, o.priv, o.user⟩).2 with
          | error e => rw [hx] at h2; cases h2
          | ok rk20 => rw [hx] at h2; exact ⟨rk20, h2⟩
        obtain ⟨rk20, h2c⟩ := h2c
        have hk2 : rk2.tag = 0 ∧ rk2.status = 0 ∧ authHash osr.auth = some hh ∧ rk2.authCode = rakp2Code C hh o rm osr rk2 := by
          unfold rakp2Checks at h2c
          split at h2c
          · cases h2c
          · split at h2c
            · cases h2c
            · rename_i ht hs
              split at h2c
              · cases h2c
              · rename_i hx hah
                split at h2c
                · cases h2c
                · rename_i hcode
                  injection h2c with e
                  injection e with e1 e2
                  subst e1 e2
                  simp only [bne_iff_ne, ne_eq, Decidable.not_not] at ht hs hcode
                  exact ⟨ht, hs, hah, hcode⟩
        -- exchange 3
        cases h3 : (A.rakp3 (A.rakp1 (A.rand (A.openSession s ⟨0, o.priv, 1, o.auth, o.integ, o.conf⟩).1).1
              ⟨0, osr.bmcSessionID, rm, o.lookup, o.priv, o.user⟩).1 ⟨0, osr.bmcSessionID, rakp3Code C hh o rk2⟩).2
              >>= rakp4Checks C o rm osr rk2 hh with
        | error e =>
          rw [h3] at h; simp only [] at h; subst h
          rcases bind_err _ _ _ h3 with hx | ⟨x, _, hx⟩
          · rcases hA.2.2 _ _ _ hx with e | e <;> cases e
          · cases rakp4Checks_err _ _ _ _ _ _ _ _ hx
        | ok res =>
          rw [h3] at h; simp only [] at h
          subst h
          have h3c : ∃ rk4, rakp4Checks C o rm osr rk2 hh rk4 = .ok (.ok l r a i c sik k1 k2) := by
            cases hx : (A.rakp3 (A.rakp1 (A.rand (A.openSession s ⟨0, o.priv, 1, o.auth, o.integ, o.conf⟩).1).1
                ⟨0, osr.bmcSessionID, rm, o.lookup, o.priv, o.user⟩).1 ⟨0, osr.bmcSessionID, rakp3Code C hh o rk2⟩).2 with
            | error e => rw [hx] at h3; cases h3
            | ok rk4 => rw [hx] at h3; exact ⟨rk4, h3⟩
          obtain ⟨rk4, h3c⟩ := h3c
          unfold rakp4Checks at h3c
          simp only [] at h3c
          split at h3c
          · cases h3c
          · split at h3c
            · cases h3c
            · rename_i ht hs
              split at h3c
              · cases h3c
              · rename_i hicv
                split at h3c
                · cases h3c
                · split at h3c
                  · cases h3c
                  · injection h3c with e
                    injection e with e1 e2 e3 e4 e5 e6 e7 e8
                    simp only [bne_iff_ne, ne_eq, Decidable.not_not] at ht hs hicv
                    subst e6
                    exact ⟨osr, rm, rk2, rk4, hh, ho.1, ho.2.1, ho.2.2.1, ho.2.2.2.1, ho.2.2.2.2, hk2.2.2.1, hk2.1, hk2.2.1, hk2.2.2.2,
                      ht, hs, rfl, hicv, e1.symm, e2.symm, e3.symm, e4.symm, e5.symm, e7.symm, e8.symm⟩

open Bmc.GoOrch Bmc.Gen.Hs Bmc.Gen.Orch Bmc.Proofs.GenHs in
theorem viewAnswers_honest {σ : Type}
    (sendO : σ → Gen.Hs.OpenSessionReq → σ × Gen.Hs.OpenSessionRsp × Bool)
    (sendR1 : σ → Gen.Hs.RAKPMessage1 → σ × Gen.Hs.RAKPMessage2 × Bool)
    (sendR3 : σ → Gen.Hs.RAKPMessage3 → σ × Gen.Hs.RAKPMessage4 × Bool)
    (rr : σ → Nat → σ × Option Bytes) : HonestAnswers (viewAnswers sendO sendR1 sendR3 rr) := by
  refine ⟨?_, ?_, ?_⟩ <;>
  · intro s q e h
    simp only [viewAnswers] at h
    split at h
    · cases h
    · injection h with h; left; exact h.symm

/-- **the password error, about abstract answers**: an Open Session Response confirming the proposal, then a RAKP Message 2 with tag 0,
    status OK and an AuthCode that is NOT the keyed hash of the exchange under the caller's password — the run ends with
    `incorrectPassword` (not with a generic error, not with a session), and RAKP Message 3 is never sent -/
theorem hsRun_incorrect_password {σ : Type} (C : Ops) (A : Answers σ) (o : Opts) (s : σ) (rm : Bytes) (osr : OpenSessionRsp) (rk2 : RAKP2)
    (hh : HashAlg)
    (a1 : (A.openSession s ⟨0, o.priv, 1, o.auth, o.integ, o.conf⟩).2 = .ok osr)
    (ho : osr.tag = 0 ∧ osr.status = 0 ∧ osr.auth = o.auth ∧ osr.integ = o.integ ∧ osr.conf = o.conf)
    (hauth : authHash osr.auth = some hh)
    (a0 : (A.rand (A.openSession s ⟨0, o.priv, 1, o.auth, o.integ, o.conf⟩).1).2 = some rm)
    (a2 : (A.rakp1 (A.rand (A.openSession s ⟨0, o.priv, 1, o.auth, o.integ, o.conf⟩).1).1
            ⟨0, osr.bmcSessionID, rm, o.lookup, o.priv, o.user⟩).2 = .ok rk2)
    (hr2 : rk2.tag = 0 ∧ rk2.status = 0) (hbad : rk2.authCode ≠ rakp2Code C hh o rm osr rk2) :
    (hsRun C A o s).1 = .incorrectPassword ∧
    (hsRun C A o s).2 = (A.rakp1 (A.rand (A.openSession s ⟨0, o.priv, 1, o.auth, o.integ, o.conf⟩).1).1
            ⟨0, osr.bmcSessionID, rm, o.lookup, o.priv, o.user⟩).1 := by
  obtain ⟨t1, s1, au1, in1, co1⟩ := ho
  obtain ⟨t2, s2⟩ := hr2
  have e1 : openChecks o osr = .ok osr := by simp [openChecks, t1, s1, au1, in1, co1]
  have e2 : rakp2Checks C o rm osr rk2 = .error .incorrectPassword := by
    simp [rakp2Checks, t2, s2, hauth, hbad]
  have bind_ok : ∀ {α β : Type} (a : α) (f : α → Except HsRes β), ((Except.ok a : Except HsRes α) >>= f) = f a := fun _ _ => rfl
  unfold hsRun
  simp only [a1, bind_ok, e1, a0, a2, e2, and_self]

open Bmc.GoOrch Bmc.Gen.Hs Bmc.Gen.Orch Bmc.Proofs.GenHs in
/-- **C02 for the regenerated `newV2Session`.** For every option value, every random draw, every BMC (the answer functions of
    the three set-up exchanges and of cipher-suite discovery, over any state) and every keyed hash with the digest lengths:
    if `newV2Session` AS TRANSLATED FROM THE SOURCE ON THIS RUN returns a session, then the Open Session Response it received
    had tag 0, status OK and confirmed exactly the proposed algorithms; the RAKP Message 2 had tag 0, status OK and an AuthCode
    EQUAL to the keyed hash, under the caller's password, of the values exchanged; the RAKP Message 4 had tag 0, status OK and
    an integrity check value EQUAL to the keyed hash under the SIK, which is the keyed hash of the exchange under the caller's
    KG (or password); and the session's IDs, SIK, K1 and K2 are those. -/
theorem generated_newV2Session_sound (C : Ops) (hlen : ∀ a k m, (C.hmac a k m).length = a.size) {σ : Type} (fuel : Nat)
    (sendS : σ → GetChannelCipherSuitesReq → σ × GetChannelCipherSuitesRsp × Bool)
    (sendO : σ → Gen.Hs.OpenSessionReq → σ × Gen.Hs.OpenSessionRsp × Bool)
    (sendR1 : σ → Gen.Hs.RAKPMessage1 → σ × Gen.Hs.RAKPMessage2 × Bool)
    (sendR3 : σ → Gen.Hs.RAKPMessage3 → σ × Gen.Hs.RAKPMessage4 × Bool)
    (tail : Bytes) (rr : σ → Nat → σ × Option Bytes) (opts : V2SessionOpts) (s0 s1 : σ) (cs : Gen.Dec.CipherSuite)
    (hdet : bmc_V2SessionlessTransport_determineCipherSuite fuel sendS tail opts.cipherSuites s0 = (.ok cs, s1))
    (sess : Gen.Hs.V2Session)
    (hok : (bmc_V2SessionlessTransport_newV2Session fuel sendS sendO sendR1 sendR3 tail (Bmc.Lemmas.GenKeys.mac C) rr opts s0).1 = .ok (.ok sess)) :
    ∃ (osr : Bmc.Wire.OpenSessionRsp) (rm : Bytes) (rk2 : Bmc.Wire.RAKP2) (rk4 : Bmc.Wire.RAKP4) (hh : HashAlg) (sik : Bytes),
      let o := optsOf opts cs
      osr.tag = 0 ∧ osr.status = 0 ∧ osr.auth = o.auth ∧ osr.integ = o.integ ∧ osr.conf = o.conf ∧
      authHash osr.auth = some hh ∧
      rk2.tag = 0 ∧ rk2.status = 0 ∧ rk2.authCode = rakp2Code C hh o rm osr rk2 ∧
      rk4.tag = 0 ∧ rk4.status = 0 ∧
      sik = sikOf C hh o rm rk2 ∧ rk4.icv = icvOf C hh osr.auth sik rm osr rk2 ∧
      sess = sessionOf osr.consoleSessionID osr.bmcSessionID osr.auth osr.integ osr.conf sik
              (C.hmac hh sik (List.replicate 20 1)) (C.hmac hh sik (List.replicate 20 2)) := by
  rw [newV2Session_gen_eq C hlen fuel sendS sendO sendR1 sendR3 tail rr opts s0 s1 cs hdet] at hok
  simp only [] at hok
  generalize hres : (hsRun C (viewAnswers sendO sendR1 sendR3 rr) (optsOf opts cs) s1).1 = res at hok
  cases res with
  | ok l r a i c sik k1 k2 =>
    simp only [goOutcome] at hok
    injection hok with hok
    injection hok with hok
    obtain ⟨osr, rm, rk2, rk4, hh, t1, s1', a1, i1, c1, ah, t2, s2, code, t4, s4, hsik, hicv, hl, hr, ha, hi, hc, hk1, hk2⟩ :=
      hsRun_sound C _ (viewAnswers_honest sendO sendR1 sendR3 rr) (optsOf opts cs) s1 l r a i c sik k1 k2 hres
    refine ⟨osr, rm, rk2, rk4, hh, sik, t1, s1', a1, i1, c1, ah, t2, s2, code, t4, s4, hsik, hicv, ?_⟩
    rw [← hok, hl, hr, ha, hi, hc, hk1, hk2]
  | incorrectPassword => simp [goOutcome] at hok
  | error => simp [goOutcome] at hok
  | crashed => simp [goOutcome] at hok

open Bmc.GoOrch Bmc.Gen.Hs Bmc.Gen.Orch Bmc.Proofs.GenHs in
/-- **the password error, about `newV2Session` AS REGENERATED**: after `determineCipherSuite` proposed `cs`, a BMC (response structs of
    the code's own types) that confirms the proposal and then sends a RAKP Message 2 with tag 0 and status OK whose AuthCode is NOT
    the keyed hash of the exchange under the caller's password: the translated code returns `ErrIncorrectPassword` — never a session,
    never a generic error — having sent no RAKP Message 3. -/
theorem generated_newV2Session_incorrect_password (C : Ops) (hlen : ∀ a k m, (C.hmac a k m).length = a.size) {σ : Type} (fuel : Nat)
    (sendS : σ → GetChannelCipherSuitesReq → σ × GetChannelCipherSuitesRsp × Bool)
    (sendO : σ → Gen.Hs.OpenSessionReq → σ × Gen.Hs.OpenSessionRsp × Bool)
    (sendR1 : σ → Gen.Hs.RAKPMessage1 → σ × Gen.Hs.RAKPMessage2 × Bool)
    (sendR3 : σ → Gen.Hs.RAKPMessage3 → σ × Gen.Hs.RAKPMessage4 × Bool)
    (tail : Bytes) (rr : σ → Nat → σ × Option Bytes) (opts : V2SessionOpts) (s0 s1 : σ) (cs : Gen.Dec.CipherSuite)
    (hdet : bmc_V2SessionlessTransport_determineCipherSuite fuel sendS tail opts.cipherSuites s0 = (.ok cs, s1))
    (hh : HashAlg) (s2 s3 s4 : σ) (gO : Gen.Hs.OpenSessionRsp) (draw : Bytes) (g2 : Gen.Hs.RAKPMessage2)
    (hO : sendO s1 (goOpenReq ⟨0, (optsOf opts cs).priv, 1, (optsOf opts cs).auth, (optsOf opts cs).integ, (optsOf opts cs).conf⟩)
            = (s2, gO, true))
    (ho : (osrView gO).tag = 0 ∧ (osrView gO).status = 0 ∧ (osrView gO).auth = (optsOf opts cs).auth ∧
          (osrView gO).integ = (optsOf opts cs).integ ∧ (osrView gO).conf = (optsOf opts cs).conf)
    (hauth : authHash (osrView gO).auth = some hh)
    (hR : rr s2 16 = (s3, some draw))
    (h1 : sendR1 s3 (goRakp1 ⟨0, (osrView gO).bmcSessionID, GoKeys.copyArr 16 (List.replicate 16 0) draw, (optsOf opts cs).lookup,
            (optsOf opts cs).priv, (optsOf opts cs).user⟩) = (s4, g2, true))
    (hr2 : (rk2View g2).tag = 0 ∧ (rk2View g2).status = 0)
    (hbad : (rk2View g2).authCode ≠
      rakp2Code C hh (optsOf opts cs) (GoKeys.copyArr 16 (List.replicate 16 0) draw) (osrView gO) (rk2View g2)) :
    bmc_V2SessionlessTransport_newV2Session fuel sendS sendO sendR1 sendR3 tail (Bmc.Lemmas.GenKeys.mac C) rr opts s0
      = (.ok (.error "ErrIncorrectPassword"), s4) := by
  rw [newV2Session_gen_eq C hlen fuel sendS sendO sendR1 sendR3 tail rr opts s0 s1 cs hdet]
  obtain ⟨e1, e2⟩ := hsRun_incorrect_password C (viewAnswers sendO sendR1 sendR3 rr) (optsOf opts cs) s1
    (GoKeys.copyArr 16 (List.replicate 16 0) draw) (osrView gO) (rk2View g2) hh
    (by simp only [viewAnswers, hO, if_true]) ho hauth (by simp only [viewAnswers, hO, hR, Option.map_some])
    (by simp only [viewAnswers, hO, hR, Option.map_some, h1, if_true]) hr2 hbad
  rw [e1, e2]
  simp only [viewAnswers, hO, hR, h1, goOutcome]

end Bmc.Proofs.EndToEnd
