import Bmc.Proofs.GenLoops.BuildAndSend
import Bmc.Proofs.C03
import Bmc.Proofs.C10
/-! # C03 and C10, stated about the in-session loop AS REGENERATED on this run -/
namespace Bmc.Proofs.EndToEnd
open Bmc Bmc.Wire Bmc.Crypto Bmc.Proto Bmc.GoOrch Bmc.GoLoops Bmc.Gen.Loops Bmc.Lemmas.GenLoops Bmc.Proofs.GenLoops

/-- C03 / C10 for the regenerated loop: whatever the BMC answers, what the TRANSLATED `buildAndSend` hands to the transport
    is — datagram by datagram — the specification-shaped packet for the caller's command: the i-th one is `nthDatagram`
    (RMCP header, session wrapper addressed to the BMC's session ID with sequence number counter+i+1, the AES payload of the
    request message under the i-th IV draw, integrity pad, AuthCode under K1 — `C03.datagram_shape`), as many of them as the
    documented contract `expected` says (one per attempt until the first final answer: C10), and every retransmission is again
    the complete packet for that same command. -/
theorem generated_loop_datagrams (C : Ops) (c : Cmd) (hc : c.ent < 4294967296) (hf : c.reqFails = false) (s : Sess)
    (hs : s.inbound < 4294967296) (hL : s.localID < 4294967296) (hr : s.remoteID < 4294967296)
    (ivs : List Bytes) (script : List Outcome) (hne : script ≠ []) (hl : script.length ≤ ivs.length)
    (fuel : Nat) (hfu : script.length ≤ fuel) (bd : Bytes → Bool) (name : String) (rsp : Opaque)
    (K : Conn Decoded) (hK : K.inbound = UInt32.ofNat s.inbound) :
    let r := V2Session_buildAndSend (sessWorld C s.keys c bd) fuel (sessConsts s.keys) (cmdOf c name rsp)
              ({ ivs := ivs, script := script, sent := [] }, K)
    r.2.1.sent = (List.range (expected (classify C s.keys c) script).1).map (nthDatagram C s.keys c s.inbound ivs) ∧
    resOf r.1 r.2.2 = some (expected (classify C s.keys c) script).2 := by
  intro r
  obtain ⟨h1, h2, _⟩ := V2Session_buildAndSend_gen_eq C c hc s hs hL hr ivs script hne hl fuel hfu bd name rsp [] K hK
  simp only [List.nil_append] at h1
  obtain ⟨s1, s2, _, _⟩ := sendLoop_spec C c hf s hs ivs script hl
  exact ⟨by rw [h1, s2], by rw [← s1]; exact h2⟩

end Bmc.Proofs.EndToEnd
