import Bmc.Proofs.EndToEnd.WalkC14
/-! # C14, AGAIN AFTER ANOTHER RETRIEVAL, about `RetrieveSDRRepository` AS REGENERATED on this run

A session is used for more than one retrieval: a first `RetrieveSDRRepository` — which may have SUCCEEDED OR FAILED, with reservations
taken and lost, the repository modified under it, any number of attempts used up — and then a second one on the same session, against
the device in whatever state the first left it. The second call's result, when it returns one, is again exactly the Full Sensor
Records of the ONE state of the device in which that call ended: nothing of the first walk (a partial map, a stale reservation, a
position in the chain) shows in it. This is the statement behind the harness's "a failed retrieval is followed by a second one". -/
namespace Bmc.Proofs.EndToEnd
open Bmc Bmc.Spec Bmc.GoOrch Bmc.Gen.Orch Bmc.Proto Bmc.Proto.SdrWalk Bmc.Lemmas.SdrWalk Bmc.Lemmas.GenOrch Bmc.Lemmas.GenOrchSdr Bmc.Proofs.C14 Bmc.Proofs.GenOrch

theorem generated_RetrieveSDRRepository_again (junk junk' : _ → GetSDRReq → GetSDRRsp) (fuel attempts fuel' attempts' : Nat)
    (w : World) (hInv : w.Inv)
    (hfirst : (bmc_RetrieveSDRRepository fuel (sendOf bmc junk) (infoOf bmc) (reserveOf bmc) attempts w).1 ≠ .outOfFuel)
    (m : SDRRepository) :
    let w1 := (bmc_RetrieveSDRRepository fuel (sendOf bmc junk) (infoOf bmc) (reserveOf bmc) attempts w).2
    (bmc_RetrieveSDRRepository fuel' (sendOf bmc junk') (infoOf bmc) (reserveOf bmc) attempts' w1).1.map viewRepo = .ok m →
    m = fullView (bmc_RetrieveSDRRepository fuel' (sendOf bmc junk') (infoOf bmc) (reserveOf bmc) attempts' w1).2.repo.store.recs := by
  intro w1 h
  have hInv1 : w1.Inv := by
    rcases RetrieveSDRRepository_gen_eq bmc junk fuel attempts w with hf | ⟨_, h2⟩
    · exact absurd hf hfirst
    · show (bmc_RetrieveSDRRepository fuel (sendOf bmc junk) (infoOf bmc) (reserveOf bmc) attempts w).2.Inv
      rw [h2]
      exact retrieve_inv true fuel attempts w hInv
  exact generated_RetrieveSDRRepository_snapshot junk' fuel' attempts' w1 hInv1 m h

end Bmc.Proofs.EndToEnd
