import Bmc.Proofs.EndToEnd.HistoryC11
/-! # C17, HISTORY form, about `SendCommand` AS REGENERATED on this run

Reusing a connection never leaks earlier data into a result. `ReuseC17` says it of one call. Here: take two connection values that
agree on the sequence counter and differ ARBITRARILY in everything else earlier traffic can have left behind — the layer structs
(RMCP, session wrapper, message, confidentiality layer as last decoded or serialised), the decoded-layer list, the serialise buffer,
the metric events — and run the same history of commands on each with the translated `SendCommand`, every call on the connection value
the previous one left. The datagrams handed to the transport are the same, call for call, and so is what every call returns. -/
namespace Bmc.Proofs.EndToEnd
open Bmc Bmc.Wire Bmc.Crypto Bmc.Proto Bmc.GoOrch Bmc.GoLoops Bmc.Gen.Loops Bmc.Lemmas.GenLoops Bmc.Proofs.GenLoops Bmc.Proofs.C09

/-- what the calls of a history return, computed by the hand model -/
def modelResults (C : Ops) (bd : Bytes → Bool) : Sess → List HistItem → List (RF (UInt8 × Option GoErr))
  | _, [] => []
  | s, (c, _, rsp, ivs, script) :: rest =>
    let m := sendLoop C c s ivs script
    (match m.2.2 with
     | .ok cc p => .ok (cc, if rsp != 0 ∧ bd p = false then some .response else none)
     | .transportErr => .ok (0, some .transport)
     | .serializeErr => .ok (0, some .serialize)
     | .ctxExpired => .ok (0, some .ctx)
     | .crashed => .panic) :: modelResults C bd m.1 rest

theorem generatedResults_eq (C : Ops) (bd : Bytes → Bool) (h : List HistItem) (hok : ∀ e ∈ h, e.ok) :
    ∀ (s : Sess) (K : Conn Decoded), s.inbound < 4294967296 → s.localID < 4294967296 → s.remoteID < 4294967296 →
      K.inbound = UInt32.ofNat s.inbound →
      generatedResults C s.keys bd K h = modelResults C bd s h := by
  induction h with
  | nil => intro s K _ _ _ _; rfl
  | cons e rest ih =>
    intro s K hs hL hr hK
    obtain ⟨c, name, rsp, ivs, script⟩ := e
    obtain ⟨hf, hc, hne, hl⟩ := hok (c, name, rsp, ivs, script) (by simp)
    simp only [] at hf hc hne hl
    obtain ⟨_, a2, a3⟩ := V2Session_SendCommand_gen_eq C c hc s hs hL hr ivs script hne hl script.length (Nat.le_refl _) bd name rsp [] K hK
    obtain ⟨_, _, hk, _⟩ := sendLoop_spec C c hf s hs ivs script hl
    have hs' := sendLoop_inbound_lt C c s hs ivs script hl
    have hL' : (sendLoop C c s ivs script).1.localID < 4294967296 := by
      have := congrArg Keys.localID hk; simp only [Sess.keys] at this; rw [this]; exact hL
    have hr' : (sendLoop C c s ivs script).1.remoteID < 4294967296 := by
      have := congrArg Keys.remoteID hk; simp only [Sess.keys] at this; rw [this]; exact hr
    have hK' : (V2Session_SendCommand (sessWorld C s.keys c bd) script.length (sessConsts s.keys) (cmdOf c name rsp)
        ({ ivs := ivs, script := script, sent := [] }, K)).2.2.inbound = UInt32.ofNat (sendLoop C c s ivs script).1.inbound := by
      rw [← a2, UInt32.ofNat_toNat]
    have hrec := ih (fun e he => hok e (by simp [he])) (sendLoop C c s ivs script).1 _ hs' hL' hr' hK'
    rw [hk] at hrec
    simp only [generatedResults, modelResults]
    rw [a3, hrec]
    rfl

/-- **C17, history form, about the translated code** -/
theorem generated_history_ignores_what_the_connection_holds (C : Ops) (bd : Bytes → Bool) (h : List HistItem) (hok : ∀ e ∈ h, e.ok)
    (s : Sess) (hs : s.inbound < 4294967296) (hL : s.localID < 4294967296) (hr : s.remoteID < 4294967296)
    (K K' : Conn Decoded) (hK : K.inbound = UInt32.ofNat s.inbound) (hK' : K'.inbound = UInt32.ofNat s.inbound) :
    generatedHistory C s.keys bd K h = generatedHistory C s.keys bd K' h ∧
    generatedResults C s.keys bd K h = generatedResults C s.keys bd K' h := by
  rw [generatedHistory_eq C bd h hok s K hs hL hr hK, generatedHistory_eq C bd h hok s K' hs hL hr hK',
      generatedResults_eq C bd h hok s K hs hL hr hK, generatedResults_eq C bd h hok s K' hs hL hr hK']
  exact ⟨rfl, rfl⟩

/-- two such connection values exist and differ: a fresh one, and one whose message layer, buffer and event log still hold an
    earlier exchange -/
example : ∃ K K' : Conn Decoded, K.inbound = K'.inbound ∧ K.buffer ≠ K'.buffer ∧ K.layers.message.payload ≠ K'.layers.message.payload :=
  ⟨{ decoded := .fail }, { decoded := .message, buffer := [1, 2, 3], layers := { message := { payload := [9] } } }, rfl, by decide, by decide⟩

end Bmc.Proofs.EndToEnd
