import Bmc.Gen.Loops
import Bmc.Proofs.C19
/-! # C19 (isolation), instantiated with `SendCommand` AS REGENERATED on this run

`tools/loopgen` translates `(*V2Session).SendCommand` and `(*V2Sessionless).SendCommand` (with the retry loops underneath) into
FUNCTIONS of the connection's own state — the world behind its own socket and the connection value (layer structs, buffer, sequence
counter, Prometheus log): every variable the Go code reads or writes had to be a parameter, a local or a field of the receiver for the
translation to succeed (`tools/loopgen/expr.go: pkgVar`: a package-level variable that anything in the module writes or takes the address
of is a give-up, i.e. a broken obligation; the only process-wide objects left are the Prometheus collectors, atomic by contract and
modelled as the connection's own event log — their TOTALS are C18's subject). So the
isolation theorem of `Proofs/C19.lean` applies to them as they stand: under EVERY interleaving of the calls of any number of
connections — each with its own world, keys and commands — every connection's results and final state are those of its own calls
run alone. (What no function of states can exhibit — the Go memory model — stays with the race-detector scenario.) -/
namespace Bmc.Proofs.EndToEnd
open Bmc Bmc.GoOrch Bmc.GoLoops Bmc.Gen.Loops Bmc.Proto.Isolation

/-- one call on a connection: which entry point, with what behind the socket (`W`: serialisers, transport script, decoder, back-off),
    how many retries at most, the session constants and the command -/
inductive Call (σ τ : Type) where
  | inSession (W : World σ τ) (fuel : Nat) (s : V2SessionConsts) (c : ipmi_Command)
  | sessionless (W : World σ τ) (fuel : Nat) (c : ipmi_Command)

/-- the regenerated entry points as the step function of a connection -/
def generatedSystem (σ τ : Type) : System (σ × Conn τ) (Call σ τ) (RF (UInt8 × Option GoErr)) where
  step st
    | .inSession W fuel s c => ((V2Session_SendCommand W fuel s c st).2, (V2Session_SendCommand W fuel s c st).1)
    | .sessionless W fuel c => ((V2Sessionless_SendCommand W fuel c st).2, (V2Sessionless_SendCommand W fuel c st).1)

theorem generated_SendCommand_isolation {σ τ : Type} (st : Nat → σ × Conn τ) (sched : List (Nat × Call σ τ)) (i : Nat) :
    project i (interleaved (generatedSystem σ τ) st sched).2 = (solo (generatedSystem σ τ) (st i) (project i sched)).2 ∧
    (interleaved (generatedSystem σ τ) st sched).1 i = (solo (generatedSystem σ τ) (st i) (project i sched)).1 :=
  Proofs.C19.isolation (generatedSystem σ τ) st sched i

end Bmc.Proofs.EndToEnd
