import Bmc.Proofs.EndToEnd.HandshakeC01
import Bmc.Proofs.EndToEnd.SessionC01
/-! # C01 whole: establish a session with the regenerated `newV2Session`, then converse with the regenerated `SendCommand`

The two regenerated pieces come from different translators (`Gen/Hs.lean`: the session VALUE `newV2Session` returns; `Gen/Loops.lean`:
the loops, whose world `sessWorld` is instantiated with the hand model's `Keys`). `keysOfSession` reads the keys out of the session
value — IDs, the negotiated integrity algorithm, the key inside the keyed integrity hasher (K1), the AES key (first 16 bytes of K2) —
which is exactly what `(*V2Session).buildAndSend` reads from the struct. With that reading: the session the translated `newV2Session`
returns against the specification's BMC carries the BMC's own keys, and every command of any history sent on it by the translated
`SendCommand` is accepted by that BMC — checking integrity and decrypting with ITS OWN K1 / K2 — and answered. -/
namespace Bmc.Proofs.EndToEnd
open Bmc Bmc.Wire Bmc.Crypto Bmc.Proto Bmc.GoOrch Bmc.GoLoops Bmc.Gen.Loops Bmc.Lemmas.GenLoops Bmc.Lemmas.GenHs
open Bmc.Spec Bmc.Proofs.C03 Bmc.Proofs.C01

/-- the key a (possibly truncated) keyed hash holds -/
def hashKey : Gen.Keys.HashVal → Bytes
  | .hmac _ key => key
  | .truncated inner _ => hashKey inner

/-- what `buildAndSend` reads from the session struct -/
def keysOfSession (s : Gen.Hs.V2Session) : Keys :=
  ⟨s.localID.toNat, s.remoteID.toNat, s.integrityAlgorithm.toNat, hashKey s.integrityAlgorithm_, s.confidentialityLayer⟩

theorem keysOfSession_sessionOf (r : Nat) (hr : r < 4294967296) (a i c : UInt8) (sik k1 k2 : Bytes) :
    keysOfSession (Lemmas.GenHs.sessionOf 1 r a i c sik k1 k2) = ⟨1, r, i.toNat, k1, k2.take 16⟩ := by
  unfold keysOfSession Lemmas.GenHs.sessionOf hasherOf
  simp only [UInt32.toNat_ofNat_of_lt' hr]
  by_cases h1 : (i == 1) = true
  · simp [h1, hashKey]
  · by_cases h2 : (i == 2) = true
    · simp [h1, h2, hashKey]
    · simp [h1, h2, hashKey]

open Bmc.Gen.Hs Bmc.Gen.Orch in
/-- **C01, whole, about the regenerated code.** -/
theorem generated_session_then_commands (C : Ops) (hC : C.Lawful) (fuel : Nat)
    (sendS : Unit → GetChannelCipherSuitesReq → Unit × GetChannelCipherSuitesRsp × Bool) (tail : Bytes)
    (opts : V2SessionOpts) (cs : Gen.Dec.CipherSuite) (draw : Bytes)
    (hdet : bmc_V2SessionlessTransport_determineCipherSuite fuel sendS tail opts.cipherSuites () = (.ok cs, ()))
    (b : Spec.BmcSide) (hb : b.wf) (h : HashAlg)
    (hauth : authHash (optsOf opts cs).auth = some h)
    (hinteg : (optsOf opts cs).integ = 1 ∨ (optsOf opts cs).integ = 2 ∨ (optsOf opts cs).integ = 4)
    (hconf : (optsOf opts cs).conf = 1) (hpass : b.kuid = (optsOf opts cs).pass) (hkg : b.kg = (optsOf opts cs).kg)
    (handler : BmcReq → UInt8 × Bytes) (bd : Bytes → Bool) (K : Conn Decoded) (hK : K.inbound = 0) (bseq : Nat)
    (cmds : List (Cmd × Bytes × Bytes × String × Opaque)) (hbs : bseq + cmds.length < 4294967296)
    (hc : ∀ e ∈ cmds, e.1.ent < 4294967296) :
    let o := optsOf opts cs
    let rm := GoKeys.copyArr 16 (List.replicate 16 0) draw
    let k : Keys := ⟨1, b.sidc, o.integ.toNat, b.k1 C h (received o rm), (b.k2 C h (received o rm)).take 16⟩
    (∀ e ∈ cmds, ∀ q : Nat, Exchange C k e.1 e.2.1 e.2.2.1
            (handler ⟨q, e.1.fn, e.1.cmd, e.1.body, e.1.ent, e.1.lun, e.1.req⟩).1
            (handler ⟨q, e.1.fn, e.1.cmd, e.1.body, e.1.ent, e.1.lun, e.1.req⟩).2) →
    ∃ sess, (bmc_V2SessionlessTransport_newV2Session fuel sendS (typedO b) (typedR1 C h b o rm) (typedR3 C h b o rm) tail
              (Bmc.Lemmas.GenKeys.mac C) (fun _ _ => ((), some draw)) opts ()).1 = .ok (.ok sess) ∧
            keysOfSession sess = k ∧
            generatedConverse C handler bd (keysOfSession sess) 0 K bseq cmds = generatedAnswers handler bd 0 cmds := by
  intro o rm k hx
  have hlen : ∀ a k m, (C.hmac a k m).length = a.size := hC.hmac_len
  have hs := generated_newV2Session_against_spec_bmc C hlen fuel sendS tail opts cs draw hdet b hb h hauth hinteg hconf hpass hkg
  have hk := keysOfSession_sessionOf b.sidc hb.1 o.auth o.integ o.conf (b.sik C h (received o rm)) (b.k1 C h (received o rm))
    (b.k2 C h (received o rm))
  refine ⟨_, hs, hk, ?_⟩
  rw [hk]
  exact generated_all_commands_answered C hC handler bd k (by show (1 : Nat) < 4294967296; omega) hb.1 0 (by omega) K
    (by rw [hK]; rfl) bseq cmds hbs hc hx

end Bmc.Proofs.EndToEnd
