import Bmc.Proofs.GenLoops.BuildAndSend
import Bmc.Proofs.GenLoops.BuildAndSendCommand
import Bmc.Proofs.C10
import Bmc.Lemmas.SessionSpec
/-! # C13 (the logic part), about the retry loops AS REGENERATED on this run

C13 proper is about wall-clock time and is proved on the tick model of `Proofs/C13.lean`. What a function of states CAN say about the
translated loops: the transport is handed at most ONE datagram per outcome the caller's context allows (the outcome script is what
happens before the context ends), NOTHING after the context has ended in the back-off, and a call entered with a context that has
already ended serialises its one packet, fails in the transport and returns — no retry, no datagram. -/
namespace Bmc.Proofs.EndToEnd
open Bmc Bmc.Wire Bmc.Crypto Bmc.Proto Bmc.GoOrch Bmc.GoLoops Bmc.Gen.Loops Bmc.Lemmas.GenLoops Bmc.Proofs.GenLoops

/-- in a session: never more transmissions than outcomes before the context's end -/
theorem generated_session_loop_stops_with_context (C : Ops) (c : Cmd) (hc : c.ent < 4294967296) (hf : c.reqFails = false) (s : Sess)
    (hs : s.inbound < 4294967296) (hL : s.localID < 4294967296) (hr : s.remoteID < 4294967296)
    (ivs : List Bytes) (script : List Outcome) (hne : script ≠ []) (hl : script.length ≤ ivs.length)
    (fuel : Nat) (hfu : script.length ≤ fuel) (bd : Bytes → Bool) (name : String) (rsp : Opaque)
    (K : Conn Decoded) (hK : K.inbound = UInt32.ofNat s.inbound) :
    (V2Session_SendCommand (sessWorld C s.keys c bd) fuel (sessConsts s.keys) (cmdOf c name rsp)
        ({ ivs := ivs, script := script, sent := [] }, K)).2.1.sent.length ≤ script.length := by
  obtain ⟨h1, _, _⟩ := V2Session_SendCommand_gen_eq C c hc s hs hL hr ivs script hne hl fuel hfu bd name rsp [] K hK
  simp only [List.nil_append] at h1
  rw [h1, (Proofs.C10.session_send_refines C c hf s hs ivs script hl).2]
  simp only [List.length_map, List.length_range]
  exact expected_le _ _

/-- … with a context that has already ended: one packet serialised (its IV drawn, the counter advanced), nothing handed to the
    transport, the transport's error returned -/
theorem generated_session_loop_expired_context (C : Ops) (c : Cmd) (hf : c.reqFails = false) (k : Keys) (ivs : List Bytes)
    (fuel : Nat) (bd : Bytes → Bool) (name : String) (rsp : Opaque) (sent0 : List Bytes) (K : Conn Decoded) :
    let r := V2Session_buildAndSend (sessWorld C k c bd) (fuel + 1) (sessConsts k) (cmdOf c name rsp)
              ({ ivs := ivs, script := [], sent := sent0 }, K)
    r.1 = .ok (some .transport) ∧ r.2.1.sent = sent0 :=
  ⟨(V2Session_buildAndSend_expired_context C c hf k ivs fuel bd name rsp sent0 K).1,
   (V2Session_buildAndSend_expired_context C c hf k ivs fuel bd name rsp sent0 K).2.1⟩

theorem slExpected_le (cls : Bytes → Class) (script : List Outcome) : (slExpected cls script).1 ≤ script.length := by
  induction script with
  | nil => simp [slExpected]
  | cons o rest ih =>
    cases o with
    | lost => simp only [slExpected, List.length_cons]; omega
    | reply d => simp only [slExpected]; split <;> simp <;> omega

/-- outside a session: never more transmissions than outcomes before the context's end -/
theorem generated_sessionless_loop_stops_with_context (c : Cmd) (hc : c.ent < 4294967296) (hf : c.reqFails = false)
    (script : List Outcome) (fuel : Nat) (hfu : script.length + 1 ≤ fuel) (bd : Bytes → Bool) (name : String) (rsp : Opaque)
    (ivs : List Bytes) (K : Conn Decoded) :
    (V2Sessionless_SendCommand (slWorld c bd) fuel (cmdOf c name rsp) ({ ivs := ivs, script := script, sent := [] }, K)).2.1.sent.length
      ≤ script.length := by
  obtain ⟨h1, _, _⟩ := V2Sessionless_SendCommand_gen_eq c hc script fuel hfu bd name rsp ivs [] K
  simp only [List.nil_append] at h1
  rw [h1, (Proofs.C10.sessionless_send_refines c hf script).2, List.length_replicate]
  exact slExpected_le _ _

end Bmc.Proofs.EndToEnd
