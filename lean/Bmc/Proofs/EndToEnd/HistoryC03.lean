import Bmc.Proofs.EndToEnd.HistoryC09
import Bmc.Proofs.C03
/-! # C03, HISTORY form, about `SendCommand` AS REGENERATED on this run

C03 says EVERY packet sent in a session is authenticated, encrypted and well-formed. `SessionC03.generated_loop_datagrams` says it
of the datagrams of one command. Here it is said of the whole life of a session: command after command run by the translated
`SendCommand` (which threads its own connection value from call to call), each with any number of retransmissions, temporary
codes, undecodable or forged replies and transport failures. Every datagram that reaches the transport anywhere in that history
is `datagramOf` one of the history's commands under one of that command's own IV draws (`generated_history_datagrams`), and
therefore (`generated_history_packets_open`) the BMC, holding the session's keys, opens it: the AuthCode verifies under K1,
the authenticated and encrypted flags are set, the session ID is the BMC's, the payload decrypts under K2 to a checksum-valid IPMI
message, and that message is the caller's command with the caller's request body. -/
namespace Bmc.Proofs.EndToEnd
open Bmc Bmc.Wire Bmc.Crypto Bmc.Proto Bmc.GoOrch Bmc.GoLoops Bmc.Gen.Loops Bmc.Lemmas.GenLoops Bmc.Proofs.GenLoops Bmc.Proofs.C09
open Bmc.Proofs.C03

/-- hand model: every datagram of a history is the packet of one of its commands under one of that command's IV draws -/
theorem history_datagrams (C : Ops) (h : List (Cmd × List Bytes × List Outcome))
    (hok : ∀ e ∈ h, e.1.reqFails = false ∧ e.2.2.length ≤ e.2.1.length) :
    ∀ (s : Sess), s.inbound < 4294967296 →
      ∀ p ∈ (runHistory C s h).2, ∃ e ∈ h, ∃ inb, ∃ iv ∈ e.2.1, p = datagramOf C s.keys e.1 inb iv := by
  induction h with
  | nil => intro s _ p hp; simp [runHistory] at hp
  | cons e rest ih =>
    intro s hs p hp
    obtain ⟨c, ivs, script⟩ := e
    obtain ⟨hf, hl⟩ := hok (c, ivs, script) (by simp)
    simp only [] at hf hl
    obtain ⟨_, h2, hk, _⟩ := sendLoop_spec C c hf s hs ivs script hl
    simp only [runHistory, List.mem_append] at hp
    rcases hp with hp | hp
    · rw [h2] at hp
      obtain ⟨i, hi, rfl⟩ := List.mem_map.mp hp
      have hi' : i < ivs.length := by
        have := expected_le (classify C s.keys c) script
        have := List.mem_range.mp hi
        omega
      refine ⟨(c, ivs, script), by simp, (s.inbound + i) % 4294967296, ivs[i], List.getElem_mem hi', ?_⟩
      simp only [nthDatagram, List.getD_eq_getElem?_getD, List.getElem?_eq_getElem hi', Option.getD_some]
    · have hs' := sendLoop_inbound_lt C c s hs ivs script hl
      obtain ⟨e, he, inb, iv, hiv, rfl⟩ := ih (fun e he => hok e (by simp [he])) _ hs' p hp
      exact ⟨e, by simp [he], inb, iv, hiv, by rw [hk]⟩

/-- **C03, history form, about the translated code**: every datagram handed to the transport during the whole history -/
theorem generated_history_datagrams (C : Ops) (bd : Bytes → Bool) (h : List HistItem) (hok : ∀ e ∈ h, e.ok)
    (s : Sess) (K : Conn Decoded) (hs : s.inbound < 4294967296) (hL : s.localID < 4294967296) (hr : s.remoteID < 4294967296)
    (hK : K.inbound = UInt32.ofNat s.inbound) :
    ∀ p ∈ generatedHistory C s.keys bd K h, ∃ e ∈ h, ∃ inb, ∃ iv ∈ e.2.2.2.1, p = datagramOf C s.keys e.1 inb iv := by
  rw [generatedHistory_eq C bd h hok s K hs hL hr hK]
  intro p hp
  obtain ⟨e, he, inb, iv, hiv, rfl⟩ := history_datagrams C (h.map modelItem) (by
    intro e he
    obtain ⟨e', he', rfl⟩ := List.mem_map.mp he
    exact ⟨(hok e' he').1, (hok e' he').2.2.2⟩) s hs p hp
  obtain ⟨e', he', rfl⟩ := List.mem_map.mp he
  exact ⟨e', he', inb, iv, hiv, rfl⟩

/-- … and THE BMC OPENS EVERY ONE OF THEM to a command of the history: for every lawful crypto instance, when the IV draws are
    16 bytes (the AES block size: `crypto/rand` fills a 16-byte array) and the encrypted payloads fit the 16-bit length field -/
theorem generated_history_packets_open (C : Ops) (hC : C.Lawful) (bd : Bytes → Bool) (h : List HistItem) (hok : ∀ e ∈ h, e.ok)
    (s : Sess) (K : Conn Decoded) (hs : s.inbound < 4294967296) (hL : s.localID < 4294967296) (hr : s.remoteID < 4294967296)
    (hK : K.inbound = UInt32.ofNat s.inbound)
    (hiv : ∀ e ∈ h, ∀ iv ∈ e.2.2.2.1, iv.length = 16 ∧ (aesPayload C s.keys e.1 iv).length < 65536)
    (hwf : ∀ e ∈ h, (requestMessage e.1).WF) :
    ∀ p ∈ generatedHistory C s.keys bd K h, ∃ e ∈ h, ∃ v a m,
      p.take 4 = [6, 0, 0xFF, 7] ∧
      V2Session.decode (integMac C s.keys.integ s.keys.k1) (p.drop 4) = .ok v ∧
      v.authenticated = true ∧ v.encrypted = true ∧ v.payloadType = 0 ∧ v.id = s.remoteID ∧
      AESLayer.decode C s.keys.k2 v.payload = .ok a ∧
      Message.decode 8 a.payload = .ok m ∧
      m.function = e.1.fn ∧ m.command = e.1.cmd ∧ m.body = e.1.body ∧ m.enterprise = e.1.ent ∧ m.remoteAddress = 0x20 ∧
      m.remoteLUN = e.1.lun ∧ m.localAddress = 0x81 ∧ m.payload = e.1.req := by
  intro p hp
  obtain ⟨e, he, inb, iv, hmem, rfl⟩ := generated_history_datagrams C bd h hok s K hs hL hr hK p hp
  obtain ⟨h16, hlen⟩ := hiv e he iv hmem
  obtain ⟨v, hv, a1, a2, a3, a4, _, a6⟩ := wrapper_opens C s.keys hr e.1 inb iv hlen
  obtain ⟨m, hm, b⟩ := message_is_the_command e.1 (hwf e he)
  refine ⟨e, he, v, { contents := iv, payload := messageBytes e.1 }, m, ?_, hv, a1, a2, a3, a4, ?_, hm, b⟩
  · rw [datagram_shape]; rfl
  · rw [a6]; exact payload_decrypts C hC s.keys e.1 iv h16

end Bmc.Proofs.EndToEnd

namespace Bmc.Proofs.EndToEnd
open Bmc Bmc.Wire Bmc.Crypto Bmc.Proto Bmc.Proofs.C03

/-- the hypotheses are satisfiable: a two-command history (Get Device ID answered by silence; a DCMI Get Power Reading sent twice)
    meets `HistItem.ok`, its IV draws are 16 bytes, its encrypted payloads fit, and its request messages are well-formed -/
def exampleIV : Bytes := List.replicate 16 7
def exampleHistory : List HistItem :=
  [({ fn := 6, cmd := 1 }, "Get Device ID", 0, [exampleIV], [.lost]),
   ({ fn := 0x2c, cmd := 2, body := 0xdc, req := [1, 2, 3] }, "Get Power Reading", 0, [exampleIV, exampleIV], [.reply [], .lost])]

example : (∀ e ∈ exampleHistory, e.ok) ∧
    (∀ e ∈ exampleHistory, ∀ iv ∈ e.2.2.2.1, iv.length = 16 ∧ (aesPayload toy ({} : Sess).keys e.1 iv).length < 65536) ∧
    (∀ e ∈ exampleHistory, (requestMessage e.1).WF) := by
  refine ⟨?_, ?_, ?_⟩ <;> simp only [exampleHistory, List.mem_cons, List.not_mem_nil, or_false, forall_eq_or_imp, forall_eq]
  · exact ⟨⟨rfl, by decide, by decide, by decide⟩, ⟨rfl, by decide, by decide, by decide⟩⟩
  · decide
  · exact ⟨⟨by decide, by decide, by decide, by decide, by decide, by decide, by decide, by decide⟩,
           ⟨by decide, by decide, by decide, by decide, by decide, by decide, by decide, by decide⟩⟩

end Bmc.Proofs.EndToEnd
