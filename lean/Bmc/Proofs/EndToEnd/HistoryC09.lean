import Bmc.Proofs.GenLoops.BuildAndSend
import Bmc.Proofs.C09
import Bmc.Lemmas.GenLoopsSessionRes
/-! # C09, HISTORY form, about `SendCommand` AS REGENERATED on this run

`generatedHistory`: command after command on one session, each run by the translated `SendCommand`, which threads ITS OWN connection
value (sequence counter, layer structs, buffer) from one call to the next. `generatedHistory_eq`: the datagrams it hands to the
transport over the whole history are those of the hand model's `runHistory`; hence C09's history theorems hold of the translated code:
sequence numbers counter+1, counter+2, … with no gap and no repeat, all addressed to the BMC's session ID, across any sequence of
commands, retransmissions, temporary codes, undecodable or forged replies and transport failures. -/
namespace Bmc.Proofs.EndToEnd
open Bmc Bmc.Wire Bmc.Crypto Bmc.Proto Bmc.GoOrch Bmc.GoLoops Bmc.Gen.Loops Bmc.Lemmas.GenLoops Bmc.Proofs.GenLoops Bmc.Proofs.C09

/-- (command, its name, its response layer, the IV draws, what happens to each transmission) -/
abbrev HistItem := Cmd × String × Opaque × List Bytes × List Outcome

def generatedHistory (C : Ops) (k : Keys) (bd : Bytes → Bool) : Conn Decoded → List HistItem → List Bytes
  | _, [] => []
  | K, (c, name, rsp, ivs, script) :: rest =>
    let r := V2Session_SendCommand (sessWorld C k c bd) script.length (sessConsts k) (cmdOf c name rsp)
              ({ ivs := ivs, script := script, sent := [] }, K)
    r.2.1.sent ++ generatedHistory C k bd r.2.2 rest

def modelItem (e : HistItem) : Cmd × List Bytes × List Outcome := (e.1, e.2.2.2.1, e.2.2.2.2)

/-- well-posed history item: the request serialises, the enterprise number fits its Go type, the context allows at least one
    outcome and there is an IV draw for every transmission -/
def HistItem.ok (e : HistItem) : Prop :=
  e.1.reqFails = false ∧ e.1.ent < 4294967296 ∧ e.2.2.2.2 ≠ [] ∧ e.2.2.2.2.length ≤ e.2.2.2.1.length

theorem generatedHistory_eq (C : Ops) (bd : Bytes → Bool) (h : List HistItem) (hok : ∀ e ∈ h, e.ok) :
    ∀ (s : Sess) (K : Conn Decoded), s.inbound < 4294967296 → s.localID < 4294967296 → s.remoteID < 4294967296 →
      K.inbound = UInt32.ofNat s.inbound →
      generatedHistory C s.keys bd K h = (runHistory C s (h.map modelItem)).2 := by
  induction h with
  | nil => intro s K _ _ _ _; rfl
  | cons e rest ih =>
    intro s K hs hL hr hK
    obtain ⟨c, name, rsp, ivs, script⟩ := e
    obtain ⟨hf, hc, hne, hl⟩ := hok (c, name, rsp, ivs, script) (by simp)
    simp only [] at hf hc hne hl
    obtain ⟨a1, a2, _⟩ := V2Session_SendCommand_gen_eq C c hc s hs hL hr ivs script hne hl script.length (Nat.le_refl _) bd name rsp [] K hK
    simp only [List.nil_append] at a1
    obtain ⟨_, _, hk, _⟩ := sendLoop_spec C c hf s hs ivs script hl
    have hs' := sendLoop_inbound_lt C c s hs ivs script hl
    have hL' : (sendLoop C c s ivs script).1.localID < 4294967296 := by
      have := congrArg Keys.localID hk; simp only [Sess.keys] at this; rw [this]; exact hL
    have hr' : (sendLoop C c s ivs script).1.remoteID < 4294967296 := by
      have := congrArg Keys.remoteID hk; simp only [Sess.keys] at this; rw [this]; exact hr
    have hK' : (V2Session_SendCommand (sessWorld C s.keys c bd) script.length (sessConsts s.keys) (cmdOf c name rsp)
        ({ ivs := ivs, script := script, sent := [] }, K)).2.2.inbound = UInt32.ofNat (sendLoop C c s ivs script).1.inbound := by
      rw [← a2, UInt32.ofNat_toNat]
    have hrec := ih (fun e he => hok e (by simp [he])) (sendLoop C c s ivs script).1 _ hs' hL' hr' hK'
    rw [hk] at hrec
    simp only [generatedHistory, List.map_cons, modelItem, runHistory]
    rw [a1, hrec]

/-- **C09, history form, about the translated code** -/
theorem generated_history_sequence_numbers (C : Ops) (bd : Bytes → Bool) (h : List HistItem) (hok : ∀ e ∈ h, e.ok)
    (s : Sess) (K : Conn Decoded) (hs : s.inbound < 4294967296) (hL : s.localID < 4294967296) (hr : s.remoteID < 4294967296)
    (hK : K.inbound = UInt32.ofNat s.inbound) :
    (generatedHistory C s.keys bd K h).map seqOf
      = (List.range (generatedHistory C s.keys bd K h).length).map (fun i => (s.inbound + i + 1) % 4294967296) ∧
    (∀ p ∈ generatedHistory C s.keys bd K h, sessionIDOf p = s.remoteID) := by
  rw [generatedHistory_eq C bd h hok s K hs hL hr hK]
  exact history_seqs C s hs hr (h.map modelItem) (by
    intro e he
    obtain ⟨e', he', rfl⟩ := List.mem_map.mp he
    exact (hok e' he').2.2.2)

/-- … and NO NUMBER IS USED FOR TWO DATAGRAMS, for every starting counter (0xFFFFFFFF included) and every history of at most 2^32
    transmissions -/
theorem generated_history_no_reuse (C : Ops) (bd : Bytes → Bool) (h : List HistItem) (hok : ∀ e ∈ h, e.ok)
    (s : Sess) (K : Conn Decoded) (hs : s.inbound < 4294967296) (hL : s.localID < 4294967296) (hr : s.remoteID < 4294967296)
    (hK : K.inbound = UInt32.ofNat s.inbound) (hn : (generatedHistory C s.keys bd K h).length ≤ 4294967296)
    (i j : Nat) (hij : i < j) (hj : j < (generatedHistory C s.keys bd K h).length) :
    ((generatedHistory C s.keys bd K h).map seqOf).getD i 0 ≠ ((generatedHistory C s.keys bd K h).map seqOf).getD j 0 := by
  rw [generatedHistory_eq C bd h hok s K hs hL hr hK] at hn hj ⊢
  exact history_no_reuse C s hs hr (h.map modelItem) (by
    intro e he
    obtain ⟨e', he', rfl⟩ := List.mem_map.mp he
    exact (hok e' he').2.2.2) hn i j hij hj

end Bmc.Proofs.EndToEnd
