import Bmc.Proofs.C07.Setup
import Bmc.Proofs.GenDec.OpenSessionRsp
import Bmc.Proofs.GenDec.RAKPMessage1
import Bmc.Proofs.GenDec.RAKPMessage2
import Bmc.Proofs.GenDec.RAKPMessage4
import Bmc.Proofs.GenDec.SessionSelector
import Bmc.Proofs.GenDec.V1Session
/-! # C07 / C17 for the session-setup payloads, stated about the decoders AS REGENERATED on this run
    (same composition as `DecodeC07.lean`: every receiver content, every Go slice whose visible bytes are the
    specification's encoding of a well-formed value) -/
namespace Bmc.Proofs.EndToEnd
open Bmc Bmc.Gen.Dec Bmc.Lemmas.GenDec Bmc.Proofs.C07 Bmc.Proofs.GenDec

theorem generated_OpenSessionRsp_decodes (prev : OpenSessionRsp) (d : GoSlice) (v : Spec.OpenSessionRsp) (hv : v.wf)
    (hd : d.vis = v.encode) :
    (OpenSessionRsp.decodeGo prev d).map OpenSessionRsp.toModel = R.ok (openSessionRspView v) := by
  rw [OpenSessionRsp_gen_eq, Wire.Setup.OpenSessionRsp.decodeGo_refines, hd, openSessionRsp_decode_spec v hv]; rfl

theorem generated_RAKPMessage1_decodes (prev : RAKPMessage1) (d : GoSlice) (v : Spec.RAKP1) (hv : v.wf)
    (hd : d.vis = v.encode) :
    (RAKPMessage1.decodeGo prev d).map RAKPMessage1.toModel = R.ok (rakp1View v) := by
  rw [RAKPMessage1_gen_eq, Wire.Setup.RAKP1.decodeGo_refines, hd, rakp1_decode_spec v hv]; rfl

theorem generated_RAKPMessage2_decodes (prev : RAKPMessage2) (d : GoSlice) (v : Spec.RAKP2) (hv : v.wf)
    (hd : d.vis = v.encode) :
    (RAKPMessage2.decodeGo prev d).map RAKPMessage2.toModel = R.ok (rakp2View v) := by
  rw [RAKPMessage2_gen_eq, Wire.RAKP2.decodeGo_refines, hd, rakp2_decode_spec v hv]; rfl

theorem generated_RAKPMessage4_decodes (prev : RAKPMessage4) (d : GoSlice) (v : Spec.RAKP4) (hv : v.wf)
    (hd : d.vis = v.encode) :
    (RAKPMessage4.decodeGo prev d).map RAKPMessage4.toModel = R.ok (rakp4View v) := by
  rw [RAKPMessage4_gen_eq, Wire.Setup.RAKP4.decodeGo_refines, hd, rakp4_decode_spec v hv]; rfl

theorem generated_SessionSelector_decodes (prev : SessionSelector) (d : GoSlice) (v : Spec.SessionWrapper)
    (hd : d.vis = v.encode) :
    (SessionSelector.decodeGo prev d).map SessionSelector.toModel = R.ok { isRMCPPlus := v.isV2, payload := v.encode } := by
  rw [SessionSelector_gen_eq, Wire.Setup.Selector.decodeGo_refines, hd, selector_decode_spec v]; rfl

theorem generated_V1Session_decodes (prev : V1Session) (d : GoSlice) (v : Spec.V1Packet) (hv : v.wf)
    (hd : d.vis = v.encode) :
    (V1Session.decodeGo prev d).map V1Session.toModel = R.ok (v1View v) := by
  rw [V1Session_gen_eq, Wire.V1Session.decodeGo_refines, hd, v1_decode_spec v hv]; rfl

end Bmc.Proofs.EndToEnd
