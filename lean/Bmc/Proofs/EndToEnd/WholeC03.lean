import Bmc.Proofs.EndToEnd.WholeC01
import Bmc.Proofs.EndToEnd.HistoryC03
/-! # C03 whole: a session established by the regenerated `newV2Session`, then ANY history on the regenerated `SendCommand`

`WholeC01` follows a conversation with a BMC that answers. C03 is about what the console SENDS, whatever comes back: here the session
is the one the translated `newV2Session` returns against the specification's BMC, and the history that follows is arbitrary —
replies, forgeries, garbage, losses, expired contexts, any number of commands. Every datagram the translated `SendCommand` then hands
to the transport opens AT THAT BMC, under the K1 and K2 the BMC derived for itself during the handshake: RMCP header, AuthCode
verified, authenticated and encrypted flags, the BMC's session ID, AES payload decrypting to a checksum-valid IPMI message that is
the caller's command with the caller's request body. -/
namespace Bmc.Proofs.EndToEnd
open Bmc Bmc.Wire Bmc.Crypto Bmc.Proto Bmc.GoOrch Bmc.GoLoops Bmc.Gen.Loops Bmc.Lemmas.GenLoops Bmc.Lemmas.GenHs
open Bmc.Spec Bmc.Proofs.C03 Bmc.Proofs.C01

open Bmc.Gen.Hs Bmc.Gen.Orch in
theorem generated_session_then_history_opens (C : Ops) (hC : C.Lawful) (fuel : Nat)
    (sendS : Unit → GetChannelCipherSuitesReq → Unit × GetChannelCipherSuitesRsp × Bool) (tail : Bytes)
    (opts : V2SessionOpts) (cs : Gen.Dec.CipherSuite) (draw : Bytes)
    (hdet : bmc_V2SessionlessTransport_determineCipherSuite fuel sendS tail opts.cipherSuites () = (.ok cs, ()))
    (b : Spec.BmcSide) (hb : b.wf) (hh : HashAlg)
    (hauth : authHash (optsOf opts cs).auth = some hh)
    (hinteg : (optsOf opts cs).integ = 1 ∨ (optsOf opts cs).integ = 2 ∨ (optsOf opts cs).integ = 4)
    (hconf : (optsOf opts cs).conf = 1) (hpass : b.kuid = (optsOf opts cs).pass) (hkg : b.kg = (optsOf opts cs).kg)
    (bd : Bytes → Bool) (K : Conn Decoded) (hK : K.inbound = 0)
    (h : List HistItem) (hok : ∀ e ∈ h, e.ok) :
    let o := optsOf opts cs
    let rm := GoKeys.copyArr 16 (List.replicate 16 0) draw
    let k : Keys := ⟨1, b.sidc, o.integ.toNat, b.k1 C hh (received o rm), (b.k2 C hh (received o rm)).take 16⟩
    (∀ e ∈ h, ∀ iv ∈ e.2.2.2.1, iv.length = 16 ∧ (aesPayload C k e.1 iv).length < 65536) →
    (∀ e ∈ h, (requestMessage e.1).WF) →
    ∃ sess, (bmc_V2SessionlessTransport_newV2Session fuel sendS (typedO b) (typedR1 C hh b o rm) (typedR3 C hh b o rm) tail
              (Bmc.Lemmas.GenKeys.mac C) (fun _ _ => ((), some draw)) opts ()).1 = .ok (.ok sess) ∧
      ∀ p ∈ generatedHistory C (keysOfSession sess) bd K h, ∃ e ∈ h, ∃ v a m,
        p.take 4 = [6, 0, 0xFF, 7] ∧
        V2Session.decode (integMac C o.integ.toNat (b.k1 C hh (received o rm))) (p.drop 4) = .ok v ∧
        v.authenticated = true ∧ v.encrypted = true ∧ v.payloadType = 0 ∧ v.id = b.sidc ∧
        AESLayer.decode C ((b.k2 C hh (received o rm)).take 16) v.payload = .ok a ∧
        Message.decode 8 a.payload = .ok m ∧
        m.function = e.1.fn ∧ m.command = e.1.cmd ∧ m.body = e.1.body ∧ m.enterprise = e.1.ent ∧ m.remoteAddress = 0x20 ∧
        m.remoteLUN = e.1.lun ∧ m.localAddress = 0x81 ∧ m.payload = e.1.req := by
  intro o rm k hiv hwf
  have hlen : ∀ a k m, (C.hmac a k m).length = a.size := hC.hmac_len
  have hs := generated_newV2Session_against_spec_bmc C hlen fuel sendS tail opts cs draw hdet b hb hh hauth hinteg hconf hpass hkg
  have hk := keysOfSession_sessionOf b.sidc hb.1 o.auth o.integ o.conf (b.sik C hh (received o rm)) (b.k1 C hh (received o rm))
    (b.k2 C hh (received o rm))
  refine ⟨_, hs, ?_⟩
  rw [hk]
  exact generated_history_packets_open C hC bd h hok k.sess K (by show (0 : Nat) < 4294967296; omega)
    (by show (1 : Nat) < 4294967296; omega) hb.1 (by rw [hK]; rfl) hiv hwf

end Bmc.Proofs.EndToEnd
