import Bmc.Proofs.EndToEnd.HistoryC10
/-! # C13, HISTORY form, about `SendCommand` AS REGENERATED on this run

In the models a context is the list of outcomes it lets a call see: `script.length` replies or losses, then it is done. C13's logical
half — a call does nothing once its context has ended — for a whole history: the translated `SendCommand`, call after call on one
session, never hands the transport more datagrams than the contexts of the calls made so far allowed outcomes, whatever was
answered; in particular a call cannot send on the account of an earlier call's unused allowance more than the total permits.
(The wall-clock half — that each wait really ends with the deadline — is the time model and the real-socket scenarios.) -/
namespace Bmc.Proofs.EndToEnd
open Bmc Bmc.Wire Bmc.Crypto Bmc.Proto Bmc.GoOrch Bmc.GoLoops Bmc.Gen.Loops Bmc.Lemmas.GenLoops Bmc.Proofs.GenLoops Bmc.Proofs.C09

/-- outcomes the contexts of a history allow in total -/
def allowance : List (Cmd × List Bytes × List Outcome) → Nat
  | [] => 0
  | (_, _, script) :: rest => script.length + allowance rest

theorem contract_length_le (C : Ops) (k : Keys) (h : List (Cmd × List Bytes × List Outcome)) :
    ∀ inb, (contract C k inb h).length ≤ allowance h := by
  induction h with
  | nil => intro _; simp [contract, allowance]
  | cons e rest ih =>
    intro inb
    obtain ⟨c, ivs, script⟩ := e
    have h1 := expected_le (classify C k c) script
    have h2 := ih ((inb + (expected (classify C k c) script).1) % 4294967296)
    simp only [contract, allowance, List.length_append, List.length_map, List.length_range]
    omega

/-- **C13 (logical half), history form, about the translated code** -/
theorem generated_history_within_contexts (C : Ops) (bd : Bytes → Bool) (h : List HistItem) (hok : ∀ e ∈ h, e.ok)
    (s : Sess) (K : Conn Decoded) (hs : s.inbound < 4294967296) (hL : s.localID < 4294967296) (hr : s.remoteID < 4294967296)
    (hK : K.inbound = UInt32.ofNat s.inbound) :
    (generatedHistory C s.keys bd K h).length ≤ allowance (h.map modelItem) := by
  rw [generated_history_is_the_contract C bd h hok s K hs hL hr hK]
  exact contract_length_le C s.keys _ _

/-- … and prefix by prefix: after the first `n` calls no more has been sent than THEIR contexts allowed (the history's prefix is a
    history) -/
theorem generated_history_prefix_within_contexts (C : Ops) (bd : Bytes → Bool) (h : List HistItem) (hok : ∀ e ∈ h, e.ok)
    (s : Sess) (K : Conn Decoded) (hs : s.inbound < 4294967296) (hL : s.localID < 4294967296) (hr : s.remoteID < 4294967296)
    (hK : K.inbound = UInt32.ofNat s.inbound) (n : Nat) :
    (generatedHistory C s.keys bd K (h.take n)).length ≤ allowance ((h.take n).map modelItem) :=
  generated_history_within_contexts C bd (h.take n) (fun e he => hok e (List.mem_of_mem_take he)) s K hs hL hr hK

/-- where the sequence counter stands after a history -/
def advance (C : Ops) (k : Keys) : Nat → List (Cmd × List Bytes × List Outcome) → Nat
  | inb, [] => inb
  | inb, (c, _, script) :: rest => advance C k ((inb + (expected (classify C k c) script).1) % 4294967296) rest

theorem contract_append (C : Ops) (k : Keys) (h1 h2 : List (Cmd × List Bytes × List Outcome)) :
    ∀ inb, contract C k inb (h1 ++ h2) = contract C k inb h1 ++ contract C k (advance C k inb h1) h2 := by
  induction h1 with
  | nil => intro _; simp [contract, advance]
  | cons e rest ih =>
    intro inb
    obtain ⟨c, ivs, script⟩ := e
    simp only [List.cons_append, contract, advance, ih, List.append_assoc]

/-- **per call**: the `n`-th call of a history adds at most as many datagrams as ITS OWN context allowed outcomes — an earlier
    call's unused allowance is not carried over -/
theorem generated_history_call_within_its_context (C : Ops) (bd : Bytes → Bool) (h : List HistItem) (hok : ∀ e ∈ h, e.ok)
    (s : Sess) (K : Conn Decoded) (hs : s.inbound < 4294967296) (hL : s.localID < 4294967296) (hr : s.remoteID < 4294967296)
    (hK : K.inbound = UInt32.ofNat s.inbound) (n : Nat) (hn : n < h.length) :
    (generatedHistory C s.keys bd K (h.take (n + 1))).length
      ≤ (generatedHistory C s.keys bd K (h.take n)).length + h[n].2.2.2.2.length := by
  have e1 := generated_history_is_the_contract C bd (h.take (n + 1)) (fun e he => hok e (List.mem_of_mem_take he)) s K hs hL hr hK
  have e2 := generated_history_is_the_contract C bd (h.take n) (fun e he => hok e (List.mem_of_mem_take he)) s K hs hL hr hK
  rw [e1, e2, List.take_succ_eq_append_getElem hn, List.map_append, contract_append, List.length_append]
  have := contract_length_le C s.keys [modelItem h[n]] (advance C s.keys s.inbound ((h.take n).map modelItem))
  have ha : allowance [modelItem h[n]] = h[n].2.2.2.2.length := by simp [allowance, modelItem]
  rw [ha] at this
  simp only [List.map_cons, List.map_nil]
  omega

end Bmc.Proofs.EndToEnd
