import Bmc.Proofs.EndToEnd.HistoryC09
import Bmc.Proofs.C04
import Bmc.Proofs.C11
/-! # C11 and C04, HISTORY form, about `SendCommand` AS REGENERATED on this run

`generatedResults`: what the translated `SendCommand` RETURNS, command after command on one session (the same run as
`HistoryC09.generatedHistory`, which collects what it SENDS). `generated_history_results`: whenever any call of the history returns a
completion code with a nil error, a reply delivered DURING THAT CALL decoded to an IPMI message for THAT call's command (network
function + 1, command number, group-extension body code, OEM enterprise number) carrying that completion code (C11), inside a
session wrapper addressed to this session which — in a session with an integrity algorithm — has the authenticated flag set and
whose AuthCode is the negotiated keyed hash under K1 of everything before it (C04). No hypothesis on what the BMC or anyone else
sends, on how many commands went before, or on what happened to them. That the premise is reachable — calls DO return completion codes —
is `SessionC10.generated_SendCommand_busy_then_final` and `SessionC01.generated_all_commands_answered` (a conforming BMC's answers are
accepted); that `HistItem.ok` histories exist is the example in `HistoryC03.lean`. -/
namespace Bmc.Proofs.EndToEnd
open Bmc Bmc.Wire Bmc.Crypto Bmc.Proto Bmc.GoOrch Bmc.GoLoops Bmc.Gen.Loops Bmc.Lemmas.GenLoops Bmc.Proofs.GenLoops Bmc.Proofs.C09

def generatedResults (C : Ops) (k : Keys) (bd : Bytes → Bool) : Conn Decoded → List HistItem → List (RF (UInt8 × Option GoErr))
  | _, [] => []
  | K, (c, name, rsp, ivs, script) :: rest =>
    let r := V2Session_SendCommand (sessWorld C k c bd) script.length (sessConsts k) (cmdOf c name rsp)
              ({ ivs := ivs, script := script, sent := [] }, K)
    r.1 :: generatedResults C k bd r.2.2 rest

/-- what a returned completion code is evidence of -/
def ResultJustified (C : Ops) (k : Keys) (e : HistItem) (r : RF (UInt8 × Option GoErr)) : Prop :=
  ∀ cc, r = .ok (cc, none) →
    ∃ d rm p v2 msg, Outcome.reply d ∈ e.2.2.2.2 ∧
      view (onReply C k.sess (GoSlice.ofBytes d)) = (.message, some (v2, msg)) ∧
      msg.function = e.1.fn + 1 ∧ msg.command = e.1.cmd ∧ msg.body = e.1.body ∧ msg.enterprise = e.1.ent ∧
      msg.completionCode = cc ∧
      RMCP.decodeGo {} (GoSlice.ofBytes d) = .ok (rm, p) ∧
      (∃ w2, V2Session.decode (integMac C k.integ k.k1) p.vis = .ok w2 ∧
        (k.integ ≠ 0 → w2.authenticated = true) ∧ w2.id = k.localID ∧
        (w2.authenticated = true → ∃ off, off ≤ p.vis.length ∧ w2.signature = p.vis.drop off ∧
            p.vis.drop off = integMac C k.integ k.k1 (p.vis.take off)))

theorem sendCommand_result_justified (C : Ops) (c : Cmd) (hc : c.ent < 4294967296) (hf : c.reqFails = false) (s : Sess)
    (hs : s.inbound < 4294967296) (hL : s.localID < 4294967296) (hr : s.remoteID < 4294967296)
    (ivs : List Bytes) (script : List Outcome) (hne : script ≠ []) (hl : script.length ≤ ivs.length)
    (bd : Bytes → Bool) (name : String) (rsp : Opaque) (K : Conn Decoded) (hK : K.inbound = UInt32.ofNat s.inbound) :
    ResultJustified C s.keys (c, name, rsp, ivs, script)
      (V2Session_SendCommand (sessWorld C s.keys c bd) script.length (sessConsts s.keys) (cmdOf c name rsp)
        ({ ivs := ivs, script := script, sent := [] }, K)).1 := by
  intro cc hres
  obtain ⟨_, _, a3⟩ := V2Session_SendCommand_gen_eq C c hc s hs hL hr ivs script hne hl script.length (Nat.le_refl _) bd name rsp [] K hK
  rw [hres] at a3
  cases hm : (sendLoop C c s ivs script).2.2 with
  | ok cc' p =>
    rw [hm] at a3
    simp only [RF.ok.injEq, Prod.mk.injEq] at a3
    obtain ⟨rfl, _⟩ := a3
    rw [(sendLoop_spec C c hf s hs ivs script hl).1] at hm
    obtain ⟨d, hd, hcl⟩ := expected_ok_inv _ _ _ _ hm
    obtain ⟨v2, msg, hv, hacc, _, hcc, _⟩ := classify_final_inv C s.keys c d cc p hcl
    obtain ⟨rm, q, hrm, hv2, _⟩ := onReply_message_inv C s.keys.sess (GoSlice.ofBytes d) v2 msg hv
    have hdec : V2Session.decode (integMac C s.integ s.k1) q.vis = .ok v2 := by
      have := V2Session.decodeGo_refines (integMac C s.integ s.k1) ({} : V2Session) q
      have hv2' : V2Session.decodeGo (integMac C s.integ s.k1) {} q = .ok v2 := hv2
      rw [hv2'] at this
      cases hd' : V2Session.decode (integMac C s.integ s.k1) q.vis with
      | error e => rw [hd'] at this; cases this
      | ok v => rw [hd'] at this; simp at this; rw [this]
    simp only [accept, Bool.and_eq_true, Bool.or_eq_true, beq_iff_eq] at hacc
    refine ⟨d, rm, q, v2, msg, hd, hv, hacc.1.1.1.2, hacc.1.1.2, hacc.1.2, hacc.2, hcc, hrm, v2, hdec, ?_, hacc.1.1.1.1.2, ?_⟩
    · intro hne'
      rcases hacc.1.1.1.1.1 with h0 | h1
      · exact absurd h0 hne'
      · exact h1
    · intro ha
      exact Bmc.Proto.V2Session.decode_sig _ _ _ hdec ha
  | transportErr => rw [hm] at a3; simp at a3
  | serializeErr => rw [hm] at a3; simp at a3
  | ctxExpired => rw [hm] at a3; simp at a3
  | crashed => rw [hm] at a3; simp at a3

/-- **C11 + C04, history form, about the translated code**: one result per command, and every returned completion code is
    justified by an authentic reply, delivered during that very call, to that call's command -/
theorem generated_history_results (C : Ops) (bd : Bytes → Bool) (h : List HistItem) (hok : ∀ e ∈ h, e.ok) :
    ∀ (s : Sess) (K : Conn Decoded), s.inbound < 4294967296 → s.localID < 4294967296 → s.remoteID < 4294967296 →
      K.inbound = UInt32.ofNat s.inbound →
      (generatedResults C s.keys bd K h).length = h.length ∧
      ∀ er ∈ h.zip (generatedResults C s.keys bd K h), ResultJustified C s.keys er.1 er.2 := by
  induction h with
  | nil => intro s K _ _ _ _; exact ⟨rfl, by simp [generatedResults]⟩
  | cons e rest ih =>
    intro s K hs hL hr hK
    obtain ⟨c, name, rsp, ivs, script⟩ := e
    obtain ⟨hf, hc, hne, hl⟩ := hok (c, name, rsp, ivs, script) (by simp)
    simp only [] at hf hc hne hl
    obtain ⟨_, a2, _⟩ := V2Session_SendCommand_gen_eq C c hc s hs hL hr ivs script hne hl script.length (Nat.le_refl _) bd name rsp [] K hK
    obtain ⟨_, _, hk, _⟩ := sendLoop_spec C c hf s hs ivs script hl
    have hs' := sendLoop_inbound_lt C c s hs ivs script hl
    have hL' : (sendLoop C c s ivs script).1.localID < 4294967296 := by
      have := congrArg Keys.localID hk; simp only [Sess.keys] at this; rw [this]; exact hL
    have hr' : (sendLoop C c s ivs script).1.remoteID < 4294967296 := by
      have := congrArg Keys.remoteID hk; simp only [Sess.keys] at this; rw [this]; exact hr
    have hK' : (V2Session_SendCommand (sessWorld C s.keys c bd) script.length (sessConsts s.keys) (cmdOf c name rsp)
        ({ ivs := ivs, script := script, sent := [] }, K)).2.2.inbound = UInt32.ofNat (sendLoop C c s ivs script).1.inbound := by
      rw [← a2, UInt32.ofNat_toNat]
    have hrec := ih (fun e he => hok e (by simp [he])) (sendLoop C c s ivs script).1 _ hs' hL' hr' hK'
    rw [hk] at hrec
    have hhead := sendCommand_result_justified C c hc hf s hs hL hr ivs script hne hl bd name rsp K hK
    simp only [generatedResults, List.length_cons, List.zip_cons_cons, List.mem_cons]
    refine ⟨by rw [hrec.1], ?_⟩
    rintro er (rfl | her)
    · exact hhead
    · exact hrec.2 er her

end Bmc.Proofs.EndToEnd
