import Bmc.Proofs.GenLoops.BuildAndSend
import Bmc.Proofs.C09
/-! # The property theorems, stated about the code AS REGENERATED on this run (in-session loop)

`Proofs/GenLoops/BuildAndSend.lean` proves that `Bmc.Gen.Loops.V2Session_buildAndSend` — the body of `(*V2Session).buildAndSend`
as `tools/loopgen` translates it from the Go source on every run — does what the hand model `Proto.sendLoop` does. The property
theorems of C09 and C11 are stated about `sendLoop`. Composing the two gives statements whose subject is the TRANSLATED CODE
itself (over the parameters of `Gen/Loops.lean: World`, instantiated as in `V2Session_buildAndSend_gen_eq`): nothing about the
hand model remains in them. -/
namespace Bmc.Proofs.EndToEnd
open Bmc Bmc.Wire Bmc.Crypto Bmc.Proto Bmc.GoOrch Bmc.GoLoops Bmc.Gen.Loops Bmc.Lemmas.GenLoops Bmc.Proofs.GenLoops

/-- C09 for the regenerated loop: whatever the BMC answers (any non-empty script of outcomes), the datagrams the translated
    `buildAndSend` hands to the transport carry the BMC's session ID and the sequence numbers counter+1, counter+2, … (modulo
    2^32), one per datagram, in transmission order. -/
theorem generated_loop_sequence_numbers (C : Ops) (c : Cmd) (hc : c.ent < 4294967296) (hf : c.reqFails = false) (s : Sess)
    (hs : s.inbound < 4294967296) (hL : s.localID < 4294967296) (hr : s.remoteID < 4294967296)
    (ivs : List Bytes) (script : List Outcome) (hne : script ≠ []) (hl : script.length ≤ ivs.length)
    (fuel : Nat) (hfu : script.length ≤ fuel) (bd : Bytes → Bool) (name : String) (rsp : Opaque)
    (K : Conn Decoded) (hK : K.inbound = UInt32.ofNat s.inbound) :
    let r := V2Session_buildAndSend (sessWorld C s.keys c bd) fuel (sessConsts s.keys) (cmdOf c name rsp)
              ({ ivs := ivs, script := script, sent := [] }, K)
    r.2.1.sent.map seqOf = (List.range r.2.1.sent.length).map (fun i => (s.inbound + i + 1) % 4294967296) ∧
    (∀ p ∈ r.2.1.sent, sessionIDOf p = s.remoteID) := by
  intro r
  obtain ⟨h1, _, _⟩ := V2Session_buildAndSend_gen_eq C c hc s hs hL hr ivs script hne hl fuel hfu bd name rsp [] K hK
  simp only [List.nil_append] at h1
  have hcs := Bmc.Proofs.C09.command_seqs C c hf s hs hr ivs script hl
  show r.2.1.sent.map seqOf = _ ∧ _
  rw [h1]
  exact ⟨hcs.1, hcs.2.1⟩

end Bmc.Proofs.EndToEnd
