import Bmc.Proofs.C07.Basic
import Bmc.Proofs.C07.Sess
import Bmc.Proofs.C07.Sdr
import Bmc.Proofs.C07.Dcmi
import Bmc.Proofs.GenDec.GetDeviceIDRsp
import Bmc.Proofs.GenDec.GetChannelAuthenticationCapabilitiesRsp
import Bmc.Proofs.GenDec.GetChannelCipherSuitesRsp
import Bmc.Proofs.GenDec.SetSessionPrivilegeLevelRsp
import Bmc.Proofs.GenDec.GetSystemGUIDRsp
import Bmc.Proofs.GenDec.GetSessionInfoRsp
import Bmc.Proofs.GenDec.GetChassisStatusRsp
import Bmc.Proofs.GenDec.GetSDRRepositoryInfoRsp
import Bmc.Proofs.GenDec.ReserveSDRRepositoryRsp
import Bmc.Proofs.GenDec.GetSDRRsp
import Bmc.Proofs.GenDec.SDR
import Bmc.Proofs.GenDec.GetSensorReadingRsp
import Bmc.Proofs.GenDec.FullSensorRecord
import Bmc.Proofs.GenDec.GetPowerReadingRsp
import Bmc.Proofs.GenDec.GetDCMISensorInfoRsp
import Bmc.Proofs.GenDec.GetDCMICapabilitiesInfoSupportedCapabilitiesRsp
import Bmc.Proofs.GenDec.GetDCMICapabilitiesInfoMandatoryPlatformAttrsRsp
import Bmc.Proofs.GenDec.GetDCMICapabilitiesInfoOptionalPlatformAttrsRsp
import Bmc.Proofs.GenDec.GetDCMICapabilitiesInfoManageabilityAccessAttrsRsp
import Bmc.Proofs.GenDec.GetDCMICapabilitiesInfoEnhancedSystemPowerStatisticsAttrsRsp
/-! # C07 / C17, stated about the decoders AS REGENERATED on this run

`Proofs/C07/*` prove "decoding the specification's encoding of any well-formed value yields that value" about the
hand-written wire models; `Proofs/GenDec/*` prove that the decoders `tools/decgen` re-translates from
`(*T).DecodeFromBytes` on every run are those models. Composed here: for EVERY previous content of the receiver (C17) and
EVERY Go slice — any capacity, any bytes beyond `len` — whose visible bytes are the specification's encoding of a
well-formed value, the regenerated decoder returns exactly that value's view. -/
namespace Bmc.Proofs.EndToEnd
open Bmc Bmc.Gen.Dec Bmc.Lemmas.GenDec Bmc.Proofs.C07 Bmc.Proofs.GenDec

theorem generated_GetDeviceIDRsp_decodes (prev : GetDeviceIDRsp) (d : GoSlice) (v : Spec.DeviceID) (hv : v.wf)
    (hd : d.vis = v.encode) :
    (GetDeviceIDRsp.decodeGo prev d).map GetDeviceIDRsp.toModel = R.ok (deviceIDView v) := by
  rw [GetDeviceIDRsp_gen_eq, Wire.GetDeviceIDRsp.decodeGo_refines, hd, deviceID_decode_spec v hv]; rfl

theorem generated_AuthCapsRsp_decodes (prev : GetChannelAuthenticationCapabilitiesRsp) (d : GoSlice) (v : Spec.AuthCaps)
    (hv : v.wf) (hd : d.vis = v.encode) :
    (GetChannelAuthenticationCapabilitiesRsp.decodeGo prev d).map GetChannelAuthenticationCapabilitiesRsp.toModel
      = R.ok (authCapsView v) := by
  rw [GetChannelAuthenticationCapabilitiesRsp_gen_eq, (Wire.AuthCapsRsp.decodeGo_canon _ d).1, hd, authCaps_decode_spec v hv]

theorem generated_CipherSuitesRsp_decodes (prev : GetChannelCipherSuitesRsp) (d : GoSlice) (v : Spec.CipherSuites)
    (hv : v.wf) (hd : d.vis = v.encode) :
    (GetChannelCipherSuitesRsp.decodeGo prev d).map GetChannelCipherSuitesRsp.toModel = R.ok (cipherSuitesView v) := by
  rw [GetChannelCipherSuitesRsp_gen_eq, (Wire.CipherSuitesRsp.decodeGo_canon _ d).1, hd, cipherSuites_decode_spec v hv]

theorem generated_SetPrivRsp_decodes (prev : SetSessionPrivilegeLevelRsp) (d : GoSlice) (v : Spec.SetPriv)
    (hv : v.wf) (hd : d.vis = v.encode) :
    (SetSessionPrivilegeLevelRsp.decodeGo prev d).map SetSessionPrivilegeLevelRsp.toModel = R.ok (setPrivView v) := by
  rw [SetSessionPrivilegeLevelRsp_gen_eq, (Wire.SetPrivRsp.decodeGo_canon _ d).1, hd, setPriv_decode_spec v hv]

theorem generated_GUIDRsp_decodes (prev : GetSystemGUIDRsp) (d : GoSlice) (v : Spec.SystemGUID)
    (hv : v.wf) (hd : d.vis = v.encode) :
    (GetSystemGUIDRsp.decodeGo prev d).map GetSystemGUIDRsp.toModel = R.ok (guidView v) := by
  rw [GetSystemGUIDRsp_gen_eq, (Wire.GUIDRsp.decodeGo_canon _ d).1, hd, guid_decode_spec v hv]

theorem generated_SessionInfoRsp_decodes (prev : GetSessionInfoRsp) (d : GoSlice) (v : Spec.SessionInfo)
    (hv : v.wf) (hd : d.vis = v.encode) :
    (GetSessionInfoRsp.decodeGo prev d).map GetSessionInfoRsp.toModel = R.ok (sessionInfoView v) := by
  rw [GetSessionInfoRsp_gen_eq, (Wire.SessionInfoRsp.decodeGo_canon _ d).1, hd, sessionInfo_decode_spec v hv]

theorem generated_ChassisStatusRsp_decodes (prev : GetChassisStatusRsp) (d : GoSlice) (v : Spec.ChassisStatus)
    (hv : v.wf) (hd : d.vis = v.encode) :
    (GetChassisStatusRsp.decodeGo prev d).map GetChassisStatusRsp.toModel = R.ok (chassisView v) := by
  rw [GetChassisStatusRsp_gen_eq, (Wire.GetChassisStatusRsp.decodeGo_canon _ d).1, hd, chassis_decode_spec v hv]

theorem generated_SDRRepoInfoRsp_decodes (prev : GetSDRRepositoryInfoRsp) (d : GoSlice) (v : Spec.SDRRepoInfo)
    (hv : v.wf) (hd : d.vis = v.encode) :
    (GetSDRRepositoryInfoRsp.decodeGo prev d).map GetSDRRepositoryInfoRsp.toModel = R.ok (sdrRepoInfoView v) := by
  rw [GetSDRRepositoryInfoRsp_gen_eq, (Wire.SDRRepoInfoRsp.decodeGo_canon _ d).1, hd, sdrRepoInfo_decode_spec v hv]

theorem generated_ReserveRsp_decodes (prev : ReserveSDRRepositoryRsp) (d : GoSlice) (v : Spec.ReserveSDR)
    (hv : v.wf) (hd : d.vis = v.encode) :
    (ReserveSDRRepositoryRsp.decodeGo prev d).map ReserveSDRRepositoryRsp.toModel
      = R.ok { reservationID := v.reservationID, contents := v.encode } := by
  rw [ReserveSDRRepositoryRsp_gen_eq, (Wire.ReserveRsp.decodeGo_canon _ d).1, hd, reserveSDR_decode_spec v hv]

theorem generated_GetSDRRsp_decodes (prev : GetSDRRsp) (d : GoSlice) (v : Spec.GetSDR) (hv : v.wf) (hd : d.vis = v.encode) :
    (GetSDRRsp.decodeGo prev d).map GetSDRRsp.toModel
      = R.ok { next := v.next, contents := Spec.le16 v.next, payload := v.data } := by
  rw [GetSDRRsp_gen_eq, (Wire.GetSDRRsp.decodeGo_canon _ d).1, hd, getSDR_decode_spec v hv]

theorem generated_FullSensorRecord_decodes (prev : FullSensorRecord) (d : GoSlice) (v : Spec.FullSensor) (hv : v.wf)
    (hd : d.vis = v.encode) :
    (FullSensorRecord.decodeGo prev d).map FullSensorRecord.toModel = R.ok (fullSensorView v) := by
  rw [FullSensorRecord_gen_eq, Wire.FullSensorRecord.decodeGo_refines, hd, fullSensor_decode_spec v hv]; rfl

theorem generated_PowerReadingRsp_decodes (prev : GetPowerReadingRsp) (d : GoSlice) (v : Spec.PowerReading) (hv : v.wf)
    (hd : d.vis = v.encode) :
    (GetPowerReadingRsp.decodeGo prev d).map GetPowerReadingRsp.toModel = R.ok (powerReadingView v) := by
  rw [GetPowerReadingRsp_gen_eq, Wire.PowerReading.decodeGo_refines, hd, powerReading_decode_spec v hv]; rfl

theorem generated_SDRHeader_decodes (prev : SDR) (d : GoSlice) (v : Spec.SDRHeader) (hv : v.wf) (hd : d.vis = v.encode) :
    (SDR.decodeGo prev d).map SDR.toModel
      = R.ok { id := v.id, version := UInt8.ofNat (10 * v.versionMajor + v.versionMinor), typ := v.recordType
               length := UInt8.ofNat v.body.length, contents := v.encode.take 5, payload := v.body } := by
  rw [SDR_gen_eq, (Wire.SDRHeader.decodeGo_canon _ d).1, hd, sdrHeader_decode_spec v hv]

theorem generated_SensorReadingRsp_decodes (prev : GetSensorReadingRsp) (d : GoSlice) (v : Spec.SensorReading)
    (hd : d.vis = v.encode) :
    (GetSensorReadingRsp.decodeGo prev d).map GetSensorReadingRsp.toModel
      = R.ok { reading := v.reading, eventMessagesEnabled := v.eventMessagesEnabled, scanningEnabled := v.scanningEnabled
               readingUnavailable := v.readingUnavailable, contents := v.encode, payload := [] } := by
  rw [GetSensorReadingRsp_gen_eq, (Wire.SensorReadingRsp.decodeGo_canon _ d).1, hd, sensorReading_decode_spec v]

theorem generated_SensorInfoRsp_decodes (prev : GetDCMISensorInfoRsp) (d : GoSlice) (v : Spec.SensorInfo) (hv : v.wf)
    (hd : d.vis = v.encode) :
    (GetDCMISensorInfoRsp.decodeGo prev d).map GetDCMISensorInfoRsp.toView = R.ok (sensorInfoView v) := by
  rw [GetDCMISensorInfoRsp_gen_eq prev {} d, Wire.SensorInfo.decodeGo_refines, hd, sensorInfo_decode_spec v hv]; rfl

theorem generated_Cap1_decodes (prev : GetDCMICapabilitiesInfoSupportedCapabilitiesRsp) (d : GoSlice) (v : Spec.Cap1)
    (hd : d.vis = v.encode) :
    (GetDCMICapabilitiesInfoSupportedCapabilitiesRsp.decodeGo prev d).map
        GetDCMICapabilitiesInfoSupportedCapabilitiesRsp.toModel = R.ok (cap1View v) := by
  rw [GetDCMICapabilitiesInfoSupportedCapabilitiesRsp_gen_eq, Wire.DcmiCap1.decodeGo_refines, hd, cap1_decode_spec v]; rfl

theorem generated_Cap2_decodes (prev : GetDCMICapabilitiesInfoMandatoryPlatformAttrsRsp) (d : GoSlice) (v : Spec.Cap2)
    (hv : v.wf) (hd : d.vis = v.encode) :
    (GetDCMICapabilitiesInfoMandatoryPlatformAttrsRsp.decodeGo prev d).map
        GetDCMICapabilitiesInfoMandatoryPlatformAttrsRsp.toModel = R.ok (cap2View v) := by
  rw [GetDCMICapabilitiesInfoMandatoryPlatformAttrsRsp_gen_eq, Wire.DcmiCap2.decodeGo_refines, hd, cap2_decode_spec v hv]; rfl

theorem generated_Cap3_decodes (prev : GetDCMICapabilitiesInfoOptionalPlatformAttrsRsp) (d : GoSlice) (v : Spec.Cap3)
    (hv : v.wf) (hd : d.vis = v.encode) :
    (GetDCMICapabilitiesInfoOptionalPlatformAttrsRsp.decodeGo prev d).map
        GetDCMICapabilitiesInfoOptionalPlatformAttrsRsp.toModel = R.ok (cap3View v) := by
  rw [GetDCMICapabilitiesInfoOptionalPlatformAttrsRsp_gen_eq, Wire.DcmiCap3.decodeGo_refines, hd, cap3_decode_spec v hv]; rfl

theorem generated_Cap4_decodes (prev : GetDCMICapabilitiesInfoManageabilityAccessAttrsRsp) (d : GoSlice) (v : Spec.Cap4)
    (hd : d.vis = v.encode) :
    (GetDCMICapabilitiesInfoManageabilityAccessAttrsRsp.decodeGo prev d).map
        GetDCMICapabilitiesInfoManageabilityAccessAttrsRsp.toModel = R.ok (cap4View v) := by
  rw [GetDCMICapabilitiesInfoManageabilityAccessAttrsRsp_gen_eq, Wire.DcmiCap4.decodeGo_refines, hd, cap4_decode_spec v]; rfl

theorem generated_Cap5_decodes (prev : Cap5) (d : GoSlice) (v : Spec.Cap5) (hv : v.wf) (hd : d.vis = v.encode) :
    (GetDCMICapabilitiesInfoEnhancedSystemPowerStatisticsAttrsRsp.decodeGo prev d).map
        GetDCMICapabilitiesInfoEnhancedSystemPowerStatisticsAttrsRsp.toModel = R.ok (cap5View v) := by
  rw [GetDCMICapabilitiesInfoEnhancedSystemPowerStatisticsAttrsRsp_gen_eq, Wire.DcmiCap5.decodeGo_refines, hd,
    cap5_decode_spec v hv]; rfl

/-- the hypotheses are met by a real response in a slice with foreign bytes in the backing array beyond `len` -/
def sampleDeviceID : Spec.DeviceID :=
  ⟨0x20, true, 1, true, 2, 15, 2, 0, true, false, true, true, true, true, true, true, 343, 0x1234, some (1, 2, 3, 4)⟩
example : sampleDeviceID.wf
    ∧ (⟨sampleDeviceID.encode ++ [0xde, 0xad], 15, by decide⟩ : GoSlice).vis = sampleDeviceID.encode
    ∧ (⟨sampleDeviceID.encode ++ [0xde, 0xad], 15, by decide⟩ : GoSlice).len
        < (⟨sampleDeviceID.encode ++ [0xde, 0xad], 15, by decide⟩ : GoSlice).buf.length := by decide

end Bmc.Proofs.EndToEnd
