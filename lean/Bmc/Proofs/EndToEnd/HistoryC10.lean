import Bmc.Proofs.EndToEnd.HistoryC09
import Bmc.Proofs.C10
/-! # C10, HISTORY form, about `SendCommand` AS REGENERATED on this run

The closed form of everything a session sends. `contract` writes it down from the documented behaviour alone: command after
command, each one transmits `expected`-many datagrams — one per attempt until the first final answer, a lost reply, a crash or the
end of the context — every one of them `nthDatagram`, the COMPLETE packet for that same command under the next sequence number and
the command's next IV draw; the following command starts where the counter then stands. `generated_history_is_the_contract`: the
datagrams the translated `SendCommand` hands to the transport over any history are exactly that list — nothing is sent twice that
the contract does not repeat, nothing of an earlier command is re-sent during a later one, no attempt is skipped. -/
namespace Bmc.Proofs.EndToEnd
open Bmc Bmc.Wire Bmc.Crypto Bmc.Proto Bmc.GoOrch Bmc.GoLoops Bmc.Gen.Loops Bmc.Lemmas.GenLoops Bmc.Proofs.GenLoops Bmc.Proofs.C09

def contract (C : Ops) (k : Keys) : Nat → List (Cmd × List Bytes × List Outcome) → List Bytes
  | _, [] => []
  | inb, (c, ivs, script) :: rest =>
    let n := (expected (classify C k c) script).1
    (List.range n).map (nthDatagram C k c inb ivs) ++ contract C k ((inb + n) % 4294967296) rest

theorem runHistory_is_the_contract (C : Ops) (h : List (Cmd × List Bytes × List Outcome))
    (hok : ∀ e ∈ h, e.1.reqFails = false ∧ e.2.2.length ≤ e.2.1.length) :
    ∀ (s : Sess), s.inbound < 4294967296 → (runHistory C s h).2 = contract C s.keys s.inbound h := by
  induction h with
  | nil => intro s _; rfl
  | cons e rest ih =>
    intro s hs
    obtain ⟨c, ivs, script⟩ := e
    obtain ⟨hf, hl⟩ := hok (c, ivs, script) (by simp)
    simp only [] at hf hl
    obtain ⟨_, h2, hk, h4⟩ := sendLoop_spec C c hf s hs ivs script hl
    have hs' := sendLoop_inbound_lt C c s hs ivs script hl
    have := ih (fun e he => hok e (by simp [he])) _ hs'
    simp only [runHistory, contract]
    rw [h2, this, hk, h4]

/-- **C10, history form, about the translated code** -/
theorem generated_history_is_the_contract (C : Ops) (bd : Bytes → Bool) (h : List HistItem) (hok : ∀ e ∈ h, e.ok)
    (s : Sess) (K : Conn Decoded) (hs : s.inbound < 4294967296) (hL : s.localID < 4294967296) (hr : s.remoteID < 4294967296)
    (hK : K.inbound = UInt32.ofNat s.inbound) :
    generatedHistory C s.keys bd K h = contract C s.keys s.inbound (h.map modelItem) := by
  rw [generatedHistory_eq C bd h hok s K hs hL hr hK]
  exact runHistory_is_the_contract C (h.map modelItem) (by
    intro e he
    obtain ⟨e', he', rfl⟩ := List.mem_map.mp he
    exact ⟨(hok e' he').1, (hok e' he').2.2.2⟩) s hs

/-- the contract's count for one command: a final answer ends it — after `n` temporary answers (node busy, timeout: the script
    items classified `retry`) and then a final one, exactly `n + 1` datagrams -/
theorem contract_count_busy_then_final (cls : Bytes → Class) (busy : List Bytes) (fin : Bytes) (cc : UInt8) (p : Bytes)
    (rest : List Outcome) (hb : ∀ d ∈ busy, cls d = .retry) (hfin : cls fin = .final cc p) :
    expected cls (busy.map Outcome.reply ++ Outcome.reply fin :: rest) = (busy.length + 1, .ok cc p) := by
  induction busy with
  | nil => simp [expected, hfin]
  | cons d ds ih =>
    have hd := hb d (by simp)
    have := ih (fun d hd => hb d (by simp [hd]))
    simp only [List.map_cons, List.cons_append, expected, hd, this, List.length_cons]

end Bmc.Proofs.EndToEnd
