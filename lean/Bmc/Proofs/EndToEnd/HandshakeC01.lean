import Bmc.Proofs.EndToEnd.HandshakeC02
import Bmc.Lemmas.HandshakeLive
/-! # C01 (liveness and key agreement), stated about `newV2Session` AS REGENERATED on this run

`Proofs/C01.lean` proves, about the script-driven hand model, that the handshake with a conforming BMC succeeds and that the
session carries the keys the BMC derives on its own. Here the same is proved at the level of ABSTRACT ANSWERS (`hsRun`: what
each exchange ended with, over any state), and composed with `Proofs/GenHs/NewV2Session.lean` so that it is about the
session-establishment code translated from the source on this run. -/
namespace Bmc.Proofs.EndToEnd
open Bmc Bmc.Wire Bmc.Crypto Bmc.Proto Bmc.Lemmas.GenHs

/-- the key formulas of the console read only these fields of the two replies -/
theorem rakp2Code_fields (C : Ops) (h : HashAlg) (o : Opts) (rm : Bytes) (b : Spec.BmcSide) (osr : OpenSessionRsp) (rk2 : RAKP2)
    (hk : b.kuid = o.pass) (h1 : osr.bmcSessionID = b.sidc) (h2 : rk2.consoleSessionID = 1) (h3 : rk2.bmcRandom = b.rc)
    (h4 : rk2.bmcGUID = b.guid) :
    rakp2Code C h o rm osr rk2 = Spec.rakp2Code C h b.kuid (b.exchange (received o rm)) := by
  simp [Spec.rakp2Code, rakp2Code, Spec.BmcSide.exchange, received, hk, h1, h2, h3, h4, Spec.Exchange.ulen, putLE32, Spec.le32]

theorem rakp3Code_fields (C : Ops) (h : HashAlg) (o : Opts) (rm : Bytes) (b : Spec.BmcSide) (rk2 : RAKP2)
    (hk : b.kuid = o.pass) (h2 : rk2.consoleSessionID = 1) (h3 : rk2.bmcRandom = b.rc) :
    rakp3Code C h o rk2 = b.expectedRakp3 C h (received o rm) := by
  simp [rakp3Code, Spec.BmcSide.expectedRakp3, Spec.rakp3Code, Spec.BmcSide.exchange, received, hk, h2, h3,
    Spec.Exchange.ulen, putLE32, Spec.le32]

theorem sikOf_fields (C : Ops) (h : HashAlg) (o : Opts) (rm : Bytes) (b : Spec.BmcSide) (rk2 : RAKP2)
    (hk : b.kuid = o.pass) (hkg : b.kg = o.kg) (h3 : rk2.bmcRandom = b.rc) :
    sikOf C h o rm rk2 = b.sik C h (received o rm) := by
  simp [sikOf, Spec.BmcSide.sik, Spec.sik, Spec.BmcSide.exchange, received, hk, hkg, h3, Spec.Exchange.ulen]

theorem icvOf_fields (C : Ops) (h : HashAlg) (o : Opts) (rm : Bytes) (b : Spec.BmcSide) (osr : OpenSessionRsp) (rk2 : RAKP2)
    (a : UInt8) (ha : authHash a = some h) (sik : Bytes) (h1 : osr.bmcSessionID = b.sidc) (h4 : rk2.bmcGUID = b.guid) :
    icvOf C h a sik rm osr rk2 = Spec.icv C h sik (b.exchange (received o rm)) := by
  unfold authHash at ha
  split at ha
  · injection ha with e; subst e; simp [icvOf, Spec.icv, Spec.BmcSide.exchange, received, h1, h4, icvLen, putLE32, Spec.le32]
  · injection ha with e; subst e; simp [icvOf, Spec.icv, Spec.BmcSide.exchange, received, h1, h4, icvLen, putLE32, Spec.le32]
  · injection ha with e; subst e; simp [icvOf, Spec.icv, Spec.BmcSide.exchange, received, h1, h4, icvLen, putLE32, Spec.le32]
  · cases ha

/-- **Liveness and key agreement over abstract answers.** If, from state `s`, the three exchanges the library makes — Open
    Session (tag 0, the caller's privilege level, console session ID 1, the proposed suite), RAKP 1 (the BMC's session ID,
    the console's draw `rm`, lookup mode, privilege level, user name) and RAKP 3 carrying THE CODE THE BMC EXPECTS — end with
    what the specification's BMC `b` (same password, same K_G) sends, then the run ends with a session under console ID 1, the
    BMC's session ID, the proposed suite and the SIK, K1, K2 that the BMC derives on its own from what it received. -/
theorem hsRun_live {σ : Type} (C : Ops) (A : Answers σ) (o : Opts) (s : σ) (b : Spec.BmcSide) (h : HashAlg) (rm : Bytes)
    (osr : OpenSessionRsp) (rk2 : RAKP2) (rk4 : RAKP4)
    (hauth : authHash o.auth = some h) (hinteg : o.integ = 1 ∨ o.integ = 2 ∨ o.integ = 4) (hconf : o.conf = 1)
    (hpass : b.kuid = o.pass) (hkg : b.kg = o.kg)
    (a1 : (A.openSession s ⟨0, o.priv, 1, o.auth, o.integ, o.conf⟩).2 = .ok osr)
    (ho : osr.tag = 0 ∧ osr.status = 0 ∧ osr.consoleSessionID = 1 ∧ osr.bmcSessionID = b.sidc ∧ osr.auth = o.auth ∧
          osr.integ = o.integ ∧ osr.conf = o.conf)
    (a0 : (A.rand (A.openSession s ⟨0, o.priv, 1, o.auth, o.integ, o.conf⟩).1).2 = some rm)
    (a2 : (A.rakp1 (A.rand (A.openSession s ⟨0, o.priv, 1, o.auth, o.integ, o.conf⟩).1).1
            ⟨0, b.sidc, rm, o.lookup, o.priv, o.user⟩).2 = .ok rk2)
    (hr2 : rk2.tag = 0 ∧ rk2.status = 0 ∧ rk2.consoleSessionID = 1 ∧ rk2.bmcRandom = b.rc ∧ rk2.bmcGUID = b.guid ∧
           rk2.authCode = Spec.rakp2Code C h b.kuid (b.exchange (received o rm)))
    (a3 : (A.rakp3 (A.rakp1 (A.rand (A.openSession s ⟨0, o.priv, 1, o.auth, o.integ, o.conf⟩).1).1
            ⟨0, b.sidc, rm, o.lookup, o.priv, o.user⟩).1 ⟨0, b.sidc, b.expectedRakp3 C h (received o rm)⟩).2 = .ok rk4)
    (hr4 : rk4.tag = 0 ∧ rk4.status = 0 ∧ rk4.icv = Spec.icv C h (b.sik C h (received o rm)) (b.exchange (received o rm))) :
    (hsRun C A o s).1 =
      .ok 1 b.sidc o.auth o.integ o.conf (b.sik C h (received o rm)) (b.k1 C h (received o rm)) (b.k2 C h (received o rm)) := by
  obtain ⟨t1, s1, c1, b1, au1, in1, co1⟩ := ho
  obtain ⟨t2, s2, c2, rc2, g2, code2⟩ := hr2
  obtain ⟨t4, s4, icv4⟩ := hr4
  have e1 : openChecks o osr = .ok osr := by
    simp [openChecks, t1, s1, au1, in1, co1]
  have hauth' : authHash osr.auth = some h := by rw [au1]; exact hauth
  have e2 : rakp2Checks C o rm osr rk2 = .ok (rk2, h) := by
    simp [rakp2Checks, t2, s2, hauth', code2, rakp2Code_fields C h o rm b osr rk2 hpass b1 c2 rc2 g2]
  have hsik := sikOf_fields C h o rm b rk2 hpass hkg rc2
  have hicv := icvOf_fields C h o rm b osr rk2 o.auth hauth (b.sik C h (received o rm)) b1 g2
  have hint : (!(o.integ == 1 || o.integ == 2 || o.integ == 4)) = false := by
    rcases hinteg with e | e | e <;> (rw [e]; rfl)
  have e4 : rakp4Checks C o rm osr rk2 h rk4 =
      .ok (.ok 1 b.sidc o.auth o.integ o.conf (b.sik C h (received o rm)) (b.k1 C h (received o rm)) (b.k2 C h (received o rm))) := by
    simp only [rakp4Checks, t4, s4, hsik, icv4, hicv, hint, co1, hconf, c1, b1, au1, in1, bne_self_eq_false, Bool.false_eq_true,
      if_false]
    rfl
  have e3 := rakp3Code_fields C h o rm b rk2 hpass c2 rc2
  have bind_ok : ∀ {α β : Type} (a : α) (f : α → Except HsRes β), ((Except.ok a : Except HsRes α) >>= f) = f a := fun _ _ => rfl
  unfold hsRun
  simp only [a1, bind_ok, e1, a0, b1, a2, e2, e3, a3, e4]

/-- the specification's BMC as abstract answers: it echoes tag and console session ID, confirms the proposal, returns its own
    session ID, random number, GUID and the RAKP 2 code over what it received; it answers a RAKP 3 only when the code is the one
    it expects (anything else is refused) -/
def specAnswers (C : Ops) (h : HashAlg) (b : Spec.BmcSide) (o : Opts) (rm : Bytes) : Answers Unit where
  openSession _ r := ((), .ok { tag := r.tag, status := 0, maxPriv := b.maxPriv, consoleSessionID := r.sid, bmcSessionID := b.sidc
                                auth := r.auth, integ := r.integ, conf := r.conf })
  rand _ := ((), some rm)
  rakp1 _ r := ((), .ok { tag := r.tag, status := 0, consoleSessionID := 1, bmcRandom := b.rc, bmcGUID := b.guid
                          authCode := Spec.rakp2Code C h b.kuid (b.exchange (received o rm)) })
  rakp3 _ r := ((), if r.authCode = b.expectedRakp3 C h (received o rm) then
                      .ok { tag := r.tag, status := 0, consoleSessionID := 1
                            icv := Spec.icv C h (b.sik C h (received o rm)) (b.exchange (received o rm)) }
                    else .error .error)

/-- the hypotheses of `hsRun_live` are met by that BMC, for EVERY caller options with a supported suite, every draw, every
    BMC values: the run against it ends with the BMC's own keys (in particular the RAKP 3 code the console computes IS the
    one the BMC expects) -/
theorem hsRun_against_spec_bmc (C : Ops) (o : Opts) (b : Spec.BmcSide) (h : HashAlg) (rm : Bytes)
    (hauth : authHash o.auth = some h) (hinteg : o.integ = 1 ∨ o.integ = 2 ∨ o.integ = 4) (hconf : o.conf = 1)
    (hpass : b.kuid = o.pass) (hkg : b.kg = o.kg) :
    (hsRun C (specAnswers C h b o rm) o ()).1 =
      .ok 1 b.sidc o.auth o.integ o.conf (b.sik C h (received o rm)) (b.k1 C h (received o rm)) (b.k2 C h (received o rm)) :=
  hsRun_live C (specAnswers C h b o rm) o () b h rm _ _
    { tag := 0, status := 0, consoleSessionID := 1, icv := Spec.icv C h (b.sik C h (received o rm)) (b.exchange (received o rm)) }
    hauth hinteg hconf hpass hkg rfl ⟨rfl, rfl, rfl, rfl, rfl, rfl, rfl⟩ rfl rfl
    ⟨rfl, rfl, rfl, rfl, rfl, rfl⟩ (by simp [specAnswers]) ⟨rfl, rfl, rfl⟩

open Bmc.GoOrch Bmc.Gen.Hs Bmc.Gen.Orch Bmc.Proofs.GenHs in
/-- **C01 for the regenerated `newV2Session`.** After `determineCipherSuite` proposed `cs`, against a BMC whose three set-up
    exchanges end (as response STRUCTS of the code's own types, over any state) with what the specification's BMC `b` sends —
    `b` holding the caller's password and K_G — and answering the RAKP 3 that carries the code IT EXPECTS: `newV2Session` AS
    TRANSLATED FROM THE SOURCE ON THIS RUN returns a session with local ID 1, the BMC's session ID, the proposed algorithms,
    and SIK / K1 / K2 (integrity hasher keyed with K1, AES key = first 16 bytes of K2) EQUAL to what the BMC derives on its own
    from the fields it received. -/
theorem generated_newV2Session_live (C : Ops) (hlen : ∀ a k m, (C.hmac a k m).length = a.size) {σ : Type} (fuel : Nat)
    (sendS : σ → GetChannelCipherSuitesReq → σ × GetChannelCipherSuitesRsp × Bool)
    (sendO : σ → Gen.Hs.OpenSessionReq → σ × Gen.Hs.OpenSessionRsp × Bool)
    (sendR1 : σ → Gen.Hs.RAKPMessage1 → σ × Gen.Hs.RAKPMessage2 × Bool)
    (sendR3 : σ → Gen.Hs.RAKPMessage3 → σ × Gen.Hs.RAKPMessage4 × Bool)
    (tail : Bytes) (rr : σ → Nat → σ × Option Bytes) (opts : V2SessionOpts) (s0 s1 : σ) (cs : Gen.Dec.CipherSuite)
    (hdet : bmc_V2SessionlessTransport_determineCipherSuite fuel sendS tail opts.cipherSuites s0 = (.ok cs, s1))
    (b : Spec.BmcSide) (h : HashAlg)
    (hauth : authHash (optsOf opts cs).auth = some h)
    (hinteg : (optsOf opts cs).integ = 1 ∨ (optsOf opts cs).integ = 2 ∨ (optsOf opts cs).integ = 4)
    (hconf : (optsOf opts cs).conf = 1) (hpass : b.kuid = (optsOf opts cs).pass) (hkg : b.kg = (optsOf opts cs).kg)
    (s2 s3 s4 s5 : σ) (gO : Gen.Hs.OpenSessionRsp) (draw : Bytes) (g2 : Gen.Hs.RAKPMessage2) (g4 : Gen.Hs.RAKPMessage4)
    (hO : sendO s1 (goOpenReq ⟨0, (optsOf opts cs).priv, 1, (optsOf opts cs).auth, (optsOf opts cs).integ, (optsOf opts cs).conf⟩)
            = (s2, gO, true))
    (ho : (osrView gO).tag = 0 ∧ (osrView gO).status = 0 ∧ (osrView gO).consoleSessionID = 1 ∧ (osrView gO).bmcSessionID = b.sidc ∧
          (osrView gO).auth = (optsOf opts cs).auth ∧ (osrView gO).integ = (optsOf opts cs).integ ∧
          (osrView gO).conf = (optsOf opts cs).conf)
    (hR : rr s2 16 = (s3, some draw))
    (h1 : sendR1 s3 (goRakp1 ⟨0, b.sidc, GoKeys.copyArr 16 (List.replicate 16 0) draw, (optsOf opts cs).lookup,
            (optsOf opts cs).priv, (optsOf opts cs).user⟩) = (s4, g2, true))
    (hr2 : (rk2View g2).tag = 0 ∧ (rk2View g2).status = 0 ∧ (rk2View g2).consoleSessionID = 1 ∧ (rk2View g2).bmcRandom = b.rc ∧
           (rk2View g2).bmcGUID = b.guid ∧
           (rk2View g2).authCode = Spec.rakp2Code C h b.kuid
              (b.exchange (received (optsOf opts cs) (GoKeys.copyArr 16 (List.replicate 16 0) draw))))
    (h3 : sendR3 s4 (goRakp3 ⟨0, b.sidc, b.expectedRakp3 C h (received (optsOf opts cs) (GoKeys.copyArr 16 (List.replicate 16 0) draw))⟩)
            = (s5, g4, true))
    (hr4 : (rk4View g4).tag = 0 ∧ (rk4View g4).status = 0 ∧
           (rk4View g4).icv = Spec.icv C h (b.sik C h (received (optsOf opts cs) (GoKeys.copyArr 16 (List.replicate 16 0) draw)))
              (b.exchange (received (optsOf opts cs) (GoKeys.copyArr 16 (List.replicate 16 0) draw)))) :
    (bmc_V2SessionlessTransport_newV2Session fuel sendS sendO sendR1 sendR3 tail (Bmc.Lemmas.GenKeys.mac C) rr opts s0).1 =
      .ok (.ok (sessionOf 1 b.sidc (optsOf opts cs).auth (optsOf opts cs).integ (optsOf opts cs).conf
        (b.sik C h (received (optsOf opts cs) (GoKeys.copyArr 16 (List.replicate 16 0) draw)))
        (b.k1 C h (received (optsOf opts cs) (GoKeys.copyArr 16 (List.replicate 16 0) draw)))
        (b.k2 C h (received (optsOf opts cs) (GoKeys.copyArr 16 (List.replicate 16 0) draw))))) := by
  rw [newV2Session_gen_eq C hlen fuel sendS sendO sendR1 sendR3 tail rr opts s0 s1 cs hdet]
  simp only []
  rw [hsRun_live C (viewAnswers sendO sendR1 sendR3 rr) (optsOf opts cs) s1 b h (GoKeys.copyArr 16 (List.replicate 16 0) draw)
    (osrView gO) (rk2View g2) (rk4View g4) hauth hinteg hconf hpass hkg
    (by simp only [viewAnswers, hO, if_true]) ho (by simp only [viewAnswers, hO, hR, Option.map_some])
    (by simp only [viewAnswers, hO, hR, Option.map_some, h1, if_true]) hr2
    (by simp only [viewAnswers, hO, hR, Option.map_some, h1, h3, if_true]) hr4]
  rfl

section typed
open Bmc.GoOrch Bmc.Gen.Hs Bmc.Gen.Orch Bmc.Proofs.GenHs

/-- the specification's BMC as the response STRUCTS of the code's own types (state: none). It echoes tags and the console's
    session ID, confirms the proposed algorithm payloads, returns its session ID, random number, GUID and the RAKP 2 code over the
    exchange; it answers a RAKP 3 ONLY when the code is the one it expects (otherwise the exchange fails). -/
def typedO (b : Spec.BmcSide) : Unit → Gen.Hs.OpenSessionReq → Unit × Gen.Hs.OpenSessionRsp × Bool := fun _ q =>
  ((), { tag := q.tag, status := 0, maxPrivilegeLevel := b.maxPriv, remoteConsoleSessionID := q.sessionID
         managedSystemSessionID := UInt32.ofNat b.sidc, authenticationPayload := q.authenticationPayload
         integrityPayload := q.integrityPayload, confidentialityPayload := q.confidentialityPayload }, true)
def typedR1 (C : Ops) (h : HashAlg) (b : Spec.BmcSide) (o : Opts) (rm : Bytes) :
    Unit → Gen.Hs.RAKPMessage1 → Unit × Gen.Hs.RAKPMessage2 × Bool := fun _ q =>
  ((), { tag := q.tag, status := 0, remoteConsoleSessionID := 1, managedSystemRandom := b.rc, managedSystemGUID := b.guid
         authCode := Spec.rakp2Code C h b.kuid (b.exchange (received o rm)) }, true)
def typedR3 (C : Ops) (h : HashAlg) (b : Spec.BmcSide) (o : Opts) (rm : Bytes) :
    Unit → Gen.Hs.RAKPMessage3 → Unit × Gen.Hs.RAKPMessage4 × Bool := fun _ q =>
  if q.authCode = b.expectedRakp3 C h (received o rm) then
    ((), { tag := q.tag, status := 0, remoteConsoleSessionID := 1
           icv := Spec.icv C h (b.sik C h (received o rm)) (b.exchange (received o rm)) }, true)
  else ((), {}, false)

/-- **C01 against the specification's BMC, no hypothesis about intermediate states left**: for every caller options whose proposed
    suite (as determined by the translated discovery) is supported, every 16-byte draw, every well-formed BMC holding the caller's
    password and K_G — `newV2Session` AS TRANSLATED ON THIS RUN returns the session whose SIK, K1, K2 are the BMC's own. In
    particular the RAKP 3 code the translated code sends IS the one the BMC expects (it would not answer otherwise). -/
theorem generated_newV2Session_against_spec_bmc (C : Ops) (hlen : ∀ a k m, (C.hmac a k m).length = a.size) (fuel : Nat)
    (sendS : Unit → GetChannelCipherSuitesReq → Unit × GetChannelCipherSuitesRsp × Bool) (tail : Bytes)
    (opts : V2SessionOpts) (cs : Gen.Dec.CipherSuite) (draw : Bytes)
    (hdet : bmc_V2SessionlessTransport_determineCipherSuite fuel sendS tail opts.cipherSuites () = (.ok cs, ()))
    (b : Spec.BmcSide) (hb : b.wf) (h : HashAlg)
    (hauth : authHash (optsOf opts cs).auth = some h)
    (hinteg : (optsOf opts cs).integ = 1 ∨ (optsOf opts cs).integ = 2 ∨ (optsOf opts cs).integ = 4)
    (hconf : (optsOf opts cs).conf = 1) (hpass : b.kuid = (optsOf opts cs).pass) (hkg : b.kg = (optsOf opts cs).kg) :
    let o := optsOf opts cs
    let rm := GoKeys.copyArr 16 (List.replicate 16 0) draw
    (bmc_V2SessionlessTransport_newV2Session fuel sendS (typedO b) (typedR1 C h b o rm) (typedR3 C h b o rm) tail
        (Bmc.Lemmas.GenKeys.mac C) (fun _ _ => ((), some draw)) opts ()).1 =
      .ok (.ok (sessionOf 1 b.sidc o.auth o.integ o.conf (b.sik C h (received o rm)) (b.k1 C h (received o rm))
        (b.k2 C h (received o rm)))) := by
  intro o rm
  have hsid : (UInt32.ofNat b.sidc).toNat = b.sidc := UInt32.toNat_ofNat_of_lt' hb.1
  exact generated_newV2Session_live C hlen fuel sendS (typedO b) (typedR1 C h b o rm) (typedR3 C h b o rm) tail
    (fun _ _ => ((), some draw)) opts () () cs hdet b h hauth hinteg hconf hpass hkg () () () () _ draw _
    { tag := 0, status := 0, remoteConsoleSessionID := 1
      icv := Spec.icv C h (b.sik C h (received o rm)) (b.exchange (received o rm)) }
    rfl ⟨rfl, rfl, rfl, hsid, rfl, rfl, rfl⟩ rfl rfl ⟨rfl, rfl, rfl, rfl, rfl, rfl⟩
    (by show typedR3 C h b o rm () (goRakp3 ⟨0, b.sidc, b.expectedRakp3 C h (received o rm)⟩) = _
        unfold typedR3 goRakp3
        rw [if_pos rfl]) ⟨rfl, rfl, rfl⟩

end typed

end Bmc.Proofs.EndToEnd
