import Bmc.Proofs.GenLoops.BuildAndSendCommand
import Bmc.Proofs.C11
/-! # The property theorems, stated about the code AS REGENERATED on this run (session-less command loop) -/
namespace Bmc.Proofs.EndToEnd
open Bmc Bmc.Wire Bmc.Crypto Bmc.Proto Bmc.GoOrch Bmc.GoLoops Bmc.Gen.Loops Bmc.Lemmas.GenLoops Bmc.Proofs.GenLoops

/-- C11 for the regenerated loop: a nil result means the completion code and payload left in the message layer come from a
    reply of the script that decodes to a message for THIS operation. -/
theorem generated_sessionless_loop_result_matches_request (c : Cmd) (hc : c.ent < 4294967296) (hf : c.reqFails = false)
    (script : List Outcome) (fuel : Nat) (hfu : script.length + 1 ≤ fuel) (bd : Bytes → Bool) (name : String) (rsp : Opaque)
    (ivs : List Bytes) (K : Conn Decoded) :
    let r := V2Sessionless_buildAndSendCommand (slWorld c bd) fuel (cmdOf c name rsp) ({ ivs := ivs, script := script, sent := [] }, K)
    r.1 = .ok none →
    ∃ d msg, Outcome.reply d ∈ script ∧ slView (slOnReply {} (GoSlice.ofBytes d)) = (.message, some msg) ∧
      msg.function = c.fn + 1 ∧ msg.command = c.cmd ∧ msg.body = c.body ∧ msg.enterprise = c.ent ∧
      msg.completionCode = r.2.2.layers.message.completionCode ∧ msg.payload = r.2.2.layers.message.payload := by
  intro r hok
  obtain ⟨_, h2, _⟩ := V2Sessionless_buildAndSendCommand_gen_eq c hc script fuel hfu bd name rsp ivs [] K
  have h2' : resOf r.1 r.2.2 = some (slSend c script).2 := h2
  rw [hok] at h2'
  simp only [resOf, Option.some.injEq] at h2'
  exact Bmc.Proofs.C11.sessionless_result_matches_request c hf script _ _ h2'.symm

end Bmc.Proofs.EndToEnd
