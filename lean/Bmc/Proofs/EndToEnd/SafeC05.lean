import Bmc.Proofs.C05.Basic
import Bmc.Proofs.C05.Core
import Bmc.Proofs.C05.Dcmi
import Bmc.Proofs.C05.Sdr
import Bmc.Proofs.C05.Sess
import Bmc.Proofs.C05.Setup
import Bmc.Proofs.GenDec.GetDeviceIDRsp
import Bmc.Proofs.GenDec.GetChassisStatusRsp
import Bmc.Proofs.GenDec.GetChannelAuthenticationCapabilitiesRsp
import Bmc.Proofs.GenDec.GetChannelCipherSuitesRsp
import Bmc.Proofs.GenDec.SetSessionPrivilegeLevelRsp
import Bmc.Proofs.GenDec.GetSystemGUIDRsp
import Bmc.Proofs.GenDec.GetSessionInfoRsp
import Bmc.Proofs.GenDec.GetSDRRepositoryInfoRsp
import Bmc.Proofs.GenDec.ReserveSDRRepositoryRsp
import Bmc.Proofs.GenDec.GetSDRRsp
import Bmc.Proofs.GenDec.SDR
import Bmc.Proofs.GenDec.GetSensorReadingRsp
import Bmc.Proofs.GenDec.FullSensorRecord
import Bmc.Proofs.GenDec.GetPowerReadingRsp
import Bmc.Proofs.GenDec.GetDCMICapabilitiesInfoSupportedCapabilitiesRsp
import Bmc.Proofs.GenDec.GetDCMICapabilitiesInfoMandatoryPlatformAttrsRsp
import Bmc.Proofs.GenDec.GetDCMICapabilitiesInfoOptionalPlatformAttrsRsp
import Bmc.Proofs.GenDec.GetDCMICapabilitiesInfoManageabilityAccessAttrsRsp
import Bmc.Proofs.GenDec.OpenSessionRsp
import Bmc.Proofs.GenDec.RAKPMessage1
import Bmc.Proofs.GenDec.RAKPMessage2
import Bmc.Proofs.GenDec.RAKPMessage4
import Bmc.Proofs.GenDec.SessionSelector
import Bmc.Proofs.GenDec.V1Session
import Bmc.Proofs.GenDec.Message
import Bmc.Proofs.GenDec.GetDCMICapabilitiesInfoEnhancedSystemPowerStatisticsAttrsRsp
import Bmc.Proofs.GenDec.GetDCMISensorInfoRsp
import Bmc.Proofs.GenDec.V2Session
import Bmc.Proofs.GenDec.AES128CBC
import Bmc.Proofs.GenDec.CipherSuiteRecords
import Bmc.Proofs.C16
/-! # C05 (no panic, no over-read), stated about the decoders AS REGENERATED on this run

`Proofs/C05/*` prove that the hand-written wire models never end in a panic or a read beyond `len` — for every previous receiver
content and every Go slice (any length, any capacity, any bytes beyond `len`); `Proofs/GenDec/*` prove that `DecodeFromBytes` as
re-translated from the source on every run IS that model through `toModel`. A `map` changes no outcome kind, so the regenerated
decoder itself never panics and never over-reads (and, where it is a loop with fuel, never runs out of it). -/
namespace Bmc.Proofs.EndToEnd
open Bmc Bmc.Gen.Dec Bmc.Lemmas.GenDec Bmc.Proofs.GenDec

theorem R.bad_map {α β : Type} (x : R α) (f : α → β) : (x.map f).bad = x.bad := by cases x <;> rfl
theorem bad_of_map_eq {α β : Type} (x : R α) (f : α → β) (y : R β) (h : x.map f = y) (hy : y.bad = false) : x.bad = false := by
  rw [← R.bad_map x f, h]; exact hy

theorem generated_GetDeviceIDRsp_safe (prev : GetDeviceIDRsp) (d : GoSlice) : (GetDeviceIDRsp.decodeGo prev d).bad = false :=
  bad_of_map_eq _ _ _ (GetDeviceIDRsp_gen_eq prev d) (Proofs.C05.deviceID_safe _ _)

theorem generated_GetChassisStatusRsp_safe (prev : GetChassisStatusRsp) (d : GoSlice) : (GetChassisStatusRsp.decodeGo prev d).bad = false :=
  bad_of_map_eq _ _ _ (GetChassisStatusRsp_gen_eq prev d) ((Proofs.C05.chassis_total _ _).2)

theorem generated_GetChannelAuthenticationCapabilitiesRsp_safe (prev : GetChannelAuthenticationCapabilitiesRsp) (d : GoSlice) : (GetChannelAuthenticationCapabilitiesRsp.decodeGo prev d).bad = false :=
  bad_of_map_eq _ _ _ (GetChannelAuthenticationCapabilitiesRsp_gen_eq prev d) ((Proofs.C05.authCaps_total _ _).2)

theorem generated_GetChannelCipherSuitesRsp_safe (prev : GetChannelCipherSuitesRsp) (d : GoSlice) : (GetChannelCipherSuitesRsp.decodeGo prev d).bad = false :=
  bad_of_map_eq _ _ _ (GetChannelCipherSuitesRsp_gen_eq prev d) ((Proofs.C05.cipherSuites_total _ _).2)

theorem generated_SetSessionPrivilegeLevelRsp_safe (prev : SetSessionPrivilegeLevelRsp) (d : GoSlice) : (SetSessionPrivilegeLevelRsp.decodeGo prev d).bad = false :=
  bad_of_map_eq _ _ _ (SetSessionPrivilegeLevelRsp_gen_eq prev d) ((Proofs.C05.setPriv_total _ _).2)

theorem generated_GetSystemGUIDRsp_safe (prev : GetSystemGUIDRsp) (d : GoSlice) : (GetSystemGUIDRsp.decodeGo prev d).bad = false :=
  bad_of_map_eq _ _ _ (GetSystemGUIDRsp_gen_eq prev d) ((Proofs.C05.guid_total _ _).2)

theorem generated_GetSessionInfoRsp_safe (prev : GetSessionInfoRsp) (d : GoSlice) : (GetSessionInfoRsp.decodeGo prev d).bad = false :=
  bad_of_map_eq _ _ _ (GetSessionInfoRsp_gen_eq prev d) ((Proofs.C05.sessionInfo_total _ _).2)

theorem generated_GetSDRRepositoryInfoRsp_safe (prev : GetSDRRepositoryInfoRsp) (d : GoSlice) : (GetSDRRepositoryInfoRsp.decodeGo prev d).bad = false :=
  bad_of_map_eq _ _ _ (GetSDRRepositoryInfoRsp_gen_eq prev d) ((Proofs.C05.sdrRepoInfo_total _ _).2)

theorem generated_ReserveSDRRepositoryRsp_safe (prev : ReserveSDRRepositoryRsp) (d : GoSlice) : (ReserveSDRRepositoryRsp.decodeGo prev d).bad = false :=
  bad_of_map_eq _ _ _ (ReserveSDRRepositoryRsp_gen_eq prev d) ((Proofs.C05.reserveSDR_total _ _).2)

theorem generated_GetSDRRsp_safe (prev : GetSDRRsp) (d : GoSlice) : (GetSDRRsp.decodeGo prev d).bad = false :=
  bad_of_map_eq _ _ _ (GetSDRRsp_gen_eq prev d) ((Proofs.C05.getSDR_total _ _).2)

theorem generated_SDR_safe (prev : SDR) (d : GoSlice) : (SDR.decodeGo prev d).bad = false :=
  bad_of_map_eq _ _ _ (SDR_gen_eq prev d) ((Proofs.C05.sdrHeader_total _ _).2)

theorem generated_GetSensorReadingRsp_safe (prev : GetSensorReadingRsp) (d : GoSlice) : (GetSensorReadingRsp.decodeGo prev d).bad = false :=
  bad_of_map_eq _ _ _ (GetSensorReadingRsp_gen_eq prev d) ((Proofs.C05.sensorReading_total _ _).2)

theorem generated_FullSensorRecord_safe (prev : FullSensorRecord) (d : GoSlice) : (FullSensorRecord.decodeGo prev d).bad = false :=
  bad_of_map_eq _ _ _ (FullSensorRecord_gen_eq prev d) (Proofs.C05.fullSensor_safe _ _)

theorem generated_GetPowerReadingRsp_safe (prev : GetPowerReadingRsp) (d : GoSlice) : (GetPowerReadingRsp.decodeGo prev d).bad = false :=
  bad_of_map_eq _ _ _ (GetPowerReadingRsp_gen_eq prev d) (Proofs.C05.powerReading_safe _ _)

theorem generated_GetDCMICapabilitiesInfoSupportedCapabilitiesRsp_safe (prev : GetDCMICapabilitiesInfoSupportedCapabilitiesRsp) (d : GoSlice) : (GetDCMICapabilitiesInfoSupportedCapabilitiesRsp.decodeGo prev d).bad = false :=
  bad_of_map_eq _ _ _ (GetDCMICapabilitiesInfoSupportedCapabilitiesRsp_gen_eq prev d) (Proofs.C05.dcmiCap1_safe _ _)

theorem generated_GetDCMICapabilitiesInfoMandatoryPlatformAttrsRsp_safe (prev : GetDCMICapabilitiesInfoMandatoryPlatformAttrsRsp) (d : GoSlice) : (GetDCMICapabilitiesInfoMandatoryPlatformAttrsRsp.decodeGo prev d).bad = false :=
  bad_of_map_eq _ _ _ (GetDCMICapabilitiesInfoMandatoryPlatformAttrsRsp_gen_eq prev d) (Proofs.C05.dcmiCap2_safe _ _)

theorem generated_GetDCMICapabilitiesInfoOptionalPlatformAttrsRsp_safe (prev : GetDCMICapabilitiesInfoOptionalPlatformAttrsRsp) (d : GoSlice) : (GetDCMICapabilitiesInfoOptionalPlatformAttrsRsp.decodeGo prev d).bad = false :=
  bad_of_map_eq _ _ _ (GetDCMICapabilitiesInfoOptionalPlatformAttrsRsp_gen_eq prev d) (Proofs.C05.dcmiCap3_safe _ _)

theorem generated_GetDCMICapabilitiesInfoManageabilityAccessAttrsRsp_safe (prev : GetDCMICapabilitiesInfoManageabilityAccessAttrsRsp) (d : GoSlice) : (GetDCMICapabilitiesInfoManageabilityAccessAttrsRsp.decodeGo prev d).bad = false :=
  bad_of_map_eq _ _ _ (GetDCMICapabilitiesInfoManageabilityAccessAttrsRsp_gen_eq prev d) (Proofs.C05.dcmiCap4_safe _ _)

theorem generated_OpenSessionRsp_safe (prev : OpenSessionRsp) (d : GoSlice) : (OpenSessionRsp.decodeGo prev d).bad = false :=
  bad_of_map_eq _ _ _ (OpenSessionRsp_gen_eq prev d) (Proofs.C05.openSessionRsp_safe _ _)

theorem generated_RAKPMessage1_safe (prev : RAKPMessage1) (d : GoSlice) : (RAKPMessage1.decodeGo prev d).bad = false :=
  bad_of_map_eq _ _ _ (RAKPMessage1_gen_eq prev d) (Proofs.C05.rakp1_safe _ _)

theorem generated_RAKPMessage2_safe (prev : RAKPMessage2) (d : GoSlice) : (RAKPMessage2.decodeGo prev d).bad = false :=
  bad_of_map_eq _ _ _ (RAKPMessage2_gen_eq prev d) (Proofs.C05.rakp2_safe _ _)

theorem generated_RAKPMessage4_safe (prev : RAKPMessage4) (d : GoSlice) : (RAKPMessage4.decodeGo prev d).bad = false :=
  bad_of_map_eq _ _ _ (RAKPMessage4_gen_eq prev d) (Proofs.C05.rakp4_safe _ _)

theorem generated_SessionSelector_safe (prev : SessionSelector) (d : GoSlice) : (SessionSelector.decodeGo prev d).bad = false :=
  bad_of_map_eq _ _ _ (SessionSelector_gen_eq prev d) (Proofs.C05.selector_safe _ _)

theorem generated_V1Session_safe (prev : V1Session) (d : GoSlice) : (V1Session.decodeGo prev d).bad = false :=
  bad_of_map_eq _ _ _ (V1Session_gen_eq prev d) (Proofs.C05.v1_safe _ _)

theorem generated_Message_safe (prev : Message) (d : GoSlice) : (Message.decodeGo prev d).bad = false :=
  bad_of_map_eq _ _ _ (Message_gen_eq prev d) (Proofs.C05.message_safe _ _)

theorem generated_Cap5_safe (prev : Cap5) (d : GoSlice) :
    (GetDCMICapabilitiesInfoEnhancedSystemPowerStatisticsAttrsRsp.decodeGo prev d).bad = false :=
  bad_of_map_eq _ _ _ (GetDCMICapabilitiesInfoEnhancedSystemPowerStatisticsAttrsRsp_gen_eq prev d) (Proofs.C05.dcmiCap5_safe _ _)

theorem generated_GetDCMISensorInfoRsp_safe (prev : GetDCMISensorInfoRsp) (d : GoSlice) :
    (GetDCMISensorInfoRsp.decodeGo prev d).bad = false := by
  have h := GetDCMISensorInfoRsp_gen_eq prev {} d
  have s : ((Wire.SensorInfo.decodeGo {} d).map Wire.SensorInfo.view).bad = false := by
    rw [R.bad_map]; exact Proofs.C05.sensorInfo_safe _ _
  exact bad_of_map_eq _ _ _ h s

/-- AES-128-CBC, for every lawful block cipher, key and EVERY plaintext the ciphertext may decrypt to -/
theorem generated_AES128CBC_safe (C : Crypto.Ops) (hC : C.Lawful) (key : Bytes) (prev : AES128CBC) (d : GoSlice) :
    (AES128CBC.decodeGo (fun iv ct => Crypto.cbcDec C key (ct.length / 16) iv ct) prev d).bad = false :=
  bad_of_map_eq _ _ _ (AES128CBC_gen_eq C hC key prev d) (Proofs.C05.aes_safe C hC key _ _)

/-- v2.0 session wrapper (a loop with fuel): for every integrity function, never a panic, an over-read or an exhausted fuel -/
theorem generated_V2Session_safe (mac : Bytes → Bytes) (prev : V2Session) (d : GoSlice) :
    V2Session.decodeGo mac prev d ≠ .panic ∧ V2Session.decodeGo mac prev d ≠ .overread ∧ V2Session.decodeGo mac prev d ≠ .outOfFuel := by
  have h := V2Session_gen_eq mac prev d
  have s := Proofs.C05.v2_safe mac (V2Session.toModel prev) d
  cases hx : V2Session.decodeGo mac prev d <;> rw [hx] at h <;>
    cases hy : Wire.V2Session.decodeGo mac (V2Session.toModel prev) d <;> rw [hy] at h s <;>
    simp_all [RF.map, RF.lift, R.bad]

/-- the cipher-suite record parser (a loop with fuel) on ANY data: an error or a list of entries, nothing else -/
theorem generated_parseCipherSuiteRecordData_safe (d : GoSlice) :
    bmc_parseCipherSuiteRecordData d ≠ .panic ∧ bmc_parseCipherSuiteRecordData d ≠ .overread ∧
    bmc_parseCipherSuiteRecordData d ≠ .outOfFuel := by
  have h := parseCipherSuiteRecordData_gen_eq d
  rcases Proofs.C16.parse_total d.vis with he | ⟨es, hes⟩
  · rw [he] at h
    cases hx : bmc_parseCipherSuiteRecordData d <;> rw [hx] at h <;> simp_all [RF.map, RF.lift]
  · rw [hes] at h
    cases hx : bmc_parseCipherSuiteRecordData d <;> rw [hx] at h <;> simp_all [RF.map, RF.lift]

end Bmc.Proofs.EndToEnd
