import Bmc.Proofs.C08
import Bmc.Proofs.GenEnc.Message
import Bmc.Proofs.GenEnc.V1Session
import Bmc.Proofs.GenEnc.V2Session
import Bmc.Proofs.GenEnc.AES128CBC
import Bmc.Proofs.GenEnc.RAKPMessage1
import Bmc.Proofs.GenDec.RAKPMessage1
import Bmc.Lemmas.SetupRakp1Refine
import Bmc.Proofs.GenDec.Message
import Bmc.Proofs.GenDec.V1Session
import Bmc.Proofs.GenDec.V2Session
import Bmc.Proofs.GenDec.AES128CBC
import Bmc.Lemmas.MessageRefine
import Bmc.Lemmas.V1Refine
import Bmc.Lemmas.V2Refine
/-! # C08, stated about the serialisers AND decoders AS REGENERATED on this run

`Proofs/C08.lean` proves serialise-then-decode = identity about the hand-written wire models; `Proofs/GenEnc/*` and
`Proofs/GenDec/*` prove that `SerializeTo` / `DecodeFromBytes` as re-translated from the source on every run are those
models. Composed here: the regenerated serialiser, run over ANY stale buffer content, produces bytes which the regenerated
decoder — started from ANY previous receiver content, on ANY Go slice showing those bytes (any capacity, any bytes beyond
`len`) — turns back into the fields that were serialised and the inner payload. -/
namespace Bmc.Proofs.EndToEnd
open Bmc Bmc.Wire

/-- IPMI message -/
theorem generated_message_roundtrip (v : Gen.Enc.Message) (stale inner c p : Bytes)
    (h : (Gen.Enc.Message.toModel v c p).WF) (prev : Gen.Dec.Message) (d : GoSlice) :
    ∃ v' b, Gen.Enc.Message.serializeTo v GoEnc.libraryOptions stale inner = .ok (v', b) ∧
      (d.vis = b → (Gen.Dec.Message.decodeGo prev d).map Gen.Dec.Message.toModel =
        R.ok { Gen.Enc.Message.toModel v' c p with
               contents := b.take (b.length - 1 - inner.length), payload := inner }) := by
  have e := Proofs.GenEnc.Message_enc_eq v stale inner c p
  cases hs : Gen.Enc.Message.serializeTo v GoEnc.libraryOptions stale inner with
  | ok q =>
    obtain ⟨v', b⟩ := q
    rw [hs] at e
    simp only [R.map, R.ok.injEq] at e
    refine ⟨v', b, rfl, fun hd => ?_⟩
    rw [Proofs.GenDec.Message_gen_eq, Message.decodeGo_refines, hd]
    have rt := Proofs.C08.message_roundtrip _ inner h
    rw [← e] at rt
    simp only at rt
    rw [rt]; rfl
  | err => rw [hs] at e; simp [R.map] at e
  | panic => rw [hs] at e; simp [R.map] at e
  | overread => rw [hs] at e; simp [R.map] at e

/-- v1.5 session wrapper -/
theorem generated_v1_roundtrip (v : Gen.Enc.V1Session) (stale inner c p : Bytes)
    (h : (Gen.Enc.V1Session.toModel v c p).WF) (hc : v.authCode.length = 16) (prev : Gen.Dec.V1Session) (d : GoSlice) :
    ∃ v' b, Gen.Enc.V1Session.serializeTo v GoEnc.libraryOptions stale inner = .ok (v', b) ∧
      (d.vis = b → (Gen.Dec.V1Session.decodeGo prev d).map Gen.Dec.V1Session.toModel =
        R.ok { Gen.Enc.V1Session.toModel v' c p with
               contents := b.take (if v.authType == 0 then 10 else 26), payload := inner }) := by
  have e := Proofs.GenEnc.V1Session_enc_eq v hc stale inner c p
  cases hs : Gen.Enc.V1Session.serializeTo v GoEnc.libraryOptions stale inner with
  | ok q =>
    obtain ⟨v', b⟩ := q
    rw [hs] at e
    simp only [R.map, R.ok.injEq] at e
    refine ⟨v', b, rfl, fun hd => ?_⟩
    rw [Proofs.GenDec.V1Session_gen_eq, V1Session.decodeGo_refines, hd]
    have rt := Proofs.C08.v1_roundtrip _ inner h
    rw [← e] at rt
    simp only at rt
    rw [rt]; rfl
  | err => rw [hs] at e; simp [R.map] at e
  | panic => rw [hs] at e; simp [R.map] at e
  | overread => rw [hs] at e; simp [R.map] at e

/-- v2.0 session wrapper, for EVERY integrity function `mac` (so every algorithm and key) -/
theorem generated_v2_roundtrip (mac : Bytes → Bytes) (v : Gen.Enc.V2Session) (stale inner c p : Bytes)
    (h : (Gen.Enc.V2Session.toModel v c p).WF inner) (prev : Gen.Dec.V2Session) (d : GoSlice) :
    ∃ v' b, Gen.Enc.V2Session.serializeTo mac v GoEnc.libraryOptions stale inner = .ok (v', b) ∧
      (d.vis = b → (Gen.Dec.V2Session.decodeGo mac prev d).map Gen.Dec.V2Session.toModel =
        RF.ok { Gen.Enc.V2Session.toModel v' c p with
                contents := b.take (if v.payloadDescriptor.payloadType == 2 then 18 else 12), payload := inner }) := by
  have e := Proofs.GenEnc.V2Session_enc_eq mac v stale inner c p
  cases hs : Gen.Enc.V2Session.serializeTo mac v GoEnc.libraryOptions stale inner with
  | ok q =>
    obtain ⟨v', b⟩ := q
    rw [hs] at e
    simp only [R.map, R.ok.injEq] at e
    refine ⟨v', b, rfl, fun hd => ?_⟩
    rw [Proofs.GenDec.V2Session_gen_eq, V2Session.decodeGo_refines, hd]
    have rt := Proofs.C08.v2_roundtrip mac _ inner h
    rw [← e] at rt
    simp only at rt
    rw [rt]; rfl
  | err => rw [hs] at e; simp [R.map] at e
  | panic => rw [hs] at e; simp [R.map] at e
  | overread => rw [hs] at e; simp [R.map] at e

/-- AES-128-CBC confidentiality layer, for every lawful block cipher, key, IV drawn (16 bytes) and message of every length -/
theorem generated_aes_roundtrip (C : Crypto.Ops) (hC : C.Lawful) (key iv : Bytes) (hiv : iv.length = 16) (v : Gen.Enc.AES128CBC)
    (stale msg : Bytes) (prev : Gen.Dec.AES128CBC) (d : GoSlice) :
    ∃ b, Gen.Enc.AES128CBC.serializeTo (some iv) (fun iv pt => Crypto.cbcEnc C key (pt.length / 16) iv pt) v stale msg = .ok b ∧
      (d.vis = b →
        (Gen.Dec.AES128CBC.decodeGo (fun iv ct => Crypto.cbcDec C key (ct.length / 16) iv ct) prev d).map
            Gen.Dec.AES128CBC.toModel = R.ok { contents := iv, payload := msg }) := by
  refine ⟨_, Proofs.GenEnc.AES128CBC_enc_eq C hC key iv hiv v stale msg, fun hd => ?_⟩
  rw [Proofs.GenDec.AES128CBC_gen_eq C hC, AESLayer.decodeGo_refines C hC, hd, Proofs.C08.aes_roundtrip C hC key iv msg hiv]; rfl

/-- RAKP Message 1 (the layer has no inner payload) -/
theorem generated_rakp1_roundtrip (v : Gen.Enc.RAKPMessage1) (hr : v.remoteConsoleRandom.length = 16) (stale c : Bytes)
    (h : (Gen.Enc.RAKPMessage1.toSetup v c).WF) (prev : Gen.Dec.RAKPMessage1) (d : GoSlice) :
    ∃ b, Gen.Enc.RAKPMessage1.serializeTo v stale [] = .ok b ∧ b.length = 28 + v.username.length ∧
      (d.vis = b → (Gen.Dec.RAKPMessage1.decodeGo prev d).map Gen.Dec.RAKPMessage1.toModel =
        R.ok { Gen.Enc.RAKPMessage1.toSetup v c with contents := b }) := by
  obtain ⟨b, hb, hl, hdec⟩ := Proofs.C08.rakp1_roundtrip _ h
  refine ⟨b, ?_, hl, fun hd => ?_⟩
  · rw [Proofs.GenEnc.RAKPMessage1_enc_eq_setup v hr stale [] c, hb]; simp [Except.map]
  · rw [Proofs.GenDec.RAKPMessage1_gen_eq, Setup.RAKP1.decodeGo_refines, hd, hdec]; rfl

/-- the hypotheses are satisfiable (an authenticated, encrypted OEM-descriptor wrapper) -/
def sampleDescriptor : Gen.Enc.PayloadDescriptor := { payloadType := 2, enterprise := 0x1234, payloadID := 7 }
def sampleWrapper : Gen.Enc.V2Session :=
  { payloadDescriptor := sampleDescriptor, id := 5, sequence := 9, authenticated := true, encrypted := true }
example : (Gen.Enc.V2Session.toModel sampleWrapper [] []).WF [1, 2, 3] :=
  ⟨by decide, by decide, by decide, by decide, by decide, by decide, by decide, by decide⟩

end Bmc.Proofs.EndToEnd
