import Bmc.Proofs.GenLoops.BuildAndSend
import Bmc.Proofs.C04
/-! # The property theorems, stated about the code AS REGENERATED on this run (in-session loop)

`Proofs/GenLoops/BuildAndSend.lean` proves that `Bmc.Gen.Loops.V2Session_buildAndSend` — the body of `(*V2Session).buildAndSend`
as `tools/loopgen` translates it from the Go source on every run — does what the hand model `Proto.sendLoop` does. The property
theorems of C09 and C11 are stated about `sendLoop`. Composing the two gives statements whose subject is the TRANSLATED CODE
itself (over the parameters of `Gen/Loops.lean: World`, instantiated as in `V2Session_buildAndSend_gen_eq`): nothing about the
hand model remains in them. -/
namespace Bmc.Proofs.EndToEnd
open Bmc Bmc.Wire Bmc.Crypto Bmc.Proto Bmc.GoOrch Bmc.GoLoops Bmc.Gen.Loops Bmc.Lemmas.GenLoops Bmc.Proofs.GenLoops

/-- C04 for the regenerated loop: when the translated `buildAndSend` returns nil, some reply of the script decodes to a
    session wrapper addressed to THIS session which — in a session with an integrity algorithm — has the authenticated flag
    set and satisfies the MAC equation under K1, and whose payload, when encrypted, decrypts under K2 to a valid pad. -/
theorem generated_loop_accepts_only_authentic (C : Ops) (c : Cmd) (hc : c.ent < 4294967296) (hf : c.reqFails = false) (s : Sess)
    (hs : s.inbound < 4294967296) (hL : s.localID < 4294967296) (hr : s.remoteID < 4294967296)
    (ivs : List Bytes) (script : List Outcome) (hne : script ≠ []) (hl : script.length ≤ ivs.length)
    (fuel : Nat) (hfu : script.length ≤ fuel) (bd : Bytes → Bool) (name : String) (rsp : Opaque)
    (K : Conn Decoded) (hK : K.inbound = UInt32.ofNat s.inbound) :
    let r := V2Session_buildAndSend (sessWorld C s.keys c bd) fuel (sessConsts s.keys) (cmdOf c name rsp)
              ({ ivs := ivs, script := script, sent := [] }, K)
    r.1 = .ok none →
    ∃ d rm p v2, Outcome.reply d ∈ script ∧
      RMCP.decodeGo {} (GoSlice.ofBytes d) = .ok (rm, p) ∧
      V2Session.decode (integMac C s.integ s.k1) p.vis = .ok v2 ∧
      (s.integ ≠ 0 → v2.authenticated = true) ∧
      v2.id = s.localID ∧
      (v2.authenticated = true → ∃ off, off ≤ p.vis.length ∧ v2.signature = p.vis.drop off ∧
          p.vis.drop off = integMac C s.integ s.k1 (p.vis.take off)) ∧
      (v2.encrypted = true → ∃ a, AESLayer.decodeGo C s.k2 true {} (GoSlice.ofBytes v2.payload) = .ok a) := by
  intro r hok
  obtain ⟨_, h2, _⟩ := V2Session_buildAndSend_gen_eq C c hc s hs hL hr ivs script hne hl fuel hfu bd name rsp [] K hK
  have h2' : resOf r.1 r.2.2 = some (sendLoop C c s ivs script).2.2 := h2
  rw [hok] at h2'
  simp only [resOf, Option.some.injEq] at h2'
  exact Bmc.Proofs.C04.accept_sound C c hf s hs ivs script hl _ _ h2'.symm

end Bmc.Proofs.EndToEnd
