import Bmc.Proofs.EndToEnd.HistoryC09
/-! # C09, HISTORY form with SERIALISATION FAILURES, about `SendCommand` AS REGENERATED on this run

`HistoryC09` asks every command of the history to serialise. Here some do not: their request layer's `SerializeTo` returns an error
(`reqFails`), the call ends with that error and nothing is sent. The history theorems still hold of the translated code — such a
call consumes NO sequence number: the datagrams before and after it are numbered consecutively, no gap, no repeat. -/
namespace Bmc.Proofs.EndToEnd
open Bmc Bmc.Wire Bmc.Crypto Bmc.Proto Bmc.GoOrch Bmc.GoLoops Bmc.Gen.Loops Bmc.Lemmas.GenLoops Bmc.Proofs.GenLoops Bmc.Proofs.C09

/-- well-posed history item, serialisation failures allowed -/
def HistItem.ok' (e : HistItem) : Prop :=
  e.1.ent < 4294967296 ∧ e.2.2.2.2 ≠ [] ∧ e.2.2.2.2.length ≤ e.2.2.2.1.length

theorem sendLoop_keys_any (C : Ops) (c : Cmd) (s : Sess) (hs : s.inbound < 4294967296) (ivs : List Bytes) (script : List Outcome)
    (hne : script ≠ []) (hl : script.length ≤ ivs.length) : (sendLoop C c s ivs script).1.keys = s.keys := by
  cases hf : c.reqFails with
  | false => exact (sendLoop_spec C c hf s hs ivs script hl).2.2.1
  | true =>
    cases script with
    | nil => exact absurd rfl hne
    | cons o rest =>
      cases ivs with
      | nil => simp at hl
      | cons iv ivs => rw [sendLoop_serfail C c hf]; rfl

theorem generatedHistory_eq_any (C : Ops) (bd : Bytes → Bool) (h : List HistItem) (hok : ∀ e ∈ h, e.ok') :
    ∀ (s : Sess) (K : Conn Decoded), s.inbound < 4294967296 → s.localID < 4294967296 → s.remoteID < 4294967296 →
      K.inbound = UInt32.ofNat s.inbound →
      generatedHistory C s.keys bd K h = (runHistory C s (h.map modelItem)).2 := by
  induction h with
  | nil => intro s K _ _ _ _; rfl
  | cons e rest ih =>
    intro s K hs hL hr hK
    obtain ⟨c, name, rsp, ivs, script⟩ := e
    obtain ⟨hc, hne, hl⟩ := hok (c, name, rsp, ivs, script) (by simp)
    simp only [] at hc hne hl
    obtain ⟨a1, a2, _⟩ := V2Session_SendCommand_gen_eq C c hc s hs hL hr ivs script hne hl script.length (Nat.le_refl _) bd name rsp [] K hK
    simp only [List.nil_append] at a1
    have hk := sendLoop_keys_any C c s hs ivs script hne hl
    have hs' := sendLoop_inbound_lt C c s hs ivs script hl
    have hL' : (sendLoop C c s ivs script).1.localID < 4294967296 := by
      have := congrArg Keys.localID hk; simp only [Sess.keys] at this; rw [this]; exact hL
    have hr' : (sendLoop C c s ivs script).1.remoteID < 4294967296 := by
      have := congrArg Keys.remoteID hk; simp only [Sess.keys] at this; rw [this]; exact hr
    have hK' : (V2Session_SendCommand (sessWorld C s.keys c bd) script.length (sessConsts s.keys) (cmdOf c name rsp)
        ({ ivs := ivs, script := script, sent := [] }, K)).2.2.inbound = UInt32.ofNat (sendLoop C c s ivs script).1.inbound := by
      rw [← a2, UInt32.ofNat_toNat]
    have hrec := ih (fun e he => hok e (by simp [he])) (sendLoop C c s ivs script).1 _ hs' hL' hr' hK'
    rw [hk] at hrec
    simp only [generatedHistory, List.map_cons, modelItem, runHistory]
    rw [a1, hrec]

/-- **C09, history form with serialisation failures, about the translated code** -/
theorem generated_history_sequence_numbers_any (C : Ops) (bd : Bytes → Bool) (h : List HistItem) (hok : ∀ e ∈ h, e.ok')
    (s : Sess) (K : Conn Decoded) (hs : s.inbound < 4294967296) (hL : s.localID < 4294967296) (hr : s.remoteID < 4294967296)
    (hK : K.inbound = UInt32.ofNat s.inbound) :
    (generatedHistory C s.keys bd K h).map seqOf
      = (List.range (generatedHistory C s.keys bd K h).length).map (fun i => (s.inbound + i + 1) % 4294967296) ∧
    (∀ p ∈ generatedHistory C s.keys bd K h, sessionIDOf p = s.remoteID) := by
  rw [generatedHistory_eq_any C bd h hok s K hs hL hr hK]
  exact history_seqs C s hs hr (h.map modelItem) (by
    intro e he
    obtain ⟨e', he', rfl⟩ := List.mem_map.mp he
    exact (hok e' he').2.2)

theorem generated_history_no_reuse_any (C : Ops) (bd : Bytes → Bool) (h : List HistItem) (hok : ∀ e ∈ h, e.ok')
    (s : Sess) (K : Conn Decoded) (hs : s.inbound < 4294967296) (hL : s.localID < 4294967296) (hr : s.remoteID < 4294967296)
    (hK : K.inbound = UInt32.ofNat s.inbound) (hn : (generatedHistory C s.keys bd K h).length ≤ 4294967296)
    (i j : Nat) (hij : i < j) (hj : j < (generatedHistory C s.keys bd K h).length) :
    ((generatedHistory C s.keys bd K h).map seqOf).getD i 0 ≠ ((generatedHistory C s.keys bd K h).map seqOf).getD j 0 := by
  rw [generatedHistory_eq_any C bd h hok s K hs hL hr hK] at hn hj ⊢
  exact history_no_reuse C s hs hr (h.map modelItem) (by
    intro e he
    obtain ⟨e', he', rfl⟩ := List.mem_map.mp he
    exact (hok e' he').2.2) hn i j hij hj

/-- a history with a failing command in the middle meets the hypotheses -/
example : ∀ e ∈ ([({ fn := 6, cmd := 1 }, "a", 0, [[]], [.lost]),
                  ({ fn := 6, cmd := 2, reqFails := true }, "b", 0, [[]], [.lost]),
                  ({ fn := 6, cmd := 1 }, "c", 0, [[], []], [.reply [], .lost])] : List HistItem), e.ok' := by
  simp only [List.mem_cons, List.not_mem_nil, or_false, forall_eq_or_imp, forall_eq]
  exact ⟨⟨by decide, by decide, by decide⟩, ⟨by decide, by decide, by decide⟩, ⟨by decide, by decide, by decide⟩⟩

end Bmc.Proofs.EndToEnd
