import Bmc.Proofs.GenLoops.BuildAndSend
import Bmc.Proofs.C10
/-! # C10 (retry liveness in a session), about `SendCommand` AS REGENERATED on this run -/
namespace Bmc.Proofs.EndToEnd
open Bmc Bmc.Wire Bmc.Crypto Bmc.Proto Bmc.GoOrch Bmc.GoLoops Bmc.Gen.Loops Bmc.Lemmas.GenLoops Bmc.Proofs.GenLoops Bmc.Proofs.C10

/-- The BMC answers ANY number of times with conforming responses carrying a temporary completion code (node busy C0h / timeout
    C3h) and then with a conforming response carrying another code: `SendCommand` AS TRANSLATED ON THIS RUN hands the transport the
    command's datagram once per answer — each the complete datagram for THIS command with the next sequence number and IV draw — and
    returns that final code (and reports a body that does not decode). Every lawful crypto, key set, command, counter, number of busy
    answers, whatever follows in the script and whatever earlier traffic left on the connection. -/
theorem generated_SendCommand_busy_then_final (C : Ops) (hC : C.Lawful) (c : Cmd) (hc : c.ent < 4294967296) (hf : c.reqFails = false)
    (s : Sess) (hs : s.inbound < 4294967296) (hid : s.localID < 4294967296) (hr : s.remoteID < 4294967296)
    (busy : List BmcAnswer) (fin : BmcAnswer) (rest : List Outcome) (ivs : List Bytes)
    (hb : ∀ a ∈ busy, a.ok C s.keys c ∧ isTemp a.cc = true) (hfin : fin.ok C s.keys c) (hnt : isTemp fin.cc = false)
    (hl : busy.length + 1 + rest.length ≤ ivs.length) (fuel : Nat) (hfu : busy.length + 1 + rest.length ≤ fuel)
    (bd : Bytes → Bool) (name : String) (rsp : Opaque) (K : Conn Decoded) (hK : K.inbound = UInt32.ofNat s.inbound) :
    let script := busy.map (BmcAnswer.datagram C s.keys c) ++ fin.datagram C s.keys c :: rest
    let r := V2Session_SendCommand (sessWorld C s.keys c bd) fuel (sessConsts s.keys) (cmdOf c name rsp)
              ({ ivs := ivs, script := script, sent := [] }, K)
    r.2.1.sent = (List.range (busy.length + 1)).map (fun i => datagramOf C s.keys c ((s.inbound + i) % 4294967296) (ivs.getD i [])) ∧
    r.1 = .ok (fin.cc, if rsp != 0 ∧ bd fin.data = false then some .response else none) := by
  intro script r
  have hlen : script.length = busy.length + 1 + rest.length := by simp [script]; omega
  obtain ⟨a1, _, a3⟩ := V2Session_SendCommand_gen_eq C c hc s hs hid hr ivs script (by simp [script]) (by omega) fuel (by omega)
    bd name rsp [] K hK
  have h := busy_then_final C hC c hf s hs hid busy fin rest ivs hb hfin hnt hl
  rw [h] at a1 a3
  exact ⟨by simpa using a1, a3⟩

end Bmc.Proofs.EndToEnd
