import Bmc.Proofs.EndToEnd.WholeC01
import Bmc.Proofs.EndToEnd.HistoryC09
/-! # C09 whole: a session established by the regenerated `newV2Session`, then ANY history on the regenerated `SendCommand`

From the first datagram of the session: the session the translated `newV2Session` returns against the specification's BMC starts with
its outbound counter at zero, and over any history that follows the datagrams the translated `SendCommand` hands to the transport
carry the sequence numbers 1, 2, 3, … in order, no gap, no repeat, never the reserved 0 while fewer than 2³² − 1 have been sent,
every one addressed to the session ID the BMC chose. -/
namespace Bmc.Proofs.EndToEnd
open Bmc Bmc.Wire Bmc.Crypto Bmc.Proto Bmc.GoOrch Bmc.GoLoops Bmc.Gen.Loops Bmc.Lemmas.GenLoops Bmc.Lemmas.GenHs
open Bmc.Spec Bmc.Proofs.C03 Bmc.Proofs.C01

open Bmc.Gen.Hs Bmc.Gen.Orch in
theorem generated_session_then_history_sequence_numbers (C : Ops) (hC : C.Lawful) (fuel : Nat)
    (sendS : Unit → GetChannelCipherSuitesReq → Unit × GetChannelCipherSuitesRsp × Bool) (tail : Bytes)
    (opts : V2SessionOpts) (cs : Gen.Dec.CipherSuite) (draw : Bytes)
    (hdet : bmc_V2SessionlessTransport_determineCipherSuite fuel sendS tail opts.cipherSuites () = (.ok cs, ()))
    (b : Spec.BmcSide) (hb : b.wf) (hh : HashAlg)
    (hauth : authHash (optsOf opts cs).auth = some hh)
    (hinteg : (optsOf opts cs).integ = 1 ∨ (optsOf opts cs).integ = 2 ∨ (optsOf opts cs).integ = 4)
    (hconf : (optsOf opts cs).conf = 1) (hpass : b.kuid = (optsOf opts cs).pass) (hkg : b.kg = (optsOf opts cs).kg)
    (bd : Bytes → Bool) (K : Conn Decoded) (hK : K.inbound = 0)
    (h : List HistItem) (hok : ∀ e ∈ h, e.ok) :
    let o := optsOf opts cs
    let rm := GoKeys.copyArr 16 (List.replicate 16 0) draw
    ∃ sess, (bmc_V2SessionlessTransport_newV2Session fuel sendS (typedO b) (typedR1 C hh b o rm) (typedR3 C hh b o rm) tail
              (Bmc.Lemmas.GenKeys.mac C) (fun _ _ => ((), some draw)) opts ()).1 = .ok (.ok sess) ∧
      (generatedHistory C (keysOfSession sess) bd K h).map seqOf
        = (List.range (generatedHistory C (keysOfSession sess) bd K h).length).map (fun i => (i + 1) % 4294967296) ∧
      (∀ p ∈ generatedHistory C (keysOfSession sess) bd K h, sessionIDOf p = b.sidc) := by
  intro o rm
  have hlen : ∀ a k m, (C.hmac a k m).length = a.size := hC.hmac_len
  have hs := generated_newV2Session_against_spec_bmc C hlen fuel sendS tail opts cs draw hdet b hb hh hauth hinteg hconf hpass hkg
  have hk := keysOfSession_sessionOf b.sidc hb.1 o.auth o.integ o.conf (b.sik C hh (received o rm)) (b.k1 C hh (received o rm))
    (b.k2 C hh (received o rm))
  refine ⟨_, hs, ?_⟩
  rw [hk]
  have := generated_history_sequence_numbers C bd h hok
    (Keys.sess ⟨1, b.sidc, o.integ.toNat, b.k1 C hh (received o rm), (b.k2 C hh (received o rm)).take 16⟩) K
    (by show (0 : Nat) < 4294967296; omega) (by show (1 : Nat) < 4294967296; omega) hb.1 (by rw [hK]; rfl)
  obtain ⟨t1, t2⟩ := this
  refine ⟨?_, t2⟩
  have e : (fun i => (i + 1) % 4294967296) = fun i : Nat => (0 + i + 1) % 4294967296 := by
    funext i; rw [Nat.zero_add]
  rw [e]
  exact t1

end Bmc.Proofs.EndToEnd
