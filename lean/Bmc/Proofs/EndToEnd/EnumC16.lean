import Bmc.Proofs.GenOrch.RetrieveSupportedCipherSuites
import Bmc.Proofs.GenOrch.GetEntityInstances
import Bmc.Proofs.GenOrch.GetSensorInfo
import Bmc.Proofs.EndToEnd.DiscoveryC12
import Bmc.Proofs.C16
/-! # C16 (complete, ordered, each page asked once), stated about the paging loops AS REGENERATED on this run

`Proofs/C16.lean` is about the hand models `retrieveSupportedCipherSuites` / `entityInstances`; `Proofs/GenOrch/*` prove that
`RetrieveSupportedCipherSuites` and `getEntityInstances` as re-translated from the source on every run are those models
(result and the log of requests made). Composed here, with the congruence lemmas that make the hypothesis on the BMC concern
ONLY the list indices / instance starts the loops can ask for. -/
namespace Bmc.Proofs.EndToEnd
open Bmc Bmc.Proto Bmc.Proto.Enum Bmc.Spec.Enum Bmc.Lemmas.Enum Bmc.GoOrch Bmc.Gen.Orch Bmc.Lemmas.GenOrch

section suites
open Bmc.Lemmas.GenOrchSuites

theorem retrieveSupportedCipherSuites_congr (page page' : Nat → Option Bytes) (h : ∀ w, w < 64 → page w = page' w) :
    retrieveSupportedCipherSuites page = retrieveSupportedCipherSuites page' := by
  unfold retrieveSupportedCipherSuites retrieveSupportedCipherSuitesL retrieveChunksL
  rw [retrieveLoop_congr 63 page page' h]

/-- A BMC serving the specification's encoding of ANY list of well-formed cipher-suite records (shorter than 1024 bytes), 16
    bytes per list index: `RetrieveSupportedCipherSuites` AS TRANSLATED ON THIS RUN (the regenerated record parser underneath)
    returns exactly one entry per combination, in order, and asks for the list indices 0, 1, …, ⌊len/16⌋ — each once, in
    order, nothing else. -/
theorem generated_RetrieveSupportedCipherSuites_complete (b : TBmc) (junk : Junk) (fuel : Nat) (hf : 64 ≤ fuel) (tail : Bytes)
    (log : List GetChannelCipherSuitesReq) (ch : UInt8) (hch : ch.toNat < 16) (rs : List Record) (hw : ∀ r ∈ rs, r.wf)
    (hlen : (encodeRecords rs).length < 1024)
    (hb : ∀ w, w < 64 → pageOf b w = pageOfBody (fun i => some (pageBody ch (encodeRecords rs) i)) w) :
    (bmc_RetrieveSupportedCipherSuites fuel (ansOf b junk) tail log).1.map (List.map Gen.Dec.CipherSuiteRecord.toEntry)
        = RF.ok ((rs.flatMap expand).map view) ∧
    (bmc_RetrieveSupportedCipherSuites fuel (ansOf b junk) tail log).2.map viewReq
        = log.map viewReq ++ List.range ((encodeRecords rs).length / 16 + 1) := by
  obtain ⟨h1, h2⟩ := Proofs.GenOrch.RetrieveSupportedCipherSuites_gen_eq b junk fuel hf tail log
  rw [retrieveSupportedCipherSuites_congr _ _ hb, Proofs.C16.retrieve_complete ch hch rs hw hlen] at h1 h2
  exact ⟨h1, h2⟩

end suites

section dcmi
open Bmc.Lemmas.GenOrchDcmi

/-- the instance loop only ever asks for instance starts 0 … 255 of its own entity -/
theorem instLoop_congr (bmc bmc' : Proto.Enum.Bmc) (e : Nat) (h : ∀ s, s < 256 → bmc e s = bmc' e s) :
    ∀ (f : Nat) (ids : List Nat) (t : Nat), instLoop bmc e f ids t = instLoop bmc' e f ids t := by
  intro f
  induction f with
  | zero => intro ids t; rfl
  | succ f ih =>
    intro ids t
    simp only [instLoop]
    rw [h ((ids.length + 1) % 256) (Nat.mod_lt _ (by decide))]
    cases bmc' e ((ids.length + 1) % 256) with
    | none => rfl
    | some p => obtain ⟨tot, pg⟩ := p; simp only [ih]

/-- A BMC holding ANY 0…255 record IDs for the entity, answering each request with its total and a page of at most
    `pageSize ≥ 1` IDs from the requested instance: `getEntityInstances` AS TRANSLATED ON THIS RUN returns all of them, in order,
    with exactly the requests needed (instance start 1, 1 + p, 1 + 2p, … while instances remain). -/
theorem generated_getEntityInstances_pages (b : TBmc) (junk) (typ E : UInt8) (fuel : Nat) (hf : 256 ≤ fuel)
    (log : List GetDCMISensorInfoReq) (cmd : GetDCMISensorInfoCmd) (ht : cmd.req.type_ = typ) (he : cmd.req.entity = E)
    (B : DcmiBmc) (l : List Nat) (hB : B.ids E.toNat = some l) (hn : l.length ≤ 255) (hp : 1 ≤ B.pageSize)
    (hb : ∀ s, s < 256 → handOf b typ E.toNat s = B.respond E.toNat s) :
    (dcmi_getEntityInstances fuel (ansOf b junk) (log, cmd)).1.map ids = RF.ok l ∧
    (dcmi_getEntityInstances fuel (ansOf b junk) (log, cmd)).2.1.map viewReq
        = log.map viewReq ++ (expectedStarts B.pageSize l.length 256 0).map (fun s => ⟨E.toNat, s⟩) := by
  obtain ⟨h1, h2, _⟩ := Proofs.GenOrch.getEntityInstances_gen_eq b junk typ E fuel hf log cmd ht he
  have e : entityInstances (handOf b typ) E.toNat = entityInstances B.respond E.toNat := instLoop_congr _ _ _ hb _ _ _
  rw [e, Proofs.C16.dcmi_requests B E.toNat l hB hn hp] at h1 h2
  exact ⟨h1, h2⟩

theorem sensorMapLoop_congr (bmc bmc' : Proto.Enum.Bmc) :
    ∀ (es : List Nat) (m : SMap), (∀ e ∈ es, ∀ s, s < 256 → bmc e s = bmc' e s) →
      sensorMapLoop bmc es m = sensorMapLoop bmc' es m := by
  intro es
  induction es with
  | nil => intro m _; rfl
  | cons e rest ih =>
    intro m h
    have he : entityInstances bmc e = entityInstances bmc' e :=
      instLoop_congr bmc bmc' e (h e (by simp)) _ _ _
    simp only [sensorMapLoop, he]
    cases hr : entityInstances bmc' e with
    | mk l1 r =>
      cases r with
      | ok ids => simp only [ih (m.set e ids) (fun e' he' => h e' (by simp [he']))]
      | _ => rfl

theorem getSensorInfo_congr (bmc bmc' : Proto.Enum.Bmc)
    (h : ∀ e, e ∈ Proto.Enum.stdEntities ++ Proto.Enum.dcmiEntities → ∀ s, s < 256 → bmc e s = bmc' e s) :
    getSensorInfo bmc = getSensorInfo bmc' := by
  have h1 := sensorMapLoop_congr bmc bmc' Proto.Enum.stdEntities [] (fun e he => h e (by simp [he]))
  have h2 := sensorMapLoop_congr bmc bmc' Proto.Enum.dcmiEntities [] (fun e he => h e (by simp [he]))
  unfold getSensorInfo fallback sensorMap
  rw [h1, h2]

/-- A BMC holding record IDs for the three standard temperature entities (air inlet 37h, processor 03h, system board 07h; at least
    one record ID in all, at most 255 each), served in pages of any size ≥ 1: `GetSensorInfo` AS TRANSLATED ON THIS RUN returns
    exactly those three lists (and never touches the DCMI-specific entity IDs: `C16.fallback_iff`). -/
theorem generated_GetSensorInfo_std (b : TBmc) (junk) (fuel : Nat) (hf : 256 ≤ fuel) (log : List GetDCMISensorInfoReq)
    (B : DcmiBmc) (hp : 1 ≤ B.pageSize) (i0 i1 i2 : List Nat)
    (h0 : B.ids 0x37 = some i0) (h1 : B.ids 0x03 = some i1) (h2 : B.ids 0x07 = some i2)
    (l0 : i0.length ≤ 255) (l1 : i1.length ≤ 255) (l2 : i2.length ≤ 255) (hpos : 0 < i0.length + i1.length + i2.length)
    (hb : ∀ e, e ∈ Proto.Enum.stdEntities ++ Proto.Enum.dcmiEntities → ∀ s, s < 256 → handOf b 1 e s = B.respond e s) :
    (dcmi_GetSensorInfo fuel (ansOf b junk) log).1.map viewInfo = RF.ok ⟨i0, i1, i2⟩ := by
  obtain ⟨g1, _⟩ := Proofs.GenOrch.GetSensorInfo_gen_eq b junk fuel hf log
  rw [getSensorInfo_congr _ _ hb, Proofs.C16.sensorInfo_std B hp i0 i1 i2 h0 h1 h2 l0 l1 l2 hpos] at g1
  exact g1

/-- the hypothesis on the BMC is satisfiable: a typed BMC holding 20 record IDs for entity 3, served 8 at a time -/
def sampleDcmi : DcmiBmc := ⟨fun e => if e = 3 then some ((List.range 20).map (· + 100)) else none, 8⟩
def sampleTyped : TBmc := fun q =>
  (sampleDcmi.respond q.entity.toNat q.instanceStart.toNat).map fun p =>
    { instances := UInt8.ofNat p.1, recordIDs := p.2.map UInt16.ofNat }
example : ∀ s, s < 256 → handOf sampleTyped 1 (3 : UInt8).toNat s = sampleDcmi.respond (3 : UInt8).toNat s := by decide +kernel

end dcmi
end Bmc.Proofs.EndToEnd
