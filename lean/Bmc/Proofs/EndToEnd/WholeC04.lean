import Bmc.Proofs.EndToEnd.WholeC01
import Bmc.Proofs.EndToEnd.HistoryC11
/-! # C04 / C11 whole: a session established by the regenerated `newV2Session`, then ANY history on the regenerated `SendCommand`

"Authentic" in C04 means: carrying the AuthCode only a holder of the session's K1 can compute. Here the K1 is not a parameter: the
session is the one the translated `newV2Session` returns against the specification's BMC, and K1 is the key THAT BMC derived for itself
from its own copy of the password, its own random number and the console's. Over any history that follows — any replies, forgeries,
garbage, losses, any number of commands — whenever a call of the translated `SendCommand` returns a completion code with a nil error, a
reply delivered during that call was addressed to the console's session ID, had the authenticated flag set, carried as AuthCode the
negotiated keyed hash under the BMC's K1 of everything before it, and decoded to a message for that call's command with that code. -/
namespace Bmc.Proofs.EndToEnd
open Bmc Bmc.Wire Bmc.Crypto Bmc.Proto Bmc.GoOrch Bmc.GoLoops Bmc.Gen.Loops Bmc.Lemmas.GenLoops Bmc.Lemmas.GenHs
open Bmc.Spec Bmc.Proofs.C03 Bmc.Proofs.C01

open Bmc.Gen.Hs Bmc.Gen.Orch in
theorem generated_session_then_history_results (C : Ops) (hC : C.Lawful) (fuel : Nat)
    (sendS : Unit → GetChannelCipherSuitesReq → Unit × GetChannelCipherSuitesRsp × Bool) (tail : Bytes)
    (opts : V2SessionOpts) (cs : Gen.Dec.CipherSuite) (draw : Bytes)
    (hdet : bmc_V2SessionlessTransport_determineCipherSuite fuel sendS tail opts.cipherSuites () = (.ok cs, ()))
    (b : Spec.BmcSide) (hb : b.wf) (hh : HashAlg)
    (hauth : authHash (optsOf opts cs).auth = some hh)
    (hinteg : (optsOf opts cs).integ = 1 ∨ (optsOf opts cs).integ = 2 ∨ (optsOf opts cs).integ = 4)
    (hconf : (optsOf opts cs).conf = 1) (hpass : b.kuid = (optsOf opts cs).pass) (hkg : b.kg = (optsOf opts cs).kg)
    (bd : Bytes → Bool) (K : Conn Decoded) (hK : K.inbound = 0)
    (h : List HistItem) (hok : ∀ e ∈ h, e.ok) :
    let o := optsOf opts cs
    let rm := GoKeys.copyArr 16 (List.replicate 16 0) draw
    let k : Keys := ⟨1, b.sidc, o.integ.toNat, b.k1 C hh (received o rm), (b.k2 C hh (received o rm)).take 16⟩
    ∃ sess, (bmc_V2SessionlessTransport_newV2Session fuel sendS (typedO b) (typedR1 C hh b o rm) (typedR3 C hh b o rm) tail
              (Bmc.Lemmas.GenKeys.mac C) (fun _ _ => ((), some draw)) opts ()).1 = .ok (.ok sess) ∧
      (generatedResults C (keysOfSession sess) bd K h).length = h.length ∧
      ∀ er ∈ h.zip (generatedResults C (keysOfSession sess) bd K h), ResultJustified C k er.1 er.2 := by
  intro o rm k
  have hlen : ∀ a k m, (C.hmac a k m).length = a.size := hC.hmac_len
  have hs := generated_newV2Session_against_spec_bmc C hlen fuel sendS tail opts cs draw hdet b hb hh hauth hinteg hconf hpass hkg
  have hk := keysOfSession_sessionOf b.sidc hb.1 o.auth o.integ o.conf (b.sik C hh (received o rm)) (b.k1 C hh (received o rm))
    (b.k2 C hh (received o rm))
  refine ⟨_, hs, ?_⟩
  rw [hk]
  exact generated_history_results C bd h hok k.sess K (by show (0 : Nat) < 4294967296; omega)
    (by show (1 : Nat) < 4294967296; omega) hb.1 (by rw [hK]; rfl)

/-- in such a session an integrity algorithm IS negotiated, so `ResultJustified`'s "authenticated when an integrity algorithm was
    negotiated" is unconditional -/
theorem integ_ne_zero_of_negotiated (i : UInt8) (h : i = 1 ∨ i = 2 ∨ i = 4) : i.toNat ≠ 0 := by
  rcases h with rfl | rfl | rfl <;> decide

end Bmc.Proofs.EndToEnd
