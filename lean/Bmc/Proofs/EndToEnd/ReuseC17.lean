import Bmc.Proofs.GenLoops.BuildAndSend
import Bmc.Proofs.GenLoops.BuildAndSendCommand
/-! # C17 (reusing a connection / session never leaks earlier data into a result), about `SendCommand` AS REGENERATED on this run

The regenerated `SendCommand`s run on a connection value `K` that holds everything EARLIER traffic left behind: the layer structs
of the last decode (session wrapper, AES layer, message — their fields, `Contents`, `Payload`), which layer types that decode went
through, the serialisation buffer's bytes, the Prometheus log. `Proofs/GenLoops/*_SendCommand_gen_eq` express the outcome through the
hand model, which has no such state. Hence: two connection values that differ ARBITRARILY in all of that (same sequence counter)
give the same result, hand the transport the same datagrams and leave the same counter. -/
namespace Bmc.Proofs.EndToEnd
open Bmc Bmc.Wire Bmc.Crypto Bmc.Proto Bmc.GoOrch Bmc.GoLoops Bmc.Gen.Loops Bmc.Lemmas.GenLoops Bmc.Proofs.GenLoops

theorem generated_session_SendCommand_ignores_history (C : Ops) (c : Cmd) (hc : c.ent < 4294967296) (s : Sess)
    (hs : s.inbound < 4294967296) (hL : s.localID < 4294967296) (hr : s.remoteID < 4294967296)
    (ivs : List Bytes) (script : List Outcome) (hne : script ≠ []) (hl : script.length ≤ ivs.length)
    (fuel : Nat) (hfu : script.length ≤ fuel) (bd : Bytes → Bool) (name : String) (rsp : Opaque)
    (sent0 : List Bytes) (K K' : Conn Decoded) (hK : K.inbound = UInt32.ofNat s.inbound) (hK' : K'.inbound = UInt32.ofNat s.inbound) :
    let r := V2Session_SendCommand (sessWorld C s.keys c bd) fuel (sessConsts s.keys) (cmdOf c name rsp)
              ({ ivs := ivs, script := script, sent := sent0 }, K)
    let r' := V2Session_SendCommand (sessWorld C s.keys c bd) fuel (sessConsts s.keys) (cmdOf c name rsp)
              ({ ivs := ivs, script := script, sent := sent0 }, K')
    r.1 = r'.1 ∧ r.2.1.sent = r'.2.1.sent ∧ r.2.2.inbound = r'.2.2.inbound := by
  intro r r'
  obtain ⟨a1, a2, a3⟩ := V2Session_SendCommand_gen_eq C c hc s hs hL hr ivs script hne hl fuel hfu bd name rsp sent0 K hK
  obtain ⟨b1, b2, b3⟩ := V2Session_SendCommand_gen_eq C c hc s hs hL hr ivs script hne hl fuel hfu bd name rsp sent0 K' hK'
  refine ⟨a3.trans b3.symm, a1.trans b1.symm, ?_⟩
  exact UInt32.toNat_inj.mp (a2.trans b2.symm)

theorem generated_sessionless_SendCommand_ignores_history (c : Cmd) (hc : c.ent < 4294967296) (script : List Outcome)
    (fuel : Nat) (hfu : script.length + 1 ≤ fuel) (bd : Bytes → Bool) (name : String) (rsp : Opaque)
    (ivs sent0 : List Bytes) (K K' : Conn Decoded) :
    let r := V2Sessionless_SendCommand (slWorld c bd) fuel (cmdOf c name rsp) ({ ivs := ivs, script := script, sent := sent0 }, K)
    let r' := V2Sessionless_SendCommand (slWorld c bd) fuel (cmdOf c name rsp) ({ ivs := ivs, script := script, sent := sent0 }, K')
    r.1 = r'.1 ∧ r.2.1.sent = r'.2.1.sent := by
  intro r r'
  obtain ⟨a1, _, a3⟩ := V2Sessionless_SendCommand_gen_eq c hc script fuel hfu bd name rsp ivs sent0 K
  obtain ⟨b1, _, b3⟩ := V2Sessionless_SendCommand_gen_eq c hc script fuel hfu bd name rsp ivs sent0 K'
  exact ⟨a3.trans b3.symm, a1.trans b1.symm⟩

end Bmc.Proofs.EndToEnd
