import Bmc.Proofs.GenLoops.BuildAndSend
import Bmc.Proofs.C01
/-! # C01, last clause ("…and commands sent on the session are accepted by the BMC and answered"), about `SendCommand` AS REGENERATED -/
namespace Bmc.Proofs.EndToEnd
open Bmc Bmc.Wire Bmc.Crypto Bmc.Proto Bmc.GoOrch Bmc.GoLoops Bmc.Gen.Loops Bmc.Lemmas.GenLoops Bmc.Proofs.GenLoops
open Bmc.Spec Bmc.Proofs.C03 Bmc.Proofs.C01

/-- On a session whose keys both sides hold, for ANY well-posed command (`Exchange`), every lawful crypto, counter value, BMC
    sequence number and IVs, whatever earlier traffic left on the connection: the ONE datagram `SendCommand` AS TRANSLATED ON THIS
    RUN hands to the transport passes the conforming BMC's integrity check, decryption and message checks (`bmcAnswer … = some
    reply`: the BMC understood exactly the caller's command with sequence number counter + 1), and fed the BMC's reply the
    translated code returns the handler's completion code (and reports a body that does not decode, nothing else). -/
theorem generated_SendCommand_answered (C : Ops) (hC : C.Lawful) (c : Cmd) (hc : c.ent < 4294967296) (s : Sess)
    (hs : s.inbound < 4294967296) (hid : s.localID < 4294967296) (hr : s.remoteID < 4294967296)
    (iv : Bytes) (ivs : List Bytes) (handler : BmcReq → UInt8 × Bytes) (bseq : Nat) (hb : bseq < 4294967296) (biv : Bytes)
    (rest : List Outcome) (hl : rest.length ≤ ivs.length) (fuel : Nat) (hfu : rest.length + 1 ≤ fuel)
    (bd : Bytes → Bool) (name : String) (rsp : Opaque) (K : Conn Decoded) (hK : K.inbound = UInt32.ofNat s.inbound)
    (hx : Exchange C s.keys c iv biv
            (handler ⟨(s.inbound + 1) % 4294967296, c.fn, c.cmd, c.body, c.ent, c.lun, c.req⟩).1
            (handler ⟨(s.inbound + 1) % 4294967296, c.fn, c.cmd, c.body, c.ent, c.lun, c.req⟩).2) :
    ∃ reply, bmcAnswer C s.keys handler bseq biv (datagramOf C s.keys c s.inbound iv) = some reply ∧
      let r := V2Session_SendCommand (sessWorld C s.keys c bd) fuel (sessConsts s.keys) (cmdOf c name rsp)
                ({ ivs := iv :: ivs, script := .reply reply :: rest, sent := [] }, K)
      r.2.1.sent = [datagramOf C s.keys c s.inbound iv] ∧
      r.1 = .ok ((handler ⟨(s.inbound + 1) % 4294967296, c.fn, c.cmd, c.body, c.ent, c.lun, c.req⟩).1,
                 if rsp != 0 ∧ bd (handler ⟨(s.inbound + 1) % 4294967296, c.fn, c.cmd, c.body, c.ent, c.lun, c.req⟩).2 = false
                 then some .response else none) := by
  obtain ⟨reply, h1, h2⟩ := command_answered C hC c s hid hr iv ivs handler bseq hb biv rest hx
  refine ⟨reply, h1, ?_⟩
  intro r
  obtain ⟨a1, _, a3⟩ := V2Session_SendCommand_gen_eq C c hc s hs hid hr (iv :: ivs) (.reply reply :: rest) (by simp)
    (by simp only [List.length_cons]; omega) fuel (by simp only [List.length_cons]; omega) bd name rsp [] K hK
  rw [h2] at a1 a3
  exact ⟨by simpa using a1, a3⟩

end Bmc.Proofs.EndToEnd
