import Bmc.Proofs.GenLoops.BuildAndSend
import Bmc.Proofs.C01
import Bmc.Lemmas.SessionSpec
/-! # C01, last clause ("…and commands sent on the session are accepted by the BMC and answered"), about `SendCommand` AS REGENERATED -/
namespace Bmc.Proofs.EndToEnd
open Bmc Bmc.Wire Bmc.Crypto Bmc.Proto Bmc.GoOrch Bmc.GoLoops Bmc.Gen.Loops Bmc.Lemmas.GenLoops Bmc.Proofs.GenLoops
open Bmc.Spec Bmc.Proofs.C03 Bmc.Proofs.C01

/-- On a session whose keys both sides hold, for ANY well-posed command (`Exchange`), every lawful crypto, counter value, BMC
    sequence number and IVs, whatever earlier traffic left on the connection: the ONE datagram `SendCommand` AS TRANSLATED ON THIS
    RUN hands to the transport passes the conforming BMC's integrity check, decryption and message checks (`bmcAnswer … = some
    reply`: the BMC understood exactly the caller's command with sequence number counter + 1), and fed the BMC's reply the
    translated code returns the handler's completion code (and reports a body that does not decode, nothing else). -/
theorem generated_SendCommand_answered (C : Ops) (hC : C.Lawful) (c : Cmd) (hc : c.ent < 4294967296) (s : Sess)
    (hs : s.inbound < 4294967296) (hid : s.localID < 4294967296) (hr : s.remoteID < 4294967296)
    (iv : Bytes) (ivs : List Bytes) (handler : BmcReq → UInt8 × Bytes) (bseq : Nat) (hb : bseq < 4294967296) (biv : Bytes)
    (rest : List Outcome) (hl : rest.length ≤ ivs.length) (fuel : Nat) (hfu : rest.length + 1 ≤ fuel)
    (bd : Bytes → Bool) (name : String) (rsp : Opaque) (K : Conn Decoded) (hK : K.inbound = UInt32.ofNat s.inbound)
    (hx : Exchange C s.keys c iv biv
            (handler ⟨(s.inbound + 1) % 4294967296, c.fn, c.cmd, c.body, c.ent, c.lun, c.req⟩).1
            (handler ⟨(s.inbound + 1) % 4294967296, c.fn, c.cmd, c.body, c.ent, c.lun, c.req⟩).2) :
    ∃ reply, bmcAnswer C s.keys handler bseq biv (datagramOf C s.keys c s.inbound iv) = some reply ∧
      let r := V2Session_SendCommand (sessWorld C s.keys c bd) fuel (sessConsts s.keys) (cmdOf c name rsp)
                ({ ivs := iv :: ivs, script := .reply reply :: rest, sent := [] }, K)
      r.2.1.sent = [datagramOf C s.keys c s.inbound iv] ∧
      r.1 = .ok ((handler ⟨(s.inbound + 1) % 4294967296, c.fn, c.cmd, c.body, c.ent, c.lun, c.req⟩).1,
                 if rsp != 0 ∧ bd (handler ⟨(s.inbound + 1) % 4294967296, c.fn, c.cmd, c.body, c.ent, c.lun, c.req⟩).2 = false
                 then some .response else none) ∧
      r.2.2.inbound = UInt32.ofNat ((s.inbound + 1) % 4294967296) := by
  obtain ⟨reply, h1, h2⟩ := command_answered C hC c s hid hr iv ivs handler bseq hb biv rest hx
  refine ⟨reply, h1, ?_⟩
  intro r
  have hl' : (Outcome.reply reply :: rest).length ≤ (iv :: ivs).length := by simp only [List.length_cons]; omega
  obtain ⟨a1, a2, a3⟩ := V2Session_SendCommand_gen_eq C c hc s hs hid hr (iv :: ivs) (.reply reply :: rest) (by simp)
    hl' fuel (by simp only [List.length_cons]; omega) bd name rsp [] K hK
  have hspec := sendLoop_spec C c hx.ser s hs (iv :: ivs) (.reply reply :: rest) hl'
  have hcls : (expected (classify C s.keys c) (.reply reply :: rest)).1 = 1 := by
    have e := hspec.2.1
    rw [h2] at e
    simp only [] at e
    have := congrArg List.length e
    simpa using this.symm
  have hi : (sendLoop C c s (iv :: ivs) (.reply reply :: rest)).1.inbound = (s.inbound + 1) % 4294967296 := by
    rw [hspec.2.2.2, hcls]
  rw [h2] at a1 a3
  refine ⟨by simpa using a1, a3, ?_⟩
  rw [hi] at a2
  rw [← a2, UInt32.ofNat_toNat]

/-- a session state holding keys `k` and counter `i` (whatever else a `Sess` records is immaterial: `ReuseC17`) -/
def sessAt (k : Keys) (i : Nat) : Sess :=
  { inbound := i, localID := k.localID, remoteID := k.remoteID, integ := k.integ, k1 := k.k1, k2 := k.k2 }

/-- the console — `SendCommand` AS REGENERATED, threading its own connection value from one call to the next — and the conforming
    BMC in conversation: command after command on one session, each datagram handed to the BMC, the BMC's answer handed back -/
def generatedConverse (C : Ops) (handler : BmcReq → UInt8 × Bytes) (bd : Bytes → Bool) (k : Keys) :
    Nat → Conn Decoded → Nat → List (Cmd × Bytes × Bytes × String × Opaque) → List (RF (UInt8 × Option GoErr))
  | _, _, _, [] => []
  | i, K, bseq, (c, iv, biv, name, rsp) :: rest =>
    match bmcAnswer C k handler bseq biv (datagramOf C k c i iv) with
    | none => [.err]
    | some reply =>
      let r := V2Session_SendCommand (sessWorld C k c bd) 1 (sessConsts k) (cmdOf c name rsp)
                ({ ivs := [iv], script := [.reply reply], sent := [] }, K)
      r.1 :: generatedConverse C handler bd k ((i + 1) % 4294967296) r.2.2 (bseq + 1) rest

/-- what the caller must receive from each call in turn -/
def generatedAnswers (handler : BmcReq → UInt8 × Bytes) (bd : Bytes → Bool) :
    Nat → List (Cmd × Bytes × Bytes × String × Opaque) → List (RF (UInt8 × Option GoErr))
  | _, [] => []
  | i, (c, _, _, _, rsp) :: rest =>
    let q : BmcReq := ⟨(i + 1) % 4294967296, c.fn, c.cmd, c.body, c.ent, c.lun, c.req⟩
    .ok ((handler q).1, if rsp != 0 ∧ bd (handler q).2 = false then some .response else none)
      :: generatedAnswers handler bd ((i + 1) % 4294967296) rest

/-- **EVERY COMMAND OF A SESSION IS ANSWERED, about the regenerated code, for histories of any length**: on a session whose keys
    both sides hold, for any sequence of well-posed commands, every lawful crypto, any starting counter and connection content —
    each datagram the translated `SendCommand` sends passes the conforming BMC's checks, is understood as the caller's command with
    the next sequence number, and each call returns the BMC handler's completion code for that very command. -/
theorem generated_all_commands_answered (C : Ops) (hC : C.Lawful) (handler : BmcReq → UInt8 × Bytes) (bd : Bytes → Bool) (k : Keys)
    (hid : k.localID < 4294967296) (hr : k.remoteID < 4294967296) (i : Nat) (hi : i < 4294967296)
    (K : Conn Decoded) (hK : K.inbound = UInt32.ofNat i) (bseq : Nat)
    (cmds : List (Cmd × Bytes × Bytes × String × Opaque)) (hb : bseq + cmds.length < 4294967296)
    (hc : ∀ e ∈ cmds, e.1.ent < 4294967296)
    (hx : ∀ e ∈ cmds, ∀ q : Nat, Exchange C k e.1 e.2.1 e.2.2.1
            (handler ⟨q, e.1.fn, e.1.cmd, e.1.body, e.1.ent, e.1.lun, e.1.req⟩).1
            (handler ⟨q, e.1.fn, e.1.cmd, e.1.body, e.1.ent, e.1.lun, e.1.req⟩).2) :
    generatedConverse C handler bd k i K bseq cmds = generatedAnswers handler bd i cmds := by
  induction cmds generalizing i K bseq with
  | nil => rfl
  | cons e rest ih =>
    obtain ⟨c, iv, biv, name, rsp⟩ := e
    have hx0 := hx (c, iv, biv, name, rsp) (by simp) ((i + 1) % 4294967296)
    have hc0 := hc (c, iv, biv, name, rsp) (by simp)
    obtain ⟨reply, hans, hrun⟩ := generated_SendCommand_answered C hC c hc0 (sessAt k i) hi hid hr iv [] handler bseq
      (by simp at hb; omega) biv [] (by simp) 1 (by simp) bd name rsp K hK hx0
    simp only [] at hrun
    obtain ⟨_, hres, hinb⟩ := hrun
    have hans' : bmcAnswer C k handler bseq biv (datagramOf C k c i iv) = some reply := hans
    simp only [generatedConverse, hans', generatedAnswers]
    have hres' : (V2Session_SendCommand (sessWorld C k c bd) 1 (sessConsts k) (cmdOf c name rsp)
        ({ ivs := [iv], script := [.reply reply], sent := [] }, K)).1 = _ := hres
    rw [hres']
    congr 1
    exact ih ((i + 1) % 4294967296) (Nat.mod_lt _ (by decide)) _ hinb (bseq + 1) (by simp at hb ⊢; omega)
      (fun e he => hc e (by simp [he])) (fun e he q => hx e (by simp [he]) q)

end Bmc.Proofs.EndToEnd
