import Bmc.Proofs.EndToEnd.HistoryC17
import Bmc.Proofs.C05.Core
/-! # C05, HISTORY form, about `SendCommand` AS REGENERATED on this run

No received bytes can crash the library — over the whole life of a session. The translated `SendCommand` is run command after
command, each call on the connection value the previous one left, and the surroundings may deliver ANY bytes as replies, any number
of them, at any point of any call (the scripts are arbitrary). No call of the history ends in a panic: every one returns a completion
code or an error. (`RF.panic` is how the translation of a Go function represents a run-time panic — index out of range, nil
dereference, slice bounds — anywhere below it; the decoders' own statements are `SafeC05`.) -/
namespace Bmc.Proofs.EndToEnd
open Bmc Bmc.Wire Bmc.Crypto Bmc.Proto Bmc.GoOrch Bmc.GoLoops Bmc.Gen.Loops Bmc.Lemmas.GenLoops Bmc.Proofs.GenLoops Bmc.Proofs.C09

theorem modelResults_no_panic (C : Ops) (hC : C.Lawful) (bd : Bytes → Bool) (h : List HistItem) :
    ∀ s : Sess, ∀ r ∈ modelResults C bd s h, r ≠ RF.panic := by
  induction h with
  | nil => intro s r hr; simp [modelResults] at hr
  | cons e rest ih =>
    intro s r hr
    obtain ⟨c, name, rsp, ivs, script⟩ := e
    simp only [modelResults, List.mem_cons] at hr
    rcases hr with rfl | hr
    · have := Bmc.Proofs.C05.call_total C hC c s ivs script
      cases hm : (sendLoop C c s ivs script).2.2 with
      | crashed => exact absurd hm this
      | ok cc p => simp
      | transportErr => simp
      | serializeErr => simp
      | ctxExpired => simp
    · exact ih _ r hr

/-- **C05, history form, about the translated code** -/
theorem generated_history_never_panics (C : Ops) (hC : C.Lawful) (bd : Bytes → Bool) (h : List HistItem) (hok : ∀ e ∈ h, e.ok)
    (s : Sess) (K : Conn Decoded) (hs : s.inbound < 4294967296) (hL : s.localID < 4294967296) (hr : s.remoteID < 4294967296)
    (hK : K.inbound = UInt32.ofNat s.inbound) :
    (generatedResults C s.keys bd K h).length = h.length ∧ ∀ r ∈ generatedResults C s.keys bd K h, r ≠ RF.panic := by
  refine ⟨(generated_history_results C bd h hok s K hs hL hr hK).1, ?_⟩
  rw [generatedResults_eq C bd h hok s K hs hL hr hK]
  exact modelResults_no_panic C hC bd h s

end Bmc.Proofs.EndToEnd
