import Bmc.Proofs.C06
import Bmc.Proofs.GenEnc.GetChannelAuthenticationCapabilitiesReq
import Bmc.Proofs.GenEnc.GetChannelCipherSuitesReq
import Bmc.Proofs.GenEnc.GetSessionInfoReq
import Bmc.Proofs.GenEnc.SetSessionPrivilegeLevelReq
import Bmc.Proofs.GenEnc.CloseSessionReq
import Bmc.Proofs.GenEnc.ChassisControlReq
import Bmc.Proofs.GenEnc.GetSDRReq
import Bmc.Proofs.GenEnc.GetSensorReadingReq
import Bmc.Proofs.GenEnc.OpenSessionReq
import Bmc.Proofs.GenEnc.RAKPMessage1
import Bmc.Proofs.GenEnc.RAKPMessage3
import Bmc.Proofs.GenEnc.GetDCMICapabilitiesInfoReq
import Bmc.Proofs.GenEnc.GetDCMISensorInfoReq
import Bmc.Proofs.GenEnc.GetPowerReadingReq
/-! # C06, stated about the request serialisers AS REGENERATED on this run

`Proofs/C06.lean` proves that the hand models `Wire.Req.*` produce bodies the independent reference parser `Spec.Req.*`
(written from the specification's tables) reads back as the caller's fields; `Proofs/GenEnc/*` prove that each `SerializeTo`
as re-translated from the source on every run is that model. Composed: for ANY stale content of the serialisation buffer,
the regenerated serialiser of every request layer produces bytes the reference parser reads as exactly the caller's fields
(for all field values that fit the field's wire width). -/
namespace Bmc.Proofs.EndToEnd
open Bmc Bmc.Gen.Enc Bmc.Wire Bmc.Wire.Req Bmc.Proofs.C06 Bmc.Proofs.GenEnc

theorem generated_authcaps_request (v : GetChannelAuthenticationCapabilitiesReq) (stale : Bytes) (h : v.toModel.wf) :
    ∃ b, GetChannelAuthenticationCapabilitiesReq.serializeTo v stale [] = .ok b ∧
      Spec.Req.parseAuthCaps b = some { v2Data := v.toModel.extendedData, channel := v.toModel.channel.toNat
                                        privilege := v.toModel.maxPrivilegeLevel.toNat } :=
  ⟨_, GetChannelAuthenticationCapabilitiesReq_enc_eq v stale [], by rw [List.append_nil]; exact authcaps_parses _ h⟩

theorem generated_ciphersuites_request (v : GetChannelCipherSuitesReq) (stale : Bytes) (h : v.toModel.wf) :
    ∃ b, GetChannelCipherSuitesReq.serializeTo v stale [] = .ok b ∧
      Spec.Req.parseCipherSuites b = some { channel := v.toModel.channel.toNat, payloadType := v.toModel.payloadType.toNat
                                            bySuite := true, listIndex := v.toModel.listIndex.toNat } :=
  ⟨_, GetChannelCipherSuitesReq_enc_eq v stale [], by rw [List.append_nil]; exact ciphersuites_parses _ h⟩

theorem generated_sessioninfo_request (v : GetSessionInfoReq) (stale : Bytes) (h : v.toModel.wf) :
    ∃ b, GetSessionInfoReq.serializeTo v stale [] = .ok b ∧
      Spec.Req.parseSessionInfo b =
        some (if v.toModel.index = 0 then .current else if v.toModel.index = 0xFE then .handle v.toModel.handle.toNat
              else if v.toModel.index = 0xFF then .id v.toModel.id else .nth v.toModel.index.toNat) :=
  ⟨_, GetSessionInfoReq_enc_eq v stale [], by rw [List.append_nil]; exact sessioninfo_parses _ h⟩

theorem generated_setpriv_request (v : SetSessionPrivilegeLevelReq) (stale : Bytes) (h : SetPriv.wf v.privilegeLevel) :
    ∃ b, SetSessionPrivilegeLevelReq.serializeTo v stale [] = .ok b ∧ Spec.Req.parseSetPriv b = some v.privilegeLevel.toNat := by
  obtain ⟨b, hb, hp⟩ := setpriv_parses _ h
  exact ⟨b, by rw [SetSessionPrivilegeLevelReq_enc_eq, hb]; simp [Except.map], hp⟩

/-- the reserved level Callback is refused by the regenerated serialiser too -/
theorem generated_setpriv_callback (v : SetSessionPrivilegeLevelReq) (stale inner : Bytes) (h : v.privilegeLevel = 1) :
    SetSessionPrivilegeLevelReq.serializeTo v stale inner = .err := by
  rw [SetSessionPrivilegeLevelReq_enc_eq, h, set_priv_callback]; rfl

theorem generated_closesession_request (v : CloseSessionReq) (stale : Bytes) :
    ∃ b, CloseSessionReq.serializeTo v stale [] = .ok b ∧
      Spec.Req.parseCloseSession b = some (if v.id.toNat = 0 then .byHandle v.handle.toNat else .byID v.id.toNat) :=
  ⟨_, CloseSessionReq_enc_eq v stale [], by rw [List.append_nil]; exact closesession_parses _ _ v.id.toNat_lt⟩

theorem generated_chassiscontrol_request (v : ChassisControlReq) (stale : Bytes) (h : v.chassisControl.toNat < 16) :
    ∃ b, ChassisControlReq.serializeTo v stale [] = .ok b ∧ Spec.Req.parseChassisControl b = some v.chassisControl.toNat :=
  ⟨_, ChassisControlReq_enc_eq v stale [], by rw [List.append_nil]; exact chassiscontrol_parses _ h⟩

theorem generated_getsdr_request (v : GetSDRReq) (stale : Bytes) :
    ∃ b, GetSDRReq.serializeTo v stale [] = .ok b ∧
      Spec.Req.parseGetSDR b = some { reservation := v.reservationID.toNat, record := v.recordID.toNat
                                      offset := v.offset.toNat, length := v.length.toNat } :=
  ⟨_, GetSDRReq_enc_eq v stale [], by
    rw [List.append_nil]; exact getsdr_parses _ _ _ _ v.reservationID.toNat_lt v.recordID.toNat_lt⟩

theorem generated_sensorreading_request (v : GetSensorReadingReq) (stale : Bytes) :
    ∃ b, GetSensorReadingReq.serializeTo v stale [] = .ok b ∧ Spec.Req.parseSensorReading b = some v.number.toNat :=
  ⟨_, GetSensorReadingReq_enc_eq v stale [], by rw [List.append_nil]; exact sensorreading_parses _⟩

theorem generated_opensession_request (v : OpenSessionReq) (stale : Bytes) (h : v.toModel.wf) :
    ∃ b, OpenSessionReq.serializeTo v stale [] = .ok b ∧
      Spec.Req.parseOpenSession b =
        some { tag := v.toModel.tag.toNat, privilege := v.toModel.maxPrivilegeLevel.toNat, consoleSessionID := v.toModel.sessionID
               auth := if v.toModel.authWildcard then none else some v.toModel.auth.toNat
               integ := if v.toModel.integWildcard then none else some v.toModel.integ.toNat
               conf := if v.toModel.confWildcard then none else some v.toModel.conf.toNat } :=
  ⟨_, OpenSessionReq_enc_eq v stale, opensession_parses _ h⟩

theorem generated_rakp1_request (v : RAKPMessage1) (hr : v.remoteConsoleRandom.length = 16) (stale : Bytes) (h : v.toModel.wf) :
    ∃ b, RAKPMessage1.serializeTo v stale [] = .ok b ∧
      Spec.Req.parseRakp1 b = some { tag := v.toModel.tag.toNat, bmcSessionID := v.toModel.bmcSessionID, random := v.toModel.random
                                     nameOnlyLookup := !v.toModel.privilegeLevelLookup
                                     privilege := v.toModel.maxPrivilegeLevel.toNat, username := v.toModel.username } := by
  obtain ⟨b, hb, hp⟩ := rakp1_parses _ h
  exact ⟨b, by rw [RAKPMessage1_enc_eq v hr, hb]; simp [Except.map], hp⟩

theorem generated_rakp3_request (v : RAKPMessage3) (stale : Bytes) (h : v.toModel.wf) :
    ∃ v' b, RAKPMessage3.serializeTo v stale [] = .ok (v', b) ∧
      Spec.Req.parseRakp3 b = some { tag := v.toModel.tag.toNat, status := v.toModel.status.toNat
                                     bmcSessionID := v.toModel.bmcSessionID
                                     authCode := if v.toModel.status = 0 then v.toModel.authCode else [] } :=
  ⟨_, _, RAKPMessage3_enc_eq v stale [], by rw [List.append_nil]; exact rakp3_parses _ h⟩

theorem generated_dcmicaps_request (v : GetDCMICapabilitiesInfoReq) (stale : Bytes) :
    ∃ b, GetDCMICapabilitiesInfoReq.serializeTo v stale [] = .ok b ∧ Spec.Req.parseDcmiCaps b = some v.parameter.toNat :=
  ⟨_, GetDCMICapabilitiesInfoReq_enc_eq v stale [], by rw [List.append_nil]; exact dcmicaps_parses _⟩

theorem generated_dcmisensorinfo_request (v : GetDCMISensorInfoReq) (stale : Bytes) :
    ∃ b, GetDCMISensorInfoReq.serializeTo v stale [] = .ok b ∧
      Spec.Req.parseDcmiSensorInfo b =
        some { sensorType := v.toModel.type.toNat, entity := v.toModel.entity.toNat
               sel := if v.toModel.instance_ = 0 then .all v.toModel.instanceStart.toNat else .one v.toModel.instance_.toNat } :=
  ⟨_, GetDCMISensorInfoReq_enc_eq v stale [], by rw [List.append_nil]; exact dcmisensorinfo_parses _⟩

/-- Get Power Reading, enhanced mode, every non-negative averaging period: the rolling-average byte the regenerated serialiser
    computes is the specification's (the duration-to-byte helper `rollingByteNs` is the hand model of `Wire/Requests.lean`,
    a PARAMETER of the regenerated serialiser, tied to the code by the C06 / C20 correspondence streams) -/
theorem generated_powerreading_enhanced_request (v : GetPowerReadingReq) (stale : Bytes) (hm : v.mode = 2) (h : 0 ≤ v.period) :
    ∃ b, GetPowerReadingReq.serializeTo rollingByteNs v stale [] = .ok b ∧
      Spec.Req.parsePowerReading b =
        some (.enhanced (Spec.rollingByte (v.period.toNat / 1000000000) / 64) (Spec.rollingByte (v.period.toNat / 1000000000) % 64)) := by
  refine ⟨_, GetPowerReadingReq_enc_eq v stale [], ?_⟩
  rw [List.append_nil]
  have := powerreading_enhanced_parses v.period h
  have e : v.toModel = { mode := 2, periodNs := v.period } := by simp [GetPowerReadingReq.toModel, hm]
  rw [e]; exact this

theorem generated_powerreading_normal_request (v : GetPowerReadingReq) (stale : Bytes) (hm : v.mode = 1) :
    ∃ b, GetPowerReadingReq.serializeTo rollingByteNs v stale [] = .ok b ∧ Spec.Req.parsePowerReading b = some .normal := by
  refine ⟨_, GetPowerReadingReq_enc_eq v stale [], ?_⟩
  rw [List.append_nil]
  have e : v.toModel = { mode := 1, periodNs := v.period } := by simp [GetPowerReadingReq.toModel, hm]
  rw [e]; exact powerreading_normal_parses v.period

end Bmc.Proofs.EndToEnd
