import Bmc.Proofs.EndToEnd.DecodeC07
import Bmc.Proofs.EndToEnd.DecodeSetupC07
import Bmc.Lemmas.MessageRefine
import Bmc.Proofs.GenDec.GetDeviceIDRsp
import Bmc.Proofs.GenDec.GetChassisStatusRsp
import Bmc.Proofs.GenDec.GetChannelAuthenticationCapabilitiesRsp
import Bmc.Proofs.GenDec.GetChannelCipherSuitesRsp
import Bmc.Proofs.GenDec.SetSessionPrivilegeLevelRsp
import Bmc.Proofs.GenDec.GetSystemGUIDRsp
import Bmc.Proofs.GenDec.GetSessionInfoRsp
import Bmc.Proofs.GenDec.GetSDRRepositoryInfoRsp
import Bmc.Proofs.GenDec.ReserveSDRRepositoryRsp
import Bmc.Proofs.GenDec.GetSDRRsp
import Bmc.Proofs.GenDec.SDR
import Bmc.Proofs.GenDec.GetSensorReadingRsp
import Bmc.Proofs.GenDec.FullSensorRecord
import Bmc.Proofs.GenDec.GetPowerReadingRsp
import Bmc.Proofs.GenDec.GetDCMICapabilitiesInfoSupportedCapabilitiesRsp
import Bmc.Proofs.GenDec.GetDCMICapabilitiesInfoMandatoryPlatformAttrsRsp
import Bmc.Proofs.GenDec.GetDCMICapabilitiesInfoOptionalPlatformAttrsRsp
import Bmc.Proofs.GenDec.GetDCMICapabilitiesInfoManageabilityAccessAttrsRsp
import Bmc.Proofs.GenDec.OpenSessionRsp
import Bmc.Proofs.GenDec.RAKPMessage1
import Bmc.Proofs.GenDec.RAKPMessage2
import Bmc.Proofs.GenDec.RAKPMessage4
import Bmc.Proofs.GenDec.SessionSelector
import Bmc.Proofs.GenDec.V1Session
import Bmc.Proofs.GenDec.Message
/-! # C17 for the decoders AS REGENERATED on this run: the result never depends on what the receiver held before

For EVERY input — valid, truncated, garbage, any capacity, any bytes beyond `len` — and ANY two previous contents of the receiver
struct, `DecodeFromBytes` as re-translated from the source gives the same outcome and (through `toModel`, which keeps every field) the
same decoded value: nothing of an earlier decode survives into a later one. (`DecodeC07` says WHICH value for valid encodings; this is
the reuse half of C17 for all inputs. The layers with a keyed state — session wrapper, AES — are covered by `ReuseC17`.) -/
namespace Bmc.Proofs.EndToEnd
open Bmc Bmc.Gen.Dec Bmc.Lemmas.GenDec Bmc.Proofs.GenDec

theorem generated_GetDeviceIDRsp_ignores_receiver (prev prev' : GetDeviceIDRsp) (d : GoSlice) :
    (GetDeviceIDRsp.decodeGo prev d).map GetDeviceIDRsp.toModel = (GetDeviceIDRsp.decodeGo prev' d).map GetDeviceIDRsp.toModel := by
  rw [GetDeviceIDRsp_gen_eq, GetDeviceIDRsp_gen_eq, Wire.GetDeviceIDRsp.decodeGo_refines, Wire.GetDeviceIDRsp.decodeGo_refines]

theorem generated_GetChassisStatusRsp_ignores_receiver (prev prev' : GetChassisStatusRsp) (d : GoSlice) :
    (GetChassisStatusRsp.decodeGo prev d).map GetChassisStatusRsp.toModel = (GetChassisStatusRsp.decodeGo prev' d).map GetChassisStatusRsp.toModel := by
  rw [GetChassisStatusRsp_gen_eq, GetChassisStatusRsp_gen_eq, (Wire.GetChassisStatusRsp.decodeGo_canon _ d).1, (Wire.GetChassisStatusRsp.decodeGo_canon _ d).1]

theorem generated_GetChannelAuthenticationCapabilitiesRsp_ignores_receiver (prev prev' : GetChannelAuthenticationCapabilitiesRsp) (d : GoSlice) :
    (GetChannelAuthenticationCapabilitiesRsp.decodeGo prev d).map GetChannelAuthenticationCapabilitiesRsp.toModel = (GetChannelAuthenticationCapabilitiesRsp.decodeGo prev' d).map GetChannelAuthenticationCapabilitiesRsp.toModel := by
  rw [GetChannelAuthenticationCapabilitiesRsp_gen_eq, GetChannelAuthenticationCapabilitiesRsp_gen_eq, (Wire.AuthCapsRsp.decodeGo_canon _ d).1, (Wire.AuthCapsRsp.decodeGo_canon _ d).1]

theorem generated_GetChannelCipherSuitesRsp_ignores_receiver (prev prev' : GetChannelCipherSuitesRsp) (d : GoSlice) :
    (GetChannelCipherSuitesRsp.decodeGo prev d).map GetChannelCipherSuitesRsp.toModel = (GetChannelCipherSuitesRsp.decodeGo prev' d).map GetChannelCipherSuitesRsp.toModel := by
  rw [GetChannelCipherSuitesRsp_gen_eq, GetChannelCipherSuitesRsp_gen_eq, (Wire.CipherSuitesRsp.decodeGo_canon _ d).1, (Wire.CipherSuitesRsp.decodeGo_canon _ d).1]

theorem generated_SetSessionPrivilegeLevelRsp_ignores_receiver (prev prev' : SetSessionPrivilegeLevelRsp) (d : GoSlice) :
    (SetSessionPrivilegeLevelRsp.decodeGo prev d).map SetSessionPrivilegeLevelRsp.toModel = (SetSessionPrivilegeLevelRsp.decodeGo prev' d).map SetSessionPrivilegeLevelRsp.toModel := by
  rw [SetSessionPrivilegeLevelRsp_gen_eq, SetSessionPrivilegeLevelRsp_gen_eq, (Wire.SetPrivRsp.decodeGo_canon _ d).1, (Wire.SetPrivRsp.decodeGo_canon _ d).1]

theorem generated_GetSystemGUIDRsp_ignores_receiver (prev prev' : GetSystemGUIDRsp) (d : GoSlice) :
    (GetSystemGUIDRsp.decodeGo prev d).map GetSystemGUIDRsp.toModel = (GetSystemGUIDRsp.decodeGo prev' d).map GetSystemGUIDRsp.toModel := by
  rw [GetSystemGUIDRsp_gen_eq, GetSystemGUIDRsp_gen_eq, (Wire.GUIDRsp.decodeGo_canon _ d).1, (Wire.GUIDRsp.decodeGo_canon _ d).1]

theorem generated_GetSessionInfoRsp_ignores_receiver (prev prev' : GetSessionInfoRsp) (d : GoSlice) :
    (GetSessionInfoRsp.decodeGo prev d).map GetSessionInfoRsp.toModel = (GetSessionInfoRsp.decodeGo prev' d).map GetSessionInfoRsp.toModel := by
  rw [GetSessionInfoRsp_gen_eq, GetSessionInfoRsp_gen_eq, (Wire.SessionInfoRsp.decodeGo_canon _ d).1, (Wire.SessionInfoRsp.decodeGo_canon _ d).1]

theorem generated_GetSDRRepositoryInfoRsp_ignores_receiver (prev prev' : GetSDRRepositoryInfoRsp) (d : GoSlice) :
    (GetSDRRepositoryInfoRsp.decodeGo prev d).map GetSDRRepositoryInfoRsp.toModel = (GetSDRRepositoryInfoRsp.decodeGo prev' d).map GetSDRRepositoryInfoRsp.toModel := by
  rw [GetSDRRepositoryInfoRsp_gen_eq, GetSDRRepositoryInfoRsp_gen_eq, (Wire.SDRRepoInfoRsp.decodeGo_canon _ d).1, (Wire.SDRRepoInfoRsp.decodeGo_canon _ d).1]

theorem generated_ReserveSDRRepositoryRsp_ignores_receiver (prev prev' : ReserveSDRRepositoryRsp) (d : GoSlice) :
    (ReserveSDRRepositoryRsp.decodeGo prev d).map ReserveSDRRepositoryRsp.toModel = (ReserveSDRRepositoryRsp.decodeGo prev' d).map ReserveSDRRepositoryRsp.toModel := by
  rw [ReserveSDRRepositoryRsp_gen_eq, ReserveSDRRepositoryRsp_gen_eq, (Wire.ReserveRsp.decodeGo_canon _ d).1, (Wire.ReserveRsp.decodeGo_canon _ d).1]

theorem generated_GetSDRRsp_ignores_receiver (prev prev' : GetSDRRsp) (d : GoSlice) :
    (GetSDRRsp.decodeGo prev d).map GetSDRRsp.toModel = (GetSDRRsp.decodeGo prev' d).map GetSDRRsp.toModel := by
  rw [GetSDRRsp_gen_eq, GetSDRRsp_gen_eq, (Wire.GetSDRRsp.decodeGo_canon _ d).1, (Wire.GetSDRRsp.decodeGo_canon _ d).1]

theorem generated_SDR_ignores_receiver (prev prev' : SDR) (d : GoSlice) :
    (SDR.decodeGo prev d).map SDR.toModel = (SDR.decodeGo prev' d).map SDR.toModel := by
  rw [SDR_gen_eq, SDR_gen_eq, (Wire.SDRHeader.decodeGo_canon _ d).1, (Wire.SDRHeader.decodeGo_canon _ d).1]

theorem generated_GetSensorReadingRsp_ignores_receiver (prev prev' : GetSensorReadingRsp) (d : GoSlice) :
    (GetSensorReadingRsp.decodeGo prev d).map GetSensorReadingRsp.toModel = (GetSensorReadingRsp.decodeGo prev' d).map GetSensorReadingRsp.toModel := by
  rw [GetSensorReadingRsp_gen_eq, GetSensorReadingRsp_gen_eq, (Wire.SensorReadingRsp.decodeGo_canon _ d).1, (Wire.SensorReadingRsp.decodeGo_canon _ d).1]

theorem generated_FullSensorRecord_ignores_receiver (prev prev' : FullSensorRecord) (d : GoSlice) :
    (FullSensorRecord.decodeGo prev d).map FullSensorRecord.toModel = (FullSensorRecord.decodeGo prev' d).map FullSensorRecord.toModel := by
  rw [FullSensorRecord_gen_eq, FullSensorRecord_gen_eq, Wire.FullSensorRecord.decodeGo_refines, Wire.FullSensorRecord.decodeGo_refines]

theorem generated_GetPowerReadingRsp_ignores_receiver (prev prev' : GetPowerReadingRsp) (d : GoSlice) :
    (GetPowerReadingRsp.decodeGo prev d).map GetPowerReadingRsp.toModel = (GetPowerReadingRsp.decodeGo prev' d).map GetPowerReadingRsp.toModel := by
  rw [GetPowerReadingRsp_gen_eq, GetPowerReadingRsp_gen_eq, Wire.PowerReading.decodeGo_refines, Wire.PowerReading.decodeGo_refines]

theorem generated_GetDCMICapabilitiesInfoSupportedCapabilitiesRsp_ignores_receiver (prev prev' : GetDCMICapabilitiesInfoSupportedCapabilitiesRsp) (d : GoSlice) :
    (GetDCMICapabilitiesInfoSupportedCapabilitiesRsp.decodeGo prev d).map GetDCMICapabilitiesInfoSupportedCapabilitiesRsp.toModel = (GetDCMICapabilitiesInfoSupportedCapabilitiesRsp.decodeGo prev' d).map GetDCMICapabilitiesInfoSupportedCapabilitiesRsp.toModel := by
  rw [GetDCMICapabilitiesInfoSupportedCapabilitiesRsp_gen_eq, GetDCMICapabilitiesInfoSupportedCapabilitiesRsp_gen_eq, Wire.DcmiCap1.decodeGo_refines, Wire.DcmiCap1.decodeGo_refines]

theorem generated_GetDCMICapabilitiesInfoMandatoryPlatformAttrsRsp_ignores_receiver (prev prev' : GetDCMICapabilitiesInfoMandatoryPlatformAttrsRsp) (d : GoSlice) :
    (GetDCMICapabilitiesInfoMandatoryPlatformAttrsRsp.decodeGo prev d).map GetDCMICapabilitiesInfoMandatoryPlatformAttrsRsp.toModel = (GetDCMICapabilitiesInfoMandatoryPlatformAttrsRsp.decodeGo prev' d).map GetDCMICapabilitiesInfoMandatoryPlatformAttrsRsp.toModel := by
  rw [GetDCMICapabilitiesInfoMandatoryPlatformAttrsRsp_gen_eq, GetDCMICapabilitiesInfoMandatoryPlatformAttrsRsp_gen_eq, Wire.DcmiCap2.decodeGo_refines, Wire.DcmiCap2.decodeGo_refines]

theorem generated_GetDCMICapabilitiesInfoOptionalPlatformAttrsRsp_ignores_receiver (prev prev' : GetDCMICapabilitiesInfoOptionalPlatformAttrsRsp) (d : GoSlice) :
    (GetDCMICapabilitiesInfoOptionalPlatformAttrsRsp.decodeGo prev d).map GetDCMICapabilitiesInfoOptionalPlatformAttrsRsp.toModel = (GetDCMICapabilitiesInfoOptionalPlatformAttrsRsp.decodeGo prev' d).map GetDCMICapabilitiesInfoOptionalPlatformAttrsRsp.toModel := by
  rw [GetDCMICapabilitiesInfoOptionalPlatformAttrsRsp_gen_eq, GetDCMICapabilitiesInfoOptionalPlatformAttrsRsp_gen_eq, Wire.DcmiCap3.decodeGo_refines, Wire.DcmiCap3.decodeGo_refines]

theorem generated_GetDCMICapabilitiesInfoManageabilityAccessAttrsRsp_ignores_receiver (prev prev' : GetDCMICapabilitiesInfoManageabilityAccessAttrsRsp) (d : GoSlice) :
    (GetDCMICapabilitiesInfoManageabilityAccessAttrsRsp.decodeGo prev d).map GetDCMICapabilitiesInfoManageabilityAccessAttrsRsp.toModel = (GetDCMICapabilitiesInfoManageabilityAccessAttrsRsp.decodeGo prev' d).map GetDCMICapabilitiesInfoManageabilityAccessAttrsRsp.toModel := by
  rw [GetDCMICapabilitiesInfoManageabilityAccessAttrsRsp_gen_eq, GetDCMICapabilitiesInfoManageabilityAccessAttrsRsp_gen_eq, Wire.DcmiCap4.decodeGo_refines, Wire.DcmiCap4.decodeGo_refines]

theorem generated_OpenSessionRsp_ignores_receiver (prev prev' : OpenSessionRsp) (d : GoSlice) :
    (OpenSessionRsp.decodeGo prev d).map OpenSessionRsp.toModel = (OpenSessionRsp.decodeGo prev' d).map OpenSessionRsp.toModel := by
  rw [OpenSessionRsp_gen_eq, OpenSessionRsp_gen_eq, Wire.Setup.OpenSessionRsp.decodeGo_refines, Wire.Setup.OpenSessionRsp.decodeGo_refines]

theorem generated_RAKPMessage1_ignores_receiver (prev prev' : RAKPMessage1) (d : GoSlice) :
    (RAKPMessage1.decodeGo prev d).map RAKPMessage1.toModel = (RAKPMessage1.decodeGo prev' d).map RAKPMessage1.toModel := by
  rw [RAKPMessage1_gen_eq, RAKPMessage1_gen_eq, Wire.Setup.RAKP1.decodeGo_refines, Wire.Setup.RAKP1.decodeGo_refines]

theorem generated_RAKPMessage2_ignores_receiver (prev prev' : RAKPMessage2) (d : GoSlice) :
    (RAKPMessage2.decodeGo prev d).map RAKPMessage2.toModel = (RAKPMessage2.decodeGo prev' d).map RAKPMessage2.toModel := by
  rw [RAKPMessage2_gen_eq, RAKPMessage2_gen_eq, Wire.RAKP2.decodeGo_refines, Wire.RAKP2.decodeGo_refines]

theorem generated_RAKPMessage4_ignores_receiver (prev prev' : RAKPMessage4) (d : GoSlice) :
    (RAKPMessage4.decodeGo prev d).map RAKPMessage4.toModel = (RAKPMessage4.decodeGo prev' d).map RAKPMessage4.toModel := by
  rw [RAKPMessage4_gen_eq, RAKPMessage4_gen_eq, Wire.Setup.RAKP4.decodeGo_refines, Wire.Setup.RAKP4.decodeGo_refines]

theorem generated_SessionSelector_ignores_receiver (prev prev' : SessionSelector) (d : GoSlice) :
    (SessionSelector.decodeGo prev d).map SessionSelector.toModel = (SessionSelector.decodeGo prev' d).map SessionSelector.toModel := by
  rw [SessionSelector_gen_eq, SessionSelector_gen_eq, Wire.Setup.Selector.decodeGo_refines, Wire.Setup.Selector.decodeGo_refines]

theorem generated_V1Session_ignores_receiver (prev prev' : V1Session) (d : GoSlice) :
    (V1Session.decodeGo prev d).map V1Session.toModel = (V1Session.decodeGo prev' d).map V1Session.toModel := by
  rw [V1Session_gen_eq, V1Session_gen_eq, Wire.V1Session.decodeGo_refines, Wire.V1Session.decodeGo_refines]

theorem generated_Message_ignores_receiver (prev prev' : Message) (d : GoSlice) :
    (Message.decodeGo prev d).map Message.toModel = (Message.decodeGo prev' d).map Message.toModel := by
  rw [Message_gen_eq, Message_gen_eq, Wire.Message.decodeGo_refines, Wire.Message.decodeGo_refines]

end Bmc.Proofs.EndToEnd
