import Bmc.Proofs.GenLoops.BuildAndSendCommand
import Bmc.Proofs.C10
/-! # C10, stated about the session-less `SendCommand` AS REGENERATED on this run -/
namespace Bmc.Proofs.EndToEnd
open Bmc Bmc.Wire Bmc.Crypto Bmc.Proto Bmc.GoOrch Bmc.GoLoops Bmc.Gen.Loops Bmc.Lemmas.GenLoops Bmc.Proofs.GenLoops

/-- Outside a session, for every command that serialises and every script of outcomes: what `SendCommand` AS TRANSLATED ON THIS
    RUN hands to the transport is THE SAME datagram (the request's one serialisation) as many times as the documented contract
    `slExpected` says — one more after every lost reply, undecodable reply, reply to another operation or temporary completion
    code, none after a final answer — and the result is the contract's. -/
theorem generated_sessionless_SendCommand_retries (c : Cmd) (hc : c.ent < 4294967296) (hf : c.reqFails = false)
    (script : List Outcome) (fuel : Nat) (hfu : script.length + 1 ≤ fuel) (bd : Bytes → Bool) (name : String) (rsp : Opaque)
    (ivs sent0 : List Bytes) (K : Conn Decoded) :
    let r := V2Sessionless_SendCommand (slWorld c bd) fuel (cmdOf c name rsp) ({ ivs := ivs, script := script, sent := sent0 }, K)
    r.2.1.sent = sent0 ++ List.replicate (slExpected (slClassify c) script).1 (slSerialize c).2 ∧
    r.1 = (match (slExpected (slClassify c) script).2 with
           | .ok cc p => .ok (cc, if rsp != 0 ∧ bd p = false then some .response else none)
           | .transportErr => .ok (0, some .transport)
           | .serializeErr => .ok (0, some .serialize)
           | .ctxExpired => .ok (0, some .ctx)
           | .crashed => .panic) := by
  intro r
  obtain ⟨h1, _, h3⟩ := V2Sessionless_SendCommand_gen_eq c hc script fuel hfu bd name rsp ivs sent0 K
  obtain ⟨e2, e1⟩ := Proofs.C10.sessionless_send_refines c hf script
  rw [e1] at h1
  rw [e2] at h3
  exact ⟨h1, h3⟩

/-- … in particular: noise (lost replies, garbage, strays, temporary codes) and then a conforming final response — the request
    was transmitted once per item of noise plus once, and the call returns that response's completion code -/
theorem generated_sessionless_SendCommand_until_final (c : Cmd) (hc : c.ent < 4294967296) (hf : c.reqFails = false)
    (noise : List Outcome) (hn : ∀ o ∈ noise, SlNoise c o) (sid seq : Nat) (cc : UInt8) (data : Bytes) (rest : List Outcome)
    (hm : (responseMsg c cc).WF) (hsid : sid < 4294967296) (hseq : seq < 4294967296)
    (hlen : (responseBytes c cc data).length < 65536) (hnt : isTemp cc = false)
    (fuel : Nat) (hfu : (noise ++ .reply (slResponseDatagramWith sid seq c cc data) :: rest).length + 1 ≤ fuel)
    (bd : Bytes → Bool) (name : String) (rsp : Opaque) (ivs sent0 : List Bytes) (K : Conn Decoded) :
    let r := V2Sessionless_SendCommand (slWorld c bd) fuel (cmdOf c name rsp)
              ({ ivs := ivs, script := noise ++ .reply (slResponseDatagramWith sid seq c cc data) :: rest, sent := sent0 }, K)
    r.2.1.sent = sent0 ++ List.replicate (noise.length + 1) (slSerialize c).2 ∧
    r.1 = .ok (cc, if rsp != 0 ∧ bd data = false then some .response else none) := by
  intro r
  obtain ⟨h1, _, h3⟩ := V2Sessionless_SendCommand_gen_eq c hc _ fuel hfu bd name rsp ivs sent0 K
  have e := Proofs.C10.sessionless_retries_until_final c hf noise hn sid seq cc data rest hm hsid hseq hlen hnt
  rw [e] at h1 h3
  exact ⟨h1, h3⟩

end Bmc.Proofs.EndToEnd
