import Bmc.Proofs.GenLoops.BuildAndSend
import Bmc.Proofs.GenLoops.BuildAndSendCommand
import Bmc.Proofs.C18
/-! # C18 (one command), stated about `SendCommand` AS REGENERATED on this run

`Proofs/C18.command_laws` is about the instrumentation model `Metrics.command`; `Proofs/GenLoops/*_SendCommand_events_eq` prove that
the Prometheus calls made by `(*V2Session).SendCommand` / `(*V2Sessionless).SendCommand` as re-translated from the source on every
run (the event log of the regenerated definitions, applied to any starting metric values) ARE `Metrics.command`. Composed: the
accounting laws about the translated code. -/
namespace Bmc.Proofs.EndToEnd
open Bmc Bmc.Wire Bmc.Crypto Bmc.Proto Bmc.Proto.Metrics Bmc.GoOrch Bmc.GoLoops Bmc.Gen.Loops Bmc.Lemmas.GenLoops Bmc.Proofs.GenLoops

/-- One in-session `SendCommand` AS TRANSLATED ON THIS RUN, for every command, keys, script of outcomes (none crashing a decoder),
    with or without an expired context at the end, and ANY metric values before: `bmc_command_attempts_total{command}` goes up by
    exactly one for this command's name and for no other; `bmc_command_failures_total{command}` by one exactly when the call does
    not end with an accepted final response whose body decodes; `bmc_command_retries_total` by the number of closure runs beyond the
    first; `bmc_command_responses_total{code}` by the number of accepted responses carrying that completion code; the connection and
    session counters and gauges are untouched. -/
theorem generated_session_SendCommand_accounting (C : Ops) (c : Cmd) (hc : c.ent < 4294967296) (k : Keys) (hL : k.localID < 4294967296)
    (hf : c.reqFails = false) (ivs : List Bytes) (script : List Outcome) (hn : noCrash C k c script)
    (inSend : Bool) (hne : inSend = false → script ≠ []) (fuel : Nat) (hfu : script.length + 1 ≤ fuel)
    (bd : Bytes → Bool) (name : String) (rsp : Opaque) (sent0 : List Bytes) (K : Conn Decoded) (m0 : Metrics.M) :
    let r := V2Session_SendCommand (sessWorld C k c bd) fuel (sessConsts k) (cmdOf c name rsp)
              ({ ivs := ivs, script := script, sent := sent0, inSend := inSend }, K)
    let before := evsApply m0 K.events
    let after := evsApply m0 r.2.2.events
    let atts := script.map (attOf C k c) ++ ending inSend
    let decoded := (rsp == 0 || bd r.2.2.layers.message.payload)
    (∀ n, cnt n after.cmdAttempts = cnt n before.cmdAttempts + (if name = n then 1 else 0)) ∧
    (∀ n, cnt n after.cmdFailures
        = cnt n before.cmdFailures + (if name = n ∧ ¬(succeeds true atts = true ∧ decoded = true) then 1 else 0)) ∧
    after.retries = before.retries + (closureRuns true atts - 1) ∧
    (∀ code, cnt code after.responses = cnt code before.responses + responsesOf true code atts) ∧
    after.connAttempts = before.connAttempts ∧ after.connFailures = before.connFailures ∧
    after.connOpen = before.connOpen ∧ after.sessAttempts = before.sessAttempts ∧
    after.sessFailures = before.sessFailures ∧ after.sessOpen = before.sessOpen := by
  intro r before after atts decoded
  have e : after = _ := V2Session_SendCommand_events_eq C c hc k hL hf ivs script hn inSend hne fuel hfu bd name rsp sent0 K m0
  rw [e]
  exact Proofs.C18.command_laws before name true decoded atts

/-- … and the same for one session-less `SendCommand` AS TRANSLATED ON THIS RUN -/
theorem generated_sessionless_SendCommand_accounting (c : Cmd) (hc : c.ent < 4294967296) (hf : c.reqFails = false)
    (script : List Outcome) (hn : slNoCrash c script) (inSend : Bool) (hne : inSend = false → script ≠ [])
    (fuel : Nat) (hfu : script.length + 1 ≤ fuel) (bd : Bytes → Bool) (name : String) (rsp : Opaque)
    (ivs sent0 : List Bytes) (K : Conn Decoded) (m0 : Metrics.M) :
    let r := V2Sessionless_SendCommand (slWorld c bd) fuel (cmdOf c name rsp)
              ({ ivs := ivs, script := script, sent := sent0, inSend := inSend }, K)
    let before := evsApply m0 K.events
    let after := evsApply m0 r.2.2.events
    let atts := script.map (slAttOf c) ++ ending inSend
    let decoded := (rsp == 0 || bd r.2.2.layers.message.payload)
    (∀ n, cnt n after.cmdAttempts = cnt n before.cmdAttempts + (if name = n then 1 else 0)) ∧
    (∀ n, cnt n after.cmdFailures
        = cnt n before.cmdFailures + (if name = n ∧ ¬(succeeds false atts = true ∧ decoded = true) then 1 else 0)) ∧
    after.retries = before.retries + (closureRuns false atts - 1) ∧
    (∀ code, cnt code after.responses = cnt code before.responses + responsesOf false code atts) ∧
    after.connAttempts = before.connAttempts ∧ after.connFailures = before.connFailures ∧
    after.connOpen = before.connOpen ∧ after.sessAttempts = before.sessAttempts ∧
    after.sessFailures = before.sessFailures ∧ after.sessOpen = before.sessOpen := by
  intro r before after atts decoded
  have e : after = _ := V2Sessionless_SendCommand_events_eq c hc hf script hn inSend hne fuel hfu bd name rsp ivs sent0 K m0
  rw [e]
  exact Proofs.C18.command_laws before name false decoded atts

/-! ## histories -/

/-- (command, name, response layer, IV draws, what happens to each transmission, whether the caller's context ends inside a Send) -/
abbrev MetricsItem := Cmd × String × Opaque × List Bytes × List Outcome × Bool

/-- one call of the translated `SendCommand` on connection value `K` -/
def runItem (C : Ops) (k : Keys) (bd : Bytes → Bool) (K : Conn Decoded) (e : MetricsItem) :=
  V2Session_SendCommand (sessWorld C k e.1 bd) (e.2.2.2.2.1.length + 1) (sessConsts k) (cmdOf e.1 e.2.1 e.2.2.1)
    ({ ivs := e.2.2.2.1, script := e.2.2.2.2.1, sent := [], inSend := e.2.2.2.2.2 }, K)

/-- the connection value after a history of calls, each made by the translated `SendCommand` on what the previous one left -/
def generatedRun (C : Ops) (k : Keys) (bd : Bytes → Bool) : Conn Decoded → List MetricsItem → Conn Decoded
  | K, [] => K
  | K, e :: rest => generatedRun C k bd (runItem C k bd K e).2.2 rest

/-- what happened, as the history events C18 counts: one `cmd` event per call, with the call's name, whether its response body
    decoded, and what each attempt met -/
def historyEvents (C : Ops) (k : Keys) (bd : Bytes → Bool) : Conn Decoded → List MetricsItem → List Metrics.Ev
  | _, [] => []
  | K, e :: rest =>
    .cmd e.2.1 true (e.2.2.1 == 0 || bd (runItem C k bd K e).2.2.layers.message.payload)
        (e.2.2.2.2.1.map (attOf C k e.1) ++ ending e.2.2.2.2.2)
      :: historyEvents C k bd (runItem C k bd K e).2.2 rest

def MetricsItem.ok (C : Ops) (k : Keys) (e : MetricsItem) : Prop :=
  e.1.ent < 4294967296 ∧ e.1.reqFails = false ∧ noCrash C k e.1 e.2.2.2.2.1 ∧ (e.2.2.2.2.2 = false → e.2.2.2.2.1 ≠ [])

/-- the Prometheus calls of a whole history of translated `SendCommand`s, applied to ANY starting metric values, are the
    instrumentation model run over the history's events -/
theorem generatedRun_metrics (C : Ops) (k : Keys) (hL : k.localID < 4294967296) (bd : Bytes → Bool) (m0 : Metrics.M)
    (h : List MetricsItem) (hok : ∀ e ∈ h, e.ok C k) :
    ∀ K : Conn Decoded, evsApply m0 (generatedRun C k bd K h).events
      = Proofs.C18.runFrom (evsApply m0 K.events) (historyEvents C k bd K h) := by
  induction h with
  | nil => intro K; rfl
  | cons e rest ih =>
    intro K
    obtain ⟨c, name, rsp, ivs, script, inSend⟩ := e
    obtain ⟨hc, hf, hn, hne⟩ := hok (c, name, rsp, ivs, script, inSend) (by simp)
    have ev : evsApply m0 (runItem C k bd K (c, name, rsp, ivs, script, inSend)).2.2.events
        = Metrics.command (evsApply m0 K.events) name true
            (rsp == 0 || bd (runItem C k bd K (c, name, rsp, ivs, script, inSend)).2.2.layers.message.payload)
            (script.map (attOf C k c) ++ ending inSend) :=
      V2Session_SendCommand_events_eq C c hc k hL hf ivs script hn inSend hne (script.length + 1) (Nat.le_refl _) bd name rsp [] K m0
    have hrun : generatedRun C k bd K ((c, name, rsp, ivs, script, inSend) :: rest)
        = generatedRun C k bd (runItem C k bd K (c, name, rsp, ivs, script, inSend)).2.2 rest := rfl
    have hevs : historyEvents C k bd K ((c, name, rsp, ivs, script, inSend) :: rest)
        = .cmd name true (rsp == 0 || bd (runItem C k bd K (c, name, rsp, ivs, script, inSend)).2.2.layers.message.payload)
            (script.map (attOf C k c) ++ ending inSend)
          :: historyEvents C k bd (runItem C k bd K (c, name, rsp, ivs, script, inSend)).2.2 rest := rfl
    rw [hrun, hevs, ih (fun e he => hok e (by simp [he]))]
    generalize runItem C k bd K (c, name, rsp, ivs, script, inSend) = r at ev ⊢
    unfold Proofs.C18.runFrom
    rw [List.foldl_cons, ev]
    rfl

/-- **CONSERVATION about the translated code**: over any history of in-session commands (any scripts of outcomes, contexts ending
    in a Send or in the back-off), from any starting metric values — command attempts = calls made, per name; command failures =
    calls that returned an error or whose body did not decode; retries = datagrams handed to the transport beyond the first of each
    call; responses per completion code = accepted responses; the session / connection counters and gauges do not move. -/
theorem generated_history_conservation (C : Ops) (k : Keys) (hL : k.localID < 4294967296) (bd : Bytes → Bool) (m0 : Metrics.M)
    (h : List MetricsItem) (hok : ∀ e ∈ h, e.ok C k) (K : Conn Decoded) :
    let before := evsApply m0 K.events
    let after := evsApply m0 (generatedRun C k bd K h).events
    let evs := historyEvents C k bd K h
    (∀ n, cnt n after.cmdAttempts = cnt n before.cmdAttempts + Proofs.C18.calls n evs) ∧
    (∀ n, cnt n after.cmdFailures = cnt n before.cmdFailures + Proofs.C18.failedCalls n evs) ∧
    after.retries = before.retries + Proofs.C18.extraTransmissions evs ∧
    (∀ c, cnt c after.responses = cnt c before.responses + Proofs.C18.responsesIn c evs) := by
  intro before after evs
  have e : after = _ := generatedRun_metrics C k hL bd m0 h hok K
  obtain ⟨a1, a2, a3, a4, _⟩ := Proofs.C18.conservation before evs
  rw [e]
  exact ⟨a1, a2, a3, a4⟩

end Bmc.Proofs.EndToEnd
