import Bmc.Proofs.GenLoops.BuildAndSend
import Bmc.Proofs.GenLoops.BuildAndSendCommand
import Bmc.Proofs.C18
/-! # C18 (one command), stated about `SendCommand` AS REGENERATED on this run

`Proofs/C18.command_laws` is about the instrumentation model `Metrics.command`; `Proofs/GenLoops/*_SendCommand_events_eq` prove that
the Prometheus calls made by `(*V2Session).SendCommand` / `(*V2Sessionless).SendCommand` as re-translated from the source on every
run (the event log of the regenerated definitions, applied to any starting metric values) ARE `Metrics.command`. Composed: the
accounting laws about the translated code. -/
namespace Bmc.Proofs.EndToEnd
open Bmc Bmc.Wire Bmc.Crypto Bmc.Proto Bmc.Proto.Metrics Bmc.GoOrch Bmc.GoLoops Bmc.Gen.Loops Bmc.Lemmas.GenLoops Bmc.Proofs.GenLoops

/-- One in-session `SendCommand` AS TRANSLATED ON THIS RUN, for every command, keys, script of outcomes (none crashing a decoder),
    with or without an expired context at the end, and ANY metric values before: `bmc_command_attempts_total{command}` goes up by
    exactly one for this command's name and for no other; `bmc_command_failures_total{command}` by one exactly when the call does
    not end with an accepted final response whose body decodes; `bmc_command_retries_total` by the number of closure runs beyond the
    first; `bmc_command_responses_total{code}` by the number of accepted responses carrying that completion code; the connection and
    session counters and gauges are untouched. -/
theorem generated_session_SendCommand_accounting (C : Ops) (c : Cmd) (hc : c.ent < 4294967296) (k : Keys) (hL : k.localID < 4294967296)
    (hf : c.reqFails = false) (ivs : List Bytes) (script : List Outcome) (hn : noCrash C k c script)
    (inSend : Bool) (hne : inSend = false → script ≠ []) (fuel : Nat) (hfu : script.length + 1 ≤ fuel)
    (bd : Bytes → Bool) (name : String) (rsp : Opaque) (sent0 : List Bytes) (K : Conn Decoded) (m0 : Metrics.M) :
    let r := V2Session_SendCommand (sessWorld C k c bd) fuel (sessConsts k) (cmdOf c name rsp)
              ({ ivs := ivs, script := script, sent := sent0, inSend := inSend }, K)
    let before := evsApply m0 K.events
    let after := evsApply m0 r.2.2.events
    let atts := script.map (attOf C k c) ++ ending inSend
    let decoded := (rsp == 0 || bd r.2.2.layers.message.payload)
    (∀ n, cnt n after.cmdAttempts = cnt n before.cmdAttempts + (if name = n then 1 else 0)) ∧
    (∀ n, cnt n after.cmdFailures
        = cnt n before.cmdFailures + (if name = n ∧ ¬(succeeds true atts = true ∧ decoded = true) then 1 else 0)) ∧
    after.retries = before.retries + (closureRuns true atts - 1) ∧
    (∀ code, cnt code after.responses = cnt code before.responses + responsesOf true code atts) ∧
    after.connAttempts = before.connAttempts ∧ after.connFailures = before.connFailures ∧
    after.connOpen = before.connOpen ∧ after.sessAttempts = before.sessAttempts ∧
    after.sessFailures = before.sessFailures ∧ after.sessOpen = before.sessOpen := by
  intro r before after atts decoded
  have e : after = _ := V2Session_SendCommand_events_eq C c hc k hL hf ivs script hn inSend hne fuel hfu bd name rsp sent0 K m0
  rw [e]
  exact Proofs.C18.command_laws before name true decoded atts

/-- … and the same for one session-less `SendCommand` AS TRANSLATED ON THIS RUN -/
theorem generated_sessionless_SendCommand_accounting (c : Cmd) (hc : c.ent < 4294967296) (hf : c.reqFails = false)
    (script : List Outcome) (hn : slNoCrash c script) (inSend : Bool) (hne : inSend = false → script ≠ [])
    (fuel : Nat) (hfu : script.length + 1 ≤ fuel) (bd : Bytes → Bool) (name : String) (rsp : Opaque)
    (ivs sent0 : List Bytes) (K : Conn Decoded) (m0 : Metrics.M) :
    let r := V2Sessionless_SendCommand (slWorld c bd) fuel (cmdOf c name rsp)
              ({ ivs := ivs, script := script, sent := sent0, inSend := inSend }, K)
    let before := evsApply m0 K.events
    let after := evsApply m0 r.2.2.events
    let atts := script.map (slAttOf c) ++ ending inSend
    let decoded := (rsp == 0 || bd r.2.2.layers.message.payload)
    (∀ n, cnt n after.cmdAttempts = cnt n before.cmdAttempts + (if name = n then 1 else 0)) ∧
    (∀ n, cnt n after.cmdFailures
        = cnt n before.cmdFailures + (if name = n ∧ ¬(succeeds false atts = true ∧ decoded = true) then 1 else 0)) ∧
    after.retries = before.retries + (closureRuns false atts - 1) ∧
    (∀ code, cnt code after.responses = cnt code before.responses + responsesOf false code atts) ∧
    after.connAttempts = before.connAttempts ∧ after.connFailures = before.connFailures ∧
    after.connOpen = before.connOpen ∧ after.sessAttempts = before.sessAttempts ∧
    after.sessFailures = before.sessFailures ∧ after.sessOpen = before.sessOpen := by
  intro r before after atts decoded
  have e : after = _ := V2Sessionless_SendCommand_events_eq c hc hf script hn inSend hne fuel hfu bd name rsp ivs sent0 K m0
  rw [e]
  exact Proofs.C18.command_laws before name false decoded atts

end Bmc.Proofs.EndToEnd
