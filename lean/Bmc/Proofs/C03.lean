import Bmc.Lemmas.SessionProps
import Bmc.Lemmas.MessageRoundTrip
import Bmc.Lemmas.AesRoundTrip
import Bmc.Lemmas.V2RoundTripAuth
/-! # C03 — every packet sent in a session is authenticated, encrypted and well-formed (property theorems only)

By `sendLoop_spec` (used in C10) every datagram a session transmits is `datagramOf C keys cmd counter iv`; the
theorems below are about that datagram, for every lawful crypto instance, key, command, request body and IV. -/
namespace Bmc.Proofs.C03
open Bmc Bmc.Wire Bmc.Crypto Bmc.Proto

/-- the message the library builds for a command -/
def requestMessage (c : Cmd) : Message :=
  { function := c.fn, body := c.body, enterprise := c.ent, command := c.cmd
    remoteAddress := 0x20, remoteLUN := c.lun, localAddress := 0x81, sequence := 1 }

/-- the serialised request message and its AES encapsulation -/
def messageBytes (c : Cmd) : Bytes := (Message.encode (requestMessage c) c.req).2
def aesPayload (C : Ops) (k : Keys) (c : Cmd) (iv : Bytes) : Bytes := AESLayer.encode C k.k2 iv (messageBytes c)

/-- SHAPE of every in-session datagram: RMCP header 06 00 FF 07; auth type 06; flags C0 = encrypted + authenticated
    + payload type IPMI; session ID; sequence number; payload length; the AES payload; 0xFF integrity pad to a
    multiple of 4 with its length byte; next header 07; and finally the AuthCode, which is the negotiated keyed hash
    under K1 of exactly the bytes from the auth-type field through the next-header field -/
theorem datagram_shape (C : Ops) (k : Keys) (c : Cmd) (inb : Nat) (iv : Bytes) :
    let ab := aesPayload C k c iv
    let len := ab.length % 65536
    let pad := (4 - (12 + len + 2) % 4) % 4
    let signed : Bytes := [6, 0xC0] ++ putLE32 k.remoteID ++ putLE32 ((inb + 1) % 4294967296) ++ putLE16 len ++ ab
      ++ List.replicate pad 0xff ++ [UInt8.ofNat pad, 7]
    datagramOf C k c inb iv = [6, 0, 0xFF, 7] ++ signed ++ integMac C k.integ k.k1 signed := by
  have e : (128 ||| 64 : UInt8) = 192 := by decide
  simp [datagramOf, attempt, initLayers, V2Session.encode, RMCP.encode, aesPayload, messageBytes, requestMessage, e]

/-- the integrity pad makes [auth type … next header] a multiple of 4 bytes and is at most 3 bytes -/
theorem integrity_pad (n : Nat) : (12 + n + (4 - (12 + n + 2) % 4) % 4 + 2) % 4 = 0 ∧ (4 - (12 + n + 2) % 4) % 4 ≤ 3 := by
  omega

/-- the AES payload is the IV followed by CBC ciphertext under the first 16 bytes of K2; decrypting it (any lawful
    block cipher) yields the 01,02,… pad correctly and returns exactly the serialised message -/
theorem payload_decrypts (C : Ops) (hC : C.Lawful) (k : Keys) (c : Cmd) (iv : Bytes) (hiv : iv.length = 16) :
    AESLayer.decode C k.k2 (aesPayload C k c iv) = .ok { contents := iv, payload := messageBytes c } :=
  AESLayer.decode_encode C hC k.k2 iv (messageBytes c) hiv

/-- … and that message is a checksum-valid IPMI message for exactly the command the caller asked for: BMC address
    0x20, the command's NetFn / LUN / number / group-extension or OEM prefix, console software ID 0x81, and the
    caller's request body -/
theorem message_is_the_command (c : Cmd) (h : (requestMessage c).WF) :
    ∃ m, Message.decode 8 (messageBytes c) = .ok m ∧ m.function = c.fn ∧ m.command = c.cmd ∧ m.body = c.body ∧
      m.enterprise = c.ent ∧ m.remoteAddress = 0x20 ∧ m.remoteLUN = c.lun ∧ m.localAddress = 0x81 ∧ m.payload = c.req := by
  have := Message.decode_encode (requestMessage c) c.req h
  exact ⟨_, this, rfl, rfl, rfl, rfl, rfl, rfl, rfl, rfl⟩

/-- the IV of each datagram is its own draw from the entropy stream (bytes 16 … 31 of the datagram) -/
theorem iv_is_own_draw (C : Ops) (k : Keys) (c : Cmd) (inb : Nat) (iv : Bytes) (hiv : iv.length = 16) :
    ((datagramOf C k c inb iv).drop 16).take 16 = iv := by
  rw [datagram_shape]
  simp [putLE32, putLE16, aesPayload, AESLayer.encode, hiv, List.take_append_of_le_length]

/-- PARTIAL (stated, not proved here): "no IV is ever used twice" is proved as "the i-th datagram of a command uses
    the i-th draw" (`iv_is_own_draw` + `sendLoop_spec`); that distinct draws differ is a property of crypto/rand. -/
theorem ith_datagram_uses_ith_draw (C : Ops) (c : Cmd) (hf : c.reqFails = false) (s : Sess) (hs : s.inbound < 4294967296)
    (ivs : List Bytes) (script : List Outcome) (hl : script.length ≤ ivs.length) (i : Nat)
    (hi : i < (sendLoop C c s ivs script).2.1.length) (hiv : (ivs.getD i []).length = 16) :
    (((sendLoop C c s ivs script).2.1.getD i []).drop 16).take 16 = ivs.getD i [] := by
  have h2 := (sendLoop_spec C c hf s hs ivs script hl).2.1
  rw [h2] at hi ⊢
  simp only [List.length_map, List.length_range] at hi
  simp only [List.getD_eq_getElem?_getD, List.getElem?_map, List.getElem?_range hi, Option.map_some, Option.getD_some]
  exact iv_is_own_draw C s.keys c _ _ (by simpa [List.getD_eq_getElem?_getD] using hiv)

/-- THE BMC'S VIEW, outer layer: stripping the 4-byte RMCP header and decoding the session wrapper with the
    negotiated integrity function under K1 SUCCEEDS (the AuthCode verifies, the pad scan finds the computed pad) and
    yields: authenticated and encrypted flags set, payload type IPMI, the BMC's session ID, sequence number
    counter + 1, and as payload exactly the AES payload — for every command, counter, IV and lawful crypto, provided
    the payload fits the 16-bit length field -/
theorem wrapper_opens (C : Ops) (k : Keys) (hr : k.remoteID < 4294967296) (c : Cmd) (inb : Nat) (iv : Bytes)
    (hlen : (aesPayload C k c iv).length < 65536) :
    ∃ v, V2Session.decode (integMac C k.integ k.k1) ((datagramOf C k c inb iv).drop 4) = .ok v ∧
      v.authenticated = true ∧ v.encrypted = true ∧ v.payloadType = 0 ∧ v.id = k.remoteID ∧
      v.sequence = (inb + 1) % 4294967296 ∧ v.payload = aesPayload C k c iv := by
  let s : V2Session := { encrypted := true, authenticated := true, id := k.remoteID, payloadType := 0
                         sequence := (inb + 1) % 4294967296 }
  have hwf : s.WF (aesPayload C k c iv) :=
    ⟨by show (0 : UInt8).toNat < 64; decide, hr, by show (inb + 1) % 4294967296 < 4294967296; omega, hlen,
     by show (0 : Nat) < 4294967296; omega, by show (0 : Nat) < 65536; omega,
     fun _ => ⟨rfl, rfl⟩, fun h => by simp [s] at h⟩
  have hrt := V2Session.decode_encode (integMac C k.integ k.k1) s (aesPayload C k c iv) hwf
  have hd : (datagramOf C k c inb iv).drop 4 = (V2Session.encode (integMac C k.integ k.k1) s (aesPayload C k c iv)).2 := by
    simp [datagramOf, attempt, initLayers, RMCP.encode, aesPayload, messageBytes, requestMessage, s]
  rw [hd, hrt]
  exact ⟨_, rfl, rfl, rfl, rfl, rfl, rfl, rfl⟩

example : (requestMessage { fn := 0x2c, cmd := 2, body := 0xdc, req := [1, 2, 3] }).WF :=
  ⟨by decide, by decide, by decide, by decide, by decide, by decide, by decide, by decide⟩

end Bmc.Proofs.C03
