import Bmc.Lemmas.HandshakeInv
import Bmc.Spec.Rakp
import Bmc.Lemmas.TruncatedReply
/-! # C02 — no session unless the BMC proves knowledge of the password (property theorems only)

No cryptographic claim: that another password gives another code is the MAC's job. Proved: a session is returned
ONLY IF the codes received equal the specification's keyed hashes of the values exchanged. -/
namespace Bmc.Proofs.C02
open Bmc Bmc.Wire Bmc.Crypto Bmc.Proto

/-- the values exchanged, as the console holds them when it checks RAKP 2 / RAKP 4 -/
def exchangeOf (o : Opts) (rm : Bytes) (osr : OpenSessionRsp) (rk2 : RAKP2) : Spec.Exchange :=
  { sidm := putLE32 rk2.consoleSessionID, sidc := putLE32 osr.bmcSessionID, rm := rm, rc := rk2.bmcRandom
    guid := rk2.bmcGUID, role := roleByte o, uname := o.user }

theorem icvOf_spec (C : Ops) (hh : HashAlg) (a : UInt8) (sik : Bytes) (o : Opts) (rm : Bytes) (osr : OpenSessionRsp)
    (rk2 : RAKP2) (ha : authHash a = some hh) :
    icvOf C hh a sik rm osr rk2 = Spec.icv C hh sik (exchangeOf o rm osr rk2) := by
  unfold authHash at ha
  split at ha
  · injection ha with ha; subst ha; simp [icvOf, Spec.icv, exchangeOf, icvLen]
  · injection ha with ha; subst ha; simp [icvOf, Spec.icv, exchangeOf, icvLen]
  · injection ha with ha; subst ha; simp [icvOf, Spec.icv, exchangeOf, icvLen]
  · cases ha

/-- SOUNDNESS, for every reply script of every length and every lawful or unlawful hash: a session comes back only
    when (1) the Open Session Response has the request's tag, status OK and confirms the proposed algorithms,
    (2) RAKP 2 has tag/status OK and its AuthCode IS the specification's keyed hash, under the caller's password, of
    the exchanged values, (3) RAKP 4 has tag/status OK and its ICV IS the specification's keyed hash under the SIK,
    which itself is the specification's SIK under the caller's KG (or password) -/
theorem session_sound (C : Ops) (o : Opts) (rm : Bytes) (script : List Outcome) (l r : Nat) (a i c : UInt8)
    (sik k1 k2 : Bytes) (h : (newSession C o rm script).2 = .ok l r a i c sik k1 k2) :
    ∃ (osr : OpenSessionRsp) (rk2 : RAKP2) (rk4 : RAKP4) (hh : HashAlg),
      osr.tag = 0 ∧ osr.status = 0 ∧ osr.auth = o.auth ∧ authHash o.auth = some hh ∧
      rk2.tag = 0 ∧ rk2.status = 0 ∧ rk2.authCode = Spec.rakp2Code C hh o.pass (exchangeOf o rm osr rk2) ∧
      rk4.tag = 0 ∧ rk4.status = 0 ∧
      sik = Spec.sik C hh o.pass o.kg (exchangeOf o rm osr rk2) ∧
      rk4.icv = Spec.icv C hh sik (exchangeOf o rm osr rk2) ∧
      k1 = Spec.k C hh sik 1 ∧ k2 = Spec.k C hh sik 2 := by
  obtain ⟨osr, rk2, hh, s2, s3, h1, h2, h3, _⟩ := newSession_ok C o rm script l r a i c sik k1 k2 h
  obtain ⟨t1, st1, ea, _, _, _⟩ := stepOpen_ok o script osr h1
  obtain ⟨t2, st2, hauth, hcode, _⟩ := stepRakp2_ok C o rm osr s2 rk2 hh h2
  obtain ⟨_, _, hr, p3, rk4, _, _, t4, st4, hicv⟩ := stepRakp4_ok C o rm osr rk2 hh s3 _ h3
  injection hr with _ _ _ _ _ e6 e7 e8
  subst e6 e7 e8
  refine ⟨osr, rk2, rk4, hh, t1, st1, ea, by rw [← ea]; exact hauth, t2, st2, ?_, t4, st4, ?_, ?_, rfl, rfl⟩
  · rw [hcode]; simp [rakp2Code, Spec.rakp2Code, exchangeOf, Spec.Exchange.ulen]
  · simp [sikOf, Spec.sik, exchangeOf, Spec.Exchange.ulen]
  · rw [hicv]; exact icvOf_spec C hh osr.auth _ o rm osr rk2 hauth

/-- a well-formed, status-OK RAKP 2 whose AuthCode is not the expected keyed hash yields the incorrect-password error -/
theorem wrong_code_is_password_error (C : Ops) (o : Opts) (rm : Bytes) (osr : OpenSessionRsp) (script2 : List Outcome)
    (p2 : GoSlice) (rk2 : RAKP2) (hh : HashAlg) (h1 : exchangePayload script2 = .ok p2)
    (h2 : RAKP2.decodeGo true {} p2 = .ok rk2) (ht : rk2.tag = 0) (hs : rk2.status = 0) (ha : authHash osr.auth = some hh)
    (hne : rk2.authCode ≠ rakp2Code C hh o rm osr rk2) :
    stepRakp2 C o rm osr script2 = .error .incorrectPassword := by
  unfold stepRakp2
  rw [h1]
  simp only []
  have h2' : RAKP2.decodeGo true {} p2 = R.ok rk2 := h2
  rw [h2']
  simp [ht, hs, ha, hne]

/-- … and the incorrect-password error arises in no other way -/
theorem password_error_only_from_wrong_code (C : Ops) (o : Opts) (rm : Bytes) (osr : OpenSessionRsp) (script2 : List Outcome)
    (h : stepRakp2 C o rm osr script2 = .error .incorrectPassword) :
    ∃ p2 rk2 hh, exchangePayload script2 = .ok p2 ∧ RAKP2.decodeGo true {} p2 = .ok rk2 ∧ rk2.tag = 0 ∧ rk2.status = 0 ∧
      authHash osr.auth = some hh ∧ rk2.authCode ≠ rakp2Code C hh o rm osr rk2 :=
  stepRakp2_badpw C o rm osr script2 h

/-- a non-OK status or a mismatched tag in any of the three replies is an error (never a session) -/
theorem bad_status_or_tag (C : Ops) (o : Opts) (rm : Bytes) (osr : OpenSessionRsp) (rk2 : RAKP2) (hh : HashAlg)
    (s1 s2 s3 : List Outcome) :
    (∀ osr', stepOpen o s1 = .ok osr' → osr'.tag = 0 ∧ osr'.status = 0) ∧
    (∀ x, stepRakp2 C o rm osr s2 = .ok x → x.1.tag = 0 ∧ x.1.status = 0) ∧
    (∀ res, stepRakp4 C o rm osr rk2 hh s3 = .ok res →
      ∃ p3 rk4, exchangePayload s3 = .ok p3 ∧ RAKP4.decodeGo {} p3 = .ok rk4 ∧ rk4.tag = 0 ∧ rk4.status = 0) := by
  refine ⟨fun osr' h => ?_, fun x h => ?_, fun res h => ?_⟩
  · obtain ⟨a, b, _⟩ := stepOpen_ok o s1 osr' h; exact ⟨a, b⟩
  · obtain ⟨rk, h'⟩ := x
    obtain ⟨a, b, _⟩ := stepRakp2_ok C o rm osr s2 rk h' h; exact ⟨a, b⟩
  · obtain ⟨_, _, _, p3, rk4, e1, e2, e3, e4, _⟩ := stepRakp4_ok C o rm osr rk2 hh s3 res h
    exact ⟨p3, rk4, e1, e2, e3, e4⟩

-- truncated handshake messages -----------------------------------------------------------------------------------------

/-- a reply that is a proper prefix of a session-less RMCP+ datagram (any payload type but OEM-explicit, any payload
    that fits the length field, cut at ANY length) -/
def IsTruncatedReply (o : Outcome) : Prop :=
  ∃ (ptype : UInt8) (payload : Bytes) (n : Nat), ptype.toNat < 64 ∧ ptype ≠ 2 ∧ payload.length < 65536 ∧
    n < (Spec.sessionless ptype payload).length ∧ o = .reply ((Spec.sessionless ptype payload).take n)

/-- TRUNCATION: a handshake reply truncated at any length is never taken for the reply — one attempt of the exchange
    treats it exactly like a reply that did not arrive (retry) -/
theorem truncated_reply_is_not_a_reply (ptype : UInt8) (hpt : ptype.toNat < 64) (hoem : ptype ≠ 2) (payload : Bytes)
    (hlen : payload.length < 65536) (n : Nat) (hn : n < (Spec.sessionless ptype payload).length) (rest : List Outcome) :
    exchange (.reply ((Spec.sessionless ptype payload).take n) :: rest) = ((exchange rest).1 + 1, (exchange rest).2) := by
  simp only [exchange, truncated_setup_reply_is_retry ptype hpt hoem payload hlen n hn]

/-- … hence a BMC (or an attacker) that only ever delivers lost or truncated replies — to any of the three exchanges,
    in any order, any number of them — never obtains a session: the call ends with an error when the context expires -/
theorem only_truncated_replies_no_session (C : Ops) (o : Opts) (rm : Bytes) (script : List Outcome)
    (h : ∀ x ∈ script, x = .lost ∨ IsTruncatedReply x) : (newSession C o rm script).2 = .error := by
  have hex : ∀ s : List Outcome, (∀ x ∈ s, x = .lost ∨ IsTruncatedReply x) → (exchange s).2 = none := by
    intro s hs
    induction s with
    | nil => rfl
    | cons x rest ih =>
      have ih' := ih (fun y hy => hs y (by simp [hy]))
      rcases hs x (by simp) with rfl | ⟨pt, pl, n, h1, h2, h3, h4, rfl⟩
      · simpa [exchange] using ih'
      · rw [truncated_reply_is_not_a_reply pt h1 h2 pl h3 n h4]; exact ih'
  unfold newSession stepOpen exchangePayload
  simp only [hex script h]

example : IsTruncatedReply (.reply ((Spec.sessionless 0x13 [1, 2, 3]).take 17)) :=
  ⟨0x13, [1, 2, 3], 17, by decide, by decide, by decide, by decide, rfl⟩

end Bmc.Proofs.C02
