import Bmc.Gen.Facts
/-! # The small functions around the translated core, as they stand on this run (regenerated fact; C13, C19, C05)

No translator covers them: `Dial` / `DialV2` and the `WithTimeout` option (the default per-request timeout of one second, a FRESH
`dialConfig` per dial — seed C19-B12 made it a shared package-level value), `newTransport` (default port 623), the constructors
`newV2SessionlessTransport` / `newV2Sessionless` (one serialisation buffer, one back-off policy, one decoder per connection),
`SetTimeout`, `NewSession` (the default cipher-suite preference), the transport wrapper's `Close`, `serializableLayerOrEmpty`, and the
helpers of `pkg/layerexts` from which the decode chain is built (`BuildDecoder`, `Contains`, `InnermostEquals`). Their bodies are
recorded as normalised source text and pinned here; what they DO is exercised by the real-socket scenarios and the race-detector run. -/
namespace Bmc.Proofs.SourcePins

theorem pinned_sources : Bmc.Gen.Facts.pinnedSources = [
  ("bmc.Dial", "{ return DialV2(addr, opts...) }"),
  ("bmc.DialV2", "{ v2ConnectionOpenAttempts.Inc() t, err := newTransport(addr) if err != nil { v2ConnectionOpenFailures.Inc() return nil, err } v2ConnectionsOpen.Inc() c := &dialConfig{ timeout: 1 * time.Second, } for _, opt := range opts { opt(c) } return newV2SessionlessTransport(t, c), nil }"),
  ("bmc.V2Sessionless.SetTimeout", "{ s.timeout = t }"),
  ("bmc.V2SessionlessTransport.Close", "{ defer v2ConnectionsOpen.Dec() return s.Transport.Close() }"),
  ("bmc.V2SessionlessTransport.NewSession", "{ return s.NewV2Session(ctx, &V2SessionOpts{ SessionOpts: *opts, }) }"),
  ("bmc.WithTimeout", "{ return func(c *dialConfig) { c.timeout = t } }"),
  ("bmc.newTransport", "{ if !strings.Contains(addr, \":\") || strings.HasSuffix(addr, \"]\") { addr = addr + \":623\" } return transport.New(addr) }"),
  ("bmc.newV2Sessionless", "{ s := &V2Sessionless{ v2ConnectionShared: v2ConnectionShared{ transport: t, buffer: gopacket.NewSerializeBuffer(), backoff: backoff.NewExponentialBackOff(), }, timeout: timeout, } dlc := gopacket.DecodingLayerContainer(gopacket.DecodingLayerArray(nil)) dlc = dlc.Put(&s.rmcpLayer) dlc = dlc.Put(&s.sessionSelectorLayer) dlc = dlc.Put(&s.v2SessionLayer) dlc = dlc.Put(&s.messageLayer) s.decode = dlc.LayersDecoder(s.rmcpLayer.LayerType(), gopacket.NilDecodeFeedback) return s }"),
  ("bmc.newV2SessionlessTransport", "{ return &V2SessionlessTransport{ Transport: t, V2Sessionless: newV2Sessionless(t, c.timeout), } }"),
  ("bmc.serializableLayerOrEmpty", "{ if s == nil { return gopacket.Payload(nil) } return s }"),
  ("layerexts.BuildDecoder", "{ return gopacket.DecodeFunc(func(d []byte, p gopacket.PacketBuilder) error { layer := newLayer() err := layer.DecodeFromBytes(d, p) if err != nil { return err } p.AddLayer(layer) next := layer.NextLayerType() if next == gopacket.LayerTypeZero { return nil } return p.NextDecoder(next) }) }"),
  ("layerexts.DecodedTypes.Contains", "{ for i := len(ts) - 1; i >= 0; i-- { if ts[i] == needle { return nil } } return fmt.Errorf(\"%v layer not received\", needle) }"),
  ("layerexts.DecodedTypes.InnermostEquals", "{ if len(ts) == 0 { return fmt.Errorf(\"no layers received\") } if got := ts[len(ts)-1]; got != want { return fmt.Errorf(\"inner-most layer is %v, wanted %v\", got, want) } return nil }")] := rfl

end Bmc.Proofs.SourcePins
