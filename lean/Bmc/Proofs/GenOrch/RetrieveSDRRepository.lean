import Bmc.Lemmas.GenOrchRetrieve
/-! # `RetrieveSDRRepository` (sdr_repository.go) as re-translated on every run is the hand-written model
    `Proto.SdrWalk.retrieve` (the closure given to `backoff.Retry` = `attempt`, run at most `attempts` times): for EVERY
    raw answer function over ANY state, every fuel, every number of attempts and every starting state, the repository
    returned (or the error) AND the final state of the answer function — unless an attempt runs out of fuel, where the
    hand model tries again and the translation stops with the explicit outcome `outOfFuel` (the Go loop would still be
    running). -/
namespace Bmc.Proofs.GenOrch
open Bmc Bmc.GoOrch Bmc.Gen.Orch Bmc.Proto Bmc.Proto.SdrWalk Bmc.Lemmas.GenOrch Bmc.Lemmas.GenOrchSdr

theorem RetrieveSDRRepository_gen_eq {σ : Type} (a : Answer σ) (junk : σ → GetSDRReq → GetSDRRsp) (fuel attempts : Nat) (s : σ) :
    (bmc_RetrieveSDRRepository fuel (sendOf a junk) (infoOf a) (reserveOf a) attempts s).1 = .outOfFuel ∨
    ((bmc_RetrieveSDRRepository fuel (sendOf a junk) (infoOf a) (reserveOf a) attempts s).1.map viewRepo
        = (match (retrieve true a fuel attempts s).2 with | some m => .ok m | none => .err) ∧
     (bmc_RetrieveSDRRepository fuel (sendOf a junk) (infoOf a) (reserveOf a) attempts s).2 = (retrieve true a fuel attempts s).1) := by
  unfold bmc_RetrieveSDRRepository
  orch_simp
  rw [retry_congr _ (attemptSpec a junk fuel) ?op]
  case op =>
    intro s'
    simp only [attemptSpec]
  have key := retry_retrieve a junk fuel attempts s
  generalize retry attempts (attemptSpec a junk fuel) s = r at key ⊢
  generalize retrieve true a fuel attempts s = h at key ⊢
  obtain ⟨r1, s1⟩ := r
  obtain ⟨hs, hr⟩ := h
  rcases key with k | ⟨k1, k2⟩
  · left; simp only at k; subst k; rfl
  · right
    simp only at k1 k2
    subst k2
    cases r1 with
    | ok g =>
      cases hr <;> simp [RF.map] at k1
      cases g with
      | none => simp at k1
      | some g => obtain ⟨w, hw, rfl⟩ := k1; cases hw; simp [RF.map]
    | err => cases hr <;> simp [RF.map] at k1; simp [RF.map]
    | panic => cases hr <;> simp [RF.map] at k1
    | overread => cases hr <;> simp [RF.map] at k1
    | outOfFuel => cases hr <;> simp [RF.map] at k1

end Bmc.Proofs.GenOrch
