import Bmc.Lemmas.GenOrchSdr
/-! # `walkSDRs` (sdr_repository.go) as re-translated on every run is the hand-written model `Proto.SdrWalk.walk`
    (with the map key of the current tree, `header.ID`): for EVERY raw answer function over ANY state, every fuel and
    every starting state — the repository returned (or the error, or `outOfFuel`: the Go loop has no bound of its own)
    AND the final state of the answer function, i.e. the sequence of requests made. The two `gopacket.NewPacket(…,
    Lazy).Layer(…)` uses are `GoOrch.packetLayer` over the REGENERATED decoders of `ipmi.SDR` and
    `ipmi.FullSensorRecord` (`Gen/Dec.lean`, whose own equality theorems are used). -/
namespace Bmc.Proofs.GenOrch
open Bmc Bmc.GoOrch Bmc.Gen.Orch Bmc.Proto Bmc.Proto.SdrWalk Bmc.Lemmas.GenOrch Bmc.Lemmas.GenOrchSdr

theorem walkSDRs_gen_eq {σ : Type} (a : Answer σ) (junk : σ → GetSDRReq → GetSDRRsp) (fuel : Nat) (s : σ) :
    ((bmc_walkSDRs fuel (sendOf a junk) (reserveOf a) s).1.map viewRepo = ofRes (walk true a fuel s).2) ∧
    (bmc_walkSDRs fuel (sendOf a junk) (reserveOf a) s).2 = (walk true a fuel s).1 := by
  unfold bmc_walkSDRs walk
  orch_simp [call_apply, reserveOf]
  cases hc : SdrWalk.call a Wire.ReserveRsp.decode s .reserve with
  | mk s1 o =>
    cases o with
    | none => simp [RF.map, ofRes]
    | some w =>
      simp only [Option.map_some, cont_ok]
      orch_simp
      rw [loop_congr _ (stepSpec (sendOf a junk)) ?step]
      case step =>
        intro g st
        generalize sendOf a junk = send
        orch_simp [stepSpec]
        by_cases hlast : st.2.req.recordID = 65535
        · simp [hlast]
        · have hne : (!st.2.req.recordID != 65535) = false := by simp [hlast]
          simp only [hlast, hne, Bool.false_eq_true, if_false]
          cases (send st.1 st.2.req).2.2
          · rfl
          · simp only [cond_true]
            cases hp : packetLayer Gen.Dec.SDR.decodeGo {} (send st.1 st.2.req).2.1.payload with
            | none => simp
            | some gh =>
              simp only [Option.isNone_some, Bool.false_eq_true, if_false, derefOpt_some, cont_ok]
              orch_simp
              by_cases ht : gh.type_ = 1
              · have ht' : (gh.type_ == 1) = true := by simp [ht]
                simp only [ht, ht', if_true]
                by_cases hlen : gh.length > 64
                · simp [hlen]
                · simp only [hlen, if_false]
                  try orch_simp
                  cases (send (send st.1 st.2.req).1 { st.2.req with offset := 5, length := gh.length }).2.2
                  · rfl
                  · simp only [cond_true]
                    cases hf : packetLayer Gen.Dec.FullSensorRecord.decodeGo {}
                        (send (send st.1 st.2.req).1 { st.2.req with offset := 5, length := gh.length }).2.1.payload with
                    | none => simp
                    | some gf => simp
              · have ht' : (gh.type_ == 1) = false := by simp [ht]
                simp only [ht, ht', Bool.false_eq_true, if_false]
                try orch_simp
      have hw : w.reservationID < 65536 := by
        obtain ⟨b, hb⟩ := call_some a _ s s1 _ w hc
        exact reserve_lt b w hb
      have key := loop_walkLoop a junk fuel [] s1
        { req := { recordID := 0, length := 5, reservationID := UInt16.ofNat w.reservationID } }
        w.reservationID 0 (ofNat_toNat16 _ hw) rfl rfl rfl
      have hv : viewRepo [] = [] := rfl
      rw [hv] at key
      generalize loop fuel (stepSpec (sendOf a junk)) [] (s1, _) = r at key ⊢
      obtain ⟨r1, s', c'⟩ := r
      obtain ⟨k1, k2⟩ := key
      simp only at k1 k2
      subst k2
      cases r1 <;> simp only [cont_ok, cont_err, cont_panic, cont_overread, cont_outOfFuel, pure_apply, RF.map] at k1 ⊢ <;> first | exact ⟨k1, rfl⟩ | exact ⟨k1, trivial⟩ | simpa using k1

end Bmc.Proofs.GenOrch
