import Bmc.Gen.Orch
/-! everything `tools/decgen -orch` translated at delivery is still translated (a function it gives up on is a broken tie) -/
namespace Bmc.Proofs.GenOrch
open Bmc

theorem translated_ok : ∀ f ∈ ["dcmi.getEntityInstances", "dcmi.getSensorMap", "dcmi.sensorMap.CountRecordIDs", "dcmi.GetSensorInfo",
    "bmc.RetrieveSupportedCipherSuites", "bmc.V2SessionlessTransport.determineCipherSuite", "bmc.walkSDRs",
    "bmc.RetrieveSDRRepository"], f ∈ Gen.Orch.translated := by decide

/-- the translator gives up on none of its targets -/
theorem gaveUp_none : Gen.Orch.gaveUp = [] := by decide

end Bmc.Proofs.GenOrch
