import Bmc.Lemmas.GenOrchDcmi
/-! # `getEntityInstances` (pkg/dcmi/sensor_info.go) RE-TRANSLATED from the Go source on every run is the hand-written model

`Bmc.Gen.Orch.dcmi_getEntityInstances` is emitted by `tools/decgen -orch` from the source as it stands now, statement by
statement, over the state monad of `Basic/GoOrch.lean`; the BMC is a parameter (`Lemmas/GenOrchDcmi.lean`: `ansOf b junk`,
for EVERY typed BMC `b` and EVERY content `junk` of the response struct after a failed command). A source change to the
function changes `Gen/Orch.lean` and breaks this obligation at build time. -/
namespace Bmc.Proofs.GenOrch
open Bmc Bmc.GoOrch Bmc.Gen.Orch Bmc.Proto.Enum Bmc.Lemmas.GenOrch Bmc.Lemmas.GenOrchDcmi

/-- `getEntityInstances` as regenerated, run from any log and any contents of the command struct -/
theorem getEntityInstances_gen_eq (b : TBmc) (junk) (typ E : UInt8) (fuel : Nat) (hf : 256 ≤ fuel)
    (log : List GetDCMISensorInfoReq) (cmd : GetDCMISensorInfoCmd) (ht : cmd.req.type_ = typ) (he : cmd.req.entity = E) :
    ((dcmi_getEntityInstances fuel (ansOf b junk) (log, cmd)).1.map ids
        = RF.lift (entityInstances (handOf b typ) E.toNat).2) ∧
    (dcmi_getEntityInstances fuel (ansOf b junk) (log, cmd)).2.1.map viewReq
        = log.map viewReq ++ (entityInstances (handOf b typ) E.toNat).1 ∧
    (dcmi_getEntityInstances fuel (ansOf b junk) (log, cmd)).2.2.req.type_ = typ ∧
    (dcmi_getEntityInstances fuel (ansOf b junk) (log, cmd)).2.2.req.entity = E := by
  unfold dcmi_getEntityInstances
  orch_simp
  rw [loop_congr _ (stepSpec b junk) ?step]
  case step =>
    intro st s
    orch_simp [stepSpec, ansOf, forEach_pure, foldl_snoc]
    by_cases h : st.1.length < st.2 <;> simp [h]
  have key := loop_instLoop b junk typ E fuel [] 1 log
    { req := { cmd.req with instance_ := 0 }, rsp := cmd.rsp } ht he rfl (by omega) (by simp; omega)
  have hfuel := Lemmas.Enum.instLoop_fuel (handOf b typ) E.toNat fuel 256 [] 1 (by omega) (by simp; omega) (by simp)
  obtain ⟨k1, k2, k3, k4, _⟩ := key
  simp only [ids, List.map_nil, List.length_nil, Nat.zero_add] at k1 k2 k3 k4 hfuel ⊢
  unfold entityInstances
  rw [← hfuel]
  generalize loop fuel (stepSpec b junk) ([], 1) (log, _) = r at *
  obtain ⟨r1, r2⟩ := r
  cases r1 <;> simp_all [RF.map, ids]


/-- the fuel 256 suffices for every BMC: the regenerated function never reports `outOfFuel` -/
theorem getEntityInstances_fuel (b : TBmc) (junk) (fuel : Nat) (hf : 256 ≤ fuel)
    (log : List GetDCMISensorInfoReq) (cmd : GetDCMISensorInfoCmd) :
    (dcmi_getEntityInstances fuel (ansOf b junk) (log, cmd)).1 ≠ .outOfFuel := by
  intro h
  have := (getEntityInstances_gen_eq b junk _ _ fuel hf log cmd rfl rfl).1
  rw [h] at this
  cases hh : (entityInstances (handOf b cmd.req.type_) cmd.req.entity.toNat).2 <;> rw [hh] at this <;> cases this

/-- … and for EVERY answer function over ANY state (a BMC whose answers change over time included), from every state and
    every content of the command struct: 256 rounds suffice -/
theorem getEntityInstances_fuel_any {σ : Type} (send : σ → GetDCMISensorInfoReq → σ × GetDCMISensorInfoRsp × Bool)
    (fuel : Nat) (hf : 256 ≤ fuel) : NoFuelOut (dcmi_getEntityInstances fuel send) := by
  unfold dcmi_getEntityInstances
  repeat' nofuel_step
  intro s
  rw [loop_congr _ (stepAny send) ?step]
  case step =>
    intro st s
    orch_simp [stepAny, forEach_pure, foldl_snoc]
    by_cases h : st.1.length < st.2 <;> simp [h]
  exact loop_fuel_any send fuel [] _ s (by simp) (by simp; omega)

end Bmc.Proofs.GenOrch
