import Bmc.Lemmas.GenOrchSensorMap
/-! # `getSensorMap` (pkg/dcmi/sensor_info.go) as re-translated on every run is the hand-written model `sensorMap`
    (the Go map as an association list; `viewMap` reads it as the hand model's `SMap`). -/
namespace Bmc.Proofs.GenOrch
open Bmc Bmc.GoOrch Bmc.Gen.Orch Bmc.Proto.Enum Bmc.Lemmas.GenOrch Bmc.Lemmas.GenOrchDcmi

/-- `getSensorMap` as regenerated -/
theorem getSensorMap_gen_eq (b : TBmc) (junk) (typ : UInt8) (fuel : Nat) (hf : 256 ≤ fuel) (es : List UInt8)
    (log : List GetDCMISensorInfoReq) (cmd : GetDCMISensorInfoCmd) (ht : cmd.req.type_ = typ) :
    ((dcmi_getSensorMap fuel (ansOf b junk) es (log, cmd)).1.map viewMap
        = RF.lift (sensorMap (handOf b typ) (es.map (·.toNat))).2) ∧
    (dcmi_getSensorMap fuel (ansOf b junk) es (log, cmd)).2.1.map viewReq
        = log.map viewReq ++ (sensorMap (handOf b typ) (es.map (·.toNat))).1 ∧
    (dcmi_getSensorMap fuel (ansOf b junk) es (log, cmd)).2.2.req.type_ = typ ∧
    (∀ g, (dcmi_getSensorMap fuel (ansOf b junk) es (log, cmd)).1 = .ok g → (g.map (·.1)).Nodup) := by
  unfold dcmi_getSensorMap
  orch_simp
  rw [forEach_congr _ (smStep b junk fuel) ?step]
  case step =>
    intro m e s
    simp only [smStep]
  have key := forEach_smStep b junk typ fuel hf es [] log cmd ht
  unfold sensorMap
  generalize forEach es (smStep b junk fuel) [] (log, cmd) = r at key ⊢
  obtain ⟨r1, r2⟩ := r
  obtain ⟨k1, k2, k3, k4⟩ := key
  have hv : viewMap [] = [] := rfl
  rw [hv] at k1 k2
  cases r1 <;> simp_all [RF.map]


/-- for EVERY answer function over ANY state: never out of fuel -/
theorem getSensorMap_fuel_any {σ : Type} (send : σ → GetDCMISensorInfoReq → σ × GetDCMISensorInfoRsp × Bool)
    (fuel : Nat) (hf : 256 ≤ fuel) (es : List UInt8) : NoFuelOut (dcmi_getSensorMap fuel send es) := by
  have h1 := getEntityInstances_fuel_any send fuel hf
  unfold dcmi_getSensorMap
  repeat' nofuel_step

end Bmc.Proofs.GenOrch
