import Bmc.Lemmas.GenOrchSensorInfo
import Bmc.Proofs.GenOrch.CountRecordIDs
/-! # `GetSensorInfo` (pkg/dcmi/sensor_info.go) as re-translated on every run is the hand-written model `getSensorInfo`:
    the result AND the sequence of requests, for every typed BMC. -/
namespace Bmc.Proofs.GenOrch
open Bmc Bmc.GoOrch Bmc.Gen.Orch Bmc.Proto.Enum Bmc.Lemmas.GenOrch Bmc.Lemmas.GenOrchDcmi

/-- the table `ipmiSensorEntityIDs` as regenerated is the hand model's -/
theorem ipmiSensorEntityIDs_gen_eq : dcmi_ipmiSensorEntityIDs.map (·.toNat) = stdEntities := by decide
/-- the table `dcmiSensorEntityIDs` as regenerated is the hand model's -/
theorem dcmiSensorEntityIDs_gen_eq : dcmi_dcmiSensorEntityIDs.map (·.toNat) = dcmiEntities := dcmi_map

/-- `GetSensorInfo` as regenerated, against the hand model: result, and the requests made -/
theorem GetSensorInfo_gen_eq (b : TBmc) (junk) (fuel : Nat) (hf : 256 ≤ fuel) (log : List GetDCMISensorInfoReq) :
    ((dcmi_GetSensorInfo fuel (ansOf b junk) log).1.map viewInfo = RF.lift (getSensorInfo (handOf b 1)).2) ∧
    (dcmi_GetSensorInfo fuel (ansOf b junk) log).2.map viewReq = log.map viewReq ++ (getSensorInfo (handOf b 1)).1 := by
  unfold dcmi_GetSensorInfo getSensorInfo
  orch_simp [try_]
  have key := getSensorMap_gen_eq b junk 1 fuel hf dcmi_ipmiSensorEntityIDs log { req := { type_ := 1 } } rfl
  rw [ipmiSensorEntityIDs_gen_eq] at key
  have hres := sensorMap_res (handOf b 1) stdEntities
  generalize dcmi_getSensorMap fuel (ansOf b junk) dcmi_ipmiSensorEntityIDs (log, { req := { type_ := 1 } }) = r at key ⊢
  generalize sensorMap (handOf b 1) stdEntities = h at key hres ⊢
  obtain ⟨r1, log', cmd'⟩ := r
  obtain ⟨l, hr⟩ := h
  obtain ⟨k1, k2, k3, k4⟩ := key
  simp only at k1 k2 k3 k4 hres
  cases r1 with
  | ok g =>
    cases hr <;> simp [RF.map] at k1
    subst k1
    simp only [cont_ok, Option.isSome_some, Bool.true_and, CountRecordIDs_gen_eq]
    by_cases hc : (viewMap g).count > 0
    · simp [hc, RF.map, k2, pick_std g (k4 g rfl)]
    · simp only [hc, decide_false, Bool.false_eq_true, if_false]
      orch_simp
      have fb := fallback_run b junk fuel hf log' cmd' k3
      obtain ⟨f1, f2⟩ := fb
      refine ⟨f1, ?_⟩
      rw [f2, k2]; simp
  | err =>
    have hr' : hr = .err := by cases hr <;> simp [RF.map] at k1; rfl
    subst hr'
    simp only [cont_ok, Option.isSome_none, Bool.false_and, Bool.false_eq_true, if_false]
    orch_simp
    have fb := fallback_run b junk fuel hf log' cmd' k3
    obtain ⟨f1, f2⟩ := fb
    refine ⟨f1, ?_⟩
    rw [f2, k2]; simp
  | panic => rcases hres with h | ⟨_, h⟩ <;> subst h <;> simp [RF.map] at k1
  | overread => rcases hres with h | ⟨_, h⟩ <;> subst h <;> simp [RF.map] at k1
  | outOfFuel => cases hr <;> simp [RF.map] at k1

/-- the fuel 256 suffices for every BMC -/
theorem GetSensorInfo_fuel (b : TBmc) (junk) (fuel : Nat) (hf : 256 ≤ fuel) (log : List GetDCMISensorInfoReq) :
    (dcmi_GetSensorInfo fuel (ansOf b junk) log).1 ≠ .outOfFuel := by
  intro h
  have := (GetSensorInfo_gen_eq b junk fuel hf log).1
  rw [h] at this
  cases hh : (getSensorInfo (handOf b 1)).2 <;> rw [hh] at this <;> cases this

/-- … and for EVERY answer function over ANY state (a BMC whose answers change over time included) -/
theorem GetSensorInfo_fuel_any {σ : Type} (send : σ → GetDCMISensorInfoReq → σ × GetDCMISensorInfoRsp × Bool)
    (fuel : Nat) (hf : 256 ≤ fuel) : NoFuelOut (dcmi_GetSensorInfo fuel send) := by
  have h1 := getSensorMap_fuel_any send fuel hf dcmi_ipmiSensorEntityIDs
  have h2 := getSensorMap_fuel_any send fuel hf dcmi_dcmiSensorEntityIDs
  unfold dcmi_GetSensorInfo
  repeat' nofuel_step

end Bmc.Proofs.GenOrch
