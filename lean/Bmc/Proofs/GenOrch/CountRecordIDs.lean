import Bmc.Lemmas.GenOrchDcmi
/-! # `sensorMap.CountRecordIDs` (pkg/dcmi/sensor_info.go) as re-translated on every run is the hand model's `SMap.count` -/
namespace Bmc.Proofs.GenOrch
open Bmc Bmc.GoOrch Bmc.Gen.Orch Bmc.Proto.Enum Bmc.Lemmas.GenOrch Bmc.Lemmas.GenOrchDcmi

/-- `CountRecordIDs` ranges over the map in an unspecified order; it is a sum, so every order gives this value -/
theorem CountRecordIDs_gen_eq (g : GMap) : dcmi_sensorMap_CountRecordIDs g = SMap.count (viewMap g) := by
  unfold dcmi_sensorMap_CountRecordIDs SMap.count viewMap
  simp only [foldl_count, Nat.zero_add, List.map_reverse, sum_reverse, List.map_map]
  congr 1
  apply List.map_congr_left
  intro p _
  simp [ids]


end Bmc.Proofs.GenOrch
