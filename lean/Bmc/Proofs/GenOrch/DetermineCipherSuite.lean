import Bmc.Lemmas.GenOrchDetermine
/-! # `determineCipherSuite` (v2session_new.go) as re-translated on every run is the hand-written model `determineFull`
    (`Proto/Suites.lean`, `Proto/Discovery.lean`): the suite proposed (or the error), whether discovery ran, and the list
    indices it asked for — for every preference list and every typed BMC. -/
namespace Bmc.Proofs.GenOrch
open Bmc Bmc.GoOrch Bmc.Gen.Orch Bmc.Proto.Enum Bmc.Lemmas.GenOrch Bmc.Lemmas.GenOrchSuites
open Bmc.Proto

/-- the table `defaultCipherSuites` (with `ipmi.CipherSuite17`, `ipmi.CipherSuite3`) as regenerated is the hand model's -/
theorem defaultCipherSuites_gen_eq : bmc_defaultCipherSuites.map viewSuite = defaultSuites := by decide

/-- `determineCipherSuite` as regenerated -/
theorem determineCipherSuite_gen_eq (b : TBmc) (junk : Junk) (fuel : Nat) (hf : 64 ≤ fuel) (tail : Bytes) (prefs : List Gen.Dec.CipherSuite)
    (log : List GetChannelCipherSuitesReq) :
    ((bmc_V2SessionlessTransport_determineCipherSuite fuel (ansOf b junk) tail prefs log).1.map viewSuite
        = RF.lift (resultOf (determineFull (prefs.map viewSuite) (pageOf b)))) ∧
    (bmc_V2SessionlessTransport_determineCipherSuite fuel (ansOf b junk) tail prefs log).2.map viewReq
        = log.map viewReq ++ (if discoveryRan (determineFull (prefs.map viewSuite) (pageOf b))
            then (retrieveSupportedCipherSuites (pageOf b)).1 else []) := by
  unfold bmc_V2SessionlessTransport_determineCipherSuite
  orch_simp
  rcases prefs with _ | ⟨p1, _ | ⟨p2, rest⟩⟩
  · -- no preference: the defaults, with discovery
    have hd : (bmc_defaultCipherSuites.length == 1) = false := by decide
    simp only [List.length_nil, beq_self_eq_true, if_true, hd, Bool.false_eq_true, if_false, List.map_nil,
      determineFull_nil, discoveryRan_after, ← defaultCipherSuites_gen_eq]
    exact discover_select b junk fuel hf tail bmc_defaultCipherSuites log _
      (by intro recs s; orch_simp [forEach_pure, forEachR_find]; cases List.find? _ _ <;> rfl)
  · -- one preference: no discovery
    simp [determineFull, determine, resultOf, discoveryRan, listIdx, RF.map]
  · -- several preferences: discovery
    have h0 : ((p1 :: p2 :: rest).length == 0) = false := by simp
    have h1 : ((p1 :: p2 :: rest).length == 1) = false := by simp
    simp only [h0, h1, Bool.false_eq_true, if_false, List.map_cons, determineFull_many, discoveryRan_after, if_true]
    exact discover_select b junk fuel hf tail (p1 :: p2 :: rest) log _
      (by intro recs s; orch_simp [forEach_pure, forEachR_find]; cases List.find? _ _ <;> rfl)

/-- for EVERY answer function over ANY state and every preference list: never out of fuel -/
theorem determineCipherSuite_fuel_any {σ : Type}
    (send : σ → GetChannelCipherSuitesReq → σ × GetChannelCipherSuitesRsp × Bool) (fuel : Nat) (hf : 64 ≤ fuel) (tail : Bytes)
    (prefs : List Gen.Dec.CipherSuite) : NoFuelOut (bmc_V2SessionlessTransport_determineCipherSuite fuel send tail prefs) := by
  have h1 := RetrieveSupportedCipherSuites_fuel_any send fuel hf tail
  unfold bmc_V2SessionlessTransport_determineCipherSuite
  repeat' nofuel_step
  split <;> repeat' nofuel_step

end Bmc.Proofs.GenOrch
