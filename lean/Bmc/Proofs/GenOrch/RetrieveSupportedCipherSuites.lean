import Bmc.Lemmas.GenOrchSuites
import Bmc.Proofs.GenDec.CipherSuiteRecords
/-! # `RetrieveSupportedCipherSuites` (cipher_suites.go) as re-translated on every run is the hand-written model
    `retrieveSupportedCipherSuites`: the chunk loop over list indices (with `break`, fuel) followed by the regenerated
    record parser of `Gen/Dec.lean` (whose own equality theorem is used) — result AND list indices asked for. -/
namespace Bmc.Proofs.GenOrch
open Bmc Bmc.GoOrch Bmc.Gen.Orch Bmc.Proto.Enum Bmc.Lemmas.GenOrch Bmc.Lemmas.GenOrchSuites

/-- `RetrieveSupportedCipherSuites` as regenerated: the parsed records and the list indices asked for -/
theorem RetrieveSupportedCipherSuites_gen_eq (b : TBmc) (junk : Junk) (fuel : Nat) (hf : 64 ≤ fuel) (tail : Bytes) (log : List GetChannelCipherSuitesReq) :
    ((bmc_RetrieveSupportedCipherSuites fuel (ansOf b junk) tail log).1.map (List.map Gen.Dec.CipherSuiteRecord.toEntry)
        = RF.lift (retrieveSupportedCipherSuites (pageOf b)).2) ∧
    (bmc_RetrieveSupportedCipherSuites fuel (ansOf b junk) tail log).2.map viewReq
        = log.map viewReq ++ (retrieveSupportedCipherSuites (pageOf b)).1 := by
  unfold bmc_RetrieveSupportedCipherSuites
  orch_simp
  rw [loop_congr _ (stepSpec b junk) ?step]
  case step =>
    intro buf s
    orch_simp [stepSpec, ansOf]
  have key := loop_retrieveLoop b junk fuel 0 [] log { req := { channel := 14 } } rfl rfl rfl (by omega) (by omega)
  have hfuel := Lemmas.Enum.retrieveLoop_fuel 63 (by omega) (pageOf b) fuel 64 0 [] (by omega) (by omega) (by omega)
  unfold retrieveSupportedCipherSuites retrieveSupportedCipherSuitesL retrieveChunksL
  rw [← hfuel]
  generalize loop fuel (stepSpec b junk) [] (log, _) = r at key ⊢
  generalize retrieveLoop 63 (pageOf b) fuel 0 [] = h at key ⊢
  obtain ⟨r1, log', cmd'⟩ := r
  obtain ⟨l, hr⟩ := h
  obtain ⟨k1, k2⟩ := key
  simp only at k1 k2
  subst k1
  cases hr with
  | ok data =>
    simp only [RF.lift_ok, cont_ok, liftRF_apply, k2, R.bind_ok, and_true]
    have := Proofs.GenDec.parseCipherSuiteRecordData_gen_eq (GoSlice.window data tail)
    rw [GoSlice.vis_window] at this
    exact this
  | err => simp [RF.map, k2]
  | panic => simp [RF.map, k2]
  | overread => simp [RF.map, k2]



/-- the fuel 64 suffices for every BMC (the `ListIndex == 63` guard) -/
theorem RetrieveSupportedCipherSuites_fuel (b : TBmc) (junk : Junk) (fuel : Nat) (hf : 64 ≤ fuel) (tail : Bytes)
    (log : List GetChannelCipherSuitesReq) :
    (bmc_RetrieveSupportedCipherSuites fuel (ansOf b junk) tail log).1 ≠ .outOfFuel := by
  intro h
  have := (RetrieveSupportedCipherSuites_gen_eq b junk fuel hf tail log).1
  rw [h] at this
  cases hh : (retrieveSupportedCipherSuites (pageOf b)).2 <;> rw [hh] at this <;> cases this

/-- … and for EVERY answer function over ANY state: 64 rounds suffice (and the record parser never runs out of its own fuel) -/
theorem RetrieveSupportedCipherSuites_fuel_any {σ : Type}
    (send : σ → GetChannelCipherSuitesReq → σ × GetChannelCipherSuitesRsp × Bool) (fuel : Nat) (hf : 64 ≤ fuel) (tail : Bytes) :
    NoFuelOut (bmc_RetrieveSupportedCipherSuites fuel send tail) := by
  intro s
  unfold bmc_RetrieveSupportedCipherSuites
  orch_simp
  rw [loop_congr _ (stepAny send) ?step]
  case step =>
    intro buf s
    orch_simp [stepAny]
  have key := loop_fuel_any send fuel [] (s, { req := { channel := 14 } })
    (by show (0 : UInt8).toNat ≤ 63; decide) (by show 63 - (0 : UInt8).toNat < fuel; simp; omega)
  generalize loop fuel (stepAny send) [] (s, _) = r at key ⊢
  obtain ⟨r1, s'⟩ := r
  cases r1 with
  | ok data => simp only [cont_ok, liftRF_apply]; exact Proofs.GenDec.parseCipherSuiteRecordData_fuel _
  | outOfFuel => exact absurd rfl key
  | err => intro h; cases h
  | panic => intro h; cases h
  | overread => intro h; cases h

end Bmc.Proofs.GenOrch
