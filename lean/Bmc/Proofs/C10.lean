import Bmc.Lemmas.SessionProps
import Bmc.Lemmas.SessionlessSpec
import Bmc.Lemmas.ResponseAccepted
import Bmc.Lemmas.HandshakeLoss
import Bmc.Lemmas.SessionlessLive
/-! # C10 — retries re-send the same well-formed request until a final answer arrives (property theorems only)

`expected` / `slExpected` are the documented contract as a fold over the per-attempt outcomes: the first reply that
is an acceptable response with a non-temporary completion code ends the call with that code; temporary codes and
undecodable / unacceptable replies cause a retransmission; a lost reply is retried outside a session and ends the
command inside one. -/
namespace Bmc.Proofs.C10
open Bmc Bmc.Wire Bmc.Crypto Bmc.Proto

/-- in-session: result and number of transmissions are the contract's, and the i-th transmission is the complete
    datagram for THIS command under these keys with sequence number counter+i+1 and the i-th IV draw — for every
    script of every length -/
theorem session_send_refines (C : Ops) (c : Cmd) (hf : c.reqFails = false) (s : Sess) (hs : s.inbound < 4294967296)
    (ivs : List Bytes) (script : List Outcome) (hl : script.length ≤ ivs.length) :
    (sendLoop C c s ivs script).2.2 = (expected (classify C s.keys c) script).2 ∧
    (sendLoop C c s ivs script).2.1
      = (List.range (expected (classify C s.keys c) script).1).map
          (fun i => datagramOf C s.keys c ((s.inbound + i) % 4294967296) (ivs.getD i [])) :=
  ⟨(sendLoop_spec C c hf s hs ivs script hl).1, (sendLoop_spec C c hf s hs ivs script hl).2.1⟩

/-- inside a session a transport failure ends the command at once: one transmission, an error, nothing after it -/
theorem lost_in_session_stops (cls : Bytes → Class) (rest : List Outcome) :
    expected cls (.lost :: rest) = (1, .transportErr) := rfl

/-- temporary codes (node busy C0, timeout C3) are never final: a reply classified final has another code -/
theorem final_is_not_temporary (C : Ops) (k : Keys) (c : Cmd) (d : Bytes) (cc : UInt8) (p : Bytes)
    (h : classify C k c d = .final cc p) : cc ≠ 0xC0 ∧ cc ≠ 0xC3 := by
  obtain ⟨v2, msg, _, _, ht, hcc, _⟩ := classify_final_inv C k c d cc p h
  subst hcc
  simp [isTemp] at ht
  exact ht

/-- session-less: result and number of transmissions are the contract's; every transmission is the one datagram
    serialised for this command; lost replies are retried until the context expires (the script runs out) -/
theorem sessionless_send_refines (c : Cmd) (hf : c.reqFails = false) (script : List Outcome) :
    (slSend c script).2 = (slExpected (slClassify c) script).2 ∧
    (slSend c script).1 = List.replicate (slExpected (slClassify c) script).1 (slSerialize c).2 := by
  unfold slSend
  simp only [hf, Bool.false_eq_true, if_false]
  exact slLoop_spec c _ _ script

theorem lost_sessionless_retries (cls : Bytes → Class) (rest : List Outcome) :
    slExpected cls (.lost :: rest) = ((slExpected cls rest).1 + 1, (slExpected cls rest).2) := rfl

/-- a request that cannot be serialised is an error and nothing is transmitted (both paths) -/
theorem unserialisable_sends_nothing (C : Ops) (c : Cmd) (hf : c.reqFails = true) (s : Sess) (iv : Bytes) (ivs : List Bytes)
    (o : Outcome) (rest : List Outcome) :
    (sendLoop C c s (iv :: ivs) (o :: rest)).2 = ([], .serializeErr) ∧ slSend c (o :: rest) = ([], .serializeErr) := by
  simp [sendLoop, slSend, hf]

/-- a conforming response as the script sees it: (completion code, body, wrapper sequence number, IV) -/
structure BmcAnswer where
  cc : UInt8
  data : Bytes
  seq : Nat
  iv : Bytes

def BmcAnswer.ok (C : Ops) (k : Keys) (c : Cmd) (a : BmcAnswer) : Prop :=
  a.iv.length = 16 ∧ (responseMsg c a.cc).WF ∧ a.seq < 4294967296 ∧ (responseAes C k c a.cc a.data a.iv).length < 65536

def BmcAnswer.datagram (C : Ops) (k : Keys) (c : Cmd) (a : BmcAnswer) : Outcome :=
  .reply (responseDatagram C k c a.cc a.data a.seq a.iv)

/-- RETRY LIVENESS, in session: the BMC answers any number of times with conforming responses carrying a temporary
    completion code (node busy C0 / timeout C3) and then with a conforming response carrying another code: the
    library transmits the command's datagram once per answer — each the complete datagram for THIS command with the next
    sequence number and IV draw — and returns that code and that body. For every lawful crypto, key set, command,
    counter, number of busy answers, and whatever follows in the script. -/
theorem busy_then_final (C : Ops) (hC : C.Lawful) (c : Cmd) (hf : c.reqFails = false) (s : Sess) (hs : s.inbound < 4294967296)
    (hid : s.localID < 4294967296) (busy : List BmcAnswer) (fin : BmcAnswer) (rest : List Outcome) (ivs : List Bytes)
    (hb : ∀ a ∈ busy, a.ok C s.keys c ∧ isTemp a.cc = true) (hfin : fin.ok C s.keys c) (hnt : isTemp fin.cc = false)
    (hl : busy.length + 1 + rest.length ≤ ivs.length) :
    (sendLoop C c s ivs (busy.map (BmcAnswer.datagram C s.keys c) ++ fin.datagram C s.keys c :: rest)).2 =
      ((List.range (busy.length + 1)).map (fun i => datagramOf C s.keys c ((s.inbound + i) % 4294967296) (ivs.getD i [])),
       .ok fin.cc fin.data) := by
  have hexp : expected (classify C s.keys c) (busy.map (BmcAnswer.datagram C s.keys c) ++ fin.datagram C s.keys c :: rest)
      = (busy.length + 1, .ok fin.cc fin.data) := by
    clear hl
    induction busy with
    | nil =>
      obtain ⟨h1, h2, h3, h4⟩ := hfin
      simp only [List.map_nil, List.nil_append, BmcAnswer.datagram, expected,
        classify_response C hC s.keys c fin.cc fin.data fin.seq fin.iv h1 h2 hid h3 h4, hnt]
      rfl
    | cons a busy ih =>
      obtain ⟨⟨h1, h2, h3, h4⟩, ht⟩ := hb a (by simp)
      have := ih (fun x hx => hb x (by simp [hx]))
      simp only [List.map_cons, List.cons_append, BmcAnswer.datagram, expected,
        classify_response C hC s.keys c a.cc a.data a.seq a.iv h1 h2 hid h3 h4, ht, if_true]
      simp only [BmcAnswer.datagram] at this
      rw [this]
      rfl
  have hspec := sendLoop_spec C c hf s hs ivs _ (by simp; omega : (busy.map (BmcAnswer.datagram C s.keys c) ++ fin.datagram C s.keys c :: rest).length ≤ ivs.length)
  rw [hexp] at hspec
  exact Prod.ext hspec.2.1 hspec.1

/-- HANDSHAKE PAYLOADS: while replies are lost or do not decode down to a session wrapper the library re-sends the SAME
    setup datagram (Open Session Request, RAKP 1, RAKP 3 alike), once per such outcome, and carries on with the first
    reply that does: the result is that of the loss-free exchange, and what is transmitted is the loss-free run's three
    datagrams, each repeated — for every credential set, suite and any replies `r1 r2 r3` that end their exchanges -/
theorem handshake_payload_retries (C : Ops) (o : Opts) (rm : Bytes) (j1 j2 j3 : List Outcome) (r1 r2 r3 : Bytes) (tail : List Outcome)
    (h1 : ∀ x ∈ j1, Skipped x) (h2 : ∀ x ∈ j2, Skipped x) (h3 : ∀ x ∈ j3, Skipped x) (e1 : Ends r1) (e2 : Ends r2) (e3 : Ends r3) :
    (newSession C o rm (j1 ++ .reply r1 :: (j2 ++ .reply r2 :: (j3 ++ .reply r3 :: tail)))).2 =
      (newSession C o rm [.reply r1, .reply r2, .reply r3]).2 ∧
    ∀ d1 d2 d3, (newSession C o rm [.reply r1, .reply r2, .reply r3]).1 = [d1, d2, d3] →
      (newSession C o rm (j1 ++ .reply r1 :: (j2 ++ .reply r2 :: (j3 ++ .reply r3 :: tail)))).1 =
        List.replicate (j1.length + 1) d1 ++ List.replicate (j2.length + 1) d2 ++ List.replicate (j3.length + 1) d3 :=
  ⟨newSession_skips C o rm j1 j2 j3 r1 r2 r3 tail h1 h2 h3 e1 e2 e3,
   fun d1 d2 d3 hb => newSession_retransmits C o rm j1 j2 j3 r1 r2 r3 tail h1 h2 h3 e1 e2 e3 d1 d2 d3 hb⟩

/-- SESSION-LESS RETRY LIVENESS: outside a session, any number of lost replies, conforming responses with a temporary
    completion code and conforming responses to OTHER operations (each `SlNoise`) are each followed by a retransmission
    of the one serialised datagram, and the first conforming response to the pending command with another completion
    code ends the call with that code and data — whatever the BMC put in the wrapper's session ID / sequence fields -/
theorem sessionless_retries_until_final (c : Cmd) (hf : c.reqFails = false) (noise : List Outcome) (hn : ∀ o ∈ noise, SlNoise c o)
    (sid seq : Nat) (cc : UInt8) (data : Bytes) (rest : List Outcome) (hm : (responseMsg c cc).WF) (hsid : sid < 4294967296)
    (hseq : seq < 4294967296) (hlen : (responseBytes c cc data).length < 65536) (hnt : isTemp cc = false) :
    slSend c (noise ++ .reply (slResponseDatagramWith sid seq c cc data) :: rest) =
      (List.replicate (noise.length + 1) (slSerialize c).2, .ok cc data) := by
  have h := sessionless_send_refines c hf (noise ++ .reply (slResponseDatagramWith sid seq c cc data) :: rest)
  have he : slExpected (slClassify c) (noise ++ .reply (slResponseDatagramWith sid seq c cc data) :: rest) = (noise.length + 1, .ok cc data) := by
    rw [slExpected_noise c noise hn]
    simp only [slExpected, slClassify_response_with sid seq c cc data hm hsid hseq hlen, hnt, Bool.false_eq_true, if_false,
      Prod.mk.injEq, and_true]
    omega
  rw [he] at h
  exact Prod.ext h.2 h.1

example : expected (fun d => if d = [1] then Class.final 0 [9] else .retry) [.reply [2], .reply [1], .lost] = (2, .ok 0 [9]) := by
  decide

end Bmc.Proofs.C10
