import Bmc.Gen.Facts
/-! # The high-level API wrappers as the source has them now (obligations over regenerated facts)

`tools/factgen` lists, on every run, every function of the library that hands a command to `SendCommand`, with the
function's own names abstracted (`$r` receiver, `$1 …` parameters, `$cmd` the command variable): how the command value is
made, which connection it is sent on, what is returned on error and on success, and every OTHER statement of the body.
`Proto/Api.lean` models exactly this shape — a command value ALLOCATED BY THE CALL from the caller's arguments (nothing kept
between calls: C17), sent on the receiver, `ValidateResponse` of the outcome, the response struct or one field of it handed
back (C06 / C07 API theorems). A wrapper that starts to keep its command in a field of the session, writes to shared state
around the call, sends on another connection or projects another field changes its row and breaks `api_wrappers`; a
function that starts (or stops) sending commands in another way changes `api_other_senders`. -/
namespace Bmc.Proofs.ApiWrappers

theorem api_wrappers : Bmc.Gen.Facts.apiWrappers = [
    ("bmc.V2Session.ChassisControl", "&ipmi.ChassisControlCmd{ Req: ipmi.ChassisControlReq{ ChassisControl: $2, }, }", "$r", "on error: err | nil", "if err := ValidateResponse($r.SendCommand($1, $cmd)); err != nil"),
    ("bmc.V2Session.GetChassisStatus", "&ipmi.GetChassisStatusCmd{}", "$r", "on error: nil, err | &$cmd.Rsp, nil", "if err := ValidateResponse($r.SendCommand($1, $cmd)); err != nil"),
    ("bmc.V2Session.GetDeviceID", "&ipmi.GetDeviceIDCmd{}", "$r", "on error: nil, err | &$cmd.Rsp, nil", "if err := ValidateResponse($r.SendCommand($1, $cmd)); err != nil"),
    ("bmc.V2Session.GetSDRRepositoryInfo", "&ipmi.GetSDRRepositoryInfoCmd{}", "$r", "on error: nil, err | &$cmd.Rsp, nil", "if err := ValidateResponse($r.SendCommand($1, $cmd)); err != nil"),
    ("bmc.V2Session.GetSensorReading", "&ipmi.GetSensorReadingCmd{ Req: ipmi.GetSensorReadingReq{ Number: $2, }, }", "$r", "on error: nil, err | &$cmd.Rsp, nil", "if err := ValidateResponse($r.SendCommand($1, $cmd)); err != nil"),
    ("bmc.V2Session.GetSessionInfo", "&ipmi.GetSessionInfoCmd{ Req: *$2, }", "$r", "on error: nil, err | &$cmd.Rsp, nil", "if err := ValidateResponse($r.SendCommand($1, $cmd)); err != nil"),
    ("bmc.V2Session.GetSessionPrivilegeLevel", "&ipmi.SetSessionPrivilegeLevelCmd{ Req: ipmi.SetSessionPrivilegeLevelReq{}, }", "$r", "on error: 0, err | $cmd.Rsp.PrivilegeLevel, nil", "if err := ValidateResponse($r.SendCommand($1, $cmd)); err != nil"),
    ("bmc.V2Session.ReserveSDRRepository", "&ipmi.ReserveSDRRepositoryCmd{}", "$r", "on error: nil, err | &$cmd.Rsp, nil", "if err := ValidateResponse($r.SendCommand($1, $cmd)); err != nil"),
    ("bmc.V2Session.SetSessionPrivilegeLevel", "&ipmi.SetSessionPrivilegeLevelCmd{ Req: ipmi.SetSessionPrivilegeLevelReq{ PrivilegeLevel: $2, }, }", "$r", "on error: 0, err | $cmd.Rsp.PrivilegeLevel, nil", "if err := ValidateResponse($r.SendCommand($1, $cmd)); err != nil"),
    ("bmc.V2Session.closeSession", "&ipmi.CloseSessionCmd{ Req: ipmi.CloseSessionReq{ ID: $r.RemoteID, }, }", "$r", "ValidateResponse($r.SendCommand($1, $cmd))", "defer sessionsOpen.Dec()"),
    ("bmc.getChannelAuthenticationCapabilities", "&ipmi.GetChannelAuthenticationCapabilitiesCmd{ Req: *$3, }", "$2", "on error: nil, err | &$cmd.Rsp, nil", "if err := ValidateResponse($2.SendCommand($1, $cmd)); err != nil"),
    ("bmc.getSystemGUID", "&ipmi.GetSystemGUIDCmd{}", "$2", "on error: [16]byte{}, err | $cmd.Rsp.GUID, nil", "if err := ValidateResponse($2.SendCommand($1, $cmd)); err != nil"),
    ("dcmi.sessionCommander.GetDCMISensorInfo", "&GetDCMISensorInfoCmd{ Req: *$2, }", "$r", "on error: nil, err | &$cmd.Rsp, nil", "if err := bmc.ValidateResponse($r.SendCommand($1, $cmd)); err != nil"),
    ("dcmi.sessionCommander.GetPowerReading", "&GetPowerReadingCmd{ Req: *$2, }", "$r", "on error: nil, err | &$cmd.Rsp, nil", "if err := bmc.ValidateResponse($r.SendCommand($1, $cmd)); err != nil"),
    ("dcmi.sessionlessCommander.GetDCMICapabilitiesInfoEnhancedSystemPowerStatisticsAttrs", "NewGetDCMICapabilitiesInfoEnhancedSystemPowerStatisticsAttrsCmd()", "$r.Sessionless", "&$cmd.Rsp, bmc.ValidateResponse($r.Sessionless.SendCommand($1, $cmd))", ""),
    ("dcmi.sessionlessCommander.GetDCMICapabilitiesInfoManageabilityAccessAttrs", "NewGetDCMICapabilitiesInfoManageabilityAccessAttrsCmd()", "$r.Sessionless", "&$cmd.Rsp, bmc.ValidateResponse($r.Sessionless.SendCommand($1, $cmd))", ""),
    ("dcmi.sessionlessCommander.GetDCMICapabilitiesInfoMandatoryPlatformAttrs", "NewGetDCMICapabilitiesInfoMandatoryPlatformAttrsCmd()", "$r.Sessionless", "&$cmd.Rsp, bmc.ValidateResponse($r.Sessionless.SendCommand($1, $cmd))", ""),
    ("dcmi.sessionlessCommander.GetDCMICapabilitiesInfoOptionalPlatformAttrs", "NewGetDCMICapabilitiesInfoOptionalPlatformAttrsCmd()", "$r.Sessionless", "&$cmd.Rsp, bmc.ValidateResponse($r.Sessionless.SendCommand($1, $cmd))", ""),
    ("dcmi.sessionlessCommander.GetDCMICapabilitiesInfoSupportedCapabilities", "NewGetDCMICapabilitiesInfoSupportedCapabilitiesCmd()", "$r.Sessionless", "&$cmd.Rsp, bmc.ValidateResponse($r.Sessionless.SendCommand($1, $cmd))", "")] := rfl

/-- the functions that use `SendCommand` in another way (loops, a command built elsewhere): modelled one by one in
    `Proto/SdrWalk.lean`, `Proto/Discovery.lean`, `Proto/Enum.lean`, `Proto/Sensor.lean` -/
theorem api_other_senders : Bmc.Gen.Facts.apiOtherSenders = [
    "bmc.RetrieveSupportedCipherSuites: 1 calls of SendCommand &getChannelCipherSuitesCmd",
    "bmc.linearSensorReader.Read: 1 calls of SendCommand &$r.readingCmd",
    "bmc.walkSDRs: 2 calls of SendCommand ",
    "dcmi.getEntityInstances: sends a command it does not create"] := rfl

/-- the DCMI capability commands are allocated per call with their parameter selector -/
theorem api_cmd_constructors : Bmc.Gen.Facts.apiCmdConstructors = [
    ("dcmi.NewGetDCMICapabilitiesInfoEnhancedSystemPowerStatisticsAttrsCmd", "{ return &GetDCMICapabilitiesInfoEnhancedSystemPowerStatisticsAttrsCmd{ getDCMICapabilitiesInfoCmd: getDCMICapabilitiesInfoCmd{ Parameter: 5, }, } }"),
    ("dcmi.NewGetDCMICapabilitiesInfoManageabilityAccessAttrsCmd", "{ return &GetDCMICapabilitiesInfoManageabilityAccessAttrsCmd{ getDCMICapabilitiesInfoCmd: getDCMICapabilitiesInfoCmd{ Parameter: 4, }, } }"),
    ("dcmi.NewGetDCMICapabilitiesInfoMandatoryPlatformAttrsCmd", "{ return &GetDCMICapabilitiesInfoMandatoryPlatformAttrsCmd{ getDCMICapabilitiesInfoCmd: getDCMICapabilitiesInfoCmd{ Parameter: 2, }, } }"),
    ("dcmi.NewGetDCMICapabilitiesInfoOptionalPlatformAttrsCmd", "{ return &GetDCMICapabilitiesInfoOptionalPlatformAttrsCmd{ getDCMICapabilitiesInfoCmd: getDCMICapabilitiesInfoCmd{ Parameter: 3, }, } }"),
    ("dcmi.NewGetDCMICapabilitiesInfoSupportedCapabilitiesCmd", "{ return &GetDCMICapabilitiesInfoSupportedCapabilitiesCmd{ getDCMICapabilitiesInfoCmd: getDCMICapabilitiesInfoCmd{ Parameter: 1, }, } }")] := rfl

/-- `ValidateResponse`: an error is passed on, a completion code other than Normal (00h) becomes an error, nothing else
    (`Proto.Api.finish` applies exactly this rule) -/
theorem validate_response : Bmc.Gen.Facts.validateResponseBody =
    "{ if err != nil { return err } if c != ipmi.CompletionCodeNormal { return fmt.Errorf(\"received non-normal completion code: %v\", c) } return nil }" := rfl

end Bmc.Proofs.ApiWrappers
