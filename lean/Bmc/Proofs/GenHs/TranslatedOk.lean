import Bmc.Gen.Hs
/-! everything `tools/decgen -hs` translated at delivery is still translated (a function it gives up on is a broken tie) -/
namespace Bmc.Proofs.GenHs
open Bmc

theorem translated_ok : ∀ f ∈ ["bmc.V2Sessionless.openSession", "bmc.V2Sessionless.rakpMessage1", "bmc.V2Sessionless.rakpMessage3",
    "bmc.V2SessionlessTransport.newV2Session"], f ∈ Gen.Hs.translated := by decide

/-- the translator gives up on none of its targets -/
theorem gaveUp_none : Gen.Hs.gaveUp = [] := by decide

end Bmc.Proofs.GenHs
