import Bmc.Proofs.GenHs.NewV2Session
import Bmc.Crypto.Toy
/-! The regenerated `newV2Session` EVALUATED (the definitions of `Gen/Hs.lean` are executable) against a small scripted BMC under
    the lawful toy hash (`Crypto/Toy.lean`: every HMAC is zeros of the digest's length): the hypotheses of
    `newV2Session_gen_eq` hold on non-trivial values, and each of the outcomes it tells apart is reached. The state is the log
    of the requests made: 1 = Open Session, 0 = the draw, 2 = RAKP 1, 3 = RAKP 3. -/
namespace Bmc.Proofs.GenHs
open Bmc Bmc.Crypto Bmc.Proto Bmc.GoOrch Bmc.Gen.Hs Bmc.Lemmas.GenHs Bmc.Lemmas.GenKeys Bmc.Gen.Orch

/-- confirms what is proposed, BMC session ID 287454020 -/
def toyO (s : List Nat) (r : OpenSessionReq) : List Nat × OpenSessionRsp × Bool :=
  (s ++ [1],
   { tag := r.tag
     status := 0
     remoteConsoleSessionID := r.sessionID
     managedSystemSessionID := 287454020
     authenticationPayload := r.authenticationPayload
     integrityPayload := r.integrityPayload
     confidentialityPayload := r.confidentialityPayload }, true)
/-- RAKP 2 with the AuthCode `code` -/
def toyR1 (code : Bytes) (s : List Nat) (_ : RAKPMessage1) : List Nat × RAKPMessage2 × Bool :=
  (s ++ [2], { remoteConsoleSessionID := 1, authCode := code }, true)
/-- RAKP 4 with the integrity check value `icv` -/
def toyR3 (icv : Bytes) (s : List Nat) (_ : RAKPMessage3) : List Nat × RAKPMessage4 × Bool :=
  (s ++ [3], { remoteConsoleSessionID := 1, icv := icv }, true)
def toyRand (s : List Nat) (n : Nat) : List Nat × Option Bytes := (s ++ [0], some (List.replicate n 7))
def toyS (s : List Nat) (_ : GetChannelCipherSuitesReq) : List Nat × GetChannelCipherSuitesRsp × Bool := (s ++ [9], {}, false)

def toyOpts : V2SessionOpts :=
  { sessionOpts := { username := [0x61], password := [1, 2, 3], maxPrivilegeLevel := 4 }, cipherSuites := [ipmi_CipherSuite3] }

def toyRun (code icv : Bytes) : RF (Except String V2Session) × List Nat :=
  bmc_V2SessionlessTransport_newV2Session 64 toyS toyO (toyR1 code) (toyR3 icv) [] (mac toy) toyRand toyOpts []

/-- a session: LocalID = the console session ID 1 the request carried, RemoteID = the BMC's; all four requests, in order -/
theorem toy_session : (toyRun (List.replicate 20 0) (List.replicate 12 0)).2 = [1, 0, 2, 3] ∧
    ∃ v, (toyRun (List.replicate 20 0) (List.replicate 12 0)).1 = .ok (.ok v) ∧ v.localID = 1 ∧ v.remoteID = 287454020 ∧
      v.confidentialityLayer.length = 16 := by
  refine ⟨by decide +kernel, _, rfl, by decide +kernel, by decide +kernel, by decide +kernel⟩

/-- a wrong RAKP 2 AuthCode: `ErrIncorrectPassword`, and RAKP 3 is never sent -/
theorem toy_wrong_code : toyRun (List.replicate 20 1) (List.replicate 12 0) = (.ok (.error "ErrIncorrectPassword"), [1, 0, 2]) := by rfl

/-- a wrong RAKP 4 ICV: another error, after all three exchanges -/
theorem toy_wrong_icv : toyRun (List.replicate 20 0) (List.replicate 12 5) = (.err, [1, 0, 2, 3]) := by rfl

/-- … and what the theorem says about the first run: the hand model's composition over the same answers -/
theorem toy_gen_eq : toyRun (List.replicate 20 0) (List.replicate 12 0)
    = (goOutcome (hsRun toy (viewAnswers toyO (toyR1 (List.replicate 20 0)) (toyR3 (List.replicate 12 0)) toyRand) (optsOf toyOpts ipmi_CipherSuite3) []).1,
        (hsRun toy (viewAnswers toyO (toyR1 (List.replicate 20 0)) (toyR3 (List.replicate 12 0)) toyRand) (optsOf toyOpts ipmi_CipherSuite3) []).2) :=
  newV2Session_gen_eq toy toy_lawful.hmac_len 64 toyS toyO _ _ [] toyRand toyOpts [] [] ipmi_CipherSuite3 (by decide +kernel)

end Bmc.Proofs.GenHs
