import Bmc.Lemmas.GenHsModel
/-! # The hand-written handshake model, re-factored at the level the regenerated code is compared at

`Proofs/GenHs/NewV2Session.lean` proves the regenerated `newV2Session` equal to `hsRun`: the composition of the hand model's three
steps over ABSTRACT answers (what each exchange ended with: a decoded value, an error, a crash), `Lemmas/GenHsModel.lean`.
Here: that composition IS the hand model. Each step of `Proto/Handshake.lean` is the exchange on the reply script, the layer's
decoder, then the step's checks; and `Proto.newSession` on a reply script is `hsRun` over the answers the script induces —
`exchange` on what is left of the script, the hand model's encoders (`OpenSessionReq.encode`, `RAKP1.encode`, `RAKP3.encode`
inside `setupDatagram`) and decoders — result AND the datagrams transmitted. So every theorem of C01 / C02 / C12 about
`newSession` is a theorem about `hsRun` over script answers, and `newV2Session_gen_eq` ties `hsRun` to the current source. -/
namespace Bmc.Proofs.GenHs
open Bmc Bmc.Wire Bmc.Crypto Bmc.Proto Bmc.Lemmas.GenHs

theorem stepOpen_is_checks (o : Opts) (script : List Outcome) :
    stepOpen o script = (decoded (OpenSessionRsp.decodeGo {}) script >>= openChecks o) := stepOpen_eq o script

theorem stepRakp2_is_checks (C : Ops) (o : Opts) (rm : Bytes) (osr : OpenSessionRsp) (script : List Outcome) :
    stepRakp2 C o rm osr script = (decoded (RAKP2.decodeGo true {}) script >>= rakp2Checks C o rm osr) :=
  stepRakp2_eq C o rm osr script

theorem stepRakp4_is_checks (C : Ops) (o : Opts) (rm : Bytes) (osr : OpenSessionRsp) (rk2 : RAKP2) (h : HashAlg) (script : List Outcome) :
    stepRakp4 C o rm osr rk2 h script = (decoded (RAKP4.decodeGo {}) script >>= rakp4Checks C o rm osr rk2 h) :=
  stepRakp4_eq C o rm osr rk2 h script

/-- for every option value, every draw and every reply script -/
theorem newSession_is_hsRun (C : Ops) (o : Opts) (rm : Bytes) (script : List Outcome) :
    newSession C o rm script =
      ((hsRun C (scriptAnswers rm) o (script, [])).2.2, (hsRun C (scriptAnswers rm) o (script, [])).1) :=
  newSession_eq_hsRun C o rm script

/-- e.g. with nothing ever answered the Open Session Request is transmitted as often as the script is long, and that is all -/
example (C : Ops) (o : Opts) (rm : Bytes) :
    (hsRun C (scriptAnswers rm) o ([.lost, .lost], [])).2.2
      = List.replicate 2 (setupDatagram 0x10 (OpenSessionReq.encode 0 o.priv 1 o.auth o.integ o.conf)) := rfl

end Bmc.Proofs.GenHs
