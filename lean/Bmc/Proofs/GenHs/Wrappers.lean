import Bmc.Lemmas.GenHs
/-! # `openSession`, `rakpMessage1`, `rakpMessage3` (v2sessionless.go) as RE-TRANSLATED from the Go source on every run

Each wrapper builds the payload struct around the request it is given, hands it to `buildAndSendPayload` — the PARAMETER
`send` of the regenerated definition: state, request struct ↦ new state, what the response struct holds afterwards, whether
the error is nil — and returns the response struct only if (1) the error is nil, (2) its tag is the REQUEST's tag and (3) its
status is OK; in every case exactly one payload has been handed to `buildAndSendPayload`: the request, unchanged. For EVERY
answer function over any state and every request. (The hand model has these checks inside `stepOpen` / `stepRakp2` /
`stepRakp4`: `Lemmas/GenHsModel.lean: openChecks` …, with the request's tag 0.) -/
namespace Bmc.Proofs.GenHs
open Bmc Bmc.GoOrch Bmc.Gen.Hs

theorem openSession_gen_eq {σ : Type} (send : σ → OpenSessionReq → σ × OpenSessionRsp × Bool) (r : OpenSessionReq) (s : σ) :
    bmc_V2Sessionless_openSession send r s =
      (if (send s r).2.2 = true ∧ (send s r).2.1.tag = r.tag ∧ (send s r).2.1.status = 0 then .ok (send s r).2.1 else .err, (send s r).1) := by
  unfold bmc_V2Sessionless_openSession
  orch_simp
  cases (send s r).2.2 <;> simp only [cond_true, cond_false, cont_ok, cont_err, Bool.false_eq_true, false_and, if_false]
  by_cases ht : (send s r).2.1.tag = r.tag <;> by_cases hs : (send s r).2.1.status = 0 <;> simp [ht, hs]

theorem rakpMessage1_gen_eq {σ : Type} (send : σ → RAKPMessage1 → σ × RAKPMessage2 × Bool) (r : RAKPMessage1) (s : σ) :
    bmc_V2Sessionless_rakpMessage1 send r s =
      (if (send s r).2.2 = true ∧ (send s r).2.1.tag = r.tag ∧ (send s r).2.1.status = 0 then .ok (send s r).2.1 else .err, (send s r).1) := by
  unfold bmc_V2Sessionless_rakpMessage1
  orch_simp
  cases (send s r).2.2 <;> simp only [cond_true, cond_false, cont_ok, cont_err, Bool.false_eq_true, false_and, if_false]
  by_cases ht : (send s r).2.1.tag = r.tag <;> by_cases hs : (send s r).2.1.status = 0 <;> simp [ht, hs]

theorem rakpMessage3_gen_eq {σ : Type} (send : σ → RAKPMessage3 → σ × RAKPMessage4 × Bool) (r : RAKPMessage3) (s : σ) :
    bmc_V2Sessionless_rakpMessage3 send r s =
      (if (send s r).2.2 = true ∧ (send s r).2.1.tag = r.tag ∧ (send s r).2.1.status = 0 then .ok (send s r).2.1 else .err, (send s r).1) := by
  unfold bmc_V2Sessionless_rakpMessage3
  orch_simp
  cases (send s r).2.2 <;> simp only [cond_true, cond_false, cont_ok, cont_err, Bool.false_eq_true, false_and, if_false]
  by_cases ht : (send s r).2.1.tag = r.tag <;> by_cases hs : (send s r).2.1.status = 0 <;> simp [ht, hs]

end Bmc.Proofs.GenHs
