import Bmc.Proofs.GenHs.Wrappers
import Bmc.Proofs.GenKeys.Rakp2
import Bmc.Proofs.GenKeys.Rakp3
import Bmc.Proofs.GenKeys.SIK
import Bmc.Proofs.GenKeys.ICV
import Bmc.Proofs.GenKeys.KConstant
import Bmc.Proofs.GenOrch.DetermineCipherSuite
/-! # `newV2Session` (v2session_new.go) as RE-TRANSLATED from the Go source on every run IS the hand-written handshake model

`Gen.Hs.bmc_V2SessionlessTransport_newV2Session` is emitted by `tools/decgen -hs` from the function as the source stands now,
statement by statement (`Gen/Hs.lean`): `determineCipherSuite` (the regenerated definition of `Gen/Orch.lean`), the three wrappers
(regenerated too: `Proofs/GenHs/Wrappers.lean`) around the PARAMETERS `send_<Payload>` = `buildAndSendPayload`, `rand.Read` as the
parameter `rand_Read`, the key formulas, hash constructors and algorithm tables as the regenerated definitions of `Gen/Keys.lean`
composed with the keyed hash through the parameter `hash_Sum`, instantiated here with `Lemmas/GenKeys.lean: mac C` — the contract
of `hash.Hash` over an abstract `C.hmac` — and `hmac.Equal` as equality.

`newV2Session_gen_eq`: for EVERY option value, every answer function of the four parameters over ANY state (so also answers that
depend on everything asked before) and every abstract keyed hash of the right lengths, once `determineCipherSuite` has proposed
`cs`, the translated function returns — result AND final state — what the hand model's composition `hsRun` of `stepOpen` /
`stepRakp2` / `stepRakp4` (`Lemmas/GenHsModel.lean`; `newSession_eq_hsRun`: that composition over a reply script IS
`Proto.newSession`) returns over the same answers read as the model's decoded `OpenSessionRsp` / `RAKP2` / `RAKP4`
(`Lemmas/GenHs.lean: viewAnswers`, the identification). The final state is the state after the last request made, so the theorem
pins which requests are handed to `buildAndSendPayload`, in which order, and that nothing is asked after a failed check:

* Open Session: tag 0, the caller's privilege level, `SessionID: 1`, the three algorithms of the PROPOSAL, no wildcard; the
  response must carry the request's tag, status OK and exactly the proposed algorithms;
* then the draw of 16 random bytes, then RAKP 1: tag 0, the BMC's session ID of the Open Session Response, the draw, the caller's
  lookup mode, privilege level and user name; the response must carry tag 0 and status OK;
* the RAKP 2 AuthCode is compared BEFORE RAKP 3 is built: a mismatch returns `ErrIncorrectPassword` itself (and only that
  does), with nothing more sent; otherwise RAKP 3: tag 0, status OK, the BMC's session ID, the RAKP 3 AuthCode under the password;
* the SIK under K_G, or the password when K_G is empty; the RAKP 4 ICV check under the SIK (truncated per algorithm);
* the session: LocalID / RemoteID from the Open Session RESPONSE (console / BMC session ID), the confirmed algorithms, the SIK,
  the key-material generator HMAC_SIK, the integrity hasher keyed with K1 (truncation per algorithm), AES key = first 16 bytes of K2;
  integrity algorithms outside {1, 2, 4} and confidentiality algorithms other than 1 are refused.

Trusted: the `hash.Hash` contract (`mac`), `crypto/rand.Read` fills the slice it is given on a nil error, `ipmi.NewAES128CBC` does
not fail on a 16-byte key; pointers are non-nil. Not modelled: the gopacket decoder of the new session, the shared connection and
the timeout (listed in the doc comment of the generated definition). -/
namespace Bmc.Proofs.GenHs
open Bmc Bmc.Crypto Bmc.Proto Bmc.GoOrch Bmc.Gen.Hs Bmc.Lemmas.GenHs Bmc.Lemmas.GenKeys Bmc.Gen.Orch Bmc.Proofs.GenKeys

/-- `newV2Session` as regenerated, after `determineCipherSuite` proposed `cs` in state `s1` -/
theorem newV2Session_gen_eq (C : Ops) (hlen : ∀ a k m, (C.hmac a k m).length = a.size) {σ : Type} (fuel : Nat)
    (sendS : σ → GetChannelCipherSuitesReq → σ × GetChannelCipherSuitesRsp × Bool)
    (sendO : σ → OpenSessionReq → σ × OpenSessionRsp × Bool)
    (sendR1 : σ → RAKPMessage1 → σ × RAKPMessage2 × Bool)
    (sendR3 : σ → RAKPMessage3 → σ × RAKPMessage4 × Bool)
    (tail : Bytes) (rr : σ → Nat → σ × Option Bytes) (opts : V2SessionOpts) (s0 s1 : σ) (cs : Gen.Dec.CipherSuite)
    (hdet : bmc_V2SessionlessTransport_determineCipherSuite fuel sendS tail opts.cipherSuites s0 = (.ok cs, s1)) :
    bmc_V2SessionlessTransport_newV2Session fuel sendS sendO sendR1 sendR3 tail (mac C) rr opts s0
      = (goOutcome (hsRun C (viewAnswers sendO sendR1 sendR3 rr) (optsOf opts cs) s1).1,
          (hsRun C (viewAnswers sendO sendR1 sendR3 rr) (optsOf opts cs) s1).2) := by
  unfold bmc_V2SessionlessTransport_newV2Session hsRun
  orch_simp [hdet, openSession_gen_eq, rakpMessage1_gen_eq, rakpMessage3_gen_eq]
  simp only [viewAnswers]
  generalize ho : optsOf opts cs = o
  -- exchange 1
  obtain ⟨x1, hx1⟩ : ∃ x, x = sendO s1 (goOpenReq ⟨0, o.priv, 1, o.auth, o.integ, o.conf⟩) := ⟨_, rfl⟩
  have hx1' := hx1
  simp only [goOpenReq, ← ho, optsOf_priv, optsOf_auth, optsOf_integ, optsOf_conf, show UInt32.ofNat 1 = 1 from rfl] at hx1'
  rw [← hx1', ← hx1]
  obtain ⟨s2, g1, ok1⟩ := x1
  clear hx1 hx1'
  simp only []
  cases ok1
  · simp [goOutcome, bind, Except.bind]
  by_cases ht : g1.tag = 0
  case neg => simp [goOutcome, bind, Except.bind, openChecks, osrView, ht]
  by_cases hst : g1.status = 0
  case neg => simp [goOutcome, bind, Except.bind, openChecks, osrView, ht, hst]
  by_cases hal : (g1.authenticationPayload.algorithm != cs.authenticationAlgorithm || g1.integrityPayload.algorithm != cs.integrityAlgorithm || g1.confidentialityPayload.algorithm != cs.confidentialityAlgorithm) = true
  · simp only [ht, hst, and_self, if_true, hal, bind, Except.bind, openChecks, ← ho, osrView_tag, osrView_status, osrView_auth, osrView_integ, osrView_conf,
      optsOf_auth, optsOf_integ, optsOf_conf, bne_self_eq_false, Bool.false_eq_true, if_false, goOutcome]
  have hoc : openChecks o (osrView g1) = .ok (osrView g1) := by
    simp only [openChecks, ← ho, osrView_tag, osrView_status, osrView_auth, osrView_integ, osrView_conf,
      optsOf_auth, optsOf_integ, optsOf_conf, ht, hst, bne_self_eq_false, Bool.false_eq_true, if_false, hal]
  simp only [ht, hst, and_self, if_true, hal, bind, Except.bind, hoc, Bool.false_eq_true, if_false]
  -- the draw
  simp only [GoHs.randRead_apply, List.length_replicate]
  generalize rr s2 16 = x0
  obtain ⟨s3, d⟩ := x0
  cases d
  · simp [goOutcome]
  rename_i d
  simp only [cont_ok, Option.map_some, mbind_apply, rakpMessage1_gen_eq]
  generalize hrm : GoKeys.copyArr 16 (List.replicate 16 0) d = rm
  -- exchange 2
  obtain ⟨x2, hx2⟩ : ∃ x, x = sendR1 s3 (goRakp1 ⟨0, (osrView g1).bmcSessionID, rm, o.lookup, o.priv, o.user⟩) := ⟨_, rfl⟩
  have hx2' := hx2
  simp only [goRakp1, ← ho, optsOf_priv, optsOf_lookup, optsOf_user, osrView_bmc, UInt32.ofNat_toNat] at hx2'
  rw [← hx2', ← hx2]
  obtain ⟨s4, g2, ok2⟩ := x2
  clear hx2 hx2'
  simp only []
  cases ok2
  · simp [goOutcome]
  by_cases ht2 : g2.tag = 0
  case neg => simp [goOutcome, rakp2Checks, rk2View_tag, ht2]
  by_cases hst2 : g2.status = 0
  case neg => simp [goOutcome, rakp2Checks, rk2View_tag, rk2View_status, ht2, hst2]
  simp only [ht2, hst2, and_self, if_true, cont_ok, mbind_apply, rakp2Checks, rk2View_tag, rk2View_status, bne_self_eq_false, Bool.false_eq_true, if_false, osrView_auth]
  cases hah : authHash g1.authenticationPayload.algorithm with
  | none => simp [table_none _ hah, goOutcome]
  | some h =>
    obtain ⟨p, hp, hph, hpi, hpf⟩ := table_some _ h hah
    have k2 := calculateRAKPMessage2AuthCode_input_eq C h o rm (osrView g1) (rk2View g2) _ _ (keys1_is o rm g1 0) (keys2_is g2)
    have k3 := calculateRAKPMessage3AuthCode_input_eq C h o rm (osrView g1) (rk2View g2) _ _ (keys1_is o rm g1 0) (keys2_is g2)
    simp only [keys1, keys2, goRakp1, ← ho, optsOf_priv, optsOf_lookup, optsOf_user, optsOf_pass, osrView_bmc, UInt32.ofNat_toNat] at k2 k3
    simp only [ho] at k2 k3
    simp only [hp, GoHs.optErr_some, cont_ok, mbind_apply, GoHs.sum_apply, mac_AuthCode, hph, ← k2, rk2View_authCode]
    by_cases hc2 : g2.authCode = rakp2Code C h o rm (osrView g1) (rk2View g2)
    case neg =>
      have e1 : (g2.authCode == rakp2Code C h o rm (osrView g1) (rk2View g2)) = false := by simpa using hc2
      have e2 : (g2.authCode != rakp2Code C h o rm (osrView g1) (rk2View g2)) = true := by simpa using hc2
      simp only [e1, e2, Bool.not_false, if_true, goOutcome, pure_apply]
    have e1 : (g2.authCode == rakp2Code C h o rm (osrView g1) (rk2View g2)) = true := by simpa using hc2
    have e2 : (g2.authCode != rakp2Code C h o rm (osrView g1) (rk2View g2)) = false := by simpa using hc2
    simp only [e1, e2, Bool.not_true, Bool.false_eq_true, if_false, mbind_apply, GoHs.sum_apply, mac_AuthCode, hph, ← k3, cont_ok, rakpMessage3_gen_eq]
    -- exchange 3
    obtain ⟨x3, hx3⟩ : ∃ x, x = sendR3 s4 (goRakp3 ⟨0, (osrView g1).bmcSessionID, rakp3Code C h o (rk2View g2)⟩) := ⟨_, rfl⟩
    have hx3' := hx3
    simp only [goRakp3, osrView_bmc, UInt32.ofNat_toNat] at hx3'
    rw [← hx3', ← hx3]
    obtain ⟨s5, g4, ok4⟩ := x3
    clear hx3 hx3'
    simp only []
    cases ok4
    · simp [goOutcome]
    by_cases ht4 : g4.tag = 0
    case neg => simp [goOutcome, rakp4Checks, rk4View_tag, ht4]
    by_cases hst4 : g4.status = 0
    case neg => simp [goOutcome, rakp4Checks, rk4View_tag, rk4View_status, ht4, hst4]
    simp only [ht4, hst4, and_self, if_true, cont_ok, mbind_apply, rakp4Checks, rk4View_tag, rk4View_status, bne_self_eq_false, Bool.false_eq_true, if_false]
    have ks := calculateSIK_input_eq C h o rm (osrView g1) (rk2View g2) _ _ (keys1_is o rm g1 0) (keys2_is g2)
    obtain ⟨p', hp', ki⟩ := calculateRAKPMessage4ICV_mac C h _ hah (hlen h) (sikOf C h o rm (rk2View g2)) o rm (osrView g1) (rk2View g2) _ _
      (keys1_is o rm g1 0) (keys2_is g2)
    have hpp : p' = p := by rw [hp] at hp'; injection hp' with hp'; exact hp'.symm
    subst hpp
    simp only [keys1, keys2, goRakp1, ← ho, optsOf_priv, optsOf_lookup, optsOf_user, optsOf_pass, optsOf_kg, osrView_bmc, UInt32.ofNat_toNat] at ks ki
    simp only [ho] at ks ki
    simp only [len0_isEmpty, ite_pure, pure_apply, cont_ok, mbind_apply, GoHs.sum_apply, mac_SIK, hph, ← ks, ki, rk4View_icv, osrView_auth]
    by_cases hc4 : g4.icv = icvOf C h g1.authenticationPayload.algorithm (sikOf C h o rm (rk2View g2)) rm (osrView g1) (rk2View g2)
    case neg =>
      have e1 : (g4.icv == icvOf C h g1.authenticationPayload.algorithm (sikOf C h o rm (rk2View g2)) rm (osrView g1) (rk2View g2)) = false := by simpa using hc4
      have e2 : (g4.icv != icvOf C h g1.authenticationPayload.algorithm (sikOf C h o rm (rk2View g2)) rm (osrView g1) (rk2View g2)) = true := by simpa using hc4
      simp only [e1, e2, Bool.not_false, if_true, goOutcome, fail_apply]
    have e1 : (g4.icv == icvOf C h g1.authenticationPayload.algorithm (sikOf C h o rm (rk2View g2)) rm (osrView g1) (rk2View g2)) = true := by simpa using hc4
    have e2 : (g4.icv != icvOf C h g1.authenticationPayload.algorithm (sikOf C h o rm (rk2View g2)) rm (osrView g1) (rk2View g2)) = false := by simpa using hc4
    simp only [e1, e2, Bool.not_true, Bool.false_eq_true, if_false, mbind_apply, kOf_mac, hph, osrView_integ, osrView_conf]
    generalize sikOf C h o rm (rk2View g2) = sik
    simp only [hasher_table, cipher_table]
    by_cases hi : (g1.integrityPayload.algorithm == 1 || g1.integrityPayload.algorithm == 2 || g1.integrityPayload.algorithm == 4) = true
    case neg => simp [hi, goOutcome]
    by_cases hcf : (g1.confidentialityPayload.algorithm != 1) = true
    · simp [hi, hcf, goOutcome, mbind_apply]
    simp only [hi, hcf, if_true, if_false, Bool.not_true, Bool.false_eq_true, GoHs.optErr_some, cont_ok, mbind_apply, pure_apply, goOutcome]
    have hk1 : Gen.Keys.K_input 1 = List.replicate 20 1 := by rw [K_input_eq]; rfl
    have hk2 : Gen.Keys.K_input 2 = List.replicate 20 2 := by rw [K_input_eq]; rfl
    have h16 : 16 ≤ (C.hmac h sik (List.replicate 20 2)).length := by rw [hlen]; cases h <;> decide
    simp only [hk1, hk2, copyArr_full _ _ _ h16, sessionOf, osrView_console, osrView_bmc, UInt32.ofNat_toNat,
      Gen.Keys.authenticationAlgorithmParams_K, hpf]

/-- no proposal, no session: when `determineCipherSuite` does not return a suite, `newV2Session` returns its outcome in the
    state it left — no Open Session Request is made (for every hash contract `hs`) -/
theorem newV2Session_no_suite {σ : Type} (fuel : Nat)
    (sendS : σ → GetChannelCipherSuitesReq → σ × GetChannelCipherSuitesRsp × Bool)
    (sendO : σ → OpenSessionReq → σ × OpenSessionRsp × Bool)
    (sendR1 : σ → RAKPMessage1 → σ × RAKPMessage2 × Bool)
    (sendR3 : σ → RAKPMessage3 → σ × RAKPMessage4 × Bool)
    (tail : Bytes) (hs : Gen.Keys.HashVal → Bytes → Option Bytes) (rr : σ → Nat → σ × Option Bytes) (opts : V2SessionOpts) (s0 s1 : σ)
    (r : RF Gen.Dec.CipherSuite) (hr : ∀ cs, r ≠ .ok cs)
    (hdet : bmc_V2SessionlessTransport_determineCipherSuite fuel sendS tail opts.cipherSuites s0 = (r, s1)) :
    bmc_V2SessionlessTransport_newV2Session fuel sendS sendO sendR1 sendR3 tail hs rr opts s0 = (castBad r, s1) := by
  unfold bmc_V2SessionlessTransport_newV2Session
  orch_simp [hdet]
  cases r with
  | ok cs => exact absurd rfl (hr cs)
  | _ => rfl

/-- under the `hash.Hash` contract with an HMAC of the digest's length, `newV2Session` NEVER PANICS and never runs out
    of fuel (fuel ≥ 64: `determineCipherSuite_fuel_any`), whatever the BMC answers: no `Sum` of a hash it builds reaches beyond
    the MAC (`truncatedHash` 12 ≤ 20, 16 ≤ 32), and `g.K(n)` of the key-material generator has a value (`GoHs.kOf`) -/
theorem newV2Session_total (C : Ops) (hlen : ∀ a k m, (C.hmac a k m).length = a.size) {σ : Type} (fuel : Nat) (hf : 64 ≤ fuel)
    (sendS : σ → GetChannelCipherSuitesReq → σ × GetChannelCipherSuitesRsp × Bool)
    (sendO : σ → OpenSessionReq → σ × OpenSessionRsp × Bool)
    (sendR1 : σ → RAKPMessage1 → σ × RAKPMessage2 × Bool)
    (sendR3 : σ → RAKPMessage3 → σ × RAKPMessage4 × Bool)
    (tail : Bytes) (rr : σ → Nat → σ × Option Bytes) (opts : V2SessionOpts) (s0 : σ) :
    (bmc_V2SessionlessTransport_newV2Session fuel sendS sendO sendR1 sendR3 tail (mac C) rr opts s0).1 ≠ .outOfFuel ∧
    ((bmc_V2SessionlessTransport_determineCipherSuite fuel sendS tail opts.cipherSuites s0).1 ≠ .panic →
      (bmc_V2SessionlessTransport_newV2Session fuel sendS sendO sendR1 sendR3 tail (mac C) rr opts s0).1 ≠ .panic) := by
  have hfu := Bmc.Proofs.GenOrch.determineCipherSuite_fuel_any sendS fuel hf tail opts.cipherSuites s0
  cases hd : bmc_V2SessionlessTransport_determineCipherSuite fuel sendS tail opts.cipherSuites s0 with
  | mk r s1 =>
    rw [hd] at hfu
    cases r with
    | ok cs =>
      rw [newV2Session_gen_eq C hlen fuel sendS sendO sendR1 sendR3 tail rr opts s0 s1 cs hd]
      obtain ⟨h1, h2, h3⟩ := viewAnswers_not_crashed sendO sendR1 sendR3 rr
      have hnc := Lemmas.GenHs.hsRun_not_crashed C (viewAnswers sendO sendR1 sendR3 rr) (optsOf opts cs) s1 h1 h2 h3
      generalize (hsRun C (viewAnswers sendO sendR1 sendR3 rr) (optsOf opts cs) s1).1 = res at hnc
      cases res <;> simp_all [goOutcome]
    | err => rw [newV2Session_no_suite fuel sendS sendO sendR1 sendR3 tail _ rr opts s0 s1 _ (by intro cs h; cases h) hd]; simp
    | panic => rw [newV2Session_no_suite fuel sendS sendO sendR1 sendR3 tail _ rr opts s0 s1 _ (by intro cs h; cases h) hd]; simp
    | overread => rw [newV2Session_no_suite fuel sendS sendO sendR1 sendR3 tail _ rr opts s0 s1 _ (by intro cs h; cases h) hd]; simp
    | outOfFuel => exact absurd rfl hfu

/-- the hypothesis of `newV2Session_gen_eq` is satisfiable: a caller that gives exactly one cipher suite gets it proposed without
    any discovery (for every answer function) -/
example (C : Ops) (hlen : ∀ a k m, (C.hmac a k m).length = a.size) {σ : Type} (fuel : Nat)
    (sendS : σ → GetChannelCipherSuitesReq → σ × GetChannelCipherSuitesRsp × Bool)
    (sendO : σ → OpenSessionReq → σ × OpenSessionRsp × Bool)
    (sendR1 : σ → RAKPMessage1 → σ × RAKPMessage2 × Bool)
    (sendR3 : σ → RAKPMessage3 → σ × RAKPMessage4 × Bool)
    (tail : Bytes) (rr : σ → Nat → σ × Option Bytes) (opts : V2SessionOpts) (s0 : σ) (cs : Gen.Dec.CipherSuite)
    (h1 : opts.cipherSuites = [cs]) :
    bmc_V2SessionlessTransport_newV2Session fuel sendS sendO sendR1 sendR3 tail (mac C) rr opts s0
      = (goOutcome (hsRun C (viewAnswers sendO sendR1 sendR3 rr) (optsOf opts cs) s0).1,
          (hsRun C (viewAnswers sendO sendR1 sendR3 rr) (optsOf opts cs) s0).2) :=
  newV2Session_gen_eq C hlen fuel sendS sendO sendR1 sendR3 tail rr opts s0 s0 cs
    (by rw [h1]; simp [bmc_V2SessionlessTransport_determineCipherSuite, listIdx])

/-- the `Keys.` views handed to the key formulas do not contain the slices of the decoded RAKP 2 (`AuthCode` points into the
    receive buffer; the translator refuses a read of it after a later exchange): whatever it holds, the view is the same -/
theorem keys_view_ignores_authCode (m : RAKPMessage2) (a : Bytes) : keys2 { m with authCode := a } = keys2 m := rfl

end Bmc.Proofs.GenHs
