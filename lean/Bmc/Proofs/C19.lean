import Bmc.Proto.Isolation
import Bmc.Gen.Facts
/-! # C19 — independent connections can be used concurrently without interference (property theorems only; PARTIAL)

Proved: IF every step of a connection reads and writes only that connection's own state (plus read-only shared
tables), THEN under every interleaving each connection's outputs and final state are those of its solo run. The
premise is tied to the source by the regenerated fact that no function of the module (outside `init` and the
registration function documented as not concurrency-safe) assigns a package-level variable. NOT exhibited by the model:
the Go memory model and scheduler — that is what the `conc` scenario runs under the race detector. -/
namespace Bmc.Proofs.C19
open Bmc.Proto.Isolation

/-- ISOLATION: for every schedule, every connection's results and final state equal those of running its own
    operations alone -/
theorem isolation {σ op out : Type} (S : System σ op out) (st : Nat → σ) (sched : List (Nat × op)) (i : Nat) :
    project i (interleaved S st sched).2 = (solo S (st i) (project i sched)).2 ∧
    (interleaved S st sched).1 i = (solo S (st i) (project i sched)).1 := by
  induction sched generalizing st with
  | nil => simp [interleaved, solo, project]
  | cons x rest ih =>
    obtain ⟨j, o⟩ := x
    simp only [interleaved]
    by_cases hji : j = i
    · subst hji
      have := ih (fun k => if k = j then (S.step (st j) o).1 else st k)
      simp only [if_true] at this
      simp [project, solo] at this ⊢
      exact this
    · have hne : (j == i) = false := by simpa using hji
      have := ih (fun k => if k = j then (S.step (st j) o).1 else st k)
      have hi : (if i = j then (S.step (st j) o).1 else st i) = st i := by
        split
        · rename_i h; exact absurd h.symm hji
        · rfl
      rw [hi] at this
      simp [project, hne] at this ⊢
      exact this

/-- TIE to the source: the only function that writes a package-level variable outside `init` is the registration of
    OEM payload descriptors, which the library documents as not safe for concurrent use -/
theorem no_shared_writes : Bmc.Gen.Facts.globalWriters = ["ipmi.RegisterOEMPayloadDescriptor"] := by decide

example : project 1 (interleaved ⟨fun (s : Nat) (o : Nat) => (s + o, s)⟩ (fun _ => 0) [(1, 5), (2, 7), (1, 1), (2, 2)]).2 = [0, 5] := by
  decide

end Bmc.Proofs.C19
