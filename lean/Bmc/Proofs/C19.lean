import Bmc.Proto.Isolation
import Bmc.Gen.Facts
/-! # C19 — independent connections can be used concurrently without interference (property theorems only; PARTIAL)

Proved: IF every step of a connection reads and writes only that connection's own state (plus read-only shared
tables), THEN under every interleaving each connection's outputs and final state are those of its solo run. The
premise is tied to the source by the regenerated fact that no function of the module (outside `init` and the
registration function documented as not concurrency-safe) assigns a package-level variable. NOT exhibited by the model:
the Go memory model and scheduler — that is what the `conc` scenario runs under the race detector. -/
namespace Bmc.Proofs.C19
open Bmc.Proto.Isolation

/-- ISOLATION: for every schedule, every connection's results and final state equal those of running its own
    operations alone -/
theorem isolation {σ op out : Type} (S : System σ op out) (st : Nat → σ) (sched : List (Nat × op)) (i : Nat) :
    project i (interleaved S st sched).2 = (solo S (st i) (project i sched)).2 ∧
    (interleaved S st sched).1 i = (solo S (st i) (project i sched)).1 := by
  induction sched generalizing st with
  | nil => simp [interleaved, solo, project]
  | cons x rest ih =>
    obtain ⟨j, o⟩ := x
    simp only [interleaved]
    by_cases hji : j = i
    · subst hji
      have := ih (fun k => if k = j then (S.step (st j) o).1 else st k)
      simp only [if_true] at this
      simp [project, solo] at this ⊢
      exact this
    · have hne : (j == i) = false := by simpa using hji
      have := ih (fun k => if k = j then (S.step (st j) o).1 else st k)
      have hi : (if i = j then (S.step (st j) o).1 else st i) = st i := by
        split
        · rename_i h; exact absurd h.symm hji
        · rfl
      rw [hi] at this
      simp [project, hne] at this ⊢
      exact this

/-- TIE to the source: the only function that writes a package-level variable outside `init` is the registration of
    OEM payload descriptors, which the library documents as not safe for concurrent use -/
theorem no_shared_writes : Bmc.Gen.Facts.globalWriters = ["ipmi.RegisterOEMPayloadDescriptor"] := by decide

/-- TIE to the source, second part — the INVENTORY of package-level variables that could carry state from one connection
    to another (slices, maps, pointers, channels, functions, interfaces, and structs containing them or a `sync` /
    `atomic` field): exactly these read-only lookup tables plus the default cipher-suite preference list, none of which
    any function assigns (`no_shared_writes`). A pool, cache, memo map or scratch buffer added at package level — however
    it is synchronised — changes this list and breaks the obligation; whether it then makes connections interfere is what
    the `conc` runs (each workload compared with a run alone in a fresh process) search for. -/
theorem shared_state_inventory : Bmc.Gen.Facts.sharedStateVars =
    ["bmc.defaultCipherSuites : []pkg/ipmi.CipherSuite",
     "dcmi.dcmiSensorEntityIDs : []pkg/ipmi.EntityID",
     "dcmi.ipmiSensorEntityIDs : []pkg/ipmi.EntityID",
     "iana.enterpriseOrganisations : map[pkg/iana.Enterprise]string",
     "ipmi.analogDataFormatDescriptions : map[pkg/ipmi.AnalogDataFormat]string",
     "ipmi.analogDataFormatParsers : map[pkg/ipmi.AnalogDataFormat]pkg/ipmi.AnalogDataFormatParser",
     "ipmi.completionCodeDescriptions : map[pkg/ipmi.CompletionCode]string",
     "ipmi.entityIdDescriptions : map[pkg/ipmi.EntityID]string",
     "ipmi.linearisationDescriptions : map[pkg/ipmi.Linearisation]string",
     "ipmi.linearisationLinearisers : map[pkg/ipmi.Linearisation]pkg/ipmi.Lineariser",
     "ipmi.operationLayerTypes : map[pkg/ipmi.Operation]github.com/google/gopacket.LayerType",
     "ipmi.outputTypeDescriptions : map[pkg/ipmi.OutputType]string",
     "ipmi.payloadLayerTypes : map[pkg/ipmi.PayloadDescriptor]github.com/google/gopacket.LayerType",
     "ipmi.payloadTypeDescriptions : map[pkg/ipmi.PayloadType]string",
     "ipmi.rateUnitDurations : map[pkg/ipmi.RateUnit]time.Duration",
     "ipmi.recordTypeDescriptions : map[pkg/ipmi.RecordType]string",
     "ipmi.recordTypeLayerTypes : map[pkg/ipmi.RecordType]github.com/google/gopacket.LayerType",
     "ipmi.sensorDirectionDescriptions : map[pkg/ipmi.SensorDirection]string",
     "ipmi.sensorTypeDescriptions : map[pkg/ipmi.SensorType]string",
     "ipmi.sensorUnitSymbols : map[pkg/ipmi.SensorUnit]string",
     "ipmi.statusCodeDescriptions : map[pkg/ipmi.StatusCode]string",
     "ipmi.stringEncodingDecoders : map[pkg/ipmi.StringEncoding]pkg/ipmi.StringDecoder",
     "ipmi.stringEncodingDescriptions : map[pkg/ipmi.StringEncoding]string"] := by decide

example : project 1 (interleaved ⟨fun (s : Nat) (o : Nat) => (s + o, s)⟩ (fun _ => 0) [(1, 5), (2, 7), (1, 1), (2, 2)]).2 = [0, 5] := by
  decide

end Bmc.Proofs.C19
