import Bmc.Proto.Metrics
import Bmc.Gen.Facts
import Bmc.Lemmas.MetricsWire
import Bmc.Proofs.C05.Core
/-! # C18 — exported metrics account exactly for what happened (property theorems only)

For EVERY history of dials, session opens/closes and commands (each with any sequence of per-attempt outcomes):
the counters of the instrumentation model equal the quantities counted directly from the history. -/
namespace Bmc.Proofs.C18
open Bmc.Proto.Metrics

/-- what a history contains, counted directly -/
def calls (name : String) : List Ev → Nat
  | [] => 0
  | .cmd n _ _ _ :: rest => (if n = name then 1 else 0) + calls name rest
  | .closeSess _ :: rest => (if "Close Session" = name then 1 else 0) + calls name rest
  | _ :: rest => calls name rest

def failedCalls (name : String) : List Ev → Nat
  | [] => 0
  | .cmd n s b atts :: rest => (if n = name ∧ ¬(succeeds s atts = true ∧ b = true) then 1 else 0) + failedCalls name rest
  | .closeSess atts :: rest => (if "Close Session" = name ∧ ¬(succeeds true atts = true) then 1 else 0) + failedCalls name rest
  | _ :: rest => failedCalls name rest

def extraTransmissions : List Ev → Nat
  | [] => 0
  | .cmd _ s _ atts :: rest => (closureRuns s atts - 1) + extraTransmissions rest
  | .closeSess atts :: rest => (closureRuns true atts - 1) + extraTransmissions rest
  | _ :: rest => extraTransmissions rest

def responsesIn (c : Nat) : List Ev → Nat
  | [] => 0
  | .cmd _ s _ atts :: rest => responsesOf s c atts + responsesIn c rest
  | .closeSess atts :: rest => responsesOf true c atts + responsesIn c rest
  | _ :: rest => responsesIn c rest

def count (p : Ev → Bool) : List Ev → Nat
  | [] => 0
  | e :: rest => (if p e then 1 else 0) + count p rest

def isOpen : Ev → Bool | .openOk | .openFail => true | _ => false
def isOpenFail : Ev → Bool | .openFail => true | _ => false
def isOpenOk : Ev → Bool | .openOk => true | _ => false
def isCloseSess : Ev → Bool | .closeSess _ => true | _ => false
def isDial : Ev → Bool | .dialOk | .dialFail => true | _ => false
def isDialFail : Ev → Bool | .dialFail => true | _ => false
def isDialOk : Ev → Bool | .dialOk => true | _ => false
def isCloseConn : Ev → Bool | .closeConn => true | _ => false

-- per-call laws --------------------------------------------------------------------------------------------------------
theorem cnt_bump {κ : Type} [DecidableEq κ] (k k' : κ) (l : List (κ × Nat)) :
    cnt k' (bump k l) = cnt k' l + (if k = k' then 1 else 0) := by
  induction l with
  | nil => simp [bump, cnt]
  | cons x rest ih =>
    obtain ⟨a, n⟩ := x
    simp only [bump]
    split
    · rename_i h; subst h
      simp only [cnt]
      split <;> simp_all
    · rename_i h
      simp only [cnt]
      split
      · rename_i h2; subst h2; simp [h]; exact fun e => h e.symm
      · exact ih

theorem loop_laws (s : Bool) (m : M) (first : Bool) (atts : List Att) :
    (loop s m first atts).1.retries = m.retries + (closureRuns s atts - (if first then 1 else 0)) ∧
    (loop s m first atts).2 = succeeds s atts ∧
    (∀ c, cnt c (loop s m first atts).1.responses = cnt c m.responses + responsesOf s c atts) ∧
    (loop s m first atts).1.cmdAttempts = m.cmdAttempts ∧ (loop s m first atts).1.cmdFailures = m.cmdFailures ∧
    (loop s m first atts).1.connAttempts = m.connAttempts ∧ (loop s m first atts).1.connFailures = m.connFailures ∧
    (loop s m first atts).1.connOpen = m.connOpen ∧ (loop s m first atts).1.sessAttempts = m.sessAttempts ∧
    (loop s m first atts).1.sessFailures = m.sessFailures ∧ (loop s m first atts).1.sessOpen = m.sessOpen := by
  induction atts generalizing m first with
  | nil => cases first <;> simp [loop, closureRuns, succeeds, responsesOf]
  | cons a rest ih =>
    cases a with
    | final c =>
      cases first <;> simp [loop, closureRuns, succeeds, responsesOf, cnt_bump] <;> (intro c'; split <;> simp_all)
    | temp c =>
      simp only [loop, closureRuns, succeeds, responsesOf]
      obtain ⟨h1, h2, h3, h4⟩ := ih { m with retries := if first then m.retries else m.retries + 1, responses := bump c m.responses } false
      refine ⟨?_, h2, ?_, h4⟩
      · rw [h1]; cases first <;> simp <;> omega
      · intro c'; rw [h3 c', cnt_bump]; split <;> simp_all <;> omega
    | junk =>
      simp only [loop, closureRuns, succeeds, responsesOf]
      obtain ⟨h1, h2, h3, h4⟩ := ih { m with retries := if first then m.retries else m.retries + 1 } false
      refine ⟨?_, h2, h3, h4⟩
      rw [h1]; cases first <;> simp <;> omega
    | lost =>
      cases s with
      | true => cases first <;> simp [loop, closureRuns, succeeds, responsesOf]
      | false =>
        simp only [loop, closureRuns, succeeds, responsesOf, Bool.false_eq_true, if_false]
        obtain ⟨h1, h2, h3, h4⟩ := ih { m with retries := if first then m.retries else m.retries + 1 } false
        refine ⟨?_, h2, h3, h4⟩
        rw [h1]; cases first <;> simp <;> omega
    | cancelled => cases first <;> simp [loop, closureRuns, succeeds, responsesOf]

theorem command_laws (m : M) (name : String) (s b : Bool) (atts : List Att) :
    (∀ n, cnt n (command m name s b atts).cmdAttempts = cnt n m.cmdAttempts + (if name = n then 1 else 0)) ∧
    (∀ n, cnt n (command m name s b atts).cmdFailures
        = cnt n m.cmdFailures + (if name = n ∧ ¬(succeeds s atts = true ∧ b = true) then 1 else 0)) ∧
    (command m name s b atts).retries = m.retries + (closureRuns s atts - 1) ∧
    (∀ c, cnt c (command m name s b atts).responses = cnt c m.responses + responsesOf s c atts) ∧
    (command m name s b atts).connAttempts = m.connAttempts ∧ (command m name s b atts).connFailures = m.connFailures ∧
    (command m name s b atts).connOpen = m.connOpen ∧ (command m name s b atts).sessAttempts = m.sessAttempts ∧
    (command m name s b atts).sessFailures = m.sessFailures ∧ (command m name s b atts).sessOpen = m.sessOpen := by
  unfold command
  obtain ⟨h1, h2, h3, h4, h5, h6, h7, h8, h9, h10, h11⟩ := loop_laws s { m with cmdAttempts := bump name m.cmdAttempts } true atts
  simp only [] at h1 h2 h3 h4 h5 h6 h7 h8 h9 h10 h11 ⊢
  rw [h2]
  by_cases hok : (succeeds s atts && b) = true
  · have hb : succeeds s atts = true ∧ b = true := by simpa using hok
    rw [if_pos hok]
    refine ⟨fun n => by rw [h4, cnt_bump], fun n => by rw [h5]; simp [hb], by have := h1; simp at this; omega, h3, h6, h7, h8, h9, h10, h11⟩
  · have hb : ¬(succeeds s atts = true ∧ b = true) := by simpa using hok
    rw [if_neg hok]
    refine ⟨fun n => by simp only [h4, cnt_bump], fun n => by simp only [cnt_bump, h5, hb, not_false_eq_true, and_true],
      by have := h1; simp at this; simp only []; omega, h3, h6, h7, h8, h9, h10, h11⟩

def runFrom (m : M) (h : List Ev) : M := h.foldl step m

/-- CONSERVATION: for every history, from any starting values, every exported counter changes by exactly what
    happened: command attempts = calls made, per name; command failures = calls that returned an error; retries =
    datagrams handed to the transport beyond the first of each call; responses per completion code = valid responses
    received; session / connection open attempts and failures = opens tried and failed; the two gauges = opens minus
    closes -/
theorem conservation (m : M) (h : List Ev) :
    (∀ n, cnt n (runFrom m h).cmdAttempts = cnt n m.cmdAttempts + calls n h) ∧
    (∀ n, cnt n (runFrom m h).cmdFailures = cnt n m.cmdFailures + failedCalls n h) ∧
    (runFrom m h).retries = m.retries + extraTransmissions h ∧
    (∀ c, cnt c (runFrom m h).responses = cnt c m.responses + responsesIn c h) ∧
    (runFrom m h).sessAttempts = m.sessAttempts + count isOpen h ∧
    (runFrom m h).sessFailures = m.sessFailures + count isOpenFail h ∧
    (runFrom m h).sessOpen = m.sessOpen + count isOpenOk h
        - count isCloseSess h ∧
    (runFrom m h).connAttempts = m.connAttempts + count isDial h ∧
    (runFrom m h).connFailures = m.connFailures + count isDialFail h ∧
    (runFrom m h).connOpen = m.connOpen + count isDialOk h
        - count isCloseConn h := by
  induction h generalizing m with
  | nil => simp [runFrom, calls, failedCalls, extraTransmissions, responsesIn, count]
  | cons e rest ih =>
    have hstep := ih (step m e)
    simp only [runFrom, List.foldl_cons] at hstep ⊢
    obtain ⟨a1, a2, a3, a4, a5, a6, a7, a8, a9, a10⟩ := hstep
    cases e with
    | dialOk | dialFail | closeConn | openOk | openFail =>
      simp only [step] at a1 a2 a3 a4 a5 a6 a7 a8 a9 a10 ⊢
      simp only [calls, failedCalls, extraTransmissions, responsesIn, count, isOpen, isOpenFail, isOpenOk, isCloseSess, isDial, isDialFail, isDialOk, isCloseConn] at *
      refine ⟨a1, a2, a3, a4, ?_, ?_, ?_, ?_, ?_, ?_⟩ <;> simp_all <;> omega
    | closeSess atts =>
      obtain ⟨c1, c2, c3, c4, c5, c6, c7, c8, c9, c10⟩ := command_laws m "Close Session" true true atts
      simp only [step] at a1 a2 a3 a4 a5 a6 a7 a8 a9 a10 ⊢
      simp only [calls, failedCalls, extraTransmissions, responsesIn, count, isOpen, isOpenFail, isOpenOk, isCloseSess, isDial, isDialFail, isDialOk, isCloseConn] at *
      refine ⟨fun n => by rw [a1, c1]; omega, fun n => by rw [a2, c2]; simp; omega, by rw [a3, c3]; omega,
        fun c => by rw [a4, c4]; omega, ?_, ?_, ?_, ?_, ?_, ?_⟩ <;> simp_all <;> omega
    | cmd name s b atts =>
      obtain ⟨c1, c2, c3, c4, c5, c6, c7, c8, c9, c10⟩ := command_laws m name s b atts
      simp only [step] at a1 a2 a3 a4 a5 a6 a7 a8 a9 a10 ⊢
      simp only [calls, failedCalls, extraTransmissions, responsesIn, count, isOpen, isOpenFail, isOpenOk, isCloseSess, isDial, isDialFail, isDialOk, isCloseConn] at *
      refine ⟨fun n => by rw [a1, c1]; omega, fun n => by rw [a2, c2]; omega, by rw [a3, c3]; omega,
        fun c => by rw [a4, c4]; omega, ?_, ?_, ?_, ?_, ?_, ?_⟩ <;> simp_all

/-- matched opens and closes leave the gauges where they were: no history makes them drift -/
theorem gauges_do_not_drift (m : M) (h : List Ev)
    (hs : count isOpenOk h = count isCloseSess h)
    (hc : count isDialOk h = count isCloseConn h) :
    (runFrom m h).sessOpen = m.sessOpen ∧ (runFrom m h).connOpen = m.connOpen := by
  obtain ⟨_, _, _, _, _, _, a7, _, _, a10⟩ := conservation m h
  rw [a7, a10, hs, hc]; omega

-- tie to the byte-level loop ------------------------------------------------------------------------------------------
open Bmc Bmc.Wire Bmc.Crypto Bmc.Proto in
/-- WIRE ACCOUNTING: the abstract per-attempt outcomes the theorems above quantify over are a function `attOf` of the
    session keys, the command and the BYTES of each reply; with it, for every in-session command and every reply script
    (any bytes, any length) under any lawful cipher: the retry counter grows by the number of datagrams the byte-level
    loop model transmits beyond the first (plus the one closure run that notices the expired context when the script
    runs out), and the failure counter grows exactly when the loop returns no response or the body does not decode -/
theorem wire_accounting (C : Ops) (hC : C.Lawful) (c : Cmd) (hf : c.reqFails = false) (s : Sess) (hs : s.inbound < 4294967296)
    (ivs : List Bytes) (script : List Outcome) (hl : script.length ≤ ivs.length) (m : M) (name : String) (b : Bool) :
    let r := sendLoop C c s ivs script
    let m' := command m name true b (script.map (attOf C s.keys c))
    m'.retries = m.retries + (r.2.1.length + (if r.2.2 = .ctxExpired then 1 else 0) - 1) ∧
    (∀ n, cnt n m'.cmdFailures = cnt n m.cmdFailures +
      (if name = n ∧ ¬((match r.2.2 with | .ok _ _ => true | _ => false) = true ∧ b = true) then 1 else 0)) ∧
    (∀ n, cnt n m'.cmdAttempts = cnt n m.cmdAttempts + (if name = n then 1 else 0)) := by
  have hn : noCrash C s.keys c script := by
    intro d _ hcr
    have := Bmc.Proofs.C05.decodeChain_total C hC s.keys.sess (GoSlice.ofBytes d)
    unfold classify at hcr
    generalize hp : onReply C s.keys.sess (GoSlice.ofBytes d) = p at hcr this
    obtain ⟨s2, how⟩ := p
    cases how <;> simp_all [view]
    split at hcr <;> cases hcr
  obtain ⟨h1, h2, _, _⟩ := sendLoop_spec C c hf s hs ivs script hl
  obtain ⟨c1, c2, c3, _⟩ := command_laws m name true b (script.map (attOf C s.keys c))
  simp only []
  rw [c3, closureRuns_wire C s.keys c script hn, h1, h2]
  refine ⟨by simp, fun n => ?_, c1⟩
  rw [c2 n, succeeds_wire C s.keys c script hn]
  first | rfl | congr

/-- TIE to the source (regenerated on every run): every instrumentation site of the module, as
    `<metric>.<method>@<package>.<function>` with multiplicity — exactly the increments `Proto/Metrics.lean` models
    (attempts, failures ×2 and the duration timer in each of the two `SendCommand`s; retries and responses in each of the
    two retry closures; session and connection open / close accounting) plus the transport's byte / latency histograms,
    which no property constrains. An increment added, removed or moved to another function changes this list. -/
theorem instrumentation_sites : Bmc.Gen.Facts.metricSites =
    ["commandAttempts.Inc@bmc.SendCommand",
     "commandAttempts.Inc@bmc.SendCommand",
     "commandDuration.NewTimer@bmc.SendCommand",
     "commandDuration.NewTimer@bmc.SendCommand",
     "commandFailures.Inc@bmc.SendCommand",
     "commandFailures.Inc@bmc.SendCommand",
     "commandFailures.Inc@bmc.SendCommand",
     "commandFailures.Inc@bmc.SendCommand",
     "commandResponses.Inc@bmc.buildAndSend",
     "commandResponses.Inc@bmc.buildAndSendCommand",
     "commandRetries.Inc@bmc.buildAndSend",
     "commandRetries.Inc@bmc.buildAndSendCommand",
     "receiveBytes.Observe@transport.Send",
     "responseLatency.Observe@transport.Send",
     "sessionOpenAttempts.Inc@bmc.NewV2Session",
     "sessionOpenFailures.Inc@bmc.NewV2Session",
     "sessionsOpen.Dec@bmc.closeSession",
     "sessionsOpen.Inc@bmc.NewV2Session",
     "transmitBytes.Observe@transport.Send",
     "v2ConnectionOpenAttempts.Inc@bmc.DialV2",
     "v2ConnectionOpenFailures.Inc@bmc.DialV2",
     "v2ConnectionsOpen.Dec@bmc.Close",
     "v2ConnectionsOpen.Inc@bmc.DialV2"] := by decide

example : (run [.dialOk, .openOk, .cmd "Get Device ID" true true [.junk, .temp 0xC0, .final 0], .closeSess [.final 0], .closeConn]).retries = 2 := by
  decide

end Bmc.Proofs.C18
