import Bmc.Lemmas.SessionProps
import Bmc.Lemmas.SessionlessSpec
/-! # C11 — a result always comes from a response to the command that was sent (property theorems only) -/
namespace Bmc.Proofs.C11
open Bmc Bmc.Wire Bmc.Crypto Bmc.Proto

/-- in-session: a completion code and body are only ever returned from a reply of the script whose decoded message
    has the request's network function + 1, its command number, its group-extension body code and OEM enterprise -/
theorem session_result_matches_request (C : Ops) (c : Cmd) (hf : c.reqFails = false) (s : Sess)
    (hs : s.inbound < 4294967296) (ivs : List Bytes) (script : List Outcome) (hl : script.length ≤ ivs.length)
    (cc : UInt8) (p : Bytes) (h : (sendLoop C c s ivs script).2.2 = .ok cc p) :
    ∃ d v2 msg, Outcome.reply d ∈ script ∧
      view (onReply C s.keys.sess (GoSlice.ofBytes d)) = (.message, some (v2, msg)) ∧
      msg.function = c.fn + 1 ∧ msg.command = c.cmd ∧ msg.body = c.body ∧ msg.enterprise = c.ent ∧
      msg.completionCode = cc ∧ msg.payload = p := by
  rw [(sendLoop_spec C c hf s hs ivs script hl).1] at h
  obtain ⟨d, hm, hc⟩ := expected_ok_inv _ _ _ _ h
  obtain ⟨v2, msg, hv, hacc, _, hcc, hp⟩ := classify_final_inv C s.keys c d cc p hc
  simp [accept] at hacc
  exact ⟨d, v2, msg, hm, hv, hacc.1.1.1.2, hacc.1.1.2, hacc.1.2, hacc.2, hcc, hp⟩

/-- a stray reply (to another command) is a retry: it is never the result and the command keeps waiting -/
theorem stray_is_retry (C : Ops) (k : Keys) (c : Cmd) (d : Bytes) (v2 : V2Session) (msg : Message)
    (hv : view (onReply C k.sess (GoSlice.ofBytes d)) = (.message, some (v2, msg)))
    (hstray : msg.function ≠ c.fn + 1 ∨ msg.command ≠ c.cmd) : classify C k c d = .retry := by
  unfold classify
  rw [hv]
  have : accept k c v2 msg = false := by
    simp only [accept]
    rcases hstray with h | h <;> simp [h]
  simp [this]

/-- session-less: the same -/
theorem sessionless_result_matches_request (c : Cmd) (hf : c.reqFails = false) (script : List Outcome)
    (cc : UInt8) (p : Bytes) (h : (slSend c script).2 = .ok cc p) :
    ∃ d msg, Outcome.reply d ∈ script ∧ slView (slOnReply {} (GoSlice.ofBytes d)) = (.message, some msg) ∧
      msg.function = c.fn + 1 ∧ msg.command = c.cmd ∧ msg.body = c.body ∧ msg.enterprise = c.ent ∧
      msg.completionCode = cc ∧ msg.payload = p := by
  unfold slSend at h
  simp only [hf, Bool.false_eq_true, if_false] at h
  rw [(slLoop_spec c _ _ script).1] at h
  obtain ⟨d, hm, hc⟩ := slExpected_ok_inv _ _ _ _ h
  unfold slClassify at hc
  generalize hvw : slView (slOnReply {} (GoSlice.ofBytes d)) = vw at hc
  obtain ⟨how, o⟩ := vw
  cases how <;> cases o <;> simp at hc
  rename_i msg
  split at hc
  · rename_i hacc
    simp at hc
    simp [slAcceptable] at hacc
    exact ⟨d, msg, hm, hvw, hacc.1.1.1.1, hacc.1.1.1.2, hacc.1.1.2, hacc.1.2, hc.1, hc.2⟩
  · simp at hc

end Bmc.Proofs.C11
