import Bmc.Lemmas.SessionProps
import Bmc.Lemmas.SessionlessSpec
import Bmc.Lemmas.ResponseAccepted
/-! # C11 — a result always comes from a response to the command that was sent (property theorems only) -/
namespace Bmc.Proofs.C11
open Bmc Bmc.Wire Bmc.Crypto Bmc.Proto

/-- in-session: a completion code and body are only ever returned from a reply of the script whose decoded message
    has the request's network function + 1, its command number, its group-extension body code and OEM enterprise -/
theorem session_result_matches_request (C : Ops) (c : Cmd) (hf : c.reqFails = false) (s : Sess)
    (hs : s.inbound < 4294967296) (ivs : List Bytes) (script : List Outcome) (hl : script.length ≤ ivs.length)
    (cc : UInt8) (p : Bytes) (h : (sendLoop C c s ivs script).2.2 = .ok cc p) :
    ∃ d v2 msg, Outcome.reply d ∈ script ∧
      view (onReply C s.keys.sess (GoSlice.ofBytes d)) = (.message, some (v2, msg)) ∧
      msg.function = c.fn + 1 ∧ msg.command = c.cmd ∧ msg.body = c.body ∧ msg.enterprise = c.ent ∧
      msg.completionCode = cc ∧ msg.payload = p := by
  rw [(sendLoop_spec C c hf s hs ivs script hl).1] at h
  obtain ⟨d, hm, hc⟩ := expected_ok_inv _ _ _ _ h
  obtain ⟨v2, msg, hv, hacc, _, hcc, hp⟩ := classify_final_inv C s.keys c d cc p hc
  simp [accept] at hacc
  exact ⟨d, v2, msg, hm, hv, hacc.1.1.1.2, hacc.1.1.2, hacc.1.2, hacc.2, hcc, hp⟩

/-- a stray reply (to another command) is a retry: it is never the result and the command keeps waiting -/
theorem stray_is_retry (C : Ops) (k : Keys) (c : Cmd) (d : Bytes) (v2 : V2Session) (msg : Message)
    (hv : view (onReply C k.sess (GoSlice.ofBytes d)) = (.message, some (v2, msg)))
    (hstray : msg.function ≠ c.fn + 1 ∨ msg.command ≠ c.cmd) : classify C k c d = .retry := by
  unfold classify
  rw [hv]
  have : accept k c v2 msg = false := by
    simp only [accept]
    rcases hstray with h | h <;> simp [h]
  simp [this]

/-- session-less: the same -/
theorem sessionless_result_matches_request (c : Cmd) (hf : c.reqFails = false) (script : List Outcome)
    (cc : UInt8) (p : Bytes) (h : (slSend c script).2 = .ok cc p) :
    ∃ d msg, Outcome.reply d ∈ script ∧ slView (slOnReply {} (GoSlice.ofBytes d)) = (.message, some msg) ∧
      msg.function = c.fn + 1 ∧ msg.command = c.cmd ∧ msg.body = c.body ∧ msg.enterprise = c.ent ∧
      msg.completionCode = cc ∧ msg.payload = p := by
  unfold slSend at h
  simp only [hf, Bool.false_eq_true, if_false] at h
  rw [(slLoop_spec c _ _ script).1] at h
  obtain ⟨d, hm, hc⟩ := slExpected_ok_inv _ _ _ _ h
  unfold slClassify at hc
  generalize hvw : slView (slOnReply {} (GoSlice.ofBytes d)) = vw at hc
  obtain ⟨how, o⟩ := vw
  cases how <;> cases o <;> simp at hc
  rename_i msg
  split at hc
  · rename_i hacc
    simp at hc
    simp [slAcceptable] at hacc
    exact ⟨d, msg, hm, hvw, hacc.1.1.1.1, hacc.1.1.1.2, hacc.1.1.2, hacc.1.2, hc.1, hc.2⟩
  · simp at hc

/-- a conforming response (any operation) as the script sees it -/
structure Answer where
  to : Cmd              -- the operation it answers
  cc : UInt8
  data : Bytes
  seq : Nat
  iv : Bytes

def Answer.ok (C : Ops) (k : Keys) (a : Answer) : Prop :=
  a.iv.length = 16 ∧ (responseMsg a.to a.cc).WF ∧ a.seq < 4294967296 ∧ (responseAes C k a.to a.cc a.data a.iv).length < 65536

def Answer.datagram (C : Ops) (k : Keys) (a : Answer) : Outcome := .reply (responseDatagram C k a.to a.cc a.data a.seq a.iv)

/-- NO DESYNCHRONISATION: any number of authentic responses to OTHER operations — duplicates, delayed replies to earlier
    commands, unsolicited messages, with any completion codes and bodies — delivered before the response to the command
    that is pending are each skipped (one retransmission each), and the caller receives the pending command's own
    completion code and data; none of the strays'. For every lawful crypto, key set, counter and number of strays. -/
theorem strays_are_skipped (C : Ops) (hC : C.Lawful) (c : Cmd) (hf : c.reqFails = false) (s : Sess) (hs : s.inbound < 4294967296)
    (hid : s.localID < 4294967296) (strays : List Answer) (own : Answer) (rest : List Outcome) (ivs : List Bytes)
    (hstr : ∀ a ∈ strays, a.ok C s.keys ∧ sameOperation c a.to = false)
    (hown : own.ok C s.keys) (hto : own.to = c) (hnt : isTemp own.cc = false)
    (hl : strays.length + 1 + rest.length ≤ ivs.length) :
    (sendLoop C c s ivs (strays.map (Answer.datagram C s.keys) ++ own.datagram C s.keys :: rest)).2 =
      ((List.range (strays.length + 1)).map (fun i => datagramOf C s.keys c ((s.inbound + i) % 4294967296) (ivs.getD i [])),
       .ok own.cc own.data) := by
  have hexp : expected (classify C s.keys c) (strays.map (Answer.datagram C s.keys) ++ own.datagram C s.keys :: rest)
      = (strays.length + 1, .ok own.cc own.data) := by
    clear hl
    induction strays with
    | nil =>
      obtain ⟨h1, h2, h3, h4⟩ := hown
      subst hto
      simp only [List.map_nil, List.nil_append, Answer.datagram, expected,
        classify_response C hC s.keys own.to own.cc own.data own.seq own.iv h1 h2 hid h3 h4, hnt]
      rfl
    | cons a strays ih =>
      obtain ⟨⟨h1, h2, h3, h4⟩, hne⟩ := hstr a (by simp)
      have := ih (fun x hx => hstr x (by simp [hx]))
      simp only [List.map_cons, List.cons_append, Answer.datagram, expected,
        classify_stray C hC s.keys c a.to hne a.cc a.data a.seq a.iv h1 h2 hid h3 h4]
      simp only [Answer.datagram] at this
      rw [this]
      rfl
  have hspec := sendLoop_spec C c hf s hs ivs _ (by simp; omega : (strays.map (Answer.datagram C s.keys) ++ own.datagram C s.keys :: rest).length ≤ ivs.length)
  rw [hexp] at hspec
  exact Prod.ext hspec.2.1 hspec.1

end Bmc.Proofs.C11
