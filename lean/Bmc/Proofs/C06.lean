import Bmc.Lemmas.RequestsBody
import Bmc.Lemmas.RequestsPacket
/-! # C06 — requests are encoded exactly as the IPMI and DCMI specifications define (property theorems only)

`Wire.Req.*` are the models of the serialisers (`SerializeTo` of every request layer, the operation table and
`buildAndSendCommand` / `buildAndSendPayload` of v2sessionless.go); `Spec.Req.*` is the independent reference parser
written from the tables. Every theorem quantifies over ALL values of the caller's fields that fit the field's wire
width (the explicit decidable `wf` predicates of `Wire/Requests.lean`) and over bodies of every length.
In-session packets (authenticated, encrypted) are the subject of C03. -/
namespace Bmc.Proofs.C06
open Bmc Bmc.Wire Bmc.Wire.Req
open Bmc.Spec.Req (readCommand readPayload)

/-! ## The packet: RMCP + null-session v2.0 wrapper + IPMI message around any body -/

/-- For every operation (request NetFn of 6 bits, any command, any defining-body code, any 3-byte enterprise
    number), every 2-bit LUN and every body: the transmitted datagram parses under the reference parser into an RMCP
    header (version 6, sequence FFh, class IPMI, no ACK — checked inside `parseRMCP`), a v2.0 wrapper with payload
    type IPMI, the null session (ID 0, sequence 0) and a length equal to the rest of the datagram, and an IPMI message
    with two valid checksums, rsAddr 20h, that NetFn and LUN, rqAddr 81h, that command, the group-extension byte /
    OEM IANA of the operation — and exactly that body. -/
theorem packet_parses (op : Operation) (lun : UInt8) (body : Bytes) (h : op.wf) (hl : lun.toNat < 4) (hb : bodyFits body) :
    Spec.Req.parsePacket (packetSessionless op lun body) =
      some { payloadType := 0, sessionID := 0, sequence := 0
             ipmi := some { rsAddr := 0x20, netFn := op.function.toNat, rsLUN := lun.toNat, rqAddr := 0x81, rqSeq := 1
                            rqLUN := 0, cmd := op.command.toNat
                            ext := if op.function = 0x2C then .group op.body.toNat
                                   else if op.function = 0x2E then .oem op.enterprise else .none }
             body := body } :=
  Wire.Req.packet_parses op lun body h hl hb

example : ({ function := 0x2E, enterprise := 0x00A2B3, command := 0x42 } : Operation).wf ∧ bodyFits [1, 2, 3] := by decide
example : Spec.Req.parsePacket (packetSessionless { function := 0x2C, body := 0xDC, command := 2 } 0 [1, 0, 0]) =
    some { payloadType := 0, sessionID := 0, sequence := 0,
           ipmi := some { rsAddr := 0x20, netFn := 0x2C, rsLUN := 0, rqAddr := 0x81, rqSeq := 1, rqLUN := 0, cmd := 2, ext := .group 0xDC },
           body := [1, 0, 0] } := by decide

/-- RMCP+ setup payloads (`buildAndSendPayload`): RMCP header, wrapper with that payload type, null session, length
    = rest, no IPMI message — and exactly that payload. -/
theorem payload_packet_parses (pt : UInt8) (body : Bytes) (hpt : pt.toNat < 64) (h0 : pt ≠ 0) (h2 : pt ≠ 2)
    (hb : body.length < 65536) :
    Spec.Req.parsePacket (packetPayload pt body) =
      some { payloadType := pt.toNat, sessionID := 0, sequence := 0, ipmi := none, body := body } :=
  Wire.Req.payload_packet_parses pt body hpt h0 h2 hb

example : Spec.Req.parsePacket (packetPayload 0x12 [9, 8, 7]) =
    some { payloadType := 0x12, sessionID := 0, sequence := 0, ipmi := none, body := [9, 8, 7] } := by decide

/-- the specification's (NetFn, command, defining body) of each command the library implements -/
def specCode : Cmd → Spec.Req.CmdCode
  | .getChassisStatus => Spec.Req.getChassisStatus
  | .chassisControl => Spec.Req.chassisControl
  | .getDeviceID => Spec.Req.getDeviceID
  | .getSystemGUID => Spec.Req.getSystemGUID
  | .authCaps => Spec.Req.getChannelAuthCaps
  | .setPriv => Spec.Req.setSessionPrivilegeLevel
  | .closeSession => Spec.Req.closeSession
  | .sdrRepoInfo => Spec.Req.getSDRRepositoryInfo
  | .reserveSDR => Spec.Req.reserveSDRRepository
  | .getSDR => Spec.Req.getSDR
  | .sensorReading => Spec.Req.getSensorReading
  | .sessionInfo => Spec.Req.getSessionInfo
  | .cipherSuites => Spec.Req.getChannelCipherSuites
  | .dcmiCaps => Spec.Req.getDCMICapabilitiesInfo
  | .powerReading => Spec.Req.getPowerReading
  | .dcmiSensorInfo => Spec.Req.getDCMISensorInfo

/-- the library's operation table (operation.go, operations.go; NetFns and the DCMI body code through the
    regenerated constants) is the specification's command table, entry by entry, and every entry is a well-formed
    request operation; the LUN is the BMC's (0) except for Get Sensor Reading, which uses the caller's -/
theorem operation_table (c : Cmd) :
    c.operation.wf ∧ c.operation.function.toNat = (specCode c).netFn ∧ c.operation.command.toNat = (specCode c).cmd ∧
    expectedExt c.operation = (specCode c).ext ∧
    (∀ l, c.lun l = if c = .sensorReading then l else 0) := by
  cases c <;> exact ⟨by decide, by decide, by decide, by decide, fun l => by simp [Cmd.lun, Gen.Facts.ipmi_LUNBMC]⟩

/-- Whatever request data a command carries, the BMC — reading the datagram with the reference parser and
    dispatching on the specification's code of that command — sees that command, on the intended LUN, with exactly
    that data. -/
theorem command_packet_parses {α : Type} (c : Cmd) (ownerLUN : UInt8) (body : Bytes) (hl : ownerLUN.toNat < 4)
    (hb : bodyFits body) (parse : Bytes → Option α) :
    readCommand (specCode c) parse (packetSessionless c.operation (c.lun ownerLUN) body) =
      (parse body).map (fun v => ((if c = .sensorReading then ownerLUN.toNat else 0), v)) := by
  obtain ⟨hwf, h1, h2, h3, h4⟩ := operation_table c
  have hl' : (c.lun ownerLUN).toNat < 4 := by rw [h4]; split <;> simp [hl]
  rw [readCommand_packet c.operation (c.lun ownerLUN) body hwf hl' hb (specCode c) parse ⟨h1, h2, h3⟩, h4]
  split <;> rfl

/-! ## Request data, layer by layer: the reference parser recovers the caller's fields -/

/-- Get Channel Authentication Capabilities: every 4-bit channel, every 4-bit privilege level, both values of the
    "IPMI v2.0 extended data" flag -/
theorem authcaps_parses (g : AuthCaps) (h : g.wf) :
    Spec.Req.parseAuthCaps g.encode =
      some { v2Data := g.extendedData, channel := g.channel.toNat, privilege := g.maxPrivilegeLevel.toNat } :=
  authcaps_body g h
example : ({ extendedData := true, channel := 0xE, maxPrivilegeLevel := 4 } : AuthCaps).wf := by decide

/-- … and the whole datagram of the command, as dispatched by the BMC -/
theorem authcaps_request (g : AuthCaps) (h : g.wf) :
    readCommand Spec.Req.getChannelAuthCaps Spec.Req.parseAuthCaps
        (packetSessionless Cmd.authCaps.operation (Cmd.authCaps.lun 0) g.encode) =
      some (0, { v2Data := g.extendedData, channel := g.channel.toNat, privilege := g.maxPrivilegeLevel.toNat }) := by
  have := command_packet_parses .authCaps 0 g.encode (by decide) (by simp [bodyFits, AuthCaps.encode]) Spec.Req.parseAuthCaps
  rw [authcaps_body g h] at this
  exact this

/-- Get Channel Cipher Suites: every 4-bit channel, 6-bit payload type, 6-bit list index; always "list by cipher suite" -/
theorem ciphersuites_parses (c : CipherSuites) (h : c.wf) :
    Spec.Req.parseCipherSuites c.encode =
      some { channel := c.channel.toNat, payloadType := c.payloadType.toNat, bySuite := true, listIndex := c.listIndex.toNat } :=
  ciphersuites_body c h
example : ({ channel := 0xE, payloadType := 0, listIndex := 63 } : CipherSuites).wf := by decide

/-- Get Session Info: all 256 index values — current session (00h), Nth active session, by handle (FEh, handle
    byte follows), by ID (FFh, four ID bytes follow) -/
theorem sessioninfo_parses (g : SessionInfo) (h : g.wf) :
    Spec.Req.parseSessionInfo g.encode =
      some (if g.index = 0 then .current else if g.index = 0xFE then .handle g.handle.toNat
            else if g.index = 0xFF then .id g.id else .nth g.index.toNat) :=
  sessioninfo_body g h
example : ({ index := 0xFF, id := 0xA0A1A2A3 } : SessionInfo).wf := by decide

/-- Set Session Privilege Level: every 4-bit level except Callback -/
theorem setpriv_parses (level : UInt8) (h : SetPriv.wf level) :
    ∃ b, SetPriv.encode level = .ok b ∧ Spec.Req.parseSetPriv b = some level.toNat :=
  setpriv_body level h
example : SetPriv.wf 4 := by decide

/-- the reserved level Callback (01h) is refused with an error instead of being sent -/
theorem set_priv_callback : SetPriv.encode 1 = .error () := rfl

/-- … so no datagram is transmitted for it -/
theorem set_priv_callback_not_sent (l : UInt8) : commandDatagram .setPriv l (SetPriv.encode 1) = .error () := rfl

/-- Close Session: by ID, or — for the null ID — ID 0 followed by the session handle -/
theorem closesession_parses (id : Nat) (handle : UInt8) (h : id < 4294967296) :
    Spec.Req.parseCloseSession (CloseSession.encode id handle) =
      some (if id = 0 then .byHandle handle.toNat else .byID id) :=
  closesession_body id handle h
example : Spec.Req.parseCloseSession (CloseSession.encode 0 7) = some (.byHandle 7) := by decide

/-- Chassis Control: every 4-bit control value -/
theorem chassiscontrol_parses (c : Nat) (h : c < 16) :
    Spec.Req.parseChassisControl (ChassisControl.encode c) = some c :=
  chassiscontrol_body c h
example : Spec.Req.parseChassisControl (ChassisControl.encode 5) = some 5 := by decide

/-- Get SDR: every reservation ID, record ID, offset and length -/
theorem getsdr_parses (res rec : Nat) (off len : UInt8) (hr : res < 65536) (hi : rec < 65536) :
    Spec.Req.parseGetSDR (GetSDR.encode res rec off len) =
      some { reservation := res, record := rec, offset := off.toNat, length := len.toNat } :=
  getsdr_body res rec off len hr hi
example : Spec.Req.parseGetSDR (GetSDR.encode 0x1234 0xFFFF 5 0xFF) =
    some { reservation := 0x1234, record := 0xFFFF, offset := 5, length := 0xFF } := by decide

/-- Get Sensor Reading: every sensor number … -/
theorem sensorreading_parses (n : UInt8) : Spec.Req.parseSensorReading (SensorReading.encode n) = some n.toNat := rfl

/-- … and every owner LUN: it arrives as the rsLUN of the message -/
theorem sensorreading_request (n ownerLUN : UInt8) (hl : ownerLUN.toNat < 4) :
    readCommand Spec.Req.getSensorReading Spec.Req.parseSensorReading
        (packetSessionless Cmd.sensorReading.operation (Cmd.sensorReading.lun ownerLUN) (SensorReading.encode n)) =
      some (ownerLUN.toNat, n.toNat) :=
  command_packet_parses .sensorReading ownerLUN (SensorReading.encode n) hl (by simp [bodyFits, SensorReading.encode]) Spec.Req.parseSensorReading

/-- commands without request data (Get Device ID, Get System GUID, Get Chassis Status, Get SDR Repository Info,
    Reserve SDR Repository): the message carries no data -/
theorem no_body_request (c : Cmd) :
    readCommand (specCode c) Spec.Req.parseEmpty (packetSessionless c.operation (c.lun 0) []) =
      some (0, ()) := by
  have := command_packet_parses c 0 [] (by decide) (by decide) Spec.Req.parseEmpty
  rw [this]; cases c <;> rfl

/-- RMCP+ Open Session Request: every tag, 4-bit privilege level, session ID, and for each of the three algorithm
    payloads either the wildcard or any 6-bit algorithm number -/
theorem opensession_parses (o : OpenSession) (h : o.wf) :
    Spec.Req.parseOpenSession o.encode =
      some { tag := o.tag.toNat, privilege := o.maxPrivilegeLevel.toNat, consoleSessionID := o.sessionID
             auth := if o.authWildcard then none else some o.auth.toNat
             integ := if o.integWildcard then none else some o.integ.toNat
             conf := if o.confWildcard then none else some o.conf.toNat } :=
  opensession_body o h
example : ({ tag := 7, maxPrivilegeLevel := 4, sessionID := 1, auth := 3, integWildcard := true, integ := 200, conf := 1 } : OpenSession).wf := by
  decide

/-- … in its datagram: payload type 10h, null session, and the BMC reads the caller's proposal -/
theorem opensession_request (o : OpenSession) (h : o.wf) :
    readPayload Spec.Req.payloadOpenSessionReq Spec.Req.parseOpenSession (packetPayload ptOpenSessionReq o.encode) =
      some { tag := o.tag.toNat, privilege := o.maxPrivilegeLevel.toNat, consoleSessionID := o.sessionID
             auth := if o.authWildcard then none else some o.auth.toNat
             integ := if o.integWildcard then none else some o.integ.toNat
             conf := if o.confWildcard then none else some o.conf.toNat } := by
  rw [← opensession_body o h]
  exact readPayload_packet ptOpenSessionReq o.encode (by decide) (by decide) (by decide)
    (by simp [OpenSession.encode, putLE32, algPayload_length]) _

/-- RAKP Message 1: every tag, BMC session ID, random number, privilege level, lookup mode and user name of at most
    16 bytes; "name-only lookup" on the wire is the negation of the caller's `PrivilegeLevelLookup` -/
theorem rakp1_parses (r : Rakp1) (h : r.wf) :
    ∃ b, r.encode = .ok b ∧
      Spec.Req.parseRakp1 b = some { tag := r.tag.toNat, bmcSessionID := r.bmcSessionID, random := r.random
                                     nameOnlyLookup := !r.privilegeLevelLookup, privilege := r.maxPrivilegeLevel.toNat
                                     username := r.username } :=
  rakp1_body r h
example : ({ bmcSessionID := 0xA0A1A2A3, random := List.replicate 16 0x55, privilegeLevelLookup := true, maxPrivilegeLevel := 4
             username := [0x61, 0x64, 0x6d, 0x69, 0x6e] } : Rakp1).wf := by decide

/-- a user name longer than 16 bytes is rejected with an error rather than truncated -/
theorem rakp1_long_username (r : Rakp1) (h : r.username.length > 16) : r.encode = .error () :=
  rakp1_long r h
example : ({ username := List.replicate 17 0x41 } : Rakp1).username.length > 16 := by decide

/-- RAKP Message 3: every tag, status, BMC session ID; the AuthCode is present exactly when the status is 00h -/
theorem rakp3_parses (r : Rakp3) (h : r.wf) :
    Spec.Req.parseRakp3 r.encode =
      some { tag := r.tag.toNat, status := r.status.toNat, bmcSessionID := r.bmcSessionID
             authCode := if r.status = 0 then r.authCode else [] } :=
  rakp3_body r h
example : ({ status := 0, bmcSessionID := 5, authCode := List.replicate 20 1 } : Rakp3).wf := by decide

/-- RAKP 1 and RAKP 3 datagrams: payload types 12h and 14h, null session, for payloads of every length -/
theorem rakp_request {α : Type} (body : Bytes) (hb : body.length < 65536) (parse : Bytes → Option α) :
    readPayload Spec.Req.payloadRAKP1 parse (packetPayload ptRakp1 body) = parse body ∧
    readPayload Spec.Req.payloadRAKP3 parse (packetPayload ptRakp3 body) = parse body :=
  ⟨readPayload_packet ptRakp1 body (by decide) (by decide) (by decide) hb parse,
   readPayload_packet ptRakp3 body (by decide) (by decide) (by decide) hb parse⟩

/-- DCMI Get Capabilities Info: every parameter selector -/
theorem dcmicaps_parses (p : UInt8) : Spec.Req.parseDcmiCaps (DcmiCaps.encode p) = some p.toNat := rfl

/-- … sent as group extension DCh, command 01h -/
theorem dcmicaps_request (p : UInt8) :
    readCommand Spec.Req.getDCMICapabilitiesInfo Spec.Req.parseDcmiCaps
        (packetSessionless Cmd.dcmiCaps.operation (Cmd.dcmiCaps.lun 0) (DcmiCaps.encode p)) = some (0, p.toNat) :=
  command_packet_parses .dcmiCaps 0 (DcmiCaps.encode p) (by decide) (by simp [bodyFits, DcmiCaps.encode]) Spec.Req.parseDcmiCaps

/-- DCMI Get Power Reading, normal mode: the period is ignored and the attribute byte is 00h -/
theorem powerreading_normal_parses (ns : Int) :
    Spec.Req.parsePowerReading (PowerReading.encode { mode := 1, periodNs := ns }) = some .normal :=
  powerreading_normal ns

/-- … enhanced mode: for EVERY non-negative period the rolling-average byte is the specification's encoding of
    the period's whole seconds (`Spec.rollingByte`: coarsest unit that fits, clamped to 63 days — C20 relates it
    to durations for every number of seconds) -/
theorem powerreading_enhanced_parses (ns : Int) (h : 0 ≤ ns) :
    Spec.Req.parsePowerReading (PowerReading.encode { mode := 2, periodNs := ns }) =
      some (.enhanced (Spec.rollingByte (ns.toNat / 1000000000) / 64) (Spec.rollingByte (ns.toNat / 1000000000) % 64)) :=
  powerreading_enhanced ns h
example : Spec.Req.parsePowerReading (PowerReading.encode { mode := 2, periodNs := 300000000000 }) = some (.enhanced 1 5) := by
  decide

/-- DCMI Get DCMI Sensor Info: every sensor type, entity ID and instance; the start instance is sent only when all
    instances (00h) are requested -/
theorem dcmisensorinfo_parses (g : DcmiSensorInfo) :
    Spec.Req.parseDcmiSensorInfo g.encode =
      some { sensorType := g.type.toNat, entity := g.entity.toNat
             sel := if g.instance_ = 0 then .all g.instanceStart.toNat else .one g.instance_.toNat } :=
  dcmisensorinfo_body g

/-! ## Outside the wire width (not claimed): the serialisers do not mask every field, so a value that does not fit
    spills into reserved or neighbouring bits. Each `wf` bound above is tight. -/

-- channel 1Eh sets reserved bit 4 of the first byte; channel 8Eh would read as "v2.0 data" with channel Eh
example : Spec.Req.parseAuthCaps (AuthCaps.encode { channel := 0x1E }) = none := by decide
example : Spec.Req.parseAuthCaps (AuthCaps.encode { extendedData := false, channel := 0x8E }) =
    some { v2Data := true, channel := 0xE, privilege := 0 } := by decide
-- a LUN of 4 is OR-ed into the NetFn bits: App request (06h) leaves as NetFn 07h, a response
example : Spec.Req.parsePacket (packetSessionless { function := 6, command := 1 } 4 []) = none := by decide
-- list index 64 is masked to 0 (the paging loop of RetrieveSupportedCipherSuites can reach it: see C16)
example : CipherSuites.encode { channel := 0xE, listIndex := 64 } = CipherSuites.encode { channel := 0xE, listIndex := 0 } := by
  decide

end Bmc.Proofs.C06
