import Bmc.Gen.Facts
/-! # The UDP transport's source, as it stands on this run (regenerated fact; C13 and C05)

`internal/pkg/transport` is sockets and deadlines: outside every statement-level translator, and the one package of the library whose
behaviour only the real-socket scenarios (`udp`, `time`, `flood`, `concu`) exercise. The time model of C13 (assumption A2: a `Send` is
ONE write and ONE read, each under the deadline of the context it was given, and returns what that read returned) and the C05 clause
"no received bytes can keep a call alive" were written against exactly this text: `New`, `Send`, `Close`, `Address` and the fields of
the struct. Any change to the transport — a drain loop, a cache of sockets, a deadline taken from somewhere else, a buffer of another
size — breaks this obligation at build time (seed C05-B15 was such a change, and no scenario of the time reached it). -/
namespace Bmc.Proofs.C13

theorem transport_source : Bmc.Gen.Facts.transportSource = [
  ("New", "{ raddr, err := net.ResolveUDPAddr(\"udp\", addr) if err != nil { return nil, err } conn, err := net.DialUDP(\"udp\", nil, raddr) if err != nil { return nil, err } return &transport{ conn: conn, }, nil }"),
  ("transport.Address", "{ return t.conn.RemoteAddr() }"),
  ("transport.Close", "{ return t.conn.Close() }"),
  ("transport.Send", "{ if deadline, ok := ctx.Deadline(); ok { if err := t.conn.SetWriteDeadline(deadline); err != nil { return nil, err } } n, err := t.conn.Write(b) if err != nil { return nil, err } if n != len(b) { return nil, fmt.Errorf(\"wrote incomplete message (%v/%v bytes)\", n, len(b)) } sent := time.Now() transmitBytes.Observe(float64(len(b))) if deadline, ok := ctx.Deadline(); ok { if err := t.conn.SetReadDeadline(deadline); err != nil { return nil, err } } n, _, err = t.conn.ReadFromUDP(t.recvBuf[:]) if err != nil { return nil, err } responseLatency.Observe(time.Since(sent).Seconds()) receiveBytes.Observe(float64(n)) return t.recvBuf[:n], nil }"),
  ("type transport", "conn *net.UDPConn; recvBuf [512]byte")] := rfl

end Bmc.Proofs.C13
