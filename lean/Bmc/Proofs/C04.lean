import Bmc.Lemmas.RmcpHeader
import Bmc.Lemmas.AcceptInv
import Bmc.Lemmas.TamperedAuthCode
/-! # C04 — only authentic packets addressed to this session are accepted as responses (property theorems only)

No cryptographic claim is made: "a forger cannot produce a MAC" is the integrity algorithm's job. What is proved is
the reduction: a command completes on a datagram ONLY IF that datagram satisfies the MAC equation under K1, has the
authenticated flag set, is addressed to this session and, when encrypted, decrypts under K2 to a valid pad. -/
namespace Bmc.Proofs.C04
open Bmc Bmc.Wire Bmc.Crypto Bmc.Proto

/-- acceptance is sound: whenever a command returns a completion code and body, some reply `d` of the script was
    decoded such that, for its session wrapper `v2` (the bytes `p` after the RMCP header):
    * the authenticated flag is set if an integrity algorithm was negotiated;
    * the session ID is this session's;
    * the trailing AuthCode is exactly the negotiated keyed hash under K1 of everything before it;
    * if flagged encrypted, the payload decrypted under K2 to a well-formed confidentiality pad -/
theorem accept_sound (C : Ops) (c : Cmd) (hf : c.reqFails = false) (s : Sess) (hs : s.inbound < 4294967296)
    (ivs : List Bytes) (script : List Outcome) (hl : script.length ≤ ivs.length)
    (cc : UInt8) (pl : Bytes) (h : (sendLoop C c s ivs script).2.2 = .ok cc pl) :
    ∃ d r p v2, Outcome.reply d ∈ script ∧
      RMCP.decodeGo {} (GoSlice.ofBytes d) = .ok (r, p) ∧
      V2Session.decode (integMac C s.integ s.k1) p.vis = .ok v2 ∧
      (s.integ ≠ 0 → v2.authenticated = true) ∧
      v2.id = s.localID ∧
      (v2.authenticated = true → ∃ off, off ≤ p.vis.length ∧ v2.signature = p.vis.drop off ∧
          p.vis.drop off = integMac C s.integ s.k1 (p.vis.take off)) ∧
      (v2.encrypted = true → ∃ a, AESLayer.decodeGo C s.k2 true {} (GoSlice.ofBytes v2.payload) = .ok a) := by
  rw [(sendLoop_spec C c hf s hs ivs script hl).1] at h
  obtain ⟨d, hm, hc⟩ := expected_ok_inv _ _ _ _ h
  obtain ⟨v2, msg, hv, hacc, _, _, _⟩ := classify_final_inv C s.keys c d cc pl hc
  obtain ⟨r, p, hr, hv2, haes⟩ := onReply_message_inv C s.keys.sess (GoSlice.ofBytes d) v2 msg hv
  have hdec : V2Session.decode (integMac C s.integ s.k1) p.vis = .ok v2 := by
    have := V2Session.decodeGo_refines (integMac C s.integ s.k1) ({} : V2Session) p
    have hv2' : V2Session.decodeGo (integMac C s.integ s.k1) {} p = .ok v2 := hv2
    rw [hv2'] at this
    cases hd : V2Session.decode (integMac C s.integ s.k1) p.vis with
    | error e => rw [hd] at this; cases this
    | ok v => rw [hd] at this; simp at this; rw [this]
  simp only [accept, Bool.and_eq_true, Bool.or_eq_true, beq_iff_eq] at hacc
  refine ⟨d, r, p, v2, hm, hr, hdec, ?_, hacc.1.1.1.1.2, ?_, haes⟩
  · intro hne
    rcases hacc.1.1.1.1.1 with h0 | h1
    · exact absurd h0 hne
    · exact h1
  · intro ha
    exact Bmc.Proto.V2Session.decode_sig _ _ _ hdec ha

/-- a decoded reply with the authenticated flag clear (in a session with integrity), or addressed to another
    session, is treated exactly like a reply that did not decode: a retry, never a result -/
theorem unauthenticated_or_foreign_is_retry (C : Ops) (k : Keys) (c : Cmd) (d : Bytes) (v2 : V2Session) (msg : Message)
    (hv : view (onReply C k.sess (GoSlice.ofBytes d)) = (.message, some (v2, msg)))
    (hbad : (k.integ ≠ 0 ∧ v2.authenticated = false) ∨ v2.id ≠ k.localID) : classify C k c d = .retry := by
  unfold classify
  rw [hv]
  have : accept k c v2 msg = false := by
    simp only [accept]
    rcases hbad with ⟨h1, h2⟩ | h
    · simp [h1, h2]
    · simp [h]
  simp [this]

/-- the datagram that produced a result — e.g. an authentic response with one bit flipped — still satisfies the MAC
    equation: a flip either leaves the value unchanged (bits outside the wrapper), makes the packet a retry, or
    yields a packet that is itself a valid MAC'd message under K1 -/
theorem accepted_satisfies_mac (C : Ops) (k : Keys) (hk : k.integ ≠ 0) (c : Cmd) (d : Bytes) (cc : UInt8) (pl : Bytes)
    (h : classify C k c d = .final cc pl) :
    ∃ r p v2 off, RMCP.decodeGo {} (GoSlice.ofBytes d) = .ok (r, p) ∧
      V2Session.decodeGo (integMac C k.integ k.k1) {} p = .ok v2 ∧ v2.authenticated = true ∧
      p.vis.drop off = integMac C k.integ k.k1 (p.vis.take off) := by
  obtain ⟨v2, msg, hv, hacc, _, _, _⟩ := classify_final_inv C k c d cc pl h
  obtain ⟨r, p, hr, hv2, _⟩ := onReply_message_inv C k.sess (GoSlice.ofBytes d) v2 msg hv
  simp only [accept, Bool.and_eq_true, Bool.or_eq_true, beq_iff_eq] at hacc
  have ha : v2.authenticated = true := by
    rcases hacc.1.1.1.1.1 with h0 | h1
    · exact absurd h0 hk
    · exact h1
  have hdec : V2Session.decode (integMac C k.integ k.k1) p.vis = .ok v2 := by
    have := V2Session.decodeGo_refines (integMac C k.integ k.k1) ({} : V2Session) p
    have hv2' : V2Session.decodeGo (integMac C k.integ k.k1) {} p = .ok v2 := hv2
    rw [hv2'] at this
    cases hd : V2Session.decode (integMac C k.integ k.k1) p.vis with
    | error e => rw [hd] at this; cases this
    | ok v => rw [hd] at this; simp at this; rw [this]
  obtain ⟨off, _, _, hmac⟩ := Bmc.Proto.V2Session.decode_sig _ _ _ hdec ha
  exact ⟨r, p, v2, off, hr, hv2, ha, hmac⟩

/-- TAMPERED AUTHCODE: take the response a conforming BMC sends (any command, completion code, body, sequence number, IV)
    and put ANY OTHER bytes where its AuthCode was — one bit flipped, some bytes cut off or added, the code of another
    key, nothing at all: the datagram no longer decodes, the library treats it as if no valid response had arrived
    (retry), and what it carried never reaches the caller. With the genuine code it is the command's final response. No
    assumption on the hash: this is about WHERE the code is looked for and WHAT it is compared with. -/
theorem tampered_authcode_is_retry (C : Ops) (hC : C.Lawful) (k : Keys) (c : Cmd) (cc : UInt8) (data : Bytes) (seq : Nat) (iv : Bytes)
    (hiv : iv.length = 16) (hm : (responseMsg c cc).WF) (hid : k.localID < 4294967296) (hseq : seq < 4294967296)
    (hlen : (responseAes C k c cc data iv).length < 65536) (code : Bytes) :
    classify C k c (responseWithCode C k c cc data seq iv code) =
      if code = responseCode C k c cc data seq iv then (if isTemp cc then .retry else .final cc data) else .retry := by
  by_cases h : code = responseCode C k c cc data seq iv
  · rw [if_pos h, h, ← responseDatagram_eq C k c cc data seq iv hlen]
    exact classify_response C hC k c cc data seq iv hiv hm hid hseq hlen
  · rw [if_neg h]
    exact classify_tampered_code C k c cc data seq iv code hid hseq hlen h

/-- THE BYTES THE AUTHCODE DOES NOT COVER. The four RMCP header bytes in front of the session wrapper are outside the
    authenticated region (which starts at the auth-type byte). Whatever is done to them — any single bit or all 32 —
    the reply is either classified EXACTLY as the reply with the regular header `06 00 FF 07` (same completion code, same
    body, or the same retry), or, when the low four bits of the class byte no longer say IPMI, treated as if no valid
    response had arrived. It can never change the value the caller receives. -/
theorem rmcp_header_cannot_change_the_value (C : Ops) (k : Keys) (c : Cmd) (b0 b1 b2 b3 : UInt8) (rest : Bytes) :
    classify C k c (b0 :: b1 :: b2 :: b3 :: rest) =
      if b3 &&& 0xF = 7 then classify C k c (6 :: 0 :: 0xFF :: 7 :: rest) else .retry := by
  unfold classify
  rw [onReply_header C k.sess b0 b1 b2 b3 rest]
  by_cases hc : b3 &&& 0xF = 7
  · simp only [hc, if_true]
  · simp only [hc, if_false]

/-- in particular for the response of a conforming BMC: with ANY RMCP header whose class nibble is 7 it is still the
    command's final response, with any other class it is a retry -/
theorem response_with_any_header (C : Ops) (hC : C.Lawful) (k : Keys) (c : Cmd) (cc : UInt8) (data : Bytes) (seq : Nat) (iv : Bytes)
    (hiv : iv.length = 16) (hm : (responseMsg c cc).WF) (hid : k.localID < 4294967296) (hseq : seq < 4294967296)
    (hlen : (responseAes C k c cc data iv).length < 65536) (b0 b1 b2 b3 : UInt8) :
    classify C k c (b0 :: b1 :: b2 :: b3 :: (responseDatagram C k c cc data seq iv).drop 4) =
      if b3 &&& 0xF = 7 then (if isTemp cc then .retry else .final cc data) else .retry := by
  rw [rmcp_header_cannot_change_the_value]
  have hd : (6 : UInt8) :: 0 :: 0xFF :: 7 :: (responseDatagram C k c cc data seq iv).drop 4 = responseDatagram C k c cc data seq iv := by
    unfold responseDatagram; simp
  rw [hd, classify_response C hC k c cc data seq iv hiv hm hid hseq hlen]

end Bmc.Proofs.C04
