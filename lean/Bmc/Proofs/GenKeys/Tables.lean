import Bmc.Lemmas.GenKeys
/-! `algorithmAuthenticationHashGenerator` and the constructors of `authenticationAlgorithmParams`, re-translated from the Go
    source on every run: which hash and which RAKP 4 truncation per authentication algorithm — the model's `authHash` and
    `icvLen`, over ALL 256 values of the algorithm byte (see `Proofs/GenKeys/SIK.lean` for the conventions). -/
namespace Bmc.Proofs.GenKeys
open Bmc Bmc.Wire Bmc.Crypto Bmc.Proto Bmc.Gen.Keys Bmc.Lemmas.GenKeys

/-- pins `Proto.authHash`: the table succeeds exactly on the algorithms the model knows, with the model's hash
    (`crypto/sha1.New` ↦ SHA-1, …: `Lemmas/GenKeys.lean: hashAlg`) -/
theorem authHash_is_table (a : UInt8) :
    (algorithmAuthenticationHashGenerator a).map (fun p => hashAlg p.hashGen) = authHash a := by
  unfold algorithmAuthenticationHashGenerator authHash
  by_cases h1 : a = 1
  · subst h1; rfl
  by_cases h3 : a = 3
  · subst h3; rfl
  by_cases h2 : a = 2
  · subst h2; rfl
  simp [h1, h2, h3]

/-- pins `Proto.icvLen`: the table's `icvLength` (0 = not truncated; also 0 where the table fails) -/
theorem icvLen_is_table (a : UInt8) :
    (match algorithmAuthenticationHashGenerator a with | some p => p.icvLength | none => 0) = (icvLen a : Int) := by
  unfold algorithmAuthenticationHashGenerator icvLen
  by_cases h1 : a = 1
  · subst h1; rfl
  by_cases h3 : a = 3
  · subst h3; rfl
  by_cases h2 : a = 2
  · subst h2; rfl
  simp [h1, h2, h3]

/-- the hashes `newV2Session` hands to `calculateRAKPMessage2AuthCode` / `…3AuthCode` (`.AuthCode(password)`), `calculateSIK`
    (`.SIK(key)`) and `executeHash` in `K(n)` (`.K(sik)`) — the pairing is `Gen.Keys.hashOf`, checked on the source — compute
    the model's `C.hmac` with the model's hash under the key given, untruncated, for every message -/
theorem constructors_are_hmac (C : Ops) (a : UInt8) (h : HashAlg) (ha : authHash a = some h) (key m : Bytes) :
    ∃ p, algorithmAuthenticationHashGenerator a = some p ∧
      mac C (authenticationAlgorithmParams_AuthCode p key) m = some (C.hmac h key m) ∧
      mac C (authenticationAlgorithmParams_SIK p key) m = some (C.hmac h key m) ∧
      mac C (authenticationAlgorithmParams_K p key) m = some (C.hmac h key m) := by
  unfold authHash at ha
  split at ha <;> first
    | (cases ha; done)
    | (injection ha with ha; subst ha; exact ⟨_, rfl, rfl, rfl, rfl⟩)

/-- `truncatedHash.Size()` is the truncation length -/
theorem truncatedHash_Size_eq (n : Int) : truncatedHash_Size n = n := rfl

end Bmc.Proofs.GenKeys
