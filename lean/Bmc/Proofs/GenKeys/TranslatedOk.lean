import Bmc.Gen.Keys
/-! What `tools/keygen` translated when this file was delivered still is translated, and the hash each function of the
    Write…Sum(nil)/Reset shape is handed is still the one the model assumes (see `Proofs/GenKeys/SIK.lean` for the conventions). -/
namespace Bmc.Proofs.GenKeys
open Bmc Bmc.Gen.Keys

/-- a function the translator no longer manages is a broken obligation -/
theorem translated_ok : ∀ n ∈ [
    "bmc.executeHash", "bmc.calculateSIK", "bmc.calculateRAKPMessage2AuthCode", "bmc.calculateRAKPMessage3AuthCode",
    "bmc.calculateRAKPMessage4ICV", "bmc.additionalKeyMaterialGenerator.K", "bmc.truncatedHash.Sum", "bmc.truncatedHash.Size",
    "bmc.authenticationAlgorithmParams.AuthCode", "bmc.authenticationAlgorithmParams.SIK",
    "bmc.authenticationAlgorithmParams.K", "bmc.authenticationAlgorithmParams.ICV",
    "bmc.algorithmAuthenticationHashGenerator", "bmc.algorithmHasher", "bmc.algorithmCipher",
    "bmc.newV2Session: rakpMessage1", "bmc: callers pass a reset hash"],
    n ∈ Bmc.Gen.Keys.translated := by decide

/-- CHECKED ON THE SOURCE by the translator (every non-test function of package bmc): each hash handed to a translated function
    arrives in the reset state, and it is the one the model's formulas assume — the RAKP 2 and RAKP 3 codes under
    `.AuthCode(opts.Password)` (`rakp2Code`, `rakp3Code`: key `o.pass`), the SIK under `.SIK(effectiveBMCKey)` (`sikOf`),
    the RAKP 4 value under `.ICV(sik)` (`icvOf`: truncated), K_n under `.K(sik)` (untruncated) -/
theorem hashOf_ok : Bmc.Gen.Keys.hashOf = [
    "calculateRAKPMessage2AuthCode ← AuthCode(opts.Password)",
    "calculateRAKPMessage3AuthCode ← AuthCode(opts.Password)",
    "calculateRAKPMessage4ICV ← ICV(sik)",
    "calculateSIK ← SIK(effectiveBMCKey)",
    "executeHash ← additionalKeyMaterialGenerator.hash ← K(sik)"] := by decide

end Bmc.Proofs.GenKeys
