import Bmc.Lemmas.GenKeys
/-! `calculateRAKPMessage3AuthCode`: the bytes the function re-translated from the Go source on every run writes into its hash are
    the message of the model's `rakp3Code` (see `Proofs/GenKeys/SIK.lean` for the conventions). -/
namespace Bmc.Proofs.GenKeys
open Bmc Bmc.Wire Bmc.Crypto Bmc.Proto Bmc.Gen.Keys Bmc.Lemmas.GenKeys

/-- pins `Proto.rakp3Code`: the RAKP 3 code the model transmits is the keyed hash, under the password, of exactly the bytes
    `calculateRAKPMessage3AuthCode` writes: R_C ‖ SID_M ‖ Role_M ‖ ULength_M ‖ UName_M -/
theorem calculateRAKPMessage3AuthCode_input_eq (C : Ops) (h : HashAlg) (o : Opts) (rm : Bytes) (osr : OpenSessionRsp) (rk2 : RAKP2)
    (g1 : RAKPMessage1) (g2 : RAKPMessage2) (h1 : Rakp1Is g1 o rm osr) (h2 : Rakp2Is g2 rk2) :
    rakp3Code C h o rk2 = C.hmac h o.pass (calculateRAKPMessage3AuthCode_input g1 g2) := by
  simp (disch := len4) only [rakp3Code, calculateRAKPMessage3AuthCode_input, h1.privilegeLevelLookup,
    h1.maxPrivilegeLevel, h1.username, h2.managedSystemRandom, role_eq, List.nil_append,
    List.append_assoc, List.cons_append, putUint32LE_eq, h2.remoteConsoleSessionID]

example (C : Ops) (h : HashAlg) (o : Opts) (rm : Bytes) (osr : OpenSessionRsp) (rk2 : RAKP2)
    (hs : osr.bmcSessionID < 4294967296) (hc : rk2.consoleSessionID < 4294967296) :
    rakp3Code C h o rk2 = C.hmac h o.pass (calculateRAKPMessage3AuthCode_input (rakp1Of o rm osr) (rakp2Of rk2)) :=
  calculateRAKPMessage3AuthCode_input_eq C h o rm osr rk2 _ _ (rakp1Of_is o rm osr hs) (rakp2Of_is rk2 hc)

end Bmc.Proofs.GenKeys
