import Bmc.Lemmas.GenKeys
/-! `calculateRAKPMessage2AuthCode`: the bytes the function re-translated from the Go source on every run writes into its hash are
    the message of the model's `rakp2Code` (see `Proofs/GenKeys/SIK.lean` for the conventions). -/
namespace Bmc.Proofs.GenKeys
open Bmc Bmc.Wire Bmc.Crypto Bmc.Proto Bmc.Gen.Keys Bmc.Lemmas.GenKeys

/-- pins `Proto.rakp2Code`: the RAKP 2 code the model expects is the keyed hash, under the password, of exactly the bytes
    `calculateRAKPMessage2AuthCode` writes: SID_M ‖ SID_C ‖ R_M ‖ R_C ‖ GUID_C ‖ Role_M ‖ ULength_M ‖ UName_M (the 4-byte
    buffer is written, hashed, overwritten and hashed again) -/
theorem calculateRAKPMessage2AuthCode_input_eq (C : Ops) (h : HashAlg) (o : Opts) (rm : Bytes) (osr : OpenSessionRsp) (rk2 : RAKP2)
    (g1 : RAKPMessage1) (g2 : RAKPMessage2) (h1 : Rakp1Is g1 o rm osr) (h2 : Rakp2Is g2 rk2) :
    rakp2Code C h o rm osr rk2 = C.hmac h o.pass (calculateRAKPMessage2AuthCode_input g1 g2) := by
  simp (disch := len4) only [rakp2Code, calculateRAKPMessage2AuthCode_input, h1.remoteConsoleRandom, h1.privilegeLevelLookup,
    h1.maxPrivilegeLevel, h1.username, h2.managedSystemRandom, h2.managedSystemGUID, role_eq, List.nil_append,
    List.append_assoc, List.cons_append, putUint32LE_eq, h1.managedSystemSessionID, h2.remoteConsoleSessionID]

example (C : Ops) (h : HashAlg) (o : Opts) (rm : Bytes) (osr : OpenSessionRsp) (rk2 : RAKP2)
    (hs : osr.bmcSessionID < 4294967296) (hc : rk2.consoleSessionID < 4294967296) :
    rakp2Code C h o rm osr rk2 = C.hmac h o.pass (calculateRAKPMessage2AuthCode_input (rakp1Of o rm osr) (rakp2Of rk2)) :=
  calculateRAKPMessage2AuthCode_input_eq C h o rm osr rk2 _ _ (rakp1Of_is o rm osr hs) (rakp2Of_is rk2 hc)

end Bmc.Proofs.GenKeys
