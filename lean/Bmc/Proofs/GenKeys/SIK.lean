import Bmc.Lemmas.GenKeys
/-! # The key-derivation code RE-TRANSLATED from the Go source on every run is the handshake model's (property-support theorems)

`Bmc.Gen.Keys.F_input` is emitted by `tools/keygen` from `F` of authenticator.go as the source stands now, statement by
statement: the byte string `F` writes into its `hash.Hash`, in order (the function then returns `Sum(nil)` of it — the
contract of `hash.Hash` stated in the header of `Gen/Keys.lean` is the trusted assumption). Each theorem says that this byte
string IS the message the hand model (`Proto/Handshake.lean`) applies `C.hmac` to, for every value of every field, through
the field correspondence `Rakp1Is` / `Rakp2Is` (`Lemmas/GenKeys.lean`: the Go structs' fields ↔ `Opts`, the console random,
`OpenSessionRsp`, `RAKP2`). One obligation per module, so that a function whose translation changes breaks its own theorem only. -/
namespace Bmc.Proofs.GenKeys
open Bmc Bmc.Wire Bmc.Crypto Bmc.Proto Bmc.Gen.Keys Bmc.Lemmas.GenKeys

/-- pins `Proto.sikOf`: the SIK of the model is the keyed hash (key: K_G, or the password when K_G is empty — the
    `effectiveBMCKey` of `newV2Session`, see `Gen.Keys.hashOf`) of exactly the bytes `calculateSIK` writes:
    R_M ‖ R_C ‖ Role_M ‖ ULength_M ‖ UName_M -/
theorem calculateSIK_input_eq (C : Ops) (h : HashAlg) (o : Opts) (rm : Bytes) (osr : OpenSessionRsp) (rk2 : RAKP2)
    (g1 : RAKPMessage1) (g2 : RAKPMessage2) (h1 : Rakp1Is g1 o rm osr) (h2 : Rakp2Is g2 rk2) :
    sikOf C h o rm rk2 = C.hmac h (if o.kg.isEmpty then o.pass else o.kg) (calculateSIK_input g1 g2) := by
  simp only [sikOf, calculateSIK_input, h1.remoteConsoleRandom, h1.privilegeLevelLookup, h1.maxPrivilegeLevel, h1.username,
    h2.managedSystemRandom, role_eq, List.nil_append, List.append_assoc, List.cons_append]

/-- the hypotheses are satisfiable: the `rakpMessage1` literal of `newV2Session` (regenerated) and the decoded RAKP 2 -/
example (C : Ops) (h : HashAlg) (o : Opts) (rm : Bytes) (osr : OpenSessionRsp) (rk2 : RAKP2)
    (hs : osr.bmcSessionID < 4294967296) (hc : rk2.consoleSessionID < 4294967296) :
    sikOf C h o rm rk2 = C.hmac h (if o.kg.isEmpty then o.pass else o.kg) (calculateSIK_input (rakp1Of o rm osr) (rakp2Of rk2)) :=
  calculateSIK_input_eq C h o rm osr rk2 _ _ (rakp1Of_is o rm osr hs) (rakp2Of_is rk2 hc)

end Bmc.Proofs.GenKeys
